/-
Specification and helper lemmas for the name model (C09).
Property theorems are in `Pep508/Theorems/C09.lean`.
-/
import Pep508.Model.Names
namespace Pep508.Names
def allowed (b : Nat) : Bool := isAlnum b || isSep b
def lower (b : Nat) : Nat := if isUpper b then b + 32 else b
def ValidName (s : List Nat) : Prop :=
  s ≠ [] ∧ (∀ b ∈ s, allowed b = true) ∧
  (∀ b, s.head? = some b → isAlnum b = true) ∧ (∀ b, s.getLast? = some b → isAlnum b = true)
def normSpec : List Nat → List Nat
  | [] => []
  | b :: rest =>
    if isSep b then
      match rest with
      | [] => [45]
      | c :: _ => if isSep c then normSpec rest else 45 :: normSpec rest
    else lower b :: normSpec rest

def tailSpec : List Nat → Last → Option (List Nat × Last)
  | [], last => some ([], last)
  | b :: rest, last =>
    if isSep b then
      match last with
      | .none => none
      | .sep => tailSpec rest .sep
      | .other => match tailSpec rest .sep with
        | none => none
        | some (r, l) => some (45 :: r, l)
    else if isAlnum b then
      match tailSpec rest .other with
      | none => none
      | some (r, l) => some (lower b :: r, l)
    else none
theorem sep_not_alnum {b : Nat} (h : isSep b = true) : isAlnum b = false := by
  simp [isSep] at h
  rcases h with (h | h) | h <;> subst h <;> decide
theorem alnum_cases (b : Nat) : isAlnum b = (isUpper b || (isLower b || isDigit b)) := by
  simp [isAlnum, Bool.or_assoc]
theorem lowdig_not_upper {b} (h : (isLower b || isDigit b) = true) : isUpper b = false := by
  simp [isLower, isDigit, isUpper] at *
  omega

theorem upper_not_sep {b} (h : isUpper b = true) : isSep b = false := by
  cases hs : isSep b with
  | false => rfl
  | true => have := sep_not_alnum hs; simp [isAlnum, h] at this
theorem lowdig_not_sep {b} (h : (isLower b || isDigit b) = true) : isSep b = false := by
  cases hs : isSep b with
  | false => rfl
  | true =>
    have := sep_not_alnum hs
    simp [isAlnum] at this
    simp [this] at h
theorem refLoop_eq (s : List Nat) (last : Last) (acc : List Nat) :
    refLoop s last acc = match tailSpec s last with
      | none => none
      | some (r, l) => some (acc ++ r, l) := by
  induction s generalizing last acc with
  | nil => simp [refLoop, tailSpec]
  | cons b rest ih =>
    unfold refLoop tailSpec
    by_cases hu : isUpper b = true
    · have hs := upper_not_sep hu
      have hal : isAlnum b = true := by simp [isAlnum, hu]
      simp only [hu, hs, hal, if_true, Bool.false_eq_true, if_false, ih, Last.of]
      cases tailSpec rest .other <;> simp [lower, hu]
    · by_cases hl : (isLower b || isDigit b) = true
      · have hs := lowdig_not_sep hl
        have hal : isAlnum b = true := by rw [alnum_cases]; simp [hl]
        simp only [hu, hl, hs, hal, if_true, Bool.false_eq_true, if_false, ih, Last.of]
        cases tailSpec rest .other <;> simp [lower, hu]
      · have hal : isAlnum b = false := by rw [alnum_cases]; simp [hu, hl]
        by_cases hs : isSep b = true
        · simp only [hu, hl, hs, if_true, Bool.false_eq_true, if_false, ih, Last.of]
          cases last <;> simp only [] <;> cases tailSpec rest .sep <;> simp
        · simp [hu, hl, hs, hal]

theorem tailSpec_isSome (s : List Nat) (last : Last) :
    (tailSpec s last).isSome = true ↔
      (∀ b ∈ s, allowed b = true) ∧ (last = .none → ∀ b, s.head? = some b → isSep b = false) := by
  fun_induction tailSpec s last <;> grind [allowed, sep_not_alnum, List.mem_cons_self]

theorem getLast?_cons' (b : Nat) (rest : List Nat) :
    (b :: rest).getLast? = some (match rest.getLast? with | none => b | some c => c) := by
  cases rest with
  | nil => rfl
  | cons c t => rw [List.getLast?_cons_cons]; cases h : (c :: t).getLast? with
    | none => simp at h
    | some x => rfl

theorem tailSpec_last (s : List Nat) (last : Last) (r : List Nat) (l : Last)
    (h : tailSpec s last = some (r, l)) :
    l = match s.getLast? with | none => last | some b => Last.of b := by
  fun_induction tailSpec s last generalizing r <;> (try simp only [getLast?_cons']) <;> grind [Last.of, sep_not_alnum]

theorem validateRef_eq (s : List Nat) :
    validateRef s =
      if s.isEmpty then none else
      match tailSpec s .none with
      | none => none
      | some (r, last) => if last == .sep then none else some r := by
  unfold validateRef
  rw [refLoop_eq]
  cases h : tailSpec s .none with
  | none => simp
  | some p => simp


theorem validateRef_isSome_iff (s : List Nat) : (validateRef s).isSome = true ↔ ValidName s := by
  rw [validateRef_eq]
  unfold ValidName
  cases s with
  | nil => simp
  | cons a t =>
    have h1 := tailSpec_isSome (a :: t) .none
    have hmem : ∀ x, (a :: t).getLast? = some x → x ∈ a :: t := fun x hx => List.mem_of_getLast? hx
    simp only [getLast?_cons'] at hmem ⊢
    generalize hz : (match t.getLast? with | none => a | some c => c) = z at *
    have hz' := hmem z rfl
    simp only [List.head?_cons, Option.some.injEq, forall_eq', List.isEmpty_cons,
      Bool.false_eq_true, if_false, ne_eq, reduceCtorEq, not_false_eq_true, true_and] at h1 ⊢
    cases h : tailSpec (a :: t) .none with
    | none =>
      rw [h] at h1
      have := List.mem_cons_self (a := a) (l := t)
      grind [allowed, sep_not_alnum]
    | some p =>
      obtain ⟨r, l⟩ := p
      have h2 := tailSpec_last _ _ _ _ h
      rw [h] at h1
      simp only [getLast?_cons', hz] at h2
      have := List.mem_cons_self (a := a) (l := t)
      grind [allowed, sep_not_alnum, Last.of]

theorem normSpec_sep_congr (c d : Nat) (t : List Nat) (hc : isSep c = true) (hd : isSep d = true) :
    normSpec (c :: t) = normSpec (d :: t) := by
  simp [normSpec, hc, hd]

theorem sep45 : isSep 45 = true := by decide

theorem tailSpec_norm (s : List Nat) (last : Last) (r : List Nat) (l : Last)
    (h : tailSpec s last = some (r, l)) (hl : l ≠ .sep) :
    (if last = .sep then 45 :: r else r) = normSpec (if last = .sep then 45 :: s else s) := by
  fun_induction tailSpec s last generalizing r
  · grind [normSpec]
  · grind
  · rename_i b rest h1 ih
    have := ih r h
    simp only [if_true] at this ⊢
    rw [this]
    simp [normSpec, sep45, h1]
  · grind
  · rename_i b rest h1 r' l' h2 ih
    have := ih r' (by grind)
    simp only [if_true, reduceCtorEq, if_false] at this ⊢
    have e : r = 45 :: r' := by grind
    rw [e, this]
    exact normSpec_sep_congr _ _ _ sep45 h1
  · grind
  · rename_i b rest last h1 h2 r' l' h3 ih
    have := ih r' (by grind)
    simp only [reduceCtorEq, if_false] at this
    have e : r = lower b :: r' := by grind
    have hs : isSep b = false := by simpa using h1
    rw [e, this]
    split <;> simp [normSpec, sep45, hs]
  · grind

theorem validateRef_eq_normSpec (s r : List Nat) (h : validateRef s = some r) : r = normSpec s := by
  rw [validateRef_eq] at h
  cases s with
  | nil => simp at h
  | cons a t =>
    cases ht : tailSpec (a :: t) .none with
    | none => simp [ht] at h
    | some p =>
      obtain ⟨r', l⟩ := p
      have := tailSpec_norm _ _ _ _ ht
      grind

theorem lower_facts (b : Nat) (h : isAlnum b = true) :
    isAlnum (lower b) = true ∧ isSep (lower b) = false ∧ lower (lower b) = lower b ∧ isUpper (lower b) = false := by
  unfold lower
  by_cases hu : isUpper b = true
  · simp only [hu, if_true]
    simp [isUpper] at hu
    have h1 : isLower (b + 32) = true := by simp [isLower]; omega
    have h2 : isUpper (b + 32) = false := by simp [isUpper]; omega
    refine ⟨by simp [isAlnum, h1], lowdig_not_sep (by simp [h1]), by simp [h2], h2⟩
  · simp only [hu]
    refine ⟨h, ?_, by simp [hu], by simpa using hu⟩
    cases hs : isSep b with
    | false => simp [hs]
    | true => have := sep_not_alnum hs; simp_all

theorem tailSpec_idem (s : List Nat) (last : Last) (r : List Nat) (l : Last)
    (h : tailSpec s last = some (r, l)) (hl : l ≠ .sep) :
    ∀ last', (last = .sep ∨ last' = last) → ∃ l', l' ≠ .sep ∧ tailSpec r last' = some (r, l') := by
  fun_induction tailSpec s last generalizing r
  · grind [tailSpec]
  · grind
  · rename_i b rest h1 ih
    intro last' _
    exact ih r h last' (Or.inl rfl)
  · grind
  · rename_i b rest h1 r' l' h2 ih
    intro last' hlast
    have e : r = 45 :: r' := by grind
    obtain ⟨l'', h3, h4⟩ := ih r' (by grind) .sep (Or.inl rfl)
    have : last' = .other := by grind
    subst this e
    exact ⟨l'', h3, by simp [tailSpec, sep45, h4]⟩
  · grind
  · rename_i b rest last h1 h2 r' l' h3 ih
    intro last' hlast
    have e : r = lower b :: r' := by grind
    obtain ⟨l'', h4, h5⟩ := ih r' (by grind) .other (Or.inr rfl)
    obtain ⟨f1, f2, f3, f4⟩ := lower_facts b (by simpa using h2)
    subst e
    exact ⟨l'', h4, by simp [tailSpec, f1, f2, f3, h5]⟩
  · grind

/-- **C09 (idempotence)**: a stored name is accepted and is its own normal form. -/
theorem validateRef_idem (s r : List Nat) (h : validateRef s = some r) : validateRef r = some r := by
  rw [validateRef_eq] at h ⊢
  cases s with
  | nil => simp at h
  | cons a t =>
    cases ht : tailSpec (a :: t) .none with
    | none => simp [ht] at h
    | some p =>
      obtain ⟨r', l⟩ := p
      have hl : l ≠ .sep := by grind
      obtain ⟨l', h1, h2⟩ := tailSpec_idem _ _ _ _ ht hl .none (Or.inr rfl)
      have e : r = r' := by grind
      subst e
      have hne : r ≠ [] := by
        intro hc; subst hc
        have := tailSpec_isSome (a :: t) .none
        simp [tailSpec] at ht
        grind
      cases r with
      | nil => exact absurd rfl hne
      | cons x xs => simp [h2, h1]



theorem isNormLoop_spec (s : List Nat) (last : Last) (d : Bool) :
    (isNormLoop s last d = .yes → ∃ l, l ≠ .sep ∧ tailSpec s last = some (s, l)) ∧
    (isNormLoop s last d = .err → tailSpec s last = none ∨ ∃ r, tailSpec s last = some (r, .sep)) := by
  induction s generalizing last d with
  | nil => cases last <;> simp [isNormLoop, tailSpec]
  | cons b rest ih =>
    unfold isNormLoop tailSpec
    by_cases hu : isUpper b = true
    · simp [hu]
    · by_cases hl : (isLower b || isDigit b) = true
      · have hs := lowdig_not_sep hl
        have hal : isAlnum b = true := by rw [alnum_cases]; simp [hl]
        have hlow : lower b = b := by simp [lower, hu]
        have := ih .other false
        simp only [hu, hl, hs, hal, hlow, Last.of, if_true, Bool.false_eq_true, if_false]
        grind
      · have hal : isAlnum b = false := by rw [alnum_cases]; simp [hu, hl]
        by_cases h95 : (b == 95 || b == 46) = true
        · simp [hu, hl, h95]
        · by_cases h45 : (b == 45) = true
          · have e : b = 45 := by simpa using h45
            subst e
            have := ih .sep true
            simp only [sep45, Last.of, if_true] at this ⊢
            cases last <;> simp <;> grind
          · have hs : isSep b = false := by simp [isSep] at *; grind
            simp [hu, hl, h95, h45, hs, hal]

/-- **C09 (constructors agree)**: the owned constructor (fast path + slow path) returns exactly
    what the borrowed one returns, on every input. -/
theorem validateOwned_eq_validateRef (s : List Nat) : validateOwned s = validateRef s := by
  unfold validateOwned isNormalized
  cases s with
  | nil => simp [validateRef]
  | cons a t =>
    have := isNormLoop_spec (a :: t) .none false
    rw [validateRef_eq]
    simp only [List.isEmpty_cons, Bool.false_eq_true, if_false]
    cases h : isNormLoop (a :: t) .none false <;> simp only [] <;> grind [validateRef_eq]

/-- the fast path says "already normalized" exactly for the fixed points of normalization -/
theorem isNormalized_yes (s : List Nat) (h : isNormalized s = .yes) :
    validateRef s = some s := by
  have := validateOwned_eq_validateRef s
  simp [validateOwned, h] at this
  exact this.symm

/-- **C09 (dist-info)**: the escaped name is the stored name with every `-` replaced by `_`. -/
theorem distInfo_eq_map (s : List Nat) :
    distInfo s = s.map (fun c => if c == 45 then 95 else c) := by
  unfold distInfo
  induction s with
  | nil => simp
  | cons a t ih =>
    rw [List.idxOf?_cons]
    by_cases ha : a = 45
    · subst ha; simp
    · have ha' : (a == 45) = false := by simpa using ha
      simp only [ha', if_false, Bool.false_eq_true]
      cases h : t.idxOf? 45 with
      | none =>
        rw [h] at ih
        simp only [Option.map_none, List.map_cons, ha', Bool.false_eq_true, if_false]
        exact congrArg _ ih
      | some i =>
        rw [h] at ih
        simp only [Option.map_some, List.map_cons, ha', Bool.false_eq_true, if_false,
          List.take_succ_cons, List.drop_succ_cons, List.cons_append]
        exact congrArg _ ih

end Pep508.Names
