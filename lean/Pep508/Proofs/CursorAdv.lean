/-
Cursor "framing" lemmas: what the lexing primitives do on a cursor standing at `s ++ rest`, in
terms of `Cursor.adv c s` (the cursor advanced over exactly the chars `s`).  Used to prove that the
marker parser is compositional (MarkerLayout.lean) and that atoms parse the same in every context
(AtomFrame.lean).
-/
import Pep508.Proofs.FuelMono
namespace Pep508

open Cursor

/-- the first char of `r` (if any) fails `p` -/
def HeadNot (p : Char → Bool) (r : List Char) : Prop := ∀ ch, r.head? = some ch → p ch = false

theorem HeadNot.nil (p : Char → Bool) : HeadNot p [] := by intro ch h; simp at h

theorem HeadNot.cons {p : Char → Bool} {ch : Char} (tl : List Char) (h : p ch = false) :
    HeadNot p (ch :: tl) := by
  intro ch' h'; simp at h'; subst h'; exact h

theorem HeadNot.append {p : Char → Bool} {s : List Char} (t : List Char) (hs : s ≠ [])
    (h : HeadNot p s) : HeadNot p (s ++ t) := by
  cases s with
  | nil => exact absurd rfl hs
  | cons a s => intro ch h'; exact h ch (by simpa using h')

/-- all chars of `s` satisfy `p` -/
def AllP (p : Char → Bool) (s : List Char) : Prop := ∀ ch ∈ s, p ch = true

instance (p : Char → Bool) (s : List Char) : Decidable (AllP p s) := by
  unfold AllP; infer_instance

theorem AllP.nil (p : Char → Bool) : AllP p [] := by intro ch h; simp at h

theorem AllP.tail {p : Char → Bool} {a : Char} {s : List Char} (h : AllP p (a :: s)) : AllP p s :=
  fun ch hc => h ch (List.mem_cons_of_mem _ hc)

theorem AllP.head {p : Char → Bool} {a : Char} {s : List Char} (h : AllP p (a :: s)) : p a = true :=
  h a (List.mem_cons_self)

theorem takeWhile_allP (p : Char → Bool) (l : List Char) : AllP p (l.takeWhile p) := by
  induction l with
  | nil => exact AllP.nil p
  | cons a l ih =>
    rw [List.takeWhile_cons]
    by_cases h : p a = true
    · simp only [h, if_true]
      intro ch hc
      rcases List.mem_cons.1 hc with rfl | hc
      · exact h
      · exact ih ch hc
    · simp only [h]; exact AllP.nil p

theorem skipWhile_append (p : Char → Bool) (s r : List Char) (pos : Nat) (hs : AllP p s)
    (hr : HeadNot p r) : skipWhile p (s ++ r) pos = (r, pos + strLen s) := by
  induction s generalizing pos with
  | nil =>
    cases r with
    | nil => simp [skipWhile]
    | cons ch tl =>
      have := hr ch rfl
      simp [skipWhile, this]
  | cons a s ih =>
    rw [List.cons_append, skipWhile]
    simp only [hs.head, if_true]
    rw [ih _ hs.tail]
    simp [Nat.add_assoc]

theorem skipWhile_eq (p : Char → Bool) (l : List Char) (pos : Nat) :
    skipWhile p l pos = (l.dropWhile p, pos + strLen (l.takeWhile p)) := by
  induction l generalizing pos with
  | nil => simp [skipWhile]
  | cons a l ih =>
    rw [skipWhile]
    by_cases h : p a = true
    · simp only [h, if_true, List.dropWhile_cons, List.takeWhile_cons]
      rw [ih]; simp [Nat.add_assoc]
    · simp [h]

theorem dropWhile_headNot (p : Char → Bool) (l : List Char) : HeadNot p (l.dropWhile p) := by
  intro ch h
  have := List.head?_dropWhile_not p l
  rw [h] at this
  exact this

theorem dropWhile_append_all (p : Char → Bool) (s r : List Char) (hs : AllP p s) (hr : HeadNot p r) :
    (s ++ r).dropWhile p = r := by
  induction s with
  | nil =>
    cases r with
    | nil => rfl
    | cons ch tl => simp [hr ch rfl]
  | cons a s ih => simp [hs.head, ih hs.tail]

theorem takeWhile_append_all (p : Char → Bool) (s r : List Char) (hs : AllP p s) (hr : HeadNot p r) :
    (s ++ r).takeWhile p = s := by
  induction s with
  | nil =>
    cases r with
    | nil => rfl
    | cons ch tl => simp [hr ch rfl]
  | cons a s ih => simp [hs.head, ih hs.tail]

namespace Cursor

/-- the cursor advanced over exactly the chars `s` (meaningful when `c.rest = s ++ _`) -/
def adv (c : Cursor) (s : List Char) : Cursor := ⟨c.input, c.rest.drop s.length, c.pos + strLen s⟩

@[simp] theorem adv_input (c : Cursor) (s : List Char) : (c.adv s).input = c.input := rfl

@[simp] theorem adv_pos (c : Cursor) (s : List Char) : (c.adv s).pos = c.pos + strLen s := rfl

theorem adv_nil (c : Cursor) : c.adv [] = c := by
  cases c; simp [adv]

theorem adv_adv (c : Cursor) (s t : List Char) : (c.adv s).adv t = c.adv (s ++ t) := by
  simp [adv, List.drop_drop, Nat.add_assoc]

theorem adv_rest {c : Cursor} {s r : List Char} (h : c.rest = s ++ r) : (c.adv s).rest = r := by
  simp [adv, h]

theorem adv_inv {c : Cursor} {s r : List Char} (hi : c.Inv) (h : c.rest = s ++ r) : (c.adv s).Inv := by
  obtain ⟨pre, h1, h2⟩ := hi
  refine ⟨pre ++ s, ?_, ?_⟩
  · rw [adv_rest h, adv_input, h1, h, List.append_assoc]
  · simp [adv, h2]

theorem eatWhitespace_eq (c : Cursor) :
    c.eatWhitespace = ⟨c.input, c.rest.dropWhile isWs, c.pos + strLen (c.rest.takeWhile isWs)⟩ := by
  simp [eatWhitespace, skipWhile_eq]

@[simp] theorem eatWhitespace_rest_eq (c : Cursor) : c.eatWhitespace.rest = c.rest.dropWhile isWs := by
  rw [eatWhitespace_eq]

/-- whitespace run followed by a non-blank (or the end): `eat_whitespace` skips exactly the run -/
theorem eatWs_adv {c : Cursor} {ws r : List Char} (h : c.rest = ws ++ r) (hws : AllP isWs ws)
    (hr : HeadNot isWs r) : c.eatWhitespace = c.adv ws := by
  simp [eatWhitespace, h, skipWhile_append isWs ws r c.pos hws hr, adv]

theorem eatWs_id {c : Cursor} (hr : HeadNot isWs c.rest) : c.eatWhitespace = c := by
  have := eatWs_adv (c := c) (ws := []) (r := c.rest) rfl (AllP.nil _) hr
  rw [this, adv_nil]

theorem eatWs_idem (c : Cursor) : c.eatWhitespace.eatWhitespace = c.eatWhitespace :=
  eatWs_id (by rw [eatWhitespace_rest_eq]; exact dropWhile_headNot isWs c.rest)

/-- skipping a leading blank run first does not change `eat_whitespace` -/
theorem eatWs_skip {c : Cursor} {ws r : List Char} (h : c.rest = ws ++ r) (hws : AllP isWs ws) :
    (c.adv ws).eatWhitespace = c.eatWhitespace := by
  have h1 : r = r.takeWhile isWs ++ r.dropWhile isWs := List.takeWhile_append_dropWhile.symm
  have hd := dropWhile_headNot isWs r
  have e1 : (c.adv ws).eatWhitespace = (c.adv ws).adv (r.takeWhile isWs) :=
    eatWs_adv (by rw [adv_rest h]; exact h1) (takeWhile_allP isWs r) hd
  have e2 : c.eatWhitespace = c.adv (ws ++ r.takeWhile isWs) := by
    refine eatWs_adv (r := r.dropWhile isWs) ?_ ?_ hd
    · rw [h, List.append_assoc, ← h1]
    · intro ch hc
      rcases List.mem_append.1 hc with hc | hc
      · exact hws ch hc
      · exact takeWhile_allP isWs r ch hc
  rw [e1, e2, adv_adv]

theorem takeWhile_adv {c : Cursor} {s r : List Char} (p : Char → Bool) (h : c.rest = s ++ r)
    (hs : AllP p s) (hr : HeadNot p r) : c.takeWhile p = ((c.pos, strLen s), c.adv s) := by
  simp [takeWhile, h, skipWhile_append p s r c.pos hs hr, adv]

theorem slice_adv {c : Cursor} {s r : List Char} (hi : c.Inv) (h : c.rest = s ++ r) :
    c.slice c.pos (strLen s) = some s := by
  obtain ⟨pre, h1, h2⟩ := hi
  unfold slice
  rw [h1, h, h2, ← List.append_assoc]
  exact sliceBytes_append pre s r

/-- the word seen by `peek_while` is sliceable and is the maximal run -/
theorem peekWhile_word {c : Cursor} (hi : c.Inv) (p : Char → Bool) :
    c.slice (c.peekWhile p).1 (c.peekWhile p).2 = some (c.rest.takeWhile p) := by
  have h : c.rest = c.rest.takeWhile p ++ c.rest.dropWhile p := List.takeWhile_append_dropWhile.symm
  have := takeWhile_adv p h (takeWhile_allP p c.rest) (dropWhile_headNot p c.rest)
  unfold peekWhile
  rw [this]
  exact slice_adv hi h

theorem next_adv {c : Cursor} {ch : Char} {r : List Char} (h : c.rest = ch :: r) :
    c.next = some ((c.pos, ch), c.adv [ch]) := by
  simp [next, h, adv]

theorem peek_cons {c : Cursor} {ch : Char} {r : List Char} (h : c.rest = ch :: r) :
    c.peek = some (c.pos, ch) := by
  simp [peek, h]

theorem eatChar_adv {c : Cursor} {ch : Char} {r : List Char} (h : c.rest = ch :: r) :
    c.eatChar ch = some (c.pos, c.adv [ch]) := by
  simp [eatChar, h, adv]

theorem eatChar_ne {c : Cursor} {ch tok : Char} {r : List Char} (h : c.rest = ch :: r) (hne : ch ≠ tok) :
    c.eatChar tok = none := by
  simp [eatChar, h, hne]

end Cursor

theorem nextExpectChar_adv {c : Cursor} {ch : Char} {r : List Char} (h : c.rest = ch :: r) (sp : Nat) :
    nextExpectChar c ch sp = .ok (c.adv [ch]) := by
  simp [nextExpectChar, next_adv h]

end Pep508
