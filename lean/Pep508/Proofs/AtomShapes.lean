/-
Atom coverage for the marker layout theorems: EVERY comparison shape `value OP value` — each value a
key name of the `MarkerValue::from_str` table or a quoted string, `OP` a symbolic operator, `in`, or
`not in` with any blanks between the two words — satisfies `AtomOK`, with `dispatch` as its meaning.
The side conditions (`Glue`) are exactly the token boundaries the lexer needs.
-/
import Pep508.Proofs.AtomFrame
namespace Pep508
open Cursor

/-! ### key names -/

def keyNames : List String :=
  ["implementation_name", "implementation_version", "os_name", "os.name", "platform_machine",
   "platform.machine", "platform_python_implementation", "platform.python_implementation",
   "python_implementation", "platform_release", "platform_system", "platform_version",
   "platform.version", "python_full_version", "python_version", "sys_platform", "sys.platform", "extra"]

theorem keyOfName_mem {s : String} {kv : MValue} (h : keyOfName s = some kv) : s ∈ keyNames := by
  unfold keyOfName at h
  split at h <;> first | (simp [keyNames]; done) | cases h

/-- what the lexer needs of a key name: identifier chars only, does not end with a quote, starts
with a char that is no quote, `(`, blank or operator char -/
def keyProp (k : List Char) : Bool :=
  k.all idChar && !endsQuote k &&
    match k with
    | ch :: _ => !isQuote ch && !(ch == '(') && !isWs ch && !symChar ch
    | [] => false

theorem keyNames_prop : ∀ s ∈ keyNames, keyProp s.toList = true := by decide

theorem keyProp_of {k : List Char} {kv : MValue} (h : keyOfName (String.ofList k) = some kv) :
    keyProp k = true := by
  have := keyNames_prop _ (keyOfName_mem h)
  rwa [String.toList_ofList] at this

theorem keyProp_spec {k : List Char} (h : keyProp k = true) :
    AllP idChar k ∧ endsQuote k = false ∧ ∃ ch tl, k = ch :: tl ∧ isQuote ch = false ∧ ch ≠ '(' ∧
      isWs ch = false ∧ symChar ch = false := by
  unfold keyProp at h
  cases k with
  | nil => simp at h
  | cons ch tl =>
    simp only [Bool.and_eq_true, List.all_eq_true] at h
    obtain ⟨⟨h1, h2⟩, ⟨⟨h3, h4⟩, h5⟩, h6⟩ := h
    exact ⟨fun c hc => Bool.and_eq_true _ _ ▸ h1 c hc, by simpa using h2, ch, tl, rfl, by simpa using h3, by simpa using h4,
      by simpa using h5, by simpa using h6⟩

/-! ### the word operators -/

theorem parseMarkerOperator_in (x : Ext) {c : Cursor} {r : List Char} (hi : c.Inv)
    (hrest : c.rest = ['i', 'n'] ++ r) (hr : HeadNot alphaRun r) (ha : x.alpha 'i' = true) :
    parseMarkerOperator x c = .ok (.isIn, c.adv ['i', 'n']) := by
  have hpk : c.peekChar = some 'i' := by simp [peekChar, hrest]
  unfold parseMarkerOperator
  rw [hpk]
  simp only [ha, if_true]
  rw [takeWhile_adv alphaRun hrest (by decide) hr]
  simp only [slice_of_adv, slice_adv hi hrest, Res.ofSlice]
  rfl

theorem parseMarkerOperator_notIn (x : Ext) {c : Cursor} {wn r : List Char} (hi : c.Inv)
    (hrest : c.rest = ['n', 'o', 't'] ++ (wn ++ (['i', 'n'] ++ r))) (hwn : AllP isWs wn) (hne : wn ≠ [])
    (ha : x.alpha 'n' = true) :
    parseMarkerOperator x c = .ok (.notIn, c.adv (['n', 'o', 't'] ++ (wn ++ ['i', 'n']))) := by
  obtain ⟨w, wn', rfl⟩ : ∃ w wn', wn = w :: wn' := by
    cases wn with
    | nil => exact absurd rfl hne
    | cons w wn' => exact ⟨w, wn', rfl⟩
  have hpk : c.peekChar = some 'n' := by simp [peekChar, hrest]
  have hi1 := adv_inv hi hrest
  have hr1 : (c.adv ['n', 'o', 't']).rest = w :: (wn' ++ (['i', 'n'] ++ r)) := adv_rest hrest
  have hr1' : (c.adv ['n', 'o', 't']).rest = [w] ++ (wn' ++ ('i' :: ('n' :: r))) := hr1
  have hi2 := adv_inv hi1 hr1'
  have hr2 := adv_rest hr1'
  have e3 : ((c.adv ['n', 'o', 't']).adv [w]).eatWhitespace = ((c.adv ['n', 'o', 't']).adv [w]).adv wn' :=
    eatWs_adv hr2 hwn.tail (HeadNot.cons _ (by decide))
  have hr3 := adv_rest hr2
  have hr3' : (((c.adv ['n', 'o', 't']).adv [w]).adv wn').rest = ['i'] ++ ('n' :: r) := hr3
  have hr4 := adv_rest hr3'
  unfold parseMarkerOperator
  rw [hpk]
  simp only [ha, if_true]
  rw [takeWhile_adv alphaRun hrest (by decide) (HeadNot.cons _ (ws_not_alphaRun hwn.head))]
  simp only [slice_of_adv, slice_adv hi hrest, Res.ofSlice]
  rw [if_pos (by decide)]
  rw [next_adv hr1]
  simp only [hwn.head, if_true]
  rw [e3, nextExpectChar_adv hr3]
  dsimp only
  rw [nextExpectChar_adv hr4]
  simp only [adv_adv, List.cons_append, List.nil_append, List.append_assoc]

/-! ### tokens -/

/-- a value token: a key name or a quoted string -/
inductive VTok where
  | key (k : List Char)
  | str (q : Char) (v : List Char)

/-- an operator token: symbolic, `in`, `not <blanks> in` -/
inductive OTok where
  | sym (o : List Char)
  | isIn
  | notIn (wn : List Char)

namespace VTok

def text : VTok → List Char
  | key k => k
  | str q v => q :: (v ++ [q])

def isKey : VTok → Bool
  | key _ => true
  | str _ _ => false

/-- the token is lexed as the value `kv` -/
def Lex : VTok → MValue → Prop
  | key k, kv => keyOfName (String.ofList k) = some kv
  | str q v, kv => isQuote q = true ∧ AllP (fun ch => ch != q) v ∧ kv = .quoted v

theorem head_spec {t : VTok} {kv : MValue} (h : t.Lex kv) :
    ∃ ch tl, t.text = ch :: tl ∧ isWs ch = false ∧ symChar ch = false ∧ ch ≠ '(' ∧
      (t.isKey = false → alphaRun ch = false) := by
  cases t with
  | key k =>
    obtain ⟨_, _, ch, tl, rfl, _, h3, h4, h5⟩ := keyProp_spec (keyProp_of h)
    exact ⟨ch, tl, rfl, h4, h5, h3, fun hk => by cases hk⟩
  | str q v =>
    obtain ⟨hq, _, _⟩ := h
    refine ⟨q, v ++ [q], rfl, quote_not_ws hq, quote_not_symChar hq, ?_, fun _ => quote_not_alphaRun hq⟩
    rcases quote_cases hq with rfl | rfl <;> decide

theorem headNot_ws {t : VTok} {kv : MValue} (h : t.Lex kv) (cont : List Char) :
    HeadNot isWs (t.text ++ cont) := by
  obtain ⟨ch, tl, he, hw, _⟩ := head_spec h
  rw [he]; exact HeadNot.cons _ hw

theorem headNot_sym {t : VTok} {kv : MValue} (h : t.Lex kv) (cont : List Char) :
    HeadNot symChar (t.text ++ cont) := by
  obtain ⟨ch, tl, he, _, hs, _⟩ := head_spec h
  rw [he]; exact HeadNot.cons _ hs

theorem ends {t : VTok} {kv : MValue} (h : t.Lex kv) (pre : List Char) :
    endsQuote (pre ++ t.text) = !t.isKey := by
  cases t with
  | key k =>
    obtain ⟨_, h2, ch, tl, rfl, _⟩ := keyProp_spec (keyProp_of h)
    unfold endsQuote at h2 ⊢
    rw [List.getLast?_append]
    cases hk : (ch :: tl).getLast? with
    | none => simp at hk
    | some c => rw [hk] at h2; simpa [isKey, text, hk] using h2
  | str q v =>
    obtain ⟨hq, _, _⟩ := h
    have : pre ++ (str q v).text = (pre ++ (q :: v)) ++ [q] := by simp [text]
    unfold endsQuote
    rw [this, List.getLast?_concat]
    rcases quote_cases hq with rfl | rfl <;> rfl

/-- the token followed by `cont` (which must end an identifier when the token is a key name) -/
theorem lex_spec {t : VTok} {kv : MValue} (h : t.Lex kv) {c : Cursor} {cont : List Char} (hi : c.Inv)
    (hrest : c.rest = t.text ++ cont) (hc : t.isKey = true → HeadNot idChar cont) :
    parseMarkerValue c = .ok (kv, c.adv t.text) := by
  cases t with
  | key k =>
    obtain ⟨h1, _, ch, tl, rfl, hq, _⟩ := keyProp_spec (keyProp_of h)
    exact parseMarkerValue_ident hi hrest h1 ⟨ch, tl, rfl, by simp [hq]⟩ (hc rfl) h
  | str q v =>
    obtain ⟨hq, hv, rfl⟩ := h
    have hr' : c.rest = q :: (v ++ q :: cont) := by rw [hrest]; simp [text]
    exact parseMarkerValue_quoted hi hr' hq hv

end VTok

namespace OTok

def text : OTok → List Char
  | sym o => o
  | isIn => ['i', 'n']
  | notIn wn => ['n', 'o', 't'] ++ (wn ++ ['i', 'n'])

def isWord : OTok → Bool
  | sym _ => false
  | _ => true

/-- the token is lexed as the operator `op`; the word operators need `char::is_alphabetic` to hold
of their first letter -/
def Lex (x : Ext) : OTok → MOp → Prop
  | sym o, op => AllP symChar o ∧ opOfToken (String.ofList o) = some op
  | isIn, op => x.alpha 'i' = true ∧ op = .isIn
  | notIn wn, op => x.alpha 'n' = true ∧ AllP isWs wn ∧ wn ≠ [] ∧ op = .notIn

theorem head_spec {x : Ext} {o : OTok} {op : MOp} (h : o.Lex x op) :
    ∃ ch tl, o.text = ch :: tl ∧ isWs ch = false ∧ (o.isWord = false → symChar ch = true) := by
  cases o with
  | sym o =>
    obtain ⟨ho, hop⟩ := h
    cases o with
    | nil => exact absurd rfl (sym_ne_nil hop)
    | cons a o => exact ⟨a, o, rfl, symChar_not_ws ho.head, fun _ => ho.head⟩
  | isIn => exact ⟨'i', _, rfl, by decide, fun hk => by cases hk⟩
  | notIn wn => exact ⟨'n', _, rfl, by decide, fun hk => by cases hk⟩

/-- what must follow the operator token -/
def After (x : Ext) : OTok → List Char → Prop
  | sym o, cont => HeadNot symChar cont ∧
      ((∀ ch, o.head? = some ch → x.alpha ch = true) → HeadNot alphaRun cont)
  | isIn, cont => HeadNot alphaRun cont
  | notIn _, _ => True

theorem lex_spec {x : Ext} {o : OTok} {op : MOp} (h : o.Lex x op) {c : Cursor} {cont : List Char}
    (hi : c.Inv) (hrest : c.rest = o.text ++ cont) (ha : o.After x cont) :
    parseMarkerOperator x c = .ok (op, c.adv o.text) := by
  cases o with
  | sym o => exact parseMarkerOperator_sym x hi hrest h.1 ha.1 ha.2 h.2
  | isIn =>
    obtain ⟨h1, rfl⟩ := h
    exact parseMarkerOperator_in x hi hrest ha h1
  | notIn wn =>
    obtain ⟨h1, h2, h3, rfl⟩ := h
    have hr' : c.rest = ['n', 'o', 't'] ++ (wn ++ (['i', 'n'] ++ cont)) := by rw [hrest]; simp [text]
    exact parseMarkerOperator_notIn x hi hr' h2 h3 h1

end OTok

/-! ### comparisons -/

/-- the text `l w1 o w2 r` -/
def atomLOR (l : VTok) (w1 : List Char) (o : OTok) (w2 : List Char) (r : VTok) : List Char :=
  l.text ++ (w1 ++ (o.text ++ (w2 ++ r.text)))

/-- token boundaries: a word operator after a key name needs a blank before it; `in` before a key
name needs a blank after it (`not in` does NOT: the lexer checks the two letters only); a symbolic
operator touching a key name on its right needs `is_alphabetic` false on operator chars -/
def Glue (x : Ext) (l : VTok) (w1 : List Char) (o : OTok) (w2 : List Char) (r : VTok) : Prop :=
  (l.isKey = true → o.isWord = true → w1 ≠ []) ∧
  (r.isKey = true → w2 = [] →
    match o with
    | .sym _ => ∀ ch, symChar ch = true → x.alpha ch = false
    | .isIn => False
    | .notIn _ => True)

theorem headNot_blank_or {p : Char → Bool} {ws t : List Char} (hws : AllP isWs ws)
    (hp : ∀ ch, isWs ch = true → p ch = false) (ht : ws = [] → HeadNot p t) : HeadNot p (ws ++ t) := by
  cases ws with
  | nil => exact ht rfl
  | cons a ws => exact HeadNot.cons _ (hp a hws.head)

theorem parseKeyOpValue_lor (x : Ext) {l r : VTok} {o : OTok} {w1 w2 : List Char} {lv rv : MValue}
    {op : MOp} (hl : l.Lex lv) (ho : o.Lex x op) (hr : r.Lex rv) (hw1 : AllP isWs w1)
    (hw2 : AllP isWs w2) (hg : Glue x l w1 o w2 r)
    (c : Cursor) (rest : List Char) (hi : c.Inv) (hrest : c.rest = atomLOR l w1 o w2 r ++ rest)
    (hend : r.isKey = true → SoftEnd rest) :
    parseKeyOpValue x c = .ok (dispatch x lv op rv, c.adv (atomLOR l w1 o w2 r)) := by
  have hr0 : c.rest = l.text ++ (w1 ++ (o.text ++ (w2 ++ (r.text ++ rest)))) := by
    rw [hrest]; simp only [atomLOR, List.append_assoc]
  obtain ⟨och, otl, ohe, ohw, ohs⟩ := OTok.head_spec ho
  obtain ⟨rch, rtl, rhe, rhw, rhs, _, rha⟩ := VTok.head_spec hr
  have e0 : c.eatWhitespace = c := eatWs_id (by rw [hr0]; exact VTok.headNot_ws hl _)
  -- the left value
  have e1 := VTok.lex_spec hl hi hr0 (fun hk => by
    refine headNot_blank_or hw1 (fun _ => ws_not_idChar) (fun hw => ?_)
    rw [ohe]
    refine HeadNot.cons _ (symChar_not_idChar (ohs ?_))
    cases hb : o.isWord with
    | false => rfl
    | true => exact absurd hw (hg.1 hk hb))
  have hi1 := adv_inv hi hr0
  have hr1 := adv_rest hr0
  -- blanks, the operator
  have e2 : (c.adv l.text).eatWhitespace = (c.adv l.text).adv w1 :=
    eatWs_adv hr1 hw1 (by rw [ohe]; exact HeadNot.cons _ ohw)
  have hi2 := adv_inv hi1 hr1
  have hr2 := adv_rest hr1
  have hafter : o.After x (w2 ++ (r.text ++ rest)) := by
    have hal : (r.isKey = true → w2 = [] → False) → HeadNot alphaRun (w2 ++ (r.text ++ rest)) := by
      intro hno
      refine headNot_blank_or hw2 (fun _ => ws_not_alphaRun) (fun hw => ?_)
      rw [rhe]
      refine HeadNot.cons _ (rha ?_)
      cases hb : r.isKey with
      | false => rfl
      | true => exact (hno hb hw).elim
    cases o with
    | sym o =>
      refine ⟨headNot_blank_or hw2 (fun _ => ws_not_symChar) (fun _ => VTok.headNot_sym hr _), ?_⟩
      intro ha
      refine hal (fun hk hw => ?_)
      have hal0 := hg.2 hk hw
      dsimp only at hal0
      cases o with
      | nil => exact sym_ne_nil ho.2 rfl
      | cons a o' =>
        have h1 := ha a rfl
        rw [hal0 a ho.1.head] at h1
        cases h1
    | isIn => exact hal (fun hk hw => hg.2 hk hw)
    | notIn wn => trivial
  have e3 := OTok.lex_spec ho hi2 hr2 hafter
  have hi3 := adv_inv hi2 hr2
  have hr3 := adv_rest hr2
  -- blanks, the right value
  have e4 : (((c.adv l.text).adv w1).adv o.text).eatWhitespace =
      (((c.adv l.text).adv w1).adv o.text).adv w2 :=
    eatWs_adv hr3 hw2 (VTok.headNot_ws hr _)
  have hi4 := adv_inv hi3 hr3
  have hr4 := adv_rest hr3
  have e5 := VTok.lex_spec hr hi4 hr4 (fun hk => softEnd_headNot_idChar (hend hk))
  unfold parseKeyOpValue
  rw [e0, e1]
  dsimp only
  rw [e2, e3]
  dsimp only
  rw [e4, e5]
  simp only [adv_adv, atomLOR, List.append_assoc]

theorem endsQuote_lor {l r : VTok} {rv : MValue} (o : OTok) (w1 w2 : List Char) (hr : r.Lex rv) :
    endsQuote (atomLOR l w1 o w2 r) = !r.isKey := by
  have : atomLOR l w1 o w2 r = (l.text ++ (w1 ++ (o.text ++ w2))) ++ r.text := by
    simp [atomLOR]
  rw [this]
  exact VTok.ends hr _

theorem atomHead_lor {l : VTok} {lv : MValue} (hl : l.Lex lv) (w1 : List Char) (o : OTok)
    (w2 : List Char) (r : VTok) : AtomHead (atomLOR l w1 o w2 r) := by
  obtain ⟨ch, tl, he, hw, _, hp, _⟩ := VTok.head_spec hl
  exact ⟨ch, tl ++ (w1 ++ (o.text ++ (w2 ++ r.text))), by simp [atomLOR, he], hw, hp⟩

/-- every comparison shape satisfies `AtomOK`, with the dispatch result as its meaning -/
theorem atomOK_lor (x : Ext) {l r : VTok} {o : OTok} {w1 w2 : List Char} {lv rv : MValue}
    {op : MOp} (hl : l.Lex lv) (ho : o.Lex x op) (hr : r.Lex rv) (hw1 : AllP isWs w1)
    (hw2 : AllP isWs w2) (hg : Glue x l w1 o w2 r) :
    AtomOK x (atomLOR l w1 o w2 r) ∧ atomSem x (atomLOR l w1 o w2 r) = dispatch x lv op rv := by
  refine atomOK_of_frame x _ _ (fun c rest hi hrest hend => ?_)
  refine parseKeyOpValue_lor x hl ho hr hw1 hw2 hg c rest hi hrest (fun hk => ?_)
  rw [endsQuote_lor o w1 w2 hr, hk] at hend
  rcases hend with h | h
  · cases h
  · exact h

end Pep508
