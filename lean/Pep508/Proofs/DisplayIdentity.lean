/-
C05, closing the loop: rebuilding a diagram from its DNF gives the SAME diagram,
`buildDnf (toDnf spell t) = t`, for every well-formed typed diagram other than TRUE all of whose
bounds are separated values (`SepV`: no version `0`, no trailing zero segment, no string ending in
U+0000) — by relative canonicity (`CanonRel.lean`, `ValDense.lean`): both diagrams are well formed,
denote the same function (`to_dnf_sound`, C02), and all their bounds are bounds of `t`
(`BoundsIn.lean` for `and` / `or`, this file for the expression atoms and for the terms `to_dnf`
emits).
-/
import Pep508.Proofs.DisplayParse
import Pep508.Proofs.DnfForms
import Pep508.Proofs.ValDense
import Pep508.Proofs.DnfSound2
set_option linter.unusedSimpArgs false
namespace Pep508

/-! ### bounds of the expression atoms -/

/-- every bound of the diagram of `e` is separated -/
def TermSep (e : MExpr) : Prop := (expression e).AllB SepV

theorem Kind_ofBounds (P : Val → Prop) (lo hi : Bnd Val) (h1 : Bnd.Kind P lo) (h2 : Bnd.Kind P hi) :
    ∀ s ∈ Ranges.ofBounds lo hi, Ivl.Kind P s := by
  intro s hs
  unfold Ranges.ofBounds at hs
  split at hs
  · simp only [List.mem_singleton] at hs; subst hs; exact ⟨h1, h2⟩
  · simp at hs

/-- bounds of a release specifier: the release, and for `.*` the release with its last segment
bumped -/
theorem Kind_releaseSpec (P : Val → Prop) (op : Op) (rel : List Nat) (hop : op ≠ .tilde)
    (h : P (.ver (stripZeros rel)))
    (hstar : op.isStar = true → P (.ver (stripZeros (bumpLast rel)))) :
    ∀ s ∈ releaseSpecToRange ⟨op, rel⟩, Ivl.Kind P s := by
  have hsing : ∀ s ∈ Ranges.singleton (Val.ver (stripZeros rel)), Ivl.Kind P s := by
    intro s hs
    simp only [Ranges.singleton, List.mem_singleton] at hs
    subst hs; exact ⟨h, h⟩
  cases op
  case tilde => exact absurd rfl hop
  case eq => exact hsing
  case exactEq => exact hsing
  case ne => exact Kind_complement P _ hsing
  case eqStar => exact Kind_ofBounds P _ _ h (hstar rfl)
  case neStar => exact Kind_complement P _ (Kind_ofBounds P _ _ h (hstar rfl))
  all_goals
    intro s hs
    simp only [releaseSpecToRange, List.mem_singleton] at hs
    subst hs
    first | exact ⟨trivial, h⟩ | exact ⟨h, trivial⟩

theorem termSep_version (k : VKey) (hk : k ≠ .pyVer) (op : Op) (rel : List Nat) (hop : op ≠ .tilde)
    (h : SepV (.ver (stripZeros rel)))
    (hstar : op.isStar = true → SepV (.ver (stripZeros (bumpLast rel)))) :
    TermSep (.version k ⟨op, rel⟩) := by
  unfold TermSep
  rw [expression_version_of_ne k _ hk, releaseSpecToRange_normalize]
  exact AllB_rangeNode SepV _ _ (Kind_releaseSpec SepV op rel hop h hstar)

theorem termSep_string (k : SKey) (op : SOp) (v : String) (h : SepV (.str v)) :
    TermSep (.string k op v) := by
  unfold TermSep
  have hsing : ∀ s ∈ Ranges.singleton (Val.str v), Ivl.Kind SepV s := by
    intro s hs
    simp only [Ranges.singleton, List.mem_singleton] at hs
    subst hs; exact ⟨h, h⟩
  cases op
  case isIn => simp [expression, boolNode, Tree.AllB]
  case notIn => simp [expression, boolNode, Tree.AllB]
  case contains => simp [expression, boolNode, Tree.AllB]
  case notContains => simp [expression, boolNode, Tree.AllB]
  case eq => exact AllB_rangeNode SepV _ _ hsing
  case ne => exact AllB_rangeNode SepV _ _ (Kind_complement SepV _ hsing)
  all_goals
    refine AllB_rangeNode SepV _ _ ?_
    intro s hs
    simp only [stringRange, List.mem_singleton] at hs
    subst hs
    first | exact ⟨trivial, h⟩ | exact ⟨h, trivial⟩

theorem termSep_boolTerm (v : VarB) (b : Bool) : TermSep (boolTerm v b) := by
  unfold TermSep
  cases v <;> cases b <;> simp [boolTerm, expression, boolNode, Tree.AllB]

/-! ### the terms `to_dnf` emits only mention bounds of the diagram -/

/-- the bound is of the right kind for the variable and separated -/
def KSep (v : VarR) (x : Val) : Prop := kindOf v x ∧ SepV x

theorem Kind_and (P Q : Val → Prop) (s : Ivl Val) (h1 : Ivl.Kind P s) (h2 : Ivl.Kind Q s) :
    Ivl.Kind (fun x => P x ∧ Q x) s := by
  obtain ⟨lo, hi⟩ := s
  obtain ⟨a1, a2⟩ := h1
  obtain ⟨b1, b2⟩ := h2
  constructor
  · cases lo <;> first | trivial | exact ⟨a1, b1⟩
  · cases hi <;> first | trivial | exact ⟨a2, b2⟩

/-- a separated value is stored normalized -/
theorem sep_norm (x : Val) (h : SepV x) : NormV x := by
  cases x with
  | str s => rfl
  | ver w =>
    obtain ⟨_, hl⟩ := h
    show stripZeros w = w
    unfold stripZeros
    have : w.reverse.dropWhile (· == 0) = w.reverse := by
      cases hr : w.reverse with
      | nil => rfl
      | cons a r =>
        have ha : w.getLast? = some a := by
          rw [← List.head?_reverse, hr]; rfl
        have : a ≠ 0 := by
          rintro rfl
          exact hl ha
        simp [List.dropWhile_cons, this]
    rw [this, List.reverse_reverse]

theorem sepVer_norm {w : List Nat} (h : SepV (.ver w)) : stripZeros w = w := sep_norm _ h

theorem ksep_ver {k : VKey} {x : Val} (h : KSep (.ver k) x) : SepV (.ver x.verOf) := by
  have := kindOf_ver k x h.1
  rw [← this]; exact h.2

theorem ksep_str {k : SKey} {x : Val} (h : KSep (.str k) x) : SepV (.str x.strOf) := by
  have := kindOf_str k x h.1
  rw [← this]; exact h.2

theorem bumpLast_pair (a b : Nat) : bumpLast [a, b] = [a, b + 1] := rfl

theorem specsOfBounds_sep (spell : Spell) (hs : SpellOK spell) (k : VKey)
    (hk : k ≠ .pyVer) (iv : Ivl Val) (hiv : Ivl.Kind (KSep (.ver k)) iv) :
    ∀ s ∈ specsOfBounds spell iv, TermSep (.version k s) := by
  intro s hsm
  obtain ⟨lo, hi⟩ := iv
  obtain ⟨k1, k2⟩ := hiv
  simp only at k1 k2
  have plain : ∀ (op : Op) (x : Val), op ≠ .tilde → op.isStar = false → KSep (.ver k) x →
      TermSep (.version k ⟨op, spell x.verOf⟩) := by
    intro op x h1 h2 hx
    refine termSep_version k hk op _ h1 ?_ (fun h => by rw [h2] at h; cases h)
    rw [hs _ (sepVer_norm (ksep_ver hx))]; exact ksep_ver hx
  unfold specsOfBounds at hsm
  simp only at hsm
  split at hsm
  · rename_i l heq
    split at heq
    · rename_i v1 v2
      split at heq
      · cases heq; simp at hsm; subst hsm
        exact plain .eq v1 (by simp) rfl k1
      · cases heq
    · rename_i v1 v2
      split at heq
      · rename_i a b hab
        split at heq
        · rename_i hab2
          cases heq; simp at hsm; subst hsm
          have e1 : stripZeros [a, b] = v1.verOf := by
            rw [← hab, hs _ (sepVer_norm (ksep_ver k1))]
          have e2 : stripZeros [a, b + 1] = v2.verOf := by
            have : spell v2.verOf = [a, b + 1] := by simpa using hab2
            rw [← this, hs _ (sepVer_norm (ksep_ver k2))]
          refine termSep_version k hk .eqStar _ (by simp) ?_ (fun _ => ?_)
          · rw [e1]; exact ksep_ver k1
          · rw [bumpLast_pair, e2]; exact ksep_ver k2
        · cases heq
      · cases heq
    · cases heq
  · simp only [List.mem_append] at hsm
    rcases hsm with hsm | hsm
    · cases lo <;> simp at hsm <;> subst hsm
      · exact plain .ge _ (by simp) rfl k1
      · exact plain .gt _ (by simp) rfl k1
    · cases hi <;> simp at hsm <;> subst hsm
      · exact plain .le _ (by simp) rfl k2
      · exact plain .lt _ (by simp) rfl k2

theorem starRangeInequality_sep (spell : Spell) (hs : SpellOK spell) (k : VKey)
    (hk : k ≠ .pyVer) (r : Ranges Val) (hr : ∀ s ∈ r, Ivl.Kind (KSep (.ver k)) s) (s : Spec)
    (h : starRangeInequality spell r = some s) : TermSep (.version k s) := by
  unfold starRangeInequality at h
  split at h
  · rename_i v1 v2
    have k1 : KSep (.ver k) v1 := (hr ⟨.unb, .excl v1⟩ (by simp)).2
    have k2 : KSep (.ver k) v2 := (hr ⟨.incl v2, .unb⟩ (by simp)).1
    split at h
    · rename_i a b hab
      split at h
      · rename_i hab2
        cases h
        have e1 : stripZeros [a, b] = v1.verOf := by
          rw [← hab, hs _ (sepVer_norm (ksep_ver k1))]
        have e2 : stripZeros [a, b + 1] = v2.verOf := by
          have : spell v2.verOf = [a, b + 1] := by simpa using hab2
          rw [← this, hs _ (sepVer_norm (ksep_ver k2))]
        refine termSep_version k hk .neStar _ (by simp) ?_ (fun _ => ?_)
        · rw [e1]; exact ksep_ver k1
        · rw [bumpLast_pair, e2]; exact ksep_ver k2
      · cases h
    · cases h
  · cases h

theorem strOpsOfBounds_sep (k : SKey) (iv : Ivl Val) (hiv : Ivl.Kind (KSep (.str k)) iv) :
    ∀ q ∈ strOpsOfBounds iv, TermSep (.string k q.1 q.2) := by
  intro q hq
  have := strOpsOfBounds_vals (fun s => SepV (.str s)) iv (by
    obtain ⟨lo, hi⟩ := iv
    obtain ⟨k1, k2⟩ := hiv
    constructor
    · cases lo <;> first | trivial | exact ksep_str k1
    · cases hi <;> first | trivial | exact ksep_str k2) q hq
  exact termSep_string k q.1 q.2 this

theorem rangeTerms_sep (spell : Spell) (hs : SpellOK spell) (v : VarR)
    (hv : ∀ k, v = .ver k → k ≠ .pyVer) (r : Ranges Val) (hn : r.Norm)
    (hr : ∀ s ∈ r, Ivl.Kind (KSep v) s) :
    ∀ terms ∈ rangeTerms spell v r, ∀ t ∈ terms, TermSep t := by
  intro terms hterms t ht
  cases v with
  | ver k =>
    have hk := hv k rfl
    simp only [rangeTerms] at hterms
    split at hterms
    · rename_i ex hex
      simp only [List.mem_singleton] at hterms
      subst hterms
      simp only [List.mem_map] at ht
      obtain ⟨x, hx, rfl⟩ := ht
      have hx' := (rangeInequality_spec (KSep (.ver k)) r ex hex hn hr (.ver [])).2 x hx
      refine termSep_version k hk .ne _ (by simp) ?_ (fun h => by simp [Op.isStar] at h)
      rw [hs _ (sepVer_norm (ksep_ver hx'))]; exact ksep_ver hx'
    · split at hterms
      · rename_i s hsr
        simp only [List.mem_singleton] at hterms
        subst hterms
        simp only [List.mem_singleton] at ht
        subst ht
        exact starRangeInequality_sep spell hs k hk r hr s hsr
      · simp only [List.mem_map] at hterms
        obtain ⟨seg, hseg, rfl⟩ := hterms
        simp only [List.mem_map] at ht
        obtain ⟨x, hx, rfl⟩ := ht
        exact specsOfBounds_sep spell hs k hk seg (hr seg hseg) x hx
  | str k =>
    simp only [rangeTerms] at hterms
    split at hterms
    · rename_i ex hex
      simp only [List.mem_singleton] at hterms
      subst hterms
      simp only [List.mem_map] at ht
      obtain ⟨x, hx, rfl⟩ := ht
      have hx' := (rangeInequality_spec (KSep (.str k)) r ex hex hn hr (.ver [])).2 x hx
      exact termSep_string k .ne _ (ksep_str hx')
    · simp only [List.mem_map] at hterms
      obtain ⟨seg, hseg, rfl⟩ := hterms
      simp only [List.mem_map] at ht
      obtain ⟨q, hq, rfl⟩ := ht
      exact strOpsOfBounds_sep k seg (hr seg hseg) q hq

theorem collectDnf_sep (spell : Spell) (hs : SpellOK spell) :
    ∀ (fuel : Nat) (t : MTree) (path : List MExpr), t.wf = true → Typed t → t.AllB SepV →
      (∀ t' ∈ path, TermSep t') → AllT TermSep (collectDnf spell fuel t path)
  | 0, _, _, _, _, _, _ => by simp [collectDnf, AllT]
  | fuel + 1, .leaf false, path, _, _, _, _ => by simp [collectDnf, AllT]
  | fuel + 1, .leaf true, path, _, _, _, hp => by
    simp only [collectDnf]
    split
    · simp [AllT]
    · intro c hc
      simp only [List.mem_singleton] at hc
      subst hc; exact hp
  | fuel + 1, .bool v h l, path, hwf, hty, hb, hp => by
    simp only [Tree.wf, Bool.and_eq_true] at hwf
    obtain ⟨⟨⟨⟨_, hwh⟩, hwl⟩, _⟩, _⟩ := hwf
    obtain ⟨th, tl⟩ := hty
    simp only [collectDnf]
    intro c hc
    simp only [List.mem_append] at hc
    have hpath : ∀ b, ∀ t' ∈ path ++ [boolTerm v b], TermSep t' := by
      intro b t' ht'
      simp only [List.mem_append, List.mem_singleton] at ht'
      rcases ht' with h | rfl
      · exact hp t' h
      · exact termSep_boolTerm v b
    rcases hc with hc | hc
    · exact collectDnf_sep spell hs fuel h _ hwh th hb.1 (hpath true) c hc
    · exact collectDnf_sep spell hs fuel l _ hwl tl hb.2 (hpath false) c hc
  | fuel + 1, .rng v es, path, hwf, hty, hb, hp => by
    obtain ⟨hlen, hpart, hadj, hch⟩ := (Tree.wf_rng_iff v es).1 hwf
    obtain ⟨hv, htyE⟩ := hty
    rw [TypedE_iff] at htyE
    have hbl := (Edges.AllB_iff SepV es).1 hb
    have hinv := collectEdges_spec es.toList (Part_valid hpart)
    have hkind := collectEdges_kind (KSep v) es.toList
      (fun e he => Kind_and _ _ _ (htyE e he).1 (hbl e he).1)
    simp only [collectDnf]
    intro c hc
    simp only [List.mem_flatMap] at hc
    obtain ⟨p, hpm, terms, hterms, hc⟩ := hc
    obtain ⟨e, he, hep⟩ := hinv.child p hpm
    refine collectDnf_sep spell hs fuel p.1 _ (by rw [← hep]; exact (hch e he).1)
      (by rw [← hep]; exact (htyE e he).2) (by rw [← hep]; exact (hbl e he).2) ?_ c hc
    intro t' ht'
    simp only [List.mem_append] at ht'
    rcases ht' with h | h
    · exact hp t' h
    · exact rangeTerms_sep spell hs v hv p.2 (hinv.norm p hpm) (hkind p hpm) terms hterms t' h

/-- the bounds of the terms of `to_dnf` are bounds of the diagram -/
theorem toDnf_sep (spell : Spell) (hs : SpellOK spell) (t : MTree)
    (hwf : t.wf = true) (hty : Typed t) (hb : t.AllB SepV) : AllT TermSep (toDnf spell t) :=
  simplifyDnf_pred TermSep _ (collectDnf_sep spell hs _ t [] hwf hty hb (by simp))

/-! ### the rebuilt diagram only mentions bounds of the terms -/

theorem buildClause_sep (c : List MExpr) (h : ∀ e ∈ c, TermSep e) : (buildClause c).AllB SepV := by
  cases c with
  | nil => trivial
  | cons e es =>
    have : ∀ (es : List MExpr) (acc : MTree), acc.AllB SepV → (∀ e ∈ es, TermSep e) →
        (es.foldl (fun acc e' => Tree.and acc (expression e')) acc).AllB SepV := by
      intro es
      induction es with
      | nil => intro acc h _; exact h
      | cons e' es ih =>
        intro acc ha he
        exact ih _ (AllB_and SepV _ _ ha (he e' (by simp))) (fun e'' h'' => he e'' (by simp [h'']))
    exact this es _ (h e (by simp)) (fun e' he' => h e' (by simp [he']))

theorem buildDnf_sep (d : List (List MExpr)) (h : AllT TermSep d) : (buildDnf d).AllB SepV := by
  cases d with
  | nil => trivial
  | cons c cs =>
    have : ∀ (cs : List (List MExpr)) (acc : MTree), acc.AllB SepV → AllT TermSep cs →
        (cs.foldl (fun acc c' => Tree.or acc (buildClause c')) acc).AllB SepV := by
      intro cs
      induction cs with
      | nil => intro acc h _; exact h
      | cons c' cs ih =>
        intro acc ha hc
        exact ih _ (AllB_or SepV _ _ ha (buildClause_sep c' (hc c' (by simp))))
          (fun c'' h'' => hc c'' (by simp [h'']))
    exact this cs _ (buildClause_sep c (h c (by simp))) (fun c' hc' => h c' (by simp [hc']))

/-! ### (P4) closing the loop -/

/-- a well-formed diagram with separated bounds is the only such diagram of its function -/
theorem canonical_sep (t u : MTree) (ht : t.wf = true) (hu : u.wf = true) (bt : t.AllB SepV)
    (bu : u.AllB SepV) (h : ∀ ρ : Env VarR VarB Val, u.eval ρ = t.eval ρ) : u = t :=
  canonical_rel SepV inhabits_sep u t hu ht bu bt h

/-- **rebuilding a diagram from its DNF gives the diagram back** -/
theorem buildDnf_toDnf (spell : Spell) (hs : SpellOK spell) (t : MTree)
    (hwf : t.wf = true) (hty : Typed t) (hne : t ≠ .leaf true) (hb : t.AllB SepV) :
    buildDnf (toDnf spell t) = t :=
  canonical_sep t _ hwf (buildDnf_wf _) hb (buildDnf_sep _ (toDnf_sep spell hs t hwf hty hb))
    (fun ρ => by
      rw [buildDnf_eval, toDnf_sound2 spell hs t hwf hty (Tree.AllB_mono sep_norm t hb) ρ hne])

end Pep508
