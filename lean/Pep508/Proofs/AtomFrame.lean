/-
`AtomOK` is satisfiable: the two comparison shapes `key OP 'string'` and `'string' OP key`
(`key` any name of the `MarkerValue::from_str` table, `OP` any symbolic operator, either quote
char, any blanks between the tokens) parse to `dispatch x …` and stop exactly after their text, in
every context in which an atom may end.
-/
import Pep508.Proofs.MarkerLayout
namespace Pep508

open Cursor

/-- the chars `parse_marker_value` accepts in a key name -/
abbrev idChar : Char → Bool := fun ch =>
  !isWs ch && !(ch == '>' || ch == '=' || ch == '<' || ch == '!' || ch == '~' || ch == ')')

/-- the chars of a symbolic operator -/
abbrev symChar : Char → Bool := fun ch => ch == '<' || ch == '=' || ch == '>' || ch == '~' || ch == '!'

/-- the run `parse_marker_operator` takes when the first char is alphabetic -/
abbrev alphaRun : Char → Bool := fun ch => !isWs ch && ch != '\'' && ch != '"'

abbrev isQuote : Char → Bool := fun ch => ch == '"' || ch == '\''

theorem slice_of_adv (c : Cursor) (s : List Char) (a b : Nat) : (c.adv s).slice a b = c.slice a b := rfl

theorem symChar_cases {ch : Char} (h : symChar ch = true) :
    ch = '<' ∨ ch = '=' ∨ ch = '>' ∨ ch = '~' ∨ ch = '!' := by
  simpa [symChar, or_assoc] using h

theorem symChar_alphaRun {ch : Char} (h : symChar ch = true) : alphaRun ch = true := by
  rcases symChar_cases h with rfl | rfl | rfl | rfl | rfl <;> decide

theorem symChar_not_idChar {ch : Char} (h : symChar ch = true) : idChar ch = false := by
  rcases symChar_cases h with rfl | rfl | rfl | rfl | rfl <;> decide

theorem symChar_not_ws {ch : Char} (h : symChar ch = true) : isWs ch = false := by
  rcases symChar_cases h with rfl | rfl | rfl | rfl | rfl <;> decide

theorem ws_not_idChar {ch : Char} (h : isWs ch = true) : idChar ch = false := by simp [idChar, h]
theorem ws_not_symChar {ch : Char} (h : isWs ch = true) : symChar ch = false := by
  cases hs : symChar ch with
  | false => rfl
  | true => rw [symChar_not_ws hs] at h; cases h
theorem ws_not_alphaRun {ch : Char} (h : isWs ch = true) : alphaRun ch = false := by simp [alphaRun, h]

theorem quote_cases {q : Char} (h : isQuote q = true) : q = '"' ∨ q = '\'' := by
  simpa [isQuote] using h
theorem quote_not_ws {q : Char} (h : isQuote q = true) : isWs q = false := by
  rcases quote_cases h with rfl | rfl <;> decide
theorem quote_not_symChar {q : Char} (h : isQuote q = true) : symChar q = false := by
  rcases quote_cases h with rfl | rfl <;> decide
theorem quote_not_alphaRun {q : Char} (h : isQuote q = true) : alphaRun q = false := by
  rcases quote_cases h with rfl | rfl <;> decide

/-- a key name followed by a char that ends it -/
theorem parseMarkerValue_ident {c : Cursor} {k r : List Char} {kv : MValue} (hi : c.Inv)
    (hrest : c.rest = k ++ r) (hk : AllP idChar k) (hh : HeadIs (fun ch => !isQuote ch) k)
    (hr : HeadNot idChar r) (hkey : keyOfName (String.ofList k) = some kv) :
    parseMarkerValue c = .ok (kv, c.adv k) := by
  obtain ⟨ch, tl, rfl, hq⟩ := hh
  have hq' : (ch == '"' || ch == '\'') = false := by simpa using hq
  unfold parseMarkerValue
  rw [peek_cons (r := tl ++ r) (by rw [hrest]; rfl)]
  simp only [hq', Bool.false_eq_true, if_false]
  rw [takeWhile_adv idChar hrest hk hr]
  simp only [slice_of_adv, slice_adv hi hrest, Res.ofSlice, hkey]

/-- a quoted string: everything up to the same quote char -/
theorem parseMarkerValue_quoted {c : Cursor} {q : Char} {v r : List Char} (hi : c.Inv)
    (hrest : c.rest = q :: (v ++ q :: r)) (hq : isQuote q = true) (hv : AllP (fun ch => ch != q) v) :
    parseMarkerValue c = .ok (.quoted v, c.adv (q :: (v ++ [q]))) := by
  have hr0 : c.rest = [q] ++ (v ++ q :: r) := hrest
  have hi1 := adv_inv hi hr0
  have hr1 := adv_rest hr0
  have hi2 := adv_inv hi1 hr1
  have hr2 := adv_rest hr1
  unfold parseMarkerValue
  rw [peek_cons hrest]
  simp only [show (q == '"' || q == '\'') = true from hq, if_true]
  rw [next_adv hrest]
  dsimp only
  rw [takeWhile_adv (fun ch => ch != q) hr1 hv (HeadNot.cons r (by simp))]
  dsimp only
  rw [slice_of_adv, slice_adv hi1 hr1]
  simp only [Res.ofSlice]
  rw [nextExpectChar_adv hr2]
  simp only [adv_adv, List.cons_append, List.nil_append]

/-- a symbolic operator followed by a char that ends it (whichever branch `is_alphabetic` selects) -/
theorem parseMarkerOperator_sym (x : Ext) {c : Cursor} {o r : List Char} {op : MOp} (hi : c.Inv)
    (hrest : c.rest = o ++ r) (ho : AllP symChar o) (hr1 : HeadNot symChar r)
    (hr2 : (∀ ch, o.head? = some ch → x.alpha ch = true) → HeadNot alphaRun r)
    (hop : opOfToken (String.ofList o) = some op) :
    parseMarkerOperator x c = .ok (op, c.adv o) := by
  have hnot : (String.ofList o == "not") = false := by
    cases hb : (String.ofList o == "not") with
    | false => rfl
    | true =>
      rw [eq_of_beq hb, show opOfToken "not" = none by decide] at hop
      cases hop
  have hne : o ≠ [] := by
    rintro rfl
    rw [show opOfToken (String.ofList []) = none by decide] at hop
    cases hop
  have key : ∀ (b : Bool), (b = true → ∀ ch, o.head? = some ch → x.alpha ch = true) →
      (if b = true then c.takeWhile (fun ch => !isWs ch && ch != '\'' && ch != '"')
        else c.takeWhile (fun ch => ch == '<' || ch == '=' || ch == '>' || ch == '~' || ch == '!')) =
      ((c.pos, strLen o), c.adv o) := by
    intro b hb
    cases b with
    | false => exact takeWhile_adv symChar hrest ho hr1
    | true =>
      exact takeWhile_adv alphaRun hrest (fun ch hc => symChar_alphaRun (ho ch hc)) (hr2 (hb rfl))
  unfold parseMarkerOperator
  cases o with
  | nil => exact absurd rfl hne
  | cons a o' =>
    have hpk : c.peekChar = some a := by simp [peekChar, hrest]
    rw [hpk]
    dsimp only
    rw [key (x.alpha a) (fun h ch hch => by
      simp only [List.head?_cons, Option.some.injEq] at hch
      subst hch; exact h)]
    simp only [slice_of_adv, slice_adv hi hrest, Res.ofSlice, hnot, Bool.false_eq_true, if_false, hop]

/-- the parsed form of an operator token is not needed: only that the token is in the table -/
theorem sym_ne_nil {o : List Char} {op : MOp} (hop : opOfToken (String.ofList o) = some op) : o ≠ [] := by
  rintro rfl
  rw [show opOfToken (String.ofList []) = none by decide] at hop
  cases hop

/-- if the frame property holds with some result, the result is the atom's own one -/
theorem atomOK_of_frame (x : Ext) (a : List Char) (r0 : Option MExpr × List WarnKind)
    (h : ∀ (c : Cursor) (rest : List Char), c.Inv → c.rest = a ++ rest → EndOK (endsQuote a) rest →
      parseKeyOpValue x c = .ok (r0, c.adv a)) : AtomOK x a ∧ atomSem x a = r0 := by
  have h0 := h (Cursor.new a) [] (inv_new a) (by simp [Cursor.new]) (.inr SoftEnd.nil)
  have hs : atomSem x a = r0 := by
    unfold atomSem; rw [h0]
  refine ⟨?_, hs⟩
  intro c rest hi hrest hend
  rw [hs]
  exact h c rest hi hrest hend

/-! ### `key OP 'string'` -/

/-- the text `key w1 OP w2 q v q` -/
def atomKOV (k w1 o w2 : List Char) (q : Char) (v : List Char) : List Char :=
  k ++ (w1 ++ (o ++ (w2 ++ (q :: (v ++ [q])))))

theorem headNot_ws_then {p : Char → Bool} {ws t : List Char} (hws : AllP isWs ws)
    (hp : ∀ ch, isWs ch = true → p ch = false) (ht : HeadNot p t) : HeadNot p (ws ++ t) := by
  cases ws with
  | nil => exact ht
  | cons a ws => exact HeadNot.cons _ (hp a hws.head)

theorem headNot_of_all {p q : Char → Bool} {s : List Char} (t : List Char) (hs : AllP q s) (hne : s ≠ [])
    (hp : ∀ ch, q ch = true → p ch = false) : HeadNot p (s ++ t) := by
  cases s with
  | nil => exact absurd rfl hne
  | cons a s => exact HeadNot.cons _ (hp a hs.head)

theorem parseKeyOpValue_kov (x : Ext) {k w1 o w2 v : List Char} {q : Char} {kv : MValue} {op : MOp}
    (hk : AllP idChar k) (hh : HeadIs (fun ch => !isQuote ch) k)
    (hkey : keyOfName (String.ofList k) = some kv)
    (hw1 : AllP isWs w1) (ho : AllP symChar o) (hop : opOfToken (String.ofList o) = some op)
    (hw2 : AllP isWs w2) (hq : isQuote q = true) (hv : AllP (fun ch => ch != q) v)
    (c : Cursor) (rest : List Char) (hi : c.Inv) (hrest : c.rest = atomKOV k w1 o w2 q v ++ rest) :
    parseKeyOpValue x c =
      .ok (dispatch x kv op (.quoted v), c.adv (atomKOV k w1 o w2 q v)) := by
  have hone := sym_ne_nil hop
  have hr0 : c.rest = k ++ (w1 ++ (o ++ (w2 ++ (q :: (v ++ q :: rest))))) := by
    rw [hrest]; simp only [atomKOV, List.append_assoc, List.cons_append, List.nil_append]
  -- the key
  have hkws : HeadNot isWs c.rest := by
    obtain ⟨ch, tl, rfl, _⟩ := hh
    rw [hr0]
    refine HeadNot.cons _ ?_
    have := hk.head
    cases hw : isWs ch with
    | false => rfl
    | true => simp [idChar, hw] at this
  have e0 : c.eatWhitespace = c := eatWs_id hkws
  have hqs : HeadNot symChar (q :: (v ++ q :: rest)) := HeadNot.cons _ (quote_not_symChar hq)
  have hqa : HeadNot alphaRun (q :: (v ++ q :: rest)) := HeadNot.cons _ (quote_not_alphaRun hq)
  have hqw : HeadNot isWs (q :: (v ++ q :: rest)) := HeadNot.cons _ (quote_not_ws hq)
  have e1 := parseMarkerValue_ident hi hr0 hk hh
    (headNot_ws_then hw1 (fun _ => ws_not_idChar) (headNot_of_all _ ho hone (fun _ => symChar_not_idChar)))
    hkey
  have hi1 := adv_inv hi hr0
  have hr1 := adv_rest hr0
  -- blanks, the operator
  have e2 : (c.adv k).eatWhitespace = (c.adv k).adv w1 :=
    eatWs_adv hr1 hw1 (headNot_of_all _ ho hone (fun _ => symChar_not_ws))
  have hi2 := adv_inv hi1 hr1
  have hr2 := adv_rest hr1
  have e3 := parseMarkerOperator_sym x hi2 hr2 ho
    (headNot_ws_then hw2 (fun _ => ws_not_symChar) hqs)
    (fun _ => headNot_ws_then hw2 (fun _ => ws_not_alphaRun) hqa) hop
  have hi3 := adv_inv hi2 hr2
  have hr3 := adv_rest hr2
  -- blanks, the quoted value
  have e4 : (((c.adv k).adv w1).adv o).eatWhitespace = (((c.adv k).adv w1).adv o).adv w2 :=
    eatWs_adv hr3 hw2 hqw
  have hi4 := adv_inv hi3 hr3
  have hr4 := adv_rest hr3
  have e5 := parseMarkerValue_quoted hi4 hr4 hq hv
  unfold parseKeyOpValue
  rw [e0, e1]
  dsimp only
  rw [e2, e3]
  dsimp only
  rw [e4, e5]
  simp only [adv_adv, atomKOV, List.append_assoc]

theorem endsQuote_kov (k w1 o w2 : List Char) {q : Char} (v : List Char) (hq : isQuote q = true) :
    endsQuote (atomKOV k w1 o w2 q v) = true := by
  have : atomKOV k w1 o w2 q v = (k ++ (w1 ++ (o ++ (w2 ++ (q :: v))))) ++ [q] := by
    simp [atomKOV]
  unfold endsQuote
  rw [this, List.getLast?_concat]
  rcases quote_cases hq with rfl | rfl <;> rfl

theorem atomHead_kov {k : List Char} (w1 o w2 : List Char) (q : Char) (v : List Char)
    (hk : AllP idChar k) (hh : HeadIs (fun ch => !isQuote ch) k) (hp : HeadNot (fun ch => ch == '(') k) :
    AtomHead (atomKOV k w1 o w2 q v) := by
  obtain ⟨ch, tl, rfl, _⟩ := hh
  refine ⟨ch, _, rfl, ?_, ?_⟩
  · have := hk.head
    cases hw : isWs ch with
    | false => rfl
    | true => simp [idChar, hw] at this
  · have := hp ch rfl
    simpa using this

/-- `key OP 'string'` satisfies `AtomOK`, with the dispatch result as its meaning -/
theorem atomOK_kov (x : Ext) {k w1 o w2 v : List Char} {q : Char} {kv : MValue} {op : MOp}
    (hk : AllP idChar k) (hh : HeadIs (fun ch => !isQuote ch) k)
    (hkey : keyOfName (String.ofList k) = some kv)
    (hw1 : AllP isWs w1) (ho : AllP symChar o) (hop : opOfToken (String.ofList o) = some op)
    (hw2 : AllP isWs w2) (hq : isQuote q = true) (hv : AllP (fun ch => ch != q) v) :
    AtomOK x (atomKOV k w1 o w2 q v) ∧
      atomSem x (atomKOV k w1 o w2 q v) = dispatch x kv op (.quoted v) :=
  atomOK_of_frame x _ _ (fun c rest hi hrest _ =>
    parseKeyOpValue_kov x hk hh hkey hw1 ho hop hw2 hq hv c rest hi hrest)

/-! ### `'string' OP key` -/

/-- the text `q v q w1 OP w2 key` -/
def atomVOK (q : Char) (v w1 o w2 k : List Char) : List Char :=
  q :: (v ++ (q :: (w1 ++ (o ++ (w2 ++ k)))))

theorem softEnd_headNot_idChar {rest : List Char} (h : SoftEnd rest) : HeadNot idChar rest := by
  intro ch hch
  rcases h ch hch with hw | rfl
  · exact ws_not_idChar hw
  · decide

theorem parseKeyOpValue_vok (x : Ext) {k w1 o w2 v : List Char} {q : Char} {kv : MValue} {op : MOp}
    (hk : AllP idChar k) (hh : HeadIs (fun ch => !isQuote ch) k)
    (hkey : keyOfName (String.ofList k) = some kv)
    (hw1 : AllP isWs w1) (ho : AllP symChar o) (hop : opOfToken (String.ofList o) = some op)
    (hw2 : AllP isWs w2) (hq : isQuote q = true) (hv : AllP (fun ch => ch != q) v)
    (halpha : w2 ≠ [] ∨ ∀ ch, symChar ch = true → x.alpha ch = false)
    (c : Cursor) (rest : List Char) (hi : c.Inv) (hrest : c.rest = atomVOK q v w1 o w2 k ++ rest)
    (hend : SoftEnd rest) :
    parseKeyOpValue x c =
      .ok (dispatch x (.quoted v) op kv, c.adv (atomVOK q v w1 o w2 k)) := by
  have hone := sym_ne_nil hop
  have hr0 : c.rest = q :: (v ++ q :: (w1 ++ (o ++ (w2 ++ (k ++ rest))))) := by
    rw [hrest]; simp only [atomVOK, List.append_assoc, List.cons_append]
  have e0 : c.eatWhitespace = c := eatWs_id (by rw [hr0]; exact HeadNot.cons _ (quote_not_ws hq))
  have e1 := parseMarkerValue_quoted hi hr0 hq hv
  have hr0' : c.rest = (q :: (v ++ [q])) ++ (w1 ++ (o ++ (w2 ++ (k ++ rest)))) := by
    rw [hr0]; simp only [List.append_assoc, List.cons_append, List.nil_append]
  have hi1 := adv_inv hi hr0'
  have hr1 := adv_rest hr0'
  have e2 : (c.adv (q :: (v ++ [q]))).eatWhitespace = (c.adv (q :: (v ++ [q]))).adv w1 :=
    eatWs_adv hr1 hw1 (headNot_of_all _ ho hone (fun _ => symChar_not_ws))
  have hi2 := adv_inv hi1 hr1
  have hr2 := adv_rest hr1
  obtain ⟨kc, ktl, rfl, hkq⟩ := hh
  have hkc := hk.head
  have hkc_ws : isWs kc = false := by
    cases hw : isWs kc with
    | false => rfl
    | true => simp [idChar, hw] at hkc
  have hkc_sym : symChar kc = false := by
    cases hs : symChar kc with
    | false => rfl
    | true => rw [symChar_not_idChar hs] at hkc; cases hkc
  have e3 := parseMarkerOperator_sym x hi2 hr2 ho
    (headNot_ws_then hw2 (fun _ => ws_not_symChar) (HeadNot.cons _ hkc_sym))
    (by
      intro ha
      rcases halpha with hne | hal
      · cases w2 with
        | nil => exact absurd rfl hne
        | cons a w2 => exact HeadNot.cons _ (ws_not_alphaRun hw2.head)
      · cases o with
        | nil => exact absurd rfl hone
        | cons a o' =>
          have h1 := ha a rfl
          rw [hal a ho.head] at h1
          cases h1) hop
  have hi3 := adv_inv hi2 hr2
  have hr3 := adv_rest hr2
  have e4 : (((c.adv (q :: (v ++ [q]))).adv w1).adv o).eatWhitespace =
      (((c.adv (q :: (v ++ [q]))).adv w1).adv o).adv w2 :=
    eatWs_adv hr3 hw2 (HeadNot.cons _ hkc_ws)
  have hi4 := adv_inv hi3 hr3
  have hr4 := adv_rest hr3
  have e5 := parseMarkerValue_ident hi4 hr4 hk ⟨kc, ktl, rfl, hkq⟩ (softEnd_headNot_idChar hend) hkey
  unfold parseKeyOpValue
  rw [e0, e1]
  dsimp only
  rw [e2, e3]
  dsimp only
  rw [e4, e5]
  simp only [adv_adv, atomVOK, List.cons_append, List.append_assoc, List.nil_append]

theorem endsQuote_vok (q : Char) (v w1 o w2 : List Char) {k : List Char} (hne : k ≠ [])
    (hl : endsQuote k = false) : endsQuote (atomVOK q v w1 o w2 k) = false := by
  have : atomVOK q v w1 o w2 k = (q :: (v ++ (q :: (w1 ++ (o ++ w2))))) ++ k := by
    simp [atomVOK]
  unfold endsQuote at hl ⊢
  rw [this, List.getLast?_append]
  cases hk : k.getLast? with
  | none => simp at hk; exact absurd hk hne
  | some ch => rw [hk] at hl; simpa using hl

/-- `'string' OP key` satisfies `AtomOK`, with the dispatch result as its meaning (when the operator
touches the key, `is_alphabetic` must be false on operator chars, as it is in Rust) -/
theorem atomOK_vok (x : Ext) {k w1 o w2 v : List Char} {q : Char} {kv : MValue} {op : MOp}
    (hk : AllP idChar k) (hh : HeadIs (fun ch => !isQuote ch) k) (hl : endsQuote k = false)
    (hkey : keyOfName (String.ofList k) = some kv)
    (hw1 : AllP isWs w1) (ho : AllP symChar o) (hop : opOfToken (String.ofList o) = some op)
    (hw2 : AllP isWs w2) (hq : isQuote q = true) (hv : AllP (fun ch => ch != q) v)
    (halpha : w2 ≠ [] ∨ ∀ ch, symChar ch = true → x.alpha ch = false) :
    AtomOK x (atomVOK q v w1 o w2 k) ∧
      atomSem x (atomVOK q v w1 o w2 k) = dispatch x (.quoted v) op kv := by
  refine atomOK_of_frame x _ _ (fun c rest hi hrest hend => ?_)
  rw [endsQuote_vok q v w1 o w2 hh.ne_nil hl] at hend
  rcases hend with h | h
  · cases h
  · exact parseKeyOpValue_vok x hk hh hkey hw1 ho hop hw2 hq hv halpha c rest hi hrest h

end Pep508
