/-
`Display for Pep508Error` never slices off a char boundary, provided only that the span START is a
char boundary of the input (which the parser theorems establish for every error); the span length
may be anything (a char count, a constant, past the end).
-/
import Pep508.Model.ErrDisplay
import Pep508.Proofs.CursorInv
import Pep508.Proofs.ReqTotal
namespace Pep508
open Cursor

theorem isCharBoundary_iff (input : List Char) (n : Nat) : isCharBoundary input n = true ↔ Boundary input n := by
  unfold isCharBoundary
  constructor
  · intro h
    cases hd : dropBytes input n with
    | none => rw [hd] at h; simp at h
    | some r =>
      obtain ⟨pre, e1, e2⟩ := Boundary.of_dropBytes hd
      exact ⟨pre, r, e1, e2⟩
  · intro h
    obtain ⟨r, hr⟩ := h.dropBytes_isSome
    rw [hr]; rfl

theorem clampEnd_boundary (input : List Char) (n : Nat) : Boundary input (clampEnd input n) := by
  induction n with
  | zero => exact Boundary.zero input
  | succ n ih =>
    unfold clampEnd
    by_cases h : isCharBoundary input (n + 1) = true
    · simp only [h, if_true]; exact (isCharBoundary_iff _ _).1 h
    · simp only [h, Bool.false_eq_true, if_false]; exact ih

theorem clampEnd_le (input : List Char) (n : Nat) : clampEnd input n ≤ n := by
  induction n with
  | zero => exact Nat.le_refl _
  | succ n ih =>
    unfold clampEnd
    by_cases h : isCharBoundary input (n + 1) = true
    · simp [h]
    · simp only [h, Bool.false_eq_true, if_false]; omega

/-- clamping keeps a position that already is a boundary -/
theorem clampEnd_of_boundary (input : List Char) (n : Nat) (h : Boundary input n) : clampEnd input n = n := by
  cases n with
  | zero => rfl
  | succ n => unfold clampEnd; simp [(isCharBoundary_iff _ _).2 h]

/-- **Display never panics**: whatever the length, if the start is a char boundary -/
theorem errDisplaySlices_isSome (input : List Char) (start len : Nat) (hs : Boundary input start) :
    ∃ r, errDisplaySlices input start len = some r := by
  unfold errDisplaySlices
  obtain ⟨pre, hpre⟩ := Boundary.slice (Boundary.zero input) hs (Nat.zero_le _)
  simp only [Nat.sub_zero] at hpre
  rw [hpre]
  dsimp only
  by_cases he : (start == strLen input) = true
  · simp only [he, if_true]; exact ⟨_, rfl⟩
  · simp only [he, Bool.false_eq_true, if_false]
    have hb := clampEnd_boundary input (min (start + len) (strLen input))
    have hmax : Boundary input (max (clampEnd input (min (start + len) (strLen input))) start) := by
      by_cases hle : clampEnd input (min (start + len) (strLen input)) ≤ start
      · rw [Nat.max_eq_right hle]; exact hs
      · rw [Nat.max_eq_left (by omega)]; exact hb
    obtain ⟨u, hu⟩ := Boundary.slice hs hmax (Nat.le_max_right _ _)
    rw [hu]
    exact ⟨_, rfl⟩

/-- the underlined text is a piece of the input that starts at `start` and does not go past `start + len` -/
theorem errDisplaySlices_spec (input : List Char) (start len : Nat) (pre : List Char) (u : List Char)
    (h : errDisplaySlices input start len = some (pre, some u)) :
    ∃ rest, input = pre ++ u ++ rest ∧ strLen pre = start ∧ strLen u ≤ len := by
  unfold errDisplaySlices at h
  cases h1 : sliceBytes input 0 start with
  | none => rw [h1] at h; simp at h
  | some p =>
    rw [h1] at h
    dsimp only at h
    by_cases he : (start == strLen input) = true
    · simp [he] at h
    · simp only [he, Bool.false_eq_true, if_false] at h
      cases h2 : sliceBytes input start
          (max (clampEnd input (min (start + len) (strLen input))) start - start) with
      | none => rw [h2] at h; simp at h
      | some u' =>
        rw [h2] at h
        simp only [Option.some.injEq, Prod.mk.injEq] at h
        obtain ⟨rfl, rfl⟩ := h
        obtain ⟨p1, r1, e1, e2, e3⟩ := sliceBytes_some h1
        obtain ⟨p2, r2, f1, f2, f3⟩ := sliceBytes_some h2
        have hp1 : p1 = [] := strLen_eq_zero e2.symm
        subst hp1
        simp only [List.nil_append] at e1
        -- the two decompositions share the prefix of byte length `start`
        have hpp : p = p2 := by
          have : p ++ r1 = p2 ++ (u' ++ r2) := by rw [← e1, f1, List.append_assoc]
          rcases List.append_eq_append_iff.1 this with ⟨a', ha1, ha2⟩ | ⟨c', hc1, hc2⟩
          · have : strLen p2 = strLen p + strLen a' := by rw [ha1, strLen_append]
            have h0 : a' = [] := strLen_eq_zero (by omega)
            subst h0; simpa using ha1.symm
          · have : strLen p = strLen p2 + strLen c' := by rw [hc1, strLen_append]
            have h0 : c' = [] := strLen_eq_zero (by omega)
            subst h0; simpa using hc1
        subst hpp
        refine ⟨r2, f1, e3.symm, ?_⟩
        have hc := clampEnd_le input (min (start + len) (strLen input))
        rw [← f3]
        omega

end Pep508
