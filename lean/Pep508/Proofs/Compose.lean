/-
Composition of the requirement-level theorems (C08 round trip, C07b layouts, C19b unnamed parser) with the
marker-level theorems (C01b layouts of marker derivations, C05b Display-then-parse of a diagram): the
marker parser's result at the marker cursor, a HYPOTHESIS of the former, is PROVED here from the latter.

* `cursor_fuel`: the fuel the requirement parser hands to the marker parser (`4 * |input| + 16`) is at least
  what `layout_parses_cursor` asks for (`4 * |rest| + 3`), for every cursor satisfying the invariant.
* `markerCursor_layout`: a marker derivation `ma` (with trailing blanks) at any cursor of any input.
* `markerCursor_dnf`, `markerCursor_show`, `markerCursor_false`: the same for a rendered DNF, for the text
  `Display` prints for a diagram (re-parsed to the diagram ITSELF), for the FALSE literal.
* `ReqValT`: a requirement value whose marker component is a diagram; `showReqT` prints it.
-/
import Pep508.Theorems.C01b
import Pep508.Theorems.C05b
import Pep508.Theorems.C07b
import Pep508.Theorems.C08
import Pep508.Theorems.C19b
namespace Pep508
open Pep508.Cursor

/-! ### the marker parser at a cursor of a larger input -/

/-- the fuel of the hand-off is sufficient at every cursor -/
theorem cursor_fuel {c : Cursor} (hi : c.Inv) : 4 * c.rest.length + 3 ≤ 4 * c.input.length + 16 := by
  obtain ⟨pre, h1, _⟩ := hi
  rw [h1, List.length_append]
  omega

/-- a well-formed marker derivation followed by blanks, at any cursor, with the fuel of the requirement
parser: the marker of the derivation, the warnings of its atoms -/
theorem markerCursor_layout (x : Ext) (ma : MAst) (trail : List Char) (hwf : ma.WF) (hat : ma.AtomsOK x)
    (ht : AllP isWs trail) (c : Cursor) (hi : c.Inv) (hrest : c.rest = ma.layout ++ trail) :
    parseMarkersCursor x (4 * c.input.length + 16) c =
      .ok ⟨(ma.denote x).1, (ma.denote x).2, c.adv (ma.layout ++ trail)⟩ :=
  parseMarkersCursor_layout x ma trail hwf hat ht c hi hrest _ (cursor_fuel hi)

/-- a rendered DNF followed by blanks, at any cursor -/
theorem markerCursor_dnf (x : Ext) (d : List (List MExpr)) (hd : d ≠ []) (hc : ∀ c ∈ d, c ≠ [])
    (h : ∀ c ∈ d, ∀ e ∈ c, AtomRT x e) (trail : List Char) (ht : AllP isWs trail)
    (c : Cursor) (hi : c.Inv) (hrest : c.rest = dnfChars d ++ trail) :
    parseMarkersCursor x (4 * c.input.length + 16) c =
      .ok ⟨some (buildDnf d), dnfWarns d, c.adv (dnfChars d ++ trail)⟩ := by
  have hw := astOfDnf_wf x d hd hc h
  have := markerCursor_layout x (astOfDnf d) trail hw.1 hw.2 ht c hi
    (by rw [astOfDnf_layout d hd hc]; exact hrest)
  rw [astOfDnf_layout d hd hc, astOfDnf_denote x d hd hc h] at this
  exact this

/-- **the cursor version of C05b `display_parse_roundtrip_sep`**: the text `Display` prints for a diagram
`t` (other than TRUE / FALSE, hypotheses of C05b), followed by blanks, at any cursor of any input, with the
fuel of the requirement parser: the marker parser returns `t` itself -/
theorem markerCursor_show (x : Ext) (hx : C05.ExtReadsPrinted x) (spell : Spell)
    (hs : SpellOK spell) (hsp : ∀ v, spell v ≠ []) (t : MTree)
    (hwf : t.wf = true) (hty : Typed t) (hd : C05.DiagramPrintable t) (ht : t ≠ .leaf true)
    (hf : t ≠ .leaf false) (hb : C05.SepBounds t) (trail : List Char) (htr : AllP isWs trail)
    (c : Cursor) (hi : c.Inv) (hrest : c.rest = (showMarker spell t).toList ++ trail) :
    parseMarkersCursor x (4 * c.input.length + 16) c =
      .ok ⟨some t, dnfWarns (toDnf spell t), c.adv ((showMarker spell t).toList ++ trail)⟩ := by
  have hc := C05.contingent_of_sep t hwf hb ht hf
  have hnd := C05.nonDegenerate_of_contingent spell hs t hwf hty (C05.normBounds_of_sep t hb) hc
  have hat := C05.atomRT_of_diagram x hx spell hsp t hwf hd
  have e := showMarker_toList spell t hf
  have := markerCursor_dnf x (toDnf spell t) hnd.1 hnd.2 hat trail htr c hi (by rw [← e]; exact hrest)
  rw [C05.rebuild_identity spell hs t hwf hty ht hb, ← e] at this
  exact this

/-- the FALSE literal `python_version < '0'` at any cursor: the diagram `falseReparsed` -/
theorem markerCursor_false (x : Ext) (spell : Spell) (hx : x.pat ['0'] = some (⟨[0], false⟩, false))
    (trail : List Char) (htr : AllP isWs trail)
    (c : Cursor) (hi : c.Inv) (hrest : c.rest = (showMarker spell (.leaf false)).toList ++ trail) :
    parseMarkersCursor x (4 * c.input.length + 16) c =
      .ok ⟨some C05.falseReparsed, [], c.adv ((showMarker spell (.leaf false)).toList ++ trail)⟩ := by
  have e : (showMarker spell (.leaf false)).toList = dnfChars [[.version .pyVer ⟨.lt, [0]⟩]] := by
    rw [C05.false_literal]; rfl
  have := markerCursor_dnf x [[.version .pyVer ⟨.lt, [0]⟩]] (by simp) (by simp) (by
      intro c hc e he
      simp only [List.mem_singleton] at hc
      subst hc
      simp only [List.mem_singleton] at he
      subst he
      exact ⟨by simp, by simp, hx⟩) trail htr c hi (by rw [← e]; exact hrest)
  rw [← e] at this
  exact this

/-! ### requirement values whose marker is a diagram -/

/-- a requirement value as the library holds it: the texts of name, extras, specifiers / URL (as the
external printers print them) and the marker DIAGRAM -/
structure ReqValT where
  name : List Char
  extras : List (List Char)
  kind : ShowKind
  marker : MTree

namespace ReqValT

/-- `Display` writes a marker unless it is TRUE -/
def hasMarker (r : ReqValT) : Bool := decide (r.marker ≠ .leaf true)

/-- the marker text `Display` writes: nothing for TRUE, else `MarkerTreeContents::to_string()` -/
def markerText (spell : Spell) (r : ReqValT) : Option (List Char) :=
  if r.marker = .leaf true then none else some (showMarker spell r.marker).toList

/-- the printed components -/
def toVal (spell : Spell) (r : ReqValT) : ReqVal := ⟨r.name, r.extras, r.kind, r.markerText spell⟩

/-- well-formed: as `ReqVal.WF` (name and extras are names; the kind part has the shape the external
printers guarantee; a URL followed by a marker does not end with `;` / `#`) -/
structure WF (r : ReqValT) : Prop where
  name : NameWF r.name
  extras : ∀ e ∈ r.extras, NameWF e
  kind : r.kind.WF r.name r.hasMarker

/-- byte position right after the name and the extras -/
def pos (r : ReqValT) : Nat := strLen r.name + strLen (extrasTxt r.extras)

/-- the specifier texts as the bare scan records them: with a marker, the blank before `;` goes into the
last one (the external parser trims it) -/
def recTexts (r : ReqValT) (ts : List (List Char)) : List (List Char) :=
  if r.hasMarker then addBlank ts else ts

/-- the external calls issued for the printed requirement -/
def expCalls (r : ReqValT) : List ExtCall :=
  match r.kind with
  | .none => []
  | .specs ts => specCalls r.pos (r.recTexts ts)
  | .url u => [.url u (r.pos + 3) (strLen u)]

def expKind (r : ReqValT) : ReqKind :=
  match r.kind with
  | .none => .none
  | .specs ts => .specs (r.recTexts ts)
  | .url u => .url u

/-- the parsed requirement: normalized name and extras, the kind, a marker diagram, the warnings -/
def expOk (r : ReqValT) (marker : MTree) (warns : List WarnKind) : ReqOk :=
  ⟨normName r.name, r.extras.map normName, r.expKind, marker, warns⟩

/-- how the parse ends when a marker was parsed: accepted — for a URL requirement, accepted unless the
external URL printer's text ends with `;` / `#` (F20) -/
def expThen (r : ReqValT) (ok : ReqOk) : ReqThen :=
  match r.kind with
  | .url u =>
    .urlEndsOk [(';', ⟨.string, r.pos + 3 + strLen u - 1, 1⟩), ('#', ⟨.string, r.pos + 3 + strLen u - 1, 1⟩)] ok
  | _ => .ok ok

theorem markerText_isSome (spell : Spell) (r : ReqValT) : (r.markerText spell).isSome = r.hasMarker := by
  unfold markerText hasMarker
  by_cases h : r.marker = .leaf true <;> simp [h]

theorem toVal_wf (spell : Spell) (r : ReqValT) (h : r.WF) : (r.toVal spell).WF :=
  ⟨h.name, h.extras, by show r.kind.WF r.name (r.markerText spell).isSome; rw [markerText_isSome]; exact h.kind⟩

theorem toVal_expCalls (spell : Spell) (r : ReqValT) : (r.toVal spell).expCalls = r.expCalls := by
  unfold ReqVal.expCalls expCalls ReqVal.recTexts recTexts
  show (match r.kind with | .none => _ | .specs ts => _ | .url u => _) = _
  cases r.kind <;> simp only [toVal, markerText_isSome] <;> rfl

theorem toVal_expOk (spell : Spell) (r : ReqValT) (t : MTree) (w : List WarnKind) :
    (r.toVal spell).expOk t w = r.expOk t w := by
  unfold ReqVal.expOk expOk ReqVal.expKind expKind ReqVal.recTexts recTexts
  show ReqOk.mk _ _ (match r.kind with | .none => _ | .specs ts => _ | .url u => _) _ _ = _
  cases r.kind <;> simp only [toVal, markerText_isSome]

theorem toVal_expFin (spell : Spell) (r : ReqValT) (t : MTree) (w : List WarnKind) (c : Cursor) :
    (r.toVal spell).expFin ⟨some t, w, c⟩ = r.expThen (r.expOk t w) := by
  unfold ReqVal.expFin expThen
  rw [toVal_expOk]
  show (match r.kind with | .url u => _ | _ => _) = _
  cases r.kind <;> simp [ReqVal.pos, pos, toVal]

end ReqValT

/-- `Display for Requirement`, from the value -/
def showReqT (spell : Spell) (r : ReqValT) : List Char := showReq (r.toVal spell)

/-- the printed form, component by component -/
theorem showReqT_eq (spell : Spell) (r : ReqValT) :
    showReqT spell r = r.name ++ (extrasTxt r.extras ++ (kindTxt r.kind ++ markerTxt (r.markerText spell))) :=
  showReq_eq _

/-! ### (K1) Display then parse, requirement level -/

/-- marker TRUE: nothing is printed for it; the requirement parses back with marker TRUE -/
theorem showReqT_parse_true (env : ProcEnv) (x : Ext) (spell : Spell) (r : ReqValT) (hwf : r.WF)
    (ht : r.marker = .leaf true) :
    parseRequirement env x (showReqT spell r) = ⟨r.expCalls, .ok (r.expOk (.leaf true) [])⟩ := by
  have hm : (r.toVal spell).marker = none := by simp [ReqValT.toVal, ReqValT.markerText, ht]
  have := showReq_parse env x (r.toVal spell) (r.toVal_wf spell hwf) hm
  rw [ReqValT.toVal_expCalls, ReqValT.toVal_expOk] at this
  exact this

/-- a marker other than TRUE / FALSE (hypotheses of C05b): the requirement parses back with the SAME
marker diagram -/
theorem showReqT_parse (env : ProcEnv) (x : Ext) (spell : Spell) (r : ReqValT) (hwf : r.WF)
    (hx : C05.ExtReadsPrinted x) (hs : SpellOK spell) (hsp : ∀ v, spell v ≠ [])
    (htw : r.marker.wf = true) (hty : Typed r.marker) (hd : C05.DiagramPrintable r.marker)
    (hb : C05.SepBounds r.marker) (ht : r.marker ≠ .leaf true) (hf : r.marker ≠ .leaf false) :
    parseRequirement env x (showReqT spell r) =
      ⟨r.expCalls, r.expThen (r.expOk r.marker (dnfWarns (toDnf spell r.marker)))⟩ := by
  have hm : (r.toVal spell).marker = some (showMarker spell r.marker).toList := by
    simp [ReqValT.toVal, ReqValT.markerText, ht]
  have hi := markerPos_inv (r.toVal spell) _ hm
  have hst := markerCursor_show x hx spell hs hsp r.marker htw hty hd ht hf hb [] (AllP.nil _) _ hi
    (by simp)
  have := showReq_parse_marker env x (r.toVal spell) (r.toVal_wf spell hwf) _ hm _ hst
  rw [ReqValT.toVal_expCalls, ReqValT.toVal_expFin] at this
  exact this

/-- marker FALSE: printed as `python_version < '0'`, parsed back to the diagram `falseReparsed` -/
theorem showReqT_parse_false (env : ProcEnv) (x : Ext) (spell : Spell) (r : ReqValT) (hwf : r.WF)
    (hx : x.pat ['0'] = some (⟨[0], false⟩, false)) (hf : r.marker = .leaf false) :
    parseRequirement env x (showReqT spell r) =
      ⟨r.expCalls, r.expThen (r.expOk C05.falseReparsed [])⟩ := by
  have hm : (r.toVal spell).marker = some (showMarker spell (.leaf false)).toList := by
    simp [ReqValT.toVal, ReqValT.markerText, hf]
  have hi := markerPos_inv (r.toVal spell) _ hm
  have hst := markerCursor_false x spell hx [] (AllP.nil _) _ hi (by simp)
  have := showReq_parse_marker env x (r.toVal spell) (r.toVal_wf spell hwf) _ hm _ hst
  rw [ReqValT.toVal_expCalls, ReqValT.toVal_expFin] at this
  exact this

theorem ReqValT.expThen_req (r : ReqValT) (ok : ReqOk) : (r.expThen ok).req? = some ok := by
  unfold ReqValT.expThen
  cases r.kind <;> rfl

/-- TRUE and every other printable marker except FALSE, in one statement: the parse is accepted and the
requirement it returns has the marker diagram of the value -/
theorem showReqT_req (env : ProcEnv) (x : Ext) (spell : Spell) (r : ReqValT) (hwf : r.WF)
    (hx : C05.ExtReadsPrinted x) (hs : SpellOK spell) (hsp : ∀ v, spell v ≠ [])
    (htw : r.marker.wf = true) (hty : Typed r.marker) (hd : C05.DiagramPrintable r.marker)
    (hb : C05.SepBounds r.marker) (hf : r.marker ≠ .leaf false) :
    (parseRequirement env x (showReqT spell r)).fin.req? =
      some (r.expOk r.marker (dnfWarns (toDnf spell r.marker))) := by
  by_cases ht : r.marker = .leaf true
  · rw [showReqT_parse_true env x spell r hwf ht, ht, toDnf_true]
    rfl
  · rw [showReqT_parse env x spell r hwf hx hs hsp htw hty hd hb ht hf]
    exact r.expThen_req _

/-! ### … up to the blank the bare scan leaves in the last specifier text -/

/-- the kind of the value, as a `ReqKind` -/
def ReqValT.kindR (r : ReqValT) : ReqKind :=
  match r.kind with
  | .none => .none
  | .specs ts => .specs ts
  | .url u => .url u

/-- the value as a parsed requirement: its own components -/
def ReqValT.components (r : ReqValT) (warns : List WarnKind) : ReqOk :=
  ⟨normName r.name, r.extras.map normName, r.kindR, r.marker, warns⟩

/-- no specifier text starts or ends with whitespace (pep440 prints none) -/
def ReqValT.SpecsTrimmed (r : ReqValT) : Prop :=
  match r.kind with
  | .specs ts => ∀ t ∈ ts, (∀ ch, t.head? = some ch → isWs ch = false) ∧
      (∀ ch, t.getLast? = some ch → isWs ch = false)
  | _ => True

theorem map_trimWs_id (ts : List (List Char))
    (h : ∀ t ∈ ts, (∀ ch, t.head? = some ch → isWs ch = false) ∧
      (∀ ch, t.getLast? = some ch → isWs ch = false)) : ts.map trimWs = ts := by
  conv => rhs; rw [← List.map_id ts]
  apply List.map_congr_left
  intro t ht
  have := trimWs_pad [] t [] AllWs.nil AllWs.nil (h t ht).1 (h t ht).2
  simpa using this

theorem map_trimWs_addBlank (ts : List (List Char))
    (h : ∀ t ∈ ts, (∀ ch, t.head? = some ch → isWs ch = false) ∧
      (∀ ch, t.getLast? = some ch → isWs ch = false)) : (addBlank ts).map trimWs = ts := by
  induction ts with
  | nil => rfl
  | cons t ts ih =>
    cases ts with
    | nil =>
      have := trimWs_pad [] t [' '] AllWs.nil (by intro c hc; simp at hc; subst hc; decide)
        (h t (by simp)).1 (h t (by simp)).2
      simp only [addBlank, List.map_cons, List.map_nil]
      rw [show t ++ [' '] = [] ++ (t ++ [' ']) from rfl, this]
    | cons b ts =>
      have h1 := trimWs_pad [] t [] AllWs.nil AllWs.nil (h t (by simp)).1 (h t (by simp)).2
      simp only [List.nil_append, List.append_nil] at h1
      simp only [addBlank, List.map_cons, h1]
      congr 1
      exact ih (fun a ha => h a (List.mem_cons_of_mem _ ha))

theorem ReqValT.expOk_trim (r : ReqValT) (hc : r.SpecsTrimmed) (w : List WarnKind) :
    (r.expOk r.marker w).trim = r.components w := by
  obtain ⟨name, es, kind, t⟩ := r
  cases kind with
  | none => rfl
  | url u => rfl
  | specs ts =>
    simp only [ReqValT.SpecsTrimmed] at hc
    simp only [ReqValT.expOk, ReqOk.trim, ReqValT.expKind, ReqKind.trim, ReqValT.components,
      ReqValT.kindR, ReqValT.recTexts]
    by_cases hm : (ReqValT.hasMarker ⟨name, es, .specs ts, t⟩) = true
    · simp only [hm, if_true, map_trimWs_addBlank ts hc]
    · simp only [hm, Bool.false_eq_true, if_false, map_trimWs_id ts hc]

/-- **Display then parse is the identity on requirement values** (marker other than FALSE), the specifier
texts compared after trimming (what the external specifier parser does first) -/
theorem showReqT_components (env : ProcEnv) (x : Ext) (spell : Spell) (r : ReqValT) (hwf : r.WF)
    (hc : r.SpecsTrimmed)
    (hx : C05.ExtReadsPrinted x) (hs : SpellOK spell) (hsp : ∀ v, spell v ≠ [])
    (htw : r.marker.wf = true) (hty : Typed r.marker) (hd : C05.DiagramPrintable r.marker)
    (hb : C05.SepBounds r.marker) (hf : r.marker ≠ .leaf false) :
    (parseRequirement env x (showReqT spell r)).fin.req?.map ReqOk.trim =
      some (r.components (dnfWarns (toDnf spell r.marker))) := by
  rw [showReqT_req env x spell r hwf hx hs hsp htw hty hd hb hf, Option.map_some, r.expOk_trim hc]

/-! ### (K2) requirement layout × marker layout -/

/-- the requirement value `r` with the marker text `m` -/
def ReqVal.withMarker (r : ReqVal) (m : List Char) : ReqVal := ⟨r.name, r.extras, r.kind, some m⟩

/-- how the parse of a written requirement ends when the marker parser returned `tree` (`none`: every
operand was dropped) and `warns` -/
def expThenL (r : ReqVal) (ℓ : Layout) (tree : Option MTree) (warns : List WarnKind) : ReqThen :=
  match r.kind with
  | .url u =>
    if tree.isSome then
      .urlEndsOk [(';', ⟨.string, ℓ.kindPos r + 1 + strLen ℓ.afterAt + strLen u - 1, 1⟩),
          ('#', ⟨.string, ℓ.kindPos r + 1 + strLen ℓ.afterAt + strLen u - 1, 1⟩)]
        (expOkL r ℓ (tree.getD (.leaf true)) warns)
    else .ok (expOkL r ℓ (tree.getD (.leaf true)) warns)
  | _ => .ok (expOkL r ℓ (tree.getD (.leaf true)) warns)

theorem expFinL_eq (r : ReqVal) (ℓ : Layout) (st : PState) :
    expFinL r ℓ st = expThenL r ℓ st.tree st.warns := rfl

/-- the marker hypothesis of C07b, discharged: a marker derivation `ma` in marker position, any layout of
the requirement around it -/
theorem layoutReq_markerCursor (x : Ext) (r : ReqVal) (ℓ : Layout) (ma : MAst) (hℓ : ℓ.Ws)
    (hm : r.marker = some ma.layout) (hma : ma.WF) (hat : ma.AtomsOK x) :
    parseMarkersCursor x (4 * (layoutReq r ℓ).length + 16)
      ⟨layoutReq r ℓ, ma.layout ++ ℓ.trail, ℓ.markerPos r⟩ =
      .ok ⟨(ma.denote x).1, (ma.denote x).2,
        (⟨layoutReq r ℓ, ma.layout ++ ℓ.trail, ℓ.markerPos r⟩ : Cursor).adv (ma.layout ++ ℓ.trail)⟩ :=
  markerCursor_layout x ma ℓ.trail hma hat hℓ.trail _ (markerPosL_inv r ℓ _ hm) rfl

/-- **every layout of the requirement × every layout of the marker is accepted** and decomposed into the
derivation's components -/
theorem layoutReq_parse_ast (env : ProcEnv) (x : Ext) (r : ReqVal) (ℓ : Layout) (ma : MAst) (hwf : r.WFL)
    (hℓ : ℓ.Ws) (hfit : ℓ.Fits r) (hm : r.marker = some ma.layout) (hma : ma.WF) (hat : ma.AtomsOK x) :
    parseRequirement env x (layoutReq r ℓ) =
      ⟨expCallsL r ℓ, expThenL r ℓ (ma.denote x).1 (ma.denote x).2⟩ :=
  layoutReq_parse_marker env x r ℓ hwf hℓ hfit _ hm _ (layoutReq_markerCursor x r ℓ ma hℓ hm hma hat)

/-- … its components, specifier texts trimmed, do not mention either layout -/
theorem layoutReq_components_ast (env : ProcEnv) (x : Ext) (r : ReqVal) (ℓ : Layout) (ma : MAst)
    (hwf : r.WFL) (hℓ : ℓ.Ws) (hfit : ℓ.Fits r) (hnt : r.NoTrailWs) (hm : r.marker = some ma.layout)
    (hma : ma.WF) (hat : ma.AtomsOK x) :
    (parseRequirement env x (layoutReq r ℓ)).fin.req?.map ReqOk.trim =
      some (r.components ((ma.skel.denote x).1.getD (.leaf true)) (ma.skel.denote x).2) := by
  rw [layoutReq_components_marker env x r ℓ hwf hℓ hfit hnt _ hm _
    (layoutReq_markerCursor x r ℓ ma hℓ hm hma hat), MAst.denote_skel]

theorem withMarker_wfl (r : ReqVal) (m : List Char) (h : r.WFL) : (r.withMarker m).WFL :=
  ⟨h.name, h.extras, h.kind⟩

/-- **layout independence of the whole**, general form: two layouts of the requirement, two marker
derivations with the same marker and warnings (e.g. differing also in the blanks INSIDE the comparisons):
the same requirement -/
theorem layoutReq_ast_independent_den (env : ProcEnv) (x : Ext) (r : ReqVal) (ℓ₁ ℓ₂ : Layout)
    (ma₁ ma₂ : MAst) (hwf : r.WFL) (h₁ : ℓ₁.Ws) (h₂ : ℓ₂.Ws) (f₁ : ℓ₁.Fits (r.withMarker ma₁.layout))
    (f₂ : ℓ₂.Fits (r.withMarker ma₂.layout)) (hnt : r.NoTrailWs) (hs : ma₁.denote x = ma₂.denote x)
    (w₁ : ma₁.WF) (w₂ : ma₂.WF) (a₁ : ma₁.AtomsOK x) (a₂ : ma₂.AtomsOK x) :
    (parseRequirement env x (layoutReq (r.withMarker ma₁.layout) ℓ₁)).fin.req?.map ReqOk.trim =
      (parseRequirement env x (layoutReq (r.withMarker ma₂.layout) ℓ₂)).fin.req?.map ReqOk.trim := by
  rw [layoutReq_components_ast env x _ ℓ₁ ma₁ (withMarker_wfl r _ hwf) h₁ f₁ hnt rfl w₁ a₁,
    layoutReq_components_ast env x _ ℓ₂ ma₂ (withMarker_wfl r _ hwf) h₂ f₂ hnt rfl w₂ a₂,
    ← MAst.denote_skel, ← MAst.denote_skel, hs]
  rfl

/-- **layout independence of the whole**: two layouts of the requirement, two layouts of the marker
derivation (same skeleton): the same requirement -/
theorem layoutReq_ast_independent (env : ProcEnv) (x : Ext) (r : ReqVal) (ℓ₁ ℓ₂ : Layout) (ma₁ ma₂ : MAst)
    (hwf : r.WFL) (h₁ : ℓ₁.Ws) (h₂ : ℓ₂.Ws) (f₁ : ℓ₁.Fits (r.withMarker ma₁.layout))
    (f₂ : ℓ₂.Fits (r.withMarker ma₂.layout)) (hnt : r.NoTrailWs) (hs : ma₁.skel = ma₂.skel)
    (w₁ : ma₁.WF) (w₂ : ma₂.WF) (a₁ : ma₁.AtomsOK x) (a₂ : ma₂.AtomsOK x) :
    (parseRequirement env x (layoutReq (r.withMarker ma₁.layout) ℓ₁)).fin.req?.map ReqOk.trim =
      (parseRequirement env x (layoutReq (r.withMarker ma₂.layout) ℓ₂)).fin.req?.map ReqOk.trim :=
  layoutReq_ast_independent_den env x r ℓ₁ ℓ₂ ma₁ ma₂ hwf h₁ h₂ f₁ f₂ hnt
    (by rw [MAst.denote_skel, MAst.denote_skel, hs]) w₁ w₂ a₁ a₂

/-! ### (K3) the unnamed parser -/

theorem unnamed_marker_inv (ws body m : List Char) :
    Inv ⟨ws ++ (body ++ markerTxt (some m)), m, strLen ws + strLen body + 3⟩ := by
  refine ⟨ws ++ body ++ [' ', ';', ' '], by simp [markerTxt], ?_⟩
  have h1 : utf8Len ' ' = 1 := by decide
  have h2 : utf8Len ';' = 1 := by decide
  simp only [strLen_append, strLen_cons, strLen_nil, h1, h2]

/-- `ws url[e1,…] ; marker trail` with a marker derivation: accepted, marker of the derivation -/
theorem parseUnnamed_ast (env : ProcEnv) (x : Ext) (ws u : List Char) (es : List (List Char)) (ma : MAst)
    (trail : List Char) (hws : ∀ c ∈ ws, isWs c = true) (hne : u ≠ [])
    (hu : ∀ c ∈ u, isWs c = false ∧ c ≠ '[' ∧ c ≠ ']') (hes : ∀ e ∈ es, NameWF e)
    (hma : ma.WF) (hat : ma.AtomsOK x) (ht : AllP isWs trail) :
    parseUnnamed env x (ws ++ ((u ++ extrasTxt es) ++ markerTxt (some (ma.layout ++ trail)))) =
      ⟨some (unnamedCall env u (strLen ws) (strLen (u ++ extrasTxt es))),
        .ok ⟨u, es.map normName, (ma.denote x).1.getD (.leaf true), (ma.denote x).2⟩⟩ :=
  parseUnnamed_printed_marker env x ws u es _ hws hne hu hes _
    (markerCursor_layout x ma trail hma hat ht _ (unnamed_marker_inv ws _ _) rfl)

/-- the unnamed requirement value with a marker diagram, printed -/
def showUnnamedT (spell : Spell) (u : List Char) (es : List (List Char)) (t : MTree) : List Char :=
  showUnnamed u es (if t = .leaf true then none else some (showMarker spell t).toList)

theorem showUnnamedT_parse_true (env : ProcEnv) (x : Ext) (spell : Spell) (u : List Char)
    (es : List (List Char)) (hne : u ≠ []) (hu : ∀ c ∈ u, isWs c = false ∧ c ≠ '[' ∧ c ≠ ']')
    (hes : ∀ e ∈ es, NameWF e) :
    parseUnnamed env x (showUnnamedT spell u es (.leaf true)) =
      ⟨some (unnamedCall env u 0 (strLen (u ++ extrasTxt es))),
        .ok ⟨u, es.map normName, .leaf true, []⟩⟩ := by
  unfold showUnnamedT
  rw [if_pos rfl]
  exact C19.roundtrip env x u es hne hu hes

/-- Display then parse for the unnamed requirement: the same URL text, extras and marker DIAGRAM -/
theorem showUnnamedT_parse (env : ProcEnv) (x : Ext) (spell : Spell) (u : List Char)
    (es : List (List Char)) (t : MTree) (hne : u ≠ [])
    (hu : ∀ c ∈ u, isWs c = false ∧ c ≠ '[' ∧ c ≠ ']') (hes : ∀ e ∈ es, NameWF e)
    (hx : C05.ExtReadsPrinted x) (hs : SpellOK spell) (hsp : ∀ v, spell v ≠ [])
    (htw : t.wf = true) (hty : Typed t) (hd : C05.DiagramPrintable t)
    (hb : C05.SepBounds t) (ht : t ≠ .leaf true) (hf : t ≠ .leaf false) :
    parseUnnamed env x (showUnnamedT spell u es t) =
      ⟨some (unnamedCall env u 0 (strLen (u ++ extrasTxt es))),
        .ok ⟨u, es.map normName, t, dnfWarns (toDnf spell t)⟩⟩ := by
  unfold showUnnamedT
  rw [if_neg ht]
  have hi := C19.marker_cursor u es (showMarker spell t).toList (fun e h => (hes e h).1)
  exact C19.roundtrip_marker env x u es _ hne hu hes _
    (markerCursor_show x hx spell hs hsp t htw hty hd ht hf hb [] (AllP.nil _) _ hi (by simp))

theorem showUnnamedT_parse_false (env : ProcEnv) (x : Ext) (spell : Spell) (u : List Char)
    (es : List (List Char)) (hne : u ≠ [])
    (hu : ∀ c ∈ u, isWs c = false ∧ c ≠ '[' ∧ c ≠ ']') (hes : ∀ e ∈ es, NameWF e)
    (hx : x.pat ['0'] = some (⟨[0], false⟩, false)) :
    parseUnnamed env x (showUnnamedT spell u es (.leaf false)) =
      ⟨some (unnamedCall env u 0 (strLen (u ++ extrasTxt es))),
        .ok ⟨u, es.map normName, C05.falseReparsed, []⟩⟩ := by
  unfold showUnnamedT
  rw [if_neg (by decide)]
  have hi := C19.marker_cursor u es (showMarker spell (.leaf false)).toList (fun e h => (hes e h).1)
  exact C19.roundtrip_marker env x u es _ hne hu hes _
    (markerCursor_false x spell hx [] (AllP.nil _) _ hi (by simp))

end Pep508
