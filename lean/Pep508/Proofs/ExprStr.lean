/-
String-valued and `extra` marker expressions.
-/
import Pep508.Proofs.ExprPy
set_option linter.unusedSectionVars false
namespace Pep508
open Spec

theorem Val.decide_lt_str (a b : String) : decide (Val.str a < Val.str b) = decide (a < b) := by
  simp [Val.lt_str]

theorem norm_stringRange (op : SOp) (v : String) : (stringRange op v).Norm := by
  cases op <;> simp only [stringRange]
  all_goals first
    | exact Ranges.norm_singleton _
    | exact Ranges.norm_complement _ (Ranges.norm_singleton _)
    | exact Ranges.norm_single _ rfl
    | exact Ranges.norm_nil

theorem str_eq_iff (s v : String) : (!decide (s < v) && !decide (v < s)) = (s == v) := by
  by_cases h : s = v
  · subst h; simp [String.lt_irrefl]
  · have : (s == v) = false := by simpa using h
    rw [this]
    by_cases h1 : s < v
    · simp [h1]
    · by_cases h2 : v < s
      · simp [h2]
      · exfalso; apply h; grind

theorem mem_stringRange (op : SOp) (s v : String)
    (hop : op = .eq ∨ op = .ne ∨ op = .gt ∨ op = .ge ∨ op = .lt ∨ op = .le) :
    (stringRange op v).mem (Val.str s) = strSem op s v := by
  rcases hop with rfl | rfl | rfl | rfl | rfl | rfl <;> simp only [stringRange, strSem]
  · simp only [Ranges.singleton, Ranges.mem_single, Ivl.mem, Bnd.loOk, Bnd.hiOk, Val.decide_lt_str]
    exact str_eq_iff s v
  · rw [Ranges.mem_complement _ (Ranges.norm_singleton _)]
    simp only [Ranges.singleton, Ranges.mem_single, Ivl.mem, Bnd.loOk, Bnd.hiOk, Val.decide_lt_str,
      str_eq_iff]
    rfl
  all_goals
    simp only [Ranges.mem_single, Ivl.mem, Bnd.loOk, Bnd.hiOk, Val.decide_lt_str, Bool.and_true,
      Bool.true_and]

theorem expression_string_cmp (k : SKey) (op : SOp) (v : String)
    (hop : op = .eq ∨ op = .ne ∨ op = .gt ∨ op = .ge ∨ op = .lt ∨ op = .le) :
    expression (.string k op v) = rangeNode (.str k) (stringRange op v) := by
  rcases hop with rfl | rfl | rfl | rfl | rfl | rfl <;> rfl

/-- `key OP 'literal'` for the six comparison operators on string-valued keys -/
theorem eval_expression_string (ρ : Env VarR VarB Val) (k : SKey) (op : SOp) (s v : String)
    (hop : op = .eq ∨ op = .ne ∨ op = .gt ∨ op = .ge ∨ op = .lt ∨ op = .le)
    (hρ : ρ.rv (.str k) = .str s) :
    (expression (.string k op v)).eval ρ = strSem op s v := by
  rw [expression_string_cmp k op v hop, eval_rangeNode ρ _ _ (norm_stringRange op v), hρ,
    mem_stringRange op s v hop]

theorem eval_boolNode (ρ : Env VarR VarB Val) (x : VarB) (positive : Bool) :
    (boolNode x positive).eval ρ = (ρ.bv x == positive) := by
  cases positive <;> simp only [boolNode, Bool.false_eq_true, if_false, if_true, Tree.eval] <;>
    cases ρ.bv x <;> rfl

theorem eval_expression_isIn (ρ : Env VarR VarB Val) (k : SKey) (v : String) :
    (expression (.string k .isIn v)).eval ρ = ρ.bv (.isIn k v) := by
  show (boolNode _ true).eval ρ = _; rw [eval_boolNode]; simp

theorem eval_expression_notIn (ρ : Env VarR VarB Val) (k : SKey) (v : String) :
    (expression (.string k .notIn v)).eval ρ = !ρ.bv (.isIn k v) := by
  show (boolNode _ false).eval ρ = _; rw [eval_boolNode]; simp

theorem eval_expression_contains (ρ : Env VarR VarB Val) (k : SKey) (v : String) :
    (expression (.string k .contains v)).eval ρ = ρ.bv (.contains k v) := by
  show (boolNode _ true).eval ρ = _; rw [eval_boolNode]; simp

theorem eval_expression_notContains (ρ : Env VarR VarB Val) (k : SKey) (v : String) :
    (expression (.string k .notContains v)).eval ρ = !ρ.bv (.contains k v) := by
  show (boolNode _ false).eval ρ = _; rw [eval_boolNode]; simp

theorem eval_expression_extra (ρ : Env VarR VarB Val) (neg : Bool) (name : ExtraVal) :
    (expression (.extra neg name)).eval ρ = (ρ.bv (.extra name) != neg) := by
  show (boolNode _ (!neg)).eval ρ = _
  rw [eval_boolNode]; cases neg <;> cases ρ.bv (.extra name) <;> rfl

/-- every string / extra expression is a well-formed diagram -/
theorem wf_expression_string (k : SKey) (op : SOp) (v : String) :
    (expression (.string k op v)).wf = true := by
  cases op
  case isIn | notIn | contains | notContains =>
    simp [expression, boolNode, Tree.wf, Tree.rootGt]
  all_goals exact wf_rangeNode _ _ (norm_stringRange _ v)

theorem wf_expression_extra (neg : Bool) (name : ExtraVal) :
    (expression (.extra neg name)).wf = true := by
  cases neg <;> simp [expression, boolNode, Tree.wf, Tree.rootGt]

/-! ### every single-expression diagram is well-formed -/

theorem wf_expression_versionIn (k : VKey) (vs : List (List Nat)) (neg : Bool) :
    (expression (.versionIn k vs neg)).wf = true := by
  by_cases hk : k = .pyVer
  · subst hk
    rw [expression_pyVer_in]
    cases h : pyVersionsRange vs [] with
    | none => rfl
    | some r =>
      have hn := norm_pyVersionsRange vs [] r Ranges.norm_nil h
      cases neg
      · exact wf_rangeNode _ _ hn
      · exact wf_rangeNode _ _ (Ranges.norm_complement _ hn)
  · rw [expression_versionIn_of_ne k vs neg hk]
    have hn := (versionsRange_spec vs [] Ranges.norm_nil []).1
    cases neg
    · exact wf_rangeNode _ _ hn
    · exact wf_rangeNode _ _ (Ranges.norm_complement _ hn)

/-- `InternerGuard::expression` always produces a diagram satisfying the structural C20 predicate -/
theorem wf_expression (e : MExpr) : (expression e).wf = true := by
  cases e with
  | version k s =>
    by_cases hk : k = .pyVer
    · subst hk; exact wf_expression_pyVer s
    · exact wf_expression_version k s hk
  | versionIn k vs neg => exact wf_expression_versionIn k vs neg
  | string k op v => exact wf_expression_string k op v
  | extra neg name => exact wf_expression_extra neg name

theorem OK_expression (e : MExpr) : (expression e).OK := Tree.OK_of_wf _ (wf_expression e)

end Pep508
