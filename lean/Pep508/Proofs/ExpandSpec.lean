/-
Declarative specification of `expandEnvVars` (Model/Url.lean), the model of `expand_env_vars`:
one left-to-right pass replacing every well-formed reference `${NAME}` (`NAME ∈ [A-Z0-9_]+`) by the
value of the variable, leaving it verbatim when the variable is unset, copying everything else,
never re-scanning a replacement.

* `Expands env s o` : the inductive relation "`o` is an expansion of `s`";
* `expands_expandEnvVars` / `Expands.functional` / `expandEnvVars_eq_iff` : the function is the
  unique solution of the relation;
* compositionality (`expandEnvVars_append_safe`), the shapes of malformed references, and the
  fuel lemma.
-/
import Pep508.Proofs.Unnamed
namespace Pep508

/-! ### names and references -/

/-- a variable name: one or more characters of `[A-Z0-9_]` -/
def ValidName (name : List Char) : Prop := name ≠ [] ∧ ∀ c ∈ name, isVarChar c = true

instance (name : List Char) : Decidable (ValidName name) := by unfold ValidName; infer_instance

/-- the text `${name}` -/
def refText (name : List Char) : List Char := '$' :: '{' :: name ++ ['}']

/-- what a reference to `name` is replaced by: the value if set, else the reference itself -/
def substVar (env : ProcEnv) (name : List Char) : List Char :=
  match lookupVar env name with
  | some v => v
  | none => refText name

/-- `s` starts with a well-formed reference -/
def StartsWithRef (s : List Char) : Prop :=
  ∃ name rest, ValidName name ∧ s = '$' :: '{' :: name ++ '}' :: rest

/-- the specification: `Expands env s o` — "`o` is the expansion of `s`" -/
inductive Expands (env : ProcEnv) : List Char → List Char → Prop
  | nil : Expands env [] []
  | var (name rest out : List Char) : ValidName name → Expands env rest out →
      Expands env ('$' :: '{' :: name ++ '}' :: rest) (substVar env name ++ out)
  | char (c : Char) (rest out : List Char) : ¬ StartsWithRef (c :: rest) → Expands env rest out →
      Expands env (c :: rest) (c :: out)

/-! ### `matchVar` is "starts with a well-formed reference" -/

theorem isVarChar_rbrace : isVarChar '}' = false := by decide
theorem isVarChar_lbrace : isVarChar '{' = false := by decide
theorem isVarChar_dollar : isVarChar '$' = false := by decide

theorem ValidName.no_dollar {name : List Char} (h : ValidName name) : '$' ∉ name := fun hm => by
  have := h.2 _ hm; rw [isVarChar_dollar] at this; cases this

theorem ValidName.no_rbrace {name : List Char} (h : ValidName name) : '}' ∉ name := fun hm => by
  have := h.2 _ hm; rw [isVarChar_rbrace] at this; cases this

theorem takeWhile_app_stop {α} {p : α → Bool} {l : List α} {a : α} {r : List α}
    (h : ∀ x ∈ l, p x = true) (ha : p a = false) : (l ++ a :: r).takeWhile p = l := by
  rw [List.takeWhile_append_of_pos h]; simp [ha]

theorem dropWhile_app_stop {α} {p : α → Bool} {l : List α} {a : α} {r : List α}
    (h : ∀ x ∈ l, p x = true) (ha : p a = false) : (l ++ a :: r).dropWhile p = a :: r := by
  rw [List.dropWhile_append_of_pos h]; simp [ha]

theorem matchVar_unfold (rest : List Char) :
    matchVar ('$' :: '{' :: rest) =
      match rest.dropWhile isVarChar with
      | '}' :: after =>
        if (rest.takeWhile isVarChar).isEmpty then none else some (rest.takeWhile isVarChar, after)
      | _ => none := rfl

theorem matchVar_ref {name : List Char} (h : ValidName name) (rest : List Char) :
    matchVar ('$' :: '{' :: name ++ '}' :: rest) = some (name, rest) := by
  obtain ⟨hne, hall⟩ := h
  rw [List.cons_append, List.cons_append, matchVar_unfold,
    takeWhile_app_stop hall isVarChar_rbrace, dropWhile_app_stop hall isVarChar_rbrace]
  cases name with
  | nil => exact absurd rfl hne
  | cons => rfl

theorem matchVar_some {s name after : List Char} (h : matchVar s = some (name, after)) :
    ValidName name ∧ s = '$' :: '{' :: name ++ '}' :: after := by
  unfold matchVar at h
  split at h
  · rename_i rest
    simp only at h
    split at h
    · rename_i after' hd
      split at h
      · cases h
      · rename_i hne
        simp only [Option.some.injEq, Prod.mk.injEq] at h
        obtain ⟨rfl, rfl⟩ := h
        refine ⟨⟨?_, ?_⟩, ?_⟩
        · intro e; rw [e] at hne; exact hne rfl
        · intro c hc; exact mem_takeWhile_pos hc
        · rw [← hd, List.cons_append, List.cons_append, List.takeWhile_append_dropWhile]
    · cases h
  · cases h

theorem matchVar_eq_some_iff {s name after : List Char} :
    matchVar s = some (name, after) ↔ ValidName name ∧ s = '$' :: '{' :: name ++ '}' :: after :=
  ⟨matchVar_some, fun ⟨h, e⟩ => e ▸ matchVar_ref h after⟩

theorem matchVar_isSome_iff {s : List Char} : (matchVar s).isSome ↔ StartsWithRef s := by
  constructor
  · intro h
    match hm : matchVar s, h with
    | some (name, after), _ => exact ⟨name, after, matchVar_some hm⟩
  · rintro ⟨name, rest, hv, rfl⟩
    rw [matchVar_ref hv]; rfl

theorem matchVar_eq_none_iff {s : List Char} : matchVar s = none ↔ ¬ StartsWithRef s := by
  rw [← matchVar_isSome_iff]; cases matchVar s <;> simp

/-! ### fuel -/

theorem matchVar_after_length {s name after : List Char} (h : matchVar s = some (name, after)) :
    after.length + 4 ≤ s.length := by
  obtain ⟨⟨hne, _⟩, rfl⟩ := matchVar_some h
  cases name with
  | nil => exact absurd rfl hne
  | cons a l => simp only [List.length_cons, List.length_append]; omega

/-- any two sufficient amounts of fuel give the same result -/
theorem expandEnvVarsF_fuel (env : ProcEnv) :
    ∀ (n m : Nat) (s : List Char), s.length < n → s.length < m →
      expandEnvVarsF env n s = expandEnvVarsF env m s
  | 0, _, _, h, _ => absurd h (Nat.not_lt_zero _)
  | _ + 1, 0, _, _, h => absurd h (Nat.not_lt_zero _)
  | _ + 1, _ + 1, [], _, _ => rfl
  | n + 1, m + 1, c :: rest, hn, hm => by
    simp only [expandEnvVarsF]
    cases hmv : matchVar (c :: rest) with
    | none =>
      simp only
      rw [expandEnvVarsF_fuel env n m rest (by simpa using hn) (by simpa using hm)]
    | some p =>
      obtain ⟨name, after⟩ := p
      have hl := matchVar_after_length hmv
      simp only
      rw [expandEnvVarsF_fuel env n m after (by simp at hn hl; omega) (by simp at hm hl; omega)]

/-- (g) the fuel `s.length + 1` used by `expandEnvVars` always suffices -/
theorem expandEnvVarsF_eq (env : ProcEnv) (n : Nat) (s : List Char) (h : s.length < n) :
    expandEnvVarsF env n s = expandEnvVars env s :=
  expandEnvVarsF_fuel env n (s.length + 1) s h (Nat.lt_succ_self _)

/-! ### the recursion equations of `expandEnvVars` (no fuel) -/

@[simp] theorem expandEnvVars_nil (env : ProcEnv) : expandEnvVars env [] = [] := rfl

theorem expandEnvVars_cons (env : ProcEnv) (c : Char) (rest : List Char) :
    expandEnvVars env (c :: rest) =
      match matchVar (c :: rest) with
      | some (name, after) => substVar env name ++ expandEnvVars env after
      | none => c :: expandEnvVars env rest := by
  show expandEnvVarsF env (rest.length + 1 + 1) (c :: rest) = _
  simp only [expandEnvVarsF]
  cases hmv : matchVar (c :: rest) with
  | none => rfl
  | some p =>
    obtain ⟨name, after⟩ := p
    have hl := matchVar_after_length hmv
    simp only
    rw [expandEnvVarsF_eq env _ after (by simp at hl; omega)]
    rfl

/-- a well-formed reference at the front is replaced, the rest is expanded independently -/
theorem expandEnvVars_ref (env : ProcEnv) {name : List Char} (h : ValidName name) (rest : List Char) :
    expandEnvVars env ('$' :: '{' :: name ++ '}' :: rest) = substVar env name ++ expandEnvVars env rest := by
  have := matchVar_ref h rest
  rw [List.cons_append, List.cons_append] at this ⊢
  rw [expandEnvVars_cons, this]

/-- a character that does not start a well-formed reference is copied -/
theorem expandEnvVars_char (env : ProcEnv) {c : Char} {rest : List Char} (h : ¬ StartsWithRef (c :: rest)) :
    expandEnvVars env (c :: rest) = c :: expandEnvVars env rest := by
  rw [expandEnvVars_cons, matchVar_eq_none_iff.2 h]

/-! ### (S1) the function meets the specification, and the specification is functional -/

theorem Expands.eq_expandEnvVars {env : ProcEnv} {s o : List Char} (h : Expands env s o) :
    o = expandEnvVars env s := by
  induction h with
  | nil => rfl
  | var name rest out hv _ ih => rw [expandEnvVars_ref env hv, ih]
  | char c rest out hn _ ih => rw [expandEnvVars_char env hn, ih]

theorem expands_expandEnvVars (env : ProcEnv) : ∀ s : List Char, Expands env s (expandEnvVars env s)
  | [] => .nil
  | c :: rest => by
    cases hmv : matchVar (c :: rest) with
    | none =>
      have hn := matchVar_eq_none_iff.1 hmv
      rw [expandEnvVars_char env hn]
      exact .char c rest _ hn (expands_expandEnvVars env rest)
    | some p =>
      obtain ⟨name, after⟩ := p
      have hl := matchVar_after_length hmv
      obtain ⟨hv, he⟩ := matchVar_some hmv
      rw [he, expandEnvVars_ref env hv]
      exact .var name after _ hv (expands_expandEnvVars env after)
termination_by s => s.length
decreasing_by all_goals (simp only [List.length_cons] at *; omega)

theorem Expands.functional {env : ProcEnv} {s o₁ o₂ : List Char}
    (h₁ : Expands env s o₁) (h₂ : Expands env s o₂) : o₁ = o₂ :=
  h₁.eq_expandEnvVars.trans h₂.eq_expandEnvVars.symm

theorem expandEnvVars_eq_iff (env : ProcEnv) (s o : List Char) :
    expandEnvVars env s = o ↔ Expands env s o :=
  ⟨fun h => h ▸ expands_expandEnvVars env s, fun h => h.eq_expandEnvVars.symm⟩

/-! ### compositionality: `expandEnvVars (a ++ b) = expandEnvVars a ++ expandEnvVars b` -/

/-- a proper prefix of a reference that can still be completed: `$`, `${`, `${NAME…` -/
def PartialRef (p : List Char) : Prop :=
  p = ['$'] ∨ ∃ name, (∀ c ∈ name, isVarChar c = true) ∧ p = '$' :: '{' :: name

/-- `b` is empty or starts with a character that cannot continue a partial reference:
    not `{`, not `}`, not a name character -/
def SafeStart (b : List Char) : Prop :=
  ∀ c, b.head? = some c → c ≠ '{' ∧ c ≠ '}' ∧ isVarChar c = false

/-- `a` is empty or ends with a character that cannot end a partial reference:
    not `$`, not `{`, not a name character -/
def SafeEnd (a : List Char) : Prop :=
  ∀ c, a.getLast? = some c → c ≠ '$' ∧ c ≠ '{' ∧ isVarChar c = false

/-- no reference straddles the boundary between `a` and `b`: a non-empty suffix of `a` that does
    not start with a reference does not start with one once `b` is appended -/
def NoStraddle (a b : List Char) : Prop :=
  ∀ p, p ≠ [] → p <:+ a → ¬ StartsWithRef p → ¬ StartsWithRef (p ++ b)

theorem SafeStart.nil : SafeStart [] := fun _ h => by cases h

theorem SafeStart.cons {c : Char} (b : List Char) (h1 : c ≠ '{') (h2 : c ≠ '}')
    (h3 : isVarChar c = false) : SafeStart (c :: b) := fun d h => by
  simp only [List.head?_cons, Option.some.injEq] at h; subst h; exact ⟨h1, h2, h3⟩

theorem SafeStart.dollar (post : List Char) : SafeStart ('$' :: post) :=
  .cons post (by decide) (by decide) (by decide)

theorem PartialRef.getLast {p : List Char} (h : PartialRef p) :
    ∃ c, p.getLast? = some c ∧ (c = '$' ∨ c = '{' ∨ isVarChar c = true) := by
  rcases h with rfl | ⟨name, hall, rfl⟩
  · exact ⟨'$', rfl, .inl rfl⟩
  · cases name with
    | nil => exact ⟨'{', rfl, .inr (.inl rfl)⟩
    | cons a l =>
      rw [List.getLast?_cons_cons, List.getLast?_cons_cons]
      cases hl : (a :: l).getLast? with
      | none => simp at hl
      | some c => exact ⟨c, rfl, .inr (.inr (hall c (List.mem_of_getLast? hl)))⟩

theorem dropWhile_cases {α} (p : α → Bool) (l : List α) :
    (∀ x ∈ l, p x = true) ∨ ∃ t x r, l = t ++ x :: r ∧ (∀ y ∈ t, p y = true) ∧ p x = false := by
  induction l with
  | nil => exact .inl (by simp)
  | cons a l ih =>
    by_cases ha : p a = true
    · rcases ih with h | ⟨t, x, r, rfl, ht, hx⟩
      · exact .inl (by simpa [ha] using h)
      · exact .inr ⟨a :: t, x, r, rfl, by simpa [ha] using ht, hx⟩
    · exact .inr ⟨[], a, l, rfl, by simp, by simpa using ha⟩

/-- `$` not followed by `{` does not start a reference -/
theorem matchVar_dollar_not_lbrace {s : List Char} (h : ∀ c, s.head? = some c → c ≠ '{') :
    matchVar ('$' :: s) = none := by
  cases s with
  | nil => rfl
  | cons d s =>
    have hd : d ≠ '{' := h d rfl
    unfold matchVar
    split
    · rename_i heq
      simp only [List.cons.injEq] at heq
      exact absurd heq.2.1 hd
    · rfl

theorem matchVar_append_some {p name after : List Char} (h : matchVar p = some (name, after))
    (b : List Char) : matchVar (p ++ b) = some (name, after ++ b) := by
  obtain ⟨hv, rfl⟩ := matchVar_some h
  have := matchVar_ref hv (after ++ b)
  simpa using this

/-- appending `b` can only create a reference at the start of `p` if `p` is a partial reference
    and `b` continues it -/
theorem matchVar_append_none {p b : List Char} (hp : p ≠ []) (hmv : matchVar p = none)
    (hb : PartialRef p → SafeStart b) : matchVar (p ++ b) = none := by
  match p, hp, hmv, hb with
  | c :: p', _, hmv, hb =>
    refine if hc : c = '$' then ?_ else matchVar_none_of_ne _ hc
    subst hc
    match p', hmv, hb with
    | [], _, hb => exact matchVar_dollar_not_lbrace (fun c h => (hb (.inl rfl) c h).1)
    | d :: p'', hmv, hb =>
      refine if hd : d = '{' then ?_ else
        matchVar_dollar_not_lbrace (s := d :: p'' ++ b) (fun c h => by
          simp only [List.cons_append, List.head?_cons, Option.some.injEq] at h; exact h ▸ hd)
      subst hd
      rw [List.cons_append, List.cons_append, matchVar_unfold]
      rw [matchVar_unfold] at hmv
      rcases dropWhile_cases isVarChar p'' with hall | ⟨t, x, r, rfl, ht, hx⟩
      · rw [List.dropWhile_append_of_pos hall]
        have hb := hb (.inr ⟨p'', hall, rfl⟩)
        cases b with
        | nil => rfl
        | cons e b =>
          obtain ⟨_, h2, h3⟩ := hb e rfl
          rw [List.dropWhile_cons_of_neg (by simp [h3])]
          split
          · rename_i heq; simp only [List.cons.injEq] at heq; exact absurd heq.1 h2
          · rfl
      · rw [takeWhile_app_stop ht hx, dropWhile_app_stop ht hx] at hmv
        rw [List.append_assoc, List.cons_append, takeWhile_app_stop ht hx, dropWhile_app_stop ht hx]
        by_cases hx' : x = '}'
        · subst hx'
          simp only at hmv ⊢
          by_cases hte : t.isEmpty = true
          · simp [hte]
          · simp [hte] at hmv
        · split
          · rename_i heq; simp only [List.cons.injEq] at heq; exact absurd heq.1 hx'
          · rfl

theorem NoStraddle.of_suffix {a a' b : List Char} (h : NoStraddle a b) (hs : a' <:+ a) :
    NoStraddle a' b := fun p hp hpa => h p hp (hpa.trans hs)

theorem NoStraddle.of_safeStart (a : List Char) {b : List Char} (hb : SafeStart b) :
    NoStraddle a b := fun _ hp _ hn =>
  matchVar_eq_none_iff.1 (matchVar_append_none hp (matchVar_eq_none_iff.2 hn) (fun _ => hb))

theorem NoStraddle.of_safeEnd {a : List Char} (ha : SafeEnd a) (b : List Char) :
    NoStraddle a b := fun p hp hpa hn =>
  matchVar_eq_none_iff.1 (matchVar_append_none hp (matchVar_eq_none_iff.2 hn) (fun hpr => by
    obtain ⟨c, hc, hc'⟩ := hpr.getLast
    obtain ⟨q, rfl⟩ := hpa
    have : (q ++ p).getLast? = some c := by rw [List.getLast?_append, hc]; rfl
    obtain ⟨h1, h2, h3⟩ := ha c this
    rcases hc' with h | h | h
    · exact absurd h h1
    · exact absurd h h2
    · rw [h3] at h; cases h))

theorem NoStraddle.of_no_dollar {a : List Char} (ha : '$' ∉ a) (b : List Char) :
    NoStraddle a b := fun p hp hpa _ => by
  match p, hp, hpa with
  | c :: p', _, hpa =>
    have hc : c ≠ '$' := fun e => ha (hpa.mem (by simp [e]))
    exact matchVar_eq_none_iff.1 (matchVar_none_of_ne _ hc)

/-- expansion distributes over `++` whenever no reference straddles the boundary -/
theorem expandEnvVars_append (env : ProcEnv) : ∀ (a b : List Char), NoStraddle a b →
    expandEnvVars env (a ++ b) = expandEnvVars env a ++ expandEnvVars env b
  | [], b, _ => by simp
  | c :: a', b, h => by
    cases hmv : matchVar (c :: a') with
    | none =>
      have hn := matchVar_eq_none_iff.1 hmv
      have hn' := h _ (by simp) (List.suffix_refl _) hn
      rw [List.cons_append] at hn' ⊢
      rw [expandEnvVars_char env hn', expandEnvVars_char env hn,
        expandEnvVars_append env a' b (h.of_suffix (List.suffix_cons _ _))]
      rfl
    | some na =>
      obtain ⟨name, after⟩ := na
      have hl := matchVar_after_length hmv
      have hmv' := matchVar_append_some hmv b
      obtain ⟨hv, he⟩ := matchVar_some hmv
      rw [List.cons_append] at hmv' ⊢
      rw [expandEnvVars_cons, hmv', expandEnvVars_cons, hmv]
      simp only
      have hsuf : after <:+ c :: a' := by
        rw [he]; exact ⟨'$' :: '{' :: name ++ ['}'], by simp⟩
      rw [expandEnvVars_append env after b (h.of_suffix hsuf), List.append_assoc]
termination_by a => a.length
decreasing_by all_goals (simp only [List.length_cons] at *; omega)

/-! ### corollaries of compositionality -/

theorem expandEnvVars_append_safeStart (env : ProcEnv) (a : List Char) {b : List Char}
    (hb : SafeStart b) : expandEnvVars env (a ++ b) = expandEnvVars env a ++ expandEnvVars env b :=
  expandEnvVars_append env a b (.of_safeStart a hb)

theorem expandEnvVars_append_safeEnd (env : ProcEnv) {a : List Char} (ha : SafeEnd a)
    (b : List Char) : expandEnvVars env (a ++ b) = expandEnvVars env a ++ expandEnvVars env b :=
  expandEnvVars_append env a b (.of_safeEnd ha b)

/-- a `$`-free prefix is copied, whatever follows (strengthens `expandEnvVars_prefix`) -/
theorem expandEnvVars_append_no_dollar (env : ProcEnv) {a : List Char} (ha : '$' ∉ a)
    (b : List Char) : expandEnvVars env (a ++ b) = a ++ expandEnvVars env b := by
  rw [expandEnvVars_append env a b (.of_no_dollar ha b), expandEnvVars_id env a ha]

/-- a `$` is always a safe place to cut the input -/
theorem expandEnvVars_append_dollar (env : ProcEnv) (a post : List Char) :
    expandEnvVars env (a ++ '$' :: post) = expandEnvVars env a ++ expandEnvVars env ('$' :: post) :=
  expandEnvVars_append_safeStart env a (.dollar post)

theorem refText_append (name post : List Char) :
    refText name ++ post = '$' :: '{' :: name ++ '}' :: post := by simp [refText]

theorem substVar_set {env : ProcEnv} {name value : List Char} (h : lookupVar env name = some value) :
    substVar env name = value := by simp [substVar, h]

theorem substVar_unset {env : ProcEnv} {name : List Char} (h : lookupVar env name = none) :
    substVar env name = refText name := by simp [substVar, h]

/-- a well-formed reference anywhere in the input: no side condition on what precedes it -/
theorem expandEnvVars_ref_mid (env : ProcEnv) (pre : List Char) {name : List Char}
    (hv : ValidName name) (post : List Char) :
    expandEnvVars env (pre ++ refText name ++ post) =
      expandEnvVars env pre ++ substVar env name ++ expandEnvVars env post := by
  rw [List.append_assoc, refText_append, List.cons_append, List.cons_append,
    expandEnvVars_append_dollar, ← List.cons_append, ← List.cons_append, expandEnvVars_ref env hv,
    List.append_assoc]

/-! ### `lookupVar` -/

theorem lookupVar_eq_lookup (env : ProcEnv) (name : List Char) :
    lookupVar env name =
      (env.vars.lookup name <|> if name = "PROJECT_ROOT".toList then some env.cwd else none) := by
  obtain ⟨vars, cwd⟩ := env
  unfold lookupVar
  generalize "PROJECT_ROOT".toList = pr
  simp only
  induction vars with
  | nil => simp
  | cons kv vars ih =>
    obtain ⟨k, v⟩ := kv
    by_cases hk : k = name
    · subst hk; simp [List.lookup]
    · have hk' : (name == k) = false := by simpa using fun e => hk e.symm
      simp only [List.find?, List.lookup, hk']
      have hk'' : (k == name) = false := by simpa using hk
      simp only [hk'']
      exact ih

/-- the first binding of `name` wins -/
theorem lookupVar_set {env : ProcEnv} {name value : List Char} {l₁ l₂ : List (List Char × List Char)}
    (he : env.vars = l₁ ++ (name, value) :: l₂) (h₁ : ∀ p ∈ l₁, p.1 ≠ name) :
    lookupVar env name = some value := by
  unfold lookupVar
  have : env.vars.find? (·.1 == name) = some (name, value) := by
    rw [he, List.find?_append, List.find?_eq_none.2 (by simpa using h₁)]
    simp
  rw [this]

theorem lookupVar_unset {env : ProcEnv} {name : List Char} (h : ∀ p ∈ env.vars, p.1 ≠ name) :
    lookupVar env name = if name = "PROJECT_ROOT".toList then some env.cwd else none := by
  unfold lookupVar
  generalize "PROJECT_ROOT".toList = pr
  rw [List.find?_eq_none.2 (by simpa using h)]
  simp

theorem lookupVar_eq_none_iff {env : ProcEnv} {name : List Char} :
    lookupVar env name = none ↔ (∀ p ∈ env.vars, p.1 ≠ name) ∧ name ≠ "PROJECT_ROOT".toList := by
  constructor
  · intro h
    unfold lookupVar at h
    generalize "PROJECT_ROOT".toList = pr at h ⊢
    split at h
    · cases h
    · rename_i hf
      split at h
      · cases h
      · rename_i hne
        exact ⟨by simpa using hf, by simpa using hne⟩
  · rintro ⟨h1, h2⟩
    rw [lookupVar_unset h1, if_neg h2]

/-! ### malformed references are copied verbatim -/

/-- `$NAME`: a `$` not followed by `{` is copied -/
theorem expandEnvVars_dollar_no_brace (env : ProcEnv) {s : List Char}
    (h : ∀ c, s.head? = some c → c ≠ '{') :
    expandEnvVars env ('$' :: s) = '$' :: expandEnvVars env s :=
  expandEnvVars_char env (matchVar_eq_none_iff.1 (matchVar_dollar_not_lbrace h))

theorem matchVar_partial {name : List Char} (hall : ∀ c ∈ name, isVarChar c = true) :
    matchVar ('$' :: '{' :: name) = none := by
  rw [matchVar_unfold, dropWhile_all hall]

theorem no_dollar_of_varChars {name : List Char} (hall : ∀ c ∈ name, isVarChar c = true) :
    '$' ∉ name := fun hm => by
  have := hall _ hm; rw [isVarChar_dollar] at this; cases this

/-- `${NAME` not closed: the name is followed by the end of input or by a character that is
    neither `}` nor a name character (and not `{`, which is not a name character anyway) -/
theorem expandEnvVars_unclosed (env : ProcEnv) {name rest : List Char}
    (hall : ∀ c ∈ name, isVarChar c = true) (hr : SafeStart rest) :
    expandEnvVars env ('$' :: '{' :: name ++ rest) = '$' :: '{' :: name ++ expandEnvVars env rest := by
  have h1 : matchVar (('$' :: '{' :: name) ++ rest) = none :=
    matchVar_append_none (by simp) (matchVar_partial hall) (fun _ => hr)
  rw [List.cons_append] at h1 ⊢
  rw [expandEnvVars_char env (matchVar_eq_none_iff.1 h1)]
  have h2 : '$' ∉ '{' :: name := by
    intro hm
    rcases List.mem_cons.1 hm with h | h
    · cases h
    · exact no_dollar_of_varChars hall h
  rw [expandEnvVars_append_no_dollar env h2]
  rfl

/-- `${}`: the empty name is not a reference -/
theorem expandEnvVars_empty_name (env : ProcEnv) (rest : List Char) :
    expandEnvVars env ('$' :: '{' :: '}' :: rest) = '$' :: '{' :: '}' :: expandEnvVars env rest := by
  have h1 : matchVar ('$' :: '{' :: '}' :: rest) = none := by
    rw [matchVar_unfold, List.dropWhile_cons_of_neg (by decide), List.takeWhile_cons_of_neg (by decide)]
    rfl
  rw [expandEnvVars_char env (matchVar_eq_none_iff.1 h1)]
  exact congrArg _ (expandEnvVars_append_no_dollar env (a := ['{', '}']) (by decide) rest)

/-- `${name}` where `name` contains a character outside `[A-Z0-9_]` (lower case, `-`, …) and no
    `}` or `$`: copied verbatim -/
theorem expandEnvVars_bad_name (env : ProcEnv) {name : List Char} (rest : List Char)
    (hbad : ∃ c ∈ name, isVarChar c = false) (hrb : '}' ∉ name) (hd : '$' ∉ name) :
    expandEnvVars env ('$' :: '{' :: name ++ '}' :: rest) =
      '$' :: '{' :: name ++ '}' :: expandEnvVars env rest := by
  have h1 : matchVar ('$' :: '{' :: (name ++ '}' :: rest)) = none := by
    rw [matchVar_unfold]
    rcases dropWhile_cases isVarChar name with hall | ⟨t, x, r, rfl, ht, hx⟩
    · obtain ⟨c, hc, hc'⟩ := hbad
      rw [hall c hc] at hc'; cases hc'
    · have hx' : x ≠ '}' := fun e => hrb (by simp [e])
      rw [List.append_assoc, List.cons_append, dropWhile_app_stop ht hx]
      split
      · rename_i heq; simp only [List.cons.injEq] at heq; exact absurd heq.1 hx'
      · rfl
  rw [List.cons_append, List.cons_append]
  rw [expandEnvVars_char env (matchVar_eq_none_iff.1 h1)]
  have h2 : '$' ∉ '{' :: name ++ ['}'] := by
    simp only [List.cons_append, List.mem_cons, List.mem_append, List.mem_nil_iff, or_false, not_or]
    exact ⟨by decide, hd, by decide⟩
  have := expandEnvVars_append_no_dollar env h2 rest
  simp only [List.cons_append, List.append_assoc, List.nil_append] at this
  rw [this]
  rfl

/-- (g) in the requested form -/
theorem expandEnvVarsF_fuel_suffices (env : ProcEnv) (n : Nat) (s : List Char) (h : s.length < n) :
    expandEnvVarsF env n s = expandEnvVarsF env (s.length + 1) s :=
  expandEnvVarsF_eq env n s h

end Pep508
