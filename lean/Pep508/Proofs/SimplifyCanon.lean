/-
`simplify_python_versions`: what the simplified diagram does OUTSIDE the range, and the
resulting canonicity theorems (`simplifyPy_congr`: markers that agree inside `R` simplify to the
same diagram; `simplifyPy_complexifyPy`; idempotence), plus the exact behaviour for an empty /
inverted range.
-/
import Pep508.Proofs.UnaryPy
import Pep508.Proofs.WfUnary
import Pep508.Proofs.Canon
set_option linter.unusedSectionVars false
set_option linter.unusedSimpArgs false
set_option linter.unusedVariables false
namespace Pep508
variable {νr νb α : Type}
variable [LT α] [LE α] [Std.IsLinearOrder α] [Std.LawfulOrderLT α] [DecidableLT α] [DecidableEq α]
variable [LT νr] [LE νr] [Std.IsLinearOrder νr] [Std.LawfulOrderLT νr] [DecidableLT νr] [DecidableEq νr]
variable [LT νb] [LE νb] [Std.IsLinearOrder νb] [Std.LawfulOrderLT νb] [DecidableLT νb] [DecidableEq νb]

/-! ### bounds -/

theorem Bnd.hiOk_mono (h : Bnd α) (a x : α) (ha : h.hiOk a = true) (hx : ¬ a < x) :
    h.hiOk x = true := by
  cases h <;> simp only [Bnd.hiOk] at * <;> grind

theorem Bnd.loOk_mono (l : Bnd α) (a x : α) (ha : l.loOk a = true) (hx : ¬ x < a) :
    l.loOk x = true := by
  cases l <;> simp only [Bnd.loOk] at * <;> grind

/-! ### the kept, clipped edges -/

theorem simplifyNew_mem (lo hi : Bnd α) (es : EdgeL νr νb α) (e : Ivl α × Tree νr νb α)
    (he : e ∈ simplifyNew lo hi es) :
    e.1.valid = true ∧ ∃ e' ∈ es, e.1 = e'.1.inter ⟨lo, hi⟩ ∧ e.2 = e'.2 := by
  unfold simplifyNew at he
  obtain ⟨e', he', h⟩ := List.mem_filterMap.mp he
  simp only [] at h
  split at h
  · rename_i hv
    simp only [Option.some.injEq] at h
    subst h
    exact ⟨hv, e', he', rfl, rfl⟩
  · simp at h

theorem simplifyNew_sep (lo hi : Bnd α) (es : EdgeL νr νb α) (hsep : es.Pairwise Sep) :
    (simplifyNew lo hi es).Pairwise Sep := by
  unfold simplifyNew
  refine List.Pairwise.filterMap _ ?_ hsep
  intro a a' haa b hb b' hb'
  simp only [] at hb hb'
  split at hb
  · split at hb'
    · simp only [Option.some.injEq] at hb hb'
      subst hb; subst hb'
      intro x hx
      simp only [Ivl.inter, Bnd.loOk_maxLo, Bnd.hiOk_minHi_u, Bool.and_eq_true] at hx ⊢
      rw [haa x hx.1]; rfl
    · simp at hb'
  · simp at hb

theorem simplifyEdges_sep (lo hi : Bnd α) (es : EdgeL νr νb α)
    (hp : partitionFrom .unb es = true) : (simplifyEdges lo hi es).Pairwise Sep := by
  rw [simplifyEdges_eq]
  exact setLastHi_sep .unb _ (setFirstLo_sep .unb _
    (simplifyNew_sep lo hi es (partitionFrom_sep .unb es hp).1))

theorem simplifyNew_ne_nil (lo hi : Bnd α) (es : EdgeL νr νb α)
    (hv : (Ivl.mk lo hi).valid = true) (hp : partitionFrom .unb es = true) :
    simplifyNew lo hi es ≠ [] := by
  obtain ⟨h1, h2⟩ := (partitionFrom_iff .unb es).mp hp
  have := simplifyEdges_ne_nil lo hi es hv h1 h2
  intro h
  rw [simplifyEdges_eq, h] at this
  exact this rfl

/-- every edge of the final list comes from a kept edge: same child, bounds either kept or
    opened -/
theorem setFirstLo_mem_rev (lo' : Bnd α) (L : EdgeL νr νb α) (e' : Ivl α × Tree νr νb α)
    (he' : e' ∈ setFirstLo lo' L) :
    ∃ e ∈ L, e'.1.hi = e.1.hi ∧ e'.2 = e.2 ∧ (e'.1.lo = e.1.lo ∨ e'.1.lo = lo') := by
  cases L with
  | nil => simp [setFirstLo] at he'
  | cons a rest =>
    obtain ⟨iv, c⟩ := a
    simp only [setFirstLo, List.mem_cons] at he'
    rcases he' with h | h
    · subst h; exact ⟨(iv, c), by simp, rfl, rfl, Or.inr rfl⟩
    · exact ⟨e', by simp [h], rfl, rfl, Or.inl rfl⟩

theorem setLastHi_mem_fwd (hi' : Bnd α) (L : EdgeL νr νb α) (e : Ivl α × Tree νr νb α)
    (he : e ∈ L) :
    ∃ e' ∈ setLastHi hi' L, e'.1.lo = e.1.lo ∧ e'.2 = e.2 ∧ (e'.1.hi = e.1.hi ∨ e'.1.hi = hi') := by
  induction L with
  | nil => simp at he
  | cons a rest ih =>
    obtain ⟨iv, c⟩ := a
    cases rest with
    | nil =>
      simp only [List.mem_singleton] at he
      subst he
      exact ⟨(⟨iv.lo, hi'⟩, c), by simp [setLastHi], rfl, rfl, Or.inr rfl⟩
    | cons e2 rest2 =>
      simp only [setLastHi]
      simp only [List.mem_cons] at he
      rcases he with he | he
      · subst he; exact ⟨_, List.mem_cons_self, rfl, rfl, Or.inl rfl⟩
      · obtain ⟨e', he', h⟩ := ih (by simpa using he)
        exact ⟨e', by simp [he'], h⟩

/-- the last edge is opened upwards -/
theorem setLastHi_last (hi' : Bnd α) (L : EdgeL νr νb α) (hne : L ≠ []) :
    ∃ e ∈ L, (⟨e.1.lo, hi'⟩, e.2) ∈ setLastHi hi' L := by
  induction L with
  | nil => exact absurd rfl hne
  | cons a rest ih =>
    obtain ⟨iv, c⟩ := a
    cases rest with
    | nil => exact ⟨(iv, c), by simp, by simp [setLastHi]⟩
    | cons e2 rest2 =>
      obtain ⟨e, he, h⟩ := ih (by simp)
      simp only [setLastHi]
      exact ⟨e, by simp [he], by simp [h]⟩

/-- children of the simplified list are children of the original list -/
theorem simplifyEdges_childOf (lo hi : Bnd α) (es : EdgeL νr νb α) (e : Ivl α × Tree νr νb α)
    (he : e ∈ simplifyEdges lo hi es) : ∃ e' ∈ es, e.2 = e'.2 := by
  have : e.2 ∈ (simplifyEdges lo hi es).map Prod.snd := List.mem_map.mpr ⟨e, he, rfl⟩
  rw [simplifyEdges_eq, setLastHi_snd, setFirstLo_snd] at this
  obtain ⟨e1, he1, h⟩ := List.mem_map.mp this
  obtain ⟨_, e', he', _, h2⟩ := simplifyNew_mem lo hi es e1 he1
  exact ⟨e', he', by rw [← h, h2]⟩

/-! ### the simplified `python_full_version` node outside the range -/

/-- the edge-level witness: a point `a` of the range and an edge of the simplified list that holds
    every point on the far side (`out`) and every point of the near side of `a` (`P a`) -/
def EdgeWit (lo hi : Bnd α) (out : α → Prop) (P : α → α → Prop) (es : EdgeL νr νb α) : Prop :=
  ∃ a, (Ivl.mk lo hi).mem a = true ∧ ∃ e ∈ simplifyEdges lo hi es,
    (∀ x0, out x0 → e.1.mem x0 = true) ∧ (∀ x, P a x → e.1.mem x = true)

/-- below the range the simplified node takes the child of the first kept edge, which is the
    child the original node has on an initial piece of the range -/
theorem edgeWit_low [DenseUnbounded α] [Inhabited α] (lo hi : Bnd α) (es : EdgeL νr νb α)
    (hv : (Ivl.mk lo hi).valid = true) (hp : partitionFrom .unb es = true) :
    EdgeWit lo hi (fun x0 => lo.loOk x0 = false) (fun a x => ¬ a < x) es := by
  have hne := simplifyNew_ne_nil lo hi es hv hp
  cases hnew : simplifyNew lo hi es with
  | nil => exact absurd hnew hne
  | cons e0 rest =>
    obtain ⟨o, c⟩ := e0
    obtain ⟨hov, e', he', ho, _⟩ := simplifyNew_mem lo hi es (o, c) (by rw [hnew]; simp)
    simp only at ho hov
    obtain ⟨a, ha⟩ := Ivl.exists_mem_of_valid o hov
    have haR : (Ivl.mk lo hi).mem a = true := by
      rw [ho, Ivl.mem_inter, Bool.and_eq_true] at ha; exact ha.2
    have hmid : ((⟨.unb, o.hi⟩, c) : Ivl α × Tree νr νb α) ∈ setFirstLo .unb (simplifyNew lo hi es) := by
      rw [hnew]; simp [setFirstLo]
    obtain ⟨e, he, h1, h2, h3⟩ := setLastHi_mem_fwd .unb _ _ hmid
    simp only at h1 h3
    refine ⟨a, haR, e, by rw [simplifyEdges_eq]; exact he, ?_, ?_⟩
    · intro x0 hx0
      simp only [Ivl.mem, h1, Bnd.loOk, Bool.true_and]
      rcases h3 with h3 | h3
      · rw [h3]
        apply Ivl.hi_of_not_lo o x0 hov
        rw [ho]
        simp only [Ivl.inter, Bnd.loOk_maxLo, hx0, Bool.and_false]
      · rw [h3]; rfl
    · intro x hx
      simp only [Ivl.mem, h1, Bnd.loOk, Bool.true_and]
      rcases h3 with h3 | h3
      · rw [h3]
        simp only [Ivl.mem, Bool.and_eq_true] at ha
        exact Bnd.hiOk_mono o.hi a x ha.2 hx
      · rw [h3]; rfl

/-- above the range the simplified node takes the child of the last kept edge -/
theorem edgeWit_high [DenseUnbounded α] [Inhabited α] (lo hi : Bnd α) (es : EdgeL νr νb α)
    (hv : (Ivl.mk lo hi).valid = true) (hp : partitionFrom .unb es = true) :
    EdgeWit lo hi (fun x0 => hi.hiOk x0 = false) (fun a x => ¬ x < a) es := by
  have hne := simplifyNew_ne_nil lo hi es hv hp
  obtain ⟨e1, he1, hlast⟩ := setLastHi_last .unb _ (setFirstLo_ne_nil .unb _ hne)
  obtain ⟨e0, he0, h1, h2, h3⟩ := setFirstLo_mem_rev .unb _ e1 he1
  obtain ⟨hov, e', he', ho, _⟩ := simplifyNew_mem lo hi es e0 he0
  obtain ⟨a, ha⟩ := Ivl.exists_mem_of_valid e0.1 hov
  have haR : (Ivl.mk lo hi).mem a = true := by
    rw [ho, Ivl.mem_inter, Bool.and_eq_true] at ha; exact ha.2
  refine ⟨a, haR, _, by rw [simplifyEdges_eq]; exact hlast, ?_, ?_⟩
  · intro x0 hx0
    simp only [Ivl.mem, Bnd.hiOk, Bool.and_true]
    rcases h3 with h3 | h3
    · rw [h3]
      apply Ivl.lo_of_not_hi e0.1 x0 hov
      rw [ho]
      simp only [Ivl.inter, Bnd.hiOk_minHi_u, hx0, Bool.and_false]
    · rw [h3]; rfl
  · intro x hx
    simp only [Ivl.mem, Bnd.hiOk, Bool.and_true]
    rcases h3 with h3 | h3
    · rw [h3]
      simp only [Ivl.mem, Bool.and_eq_true] at ha
      exact Bnd.loOk_mono e0.1.lo a x ha.1 hx
    · rw [h3]; rfl

/-! ### the tree level -/

theorem firstHit_map (x : α) (es : EdgeL νr νb α) (f : Tree νr νb α → Tree νr νb α) :
    firstHit x (es.map fun e => (e.1, f e.2)) = (firstHit x es).map f := by
  induction es with
  | nil => rfl
  | cons e rest ih =>
    simp only [List.map_cons, firstHit]
    split <;> simp [ih]

theorem Env.setR_rv_ne (ρ : Env νr νb α) (v w : νr) (a : α) (h : w ≠ v) :
    (ρ.setR v a).rv w = ρ.rv w := by
  simp [Env.setR, h]

/-- evaluation of a rebuilt non-`pv` range node: the child selected by `ρ`, simplified -/
theorem eval_simplify_node (pv : νr) (lo hi : Bnd α) (ρ : Env νr νb α) (v : νr)
    (es : Edges νr νb α) (hw : (Tree.rng v es).wf = true) :
    ∃ e ∈ es.toList, (∀ ρ' : Env νr νb α, ρ'.rv v = ρ.rv v → (Tree.rng v es).eval ρ' = e.2.eval ρ') ∧
      (createNodeR v (coalesce (es.simplifyPyE pv lo hi))).eval ρ =
        (e.2.simplifyPy pv lo hi).eval ρ := by
  have hok := Tree.OK_of_wf _ hw
  obtain ⟨hxo, hxc⟩ := Tree.OK_rng hok
  have hval : ∀ e ∈ es.toList, e.1.valid = true := fun e he => (hxo e he).1
  have hhit := (covers_iff _).mp hxc (ρ.rv v)
  rw [hitL_eq_firstHit] at hhit
  cases hfh : firstHit (ρ.rv v) es.toList with
  | none => simp [hfh] at hhit
  | some c =>
    obtain ⟨e, he, hc⟩ := firstHit_mem _ _ _ hfh
    refine ⟨e, he, ?_, ?_⟩
    · intro ρ' hρ'
      rw [Tree.eval_rng, hρ', evalL_eq_firstHit, hfh, hc]
    · rw [Edges.simplifyPyE_eq_u]
      show (createNodeR v (mapE (fun c => c.simplifyPy pv lo hi) es.toList)).eval ρ = _
      rw [eval_createNodeR ρ v _ (covers_mapE _ _ hval hxc)]
      unfold mapE
      rw [evalL_coalesce, evalL_eq_firstHit, firstHit_map, hfh, hc]
      · rfl
      · intro e1 he1
        simp only [List.mem_map] at he1
        obtain ⟨e2, he2, rfl⟩ := he1
        exact hval e2 he2

/-- **outside the range** (on the side described by `out`) the simplified diagram takes, in `ρ`,
    the value the original takes when `python_full_version` is moved to any point of the range on
    the near side (`P a`) of some point `a` of the range -/
theorem simplify_witness_aux (pv : νr) (lo hi : Bnd α) (out : α → Prop) (P : α → α → Prop)
    (hne : ¬ (lo = .unb ∧ hi = .unb)) (a0 : α) (ha0 : (Ivl.mk lo hi).mem a0 = true)
    (HE : ∀ es : EdgeL νr νb α, partitionFrom .unb es = true → EdgeWit lo hi out P es)
    (ρ : Env νr νb α) (hout : out (ρ.rv pv)) :
    ∀ (n : Nat) (t : Tree νr νb α), t.size < n → t.wf = true →
    ∃ a, (Ivl.mk lo hi).mem a = true ∧ ∀ x, (Ivl.mk lo hi).mem x = true → P a x →
      (t.simplifyPy pv lo hi).eval ρ = t.eval (ρ.setR pv x) := by
  intro n
  induction n with
  | zero => intro t h; omega
  | succ n ih =>
    intro t hsz hwf
    cases t with
    | leaf b => exact ⟨a0, ha0, fun x _ _ => by simp [Tree.simplifyPy, Tree.eval]⟩
    | rng v es =>
      simp only [Tree.simplifyPy, hne, if_false]
      by_cases c3 : v = pv
      · subst c3
        have hv := Ivl.valid_of_mem _ _ ha0
        simp only [if_true, hv]
        have hwf' := hwf
        simp only [Tree.wf, Bool.and_eq_true] at hwf'
        obtain ⟨⟨_, hpart⟩, hall⟩ := hwf'
        obtain ⟨a, haR, e, he, h1, h2⟩ := HE es.toList hpart
        have fsep := simplifyEdges_sep lo hi es.toList hpart
        obtain ⟨e', he', hch⟩ := simplifyEdges_childOf lo hi es.toList e he
        refine ⟨a, haR, fun x hxR hPx => ?_⟩
        obtain ⟨r1, r2⟩ := evalL_of_sep ρ _ _ fsep e he (h1 _ hout)
        rw [eval_createNodeR_hit ρ v _ r2, r1]
        have hx' : (Ivl.mk lo hi).mem ((ρ.setR v x).rv v) = true := by
          rw [Env.setR_rv]; exact hxR
        have := eval_simplifyEdges (ρ.setR v x) v lo hi es.toList hpart hx'
        rw [Tree.eval_rng, ← this]
        obtain ⟨q1, q2⟩ := evalL_of_sep (ρ.setR v x) ((ρ.setR v x).rv v) _ fsep e he
          (by rw [Env.setR_rv]; exact h2 x hPx)
        rw [eval_createNodeR_hit _ v _ q2, q1, hch]
        obtain ⟨w1, w2⟩ := Edges.wfAll_mem es _ hall e' he'
        exact (Tree.eval_setR e'.2 ρ v x w1 w2).symm
      · simp only [c3, if_false]
        obtain ⟨e, he, h1, h2⟩ := eval_simplify_node pv lo hi ρ v es hwf
        rw [h2]
        obtain ⟨a, haR, hA⟩ := ih e.2 (by have := Tree.size_rng_child v es e he; omega)
          (Tree.wf_rng_child v es hwf e he).1
        refine ⟨a, haR, fun x hxR hPx => ?_⟩
        rw [hA x hxR hPx, h1 _ (Env.setR_rv_ne ρ pv v x c3)]
    | bool v h l =>
      simp only [Tree.simplifyPy, hne, if_false]
      obtain ⟨_, wh, wl, _, _⟩ := (Tree.wf_bool_iff v h l).mp hwf
      obtain ⟨sh, sl⟩ := Tree.size_bool_child v h l
      rw [eval_createNodeB]
      by_cases hb : ρ.bv v = true
      · obtain ⟨a, haR, hA⟩ := ih h (by omega) wh
        refine ⟨a, haR, fun x hxR hPx => ?_⟩
        have : (ρ.setR pv x).bv v = true := hb
        simp only [hb, if_true, Tree.eval, this]
        exact hA x hxR hPx
      · obtain ⟨a, haR, hA⟩ := ih l (by omega) wl
        refine ⟨a, haR, fun x hxR hPx => ?_⟩
        have : ¬ (ρ.setR pv x).bv v = true := hb
        simp only [hb, if_false, Tree.eval, this]
        exact hA x hxR hPx

theorem simplify_witness_low [DenseUnbounded α] [Inhabited α] (pv : νr) (lo hi : Bnd α)
    (hv : (Ivl.mk lo hi).valid = true) (t : Tree νr νb α) (ht : t.wf = true)
    (ρ : Env νr νb α) (hout : lo.loOk (ρ.rv pv) = false) :
    ∃ a, (Ivl.mk lo hi).mem a = true ∧ ∀ x, (Ivl.mk lo hi).mem x = true → ¬ a < x →
      (t.simplifyPy pv lo hi).eval ρ = t.eval (ρ.setR pv x) := by
  obtain ⟨a0, ha0⟩ := Ivl.exists_mem_of_valid _ hv
  have hne : ¬ (lo = .unb ∧ hi = .unb) := by
    rintro ⟨rfl, rfl⟩; simp [Bnd.loOk] at hout
  exact simplify_witness_aux pv lo hi (fun x0 => lo.loOk x0 = false) (fun a x => ¬ a < x) hne a0 ha0
    (fun es hp => edgeWit_low lo hi es hv hp) ρ hout _ t (Nat.lt_succ_self _) ht

theorem simplify_witness_high [DenseUnbounded α] [Inhabited α] (pv : νr) (lo hi : Bnd α)
    (hv : (Ivl.mk lo hi).valid = true) (t : Tree νr νb α) (ht : t.wf = true)
    (ρ : Env νr νb α) (hout : hi.hiOk (ρ.rv pv) = false) :
    ∃ a, (Ivl.mk lo hi).mem a = true ∧ ∀ x, (Ivl.mk lo hi).mem x = true → ¬ x < a →
      (t.simplifyPy pv lo hi).eval ρ = t.eval (ρ.setR pv x) := by
  obtain ⟨a0, ha0⟩ := Ivl.exists_mem_of_valid _ hv
  have hne : ¬ (lo = .unb ∧ hi = .unb) := by
    rintro ⟨rfl, rfl⟩; simp [Bnd.hiOk] at hout
  exact simplify_witness_aux pv lo hi (fun x0 => hi.hiOk x0 = false) (fun a x => ¬ x < a) hne a0 ha0
    (fun es hp => edgeWit_high lo hi es hv hp) ρ hout _ t (Nat.lt_succ_self _) ht

/-- markers that agree inside a non-empty `R` have simplifications that agree EVERYWHERE -/
theorem eval_simplifyPy_congr [DenseUnbounded α] [Inhabited α] (pv : νr) (lo hi : Bnd α)
    (hv : (Ivl.mk lo hi).valid = true) (m m' : Tree νr νb α) (hm : m.wf = true) (hm' : m'.wf = true)
    (hag : ∀ ρ : Env νr νb α, (Ivl.mk lo hi).mem (ρ.rv pv) = true → m.eval ρ = m'.eval ρ)
    (ρ : Env νr νb α) : (m.simplifyPy pv lo hi).eval ρ = (m'.simplifyPy pv lo hi).eval ρ := by
  cases hin : (Ivl.mk lo hi).mem (ρ.rv pv) with
  | true => rw [eval_simplifyPy pv lo hi m hm ρ hin, eval_simplifyPy pv lo hi m' hm' ρ hin, hag ρ hin]
  | false =>
    have key : ∀ x, (Ivl.mk lo hi).mem x = true → m.eval (ρ.setR pv x) = m'.eval (ρ.setR pv x) := by
      intro x hx; apply hag; rw [Env.setR_rv]; exact hx
    cases hlo : lo.loOk (ρ.rv pv) with
    | false =>
      obtain ⟨a, ha, hA⟩ := simplify_witness_low pv lo hi hv m hm ρ hlo
      obtain ⟨a', ha', hA'⟩ := simplify_witness_low pv lo hi hv m' hm' ρ hlo
      by_cases c : a < a'
      · rw [hA a ha (by grind), hA' a ha (by grind), key a ha]
      · rw [hA a' ha' c, hA' a' ha' (by grind), key a' ha']
    | true =>
      have hhi : hi.hiOk (ρ.rv pv) = false := by
        simp only [Ivl.mem, hlo, Bool.true_and] at hin; exact hin
      obtain ⟨a, ha, hA⟩ := simplify_witness_high pv lo hi hv m hm ρ hhi
      obtain ⟨a', ha', hA'⟩ := simplify_witness_high pv lo hi hv m' hm' ρ hhi
      by_cases c : a < a'
      · rw [hA a' ha' (by grind), hA' a' ha' (by grind), key a' ha']
      · rw [hA a ha (by grind), hA' a ha c, key a ha]

/-- **(T1)** markers that agree inside a non-empty (= valid, in a dense order) `R` simplify to the
    SAME diagram -/
theorem simplifyPy_congr [DenseUnbounded α] [Inhabited α] (pv : νr) (lo hi : Bnd α)
    (hv : (Ivl.mk lo hi).valid = true) (m m' : Tree νr νb α) (hm : m.wf = true) (hm' : m'.wf = true)
    (hag : ∀ ρ : Env νr νb α, (Ivl.mk lo hi).mem (ρ.rv pv) = true → m.eval ρ = m'.eval ρ) :
    m.simplifyPy pv lo hi = m'.simplifyPy pv lo hi :=
  canonical _ _ (wf_simplifyPy pv lo hi m hm) (wf_simplifyPy pv lo hi m' hm')
    (eval_simplifyPy_congr pv lo hi hv m m' hm hm' hag)

/-- **(T2)** -/
theorem simplifyPy_complexifyPy [DenseUnbounded α] [Inhabited α] (pv : νr) (lo hi : Bnd α)
    (hv : (Ivl.mk lo hi).valid = true) (m : Tree νr νb α) (hm : m.wf = true) :
    (m.complexifyPy pv lo hi).simplifyPy pv lo hi = m.simplifyPy pv lo hi := by
  apply simplifyPy_congr pv lo hi hv _ _ (wf_complexifyPy pv lo hi m hm) hm
  intro ρ hin
  rw [eval_complexifyPy pv lo hi m hm ρ, hin, Bool.and_true]

/-- **(T4)** idempotence for a non-empty range -/
theorem simplifyPy_idem [DenseUnbounded α] [Inhabited α] (pv : νr) (lo hi : Bnd α)
    (hv : (Ivl.mk lo hi).valid = true) (m : Tree νr νb α) (hm : m.wf = true) :
    (m.simplifyPy pv lo hi).simplifyPy pv lo hi = m.simplifyPy pv lo hi := by
  apply simplifyPy_congr pv lo hi hv _ _ (wf_simplifyPy pv lo hi m hm) hm
  intro ρ hin
  exact eval_simplifyPy pv lo hi m hm ρ hin

/-! ### markers that do not mention `python_full_version`; the empty / inverted range -/

mutual
/-- does a decision node on the range variable `v` occur in the diagram -/
def Tree.mentionsR (v : νr) : Tree νr νb α → Bool
  | .leaf _ => false
  | .rng w es => decide (w = v) || es.mentionsR v
  | .bool _ h l => h.mentionsR v || l.mentionsR v
def Edges.mentionsR (v : νr) : Edges νr νb α → Bool
  | .nil => false
  | .cons _ t rest => t.mentionsR v || rest.mentionsR v
end

theorem Edges.mentionsR_false_iff (v : νr) : ∀ (es : Edges νr νb α),
    es.mentionsR v = false ↔ ∀ e ∈ es.toList, e.2.mentionsR v = false
  | .nil => by simp [Edges.mentionsR, Edges.toList]
  | .cons iv t rest => by
    simp [Edges.mentionsR, Edges.toList, Edges.mentionsR_false_iff v rest]

theorem coalesceGo_of_adjNe : ∀ (es : EdgeL νr νb α) (cur : Ivl α × Tree νr νb α),
    AdjNe (cur :: es) → coalesceGo cur es = cur :: es
  | [], _, _ => rfl
  | e :: rest, cur, h => by
    have h' : cur.2 ≠ e.2 ∧ AdjNe (e :: rest) := h
    unfold coalesceGo
    rw [if_neg (fun hc => h'.1 hc.1), coalesceGo_of_adjNe rest e h'.2]

theorem coalesce_of_adjNe (es : EdgeL νr νb α) (h : AdjNe es) : coalesce es = es := by
  cases es with
  | nil => rfl
  | cons e rest => exact coalesceGo_of_adjNe rest e h

theorem createNodeR_of_adjNe (v : νr) (es : EdgeL νr νb α) (h : AdjNe es) (hl : 2 ≤ es.length) :
    createNodeR v es = .rng v (Edges.ofList es) := by
  match es, h, hl with
  | e :: e2 :: rest, h, _ =>
    obtain ⟨iv, c⟩ := e
    have h' : c ≠ e2.2 := h.1
    unfold createNodeR
    simp only [List.all_cons, Bool.and_eq_true, beq_iff_eq]
    rw [if_neg (fun hc => h' hc.1.symm)]

/-- a reduced node rebuilt from its own edges is itself -/
theorem createNodeR_coalesce_self (v : νr) (es : Edges νr νb α) (hw : (Tree.rng v es).wf = true) :
    createNodeR v (coalesce es.toList) = .rng v es := by
  obtain ⟨hl, _, ha, _⟩ := (Tree.wf_rng_iff v es).mp hw
  rw [coalesce_of_adjNe _ ha, createNodeR_of_adjNe v _ ha hl, Edges.ofList_toList]

/-- **(T3, part 1)** a well-formed marker that does not mention `python_full_version` is returned
    unchanged, for EVERY pair of bounds (empty and inverted ranges included) -/
theorem simplifyPy_of_not_mentions (pv : νr) (lo hi : Bnd α) :
    ∀ (n : Nat) (t : Tree νr νb α), t.size < n → t.wf = true → t.mentionsR pv = false →
      t.simplifyPy pv lo hi = t := by
  intro n
  induction n with
  | zero => intro t h; omega
  | succ n ih =>
    intro t hsz hwf hmen
    cases t with
    | leaf b => rfl
    | rng v es =>
      simp only [Tree.mentionsR, Bool.or_eq_false_iff, decide_eq_false_iff_not] at hmen
      simp only [Tree.simplifyPy, hmen.1, if_false]
      by_cases c1 : lo = .unb ∧ hi = .unb
      · simp only [c1, and_self, if_true]
      simp only [c1, if_false]
      have hch := (Edges.mentionsR_false_iff pv es).mp hmen.2
      have : es.simplifyPyE pv lo hi = es.toList := by
        rw [Edges.simplifyPyE_eq_u]
        conv => rhs; rw [← List.map_id es.toList]
        apply List.map_congr_left
        intro e he
        rw [ih e.2 (by have := Tree.size_rng_child v es e he; omega)
          (Tree.wf_rng_child v es hwf e he).1 (hch e he)]
        rfl
      rw [this, createNodeR_coalesce_self v es hwf]
    | bool v h l =>
      simp only [Tree.mentionsR, Bool.or_eq_false_iff] at hmen
      obtain ⟨hne, wh, wl, _, _⟩ := (Tree.wf_bool_iff v h l).mp hwf
      obtain ⟨sh, sl⟩ := Tree.size_bool_child v h l
      simp only [Tree.simplifyPy]
      by_cases c1 : lo = .unb ∧ hi = .unb
      · simp only [c1, and_self, if_true]
      simp only [c1, if_false]
      rw [ih h (by omega) wh hmen.1, ih l (by omega) wl hmen.2]
      unfold createNodeB
      rw [if_neg hne]

theorem mentionsR_createNodeR (w v : νr) (es : EdgeL νr νb α) (hvw : v ≠ w)
    (h : ∀ e ∈ es, e.2.mentionsR w = false) : (createNodeR v es).mentionsR w = false := by
  rcases createNodeR_cases v es with ⟨h1, _⟩ | ⟨e, he, h1⟩ | h1
  · rw [h1]; rfl
  · rw [h1]; exact h e he
  · rw [h1]
    simp only [Tree.mentionsR, Bool.or_eq_false_iff, decide_eq_false_iff_not]
    refine ⟨hvw, ?_⟩
    rw [Edges.mentionsR_false_iff, Edges.toList_ofList]
    exact h

theorem mentionsR_createNodeB (w : νr) (v : νb) (h l : Tree νr νb α)
    (hh : h.mentionsR w = false) (hl : l.mentionsR w = false) :
    (createNodeB v h l).mentionsR w = false := by
  unfold createNodeB
  split
  · exact hh
  · simp [Tree.mentionsR, hh, hl]

/-- **(T3, part 2)** for an empty / inverted range every `python_full_version` node is replaced by
    FALSE: the result does not mention `python_full_version` any more -/
theorem not_mentions_simplifyPy_invalid (pv : νr) (lo hi : Bnd α)
    (hv : (Ivl.mk lo hi).valid = false) :
    ∀ (n : Nat) (t : Tree νr νb α), t.size < n → (t.simplifyPy pv lo hi).mentionsR pv = false := by
  have c1 : ¬ (lo = .unb ∧ hi = .unb) := by
    rintro ⟨rfl, rfl⟩; simp [Ivl.valid] at hv
  intro n
  induction n with
  | zero => intro t h; omega
  | succ n ih =>
    intro t hsz
    cases t with
    | leaf b => rfl
    | rng v es =>
      simp only [Tree.simplifyPy, c1, if_false]
      by_cases c3 : v = pv
      · simp only [c3, if_true, hv, Bool.false_eq_true, if_false]; rfl
      · simp only [c3, if_false]
        apply mentionsR_createNodeR pv v _ c3
        intro e he
        obtain ⟨e', he', h⟩ := coalesce_child _ e he
        rw [Edges.simplifyPyE_eq_u] at he'
        simp only [List.mem_map] at he'
        obtain ⟨e2, he2, rfl⟩ := he'
        rw [h]
        exact ih e2.2 (by have := Tree.size_rng_child v es e2 he2; omega)
    | bool v h l =>
      obtain ⟨sh, sl⟩ := Tree.size_bool_child v h l
      simp only [Tree.simplifyPy, c1, if_false]
      exact mentionsR_createNodeB pv v _ _ (ih h (by omega)) (ih l (by omega))

/-- at a `python_full_version` node an empty / inverted range yields FALSE -/
theorem simplifyPy_pv_invalid (pv : νr) (lo hi : Bnd α) (hv : (Ivl.mk lo hi).valid = false)
    (es : Edges νr νb α) : (Tree.rng pv es).simplifyPy pv lo hi = .leaf false := by
  have c1 : ¬ (lo = .unb ∧ hi = .unb) := by
    rintro ⟨rfl, rfl⟩; simp [Ivl.valid] at hv
  simp [Tree.simplifyPy, c1, hv]

/-- the unbounded pair: nothing to do -/
theorem simplifyPy_unb (pv : νr) (t : Tree νr νb α) : t.simplifyPy pv .unb .unb = t := by
  cases t <;> simp [Tree.simplifyPy]

/-- idempotence for an empty / inverted range -/
theorem simplifyPy_idem_invalid (pv : νr) (lo hi : Bnd α) (hv : (Ivl.mk lo hi).valid = false)
    (m : Tree νr νb α) (hm : m.wf = true) :
    (m.simplifyPy pv lo hi).simplifyPy pv lo hi = m.simplifyPy pv lo hi :=
  simplifyPy_of_not_mentions pv lo hi _ _ (Nat.lt_succ_self _) (wf_simplifyPy pv lo hi m hm)
    (not_mentions_simplifyPy_invalid pv lo hi hv _ m (Nat.lt_succ_self _))

/-- **idempotence for every pair of bounds** -/
theorem simplifyPy_idem_all [DenseUnbounded α] [Inhabited α] (pv : νr) (lo hi : Bnd α)
    (m : Tree νr νb α) (hm : m.wf = true) :
    (m.simplifyPy pv lo hi).simplifyPy pv lo hi = m.simplifyPy pv lo hi := by
  cases hv : (Ivl.mk lo hi).valid with
  | true => exact simplifyPy_idem pv lo hi hv m hm
  | false => exact simplifyPy_idem_invalid pv lo hi hv m hm

end Pep508
