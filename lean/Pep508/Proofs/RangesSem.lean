/-
Semantics of range-set construction (`Ranges.insert / union / complement`) and of
`fromRange` / `rangeNode`, over an arbitrary linear order, for normalised range sets.
-/
import Pep508.Proofs.WfOK
set_option linter.unusedSectionVars false
namespace Pep508
variable {νr νb α : Type}
variable [LT α] [LE α] [Std.IsLinearOrder α] [Std.LawfulOrderLT α] [DecidableLT α] [DecidableEq α]
variable [LT νr] [LE νr] [Std.IsLinearOrder νr] [Std.LawfulOrderLT νr] [DecidableLT νr] [DecidableEq νr]
variable [LT νb] [LE νb] [Std.IsLinearOrder νb] [Std.LawfulOrderLT νb] [DecidableLT νb] [DecidableEq νb]

/-- `gapBefore` with an optional previous upper bound (`none` = nothing before) -/
def Bnd.gapO : Option (Bnd α) → Bnd α → Bool
  | none, _ => true
  | some h, l => Bnd.gapBefore h l

/-- normalised after the upper bound `h`: every segment valid, and separated by a gap from
    what precedes it -/
def Ranges.NormFrom : Option (Bnd α) → Ranges α → Prop
  | _, [] => True
  | h, s :: rest => Bnd.gapO h s.lo = true ∧ s.valid = true ∧ Ranges.NormFrom (some s.hi) rest

/-- a normalised range set: each segment valid; consecutive segments separated by a gap -/
def Ranges.Norm (r : Ranges α) : Prop := Ranges.NormFrom none r

theorem Ranges.norm_nil : Ranges.Norm ([] : Ranges α) := trivial

theorem Ranges.norm_single (s : Ivl α) (h : s.valid = true) : Ranges.Norm [s] :=
  ⟨rfl, h, trivial⟩

theorem Ranges.norm_cons_cons (s t : Ivl α) (rest : Ranges α) :
    Ranges.Norm (s :: t :: rest) ↔
      s.valid = true ∧ Bnd.gapBefore s.hi t.lo = true ∧ Ranges.Norm (t :: rest) := by
  simp [Ranges.Norm, Ranges.NormFrom, Bnd.gapO]

/-! ### bound facts -/

theorem Bnd.gapO_trans (h : Option (Bnd α)) (t : Ivl α) (l : Bnd α) (h1 : Bnd.gapO h t.lo = true)
    (h2 : t.valid = true) (h3 : Bnd.gapBefore t.hi l = true) : Bnd.gapO h l = true := by
  cases h with
  | none => rfl
  | some h =>
    obtain ⟨tl, th⟩ := t
    cases h <;> cases tl <;> cases th <;> cases l <;>
      simp only [Bnd.gapO, Bnd.gapBefore, Ivl.valid] at * <;> grind

theorem Ranges.NormFrom_weaken (h : Option (Bnd α)) (t : Ivl α) (r : Ranges α)
    (h1 : Bnd.gapO h t.lo = true) (h2 : t.valid = true) (h3 : Ranges.NormFrom (some t.hi) r) :
    Ranges.NormFrom h r := by
  cases r with
  | nil => trivial
  | cons u rest => exact ⟨Bnd.gapO_trans h t u.lo h1 h2 h3.1, h3.2.1, h3.2.2⟩

theorem Ranges.Norm_of_NormFrom (h : Option (Bnd α)) (r : Ranges α) (hn : Ranges.NormFrom h r) :
    Ranges.Norm r := by
  cases r with
  | nil => trivial
  | cons u rest => exact ⟨rfl, hn.2.1, hn.2.2⟩

/-- the hull of two valid segments that overlap or touch -/
theorem Ivl.hull_spec (s t : Ivl α) (hs : s.valid = true) (ht : t.valid = true)
    (h1 : Bnd.gapBefore s.hi t.lo = false) (h2 : Bnd.gapBefore t.hi s.lo = false) (x : α) :
    (Ivl.mk (Bnd.minLo s.lo t.lo) (Bnd.maxHi s.hi t.hi)).mem x = (s.mem x || t.mem x) := by
  obtain ⟨sl, sh⟩ := s
  obtain ⟨tl, th⟩ := t
  cases sl <;> cases sh <;> cases tl <;> cases th <;>
    simp only [Bnd.gapBefore, Ivl.valid, Ivl.mem, Bnd.minLo, Bnd.maxHi, Bnd.loOk, Bnd.hiOk] at * <;>
    grind

theorem Ivl.hull_valid (s t : Ivl α) (hs : s.valid = true) (ht : t.valid = true) :
    (Ivl.mk (Bnd.minLo s.lo t.lo) (Bnd.maxHi s.hi t.hi)).valid = true := by
  obtain ⟨sl, sh⟩ := s
  obtain ⟨tl, th⟩ := t
  cases sl <;> cases sh <;> cases tl <;> cases th <;>
    simp only [Ivl.valid, Bnd.minLo, Bnd.maxHi] at * <;> grind

theorem Bnd.gapO_minLo (h : Option (Bnd α)) (a b : Bnd α) (h1 : Bnd.gapO h a = true)
    (h2 : Bnd.gapO h b = true) : Bnd.gapO h (Bnd.minLo a b) = true := by
  cases h with
  | none => rfl
  | some h =>
    cases h <;> cases a <;> cases b <;> simp only [Bnd.gapO, Bnd.gapBefore, Bnd.minLo] at * <;> grind

/-! ### `insert` -/

theorem Ranges.mem_cons (s : Ivl α) (r : Ranges α) (x : α) :
    Ranges.mem (s :: r) x = (s.mem x || Ranges.mem r x) := by
  simp [Ranges.mem]

theorem Ranges.insert_spec (s : Ivl α) (r : Ranges α) (h : Option (Bnd α))
    (hn : Ranges.NormFrom h r) (hg : Bnd.gapO h s.lo = true) (hs : s.valid = true) :
    Ranges.NormFrom h (Ranges.insert s r) ∧
      ∀ x, (Ranges.insert s r).mem x = (s.mem x || r.mem x) := by
  induction r generalizing s h with
  | nil => exact ⟨⟨hg, hs, trivial⟩, fun x => by simp [Ranges.insert, Ranges.mem]⟩
  | cons t rest ih =>
    obtain ⟨n1, n2, n3⟩ := hn
    unfold Ranges.insert
    by_cases c1 : Bnd.gapBefore s.hi t.lo = true
    · simp only [c1, if_true]
      exact ⟨⟨hg, hs, c1, n2, n3⟩, fun x => by simp [Ranges.mem]⟩
    · have c1' : Bnd.gapBefore s.hi t.lo = false := by simpa using c1
      by_cases c2 : Bnd.gapBefore t.hi s.lo = true
      · simp only [c1', c2, if_true, Bool.false_eq_true, if_false]
        obtain ⟨i1, i2⟩ := ih s (some t.hi) n3 c2 hs
        refine ⟨⟨n1, n2, i1⟩, fun x => ?_⟩
        rw [Ranges.mem_cons, i2, Ranges.mem_cons]
        cases s.mem x <;> cases t.mem x <;> rfl
      · have c2' : Bnd.gapBefore t.hi s.lo = false := by simpa using c2
        simp only [c1', c2', Bool.false_eq_true, if_false]
        obtain ⟨i1, i2⟩ := ih ⟨Bnd.minLo s.lo t.lo, Bnd.maxHi s.hi t.hi⟩ h
          (Ranges.NormFrom_weaken h t rest n1 n2 n3) (Bnd.gapO_minLo h _ _ hg n1)
          (Ivl.hull_valid s t hs n2)
        refine ⟨i1, fun x => ?_⟩
        rw [i2, Ivl.hull_spec s t hs n2 c1' c2', Ranges.mem_cons, Bool.or_assoc]

theorem Ranges.mem_insert (s : Ivl α) (r : Ranges α) (hn : r.Norm) (hs : s.valid = true) (x : α) :
    (Ranges.insert s r).mem x = (s.mem x || r.mem x) :=
  (Ranges.insert_spec s r none hn rfl hs).2 x

theorem Ranges.norm_insert (s : Ivl α) (r : Ranges α) (hn : r.Norm) (hs : s.valid = true) :
    (Ranges.insert s r).Norm :=
  (Ranges.insert_spec s r none hn rfl hs).1

/-! ### `union` -/

theorem Ranges.union_spec (a b : Ranges α) (hn : a.Norm) :
    (Ranges.union a b).Norm ∧ ∀ x, (Ranges.union a b).mem x = (a.mem x || b.mem x) := by
  unfold Ranges.union
  induction b generalizing a with
  | nil => exact ⟨hn, fun x => by simp [Ranges.mem]⟩
  | cons s rest ih =>
    simp only [List.foldl_cons]
    by_cases hs : s.valid = true
    · simp only [hs, if_true]
      obtain ⟨i1, i2⟩ := ih (Ranges.insert s a) (Ranges.norm_insert s a hn hs)
      refine ⟨i1, fun x => ?_⟩
      rw [i2, Ranges.mem_insert s a hn hs, Ranges.mem_cons]
      cases s.mem x <;> cases a.mem x <;> rfl
    · simp only [hs, Bool.false_eq_true, if_false]
      obtain ⟨i1, i2⟩ := ih a hn
      refine ⟨i1, fun x => ?_⟩
      have : s.mem x = false := by
        cases hm : s.mem x
        · rfl
        · exact absurd (Ivl.valid_of_mem s x hm) hs
      rw [i2, Ranges.mem_cons, this]; rfl

theorem Ranges.mem_union (a b : Ranges α) (hn : a.Norm) (x : α) :
    (Ranges.union a b).mem x = (a.mem x || b.mem x) := (Ranges.union_spec a b hn).2 x

theorem Ranges.norm_union (a b : Ranges α) (hn : a.Norm) : (Ranges.union a b).Norm :=
  (Ranges.union_spec a b hn).1

/-! ### `complement` -/

def Bnd.loOkO : Option (Bnd α) → α → Bool
  | none, _ => false
  | some b, x => b.loOk x

/-- the lower bound that starts right after the previous upper bound -/
def Bnd.curOf : Option (Bnd α) → Option (Bnd α)
  | none => some .unb
  | some b => b.flipHi

/-- everything in a range set normalised after `b` lies beyond `b` -/
theorem Ranges.beyond (b : Bnd α) (r : Ranges α) (x : α) (hn : Ranges.NormFrom (some b) r)
    (hm : r.mem x = true) : b.hiOk x = false := by
  induction r generalizing b with
  | nil => simp [Ranges.mem] at hm
  | cons u rest ih =>
    obtain ⟨n1, n2, n3⟩ := hn
    rw [Ranges.mem_cons, Bool.or_eq_true] at hm
    have key : u.mem x = true ∨ u.hi.hiOk x = false := by
      rcases hm with hm | hm
      · exact Or.inl hm
      · exact Or.inr (ih u.hi n3 hm)
    obtain ⟨ul, uh⟩ := u
    cases b <;> cases ul <;> cases uh <;>
      simp only [Bnd.gapO, Bnd.gapBefore, Ivl.valid, Ivl.mem, Bnd.loOk, Bnd.hiOk] at * <;> grind

theorem Bnd.loOkO_curOf_of_gap (h : Option (Bnd α)) (l : Bnd α) (x : α) (hg : Bnd.gapO h l = true)
    (hl : l.loOk x = true) : Bnd.loOkO (Bnd.curOf h) x = true := by
  cases h with
  | none => rfl
  | some h =>
    cases h <;> cases l <;>
      simp only [Bnd.gapO, Bnd.gapBefore, Bnd.loOkO, Bnd.curOf, Bnd.flipHi, Bnd.loOk] at * <;> grind

theorem Bnd.hiOk_flipLo (l hh : Bnd α) (x : α) (hf : l.flipLo = some hh) :
    hh.hiOk x = !l.loOk x := by
  cases l <;> simp only [Bnd.flipLo, Option.some.injEq, reduceCtorEq] at hf <;> subst hf <;>
    simp [Bnd.hiOk, Bnd.loOk]

theorem Bnd.loOkO_flipHi (b : Bnd α) (x : α) : Bnd.loOkO b.flipHi x = !b.hiOk x := by
  cases b <;> simp [Bnd.flipHi, Bnd.loOkO, Bnd.hiOk, Bnd.loOk]

theorem Ivl.lo_or_hi (s : Ivl α) (x : α) (hs : s.valid = true) :
    (s.lo.loOk x || s.hi.hiOk x) = true := by
  obtain ⟨sl, sh⟩ := s
  cases sl <;> cases sh <;> simp only [Ivl.valid, Bnd.loOk, Bnd.hiOk] at * <;> grind

theorem Bnd.gap_valid (h : Option (Bnd α)) (l hh c : Bnd α) (hg : Bnd.gapO h l = true)
    (hf : l.flipLo = some hh) (hc : Bnd.curOf h = some c) : (Ivl.mk c hh).valid = true := by
  cases h with
  | none => simp only [Bnd.curOf, Option.some.injEq] at hc; subst hc; rfl
  | some h =>
    cases h <;> cases l <;>
      simp only [Bnd.curOf, Bnd.flipHi, Bnd.flipLo, Option.some.injEq, reduceCtorEq] at hf hc <;>
      subst hf <;> subst hc <;> simp only [Bnd.gapO, Bnd.gapBefore, Ivl.valid] at * <;> grind

theorem Ivl.flip_gap (s : Ivl α) (hh c : Bnd α) (hs : s.valid = true) (hf : s.lo.flipLo = some hh)
    (hc : s.hi.flipHi = some c) : Bnd.gapBefore hh c = true := by
  obtain ⟨sl, sh⟩ := s
  cases sl <;> cases sh <;>
    simp only [Bnd.flipHi, Bnd.flipLo, Option.some.injEq, reduceCtorEq] at hf hc <;>
    subst hf <;> subst hc <;> simp only [Bnd.gapBefore, Ivl.valid] at * <;> grind

theorem Bnd.gapO_unb (h : Option (Bnd α)) (l : Bnd α) (hf : l.flipLo = none)
    (hg : Bnd.gapO h l = true) : h = none := by
  cases l <;> simp only [Bnd.flipLo, reduceCtorEq] at hf
  cases h with
  | none => rfl
  | some h => cases h <;> simp [Bnd.gapO, Bnd.gapBefore] at hg

theorem Bnd.loOk_of_flipLo_none (l : Bnd α) (x : α) (hf : l.flipLo = none) : l.loOk x = true := by
  cases l <;> simp only [Bnd.flipLo, reduceCtorEq] at hf; rfl

theorem Ranges.gaps_mem (h : Option (Bnd α)) (r : Ranges α) (x : α) (hn : Ranges.NormFrom h r) :
    (Ranges.gaps (Bnd.curOf h) r).mem x = (Bnd.loOkO (Bnd.curOf h) x && !r.mem x) := by
  induction r generalizing h with
  | nil =>
    cases hc : Bnd.curOf h with
    | none => simp [Ranges.gaps, Ranges.mem, Bnd.loOkO]
    | some c => simp [Ranges.gaps, Ranges.mem, Bnd.loOkO, Ivl.mem, Bnd.hiOk]
  | cons s rest ih =>
    obtain ⟨n1, n2, n3⟩ := hn
    have ih' := ih (some s.hi) n3
    simp only [Bnd.curOf] at ih'
    have fH := Bnd.loOkO_flipHi s.hi x
    have fV := Ivl.lo_or_hi s x n2
    have fR : Ranges.mem rest x = true → s.hi.hiOk x = false := Ranges.beyond s.hi rest x n3
    cases hc : Bnd.curOf h with
    | none =>
      -- impossible unless the previous bound was +∞, in which case no gap could follow
      cases h with
      | none => simp [Bnd.curOf] at hc
      | some b =>
        cases b <;> simp only [Bnd.curOf, Bnd.flipHi, reduceCtorEq] at hc
        simp [Bnd.gapO, Bnd.gapBefore] at n1
    | some c =>
      have fA : s.lo.loOk x = true → c.loOk x = true := by
        intro hl
        have := Bnd.loOkO_curOf_of_gap h s.lo x n1 hl
        rw [hc] at this; exact this
      rw [Ranges.mem_cons]
      simp only [Ranges.gaps, Bnd.loOkO]
      cases hf : s.lo.flipLo with
      | none =>
        have hl := Bnd.loOk_of_flipLo_none s.lo x hf
        have := fA hl
        simp only [ih', fH, this, Bool.true_and, Ivl.mem]
        cases hH : s.hi.hiOk x <;> cases hR : Ranges.mem rest x <;> simp_all
      | some hh =>
        have f2 := Bnd.hiOk_flipLo s.lo hh x hf
        simp only [Ranges.mem_cons, ih', fH, Ivl.mem, f2]
        cases hA : c.loOk x <;> cases hL : s.lo.loOk x <;> cases hH : s.hi.hiOk x <;>
          cases hR : Ranges.mem rest x <;> simp_all

theorem Ranges.gaps_norm (h : Option (Bnd α)) (r : Ranges α) (hn : Ranges.NormFrom h r)
    (g : Option (Bnd α)) (hg : ∀ c, Bnd.curOf h = some c → Bnd.gapO g c = true) :
    Ranges.NormFrom g (Ranges.gaps (Bnd.curOf h) r) := by
  induction r generalizing h g with
  | nil =>
    cases hc : Bnd.curOf h with
    | none => trivial
    | some c =>
      refine ⟨hg c hc, ?_, trivial⟩
      cases c <;> rfl
  | cons s rest ih =>
    obtain ⟨n1, n2, n3⟩ := hn
    cases hc : Bnd.curOf h with
    | none => trivial
    | some c =>
      simp only [Ranges.gaps]
      cases hf : s.lo.flipLo with
      | none =>
        have hnone := Bnd.gapO_unb h s.lo hf n1
        subst hnone
        simp only [Bnd.curOf, Option.some.injEq] at hc
        subst hc
        have hg' : g = none := by
          have := hg .unb rfl
          cases g with
          | none => rfl
          | some g => cases g <;> simp [Bnd.gapO, Bnd.gapBefore] at this
        subst hg'
        exact ih (some s.hi) n3 none (fun _ _ => rfl)
      | some hh =>
        refine ⟨hg c hc, Bnd.gap_valid h s.lo hh c n1 hf hc, ?_⟩
        exact ih (some s.hi) n3 (some hh) (fun c' hc' => Ivl.flip_gap s hh c' n2 hf hc')

theorem Ranges.mem_complement (r : Ranges α) (hn : r.Norm) (x : α) :
    (Ranges.complement r).mem x = !r.mem x := by
  have := Ranges.gaps_mem none r x hn
  simpa [Ranges.complement, Bnd.curOf, Bnd.loOkO, Bnd.loOk] using this

theorem Ranges.norm_complement (r : Ranges α) (hn : r.Norm) : (Ranges.complement r).Norm :=
  Ranges.gaps_norm none r hn none (fun _ _ => rfl)

/-! ### `fromRange` / `rangeNode`: meaning -/

theorem hitL_cons (x : α) (e : Ivl α × Tree νr νb α) (es : EdgeL νr νb α) :
    hitL x (e :: es) = (e.1.mem x || hitL x es) := by simp [hitL]

theorem fromRangeGo_sem (ρ : Env νr νb α) (h : Option (Bnd α)) (r : Ranges α) (x : α)
    (hn : Ranges.NormFrom h r) :
    evalL ρ x (fromRangeGo (νr := νr) (νb := νb) (Bnd.curOf h) r)
        = (Bnd.loOkO (Bnd.curOf h) x && r.mem x) ∧
      hitL x (fromRangeGo (νr := νr) (νb := νb) (Bnd.curOf h) r) = Bnd.loOkO (Bnd.curOf h) x := by
  induction r generalizing h with
  | nil =>
    cases hc : Bnd.curOf h with
    | none => simp [fromRangeGo, evalL, hitL, Ranges.mem, Bnd.loOkO]
    | some c => simp [fromRangeGo, evalL, hitL, Ranges.mem, Bnd.loOkO, Ivl.mem, Bnd.hiOk, Tree.eval]
  | cons s rest ih =>
    obtain ⟨n1, n2, n3⟩ := hn
    obtain ⟨ih1, ih2⟩ := ih (some s.hi) n3
    simp only [Bnd.curOf] at ih1 ih2
    have fH := Bnd.loOkO_flipHi s.hi x
    have fV := Ivl.lo_or_hi s x n2
    have fR : Ranges.mem rest x = true → s.hi.hiOk x = false := Ranges.beyond s.hi rest x n3
    cases hc : Bnd.curOf h with
    | none =>
      cases h with
      | none => simp [Bnd.curOf] at hc
      | some b =>
        cases b <;> simp only [Bnd.curOf, Bnd.flipHi, reduceCtorEq] at hc
        simp [Bnd.gapO, Bnd.gapBefore] at n1
    | some c =>
      have fA : s.lo.loOk x = true → c.loOk x = true := by
        intro hl
        have := Bnd.loOkO_curOf_of_gap h s.lo x n1 hl
        rw [hc] at this; exact this
      rw [Ranges.mem_cons]
      simp only [fromRangeGo, Bnd.loOkO]
      cases hf : s.lo.flipLo with
      | none =>
        have hl := Bnd.loOk_of_flipLo_none s.lo x hf
        have := fA hl
        simp only [evalL, hitL_cons, Tree.eval]
        simp only [ih1, ih2, fH, this, Bool.true_and, Ivl.mem]
        cases hH : s.hi.hiOk x <;> cases hR : Ranges.mem rest x <;> simp_all
      | some hh =>
        have f2 := Bnd.hiOk_flipLo s.lo hh x hf
        simp only [evalL, hitL_cons, Tree.eval]
        simp only [ih1, ih2, fH, Ivl.mem, f2]
        cases hA : c.loOk x <;> cases hL : s.lo.loOk x <;> cases hH : s.hi.hiOk x <;>
          cases hR : Ranges.mem rest x <;> simp_all

/-- every edge of `fromRange` is a valid segment leading to a terminal -/
theorem fromRangeGo_edges (h : Option (Bnd α)) (r : Ranges α) (hn : Ranges.NormFrom h r) :
    ∀ e ∈ fromRangeGo (νr := νr) (νb := νb) (Bnd.curOf h) r,
      e.1.valid = true ∧ ∃ b, e.2 = .leaf b := by
  induction r generalizing h with
  | nil =>
    cases hc : Bnd.curOf h with
    | none => simp [fromRangeGo]
    | some c =>
      simp only [fromRangeGo, List.mem_singleton]
      rintro e rfl
      exact ⟨by cases c <;> rfl, false, rfl⟩
  | cons s rest ih =>
    obtain ⟨n1, n2, n3⟩ := hn
    have ih' := ih (some s.hi) n3
    simp only [Bnd.curOf] at ih'
    cases hc : Bnd.curOf h with
    | none => simp [fromRangeGo]
    | some c =>
      simp only [fromRangeGo]
      cases hf : s.lo.flipLo with
      | none =>
        simp only [List.mem_cons]
        rintro e (rfl | he)
        · exact ⟨n2, true, rfl⟩
        · exact ih' e he
      | some hh =>
        simp only [List.mem_cons]
        rintro e (rfl | rfl | he)
        · exact ⟨Bnd.gap_valid h s.lo hh c n1 hf hc, false, rfl⟩
        · exact ⟨n2, true, rfl⟩
        · exact ih' e he

theorem covers_fromRange (r : Ranges α) (hn : r.Norm) :
    Covers (fromRange (νr := νr) (νb := νb) r) := by
  rw [covers_iff]
  intro x
  have := (fromRangeGo_sem (νr := νr) (νb := νb) ⟨fun _ => x, fun _ => false⟩ none r x hn).2
  simpa [fromRange, Bnd.curOf, Bnd.loOkO, Bnd.loOk] using this

theorem evalL_fromRange (ρ : Env νr νb α) (r : Ranges α) (hn : r.Norm) (x : α) :
    evalL ρ x (fromRange r) = r.mem x := by
  have := (fromRangeGo_sem ρ none r x hn).1
  simpa [fromRange, Bnd.curOf, Bnd.loOkO, Bnd.loOk] using this

theorem OKL_fromRange (r : Ranges α) (hn : r.Norm) : OKL (fromRange (νr := νr) (νb := νb) r) := by
  intro e he
  obtain ⟨h1, b, h2⟩ := fromRangeGo_edges (νr := νr) (νb := νb) none r hn e he
  refine ⟨h1, ?_⟩
  rw [h2]; trivial

/-- the marker `v ∈ r` evaluates to membership of the variable's value in `r` -/
theorem eval_rangeNode (ρ : Env νr νb α) (v : νr) (r : Ranges α) (hn : r.Norm) :
    (rangeNode v r : Tree νr νb α).eval ρ = r.mem (ρ.rv v) := by
  unfold rangeNode
  rw [eval_createNodeR ρ v _ (covers_fromRange r hn), evalL_fromRange ρ r hn]

theorem OK_rangeNode (v : νr) (r : Ranges α) (hn : r.Norm) : (rangeNode v r : Tree νr νb α).OK :=
  OK_createNodeR v _ (OKL_fromRange r hn) (covers_fromRange r hn)

/-! ### complement of the range set = negation of the node -/

/-- swap the terminals below every edge -/
def flipE (es : EdgeL νr νb α) : EdgeL νr νb α := es.map fun e => (e.1, e.2.not)

theorem Bnd.flipLo_flipHi (h c : Bnd α) (hf : h.flipHi = some c) : c.flipLo = some h := by
  cases h <;> simp only [Bnd.flipHi, Option.some.injEq, reduceCtorEq] at hf <;> subst hf <;> rfl

theorem Bnd.flipHi_flipLo (l hh : Bnd α) (hf : l.flipLo = some hh) : hh.flipHi = some l := by
  cases l <;> simp only [Bnd.flipLo, Option.some.injEq, reduceCtorEq] at hf <;> subst hf <;> rfl

theorem Ranges.gaps_none (r : Ranges α) : Ranges.gaps none r = [] := by
  cases r <;> rfl

theorem fromRangeGo_none (r : Ranges α) : fromRangeGo (νr := νr) (νb := νb) none r = [] := by
  cases r <;> rfl

theorem fromRangeGo_gaps (cur hi : Bnd α) (rest : Ranges α)
    (hl : ∀ u ∈ rest, u.lo.flipLo ≠ none) :
    fromRangeGo (νr := νr) (νb := νb) (some cur) (Ranges.gaps hi.flipHi rest) =
      flipE ((⟨cur, hi⟩, .leaf true) :: fromRangeGo hi.flipHi rest) := by
  induction rest generalizing cur hi with
  | nil =>
    cases hc : hi.flipHi with
    | none =>
      cases hi <;> simp only [Bnd.flipHi, reduceCtorEq] at hc
      simp [Ranges.gaps, fromRangeGo, flipE, Tree.not]
    | some c =>
      have := Bnd.flipLo_flipHi hi c hc
      simp [Ranges.gaps, fromRangeGo, flipE, Tree.not, this, Bnd.flipHi]
  | cons u rest' ih =>
    cases hc : hi.flipHi with
    | none =>
      cases hi <;> simp only [Bnd.flipHi, reduceCtorEq] at hc
      simp [Ranges.gaps, fromRangeGo, flipE, Tree.not]
    | some c =>
      have h1 := Bnd.flipLo_flipHi hi c hc
      cases hf : u.lo.flipLo with
      | none => exact absurd hf (hl u (by simp))
      | some hh =>
        have h2 := Bnd.flipHi_flipLo u.lo hh hf
        have := ih u.lo u.hi (fun u' hu' => hl u' (by simp [hu']))
        simp only [Ranges.gaps, fromRangeGo, hf, h1, h2, this]
        simp [flipE, Tree.not]

theorem Ranges.NormFrom_lo (b : Bnd α) (r : Ranges α) (hn : Ranges.NormFrom (some b) r) :
    ∀ u ∈ r, u.lo.flipLo ≠ none := by
  induction r generalizing b with
  | nil => simp
  | cons s rest ih =>
    intro u hu
    simp only [List.mem_cons] at hu
    rcases hu with rfl | hu
    · intro hf
      have := Bnd.gapO_unb (some b) u.lo hf hn.1
      simp at this
    · exact ih s.hi hn.2.2 u hu

theorem fromRange_complement (r : Ranges α) (hn : r.Norm) :
    fromRange (νr := νr) (νb := νb) (Ranges.complement r) = flipE (fromRange r) := by
  unfold fromRange Ranges.complement
  cases r with
  | nil => simp [Ranges.gaps, fromRangeGo, flipE, Tree.not, Bnd.flipLo, Bnd.flipHi]
  | cons s rest =>
    have hl := Ranges.NormFrom_lo s.hi rest hn.2.2
    cases hf : s.lo.flipLo with
    | none =>
      have hlo : s.lo = .unb := by
        cases hs : s.lo <;> simp [hs, Bnd.flipLo] at hf; rfl
      have := fromRangeGo_gaps (νr := νr) (νb := νb) .unb s.hi rest hl
      simp only [Ranges.gaps, fromRangeGo, hf, this]
      obtain ⟨sl, sh⟩ := s
      simp only at hlo; subst hlo; rfl
    | some hh =>
      have h2 := Bnd.flipHi_flipLo s.lo hh hf
      have := fromRangeGo_gaps (νr := νr) (νb := νb) s.lo s.hi rest hl
      have hu : (Bnd.unb : Bnd α).flipLo = none := rfl
      simp only [Ranges.gaps, fromRangeGo, hf, hu, h2, this]
      simp [flipE, Tree.not]

theorem Edges.not_ofList (es : EdgeL νr νb α) : (Edges.ofList es).not = Edges.ofList (flipE es) := by
  induction es with
  | nil => rfl
  | cons e rest ih => obtain ⟨iv, c⟩ := e; simp [Edges.ofList, Edges.not, flipE] at ih ⊢; exact ih

theorem Tree.not_inj (a b : Tree νr νb α) (h : a.not = b.not) : a = b := by
  rw [← Tree.not_not a, h, Tree.not_not]

theorem createNodeR_flipE (v : νr) (es : EdgeL νr νb α) (hne : es ≠ []) :
    createNodeR v (flipE es) = (createNodeR v es).not := by
  cases es with
  | nil => exact absurd rfl hne
  | cons e rest =>
    obtain ⟨iv, c⟩ := e
    have hall : (flipE rest).all (fun e => e.2 == c.not) = rest.all (fun e => e.2 == c) := by
      simp only [flipE, List.all_map]
      congr 1
      funext e
      simp only [Function.comp]
      by_cases h : e.2 = c
      · simp [h]
      · have : e.2.not ≠ c.not := fun h' => h (Tree.not_inj _ _ h')
        rw [Bool.eq_iff_iff, beq_iff_eq, beq_iff_eq]
        exact ⟨fun h' => absurd h' this, fun h' => absurd h' h⟩
    simp only [createNodeR, flipE, List.map_cons] at hall ⊢
    rw [hall]
    by_cases hc : (rest.all fun e => e.2 == c) = true
    · simp [hc]
    · simp only [hc, Bool.false_eq_true, if_false, Tree.not]
      congr 1
      have := Edges.not_ofList ((iv, c) :: rest)
      simp only [flipE, List.map_cons] at this
      exact this.symm

theorem fromRange_ne_nil (r : Ranges α) : fromRange (νr := νr) (νb := νb) r ≠ [] := by
  unfold fromRange
  cases r with
  | nil => simp [fromRangeGo]
  | cons s rest => simp only [fromRangeGo]; cases s.lo.flipLo <;> simp

/-- the node of the complemented range set is the negated node (structurally) -/
theorem rangeNode_complement (v : νr) (r : Ranges α) (hn : r.Norm) :
    (rangeNode v (Ranges.complement r) : Tree νr νb α) = (rangeNode v r).not := by
  unfold rangeNode
  rw [fromRange_complement r hn, createNodeR_flipE v _ (fromRange_ne_nil r)]

/-! ### structural well-formedness of `rangeNode` -/

theorem partitionFrom_cons (cur : Bnd α) (iv : Ivl α) (t : Tree νr νb α) (es : EdgeL νr νb α) :
    partitionFrom cur ((iv, t) :: es) =
      (decide (iv.lo = cur) && iv.valid &&
        (match es with
         | [] => decide (iv.hi = .unb)
         | (_, t2) :: _ => decide (t ≠ t2) &&
            (match iv.hi.flipHi with
             | none => false
             | some nxt => partitionFrom nxt es))) := by
  cases es with
  | nil => rfl
  | cons e rest => obtain ⟨iv2, t2⟩ := e; simp only [partitionFrom]; rw [Bool.and_assoc]; congr

theorem fromRangeGo_head_false (b c : Bnd α) (r : Ranges α) (hn : Ranges.NormFrom (some b) r) :
    ∃ iv tl, fromRangeGo (νr := νr) (νb := νb) (some c) r = (iv, .leaf false) :: tl := by
  cases r with
  | nil => exact ⟨_, _, rfl⟩
  | cons u rest =>
    have := Ranges.NormFrom_lo b (u :: rest) hn u (by simp)
    cases hf : u.lo.flipLo with
    | none => exact absurd hf this
    | some hh => simp only [fromRangeGo, hf]; exact ⟨_, _, rfl⟩

theorem partition_seg (s : Ivl α) (rest : Ranges α) (hs : s.valid = true)
    (hn : Ranges.NormFrom (some s.hi) rest)
    (ih : ∀ c, s.hi.flipHi = some c →
      partitionFrom c (fromRangeGo (νr := νr) (νb := νb) (some c) rest) = true) :
    partitionFrom s.lo ((s, .leaf true) :: fromRangeGo (νr := νr) (νb := νb) s.hi.flipHi rest)
      = true := by
  rw [partitionFrom_cons]
  cases hc : s.hi.flipHi with
  | none =>
    have : s.hi = .unb := by cases hh : s.hi <;> simp [hh, Bnd.flipHi] at hc; rfl
    simp [fromRangeGo_none, hs, this]
  | some c =>
    obtain ⟨iv, tl, htl⟩ := fromRangeGo_head_false (νr := νr) (νb := νb) s.hi c rest hn
    have := ih c hc
    rw [htl] at this ⊢
    simp [hs, this]

theorem partitionFrom_fromRangeGo (h : Option (Bnd α)) (r : Ranges α) (hn : Ranges.NormFrom h r)
    (c : Bnd α) (hc : Bnd.curOf h = some c) :
    partitionFrom c (fromRangeGo (νr := νr) (νb := νb) (some c) r) = true := by
  induction r generalizing h c with
  | nil =>
    have : (Ivl.mk c .unb).valid = true := by cases c <;> rfl
    simp [fromRangeGo, partitionFrom, this]
  | cons s rest ih =>
    obtain ⟨n1, n2, n3⟩ := hn
    have P := partition_seg (νr := νr) (νb := νb) s rest n2 n3 (fun c' hc' => ih (some s.hi) n3 c' hc')
    cases hf : s.lo.flipLo with
    | none =>
      have hnone := Bnd.gapO_unb h s.lo hf n1
      subst hnone
      simp only [Bnd.curOf, Option.some.injEq] at hc
      subst hc
      have hlo : s.lo = .unb := by cases hs : s.lo <;> simp [hs, Bnd.flipLo] at hf; rfl
      simp only [fromRangeGo, hf]
      rw [hlo] at P; exact P
    | some hh =>
      simp only [fromRangeGo, hf]
      rw [partitionFrom_cons]
      simp [Bnd.gap_valid h s.lo hh c n1 hf hc, Bnd.flipHi_flipLo s.lo hh hf, P]

theorem wfAll_leaves (k : Rank νr νb) (es : EdgeL νr νb α) (hl : ∀ e ∈ es, ∃ b, e.2 = .leaf b) :
    (Edges.ofList es).wfAll k = true := by
  induction es with
  | nil => rfl
  | cons e rest ih =>
    obtain ⟨iv, t⟩ := e
    obtain ⟨b, hb⟩ := hl (iv, t) (by simp)
    simp only at hb; subst hb
    simp [Edges.ofList, Edges.wfAll, Tree.wf, Tree.rootGt, ih (fun e he => hl e (by simp [he]))]

/-- `rangeNode` of a normalised range set satisfies the structural C20 predicate -/
theorem wf_rangeNode (v : νr) (r : Ranges α) (hn : r.Norm) :
    (rangeNode v r : Tree νr νb α).wf = true := by
  unfold rangeNode
  have hp := partitionFrom_fromRangeGo (νr := νr) (νb := νb) none r hn .unb rfl
  have he := fromRangeGo_edges (νr := νr) (νb := νb) none r hn
  simp only [Bnd.curOf] at he
  unfold fromRange
  generalize fromRangeGo (νr := νr) (νb := νb) (some .unb) r = es at hp he
  cases es with
  | nil => rfl
  | cons e rest =>
    obtain ⟨iv, c⟩ := e
    unfold createNodeR
    simp only
    by_cases hall : (rest.all fun e => e.2 == c) = true
    · simp only [hall, if_true]
      obtain ⟨_, b, hb⟩ := he (iv, c) (by simp)
      simp only at hb; subst hb; rfl
    · simp only [hall, Bool.false_eq_true, if_false, Tree.wf, Edges.toList_ofList, hp,
        Bool.and_true, Bool.and_eq_true, decide_eq_true_eq]
      refine ⟨?_, wfAll_leaves _ _ (fun e he' => (he e he').2)⟩
      cases rest with
      | nil => simp at hall
      | cons _ _ => simp

end Pep508
