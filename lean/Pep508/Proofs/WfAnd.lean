/-
The structural C20 predicate `Tree.wf` is preserved by `not`, `and`, `or`.
-/
import Pep508.Proofs.WfLemmas
set_option linter.unusedSectionVars false
set_option linter.unusedSimpArgs false
namespace Pep508
variable {νr νb α : Type}
variable [LT α] [LE α] [Std.IsLinearOrder α] [Std.LawfulOrderLT α] [DecidableLT α] [DecidableEq α]
variable [LT νr] [LE νr] [Std.IsLinearOrder νr] [Std.LawfulOrderLT νr] [DecidableLT νr] [DecidableEq νr]
variable [LT νb] [LE νb] [Std.IsLinearOrder νb] [Std.LawfulOrderLT νb] [DecidableLT νb] [DecidableEq νb]

/-! ### negation -/

theorem Tree.not_injective {t s : Tree νr νb α} (h : t.not = s.not) : t = s := by
  have := congrArg Tree.not h
  simpa [Tree.not_not] using this

theorem Tree.rootGt_not (k : Rank νr νb) (t : Tree νr νb α) : t.not.rootGt k = t.rootGt k := by
  cases t <;> rfl

theorem AdjNe_map_not : ∀ (es : EdgeL νr νb α), AdjNe es → AdjNe (es.map fun e => (e.1, e.2.not))
  | [], _ => trivial
  | [_], _ => trivial
  | _ :: e2 :: rest, h =>
    ⟨fun h' => h.1 (Tree.not_injective h'), AdjNe_map_not (e2 :: rest) h.2⟩

mutual
theorem Tree.wf_not' : ∀ (t : Tree νr νb α), t.wf = true → t.not.wf = true
  | .leaf _, _ => rfl
  | .rng v es, h => by
    simp only [Tree.not, Tree.wf, Bool.and_eq_true, decide_eq_true_eq, partitionFrom_iff] at h ⊢
    obtain ⟨⟨h1, h2, h3⟩, h4⟩ := h
    rw [Edges.not_toList]
    exact ⟨⟨by simpa using h1, Part_map _ h2, AdjNe_map_not _ h3⟩, Edges.wfAll_not es (.r v) h4⟩
  | .bool v hi lo, h => by
    simp only [Tree.not, Tree.wf, Bool.and_eq_true, decide_eq_true_eq, Tree.rootGt_not] at h ⊢
    obtain ⟨⟨⟨⟨h1, h2⟩, h3⟩, h4⟩, h5⟩ := h
    exact ⟨⟨⟨⟨fun h' => h1 (Tree.not_injective h'), Tree.wf_not' hi h2⟩, Tree.wf_not' lo h3⟩, h4⟩, h5⟩
theorem Edges.wfAll_not : ∀ (es : Edges νr νb α) (k : Rank νr νb), es.wfAll k = true →
    es.not.wfAll k = true
  | .nil, _, _ => rfl
  | .cons iv t rest, k, h => by
    simp only [Edges.not, Edges.wfAll, Bool.and_eq_true, Tree.rootGt_not] at h ⊢
    exact ⟨⟨Tree.wf_not' t h.1.1, h.1.2⟩, Edges.wfAll_not rest k h.2⟩
end

/-- **`not` preserves well-formedness** -/
theorem wf_not (t : Tree νr νb α) (h : t.wf = true) : t.not.wf = true := Tree.wf_not' t h

/-! ### conjunction -/

theorem Tree.wf_bool_iff (v : νb) (h l : Tree νr νb α) :
    (Tree.bool v h l).wf = true ↔
      h ≠ l ∧ h.wf = true ∧ l.wf = true ∧ h.rootGt (.b v) = true ∧ l.rootGt (.b v) = true := by
  simp only [Tree.wf, Bool.and_eq_true, decide_eq_true_eq]
  grind

/-- **`and` preserves well-formedness**, and the root of the result is below every rank that
    both operands' roots are below -/
theorem wf_andF : ∀ (n : Nat) (x y : Tree νr νb α),
    x.size + y.size < n → x.wf = true → y.wf = true →
    (andF n x y).wf = true ∧
      ∀ k : Rank νr νb, x.rootGt k = true → y.rootGt k = true → (andF n x y).rootGt k = true := by
  intro n
  induction n with
  | zero => intro x y h; omega
  | succ n ih =>
    intro x y hsz hx hy
    unfold andF
    by_cases c1 : x = .leaf true
    · subst c1; simp only [if_true]; exact ⟨hy, fun k _ h => h⟩
    by_cases c2 : y = .leaf true
    · subst c2; simp only [c1, if_true, if_false]; exact ⟨hx, fun k h _ => h⟩
    by_cases c3 : x = y
    · subst c3; simp only [c1, if_true, if_false]; exact ⟨hx, fun k h _ => h⟩
    by_cases c4 : x = .leaf false ∨ y = .leaf false
    · simp [c1, c2, c3, c4, Tree.wf, Tree.rootGt]
    by_cases c5 : x.not = y
    · simp [c1, c2, c3, c4, c5, Tree.wf, Tree.rootGt]
    simp only [c1, c2, c3, c4, c5, if_false]
    cases x with
    | leaf b => cases b <;> simp_all
    | rng vx ex =>
      obtain ⟨_, hxp, _, hxc⟩ := (Tree.wf_rng_iff vx ex).mp hx
      cases y with
      | leaf b => cases b <;> simp_all
      | rng vy ey =>
        obtain ⟨_, hyp, _, hyc⟩ := (Tree.wf_rng_iff vy ey).mp hy
        simp only []
        split
        · rename_i hlt
          have hyg : (Tree.rng vy ey : Tree νr νb α).rootGt (.r vx) = true := by
            simp [Tree.rootGt, Rank.lt, hlt]
          have hch : ∀ e ∈ ex.toList, (andF n e.2 (Tree.rng vy ey)).wf = true ∧
              (andF n e.2 (Tree.rng vy ey)).rootGt (.r vx) = true := by
            intro e he
            have := ih e.2 (Tree.rng vy ey) (by have := Tree.size_rng_child vx ex e he; omega)
              (hxc e he).1 hy
            exact ⟨this.1, this.2 _ (hxc e he).2 hyg⟩
          exact ⟨wf_node_mapL vx _ _ hxp hch,
            fun k hk _ => rootGt_node_mapL k vx _ _ hk (fun e he => (hch e he).2)⟩
        split
        · rename_i _ hlt
          have hxg : (Tree.rng vx ex : Tree νr νb α).rootGt (.r vy) = true := by
            simp [Tree.rootGt, Rank.lt, hlt]
          have hch : ∀ e ∈ ey.toList, (andF n e.2 (Tree.rng vx ex)).wf = true ∧
              (andF n e.2 (Tree.rng vx ex)).rootGt (.r vy) = true := by
            intro e he
            have := ih e.2 (Tree.rng vx ex) (by have := Tree.size_rng_child vy ey e he; omega)
              (hyc e he).1 hx
            exact ⟨this.1, this.2 _ (hyc e he).2 hxg⟩
          exact ⟨wf_node_mapL vy _ _ hyp hch,
            fun k _ hk => rootGt_node_mapL k vy _ _ hk (fun e he => (hch e he).2)⟩
        · rename_i h1 h2
          have hv : vx = vy := lt_asymm' h1 h2
          subst hv
          have hch : ∀ l ∈ ex.toList, ∀ r ∈ ey.toList, (andF n l.2 r.2).wf = true ∧
              (andF n l.2 r.2).rootGt (.r vx) = true := by
            intro l hl r hr
            have := ih l.2 r.2 (by
              have := Tree.size_rng_child vx ex l hl
              have := Tree.size_rng_child vx ey r hr
              omega) (hxc l hl).1 (hyc r hr).1
            exact ⟨this.1, this.2 _ (hxc l hl).2 (hyc r hr).2⟩
          exact ⟨wf_node_apply vx _ _ _ hxp hyp hch,
            fun k hk _ => rootGt_node_apply k vx _ _ _ hk (fun l hl r hr => (hch l hl r hr).2)⟩
      | bool vy hy' ly' =>
        simp only []
        have hyg : (Tree.bool vy hy' ly' : Tree νr νb α).rootGt (.r vx) = true := by
          simp [Tree.rootGt, Rank.lt]
        have hch : ∀ e ∈ ex.toList, (andF n e.2 (Tree.bool vy hy' ly')).wf = true ∧
            (andF n e.2 (Tree.bool vy hy' ly')).rootGt (.r vx) = true := by
          intro e he
          have := ih e.2 (Tree.bool vy hy' ly') (by have := Tree.size_rng_child vx ex e he; omega)
            (hxc e he).1 hy
          exact ⟨this.1, this.2 _ (hxc e he).2 hyg⟩
        exact ⟨wf_node_mapL vx _ _ hxp hch,
          fun k hk _ => rootGt_node_mapL k vx _ _ hk (fun e he => (hch e he).2)⟩
    | bool vx hx' lx' =>
      have sx : hx'.size < (Tree.bool vx hx' lx').size ∧ lx'.size < (Tree.bool vx hx' lx').size := by
        simp [Tree.size]; omega
      obtain ⟨_, wxh, wxl, gxh, gxl⟩ := (Tree.wf_bool_iff vx hx' lx').mp hx
      cases y with
      | leaf b => cases b <;> simp_all
      | rng vy ey =>
        obtain ⟨_, hyp, _, hyc⟩ := (Tree.wf_rng_iff vy ey).mp hy
        simp only []
        have hxg : (Tree.bool vx hx' lx' : Tree νr νb α).rootGt (.r vy) = true := by
          simp [Tree.rootGt, Rank.lt]
        have hch : ∀ e ∈ ey.toList, (andF n e.2 (Tree.bool vx hx' lx')).wf = true ∧
            (andF n e.2 (Tree.bool vx hx' lx')).rootGt (.r vy) = true := by
          intro e he
          have := ih e.2 (Tree.bool vx hx' lx') (by have := Tree.size_rng_child vy ey e he; omega)
            (hyc e he).1 hx
          exact ⟨this.1, this.2 _ (hyc e he).2 hxg⟩
        exact ⟨wf_node_mapL vy _ _ hyp hch,
          fun k _ hk => rootGt_node_mapL k vy _ _ hk (fun e he => (hch e he).2)⟩
      | bool vy hy' ly' =>
        have sy : hy'.size < (Tree.bool vy hy' ly').size ∧ ly'.size < (Tree.bool vy hy' ly').size := by
          simp [Tree.size]; omega
        obtain ⟨_, wyh, wyl, gyh, gyl⟩ := (Tree.wf_bool_iff vy hy' ly').mp hy
        simp only []
        split
        · rename_i hlt
          have hyg : (Tree.bool vy hy' ly' : Tree νr νb α).rootGt (.b vx) = true := by
            simp [Tree.rootGt, Rank.lt, hlt]
          have i1 := ih hx' (Tree.bool vy hy' ly') (by omega) wxh hy
          have i2 := ih lx' (Tree.bool vy hy' ly') (by omega) wxl hy
          have g1 := i1.2 _ gxh hyg
          have g2 := i2.2 _ gxl hyg
          exact ⟨wf_createNodeB _ _ _ i1.1 i2.1 g1 g2,
            fun k hk _ => rootGt_createNodeB k _ _ _ hk (Tree.rootGt_of_lt _ hk g1)⟩
        split
        · rename_i _ hlt
          have hxg : (Tree.bool vx hx' lx' : Tree νr νb α).rootGt (.b vy) = true := by
            simp [Tree.rootGt, Rank.lt, hlt]
          have i1 := ih hy' (Tree.bool vx hx' lx') (by omega) wyh hx
          have i2 := ih ly' (Tree.bool vx hx' lx') (by omega) wyl hx
          have g1 := i1.2 _ gyh hxg
          have g2 := i2.2 _ gyl hxg
          exact ⟨wf_createNodeB _ _ _ i1.1 i2.1 g1 g2,
            fun k _ hk => rootGt_createNodeB k _ _ _ hk (Tree.rootGt_of_lt _ hk g1)⟩
        · rename_i h1 h2
          have hv : vx = vy := lt_asymm' h1 h2
          subst hv
          have i1 := ih hx' hy' (by omega) wxh wyh
          have i2 := ih lx' ly' (by omega) wxl wyl
          have g1 := i1.2 _ gxh gyh
          have g2 := i2.2 _ gxl gyl
          exact ⟨wf_createNodeB _ _ _ i1.1 i2.1 g1 g2,
            fun k hk _ => rootGt_createNodeB k _ _ _ hk (Tree.rootGt_of_lt _ hk g1)⟩

/-- **`and` preserves well-formedness** -/
theorem wf_and (x y : Tree νr νb α) (hx : x.wf = true) (hy : y.wf = true) :
    (Tree.and x y).wf = true :=
  (wf_andF _ x y (by omega) hx hy).1

theorem rootGt_and (k : Rank νr νb) (x y : Tree νr νb α) (hx : x.wf = true) (hy : y.wf = true)
    (gx : x.rootGt k = true) (gy : y.rootGt k = true) : (Tree.and x y).rootGt k = true :=
  (wf_andF _ x y (by omega) hx hy).2 k gx gy

/-- **`or` preserves well-formedness** -/
theorem wf_or (x y : Tree νr νb α) (hx : x.wf = true) (hy : y.wf = true) :
    (Tree.or x y).wf = true :=
  wf_not _ (wf_and _ _ (wf_not x hx) (wf_not y hy))

theorem rootGt_or (k : Rank νr νb) (x y : Tree νr νb α) (hx : x.wf = true) (hy : y.wf = true)
    (gx : x.rootGt k = true) (gy : y.rootGt k = true) : (Tree.or x y).rootGt k = true := by
  unfold Tree.or
  rw [Tree.rootGt_not]
  exact rootGt_and k _ _ (wf_not x hx) (wf_not y hy) (by rw [Tree.rootGt_not]; exact gx)
    (by rw [Tree.rootGt_not]; exact gy)

end Pep508
