/-
Bound tracking with a predicate that depends on the VARIABLE of the node (`Tree.AllV PV P`: every
range variable `v` of the diagram satisfies `PV v`, every bound of an edge of a `v` node satisfies
`P v`) — the shape of `Typed` (version nodes have version bounds, string nodes string bounds,
`python_version` never labels a node).  Preserved by `not`, `and`, `or`; holds for range atoms.
Same proofs as BoundsIn.lean.
-/
import Pep508.Proofs.BoundsIn
set_option linter.unusedSectionVars false
set_option linter.unusedSimpArgs false
namespace Pep508
variable {νr νb α : Type}
variable [LT α] [LE α] [Std.IsLinearOrder α] [Std.LawfulOrderLT α] [DecidableLT α] [DecidableEq α]
variable [LT νr] [LE νr] [Std.IsLinearOrder νr] [Std.LawfulOrderLT νr] [DecidableLT νr] [DecidableEq νr]
variable [LT νb] [LE νb] [Std.IsLinearOrder νb] [Std.LawfulOrderLT νb] [DecidableLT νb] [DecidableEq νb]

mutual
def Tree.AllV (PV : νr → Prop) (P : νr → α → Prop) : Tree νr νb α → Prop
  | .leaf _ => True
  | .rng v es => PV v ∧ es.AllV PV P v
  | .bool _ h l => h.AllV PV P ∧ l.AllV PV P
def Edges.AllV (PV : νr → Prop) (P : νr → α → Prop) (v : νr) : Edges νr νb α → Prop
  | .nil => True
  | .cons iv t rest => Ivl.Kind (P v) iv ∧ t.AllV PV P ∧ rest.AllV PV P v
end

def AllVL (PV : νr → Prop) (P : νr → α → Prop) (v : νr) (es : EdgeL νr νb α) : Prop :=
  ∀ e ∈ es, Ivl.Kind (P v) e.1 ∧ e.2.AllV PV P

variable (PV : νr → Prop) (P : νr → α → Prop)

theorem Edges.AllV_iff (v : νr) : ∀ (es : Edges νr νb α), es.AllV PV P v ↔ AllVL PV P v es.toList
  | .nil => by simp [Edges.AllV, Edges.toList, AllVL]
  | .cons iv t rest => by
    have ih := Edges.AllV_iff v rest
    simp only [Edges.AllV, Edges.toList, AllVL, List.mem_cons, ih]
    constructor
    · rintro ⟨h1, h2, h3⟩ e (rfl | he)
      · exact ⟨h1, h2⟩
      · exact h3 e he
    · intro h
      exact ⟨(h (iv, t) (Or.inl rfl)).1, (h (iv, t) (Or.inl rfl)).2, fun e he => h e (Or.inr he)⟩

theorem Edges.AllV_ofList (v : νr) (l : EdgeL νr νb α) :
    (Edges.ofList l).AllV PV P v ↔ AllVL PV P v l := by
  rw [Edges.AllV_iff, Edges.toList_ofList]

variable {PV P}

theorem AllVL.cons {v : νr} {e : Ivl α × Tree νr νb α} {es : EdgeL νr νb α}
    (h1 : Ivl.Kind (P v) e.1 ∧ e.2.AllV PV P) (h2 : AllVL PV P v es) : AllVL PV P v (e :: es) := by
  intro e' he'
  rcases List.mem_cons.1 he' with rfl | h
  · exact h1
  · exact h2 e' h

theorem AllVL.tail {v : νr} {e : Ivl α × Tree νr νb α} {es : EdgeL νr νb α}
    (h : AllVL PV P v (e :: es)) : AllVL PV P v es := fun e' he' => h e' (List.mem_cons_of_mem _ he')

theorem AllVL.append {v : νr} {a b : EdgeL νr νb α} (h1 : AllVL PV P v a) (h2 : AllVL PV P v b) :
    AllVL PV P v (a ++ b) := by
  intro e he
  rcases List.mem_append.1 he with h | h
  · exact h1 e h
  · exact h2 e h

variable (PV P)

mutual
theorem Tree.AllV_not : ∀ (t : Tree νr νb α), t.AllV PV P → t.not.AllV PV P
  | .leaf _, _ => trivial
  | .rng v es, h => ⟨h.1, Edges.AllV_not v es h.2⟩
  | .bool _ hi lo, h => ⟨Tree.AllV_not hi h.1, Tree.AllV_not lo h.2⟩
theorem Edges.AllV_not (v : νr) : ∀ (es : Edges νr νb α), es.AllV PV P v → es.not.AllV PV P v
  | .nil, _ => trivial
  | .cons _ t rest, h => ⟨h.1, Tree.AllV_not t h.2.1, Edges.AllV_not v rest h.2.2⟩
end

theorem AllV_createNodeR (v : νr) (hv : PV v) (es : EdgeL νr νb α) (h : AllVL PV P v es) :
    (createNodeR v es).AllV PV P := by
  unfold createNodeR
  cases es with
  | nil => trivial
  | cons e rest =>
    obtain ⟨iv, c⟩ := e
    simp only
    split
    · exact (h (iv, c) (by simp)).2
    · show PV v ∧ (Edges.ofList ((iv, c) :: rest)).AllV PV P v
      exact ⟨hv, (Edges.AllV_ofList PV P v _).2 h⟩

theorem AllV_createNodeB (v : νb) (h l : Tree νr νb α) (hh : h.AllV PV P) (hl : l.AllV PV P) :
    (createNodeB v h l).AllV PV P := by
  unfold createNodeB
  split
  · exact hh
  · exact ⟨hh, hl⟩

theorem AllVL_coalesceGo (v : νr) : ∀ (es : EdgeL νr νb α) (cur : Ivl α × Tree νr νb α),
    (Ivl.Kind (P v) cur.1 ∧ cur.2.AllV PV P) → AllVL PV P v es → AllVL PV P v (coalesceGo cur es)
  | [], cur, hc, _ => by
    simp only [coalesceGo]
    exact AllVL.cons hc (fun _ h => by simp at h)
  | e :: rest, cur, hc, hes => by
    simp only [coalesceGo]
    have he := hes e (by simp)
    split
    · exact AllVL_coalesceGo v rest _ ⟨⟨hc.1.1, he.1.2⟩, hc.2⟩ hes.tail
    · exact AllVL.cons hc (AllVL_coalesceGo v rest e he hes.tail)

theorem AllVL_coalesce (v : νr) (es : EdgeL νr νb α) (h : AllVL PV P v es) :
    AllVL PV P v (coalesce es) := by
  cases es with
  | nil => exact h
  | cons e rest => exact AllVL_coalesceGo PV P v rest e (h e (by simp)) h.tail

theorem AllVL_mapE (v : νr) (f : Tree νr νb α → Tree νr νb α) (es : EdgeL νr νb α)
    (h : AllVL PV P v es) (hf : ∀ e ∈ es, (f e.2).AllV PV P) : AllVL PV P v (mapE f es) := by
  unfold mapE
  apply AllVL_coalesce
  intro e he
  simp only [List.mem_map] at he
  obtain ⟨e0, he0, rfl⟩ := he
  exact ⟨(h e0 he0).1, hf e0 he0⟩

theorem AllVL_productRow (v : νr) (f : Tree νr νb α → Tree νr νb α → Tree νr νb α)
    (l : Ivl α × Tree νr νb α) (hl : Ivl.Kind (P v) l.1) : ∀ (rs : EdgeL νr νb α), AllVL PV P v rs →
    (∀ r ∈ rs, (f l.2 r.2).AllV PV P) → AllVL PV P v (productRow f l rs)
  | [], _, _ => fun _ h => by simp [productRow] at h
  | r :: rs, hrs, hf => by
    simp only [productRow]
    have ih := AllVL_productRow v f l hl rs hrs.tail (fun r' hr' => hf r' (by simp [hr']))
    split
    · exact AllVL.cons ⟨Kind_inter (P v) _ _ (hrs r (by simp)).1 hl, hf r (by simp)⟩ ih
    · exact ih

theorem AllVL_product (v : νr) (f : Tree νr νb α → Tree νr νb α → Tree νr νb α) :
    ∀ (ls rs : EdgeL νr νb α), AllVL PV P v ls → AllVL PV P v rs →
    (∀ l ∈ ls, ∀ r ∈ rs, (f l.2 r.2).AllV PV P) → AllVL PV P v (product f ls rs)
  | [], _, _, _, _ => fun _ h => by simp [product] at h
  | l :: ls, rs, hls, hrs, hf => by
    simp only [product]
    exact AllVL.append
      (AllVL_productRow PV P v f l (hls l (by simp)).1 rs hrs (fun r hr => hf l (by simp) r hr))
      (AllVL_product v f ls rs hls.tail hrs (fun l' hl' r hr => hf l' (by simp [hl']) r hr))

theorem AllVL_applyRanges (v : νr) (f : Tree νr νb α → Tree νr νb α → Tree νr νb α)
    (ls rs : EdgeL νr νb α) (hls : AllVL PV P v ls) (hrs : AllVL PV P v rs)
    (hf : ∀ l ∈ ls, ∀ r ∈ rs, (f l.2 r.2).AllV PV P) : AllVL PV P v (applyRanges f ls rs) :=
  AllVL_coalesce PV P v _ (AllVL_product PV P v f ls rs hls hrs hf)

theorem AllV_andF : ∀ (n : Nat) (x y : Tree νr νb α), x.AllV PV P → y.AllV PV P →
    (andF n x y).AllV PV P := by
  intro n
  induction n with
  | zero => intro x y _ _; trivial
  | succ n ih =>
    intro x y hx hy
    unfold andF
    by_cases c1 : x = .leaf true
    · subst c1; simp only [if_true]; exact hy
    by_cases c2 : y = .leaf true
    · subst c2; simp only [c1, if_true, if_false]; exact hx
    by_cases c3 : x = y
    · subst c3; simp only [c1, if_true, if_false]; exact hx
    by_cases c4 : x = .leaf false ∨ y = .leaf false
    · simp only [c1, c2, c3, c4, if_true, if_false]; trivial
    by_cases c5 : x.not = y
    · simp only [c1, c2, c3, c4, c5, if_true, if_false]; trivial
    simp only [c1, c2, c3, c4, c5, if_false]
    cases x with
    | leaf b => cases b <;> simp_all
    | rng vx ex =>
      have hxl := (Edges.AllV_iff PV P vx ex).1 hx.2
      cases y with
      | leaf b => cases b <;> simp_all
      | rng vy ey =>
        have hyl := (Edges.AllV_iff PV P vy ey).1 hy.2
        simp only []
        split
        · exact AllV_createNodeR PV P _ hx.1 _
            (AllVL_mapE PV P _ _ _ hxl (fun e he => ih _ _ (hxl e he).2 hy))
        split
        · exact AllV_createNodeR PV P _ hy.1 _
            (AllVL_mapE PV P _ _ _ hyl (fun e he => ih _ _ (hyl e he).2 hx))
        · rename_i h1 h2
          have hv : vx = vy := lt_asymm' h1 h2
          subst hv
          exact AllV_createNodeR PV P _ hx.1 _ (AllVL_applyRanges PV P _ _ _ _ hxl hyl
            (fun l hl r hr => ih _ _ (hxl l hl).2 (hyl r hr).2))
      | bool vy hy' ly' =>
        simp only []
        exact AllV_createNodeR PV P _ hx.1 _
          (AllVL_mapE PV P _ _ _ hxl (fun e he => ih _ _ (hxl e he).2 hy))
    | bool vx hx' lx' =>
      cases y with
      | leaf b => cases b <;> simp_all
      | rng vy ey =>
        have hyl := (Edges.AllV_iff PV P vy ey).1 hy.2
        simp only []
        exact AllV_createNodeR PV P _ hy.1 _
          (AllVL_mapE PV P _ _ _ hyl (fun e he => ih _ _ (hyl e he).2 hx))
      | bool vy hy' ly' =>
        simp only []
        split
        · exact AllV_createNodeB PV P _ _ _ (ih _ _ hx.1 hy) (ih _ _ hx.2 hy)
        split
        · exact AllV_createNodeB PV P _ _ _ (ih _ _ hy.1 hx) (ih _ _ hy.2 hx)
        · exact AllV_createNodeB PV P _ _ _ (ih _ _ hx.1 hy.1) (ih _ _ hx.2 hy.2)

theorem AllV_and (x y : Tree νr νb α) (hx : x.AllV PV P) (hy : y.AllV PV P) :
    (Tree.and x y).AllV PV P := AllV_andF PV P _ x y hx hy

theorem AllV_or (x y : Tree νr νb α) (hx : x.AllV PV P) (hy : y.AllV PV P) :
    (Tree.or x y).AllV PV P :=
  Tree.AllV_not PV P _ (AllV_and PV P _ _ (Tree.AllV_not PV P x hx) (Tree.AllV_not PV P y hy))

theorem AllVL_fromRangeGo (v : νr) : ∀ (r : Ranges α) (cur : Option (Bnd α)),
    (∀ c, cur = some c → Bnd.Kind (P v) c) → (∀ s ∈ r, Ivl.Kind (P v) s) →
    AllVL PV P v (fromRangeGo cur r : EdgeL νr νb α)
  | _, none, _, _ => by
    intro e he
    cases ‹Ranges α› <;> simp [fromRangeGo] at he
  | [], some cur, hc, _ => by
    intro e he
    simp only [fromRangeGo, List.mem_singleton] at he
    subst he
    exact ⟨⟨hc cur rfl, trivial⟩, trivial⟩
  | s :: rest, some cur, hc, hr => by
    have hs := hr s (by simp)
    have ih : AllVL PV P v (fromRangeGo s.hi.flipHi rest : EdgeL νr νb α) :=
      AllVL_fromRangeGo v rest s.hi.flipHi
        (fun c hcc => Kind_flipHi (P v) s.hi c hs.2 hcc) (fun s' hs' => hr s' (by simp [hs']))
    simp only [fromRangeGo]
    cases hfl : s.lo.flipLo with
    | none => exact AllVL.cons ⟨hs, trivial⟩ ih
    | some h =>
      exact AllVL.cons ⟨⟨hc cur rfl, Kind_flipLo (P v) s.lo h hs.1 hfl⟩, trivial⟩
        (AllVL.cons ⟨hs, trivial⟩ ih)

theorem AllV_rangeNode (v : νr) (hv : PV v) (r : Ranges α) (hr : ∀ s ∈ r, Ivl.Kind (P v) s) :
    (rangeNode v r : Tree νr νb α).AllV PV P :=
  AllV_createNodeR PV P v hv _
    (AllVL_fromRangeGo PV P v r (some .unb) (fun c hc => by cases hc; trivial) hr)

end Pep508
