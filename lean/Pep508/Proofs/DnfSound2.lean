/-
C05 (DNF soundness) with a SATISFIABLE spelling hypothesis.

`toDnf_sound'` (DnfCollect.lean) assumes `∀ v, stripZeros (spell v) = v`, which no function
satisfies (`spell_hyp_unsat`: `stripZeros r` is never `[0]`).  What the proof uses is that identity
at the version bounds of the diagram, which are normalized (`stripZeros w = w`: diagrams store
releases with trailing zeros stripped).  This file re-proves the chain under

  `SpellOK spell`   : `stripZeros (spell w) = w` for every NORMALIZED `w`  (satisfied e.g. by the
                      identity, or by any table that pads with zeros), and
  `t.AllB NormV`    : every version bound of the diagram is normalized.

Only the version-key lemmas change; the string-key lemmas and the simplifier do not mention `spell`.
-/
import Pep508.Proofs.DnfCollect
import Pep508.Proofs.BoundsIn
set_option linter.unusedSimpArgs false
set_option linter.unusedVariables false
namespace Pep508

theorem stripZeros_ne_zero (r : List Nat) : stripZeros r ≠ [0] := by
  intro h
  have h1 : (r.reverse.dropWhile (· == 0)) = [0] := by
    have := congrArg List.reverse h
    simpa [stripZeros] using this
  have h2 := List.head?_dropWhile_not (fun x : Nat => x == 0) r.reverse
  rw [h1] at h2
  simp at h2

/-- the spelling hypothesis of `toDnf_sound'` / `C05.to_dnf_sound` is unsatisfiable -/
theorem spell_hyp_unsat : ¬ ∃ spell : Spell, ∀ v, stripZeros (spell v) = v := by
  rintro ⟨spell, hs⟩
  exact stripZeros_ne_zero _ (hs [0])

/-- the spelling table returns a spelling of its argument: for normalized releases, stripping the
trailing zeros of the spelling gives the release back -/
def SpellOK (spell : Spell) : Prop := ∀ w, stripZeros w = w → stripZeros (spell w) = w

/-- a version value is stored normalized (strings: no condition) -/
def NormV (x : Val) : Prop := stripZeros x.verOf = x.verOf

/-- e.g. the table that spells every release as stored, except `0` (the empty list) as `0` -/
def spellPlain : Spell := fun w => if w = [] then [0] else w

theorem spellPlain_ok : SpellOK spellPlain ∧ ∀ w, spellPlain w ≠ [] := by
  constructor
  · intro w hw
    unfold spellPlain
    split
    · subst_vars; rfl
    · exact hw
  · intro w
    unfold spellPlain
    split
    · simp
    · assumption

/-- the bound is a version whose spelling strips back to it -/
def SpK (spell : Spell) (k : VKey) (x : Val) : Prop :=
  kindOf (.ver k) x ∧ stripZeros (spell x.verOf) = x.verOf

section terms
variable (spell : Spell) (ρ : Env VarR VarB Val)

theorem termSem_ver_eq' (k : VKey) (hk : k ≠ .pyVer) (w : List Nat) (hw : stripZeros (spell w) = w) :
    termSem ρ (.version k ⟨.eq, spell w⟩) = (ρ.rv (.ver k) == Val.ver w) := by
  rw [termSem_version ρ k _ hk]; simp only [releaseSpecToRange, hw]
  exact mem_singleton_val _ _

theorem termSem_ver_ne' (k : VKey) (hk : k ≠ .pyVer) (w : List Nat) (hw : stripZeros (spell w) = w) :
    termSem ρ (.version k ⟨.ne, spell w⟩) = (ρ.rv (.ver k) != Val.ver w) := by
  rw [termSem_version ρ k _ hk]; simp only [releaseSpecToRange, hw]
  rw [Ranges.mem_complement _ (Ranges.norm_singleton _), mem_singleton_val]; rfl

theorem termSem_ver_ge' (k : VKey) (hk : k ≠ .pyVer) (w : List Nat) (hw : stripZeros (spell w) = w) :
    termSem ρ (.version k ⟨.ge, spell w⟩) = (Bnd.incl (Val.ver w)).loOk (ρ.rv (.ver k)) := by
  rw [termSem_version ρ k _ hk]; simp only [releaseSpecToRange, hw]
  simp [Ranges.mem_single, Ivl.mem, Bnd.hiOk]

theorem termSem_ver_gt' (k : VKey) (hk : k ≠ .pyVer) (w : List Nat) (hw : stripZeros (spell w) = w) :
    termSem ρ (.version k ⟨.gt, spell w⟩) = (Bnd.excl (Val.ver w)).loOk (ρ.rv (.ver k)) := by
  rw [termSem_version ρ k _ hk]; simp only [releaseSpecToRange, hw]
  simp [Ranges.mem_single, Ivl.mem, Bnd.hiOk]

theorem termSem_ver_le' (k : VKey) (hk : k ≠ .pyVer) (w : List Nat) (hw : stripZeros (spell w) = w) :
    termSem ρ (.version k ⟨.le, spell w⟩) = (Bnd.incl (Val.ver w)).hiOk (ρ.rv (.ver k)) := by
  rw [termSem_version ρ k _ hk]; simp only [releaseSpecToRange, hw]
  simp [Ranges.mem_single, Ivl.mem, Bnd.loOk]

theorem termSem_ver_lt' (k : VKey) (hk : k ≠ .pyVer) (w : List Nat) (hw : stripZeros (spell w) = w) :
    termSem ρ (.version k ⟨.lt, spell w⟩) = (Bnd.excl (Val.ver w)).hiOk (ρ.rv (.ver k)) := by
  rw [termSem_version ρ k _ hk]; simp only [releaseSpecToRange, hw]
  simp [Ranges.mem_single, Ivl.mem, Bnd.loOk]

theorem star_bounds' (w1 w2 : List Nat) (a b : Nat) (h1 : spell w1 = [a, b])
    (h2 : spell w2 = [a, b + 1]) (e1 : stripZeros (spell w1) = w1) (e2 : stripZeros (spell w2) = w2) :
    Val.ver (stripZeros [a, b]) = Val.ver w1 ∧ Val.ver (stripZeros (bumpLast [a, b])) = Val.ver w2 := by
  rw [h1] at e1; rw [h2] at e2
  simp only [bumpLast]
  rw [e1, e2]; exact ⟨rfl, rfl⟩

theorem termSem_ver_eqStar' (k : VKey) (hk : k ≠ .pyVer) (w1 w2 : List Nat) (a b : Nat)
    (h1 : spell w1 = [a, b]) (h2 : spell w2 = [a, b + 1])
    (hw1 : stripZeros (spell w1) = w1) (hw2 : stripZeros (spell w2) = w2) :
    termSem ρ (.version k ⟨.eqStar, [a, b]⟩) =
      (Ivl.mk (.incl (Val.ver w1)) (.excl (Val.ver w2))).mem (ρ.rv (.ver k)) := by
  obtain ⟨e1, e2⟩ := star_bounds' spell w1 w2 a b h1 h2 hw1 hw2
  rw [termSem_version ρ k _ hk]; simp only [releaseSpecToRange]
  rw [e1, e2, Ranges.mem_ofBounds]

theorem termSem_ver_neStar' (k : VKey) (hk : k ≠ .pyVer) (w1 w2 : List Nat) (a b : Nat)
    (h1 : spell w1 = [a, b]) (h2 : spell w2 = [a, b + 1])
    (hw1 : stripZeros (spell w1) = w1) (hw2 : stripZeros (spell w2) = w2) :
    termSem ρ (.version k ⟨.neStar, [a, b]⟩) =
      !(Ivl.mk (.incl (Val.ver w1)) (.excl (Val.ver w2))).mem (ρ.rv (.ver k)) := by
  obtain ⟨e1, e2⟩ := star_bounds' spell w1 w2 a b h1 h2 hw1 hw2
  rw [termSem_version ρ k _ hk]; simp only [releaseSpecToRange]
  rw [e1, e2, Ranges.mem_complement _ (Ranges.norm_ofBounds _ _), Ranges.mem_ofBounds]

theorem spK_ver {k : VKey} {x : Val} (h : SpK spell k x) :
    ∃ w, x = .ver w ∧ stripZeros (spell w) = w := by
  have := kindOf_ver k x h.1
  exact ⟨x.verOf, this, h.2⟩

/-- `from_release_only_bounds`: the conjunction of the specifiers of a segment is the segment -/
theorem specsOfBounds_sem' (k : VKey) (hk : k ≠ .pyVer) (seg : Ivl Val)
    (hkind : Ivl.Kind (SpK spell k) seg) :
    ((specsOfBounds spell seg).map (fun s => MExpr.version k s)).all (termSem ρ) =
      seg.mem (ρ.rv (.ver k)) := by
  obtain ⟨lo, hi⟩ := seg
  obtain ⟨klo, khi⟩ := hkind
  simp only at klo khi
  cases lo with
  | unb =>
    cases hi with
    | unb => simp [specsOfBounds, Ivl.mem, Bnd.loOk, Bnd.hiOk]
    | incl v =>
      obtain ⟨v, rfl, hv⟩ := spK_ver spell khi
      have T3 := termSem_ver_le' spell ρ k hk v hv
      simp [specsOfBounds, Ivl.mem, T3, Val.verOf, Bnd.loOk]
    | excl v =>
      obtain ⟨v, rfl, hv⟩ := spK_ver spell khi
      have T4 := termSem_ver_lt' spell ρ k hk v hv
      simp [specsOfBounds, Ivl.mem, T4, Val.verOf, Bnd.loOk]
  | excl u =>
    obtain ⟨u, rfl, hu⟩ := spK_ver spell klo
    have T2 := termSem_ver_gt' spell ρ k hk u hu
    cases hi with
    | unb => simp [specsOfBounds, Ivl.mem, T2, Val.verOf, Bnd.hiOk]
    | incl v =>
      obtain ⟨v, rfl, hv⟩ := spK_ver spell khi
      have T3 := termSem_ver_le' spell ρ k hk v hv
      simp [specsOfBounds, Ivl.mem, T2, T3, Val.verOf]
    | excl v =>
      obtain ⟨v, rfl, hv⟩ := spK_ver spell khi
      have T4 := termSem_ver_lt' spell ρ k hk v hv
      simp [specsOfBounds, Ivl.mem, T2, T4, Val.verOf]
  | incl u =>
    obtain ⟨u, rfl, hu⟩ := spK_ver spell klo
    have T1 := termSem_ver_ge' spell ρ k hk u hu
    cases hi with
    | unb => simp [specsOfBounds, Ivl.mem, T1, Val.verOf, Bnd.hiOk]
    | incl v =>
      obtain ⟨v, rfl, hv⟩ := spK_ver spell khi
      have T3 := termSem_ver_le' spell ρ k hk v hv
      by_cases huv : u = v
      · subst huv
        simp only [specsOfBounds, beq_self_eq_true, if_true, Val.verOf, List.map_cons, List.map_nil,
          List.all_cons, List.all_nil, Bool.and_true]
        rw [termSem_ver_eq' spell ρ k hk u hu]
        simp only [Ivl.mem, Bnd.loOk, Bnd.hiOk]
        have := mem_singleton_val (Val.ver u) (ρ.rv (.ver k))
        simp only [Ranges.singleton, Ranges.mem_single, Ivl.mem, Bnd.loOk, Bnd.hiOk] at this
        exact this.symm
      · have hne : (Val.ver u == Val.ver v) = false := by simpa using huv
        simp [specsOfBounds, hne, Ivl.mem, T1, T3, Val.verOf]
    | excl v =>
      obtain ⟨v, rfl, hv⟩ := spK_ver spell khi
      have T4 := termSem_ver_lt' spell ρ k hk v hv
      have generic : ((([⟨.ge, spell u⟩] : List Pep508.Spec) ++ [(⟨.lt, spell v⟩ : Pep508.Spec)]).map
          (fun s => MExpr.version k s)).all (termSem ρ) =
          (Ivl.mk (.incl (Val.ver u)) (.excl (Val.ver v))).mem (ρ.rv (.ver k)) := by
        simp [Ivl.mem, T1, T4]
      simp only [specsOfBounds, Val.verOf]
      split
      · rename_i l heq
        split at heq
        · rename_i a b hab
          by_cases hb : spell v = [a, b + 1]
          · simp only [hb, beq_self_eq_true, if_true, Option.some.injEq] at heq
            subst heq
            simp only [List.map_cons, List.map_nil, List.all_cons, List.all_nil, Bool.and_true]
            exact termSem_ver_eqStar' spell ρ k hk _ _ a b hab hb hu hv
          · simp [hb] at heq
        · simp at heq
      · exact generic

/-- `range_terms` for a version key denotes the range -/
theorem rangeTerms_ver_sem' (k : VKey) (hk : k ≠ .pyVer) (r : Ranges Val) (hn : r.Norm)
    (hkind : ∀ s ∈ r, Ivl.Kind (SpK spell k) s) :
    (rangeTerms spell (.ver k) r).any (clauseSem ρ) = r.mem (ρ.rv (.ver k)) := by
  simp only [rangeTerms]
  split
  · rename_i ex hex
    obtain ⟨h1, h2⟩ := rangeInequality_spec (SpK spell k) r ex hex hn hkind (ρ.rv (.ver k))
    simp only [List.any_cons, List.any_nil, Bool.or_false, clauseSem, List.all_map]
    rw [h1]
    apply all_congr_mem
    intro v hv
    obtain ⟨w, rfl, hw⟩ := spK_ver spell (h2 v hv)
    simp only [Function.comp, Val.verOf]
    rw [termSem_ver_ne' spell ρ k hk w hw]
  · split
    · rename_i s hstar
      simp only [List.any_cons, List.any_nil, Bool.or_false, clauseSem, List.all_cons, List.all_nil,
        Bool.and_true]
      unfold starRangeInequality at hstar
      split at hstar
      · rename_i v1 v2 hri
        have k1 : SpK spell k v1 := (hkind ⟨.unb, .excl v1⟩ (by simp)).2
        have k2 : SpK spell k v2 := (hkind ⟨.incl v2, .unb⟩ (by simp)).1
        obtain ⟨v1, rfl, hw1⟩ := spK_ver spell k1
        obtain ⟨v2, rfl, hw2⟩ := spK_ver spell k2
        simp only [Val.verOf] at hstar
        split at hstar
        · rename_i a b hab
          by_cases hb : spell v2 = [a, b + 1]
          · simp only [hb, beq_self_eq_true, if_true, Option.some.injEq] at hstar
            subst hstar
            rw [termSem_ver_neStar' spell ρ k hk _ _ a b hab hb hw1 hw2]
            simp only [Ranges.mem, List.any_cons, List.any_nil, Ivl.mem, Bnd.loOk, Bnd.hiOk]
            cases decide (ρ.rv (.ver k) < Val.ver v1) <;>
              cases decide (ρ.rv (.ver k) < Val.ver v2) <;> rfl
          · simp [hb] at hstar
        · simp at hstar
      · simp at hstar
    · simp only [List.any_map, Ranges.mem]
      apply any_congr_mem
      intro seg hseg
      simp only [Function.comp, clauseSem]
      exact specsOfBounds_sem' spell ρ k hk seg (hkind seg hseg)

end terms

/-- the bound is of the kind of the variable and, for versions, normalized -/
def KN (v : VarR) (x : Val) : Prop := kindOf v x ∧ NormV x

theorem Kind_mono {P Q : Val → Prop} (h : ∀ x, P x → Q x) (s : Ivl Val) (hs : Ivl.Kind P s) :
    Ivl.Kind Q s := by
  obtain ⟨lo, hi⟩ := s
  obtain ⟨h1, h2⟩ := hs
  constructor
  · cases lo <;> first | trivial | exact h _ h1
  · cases hi <;> first | trivial | exact h _ h2

theorem Kind_conj (P Q : Val → Prop) (s : Ivl Val) (h1 : Ivl.Kind P s) (h2 : Ivl.Kind Q s) :
    Ivl.Kind (fun x => P x ∧ Q x) s := by
  obtain ⟨lo, hi⟩ := s
  obtain ⟨a1, a2⟩ := h1
  obtain ⟨b1, b2⟩ := h2
  constructor
  · cases lo <;> first | trivial | exact ⟨a1, b1⟩
  · cases hi <;> first | trivial | exact ⟨a2, b2⟩

/-- 1(b): the clause prefixes produced for a (subtree, range) pair denote the range -/
theorem rangeTerms_sem' (spell : Spell) (hs : SpellOK spell)
    (ρ : Env VarR VarB Val) (v : VarR) (hv : ∀ k, v = .ver k → k ≠ .pyVer) (r : Ranges Val)
    (hn : r.Norm) (hkind : ∀ s ∈ r, Ivl.Kind (KN v) s) :
    (rangeTerms spell v r).any (clauseSem ρ) = r.mem (ρ.rv v) := by
  cases v with
  | ver k =>
    exact rangeTerms_ver_sem' spell ρ k (hv k rfl) r hn
      (fun s hs' => Kind_mono (fun x hx => ⟨hx.1, hs _ hx.2⟩) s (hkind s hs'))
  | str k =>
    exact rangeTerms_str_sem spell ρ k r hn (fun s hs' => Kind_mono (fun x hx => hx.1) s (hkind s hs'))

/-- C05 (collection) under the satisfiable hypotheses -/
theorem collectDnf_sem' (spell : Spell) (hs : SpellOK spell) (ρ : Env VarR VarB Val) :
    ∀ (fuel : Nat) (t : MTree) (path : List MExpr), t.size < fuel → t.wf = true → Typed t →
      t.AllB NormV → (path ≠ [] ∨ t ≠ .leaf true) →
      dnfSem ρ (collectDnf spell fuel t path) = (clauseSem ρ path && t.eval ρ)
  | 0, _, _, h, _, _, _, _ => by omega
  | fuel + 1, .leaf false, path, _, _, _, _, _ => by
    simp [collectDnf, dnfSem, Tree.eval]
  | fuel + 1, .leaf true, path, _, _, _, _, hne => by
    have : path ≠ [] := by
      rcases hne with h | h
      · exact h
      · exact absurd rfl h
    have e : path.isEmpty = false := by
      cases path with
      | nil => exact absurd rfl this
      | cons a b => rfl
    simp [collectDnf, e, dnfSem, Tree.eval]
  | fuel + 1, .bool v h l, path, hsz, hwf, hty, hb, _ => by
    simp only [Tree.wf, Bool.and_eq_true] at hwf
    obtain ⟨⟨⟨⟨_, hwh⟩, hwl⟩, _⟩, _⟩ := hwf
    simp only [Tree.size] at hsz
    obtain ⟨th, tl⟩ := hty
    simp only [collectDnf]
    rw [dnfSem_append,
      collectDnf_sem' spell hs ρ fuel h _ (by omega) hwh th hb.1 (Or.inl (by simp)),
      collectDnf_sem' spell hs ρ fuel l _ (by omega) hwl tl hb.2 (Or.inl (by simp)),
      clauseSem_append, clauseSem_append]
    simp only [clauseSem, List.all_cons, List.all_nil, Bool.and_true, boolTerm_sem, Tree.eval]
    cases ρ.bv v <;> cases path.all (termSem ρ) <;> simp
  | fuel + 1, .rng v es, path, hsz, hwf, hty, hb, _ => by
    obtain ⟨hlen, hpart, hadj, hch⟩ := (Tree.wf_rng_iff v es).1 hwf
    obtain ⟨hv, htyE⟩ := hty
    rw [TypedE_iff] at htyE
    have hbl := (Edges.AllB_iff NormV es).1 hb
    have hvalid : ∀ e ∈ es.toList, e.1.valid = true := Part_valid hpart
    have hinv := collectEdges_spec es.toList hvalid
    have hkind := collectEdges_kind (KN v) es.toList
      (fun e he => Kind_conj _ _ _ (htyE e he).1 (hbl e he).1)
    have hnounb := collectEdges_no_unb es.toList hpart hadj hlen
    simp only [Tree.size] at hsz
    have key : ∀ p ∈ collectEdges es.toList [],
        (rangeTerms spell v p.2).any
            (fun terms => dnfSem ρ (collectDnf spell fuel p.1 (path ++ terms))) =
          (clauseSem ρ path && (p.2.mem (ρ.rv v) && p.1.eval ρ)) := by
      intro p hp
      obtain ⟨e, he, hep⟩ := hinv.child p hp
      have hsize : p.1.size < fuel := by
        have := Edges.size_mem es e he
        rw [hep] at this; omega
      have hwfp : p.1.wf = true := by rw [← hep]; exact (hch e he).1
      have htyp : Typed p.1 := by rw [← hep]; exact (htyE e he).2
      have hbp : p.1.AllB NormV := by rw [← hep]; exact (hbl e he).2
      have step : ∀ terms ∈ rangeTerms spell v p.2,
          dnfSem ρ (collectDnf spell fuel p.1 (path ++ terms)) =
            (clauseSem ρ path && (clauseSem ρ terms && p.1.eval ρ)) := by
        intro terms hterms
        have hne := rangeTerms_ne_nil spell v p.2 (hnounb p hp) terms hterms
        rw [collectDnf_sem' spell hs ρ fuel p.1 _ hsize hwfp htyp hbp (Or.inl (by simp [hne])),
          clauseSem_append, Bool.and_assoc]
      rw [any_congr_mem _ _ _ step, any_and_both,
        rangeTerms_sem' spell hs ρ v hv p.2 (hinv.norm p hp) (hkind p hp)]
    simp only [collectDnf]
    rw [dnfSem_flatMap]
    simp only [dnfSem_flatMap]
    rw [any_congr_mem _ _ _ key, any_and_left,
      collectEdges_any es.toList hvalid (fun c => c.eval ρ) (ρ.rv v),
      ← evalL_part ρ (ρ.rv v) es.toList _ _ hpart]
    simp only [Tree.eval, Edges.eval_eq]

/-- **C05, DNF soundness, non-vacuous form**: for every spelling table that spells normalized
releases (`SpellOK`), every well-formed typed diagram other than TRUE whose version bounds are
normalized, and every environment, the clauses of `to_dnf` denote the diagram -/
theorem toDnf_sound2 (spell : Spell) (hs : SpellOK spell) (t : MTree)
    (hwf : t.wf = true) (hty : Typed t) (hb : t.AllB NormV) (ρ : Env VarR VarB Val)
    (hne : t ≠ .leaf true) : dnfSem ρ (toDnf spell t) = t.eval ρ := by
  unfold toDnf
  rw [simplifyDnf_sound ρ _ (collectDnf_ok spell _ t [] hwf hty (by simp)),
    collectDnf_sem' spell hs ρ (t.size + 1) t [] (by omega) hwf hty hb (Or.inr hne)]
  simp [clauseSem]

end Pep508
