/-
Refinement of the remaining id-level operations (`Model/InternerOps.lean`) :
`restrictI` refines `Tree.restrict` whatever the arena already contains (`restrictI_refines`),
`Id.not` refines `Tree.not` (`den_not`, restated as `notI_refines`), `isDisjointI` refines
`isDisjointF` / `Tree.isDisjoint` (`isDisjointI_refines`), and — negative result — the seeded-bug
model `restrictMemoI` (memo keyed by the id alone) does NOT refine `Tree.restrict`
(`BugWitness.restrictMemoI_not_refines`, `BugWitness.restrictMemoI_history_dependent`), although it
does as long as a single predicate is used (`restrictMemoI_spec`, `restrictMemoI_fresh_refines`).
-/
import Pep508.Model.InternerOps
import Pep508.Proofs.InternerRefine
set_option linter.unusedSectionVars false
set_option linter.unusedSimpArgs false
set_option linter.unusedVariables false
namespace Pep508

section Restrict
variable {νr νb α : Type}
variable [LT α] [DecidableLT α] [DecidableEq α]
variable [LT νr] [DecidableLT νr] [DecidableEq νr] [LT νb] [DecidableLT νb] [DecidableEq νb]

theorem Tree.size_pos'' (t : Tree νr νb α) : 1 ≤ t.size := by
  cases t <;> simp [Tree.size] <;> omega

theorem Tree.size_rng_child'' (v : νr) (es : Edges νr νb α) (e : Ivl α × Tree νr νb α)
    (h : e ∈ es.toList) : e.2.size < (Tree.rng v es).size := by
  have := Edges.size_mem es e h
  simp [Tree.size]; omega

theorem Edges.restrictE_eq_map (f : νb → Option Bool) : ∀ (es : Edges νr νb α),
    es.restrictE f = es.toList.map (fun e => (e.1, e.2.restrict f))
  | .nil => rfl
  | .cons iv t rest => by simp [Edges.restrictE, Edges.toList, Edges.restrictE_eq_map f rest]

/-! ### one unfolding step of `restrictI` -/

theorem restrictI_tt (f : νb → Option Bool) (n : Nat) (s : IState νr νb α) :
    restrictI f n s .tt = (s, .tt) := by cases n <;> rfl

theorem restrictI_ff (f : νb → Option Bool) (n : Nat) (s : IState νr νb α) :
    restrictI f n s .ff = (s, .ff) := by cases n <;> rfl

theorem restrictI_rng (f : νb → Option Bool) (n : Nat) (s : IState νr νb α) (i : Nat) (c : Bool)
    (v : νr) (es : List (Ivl α × Id)) (h : s.nodes[i]? = some (.rng v es)) :
    restrictI f (n + 1) s (.ref i c) =
      createNodeI (mapEdgesI (restrictI f n) (.ref i c) s es).1
        (.rng v (coalesceI (mapEdgesI (restrictI f n) (.ref i c) s es).2)) := by
  rw [restrictI, h]

theorem restrictI_bool_some (f : νb → Option Bool) (n : Nat) (s : IState νr νb α) (i : Nat) (c : Bool)
    (v : νb) (hi lo : Id) (b : Bool) (h : s.nodes[i]? = some (.bool v hi lo)) (hf : f v = some b) :
    restrictI f (n + 1) s (.ref i c) =
      restrictI f n s ((if b then hi else lo).negate (.ref i c)) := by
  rw [restrictI, h]
  simp only [hf]
  cases b <;> rfl

theorem restrictI_bool_none (f : νb → Option Bool) (n : Nat) (s : IState νr νb α) (i : Nat) (c : Bool)
    (v : νb) (hi lo : Id) (h : s.nodes[i]? = some (.bool v hi lo)) (hf : f v = none) :
    restrictI f (n + 1) s (.ref i c) =
      createNodeI (restrictI f n (restrictI f n s (lo.negate (.ref i c))).1 (hi.negate (.ref i c))).1
        (.bool v (restrictI f n (restrictI f n s (lo.negate (.ref i c))).1 (hi.negate (.ref i c))).2
          (restrictI f n s (lo.negate (.ref i c))).2) := by
  rw [restrictI, h]
  simp only [hf]

/-- the induction hypothesis of `restrictI_spec`, as a predicate on the fuel -/
def RestrictIH (f : νb → Option Bool) (n : Nat) : Prop :=
  ∀ (s : IState νr νb α) (x : Id), s.Inv → Id.Valid s x → (den s x).size ≤ n →
    Post s (restrictI f n s x) ((den s x).restrict f)

theorem restrict_rng_case (f : νb → Option Bool) (n : Nat)
    (ih : RestrictIH (νr := νr) (νb := νb) (α := α) f n) {s : IState νr νb α} (hs : s.Inv)
    (xi : Id) (v : νr) (es : List (Ivl α × Id))
    (ux : den s xi = .rng v (Edges.ofList (denE s (negE xi es))))
    (cv : ∀ e ∈ es, Id.Valid s e.2) (hsz : (den s xi).size ≤ n + 1) :
    Post s (createNodeI (mapEdgesI (restrictI f n) xi s es).1
        (.rng v (coalesceI (mapEdgesI (restrictI f n) xi s es).2))) ((den s xi).restrict f) := by
  have hspec := mapEdgesI_spec (restrictI f n) (fun c => c.restrict f)
    (fun t => t.size ≤ n) xi s
    (fun s' c _ hs' hc hq => ih s' c hs' hc hq)
    es s (IState.Le.refl s) hs
    (by
      intro e he
      refine ⟨cv e he, ?_⟩
      have : (den s (e.2.negate xi)).size < (den s xi).size := by
        rw [ux]
        apply Tree.size_rng_child'' v _ (e.1, den s (e.2.negate xi))
        rw [Edges.toList_ofList]
        exact mem_denE_negE s xi es e he
      show (den s (e.2.negate xi)).size ≤ n
      omega)
  generalize mapEdgesI (restrictI f n) xi s es = r at hspec
  obtain ⟨ri, rle, rv, rd⟩ := hspec
  obtain ⟨cd, cvv⟩ := coalesceI_den ri.wf r.2 rv
  obtain ⟨qi, qle, qv, qd⟩ := createNodeI_spec ri (.rng v (coalesceI r.2)) (by
    intro c hc
    simp only [INode.children, List.mem_map] at hc
    obtain ⟨e, he, rfl⟩ := hc
    exact cvv e he)
  refine ⟨qi, rle.trans qle, qv, ?_⟩
  rw [qd]
  simp only [createNodeT]
  rw [cd, rd, ux]
  simp only [Tree.restrict, Edges.restrictE_eq_map, Edges.toList_ofList]

theorem restrict_bool_case (f : νb → Option Bool) (n : Nat)
    (ih : RestrictIH (νr := νr) (νb := νb) (α := α) f n) {s : IState νr νb α} (hs : s.Inv)
    (v : νb) (a b : Id) (va : Id.Valid s a) (vb : Id.Valid s b)
    (sa : (den s a).size ≤ n) (sb : (den s b).size ≤ n) :
    Post s (createNodeI (restrictI f n (restrictI f n s b).1 a).1
        (.bool v (restrictI f n (restrictI f n s b).1 a).2 (restrictI f n s b).2))
      (createNodeB v ((den s a).restrict f) ((den s b).restrict f)) := by
  have h1 := ih s b hs vb sb
  generalize restrictI f n s b = r1 at h1 ⊢
  obtain ⟨i1, l1, v1, d1⟩ := h1
  have h2 := ih r1.1 a i1 (va.mono l1) (by rw [den_mono hs.wf l1 va]; exact sa)
  rw [den_mono hs.wf l1 va] at h2
  generalize restrictI f n r1.1 a = r2 at h2 ⊢
  obtain ⟨i2, l2, v2, d2⟩ := h2
  have d1' : den r2.1 r1.2 = (den s b).restrict f := by rw [den_mono i1.wf l2 v1, d1]
  obtain ⟨qi, qle, qv, qd⟩ := createNodeI_spec i2 (.bool v r2.2 r1.2) (by
    intro c hc
    simp only [INode.children, List.mem_cons, List.not_mem_nil, or_false] at hc
    rcases hc with rfl | rfl
    · exact v2
    · exact v1.mono l2)
  refine ⟨qi, (l1.trans l2).trans qle, qv, ?_⟩
  rw [qd]
  simp only [createNodeT, d1', d2]

/-- **`restrictI` on ids is `Tree.restrict` on denotations**, whatever the arena contains -/
theorem restrictI_spec (f : νb → Option Bool) :
    ∀ (n : Nat), RestrictIH (νr := νr) (νb := νb) (α := α) f n := by
  intro n
  induction n with
  | zero => intro s x _ _ h; have := Tree.size_pos'' (den s x); omega
  | succ n ih =>
    intro s x hs vx hsz
    cases x with
    | tt =>
      rw [restrictI_tt, den_tt]
      exact ⟨hs, IState.Le.refl s, trivial, by simp [Tree.restrict]⟩
    | ff =>
      rw [restrictI_ff, den_ff]
      exact ⟨hs, IState.Le.refl s, trivial, by simp [Tree.restrict]⟩
    | ref i c =>
      have hi : i < s.nodes.length := vx
      have hn : s.nodes[i]? = some s.nodes[i] := List.getElem?_eq_getElem hi
      have ux := den_ref_neg hs.wf c hn
      have cv := fun ch hch => ((WF.child_valid hs.wf hn).2 ch hch).1
      generalize s.nodes[i] = nd at hn ux cv
      cases nd with
      | rng v es =>
        rw [restrictI_rng f n s i c v es hn]
        simp only [denNodeNeg] at ux
        exact restrict_rng_case f n ih hs (.ref i c) v es ux
          (fun e he => cv e.2 (by simp only [INode.children, List.mem_map]; exact ⟨e, he, rfl⟩)) hsz
      | bool v hi' lo' =>
        simp only [denNodeNeg] at ux
        have vh : Id.Valid s (hi'.negate (.ref i c)) :=
          (Id.valid_negate s _ _).mpr (cv hi' (by simp [INode.children]))
        have vl : Id.Valid s (lo'.negate (.ref i c)) :=
          (Id.valid_negate s _ _).mpr (cv lo' (by simp [INode.children]))
        have sx : (den s (hi'.negate (.ref i c))).size ≤ n ∧ (den s (lo'.negate (.ref i c))).size ≤ n := by
          rw [ux] at hsz; simp only [Tree.size] at hsz; omega
        cases hf : f v with
        | some b =>
          rw [restrictI_bool_some f n s i c v hi' lo' b hn hf, ux]
          cases b
          · have := ih s _ hs vl sx.2
            simpa [Tree.restrict, hf] using this
          · have := ih s _ hs vh sx.1
            simpa [Tree.restrict, hf] using this
        | none =>
          rw [restrictI_bool_none f n s i c v hi' lo' hn hf, ux]
          have := restrict_bool_case f n ih hs v _ _ vh vl sx.1 sx.2
          simpa [Tree.restrict, hf] using this

/-- **refinement of `restrict`**: on any state satisfying the invariant — whatever was interned,
    memoised or restricted (with whatever predicates) before — `restrictI f` keeps the invariant,
    only grows the arena, returns a valid id, and that id denotes `Tree.restrict f` of the
    operand's denotation. -/
theorem restrictI_refines (f : νb → Option Bool) (n : Nat) (s : IState νr νb α) (x : Id) (hs : s.Inv)
    (vx : Id.Valid s x) (hn : (den s x).size ≤ n) :
    (restrictI f n s x).1.Inv ∧ s.Le (restrictI f n s x).1 ∧
      Id.Valid (restrictI f n s x).1 (restrictI f n s x).2 ∧
      den (restrictI f n s x).1 (restrictI f n s x).2 = (den s x).restrict f :=
  restrictI_spec f n s x hs vx hn

/-! ### `restrictI` never touches the `and` memo table -/

theorem intern_cache (s : IState νr νb α) (n : INode νr νb α) : (intern s n).1.cache = s.cache := by
  unfold intern; split <;> rfl

theorem createNodeI_cache (s : IState νr νb α) (n : INode νr νb α) : (createNodeI s n).1.cache = s.cache := by
  cases hch : n.children with
  | nil => rw [createNodeI_nil s n hch]
  | cons first rest =>
    rw [createNodeI_cons s n first rest hch]
    split
    · rfl
    · exact intern_cache _ _

theorem mapEdgesI_cache (g : IState νr νb α → Id → IState νr νb α × Id) (parent : Id)
    (hg : ∀ s c, (g s c).1.cache = s.cache) : ∀ (es : List (Ivl α × Id)) (s : IState νr νb α),
    (mapEdgesI g parent s es).1.cache = s.cache := by
  intro es
  induction es with
  | nil => intro s; rfl
  | cons e rest ih =>
    intro s
    obtain ⟨iv, c⟩ := e
    simp only [mapEdgesI]
    rw [ih, hg]

theorem restrictI_cache (f : νb → Option Bool) : ∀ (n : Nat) (s : IState νr νb α) (x : Id),
    (restrictI f n s x).1.cache = s.cache := by
  intro n
  induction n with
  | zero => intro s x; cases x <;> rfl
  | succ n ih =>
    intro s x
    cases x with
    | tt => rfl
    | ff => rfl
    | ref i c =>
      cases hn : s.nodes[i]? with
      | none => rw [restrictI, hn]
      | some nd =>
        cases nd with
        | rng v es =>
          rw [restrictI_rng f n s i c v es hn, createNodeI_cache, mapEdgesI_cache _ _ ih]
        | bool v hi lo =>
          cases hf : f v with
          | some b => rw [restrictI_bool_some f n s i c v hi lo b hn hf, ih]
          | none => rw [restrictI_bool_none f n s i c v hi lo hn hf, createNodeI_cache, ih, ih]

/-- history independence of `restrict` -/
theorem restrictI_history_independent (f : νb → Option Bool) (n₁ n₂ : Nat) (s₁ s₂ : IState νr νb α)
    (x₁ x₂ : Id) (h₁ : s₁.Inv) (h₂ : s₂.Inv) (vx₁ : Id.Valid s₁ x₁) (vx₂ : Id.Valid s₂ x₂)
    (hx : den s₁ x₁ = den s₂ x₂) (hn₁ : (den s₁ x₁).size ≤ n₁) (hn₂ : (den s₂ x₂).size ≤ n₂) :
    den (restrictI f n₁ s₁ x₁).1 (restrictI f n₁ s₁ x₁).2 =
      den (restrictI f n₂ s₂ x₂).1 (restrictI f n₂ s₂ x₂).2 := by
  rw [(restrictI_refines f n₁ s₁ x₁ h₁ vx₁ hn₁).2.2.2, (restrictI_refines f n₂ s₂ x₂ h₂ vx₂ hn₂).2.2.2, hx]

/-- in any later state of the same arena the same call returns the *same id* -/
theorem restrictI_same_id (f : νb → Option Bool) (n m : Nat) (s s' : IState νr νb α) (x : Id)
    (hs : s.Inv) (hs' : s'.Inv) (vx : Id.Valid s x) (hle : (restrictI f n s x).1.Le s')
    (hn : (den s x).size ≤ n) (hm : (den s x).size ≤ m) :
    (restrictI f m s' x).2 = (restrictI f n s x).2 := by
  obtain ⟨i1, l1, v1, d1⟩ := restrictI_refines f n s x hs vx hn
  have hle' : s.Le s' := l1.trans hle
  have ex : den s' x = den s x := den_mono hs.wf hle' vx
  obtain ⟨i2, l2, v2, d2⟩ := restrictI_refines f m s' x hs' (vx.mono hle') (by rw [ex]; exact hm)
  apply den_inj i2.wf v2 ((v1.mono hle).mono l2)
  rw [d2, ex, den_mono i1.wf (hle.trans l2) v1, d1]

end Restrict

/-! ## negation and `is_disjoint`: read-only operations -/
section ReadOnly
variable {νr νb α : Type}
variable [LT α] [DecidableLT α] [DecidableEq α]
variable [LT νr] [DecidableLT νr] [DecidableEq νr] [LT νb] [DecidableLT νb] [DecidableEq νb]

/-- **refinement of negation**: no state change, the result is valid and denotes `Tree.not`
    (`den_not`, `Id.valid_not` of InternerRefine.lean, packaged like the other operations) -/
theorem notI_refines (s : IState νr νb α) (x : Id) (hs : s.Inv) (vx : Id.Valid s x) :
    (notI s x).1 = s ∧ (notI s x).1.Inv ∧ s.Le (notI s x).1 ∧ Id.Valid (notI s x).1 (notI s x).2 ∧
      den (notI s x).1 (notI s x).2 = (den s x).not :=
  ⟨rfl, hs, IState.Le.refl s, (Id.valid_not s x).mpr vx, den_not s x⟩

/-- the node-level part of `isDisjointI` (the inner `match`) -/
def disjNodeI (n : Nat) (s : IState νr νb α) (xi yi : Id) : INode νr νb α → INode νr νb α → Bool
  | .rng vx ex, .rng vy ey =>
    if vx < vy then ex.all (fun e => isDisjointI n s (e.2.negate xi) yi)
    else if vy < vx then ey.all (fun e => isDisjointI n s (e.2.negate yi) xi)
    else disjRangesI (isDisjointI n s) xi yi ex ey
  | .rng _ ex, .bool _ _ _ => ex.all (fun e => isDisjointI n s (e.2.negate xi) yi)
  | .bool _ _ _, .rng _ ey => ey.all (fun e => isDisjointI n s (e.2.negate yi) xi)
  | .bool vx hx lx, .bool vy hy ly =>
    if vx < vy then isDisjointI n s (hx.negate xi) yi && isDisjointI n s (lx.negate xi) yi
    else if vy < vx then isDisjointI n s (hy.negate yi) xi && isDisjointI n s (ly.negate yi) xi
    else isDisjointI n s (hx.negate xi) (hy.negate yi) && isDisjointI n s (lx.negate xi) (ly.negate yi)

theorem isDisjointI_unfold (n : Nat) (s : IState νr νb α) (xi yi : Id) (x y : INode νr νb α)
    (h1 : ¬ (xi = .ff ∨ yi = .ff)) (h2 : ¬ (xi = .tt ∨ yi = .tt)) (h3 : xi ≠ yi) (h4 : xi.not ≠ yi)
    (hx : s.node? xi = some x) (hy : s.node? yi = some y) :
    isDisjointI (n + 1) s xi yi = disjNodeI n s xi yi x y := by
  rw [isDisjointI, if_neg h1, if_neg h2, if_neg h3, if_neg h4, hx, hy]
  cases x <;> cases y <;> rfl

theorem isDisjointF_succ' (n : Nat) (x y : Tree νr νb α) : isDisjointF (n + 1) x y =
    if x = .leaf false ∨ y = .leaf false then true
    else if x = .leaf true ∨ y = .leaf true then false
    else if x = y then false
    else if x.not = y then true
    else
      match x, y with
      | .rng vx ex, .rng vy ey =>
        if vx < vy then ex.toList.all (fun e => isDisjointF n e.2 y)
        else if vy < vx then ey.toList.all (fun e => isDisjointF n e.2 x)
        else disjRanges (isDisjointF n) ex.toList ey.toList
      | .rng _ ex, .bool _ _ _ => ex.toList.all (fun e => isDisjointF n e.2 y)
      | .bool _ _ _, .rng _ ey => ey.toList.all (fun e => isDisjointF n e.2 x)
      | .bool vx hx lx, .bool vy hy ly =>
        if vx < vy then isDisjointF n hx y && isDisjointF n lx y
        else if vy < vx then isDisjointF n hy x && isDisjointF n ly x
        else isDisjointF n hx hy && isDisjointF n lx ly
      | _, _ => false := by
  conv => lhs; unfold isDisjointF
  rfl

theorem isDisjointF_rng_rng (n : Nat) (vx vy : νr) (ex ey : Edges νr νb α)
    (C3 : Tree.rng vx ex ≠ Tree.rng vy ey) (C4 : (Tree.rng vx ex).not ≠ Tree.rng vy ey) :
    isDisjointF (n + 1) (.rng vx ex) (.rng vy ey) =
      if vx < vy then ex.toList.all (fun e => isDisjointF n e.2 (.rng vy ey))
      else if vy < vx then ey.toList.all (fun e => isDisjointF n e.2 (.rng vx ex))
      else disjRanges (isDisjointF n) ex.toList ey.toList := by
  have c1 : ¬ (Tree.rng vx ex = .leaf false ∨ Tree.rng vy ey = .leaf false) := by simp
  have c2 : ¬ (Tree.rng vx ex = .leaf true ∨ Tree.rng vy ey = .leaf true) := by simp
  rw [isDisjointF]
  simp only [c1, c2, C3, C4, if_false]

theorem isDisjointF_rng_bool (n : Nat) (vx : νr) (vy : νb) (ex : Edges νr νb α) (hy ly : Tree νr νb α) :
    isDisjointF (n + 1) (.rng vx ex) (.bool vy hy ly) =
      ex.toList.all (fun e => isDisjointF n e.2 (.bool vy hy ly)) := by
  rw [isDisjointF]
  simp [Tree.not]

theorem isDisjointF_bool_rng (n : Nat) (vx : νb) (vy : νr) (hx lx : Tree νr νb α) (ey : Edges νr νb α) :
    isDisjointF (n + 1) (.bool vx hx lx) (.rng vy ey) =
      ey.toList.all (fun e => isDisjointF n e.2 (.bool vx hx lx)) := by
  rw [isDisjointF]
  simp [Tree.not]

theorem isDisjointF_bool_bool (n : Nat) (vx vy : νb) (hx lx hy ly : Tree νr νb α)
    (C3 : Tree.bool vx hx lx ≠ Tree.bool vy hy ly) (C4 : (Tree.bool vx hx lx).not ≠ Tree.bool vy hy ly) :
    isDisjointF (n + 1) (.bool vx hx lx) (.bool vy hy ly) =
      if vx < vy then isDisjointF n hx (.bool vy hy ly) && isDisjointF n lx (.bool vy hy ly)
      else if vy < vx then isDisjointF n hy (.bool vx hx lx) && isDisjointF n ly (.bool vx hx lx)
      else isDisjointF n hx hy && isDisjointF n lx ly := by
  have c1 : ¬ (Tree.bool vx hx lx = .leaf false ∨ Tree.bool vy hy ly = .leaf false) := by simp
  have c2 : ¬ (Tree.bool vx hx lx = .leaf true ∨ Tree.bool vy hy ly = .leaf true) := by simp
  rw [isDisjointF]
  simp only [c1, c2, C3, C4, if_false]

/-- the induction hypothesis, for a fixed state -/
def DisjIH (s : IState νr νb α) (n : Nat) : Prop :=
  ∀ (x y : Id), Id.Valid s x → Id.Valid s y → isDisjointI n s x y = isDisjointF n (den s x) (den s y)

theorem all_case {s : IState νr νb α} (n : Nat) (ih : DisjIH s n) (xi yi : Id)
    (vy : Id.Valid s yi) : ∀ (ex : List (Ivl α × Id)), (∀ e ∈ ex, Id.Valid s e.2) →
    ex.all (fun e => isDisjointI n s (e.2.negate xi) yi) =
      (denE s (negE xi ex)).all (fun e => isDisjointF n e.2 (den s yi)) := by
  intro ex
  induction ex with
  | nil => intro _; rfl
  | cons e rest ihl =>
    intro hv
    simp only [List.all_cons, denE, negE, List.map_cons] at ihl ⊢
    rw [ihl (fun e' he' => hv e' (by simp [he'])),
      ih _ _ ((Id.valid_negate s _ _).mpr (hv e (by simp))) vy]

theorem disjRowI_spec {s : IState νr νb α} (n : Nat) (ih : DisjIH s n) (lp rp : Id) (l : Ivl α × Id)
    (vl : Id.Valid s l.2) : ∀ (rs : List (Ivl α × Id)), (∀ r ∈ rs, Id.Valid s r.2) →
    disjRowI (isDisjointI n s) lp rp l rs =
      disjRow (isDisjointF n) (l.1, den s (l.2.negate lp)) (denE s (negE rp rs)) := by
  intro rs
  induction rs with
  | nil => intro _; rfl
  | cons r rest ihl =>
    intro hv
    simp only [disjRowI, disjRow, denE, negE, List.map_cons] at ihl ⊢
    rw [ihl (fun e' he' => hv e' (by simp [he'])),
      ih _ _ ((Id.valid_negate s _ _).mpr vl) ((Id.valid_negate s _ _).mpr (hv r (by simp)))]

theorem disjRangesI_spec {s : IState νr νb α} (n : Nat) (ih : DisjIH s n) (lp rp : Id)
    (rs : List (Ivl α × Id)) (hr : ∀ r ∈ rs, Id.Valid s r.2) :
    ∀ (ls : List (Ivl α × Id)), (∀ l ∈ ls, Id.Valid s l.2) →
    disjRangesI (isDisjointI n s) lp rp ls rs =
      disjRanges (isDisjointF n) (denE s (negE lp ls)) (denE s (negE rp rs)) := by
  intro ls
  induction ls with
  | nil => intro _; rfl
  | cons l rest ihl =>
    intro hv
    simp only [disjRangesI, disjRanges, denE, negE, List.map_cons] at ihl ⊢
    rw [ihl (fun e' he' => hv e' (by simp [he'])), disjRowI_spec n ih lp rp l (hv l (by simp)) rs hr]
    rfl

theorem disjNodeI_spec {s : IState νr νb α} (n : Nat) (ih : DisjIH s n) (xi yi : Id)
    (vx : Id.Valid s xi) (vy : Id.Valid s yi) (nx ny : INode νr νb α)
    (ux : den s xi = denNodeNeg s xi nx) (uy : den s yi = denNodeNeg s yi ny)
    (cvx : ∀ c ∈ nx.children, Id.Valid s c) (cvy : ∀ c ∈ ny.children, Id.Valid s c)
    (C3 : den s xi ≠ den s yi) (C4 : (den s xi).not ≠ den s yi) :
    disjNodeI n s xi yi nx ny = isDisjointF (n + 1) (den s xi) (den s yi) := by
  cases nx with
  | rng vx' ex =>
    have cvx' : ∀ e ∈ ex, Id.Valid s e.2 := fun e he =>
      cvx e.2 (by simp only [INode.children, List.mem_map]; exact ⟨e, he, rfl⟩)
    simp only [denNodeNeg] at ux
    cases ny with
    | rng vy' ey =>
      have cvy' : ∀ e ∈ ey, Id.Valid s e.2 := fun e he =>
        cvy e.2 (by simp only [INode.children, List.mem_map]; exact ⟨e, he, rfl⟩)
      simp only [denNodeNeg] at uy
      have key : isDisjointF (n + 1) (den s xi) (den s yi) =
          if vx' < vy' then (denE s (negE xi ex)).all (fun e => isDisjointF n e.2 (den s yi))
          else if vy' < vx' then (denE s (negE yi ey)).all (fun e => isDisjointF n e.2 (den s xi))
          else disjRanges (isDisjointF n) (denE s (negE xi ex)) (denE s (negE yi ey)) := by
        rw [ux, uy] at C3 C4
        rw [ux, uy, isDisjointF_rng_rng n _ _ _ _ C3 C4, Edges.toList_ofList, Edges.toList_ofList]
      rw [key]
      simp only [disjNodeI]
      rw [all_case n ih xi yi vy ex cvx', all_case n ih yi xi vx ey cvy',
        disjRangesI_spec n ih xi yi ey cvy' ex cvx']
    | bool vy' hy ly =>
      simp only [denNodeNeg] at uy
      have key : isDisjointF (n + 1) (den s xi) (den s yi) =
          (denE s (negE xi ex)).all (fun e => isDisjointF n e.2 (den s yi)) := by
        rw [ux, uy, isDisjointF_rng_bool, Edges.toList_ofList]
      rw [key]
      simp only [disjNodeI]
      rw [all_case n ih xi yi vy ex cvx']
  | bool vx' hx lx =>
    simp only [denNodeNeg] at ux
    have vhx : Id.Valid s (hx.negate xi) := (Id.valid_negate s _ _).mpr (cvx hx (by simp [INode.children]))
    have vlx : Id.Valid s (lx.negate xi) := (Id.valid_negate s _ _).mpr (cvx lx (by simp [INode.children]))
    cases ny with
    | rng vy' ey =>
      have cvy' : ∀ e ∈ ey, Id.Valid s e.2 := fun e he =>
        cvy e.2 (by simp only [INode.children, List.mem_map]; exact ⟨e, he, rfl⟩)
      simp only [denNodeNeg] at uy
      have key : isDisjointF (n + 1) (den s xi) (den s yi) =
          (denE s (negE yi ey)).all (fun e => isDisjointF n e.2 (den s xi)) := by
        rw [ux, uy, isDisjointF_bool_rng, Edges.toList_ofList]
      rw [key]
      simp only [disjNodeI]
      rw [all_case n ih yi xi vx ey cvy']
    | bool vy' hy ly =>
      simp only [denNodeNeg] at uy
      have vhy : Id.Valid s (hy.negate yi) := (Id.valid_negate s _ _).mpr (cvy hy (by simp [INode.children]))
      have vly : Id.Valid s (ly.negate yi) := (Id.valid_negate s _ _).mpr (cvy ly (by simp [INode.children]))
      have key : isDisjointF (n + 1) (den s xi) (den s yi) =
          if vx' < vy' then isDisjointF n (den s (hx.negate xi)) (den s yi) && isDisjointF n (den s (lx.negate xi)) (den s yi)
          else if vy' < vx' then isDisjointF n (den s (hy.negate yi)) (den s xi) && isDisjointF n (den s (ly.negate yi)) (den s xi)
          else isDisjointF n (den s (hx.negate xi)) (den s (hy.negate yi)) &&
            isDisjointF n (den s (lx.negate xi)) (den s (ly.negate yi)) := by
        have C3' := C3
        have C4' := C4
        rw [ux, uy] at C3' C4'
        have := isDisjointF_bool_bool n _ _ _ _ _ _ C3' C4'
        rw [← ux, ← uy] at this
        exact this
      rw [key]
      simp only [disjNodeI]
      rw [ih _ _ vhx vy, ih _ _ vlx vy, ih _ _ vhy vx, ih _ _ vly vx, ih _ _ vhx vhy, ih _ _ vlx vly]

/-- **`isDisjointI` on ids is `isDisjointF` on denotations, at every fuel** (both recursions
    take the same steps, the id comparisons being exact by canonicity) -/
theorem isDisjointI_spec {s : IState νr νb α} (hs : s.WF) : ∀ (n : Nat), DisjIH s n := by
  intro n
  induction n with
  | zero => intro x y _ _; rfl
  | succ n ih =>
    intro x y vx vy
    have eff : ∀ {z : Id}, Id.Valid s z → (z = .ff ↔ den s z = .leaf false) := fun {z} vz =>
      ⟨fun h => by rw [h, den_ff], fun h => den_inj hs vz (b := .ff) trivial (by rw [den_ff]; exact h)⟩
    have ett : ∀ {z : Id}, Id.Valid s z → (z = .tt ↔ den s z = .leaf true) := fun {z} vz =>
      ⟨fun h => by rw [h, den_tt], fun h => den_inj hs vz (b := .tt) trivial (by rw [den_tt]; exact h)⟩
    by_cases c1 : x = .ff ∨ y = .ff
    · have C1 : den s x = .leaf false ∨ den s y = .leaf false := by
        rw [← eff vx, ← eff vy]; exact c1
      rw [isDisjointI, if_pos c1, isDisjointF_succ', if_pos C1]
    have C1 : ¬ (den s x = .leaf false ∨ den s y = .leaf false) := by
      rw [← eff vx, ← eff vy]; exact c1
    by_cases c2 : x = .tt ∨ y = .tt
    · have C2 : den s x = .leaf true ∨ den s y = .leaf true := by
        rw [← ett vx, ← ett vy]; exact c2
      rw [isDisjointI, if_neg c1, if_pos c2, isDisjointF_succ', if_neg C1, if_pos C2]
    have C2 : ¬ (den s x = .leaf true ∨ den s y = .leaf true) := by
      rw [← ett vx, ← ett vy]; exact c2
    by_cases c3 : x = y
    · have C3 : den s x = den s y := by rw [c3]
      rw [isDisjointI, if_neg c1, if_neg c2, if_pos c3, isDisjointF_succ', if_neg C1, if_neg C2, if_pos C3]
    have C3 : ¬ (den s x = den s y) := fun h => c3 (den_inj hs vx vy h)
    by_cases c4 : x.not = y
    · have C4 : (den s x).not = den s y := by rw [← c4, den_not]
      rw [isDisjointI, if_neg c1, if_neg c2, if_neg c3, if_pos c4, isDisjointF_succ', if_neg C1, if_neg C2,
        if_neg C3, if_pos C4]
    have C4 : ¬ ((den s x).not = den s y) := fun h =>
      c4 (den_inj hs ((Id.valid_not s x).mpr vx) vy (by rw [den_not]; exact h))
    cases x with
    | tt => exact absurd (Or.inl rfl) c2
    | ff => exact absurd (Or.inl rfl) c1
    | ref i cx =>
      cases y with
      | tt => exact absurd (Or.inr rfl) c2
      | ff => exact absurd (Or.inr rfl) c1
      | ref j cy =>
        have hi : i < s.nodes.length := vx
        have hj : j < s.nodes.length := vy
        have hnx : s.nodes[i]? = some s.nodes[i] := List.getElem?_eq_getElem hi
        have hny : s.nodes[j]? = some s.nodes[j] := List.getElem?_eq_getElem hj
        rw [isDisjointI_unfold n s _ _ s.nodes[i] s.nodes[j] c1 c2 c3 c4 hnx hny]
        exact disjNodeI_spec n ih _ _ vx vy _ _ (den_ref_neg hs cx hnx) (den_ref_neg hs cy hny)
          (fun c hc => ((WF.child_valid hs hnx).2 c hc).1)
          (fun c hc => ((WF.child_valid hs hny).2 c hc).1) C3 C4

/-- **refinement of `is_disjoint`** (read-only: there is no state to return) -/
theorem isDisjointI_refines (n : Nat) (s : IState νr νb α) (x y : Id) (hs : s.Inv)
    (vx : Id.Valid s x) (vy : Id.Valid s y) :
    isDisjointI n s x y = isDisjointF n (den s x) (den s y) :=
  isDisjointI_spec hs.wf n x y vx vy

theorem isDisjointI_refines_tree (s : IState νr νb α) (x y : Id) (hs : s.Inv)
    (vx : Id.Valid s x) (vy : Id.Valid s y) :
    isDisjointI ((den s x).size + (den s y).size + 1) s x y = Tree.isDisjoint (den s x) (den s y) :=
  isDisjointI_spec hs.wf _ x y vx vy

/-- the answer of `is_disjoint` does not depend on the history -/
theorem isDisjointI_history_independent (n : Nat) (s₁ s₂ : IState νr νb α) (x₁ y₁ x₂ y₂ : Id)
    (h₁ : s₁.Inv) (h₂ : s₂.Inv)
    (vx₁ : Id.Valid s₁ x₁) (vy₁ : Id.Valid s₁ y₁) (vx₂ : Id.Valid s₂ x₂) (vy₂ : Id.Valid s₂ y₂)
    (hx : den s₁ x₁ = den s₂ x₂) (hy : den s₁ y₁ = den s₂ y₂) :
    isDisjointI n s₁ x₁ y₁ = isDisjointI n s₂ x₂ y₂ := by
  rw [isDisjointI_refines n s₁ x₁ y₁ h₁ vx₁ vy₁, isDisjointI_refines n s₂ x₂ y₂ h₂ vx₂ vy₂, hx, hy]

end ReadOnly

/-! ## the seeded bug: a `restrict` memo keyed by the id alone does NOT refine `Tree.restrict` -/
section Bug
variable {νr νb α : Type}
variable [LT α] [DecidableLT α] [DecidableEq α]
variable [LT νr] [DecidableLT νr] [DecidableEq νr] [LT νb] [DecidableLT νb] [DecidableEq νb]

/-- states of the buggy implementation that a process can actually reach: start from any interner
    satisfying the invariant with an EMPTY restrict-memo, then call `restrictMemoI` with any
    predicates on valid ids with enough fuel -/
inductive MReach : MState νr νb α → Prop where
  | init (s : IState νr νb α) : s.Inv → MReach ⟨s, []⟩
  | step (m : MState νr νb α) (f : νb → Option Bool) (n : Nat) (x : Id) :
      MReach m → Id.Valid m.st x → (den m.st x).size ≤ n → MReach (restrictMemoI f n m x).1

/-! ### positive side: the memo is sound as long as ONE predicate is used

The failure of `restrictMemoI` is exactly the sharing of entries between different predicates:
if every entry of the table was made with the predicate `f` (`MemoOK f`; in particular if the
table is created empty for each top-level call), `restrictMemoI f` refines `Tree.restrict f`. -/

/-- interner invariant + every memo entry is what `restrict f` would compute -/
def MemoOK (f : νb → Option Bool) (m : MState νr νb α) : Prop :=
  m.st.Inv ∧ ∀ e ∈ m.memo, Id.Valid m.st e.1 ∧ Id.Valid m.st e.2 ∧
    den m.st e.2 = (den m.st e.1).restrict f

def PostM (f : νb → Option Bool) (m : MState νr νb α) (r : MState νr νb α × Id) (t : Tree νr νb α) : Prop :=
  MemoOK f r.1 ∧ m.st.Le r.1.st ∧ Id.Valid r.1.st r.2 ∧ den r.1.st r.2 = t

def PostME (f : νb → Option Bool) (m : MState νr νb α) (r : MState νr νb α × List (Ivl α × Id))
    (es : EdgeL νr νb α) : Prop :=
  MemoOK f r.1 ∧ m.st.Le r.1.st ∧ (∀ e ∈ r.2, Id.Valid r.1.st e.2) ∧ denE r.1.st r.2 = es

theorem MemoOK.fresh (f : νb → Option Bool) {s : IState νr νb α} (hs : s.Inv) : MemoOK f ⟨s, []⟩ :=
  ⟨hs, by intro e he; simp at he⟩

theorem MemoOK.grow {f : νb → Option Bool} {m : MState νr νb α} (hm : MemoOK f m) {t : IState νr νb α}
    (ht : t.Inv) (hle : m.st.Le t) : MemoOK f { m with st := t } := by
  refine ⟨ht, ?_⟩
  intro e he
  obtain ⟨h1, h2, h3⟩ := hm.2 e he
  refine ⟨h1.mono hle, h2.mono hle, ?_⟩
  show den t e.2 = (den t e.1).restrict f
  rw [den_mono hm.1.wf hle h1, den_mono hm.1.wf hle h2, h3]

theorem MemoOK.add {f : νb → Option Bool} {m : MState νr νb α} (hm : MemoOK f m) {k r : Id}
    (vk : Id.Valid m.st k) (vr : Id.Valid m.st r) (hd : den m.st r = (den m.st k).restrict f) :
    MemoOK f { m with memo := (k, r) :: m.memo } := by
  refine ⟨hm.1, ?_⟩
  intro e he
  simp only [List.mem_cons] at he
  rcases he with rfl | he
  · exact ⟨vk, vr, hd⟩
  · exact hm.2 e he

theorem mapEdgesM_spec (f : νb → Option Bool) (g : MState νr νb α → Id → MState νr νb α × Id)
    (n : Nat) (parent : Id)
    (hg : ∀ m c, MemoOK f m → Id.Valid m.st c → (den m.st c).size ≤ n →
      PostM f m (g m c) ((den m.st c).restrict f)) :
    ∀ (es : List (Ivl α × Id)) (m : MState νr νb α), MemoOK f m →
      (∀ e ∈ es, Id.Valid m.st e.2 ∧ (den m.st (e.2.negate parent)).size ≤ n) →
      PostME f m (mapEdgesM g parent m es)
        ((denE m.st (negE parent es)).map fun e => (e.1, e.2.restrict f)) := by
  intro es
  induction es with
  | nil => intro m hm _; exact ⟨hm, IState.Le.refl _, by simp [mapEdgesM], rfl⟩
  | cons e rest ih =>
    intro m hm hv
    obtain ⟨iv, c⟩ := e
    have hc := hv (iv, c) (by simp)
    have h1 := hg m (c.negate parent) hm ((Id.valid_negate m.st c parent).mpr hc.1) hc.2
    simp only [mapEdgesM]
    rcases hr1 : g m (c.negate parent) with ⟨m1, c'⟩
    rw [hr1] at h1
    obtain ⟨i1, l1, v1, d1⟩ := h1
    simp only at i1 l1 v1 d1
    have hrest : ∀ e ∈ rest, Id.Valid m1.st e.2 ∧ (den m1.st (e.2.negate parent)).size ≤ n := by
      intro e he
      have := hv e (by simp [he])
      refine ⟨this.1.mono l1, ?_⟩
      rw [den_mono hm.1.wf l1 ((Id.valid_negate m.st e.2 parent).mpr this.1)]
      exact this.2
    have h2 := ih m1 i1 hrest
    rcases hr2 : mapEdgesM g parent m1 rest with ⟨m2, rest'⟩
    rw [hr2] at h2
    obtain ⟨i2, l2, v2, d2⟩ := h2
    simp only at i2 l2 v2 d2 ⊢
    refine ⟨i2, l1.trans l2, ?_, ?_⟩
    · intro e he
      simp only [List.mem_cons] at he
      rcases he with h | h
      · subst h; exact v1.mono l2
      · exact v2 e h
    · have hd : denE m1.st (negE parent rest) = denE m.st (negE parent rest) := by
        apply denE_mono hm.1.wf l1
        intro e he
        simp only [negE, List.mem_map] at he
        obtain ⟨e', he', rfl⟩ := he
        exact (Id.valid_negate m.st e'.2 parent).mpr (hv e' (by simp [he'])).1
      simp only [denE, negE, List.map_cons] at d2 hd ⊢
      rw [d2, hd, den_mono i1.1.wf l2 v1, d1]

/-- the computation of `restrictMemoI` on a memo miss, before the entry is added -/
def memoBody (f : νb → Option Bool) (n : Nat) (s : MState νr νb α) (i : Nat) (c : Bool) :
    MState νr νb α × Id :=
  match s.st.nodes[i]? with
  | none => (s, .ff)
  | some (.bool v h l) =>
    match f v with
    | some true => restrictMemoI f n s (h.negate (.ref i c))
    | some false => restrictMemoI f n s (l.negate (.ref i c))
    | none =>
      let r1 := restrictMemoI f n s (l.negate (.ref i c))
      let r2 := restrictMemoI f n r1.1 (h.negate (.ref i c))
      ({ r2.1 with st := (createNodeI r2.1.st (.bool v r2.2 r1.2)).1 },
        (createNodeI r2.1.st (.bool v r2.2 r1.2)).2)
  | some (.rng v es) =>
    let r1 := mapEdgesM (restrictMemoI f n) (.ref i c) s es
    ({ r1.1 with st := (createNodeI r1.1.st (.rng v (coalesceI r1.2))).1 },
      (createNodeI r1.1.st (.rng v (coalesceI r1.2))).2)

theorem restrictMemoI_hit (f : νb → Option Bool) (n : Nat) (s : MState νr νb α) (i : Nat) (c : Bool)
    (e : Id × Id) (h : s.memo.find? (fun e => e.1 == .ref i c) = some e) :
    restrictMemoI f (n + 1) s (.ref i c) = (s, e.2) := by
  rw [restrictMemoI, h]

theorem restrictMemoI_miss (f : νb → Option Bool) (n : Nat) (s : MState νr νb α) (i : Nat) (c : Bool)
    (h : s.memo.find? (fun e => e.1 == .ref i c) = none) :
    restrictMemoI f (n + 1) s (.ref i c) =
      ({ (memoBody f n s i c).1 with memo := (.ref i c, (memoBody f n s i c).2) :: (memoBody f n s i c).1.memo },
        (memoBody f n s i c).2) := by
  rw [restrictMemoI, h]
  unfold memoBody
  cases s.st.nodes[i]? with
  | none => rfl
  | some nd =>
    cases nd with
    | rng v es => rfl
    | bool v hi lo =>
      simp only
      cases f v with
      | none => rfl
      | some b => cases b <;> rfl

def MemoIH (f : νb → Option Bool) (n : Nat) : Prop :=
  ∀ (m : MState νr νb α) (x : Id), MemoOK f m → Id.Valid m.st x → (den m.st x).size ≤ n →
    PostM f m (restrictMemoI f n m x) ((den m.st x).restrict f)

theorem memoBody_spec (f : νb → Option Bool) (n : Nat) (ih : MemoIH (νr := νr) (νb := νb) (α := α) f n)
    (m : MState νr νb α) (i : Nat) (c : Bool) (hm : MemoOK f m) (vx : Id.Valid m.st (.ref i c))
    (hsz : (den m.st (.ref i c)).size ≤ n + 1) :
    PostM f m (memoBody f n m i c) ((den m.st (.ref i c)).restrict f) := by
  have hs := hm.1
  have hi : i < m.st.nodes.length := vx
  have hn : m.st.nodes[i]? = some m.st.nodes[i] := List.getElem?_eq_getElem hi
  have ux := den_ref_neg hs.wf c hn
  have cv := fun ch hch => ((WF.child_valid hs.wf hn).2 ch hch).1
  unfold memoBody
  rw [hn]
  generalize m.st.nodes[i] = nd at hn ux cv
  cases nd with
  | rng v es =>
    simp only [denNodeNeg] at ux ⊢
    have hspec := mapEdgesM_spec f (restrictMemoI f n) n (.ref i c) ih es m hm (by
      intro e he
      refine ⟨cv e.2 (by simp only [INode.children, List.mem_map]; exact ⟨e, he, rfl⟩), ?_⟩
      have : (den m.st (e.2.negate (.ref i c))).size < (den m.st (.ref i c)).size := by
        rw [ux]
        apply Tree.size_rng_child'' v _ (e.1, den m.st (e.2.negate (.ref i c)))
        rw [Edges.toList_ofList]
        exact mem_denE_negE m.st (.ref i c) es e he
      omega)
    generalize mapEdgesM (restrictMemoI f n) (.ref i c) m es = r at hspec
    obtain ⟨ri, rle, rv, rd⟩ := hspec
    obtain ⟨cd, cvv⟩ := coalesceI_den ri.1.wf r.2 rv
    obtain ⟨qi, qle, qv, qd⟩ := createNodeI_spec ri.1 (.rng v (coalesceI r.2)) (by
      intro ch hc
      simp only [INode.children, List.mem_map] at hc
      obtain ⟨e, he, rfl⟩ := hc
      exact cvv e he)
    refine ⟨ri.grow qi qle, rle.trans qle, qv, ?_⟩
    show den (createNodeI r.1.st _).1 _ = _
    rw [qd]
    simp only [createNodeT]
    rw [cd, rd, ux]
    simp only [Tree.restrict, Edges.restrictE_eq_map, Edges.toList_ofList]
  | bool v hi' lo' =>
    simp only [denNodeNeg] at ux ⊢
    have vh : Id.Valid m.st (hi'.negate (.ref i c)) :=
      (Id.valid_negate m.st _ _).mpr (cv hi' (by simp [INode.children]))
    have vl : Id.Valid m.st (lo'.negate (.ref i c)) :=
      (Id.valid_negate m.st _ _).mpr (cv lo' (by simp [INode.children]))
    have sx : (den m.st (hi'.negate (.ref i c))).size ≤ n ∧ (den m.st (lo'.negate (.ref i c))).size ≤ n := by
      rw [ux] at hsz; simp only [Tree.size] at hsz; omega
    rw [ux]
    cases hf : f v with
    | some b =>
      cases b
      · have := ih m _ hm vl sx.2
        simpa [Tree.restrict, hf] using this
      · have := ih m _ hm vh sx.1
        simpa [Tree.restrict, hf] using this
    | none =>
      simp only [Tree.restrict, hf]
      have h1 := ih m _ hm vl sx.2
      generalize restrictMemoI f n m (lo'.negate (.ref i c)) = r1 at h1 ⊢
      obtain ⟨i1, l1, v1, d1⟩ := h1
      have h2 := ih r1.1 _ i1 (vh.mono l1) (by rw [den_mono hs.wf l1 vh]; exact sx.1)
      rw [den_mono hs.wf l1 vh] at h2
      generalize restrictMemoI f n r1.1 (hi'.negate (.ref i c)) = r2 at h2 ⊢
      obtain ⟨i2, l2, v2, d2⟩ := h2
      have d1' : den r2.1.st r1.2 = (den m.st (lo'.negate (.ref i c))).restrict f := by
        rw [den_mono i1.1.wf l2 v1, d1]
      obtain ⟨qi, qle, qv, qd⟩ := createNodeI_spec i2.1 (.bool v r2.2 r1.2) (by
        intro ch hc
        simp only [INode.children, List.mem_cons, List.not_mem_nil, or_false] at hc
        rcases hc with rfl | rfl
        · exact v2
        · exact v1.mono l2)
      refine ⟨i2.grow qi qle, (l1.trans l2).trans qle, qv, ?_⟩
      show den (createNodeI r2.1.st _).1 _ = _
      rw [qd]
      simp only [createNodeT, d1', d2]

/-- with a table all of whose entries were made with `f`, the memoised `restrict f` is right -/
theorem restrictMemoI_spec (f : νb → Option Bool) :
    ∀ (n : Nat), MemoIH (νr := νr) (νb := νb) (α := α) f n := by
  intro n
  induction n with
  | zero => intro m x _ _ h; have := Tree.size_pos'' (den m.st x); omega
  | succ n ih =>
    intro m x hm vx hsz
    cases x with
    | tt =>
      have e : restrictMemoI f (n + 1) m .tt = (m, .tt) := rfl
      rw [e, den_tt]
      exact ⟨hm, IState.Le.refl _, trivial, by simp [Tree.restrict]⟩
    | ff =>
      have e : restrictMemoI f (n + 1) m .ff = (m, .ff) := rfl
      rw [e, den_ff]
      exact ⟨hm, IState.Le.refl _, trivial, by simp [Tree.restrict]⟩
    | ref i c =>
      cases hfind : m.memo.find? (fun e => e.1 == .ref i c) with
      | some e =>
        rw [restrictMemoI_hit f n m i c e hfind]
        have hmem := List.mem_of_find?_eq_some hfind
        have hkey := List.find?_some hfind
        simp only [beq_iff_eq] at hkey
        obtain ⟨_, v2, d⟩ := hm.2 e hmem
        rw [hkey] at d
        exact ⟨hm, IState.Le.refl _, v2, d⟩
      | none =>
        rw [restrictMemoI_miss f n m i c hfind]
        obtain ⟨bi, ble, bv, bd⟩ := memoBody_spec f n ih m i c hm vx hsz
        generalize memoBody f n m i c = r at bi ble bv bd
        refine ⟨bi.add (vx.mono ble) bv ?_, ble, bv, bd⟩
        rw [bd, den_mono hm.1.wf ble vx]

/-- **the repair**: a memo table created EMPTY for each top-level call (so that it only ever holds
    entries for the call's own predicate) refines `Tree.restrict` -/
theorem restrictMemoI_fresh_refines (f : νb → Option Bool) (n : Nat) (s : IState νr νb α) (x : Id)
    (hs : s.Inv) (vx : Id.Valid s x) (hn : (den s x).size ≤ n) :
    (restrictMemoI f n ⟨s, []⟩ x).1.st.Inv ∧ s.Le (restrictMemoI f n ⟨s, []⟩ x).1.st ∧
      Id.Valid (restrictMemoI f n ⟨s, []⟩ x).1.st (restrictMemoI f n ⟨s, []⟩ x).2 ∧
      den (restrictMemoI f n ⟨s, []⟩ x).1.st (restrictMemoI f n ⟨s, []⟩ x).2 = (den s x).restrict f := by
  obtain ⟨h1, h2, h3, h4⟩ := restrictMemoI_spec f n ⟨s, []⟩ x (MemoOK.fresh f hs) vx hn
  exact ⟨h1.1, h2, h3, h4⟩

end Bug

namespace BugWitness

abbrev T := Tree Nat Nat Nat
abbrev S := IState Nat Nat Nat
abbrev M := MState Nat Nat Nat

instance (s : S) (id : Id) : Decidable (Id.Valid s id) := decidable_of_iff _ (Id.valid_iff s id).symm

/-- boolean variable `b0` (think `extra == "a"`) -/
def tC : T := .bool 0 (.leaf true) (.leaf false)
/-- `v1 <= 7 and b0` -/
def tD : T := .rng 1 (.cons ⟨.unb, .incl 7⟩ tC (.cons ⟨.excl 7, .unb⟩ (.leaf false) .nil))

theorem wfC : tC.wf = true := by decide
theorem wfD : tD.wf = true := by decide

def r1 := internTree (IState.empty : S) tC
def r2 := internTree r1.1 tD
/-- the arena: two nodes -/
def s0 : S := r2.1
def xC : Id := r1.2
def xD : Id := r2.2

example : s0.nodes.length = 2 ∧ xC = .ref 0 false ∧ xD = .ref 1 false := by decide

theorem inv1 : r1.1.Inv := (internTree_wf tC _ IState.Inv_empty wfC).1
theorem s0_inv : s0.Inv := (internTree_wf tD _ inv1 wfD).1
theorem vC : Id.Valid s0 xC := by decide
theorem vD : Id.Valid s0 xD := by decide
theorem denC : den s0 xC = tC := by decide
theorem denD : den s0 xD = tD := by decide

/-- `simplify_extras` with the extra active -/
def f₁ : Nat → Option Bool := fun _ => some true
/-- `simplify_extras` with the extra inactive -/
def f₂ : Nat → Option Bool := fun _ => some false
/-- no variable fixed: `restrict` must be the identity -/
def f₀ : Nat → Option Bool := fun _ => none

/-- the process first restricts `b0` with `f₁` … -/
def m1 := restrictMemoI f₁ 3 (⟨s0, []⟩ : M) xC
/-- … correctly (TRUE), and remembers `b0 ↦ TRUE` -/
theorem first_call_ok : den m1.1.st m1.2 = (den s0 xC).restrict f₁ ∧ m1.2 = .tt ∧
    m1.1.memo = [(xC, .tt)] ∧ m1.1.st.nodes = s0.nodes ∧ m1.1.st.cache = s0.cache := by decide

theorem m1_st : m1.1.st = s0 := by
  have h := first_call_ok.2.2.2
  show m1.1.st = s0
  cases hm : m1.1.st with
  | mk nodes cache =>
    rw [hm] at h
    cases hs : s0 with
    | mk n2 c2 => rw [hs] at h; simp only at h; rw [h.1, h.2]

theorem m1_reach : MReach m1.1 := MReach.step _ f₁ 3 xC (MReach.init s0 s0_inv) vC (by decide)

/-- … then the SAME id with another predicate: the memo answers TRUE, the specification says FALSE -/
def m2 := restrictMemoI f₂ 3 m1.1 xC
theorem second_call_wrong : m2.2 = .tt ∧ (den m1.1.st xC).restrict f₂ = .leaf false ∧
    den m2.1.st m2.2 ≠ (den m1.1.st xC).restrict f₂ := by decide

/-- … and the poison spreads to every diagram sharing the node: restricting `v1 <= 7 and b0` with
    the EMPTY predicate (which must return the operand itself) returns `v1 <= 7` -/
def m3 := restrictMemoI f₀ 7 m1.1 xD
theorem identity_restrict_wrong : (den m1.1.st xD).restrict f₀ = tD ∧
    den m3.1.st m3.2 = .rng 1 (.cons ⟨.unb, .incl 7⟩ (.leaf true) (.cons ⟨.excl 7, .unb⟩ (.leaf false) .nil)) ∧
    den m3.1.st m3.2 ≠ (den m1.1.st xD).restrict f₀ := by decide

/-- the same call on the same arena with a fresh memo is right: the result depends on the history -/
def m3' := restrictMemoI f₀ 7 (⟨s0, []⟩ : M) xD
theorem history_dependent : m3'.2 = xD ∧ m3.2 ≠ m3'.2 ∧ den m3'.1.st m3'.2 ≠ den m3.1.st m3.2 := by decide

/-- **negative result**: the refinement statement proved for `restrictI` (`restrictI_refines`) is
    FALSE for the memoised variant, on reachable states, with all hypotheses (invariant, valid
    operand, enough fuel) satisfied. -/
theorem restrictMemoI_not_refines :
    ¬ ∀ (m : M), MReach m → ∀ (f : Nat → Option Bool) (n : Nat) (x : Id), m.st.Inv → Id.Valid m.st x →
        (den m.st x).size ≤ n →
        den (restrictMemoI f n m x).1.st (restrictMemoI f n m x).2 = (den m.st x).restrict f := by
  intro h
  have := h m1.1 m1_reach f₂ 3 xC (by rw [m1_st]; exact s0_inv) (by rw [m1_st]; exact vC) (by decide)
  exact second_call_wrong.2.2 this

/-- … and so is history independence: two reachable states with the same arena, the same id, the
    same predicate, different answers -/
theorem restrictMemoI_history_dependent :
    ¬ ∀ (m m' : M), MReach m → MReach m' → m.st = m'.st → ∀ (f : Nat → Option Bool) (n : Nat) (x : Id),
        Id.Valid m.st x → (den m.st x).size ≤ n →
        den (restrictMemoI f n m x).1.st (restrictMemoI f n m x).2 =
          den (restrictMemoI f n m' x).1.st (restrictMemoI f n m' x).2 := by
  intro h
  have := h ⟨s0, []⟩ m1.1 (MReach.init s0 s0_inv) m1_reach m1_st.symm f₀ 7 xD vD (by decide)
  exact history_dependent.2.2 this

/-- the unmodified code (`restrictI`, no memo) gives the right answers on the same inputs -/
theorem restrictI_right : (restrictI f₂ 3 (restrictI f₁ 3 s0 xC).1 xC).2 = .ff ∧
    (restrictI f₀ 7 (restrictI f₁ 3 s0 xC).1 xD).2 = xD := by decide

end BugWitness
end Pep508

section AxiomCheck
open Pep508
#print axioms restrictI_spec
#print axioms restrictI_refines
#print axioms restrictI_cache
#print axioms restrictI_history_independent
#print axioms restrictI_same_id
#print axioms notI_refines
#print axioms isDisjointI_spec
#print axioms isDisjointI_refines_tree
#print axioms isDisjointI_history_independent
#print axioms restrictMemoI_spec
#print axioms restrictMemoI_fresh_refines
#print axioms BugWitness.restrictMemoI_not_refines
#print axioms BugWitness.restrictMemoI_history_dependent
#print axioms BugWitness.restrictI_right
end AxiomCheck
