/-
`simplify_python_versions` / `complexify_python_versions` RELATIVE to a bound predicate `P`.

(V1) bound tracking: every bound of `complexifyPy pv lo hi m` / `simplifyPy pv lo hi m` is a bound of
     `m` or one of `lo`, `hi` (`Tree.AllB_complexifyPy`, `Tree.AllB_simplifyPy`, `AllB_pyRangeMarker`).
(V2) the diagram identities of C12 / C12b over ANY linear order, for a predicate `P` on values such
     that every valid interval with bounds in `P` is inhabited (`Inhabits P`, CanonRel.lean), for
     diagrams and ranges whose bounds satisfy `P`.  `P := fun _ => True` under `DenseUnbounded`
     gives back the old theorems, `P := SepV` is the model's own value type `Val`.
-/
import Pep508.Proofs.SimplifyCanon
import Pep508.Proofs.CanonRel
import Pep508.Theorems.C12
set_option linter.unusedSectionVars false
set_option linter.unusedSimpArgs false
set_option linter.unusedVariables false
namespace Pep508
variable {νr νb α : Type}
variable [LT α] [LE α] [Std.IsLinearOrder α] [Std.LawfulOrderLT α] [DecidableLT α] [DecidableEq α]
variable [LT νr] [LE νr] [Std.IsLinearOrder νr] [Std.LawfulOrderLT νr] [DecidableLT νr] [DecidableEq νr]
variable [LT νb] [LE νb] [Std.IsLinearOrder νb] [Std.LawfulOrderLT νb] [DecidableLT νb] [DecidableEq νb]

/-! ## (V1) bound tracking -/

theorem AllBL_nil (P : α → Prop) : AllBL P ([] : EdgeL νr νb α) := fun _ h => by simp at h

/-- the edges of the atom `pv ∈ (lo, hi)` -/
theorem AllBL_fromRange_single (P : α → Prop) (lo hi : Bnd α) (hlo : Bnd.Kind P lo)
    (hhi : Bnd.Kind P hi) : AllBL P (fromRange [⟨lo, hi⟩] : EdgeL νr νb α) :=
  AllBL_fromRangeGo P [⟨lo, hi⟩] (some .unb) (fun c hc => by cases hc; trivial)
    (fun s hs => by
      simp only [List.mem_singleton] at hs
      subst hs
      exact ⟨hlo, hhi⟩)

theorem AllB_pyNode (P : α → Prop) (pv : νr) (lo hi : Bnd α) (hlo : Bnd.Kind P lo)
    (hhi : Bnd.Kind P hi) : (createNodeR pv (fromRange [⟨lo, hi⟩]) : Tree νr νb α).AllB P :=
  AllB_createNodeR P pv _ (AllBL_fromRange_single P lo hi hlo hhi)

/-- the bounds of the marker `python_full_version in (lo, hi)` are `lo` and `hi` -/
theorem AllB_pyRangeMarker (P : α → Prop) (pv : νr) (lo hi : Bnd α) (hlo : Bnd.Kind P lo)
    (hhi : Bnd.Kind P hi) : (C12.pyRangeMarker pv lo hi : Tree νr νb α).AllB P := by
  unfold C12.pyRangeMarker
  split
  · trivial
  · split
    · exact AllB_pyNode P pv lo hi hlo hhi
    · trivial

theorem AllBL_setFirstLo (P : α → Prop) (lo' : Bnd α) (hlo : Bnd.Kind P lo') :
    ∀ (L : EdgeL νr νb α), AllBL P L → AllBL P (setFirstLo lo' L)
  | [], h => h
  | (iv, c) :: rest, h => by
    simp only [setFirstLo]
    exact AllBL.cons ⟨⟨hlo, (h (iv, c) (by simp)).1.2⟩, (h (iv, c) (by simp)).2⟩ h.tail

theorem AllBL_setLastHi (P : α → Prop) (hi' : Bnd α) (hhi : Bnd.Kind P hi') :
    ∀ (L : EdgeL νr νb α), AllBL P L → AllBL P (setLastHi hi' L)
  | [], h => h
  | [(iv, c)], h => by
    simp only [setLastHi]
    exact AllBL.cons ⟨⟨(h (iv, c) (by simp)).1.1, hhi⟩, (h (iv, c) (by simp)).2⟩ (AllBL_nil P)
  | e :: e2 :: rest, h => by
    simp only [setLastHi]
    exact AllBL.cons (h e (by simp)) (AllBL_setLastHi P hi' hhi (e2 :: rest) h.tail)

theorem AllBL_simplifyNew (P : α → Prop) (lo hi : Bnd α) (hlo : Bnd.Kind P lo) (hhi : Bnd.Kind P hi)
    (es : EdgeL νr νb α) (h : AllBL P es) : AllBL P (simplifyNew lo hi es) := by
  intro e he
  obtain ⟨_, e', he', h1, h2⟩ := simplifyNew_mem lo hi es e he
  rw [h1, h2]
  exact ⟨Kind_inter P _ _ (h e' he').1 ⟨hlo, hhi⟩, (h e' he').2⟩

/-- the edge surgery of `simplify`: bounds of the node, of the range, or `-∞` / `+∞` -/
theorem AllBL_simplifyEdges (P : α → Prop) (lo hi : Bnd α) (hlo : Bnd.Kind P lo) (hhi : Bnd.Kind P hi)
    (es : EdgeL νr νb α) (h : AllBL P es) : AllBL P (simplifyEdges lo hi es) := by
  rw [simplifyEdges_eq]
  exact AllBL_setLastHi P .unb trivial _ (AllBL_setFirstLo P .unb trivial _
    (AllBL_simplifyNew P lo hi hlo hhi es h))

theorem AllBL_filter (P : α → Prop) (p : Ivl α × Tree νr νb α → Bool) (es : EdgeL νr νb α)
    (h : AllBL P es) : AllBL P (es.filter p) :=
  fun e he => h e (List.mem_filter.1 he).1

theorem AllBL_complexifyLo (P : α → Prop) (lo : Bnd α) (hlo : Bnd.Kind P lo)
    (new : EdgeL νr νb α) (h : AllBL P new) : AllBL P (complexifyLo lo new) := by
  unfold complexifyLo
  cases hf : lo.flipLo with
  | none => exact h
  | some below =>
    cases new with
    | nil => exact h
    | cons e rest =>
      obtain ⟨iv, c⟩ := e
      have he := h (iv, c) (by simp)
      simp only
      split
      · exact AllBL.cons ⟨⟨trivial, he.1.2⟩, he.2⟩ h.tail
      · exact AllBL.cons ⟨⟨trivial, Kind_flipLo P lo below hlo hf⟩, trivial⟩
          (AllBL.cons ⟨⟨hlo, he.1.2⟩, he.2⟩ h.tail)

theorem AllBL_complexifyHiGo (P : α → Prop) (hi above : Bnd α) (hhi : Bnd.Kind P hi)
    (hab : Bnd.Kind P above) : ∀ (L : EdgeL νr νb α), AllBL P L → AllBL P (complexifyHiGo hi above L)
  | [], h => h
  | [(iv, c)], h => by
    have he := h (iv, c) (by simp)
    simp only [complexifyHiGo]
    split
    · exact AllBL.cons ⟨⟨he.1.1, trivial⟩, he.2⟩ (AllBL_nil P)
    · exact AllBL.cons ⟨⟨he.1.1, hhi⟩, he.2⟩ (AllBL.cons ⟨⟨hab, trivial⟩, trivial⟩ (AllBL_nil P))
  | e :: e2 :: rest, h => by
    simp only [complexifyHiGo]
    exact AllBL.cons (h e (by simp)) (AllBL_complexifyHiGo P hi above hhi hab (e2 :: rest) h.tail)

theorem AllBL_complexifyHi (P : α → Prop) (hi : Bnd α) (hhi : Bnd.Kind P hi)
    (L : EdgeL νr νb α) (h : AllBL P L) : AllBL P (complexifyHi hi L) := by
  unfold complexifyHi
  cases hf : hi.flipHi with
  | none => exact h
  | some above => exact AllBL_complexifyHiGo P hi above hhi (Kind_flipHi P hi above hhi hf) L h

/-- the edge surgery of `complexify`: bounds of the node, of the range, or `-∞` / `+∞` -/
theorem AllBL_complexifyEdges (P : α → Prop) (lo hi : Bnd α) (hlo : Bnd.Kind P lo)
    (hhi : Bnd.Kind P hi) (es : EdgeL νr νb α) (h : AllBL P es) :
    AllBL P (complexifyEdges lo hi es) := by
  unfold complexifyEdges
  exact AllBL_complexifyHi P hi hhi _ (AllBL_complexifyLo P lo hlo _ (AllBL_filter P _ es h))

mutual
/-- **(V1)** every bound of `simplify(m, (lo, hi))` is a bound of `m`, or `lo`, or `hi` -/
theorem Tree.AllB_simplifyPy (P : α → Prop) (pv : νr) (lo hi : Bnd α) (hlo : Bnd.Kind P lo)
    (hhi : Bnd.Kind P hi) : ∀ (t : Tree νr νb α), t.AllB P → (t.simplifyPy pv lo hi).AllB P
  | .leaf _, _ => trivial
  | .rng v es, h => by
    simp only [Tree.simplifyPy]
    split
    · exact h
    · split
      · split
        · exact AllB_createNodeR P v _
            (AllBL_simplifyEdges P lo hi hlo hhi _ ((Edges.AllB_iff P es).1 h))
        · trivial
      · exact AllB_createNodeR P v _
          (AllBL_coalesce P _ (Edges.AllBL_simplifyPyE P pv lo hi hlo hhi es h))
  | .bool v a b, h => by
    simp only [Tree.simplifyPy]
    split
    · exact h
    · exact AllB_createNodeB P v _ _ (Tree.AllB_simplifyPy P pv lo hi hlo hhi a h.1)
        (Tree.AllB_simplifyPy P pv lo hi hlo hhi b h.2)
theorem Edges.AllBL_simplifyPyE (P : α → Prop) (pv : νr) (lo hi : Bnd α) (hlo : Bnd.Kind P lo)
    (hhi : Bnd.Kind P hi) : ∀ (es : Edges νr νb α), es.AllB P → AllBL P (es.simplifyPyE pv lo hi)
  | .nil, _ => AllBL_nil P
  | .cons iv t rest, h => by
    simp only [Edges.simplifyPyE]
    exact AllBL.cons ⟨h.1, Tree.AllB_simplifyPy P pv lo hi hlo hhi t h.2.1⟩
      (Edges.AllBL_simplifyPyE P pv lo hi hlo hhi rest h.2.2)
end

mutual
/-- **(V1)** every bound of `complexify(m, (lo, hi))` is a bound of `m`, or `lo`, or `hi` -/
theorem Tree.AllB_complexifyPy (P : α → Prop) (pv : νr) (lo hi : Bnd α) (hlo : Bnd.Kind P lo)
    (hhi : Bnd.Kind P hi) : ∀ (t : Tree νr νb α), t.AllB P → (t.complexifyPy pv lo hi).AllB P
  | .leaf b, _ => by
    simp only [Tree.complexifyPy]
    split
    · trivial
    · split
      · trivial
      · split
        · exact AllB_pyNode P pv lo hi hlo hhi
        · trivial
  | .rng v es, h => by
    simp only [Tree.complexifyPy]
    split
    · exact h
    · split
      · trivial
      · split
        · exact AllB_createNodeR P v _
            (AllBL_complexifyEdges P lo hi hlo hhi _ ((Edges.AllB_iff P es).1 h))
        · split
          · exact AllB_and P _ _ h (AllB_pyNode P pv lo hi hlo hhi)
          · exact AllB_createNodeR P v _
              (AllBL_coalesce P _ (Edges.AllBL_complexifyPyE P pv lo hi hlo hhi es h))
  | .bool v a b, h => by
    simp only [Tree.complexifyPy]
    split
    · exact h
    · split
      · trivial
      · exact AllB_and P _ _ h (AllB_pyNode P pv lo hi hlo hhi)
theorem Edges.AllBL_complexifyPyE (P : α → Prop) (pv : νr) (lo hi : Bnd α) (hlo : Bnd.Kind P lo)
    (hhi : Bnd.Kind P hi) : ∀ (es : Edges νr νb α), es.AllB P → AllBL P (es.complexifyPyE pv lo hi)
  | .nil, _ => AllBL_nil P
  | .cons iv t rest, h => by
    simp only [Edges.complexifyPyE]
    exact AllBL.cons ⟨h.1, Tree.AllB_complexifyPy P pv lo hi hlo hhi t h.2.1⟩
      (Edges.AllBL_complexifyPyE P pv lo hi hlo hhi rest h.2.2)
end

/-! ## (V2) the simplified diagram outside the range, relative to `P` -/

/-- below the range the simplified node takes the child of the first kept edge; the witness point is
    a point of (first kept edge) ∩ `R`, an interval whose bounds are bounds of the node or of `R` -/
theorem edgeWit_low_rel (P : α → Prop) (inh : Inhabits P) (lo hi : Bnd α)
    (hlo : Bnd.Kind P lo) (hhi : Bnd.Kind P hi) (es : EdgeL νr νb α)
    (kes : ∀ e ∈ es, Ivl.Kind P e.1)
    (hv : (Ivl.mk lo hi).valid = true) (hp : partitionFrom .unb es = true) :
    EdgeWit lo hi (fun x0 => lo.loOk x0 = false) (fun a x => ¬ a < x) es := by
  have hne := simplifyNew_ne_nil lo hi es hv hp
  cases hnew : simplifyNew lo hi es with
  | nil => exact absurd hnew hne
  | cons e0 rest =>
    obtain ⟨o, c⟩ := e0
    obtain ⟨hov, e', he', ho, _⟩ := simplifyNew_mem lo hi es (o, c) (by rw [hnew]; simp)
    simp only at ho hov
    obtain ⟨a, ha⟩ := inh o hov (by rw [ho]; exact Kind_inter P _ _ (kes e' he') ⟨hlo, hhi⟩)
    have haR : (Ivl.mk lo hi).mem a = true := by
      rw [ho, Ivl.mem_inter, Bool.and_eq_true] at ha; exact ha.2
    have hmid : ((⟨.unb, o.hi⟩, c) : Ivl α × Tree νr νb α) ∈ setFirstLo .unb (simplifyNew lo hi es) := by
      rw [hnew]; simp [setFirstLo]
    obtain ⟨e, he, h1, h2, h3⟩ := setLastHi_mem_fwd .unb _ _ hmid
    simp only at h1 h3
    refine ⟨a, haR, e, by rw [simplifyEdges_eq]; exact he, ?_, ?_⟩
    · intro x0 hx0
      simp only [Ivl.mem, h1, Bnd.loOk, Bool.true_and]
      rcases h3 with h3 | h3
      · rw [h3]
        apply Ivl.hi_of_not_lo o x0 hov
        rw [ho]
        simp only [Ivl.inter, Bnd.loOk_maxLo, hx0, Bool.and_false]
      · rw [h3]; rfl
    · intro x hx
      simp only [Ivl.mem, h1, Bnd.loOk, Bool.true_and]
      rcases h3 with h3 | h3
      · rw [h3]
        simp only [Ivl.mem, Bool.and_eq_true] at ha
        exact Bnd.hiOk_mono o.hi a x ha.2 hx
      · rw [h3]; rfl

/-- above the range the simplified node takes the child of the last kept edge -/
theorem edgeWit_high_rel (P : α → Prop) (inh : Inhabits P) (lo hi : Bnd α)
    (hlo : Bnd.Kind P lo) (hhi : Bnd.Kind P hi) (es : EdgeL νr νb α)
    (kes : ∀ e ∈ es, Ivl.Kind P e.1)
    (hv : (Ivl.mk lo hi).valid = true) (hp : partitionFrom .unb es = true) :
    EdgeWit lo hi (fun x0 => hi.hiOk x0 = false) (fun a x => ¬ x < a) es := by
  have hne := simplifyNew_ne_nil lo hi es hv hp
  obtain ⟨e1, he1, hlast⟩ := setLastHi_last .unb _ (setFirstLo_ne_nil .unb _ hne)
  obtain ⟨e0, he0, h1, h2, h3⟩ := setFirstLo_mem_rev .unb _ e1 he1
  obtain ⟨hov, e', he', ho, _⟩ := simplifyNew_mem lo hi es e0 he0
  obtain ⟨a, ha⟩ := inh e0.1 hov (by rw [ho]; exact Kind_inter P _ _ (kes e' he') ⟨hlo, hhi⟩)
  have haR : (Ivl.mk lo hi).mem a = true := by
    rw [ho, Ivl.mem_inter, Bool.and_eq_true] at ha; exact ha.2
  refine ⟨a, haR, _, by rw [simplifyEdges_eq]; exact hlast, ?_, ?_⟩
  · intro x0 hx0
    simp only [Ivl.mem, Bnd.hiOk, Bool.and_true]
    rcases h3 with h3 | h3
    · rw [h3]
      apply Ivl.lo_of_not_hi e0.1 x0 hov
      rw [ho]
      simp only [Ivl.inter, Bnd.hiOk_minHi_u, hx0, Bool.and_false]
    · rw [h3]; rfl
  · intro x hx
    simp only [Ivl.mem, Bnd.hiOk, Bool.and_true]
    rcases h3 with h3 | h3
    · rw [h3]
      simp only [Ivl.mem, Bool.and_eq_true] at ha
      exact Bnd.loOk_mono e0.1.lo a x ha.1 hx
    · rw [h3]; rfl

/-- `simplify_witness_aux` with the bound predicate threaded through: the edge-level witness is only
    asked for nodes whose edge bounds satisfy `P` -/
theorem simplify_witness_aux_rel (Pb : α → Prop) (pv : νr) (lo hi : Bnd α) (out : α → Prop)
    (P : α → α → Prop)
    (hne : ¬ (lo = .unb ∧ hi = .unb)) (a0 : α) (ha0 : (Ivl.mk lo hi).mem a0 = true)
    (HE : ∀ es : EdgeL νr νb α, partitionFrom .unb es = true → (∀ e ∈ es, Ivl.Kind Pb e.1) →
      EdgeWit lo hi out P es)
    (ρ : Env νr νb α) (hout : out (ρ.rv pv)) :
    ∀ (n : Nat) (t : Tree νr νb α), t.size < n → t.wf = true → t.AllB Pb →
    ∃ a, (Ivl.mk lo hi).mem a = true ∧ ∀ x, (Ivl.mk lo hi).mem x = true → P a x →
      (t.simplifyPy pv lo hi).eval ρ = t.eval (ρ.setR pv x) := by
  intro n
  induction n with
  | zero => intro t h; omega
  | succ n ih =>
    intro t hsz hwf hb
    cases t with
    | leaf b => exact ⟨a0, ha0, fun x _ _ => by simp [Tree.simplifyPy, Tree.eval]⟩
    | rng v es =>
      have hbl := (Edges.AllB_iff Pb es).1 hb
      simp only [Tree.simplifyPy, hne, if_false]
      by_cases c3 : v = pv
      · subst c3
        have hv := Ivl.valid_of_mem _ _ ha0
        simp only [if_true, hv]
        have hwf' := hwf
        simp only [Tree.wf, Bool.and_eq_true] at hwf'
        obtain ⟨⟨_, hpart⟩, hall⟩ := hwf'
        obtain ⟨a, haR, e, he, h1, h2⟩ := HE es.toList hpart (fun e he => (hbl e he).1)
        have fsep := simplifyEdges_sep lo hi es.toList hpart
        obtain ⟨e', he', hch⟩ := simplifyEdges_childOf lo hi es.toList e he
        refine ⟨a, haR, fun x hxR hPx => ?_⟩
        obtain ⟨r1, r2⟩ := evalL_of_sep ρ _ _ fsep e he (h1 _ hout)
        rw [eval_createNodeR_hit ρ v _ r2, r1]
        have hx' : (Ivl.mk lo hi).mem ((ρ.setR v x).rv v) = true := by
          rw [Env.setR_rv]; exact hxR
        have := eval_simplifyEdges (ρ.setR v x) v lo hi es.toList hpart hx'
        rw [Tree.eval_rng, ← this]
        obtain ⟨q1, q2⟩ := evalL_of_sep (ρ.setR v x) ((ρ.setR v x).rv v) _ fsep e he
          (by rw [Env.setR_rv]; exact h2 x hPx)
        rw [eval_createNodeR_hit _ v _ q2, q1, hch]
        obtain ⟨w1, w2⟩ := Edges.wfAll_mem es _ hall e' he'
        exact (Tree.eval_setR e'.2 ρ v x w1 w2).symm
      · simp only [c3, if_false]
        obtain ⟨e, he, h1, h2⟩ := eval_simplify_node pv lo hi ρ v es hwf
        rw [h2]
        obtain ⟨a, haR, hA⟩ := ih e.2 (by have := Tree.size_rng_child v es e he; omega)
          (Tree.wf_rng_child v es hwf e he).1 (hbl e he).2
        refine ⟨a, haR, fun x hxR hPx => ?_⟩
        rw [hA x hxR hPx, h1 _ (Env.setR_rv_ne ρ pv v x c3)]
    | bool v h l =>
      simp only [Tree.simplifyPy, hne, if_false]
      obtain ⟨_, wh, wl, _, _⟩ := (Tree.wf_bool_iff v h l).mp hwf
      obtain ⟨sh, sl⟩ := Tree.size_bool_child v h l
      rw [eval_createNodeB]
      by_cases hbv : ρ.bv v = true
      · obtain ⟨a, haR, hA⟩ := ih h (by omega) wh hb.1
        refine ⟨a, haR, fun x hxR hPx => ?_⟩
        have : (ρ.setR pv x).bv v = true := hbv
        simp only [hbv, if_true, Tree.eval, this]
        exact hA x hxR hPx
      · obtain ⟨a, haR, hA⟩ := ih l (by omega) wl hb.2
        refine ⟨a, haR, fun x hxR hPx => ?_⟩
        have : ¬ (ρ.setR pv x).bv v = true := hbv
        simp only [hbv, if_false, Tree.eval, this]
        exact hA x hxR hPx

/-- **below the range**, relative form: in an environment whose `python_full_version` lies below
    `R`, the simplified marker has the value `m` takes on an initial piece `{x ∈ R | x ≤ a}` of `R` -/
theorem simplify_witness_low_rel (P : α → Prop) (inh : Inhabits P) (pv : νr) (lo hi : Bnd α)
    (hlo : Bnd.Kind P lo) (hhi : Bnd.Kind P hi)
    (hv : (Ivl.mk lo hi).valid = true) (t : Tree νr νb α) (ht : t.wf = true) (hb : t.AllB P)
    (ρ : Env νr νb α) (hout : lo.loOk (ρ.rv pv) = false) :
    ∃ a, (Ivl.mk lo hi).mem a = true ∧ ∀ x, (Ivl.mk lo hi).mem x = true → ¬ a < x →
      (t.simplifyPy pv lo hi).eval ρ = t.eval (ρ.setR pv x) := by
  obtain ⟨a0, ha0⟩ := inh _ hv ⟨hlo, hhi⟩
  have hne : ¬ (lo = .unb ∧ hi = .unb) := by
    rintro ⟨rfl, rfl⟩; simp [Bnd.loOk] at hout
  exact simplify_witness_aux_rel P pv lo hi (fun x0 => lo.loOk x0 = false) (fun a x => ¬ a < x) hne
    a0 ha0 (fun es hp kes => edgeWit_low_rel P inh lo hi hlo hhi es kes hv hp) ρ hout _ t
    (Nat.lt_succ_self _) ht hb

/-- **above the range**, relative form -/
theorem simplify_witness_high_rel (P : α → Prop) (inh : Inhabits P) (pv : νr) (lo hi : Bnd α)
    (hlo : Bnd.Kind P lo) (hhi : Bnd.Kind P hi)
    (hv : (Ivl.mk lo hi).valid = true) (t : Tree νr νb α) (ht : t.wf = true) (hb : t.AllB P)
    (ρ : Env νr νb α) (hout : hi.hiOk (ρ.rv pv) = false) :
    ∃ a, (Ivl.mk lo hi).mem a = true ∧ ∀ x, (Ivl.mk lo hi).mem x = true → ¬ x < a →
      (t.simplifyPy pv lo hi).eval ρ = t.eval (ρ.setR pv x) := by
  obtain ⟨a0, ha0⟩ := inh _ hv ⟨hlo, hhi⟩
  have hne : ¬ (lo = .unb ∧ hi = .unb) := by
    rintro ⟨rfl, rfl⟩; simp [Bnd.hiOk] at hout
  exact simplify_witness_aux_rel P pv lo hi (fun x0 => hi.hiOk x0 = false) (fun a x => ¬ x < a) hne
    a0 ha0 (fun es hp kes => edgeWit_high_rel P inh lo hi hlo hhi es kes hv hp) ρ hout _ t
    (Nat.lt_succ_self _) ht hb

/-- markers that agree inside `R` have simplifications that agree EVERYWHERE -/
theorem eval_simplifyPy_congr_rel (P : α → Prop) (inh : Inhabits P) (pv : νr) (lo hi : Bnd α)
    (hlo : Bnd.Kind P lo) (hhi : Bnd.Kind P hi)
    (hv : (Ivl.mk lo hi).valid = true) (m m' : Tree νr νb α) (hm : m.wf = true) (hm' : m'.wf = true)
    (bm : m.AllB P) (bm' : m'.AllB P)
    (hag : ∀ ρ : Env νr νb α, (Ivl.mk lo hi).mem (ρ.rv pv) = true → m.eval ρ = m'.eval ρ)
    (ρ : Env νr νb α) : (m.simplifyPy pv lo hi).eval ρ = (m'.simplifyPy pv lo hi).eval ρ := by
  cases hin : (Ivl.mk lo hi).mem (ρ.rv pv) with
  | true => rw [eval_simplifyPy pv lo hi m hm ρ hin, eval_simplifyPy pv lo hi m' hm' ρ hin, hag ρ hin]
  | false =>
    have key : ∀ x, (Ivl.mk lo hi).mem x = true → m.eval (ρ.setR pv x) = m'.eval (ρ.setR pv x) := by
      intro x hx; apply hag; rw [Env.setR_rv]; exact hx
    cases hlo' : lo.loOk (ρ.rv pv) with
    | false =>
      obtain ⟨a, ha, hA⟩ := simplify_witness_low_rel P inh pv lo hi hlo hhi hv m hm bm ρ hlo'
      obtain ⟨a', ha', hA'⟩ := simplify_witness_low_rel P inh pv lo hi hlo hhi hv m' hm' bm' ρ hlo'
      by_cases c : a < a'
      · rw [hA a ha (by grind), hA' a ha (by grind), key a ha]
      · rw [hA a' ha' c, hA' a' ha' (by grind), key a' ha']
    | true =>
      have hhi' : hi.hiOk (ρ.rv pv) = false := by
        simp only [Ivl.mem, hlo', Bool.true_and] at hin; exact hin
      obtain ⟨a, ha, hA⟩ := simplify_witness_high_rel P inh pv lo hi hlo hhi hv m hm bm ρ hhi'
      obtain ⟨a', ha', hA'⟩ := simplify_witness_high_rel P inh pv lo hi hlo hhi hv m' hm' bm' ρ hhi'
      by_cases c : a < a'
      · rw [hA a' ha' (by grind), hA' a' ha' (by grind), key a' ha']
      · rw [hA a ha (by grind), hA' a ha c, key a ha]

/-! ## (V2) the diagram identities, relative to `P` -/

/-- `complexify(m, R)` IS `m and python_full_version in R` -/
theorem complexifyPy_eq_and_rel [Inhabited α] (P : α → Prop) (inh : Inhabits P) (pv : νr)
    (lo hi : Bnd α) (hlo : Bnd.Kind P lo) (hhi : Bnd.Kind P hi)
    (m : Tree νr νb α) (hm : m.wf = true) (bm : m.AllB P) :
    m.complexifyPy pv lo hi = Tree.and m (C12.pyRangeMarker pv lo hi) := by
  apply canonical_rel P inh _ _ (wf_complexifyPy pv lo hi m hm)
    (wf_and m _ hm (C12.wf_pyRangeMarker pv lo hi))
    (Tree.AllB_complexifyPy P pv lo hi hlo hhi m bm)
    (AllB_and P _ _ bm (AllB_pyRangeMarker P pv lo hi hlo hhi))
  intro ρ
  rw [eval_complexifyPy pv lo hi m hm ρ,
    C02.eval_and_of_wf ρ m _ hm (C12.wf_pyRangeMarker pv lo hi), C12.eval_pyRangeMarker]

/-- `complexify(simplify(m, R), R) = complexify(m, R)` -/
theorem complexifyPy_simplifyPy_rel [Inhabited α] (P : α → Prop) (inh : Inhabits P) (pv : νr)
    (lo hi : Bnd α) (hlo : Bnd.Kind P lo) (hhi : Bnd.Kind P hi)
    (m : Tree νr νb α) (hm : m.wf = true) (bm : m.AllB P) :
    (m.simplifyPy pv lo hi).complexifyPy pv lo hi = m.complexifyPy pv lo hi := by
  have hs := wf_simplifyPy pv lo hi m hm
  have bs := Tree.AllB_simplifyPy P pv lo hi hlo hhi m bm
  apply canonical_rel P inh _ _ (wf_complexifyPy pv lo hi _ hs) (wf_complexifyPy pv lo hi m hm)
    (Tree.AllB_complexifyPy P pv lo hi hlo hhi _ bs) (Tree.AllB_complexifyPy P pv lo hi hlo hhi m bm)
  intro ρ
  rw [eval_complexifyPy pv lo hi _ hs ρ, eval_complexifyPy pv lo hi m hm ρ]
  cases hin : (Ivl.mk lo hi).mem (ρ.rv pv) with
  | false => simp
  | true => rw [eval_simplifyPy pv lo hi m hm ρ hin]

/-- markers that agree inside `R` complexify to the same marker (any `R`, empty ones included) -/
theorem complexifyPy_congr_rel [Inhabited α] (P : α → Prop) (inh : Inhabits P) (pv : νr)
    (lo hi : Bnd α) (hlo : Bnd.Kind P lo) (hhi : Bnd.Kind P hi)
    (m₁ m₂ : Tree νr νb α) (h₁ : m₁.wf = true) (h₂ : m₂.wf = true)
    (b₁ : m₁.AllB P) (b₂ : m₂.AllB P)
    (hag : ∀ ρ : Env νr νb α, (Ivl.mk lo hi).mem (ρ.rv pv) = true → m₁.eval ρ = m₂.eval ρ) :
    m₁.complexifyPy pv lo hi = m₂.complexifyPy pv lo hi := by
  apply canonical_rel P inh _ _ (wf_complexifyPy pv lo hi m₁ h₁) (wf_complexifyPy pv lo hi m₂ h₂)
    (Tree.AllB_complexifyPy P pv lo hi hlo hhi m₁ b₁) (Tree.AllB_complexifyPy P pv lo hi hlo hhi m₂ b₂)
  intro ρ
  rw [eval_complexifyPy pv lo hi m₁ h₁ ρ, eval_complexifyPy pv lo hi m₂ h₂ ρ]
  cases hin : (Ivl.mk lo hi).mem (ρ.rv pv) with
  | false => simp
  | true => rw [hag ρ hin]

/-- **(T1)** markers that agree inside a valid `R` with bounds in `P` simplify to the SAME diagram -/
theorem simplifyPy_congr_rel [Inhabited α] (P : α → Prop) (inh : Inhabits P) (pv : νr)
    (lo hi : Bnd α) (hlo : Bnd.Kind P lo) (hhi : Bnd.Kind P hi)
    (hv : (Ivl.mk lo hi).valid = true) (m m' : Tree νr νb α) (hm : m.wf = true) (hm' : m'.wf = true)
    (bm : m.AllB P) (bm' : m'.AllB P)
    (hag : ∀ ρ : Env νr νb α, (Ivl.mk lo hi).mem (ρ.rv pv) = true → m.eval ρ = m'.eval ρ) :
    m.simplifyPy pv lo hi = m'.simplifyPy pv lo hi :=
  canonical_rel P inh _ _ (wf_simplifyPy pv lo hi m hm) (wf_simplifyPy pv lo hi m' hm')
    (Tree.AllB_simplifyPy P pv lo hi hlo hhi m bm) (Tree.AllB_simplifyPy P pv lo hi hlo hhi m' bm')
    (eval_simplifyPy_congr_rel P inh pv lo hi hlo hhi hv m m' hm hm' bm bm' hag)

/-- **(T2)** -/
theorem simplifyPy_complexifyPy_rel [Inhabited α] (P : α → Prop) (inh : Inhabits P) (pv : νr)
    (lo hi : Bnd α) (hlo : Bnd.Kind P lo) (hhi : Bnd.Kind P hi)
    (hv : (Ivl.mk lo hi).valid = true) (m : Tree νr νb α) (hm : m.wf = true) (bm : m.AllB P) :
    (m.complexifyPy pv lo hi).simplifyPy pv lo hi = m.simplifyPy pv lo hi := by
  apply simplifyPy_congr_rel P inh pv lo hi hlo hhi hv _ _ (wf_complexifyPy pv lo hi m hm) hm
    (Tree.AllB_complexifyPy P pv lo hi hlo hhi m bm) bm
  intro ρ hin
  rw [eval_complexifyPy pv lo hi m hm ρ, hin, Bool.and_true]

/-- **(T4)** idempotence, for every pair of bounds in `P` (valid or not) -/
theorem simplifyPy_idem_rel [Inhabited α] (P : α → Prop) (inh : Inhabits P) (pv : νr)
    (lo hi : Bnd α) (hlo : Bnd.Kind P lo) (hhi : Bnd.Kind P hi)
    (m : Tree νr νb α) (hm : m.wf = true) (bm : m.AllB P) :
    (m.simplifyPy pv lo hi).simplifyPy pv lo hi = m.simplifyPy pv lo hi := by
  cases hv : (Ivl.mk lo hi).valid with
  | false => exact simplifyPy_idem_invalid pv lo hi hv m hm
  | true =>
    apply simplifyPy_congr_rel P inh pv lo hi hlo hhi hv _ _ (wf_simplifyPy pv lo hi m hm) hm
      (Tree.AllB_simplifyPy P pv lo hi hlo hhi m bm) bm
    intro ρ hin
    exact eval_simplifyPy pv lo hi m hm ρ hin

/-! ## `P := True`: the dense case is an instance -/

theorem Bnd.Kind_true (b : Bnd α) : Bnd.Kind (fun _ : α => True) b := by cases b <;> trivial

mutual
theorem Tree.AllB_true : ∀ (t : Tree νr νb α), t.AllB (fun _ : α => True)
  | .leaf _ => trivial
  | .rng _ es => Edges.AllB_true es
  | .bool _ h l => ⟨Tree.AllB_true h, Tree.AllB_true l⟩
theorem Edges.AllB_true : ∀ (es : Edges νr νb α), es.AllB (fun _ : α => True)
  | .nil => trivial
  | .cons iv t rest =>
    ⟨⟨Bnd.Kind_true iv.lo, Bnd.Kind_true iv.hi⟩, Tree.AllB_true t, Edges.AllB_true rest⟩
end

end Pep508
