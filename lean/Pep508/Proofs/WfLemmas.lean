/-
Reusable lemmas about the structural well-formedness predicate `Tree.wf`:
list-level partition predicate `Part`, adjacency predicate `AdjNe`, and how `coalesce`,
`product`, `mapE`, `createNodeR`, `createNodeB` interact with them.
-/
import Pep508.Proofs.WfOK
set_option linter.unusedSectionVars false
set_option linter.unusedSimpArgs false
namespace Pep508
variable {νr νb α : Type}
variable [LT α] [LE α] [Std.IsLinearOrder α] [Std.LawfulOrderLT α] [DecidableLT α] [DecidableEq α]
variable [LT νr] [LE νr] [Std.IsLinearOrder νr] [Std.LawfulOrderLT νr] [DecidableLT νr] [DecidableEq νr]
variable [LT νb] [LE νb] [Std.IsLinearOrder νb] [Std.LawfulOrderLT νb] [DecidableLT νb] [DecidableEq νb]

/-! ### the list-level partition predicate -/

/-- `Part cur fin es`: the intervals of `es` are valid, the first starts at `cur`, consecutive
    ones touch exactly, and the last one ends at `fin`.  `cur = none` means "nothing remains"
    (only possible for the empty list, when `fin = .unb`).  This is `partitionFrom` without the
    adjacent-children-differ clause, generalised to an arbitrary end bound. -/
def Part (cur : Option (Bnd α)) (fin : Bnd α) : EdgeL νr νb α → Prop
  | [] => cur = fin.flipHi
  | e :: rest => cur = some e.1.lo ∧ e.1.valid = true ∧ Part e.1.hi.flipHi fin rest

/-- `PartL cur es`: `es` partitions the half line starting at the lower bound `cur` -/
abbrev PartL (cur : Bnd α) (es : EdgeL νr νb α) : Prop := Part (some cur) .unb es

/-- adjacent edges lead to different children -/
def AdjNe : EdgeL νr νb α → Prop
  | [] => True
  | [_] => True
  | e :: e2 :: rest => e.2 ≠ e2.2 ∧ AdjNe (e2 :: rest)

theorem Part_ne_nil {cur : Bnd α} {es : EdgeL νr νb α} (h : PartL cur es) : es ≠ [] := by
  intro h'; subst h'; simp [Part, Bnd.flipHi] at h

theorem Part_append {c : Option (Bnd α)} {m fin : Bnd α} {xs ys : EdgeL νr νb α}
    (h1 : Part c m xs) (h2 : Part m.flipHi fin ys) : Part c fin (xs ++ ys) := by
  induction xs generalizing c with
  | nil => simp only [Part] at h1; subst h1; simpa using h2
  | cons e rest ih =>
    simp only [Part, List.cons_append] at h1 ⊢
    exact ⟨h1.1, h1.2.1, ih h1.2.2⟩

theorem Part_valid {c : Option (Bnd α)} {fin : Bnd α} {es : EdgeL νr νb α} (h : Part c fin es) :
    ∀ e ∈ es, e.1.valid = true := by
  induction es generalizing c with
  | nil => simp
  | cons e rest ih =>
    intro e' he'
    simp only [List.mem_cons] at he'
    rcases he' with rfl | he'
    · exact h.2.1
    · exact ih h.2.2 e' he'

theorem Part_map {c : Option (Bnd α)} {fin : Bnd α} {es : EdgeL νr νb α}
    (f : Tree νr νb α → Tree νr νb α) (h : Part c fin es) :
    Part c fin (es.map fun e => (e.1, f e.2)) := by
  induction es generalizing c with
  | nil => exact h
  | cons e rest ih => exact ⟨h.1, h.2.1, ih h.2.2⟩

/-- `Part` only looks at the intervals -/
theorem Part_congr_fst {c : Option (Bnd α)} {fin : Bnd α} {es es' : EdgeL νr νb α}
    (hm : es'.map Prod.fst = es.map Prod.fst) (h : Part c fin es) : Part c fin es' := by
  induction es generalizing c es' with
  | nil => simp only [List.map_nil, List.map_eq_nil_iff] at hm; subst hm; exact h
  | cons e rest ih =>
    cases es' with
    | nil => simp at hm
    | cons e' rest' =>
      simp only [List.map_cons, List.cons.injEq] at hm
      obtain ⟨h1, h2, h3⟩ := h
      exact ⟨by rw [hm.1]; exact h1, by rw [hm.1]; exact h2, by rw [hm.1]; exact ih hm.2 h3⟩

/-- `partitionFrom` is `Part` plus `AdjNe` -/
theorem partitionFrom_iff (cur : Bnd α) (es : EdgeL νr νb α) :
    partitionFrom cur es = true ↔ PartL cur es ∧ AdjNe es := by
  induction es generalizing cur with
  | nil => simp [partitionFrom, Part, Bnd.flipHi]
  | cons e rest ih =>
    obtain ⟨iv, t⟩ := e
    cases rest with
    | nil =>
      simp only [partitionFrom, Part, AdjNe, Bool.and_eq_true, decide_eq_true_eq]
      cases h : iv.hi <;> simp [Bnd.flipHi] <;> grind
    | cons e2 rest2 =>
      obtain ⟨iv2, t2⟩ := e2
      have ih' := fun c => ih c
      simp only [partitionFrom, Bool.and_eq_true, decide_eq_true_eq]
      cases hf : iv.hi.flipHi with
      | none => simp [Part, hf]
      | some nxt =>
        simp only [ih' nxt]
        simp only [Part, AdjNe, hf, Option.some.injEq]
        grind

/-! ### coalescing -/

theorem Ivl.canConjoin_of_flipHi (a b : Ivl α) (h : a.hi.flipHi = some b.lo) :
    a.canConjoin b = true := by
  obtain ⟨al, ah⟩ := a
  obtain ⟨bl, bh⟩ := b
  cases ah <;> cases bl <;> simp_all [Bnd.flipHi, Ivl.canConjoin]

theorem coalesceGo_head (cur : Ivl α × Tree νr νb α) (es : EdgeL νr νb α) :
    ∃ h t, coalesceGo cur es = h :: t ∧ h.2 = cur.2 ∧ h.1.lo = cur.1.lo := by
  induction es generalizing cur with
  | nil => exact ⟨cur, [], rfl, rfl, rfl⟩
  | cons e rest ih =>
    unfold coalesceGo
    split
    · obtain ⟨h, t, h1, h2, h3⟩ := ih (cur.1.conjoin e.1, cur.2)
      exact ⟨h, t, h1, h2, h3⟩
    · exact ⟨cur, _, rfl, rfl, rfl⟩

theorem Part_coalesceGo (fin : Bnd α) (cur : Ivl α × Tree νr νb α) (es : EdgeL νr νb α)
    (h : Part (some cur.1.lo) fin (cur :: es)) :
    Part (some cur.1.lo) fin (coalesceGo cur es) ∧ AdjNe (coalesceGo cur es) := by
  induction es generalizing cur with
  | nil => exact ⟨h, trivial⟩
  | cons e rest ih =>
    obtain ⟨_, hv, hn, hv2, hrest⟩ := h
    have hcc : cur.1.canConjoin e.1 = true := Ivl.canConjoin_of_flipHi _ _ hn
    unfold coalesceGo
    by_cases hc : cur.2 = e.2
    · simp only [hc, hcc, and_self, if_true]
      have := ih (cur.1.conjoin e.1, e.2) ⟨rfl, Ivl.valid_conjoin _ _ hcc hv hv2, hrest⟩
      exact this
    · simp only [hc, false_and, if_false]
      obtain ⟨i1, i2⟩ := ih e ⟨rfl, hv2, hrest⟩
      obtain ⟨hd, tl, e1, e2, e3⟩ := coalesceGo_head e rest
      rw [e1] at i1 i2 ⊢
      refine ⟨⟨rfl, hv, ?_⟩, ?_⟩
      · rw [hn]; exact i1
      · exact ⟨by rw [e2]; exact hc, i2⟩

/-- `coalesce` of a partition is a partition whose adjacent children differ -/
theorem Part_coalesce {c : Option (Bnd α)} {fin : Bnd α} {es : EdgeL νr νb α} (h : Part c fin es) :
    Part c fin (coalesce es) ∧ AdjNe (coalesce es) := by
  cases es with
  | nil => exact ⟨h, trivial⟩
  | cons e rest =>
    have hc : c = some e.1.lo := h.1
    subst hc
    exact Part_coalesceGo fin e rest h

/-- in `partitionFrom` form -/
theorem partitionFrom_coalesce (cur : Bnd α) (es : EdgeL νr νb α) (h : PartL cur es) :
    partitionFrom cur (coalesce es) = true :=
  (partitionFrom_iff cur _).mpr (Part_coalesce h)

/-- children of the coalesced list are drawn from the original list -/
theorem coalesceGo_child (cur : Ivl α × Tree νr νb α) (es : EdgeL νr νb α) :
    ∀ e ∈ coalesceGo cur es, ∃ e' ∈ cur :: es, e.2 = e'.2 := by
  induction es generalizing cur with
  | nil => intro e he; exact ⟨cur, by simp, by simp [coalesceGo] at he; rw [he]⟩
  | cons e0 rest ih =>
    unfold coalesceGo
    split
    · intro e he
      obtain ⟨e', he', h⟩ := ih _ e he
      simp only [List.mem_cons] at he'
      rcases he' with rfl | he'
      · exact ⟨cur, by simp, h⟩
      · exact ⟨e', by simp [he'], h⟩
    · intro e he
      simp only [List.mem_cons] at he
      rcases he with rfl | he
      · exact ⟨e, by simp, rfl⟩
      · obtain ⟨e', he', h⟩ := ih _ e he
        exact ⟨e', by simp only [List.mem_cons] at he' ⊢; exact Or.inr he', h⟩

theorem coalesce_child (es : EdgeL νr νb α) : ∀ e ∈ coalesce es, ∃ e' ∈ es, e.2 = e'.2 := by
  cases es with
  | nil => simp [coalesce]
  | cons e rest => exact coalesceGo_child e rest

/-! ### bound facts for the double loop -/

/-- the right interval lies entirely below the left one: skip it, the target start is unchanged -/
theorem Bnd.row_skip (cur rhi llo lhi : Bnd α)
    (h1 : (Ivl.mk cur rhi).valid = true) (h2 : (Ivl.mk (Bnd.maxLo cur llo) lhi).valid = true)
    (h3 : ¬ (Ivl.mk (Bnd.maxLo cur llo) (Bnd.minHi rhi lhi)).valid = true) :
    ∃ nxt, rhi.flipHi = some nxt ∧ Bnd.maxLo nxt llo = Bnd.maxLo cur llo := by
  cases cur <;> cases rhi <;> cases llo <;> cases lhi <;>
    simp only [Ivl.valid, Bnd.maxLo, Bnd.minHi, Bnd.flipHi] at * <;> grind

/-- the right interval ends strictly inside the left one: continue after it -/
theorem Bnd.row_continue (cur rhi llo lhi : Bnd α)
    (h1 : (Ivl.mk cur rhi).valid = true)
    (h3 : (Ivl.mk (Bnd.maxLo cur llo) (Bnd.minHi rhi lhi)).valid = true)
    (h4 : Bnd.minHi rhi lhi ≠ lhi) :
    Bnd.minHi rhi lhi = rhi ∧ ∃ nxt, rhi.flipHi = some nxt ∧ Bnd.maxLo nxt llo = nxt ∧
      (Ivl.mk nxt lhi).valid = true := by
  cases cur <;> cases rhi <;> cases llo <;> cases lhi <;>
    simp only [Ivl.valid, Bnd.maxLo, Bnd.minHi, Bnd.flipHi] at * <;> grind

/-- "the remaining right edges start above the end of the left interval" -/
def Above (c : Option (Bnd α)) (lhi : Bnd α) : Prop :=
  match c with
  | none => True
  | some c => ¬ (Ivl.mk c lhi).valid = true

theorem Bnd.row_end (rhi lhi : Bnd α) (h4 : Bnd.minHi rhi lhi = lhi) : Above rhi.flipHi lhi := by
  cases rhi <;> cases lhi <;>
    simp only [Above, Ivl.valid, Bnd.minHi, Bnd.flipHi] at * <;> grind

theorem Bnd.above_step (rlo rhi llo lhi : Bnd α) (h1 : (Ivl.mk rlo rhi).valid = true)
    (h2 : ¬ (Ivl.mk rlo lhi).valid = true) :
    ¬ (Ivl.mk (Bnd.maxLo rlo llo) (Bnd.minHi rhi lhi)).valid = true ∧ Above rhi.flipHi lhi := by
  cases rlo <;> cases rhi <;> cases llo <;> cases lhi <;>
    simp only [Above, Ivl.valid, Bnd.maxLo, Bnd.minHi, Bnd.flipHi] at * <;> grind

/-! ### the double loop of `apply_ranges` produces a partition -/

/-- once the right edges start above the left interval, nothing more is emitted -/
theorem productRow_above (f : Tree νr νb α → Tree νr νb α → Tree νr νb α)
    (l : Ivl α × Tree νr νb α) (c : Option (Bnd α)) (rs : EdgeL νr νb α)
    (hp : Part c .unb rs) (ha : Above c l.1.hi) : productRow f l rs = [] := by
  induction rs generalizing c with
  | nil => rfl
  | cons r rest ih =>
    obtain ⟨hc, hv, hrest⟩ := hp
    subst hc
    simp only [Above] at ha
    obtain ⟨h1, h2⟩ := Bnd.above_step r.1.lo r.1.hi l.1.lo l.1.hi hv ha
    simp only [productRow, Ivl.inter, h1, if_false]
    exact ih _ hrest h2

/-- the row of one left interval `l` against a partition of `[cur, +∞)` is a partition of
    `l ∩ [cur, +∞)` -/
theorem Part_productRow (f : Tree νr νb α → Tree νr νb α → Tree νr νb α)
    (l : Ivl α × Tree νr νb α) (cur : Bnd α) (rs : EdgeL νr νb α)
    (hp : PartL cur rs) (hl : (Ivl.mk (Bnd.maxLo cur l.1.lo) l.1.hi).valid = true) :
    Part (some (Bnd.maxLo cur l.1.lo)) l.1.hi (productRow f l rs) := by
  induction rs generalizing cur with
  | nil => simp [Part, Bnd.flipHi] at hp
  | cons r rest ih =>
    obtain ⟨hc, hv, hrest⟩ := hp
    simp only [Option.some.injEq] at hc
    subst hc
    simp only [productRow, Ivl.inter]
    by_cases h3 : (Ivl.mk (Bnd.maxLo r.1.lo l.1.lo) (Bnd.minHi r.1.hi l.1.hi)).valid = true
    · simp only [h3, if_true]
      by_cases h4 : Bnd.minHi r.1.hi l.1.hi = l.1.hi
      · have hab := Bnd.row_end _ _ h4
        rw [productRow_above f l _ rest hrest hab]
        exact ⟨rfl, h3, by simp [Part, h4]⟩
      · obtain ⟨e1, nxt, e2, e3, e4⟩ := Bnd.row_continue _ _ _ _ hv h3 h4
        rw [e2] at hrest
        have := ih nxt hrest (by rw [e3]; exact e4)
        refine ⟨rfl, h3, ?_⟩
        simp only [e1, e2]
        rw [e3] at this
        exact this
    · simp only [h3, if_false]
      obtain ⟨nxt, e2, e3⟩ := Bnd.row_skip _ _ _ _ hv hl h3
      rw [e2] at hrest
      have := ih nxt hrest (by rw [e3]; exact hl)
      rw [e3] at this
      exact this

/-- **key lemma**: the product of two partitions is a partition -/
theorem Part_product (f : Tree νr νb α → Tree νr νb α → Tree νr νb α)
    (c : Option (Bnd α)) (ls rs : EdgeL νr νb α)
    (hl : Part c .unb ls) (hr : PartL .unb rs) : Part c .unb (product f ls rs) := by
  induction ls generalizing c with
  | nil => exact hl
  | cons l rest ih =>
    obtain ⟨hc, hv, hrest⟩ := hl
    subst hc
    simp only [product]
    have hrow := Part_productRow f l .unb rs hr (by simpa [Bnd.maxLo] using hv)
    simp only [Bnd.maxLo] at hrow
    exact Part_append hrow (ih _ hrest)

theorem PartL_product (f : Tree νr νb α → Tree νr νb α → Tree νr νb α) (ls rs : EdgeL νr νb α)
    (hl : PartL .unb ls) (hr : PartL .unb rs) : PartL .unb (product f ls rs) :=
  Part_product f _ ls rs hl hr

theorem product_ne_nil (f : Tree νr νb α → Tree νr νb α → Tree νr νb α) (ls rs : EdgeL νr νb α)
    (hl : PartL .unb ls) (hr : PartL .unb rs) : product f ls rs ≠ [] :=
  Part_ne_nil (PartL_product f ls rs hl hr)

/-! ### ranks -/

theorem Rank.lt_trans {a b c : Rank νr νb} (h1 : a.lt b = true) (h2 : b.lt c = true) :
    a.lt c = true := by
  cases a <;> cases b <;> cases c <;> simp only [Rank.lt, decide_eq_true_eq] at * <;> grind

theorem Tree.rootGt_of_lt {k k' : Rank νr νb} (t : Tree νr νb α) (h1 : k.lt k' = true)
    (h2 : t.rootGt k' = true) : t.rootGt k = true := by
  cases t with
  | leaf b => rfl
  | rng v es => exact Rank.lt_trans h1 h2
  | bool v h l => exact Rank.lt_trans h1 h2

/-- list form of `Edges.wfAll` -/
theorem Edges.wfAll_iff (k : Rank νr νb) : ∀ (es : Edges νr νb α),
    es.wfAll k = true ↔ ∀ e ∈ es.toList, e.2.wf = true ∧ e.2.rootGt k = true
  | .nil => by simp [Edges.wfAll, Edges.toList]
  | .cons iv t rest => by
    have ih := Edges.wfAll_iff k rest
    simp only [Edges.wfAll, Edges.toList, List.mem_cons, Bool.and_eq_true, ih]
    constructor
    · rintro ⟨⟨h1, h2⟩, h3⟩ e (rfl | he)
      · exact ⟨h1, h2⟩
      · exact h3 e he
    · intro h
      exact ⟨h (iv, t) (Or.inl rfl), fun e he => h e (Or.inr he)⟩

/-- unfolding of `wf` on a range node, in list form -/
theorem Tree.wf_rng_iff (v : νr) (es : Edges νr νb α) :
    (Tree.rng v es).wf = true ↔
      2 ≤ es.toList.length ∧ PartL .unb es.toList ∧ AdjNe es.toList ∧
        ∀ e ∈ es.toList, e.2.wf = true ∧ e.2.rootGt (.r v) = true := by
  simp only [Tree.wf, Bool.and_eq_true, decide_eq_true_eq, partitionFrom_iff, Edges.wfAll_iff]
  grind

/-! ### `create_node` -/

theorem AdjNe_all_same (c : Tree νr νb α) (es : EdgeL νr νb α) (ha : AdjNe es)
    (hall : ∀ e ∈ es, e.2 = c) : es.length ≤ 1 := by
  match es, ha with
  | [], _ => simp
  | [_], _ => simp
  | e :: e2 :: rest, ha =>
    exact absurd ((hall e (by simp)).trans (hall e2 (by simp)).symm) ha.1

/-- `createNodeR` on a coalesced partition whose children are wf and below `v` is wf -/
theorem wf_createNodeR (v : νr) (es : EdgeL νr νb α) (hp : PartL .unb es) (ha : AdjNe es)
    (hc : ∀ e ∈ es, e.2.wf = true ∧ e.2.rootGt (.r v) = true) : (createNodeR v es).wf = true := by
  unfold createNodeR
  cases es with
  | nil => rfl
  | cons e rest =>
    obtain ⟨iv, c⟩ := e
    simp only
    split
    · exact (hc (iv, c) (by simp)).1
    · rename_i h
      rw [Tree.wf_rng_iff, Edges.toList_ofList]
      refine ⟨?_, hp, ha, hc⟩
      cases rest with
      | nil => simp at h
      | cons e2 rest2 => simp

/-- the result of `createNodeR` is one of the children, or a node on `v` -/
theorem rootGt_createNodeR (k : Rank νr νb) (v : νr) (es : EdgeL νr νb α)
    (hk : k.lt (.r v) = true) (hc : ∀ e ∈ es, e.2.rootGt k = true) :
    (createNodeR v es).rootGt k = true := by
  unfold createNodeR
  cases es with
  | nil => rfl
  | cons e rest =>
    obtain ⟨iv, c⟩ := e
    simp only
    split
    · exact hc (iv, c) (by simp)
    · exact hk

theorem wf_createNodeB (v : νb) (h l : Tree νr νb α) (hh : h.wf = true) (hl : l.wf = true)
    (gh : h.rootGt (.b v) = true) (gl : l.rootGt (.b v) = true) : (createNodeB v h l).wf = true := by
  unfold createNodeB
  split
  · exact hh
  · rename_i hne
    simp [Tree.wf, hne, hh, hl, gh, gl]

theorem rootGt_createNodeB (k : Rank νr νb) (v : νb) (h l : Tree νr νb α)
    (hk : k.lt (.b v) = true) (gh : h.rootGt k = true) : (createNodeB v h l).rootGt k = true := by
  unfold createNodeB
  split
  · exact gh
  · exact hk

/-! ### the two ways `and`-like operations build range nodes -/

/-- `createNodeR v (coalesce es)` for any partition `es` with wf children below `v` -/
theorem wf_node_coalesce (v : νr) (es : EdgeL νr νb α) (hp : PartL .unb es)
    (hc : ∀ e ∈ es, e.2.wf = true ∧ e.2.rootGt (.r v) = true) :
    (createNodeR v (coalesce es)).wf = true := by
  obtain ⟨p1, p2⟩ := Part_coalesce hp
  apply wf_createNodeR v _ p1 p2
  intro e he
  obtain ⟨e', he', h⟩ := coalesce_child _ e he
  rw [h]; exact hc e' he'

theorem rootGt_node_coalesce (k : Rank νr νb) (v : νr) (es : EdgeL νr νb α)
    (hk : k.lt (.r v) = true) (hc : ∀ e ∈ es, e.2.rootGt k = true) :
    (createNodeR v (coalesce es)).rootGt k = true := by
  apply rootGt_createNodeR k v _ hk
  intro e he
  obtain ⟨e', he', h⟩ := coalesce_child _ e he
  rw [h]; exact hc e' he'

/-- Shannon branch: a wf node `rng v es`, every child replaced by `f child` (wf, still below `v`) -/
theorem wf_node_mapL (v : νr) (es : EdgeL νr νb α) (f : Tree νr νb α → Tree νr νb α)
    (hp : PartL .unb es)
    (hf : ∀ e ∈ es, (f e.2).wf = true ∧ (f e.2).rootGt (.r v) = true) :
    (createNodeR v (mapE f es)).wf = true := by
  unfold mapE
  apply wf_node_coalesce v _ (Part_map f hp)
  intro e he
  simp only [List.mem_map] at he
  obtain ⟨e', he', rfl⟩ := he
  exact hf e' he'

theorem rootGt_node_mapL (k : Rank νr νb) (v : νr) (es : EdgeL νr νb α)
    (f : Tree νr νb α → Tree νr νb α) (hk : k.lt (.r v) = true)
    (hf : ∀ e ∈ es, (f e.2).rootGt (.r v) = true) :
    (createNodeR v (mapE f es)).rootGt k = true := by
  unfold mapE
  apply rootGt_createNodeR k v _ hk
  intro e he
  obtain ⟨e', he', h⟩ := coalesce_child _ e he
  simp only [List.mem_map] at he'
  obtain ⟨e'', he'', rfl⟩ := he'
  rw [h]; exact Tree.rootGt_of_lt _ hk (hf e'' he'')

/-- reusable form: for a wf node `rng v es` and `f` on children with `(f c).wf` and
    `(f c).rootGt (.r v)`, `createNodeR v (mapE f es.toList)` is wf and keeps every root bound
    that `rng v es` had -/
theorem wf_node_map (v : νr) (es : Edges νr νb α) (f : Tree νr νb α → Tree νr νb α)
    (hw : (Tree.rng v es).wf = true)
    (hf : ∀ e ∈ es.toList, (f e.2).wf = true ∧ (f e.2).rootGt (.r v) = true) :
    (createNodeR v (mapE f es.toList)).wf = true ∧
      ∀ k : Rank νr νb, (Tree.rng v es : Tree νr νb α).rootGt k = true →
        (createNodeR v (mapE f es.toList)).rootGt k = true := by
  obtain ⟨_, hp, _, _⟩ := (Tree.wf_rng_iff v es).mp hw
  exact ⟨wf_node_mapL v _ f hp hf,
    fun k hk => rootGt_node_mapL k v _ f hk (fun e he => (hf e he).2)⟩

/-- equal-variable branch: merge two partitions -/
theorem wf_node_apply (v : νr) (ls rs : EdgeL νr νb α)
    (f : Tree νr νb α → Tree νr νb α → Tree νr νb α) (hl : PartL .unb ls) (hr : PartL .unb rs)
    (hf : ∀ l ∈ ls, ∀ r ∈ rs, (f l.2 r.2).wf = true ∧ (f l.2 r.2).rootGt (.r v) = true) :
    (createNodeR v (applyRanges f ls rs)).wf = true := by
  unfold applyRanges
  obtain ⟨p1, p2⟩ := Part_coalesce (PartL_product f ls rs hl hr)
  apply wf_createNodeR v _ p1 p2
  intro e he
  obtain ⟨e', he', h⟩ := coalesce_child _ e he
  obtain ⟨_, l, hl', r, hr', h2⟩ := product_valid f ls rs e' he'
  rw [h, h2]; exact hf l hl' r hr'

theorem rootGt_node_apply (k : Rank νr νb) (v : νr) (ls rs : EdgeL νr νb α)
    (f : Tree νr νb α → Tree νr νb α → Tree νr νb α) (hk : k.lt (.r v) = true)
    (hf : ∀ l ∈ ls, ∀ r ∈ rs, (f l.2 r.2).rootGt (.r v) = true) :
    (createNodeR v (applyRanges f ls rs)).rootGt k = true := by
  unfold applyRanges
  apply rootGt_createNodeR k v _ hk
  intro e he
  obtain ⟨e', he', h⟩ := coalesce_child _ e he
  obtain ⟨_, l, hl', r, hr', h2⟩ := product_valid f ls rs e' he'
  rw [h, h2]; exact Tree.rootGt_of_lt _ hk (hf l hl' r hr')

end Pep508
