/-
The unnamed-requirement parser model (`Model/Unnamed.lean`): totality (no panic, error spans on char
boundaries, the recorded call's span slices the input), the declarative rule for the end of the token
(bracket depth), acceptance / recovery of `url[extras] ; marker`, and the round trip of the glue.
-/
import Pep508.Model.Unnamed
import Pep508.Proofs.ReqRoundTrip
namespace Pep508

open Cursor

/-! ### the token scan, declaratively -/

/-- the bracket depth after reading `ch` at depth `d` (`]` at depth 0 stays at 0) -/
def depthStep (d : Nat) (ch : Char) : Nat :=
  if ch == '[' then d + 1 else if ch == ']' then d - 1 else d

/-- the bracket depth after reading the text `t` from depth `d` -/
def depthAfter (d : Nat) (t : List Char) : Nat := t.foldl depthStep d

def isNl (ch : Char) : Bool := ch == '\r' || ch == '\n'

/-- Where does the token end in the text `s`, read from bracket depth `d`?  Returns the token and the
separator char the scan consumes after it (`[]` or one char).
* a line break ends the token (and is consumed);
* at depth 0, a whitespace char whose following non-whitespace char is `;`, `#` or the end of the
  input ends the token (and is consumed);
* at depth 0, a `;` / `#` immediately followed by whitespace is the LAST char of the token (nothing
  more is consumed);
* the end of the input ends the token. -/
def unnamedEnd : Nat → List Char → List Char × List Char
  | _, [] => ([], [])
  | d, ch :: r =>
    if isNl ch then ([], [ch])
    else if depthStep d ch == 0 && stopWsL ch r then ([], [ch])
    else if depthStep d ch == 0 && gluedL ch r then ([ch], [])
    else (ch :: (unnamedEnd (depthStep d ch) r).1, (unnamedEnd (depthStep d ch) r).2)

theorem unnamedScan_succ (fuel : Nat) (c : Cursor) (len depth : Nat) :
    unnamedScan (fuel + 1) c len depth =
      match c.next with
      | none => (len, c)
      | some ((_, ch), c1) =>
        if isNl ch then (len, c1)
        else if depthStep depth ch == 0 && urlStopWs ch c1 then (len, c1)
        else if depthStep depth ch == 0 && urlGlued ch c1 then (len + utf8Len ch, c1)
        else unnamedScan fuel c1 (len + utf8Len ch) (depthStep depth ch) := by
  rw [unnamedScan]
  cases c.next with
  | none => rfl
  | some v =>
    obtain ⟨⟨p, ch⟩, c1⟩ := v
    simp only [isNl, depthStep, urlStopWs, urlGlued, Bool.and_assoc]
    rfl

/-- (U2) the scanning loop computes `unnamedEnd`: byte length of the token, and the cursor after the
token and the consumed separator -/
theorem unnamedScan_eq (fuel : Nat) (c : Cursor) (len depth : Nat) (hf : c.rest.length < fuel) :
    unnamedScan fuel c len depth =
      (len + strLen (unnamedEnd depth c.rest).1,
       urlAfter c ((unnamedEnd depth c.rest).1.length + (unnamedEnd depth c.rest).2.length)) := by
  induction fuel generalizing c len depth with
  | zero => omega
  | succ fuel ih =>
    rw [unnamedScan_succ]
    obtain ⟨input, rest, pos⟩ := c
    cases rest with
    | nil => simp [Cursor.next, unnamedEnd, urlAfter]
    | cons ch r =>
      simp only [Cursor.next, unnamedEnd, urlStopWs_eq, urlGlued_eq]
      by_cases hnl : isNl ch = true
      · simp only [hnl, if_true]
        simp [urlAfter]
      · simp only [hnl, Bool.false_eq_true, if_false]
        by_cases hws : (depthStep depth ch == 0 && stopWsL ch r) = true
        · simp only [hws, if_true]
          simp [urlAfter]
        · simp only [hws, Bool.false_eq_true, if_false]
          by_cases hgl : (depthStep depth ch == 0 && gluedL ch r) = true
          · simp only [hgl, if_true]
            simp [urlAfter]
          · simp only [hgl, Bool.false_eq_true, if_false]
            rw [ih]
            · have e : ∀ a b : Nat, a + 1 + b = (a + b) + 1 := by intros; omega
              simp only [urlAfter, strLen_cons, List.length_cons, Prod.mk.injEq, Cursor.mk.injEq, true_and, e,
                List.drop_succ_cons, List.take_succ_cons]
              refine ⟨by omega, by omega⟩
            · simp only [List.length_cons] at hf ⊢
              omega

theorem unnamedEnd_split (d : Nat) (s : List Char) :
    ∃ r, s = (unnamedEnd d s).1 ++ (unnamedEnd d s).2 ++ r := by
  induction s generalizing d with
  | nil => exact ⟨[], rfl⟩
  | cons ch r ih =>
    simp only [unnamedEnd]
    by_cases hnl : isNl ch = true
    · simp only [hnl, if_true]; exact ⟨r, rfl⟩
    · simp only [hnl, Bool.false_eq_true, if_false]
      by_cases hws : (depthStep d ch == 0 && stopWsL ch r) = true
      · simp only [hws, if_true]; exact ⟨r, rfl⟩
      · simp only [hws, Bool.false_eq_true, if_false]
        by_cases hgl : (depthStep d ch == 0 && gluedL ch r) = true
        · simp only [hgl, if_true]; exact ⟨r, rfl⟩
        · simp only [hgl, Bool.false_eq_true, if_false]
          obtain ⟨r', h⟩ := ih (depthStep d ch)
          exact ⟨r', by simp only [List.cons_append, List.cons.injEq, true_and]; exact h⟩

/-! ### (U1) totality of `parse_unnamed_url` -/

/-- what is established about an outcome of `parseUnnamedUrl` started at `c`: no panic; an error starts
on a char boundary; on success the cursor only advanced, the call's span starts on a char boundary and
slices a non-empty token `tok` out of the input, the reported end is the end of that span, and the
given text is the token, or the token minus a trailing bracket group -/
def UnnamedUrlOK (c : Cursor) : Res ((UCall × List Char × List (List Nat) × Nat) × Cursor) → Prop
  | .ok ((call, given, _, reqEnd), c') => Adv c c' ∧ Boundary c.input call.start ∧
      reqEnd = call.start + call.len ∧ call.start = c.eatWhitespace.pos ∧
      ∃ tok, sliceBytes c.input call.start call.len = some tok ∧ tok ≠ [] ∧
        (given = tok ∨ ∃ a, tok = given ++ '[' :: (a ++ [']']))
  | .err e => Boundary c.input e.start
  | .panic _ => False

/-- the classification of the expanded URL text: the recorded external call -/
def unnamedCall (env : ProcEnv) (u : List Char) (start len : Nat) : UCall :=
  match splitScheme (expandEnvVars env u) with
  | some (scheme, path) =>
    if scheme == "file".toList then ⟨.file, path, start, len⟩
    else if knownScheme scheme then ⟨.url, expandEnvVars env u, start, len⟩
    else ⟨.path, expandEnvVars env u, start, len⟩
  | none => ⟨.path, expandEnvVars env u, start, len⟩

theorem unnamedCall_span (env : ProcEnv) (u : List Char) (start len : Nat) :
    (unnamedCall env u start len).start = start ∧ (unnamedCall env u start len).len = len := by
  unfold unnamedCall
  split
  · split
    · exact ⟨rfl, rfl⟩
    · split <;> exact ⟨rfl, rfl⟩
  · exact ⟨rfl, rfl⟩

theorem Boundary.suffix {pre s r : List Char} {n : Nat} (h : Boundary s n) :
    Boundary (pre ++ s ++ r) (strLen pre + n) := by
  obtain ⟨p1, r1, rfl, rfl⟩ := h
  exact ⟨pre ++ p1, r1 ++ r, by simp, by simp⟩

theorem parseUnnamedUrl_ok (env : ProcEnv) {c : Cursor} (h : c.Inv) : UnnamedUrlOK c (parseUnnamedUrl env c) := by
  unfold parseUnnamedUrl
  have a0 := adv_eatWhitespace c
  have i0 := a0.inv h
  generalize hp0 : c.eatWhitespace = c0 at a0 i0 ⊢
  dsimp only
  rw [unnamedScan_eq _ _ _ _ (Nat.lt_succ_self _)]
  obtain ⟨r, hs⟩ := unnamedEnd_split 0 c0.rest
  generalize unnamedEnd 0 c0.rest = p at hs ⊢
  obtain ⟨tok, sep⟩ := p
  dsimp only at hs ⊢
  obtain ⟨pre, e1, e2⟩ := i0
  have hin : c0.input = pre ++ tok ++ (sep ++ r) := by rw [e1, hs]; simp
  have hsl : (urlAfter c0 (tok.length + sep.length)).slice c0.pos (0 + strLen tok) = some tok := by
    unfold Cursor.slice urlAfter
    dsimp only
    rw [hin, e2, Nat.zero_add]
    exact sliceBytes_append _ _ _
  have hadv : Adv c (urlAfter c0 (tok.length + sep.length)) := by
    refine a0.trans ⟨rfl, tok ++ sep, ?_, ?_⟩
    · simp only [urlAfter]; rw [hs, ← List.length_append, List.drop_left]
    · simp only [urlAfter]; rw [hs, ← List.length_append, List.take_left]
  have hb : Boundary c.input c0.pos := by rw [← a0.input]; exact ⟨pre, c0.rest, e1, e2⟩
  have hsb : sliceBytes c.input c0.pos (0 + strLen tok) = some tok := by
    rw [← a0.input, hin, e2, Nat.zero_add]; exact sliceBytes_append _ _ _
  rw [hsl]
  simp only [Res.ofSlice]
  by_cases hemp : tok.isEmpty = true
  · simp only [hemp, if_true]
    exact hb
  · simp only [hemp, Bool.false_eq_true, if_false]
    have hne : tok ≠ [] := by intro h0; rw [h0] at hemp; simp at hemp
    simp only [Nat.zero_add] at hsb ⊢
    cases hse : splitExtras tok with
    | none =>
      dsimp only
      change UnnamedUrlOK c (.ok ((unnamedCall env tok c0.pos (strLen tok), tok, [], c0.pos + strLen tok), _))
      obtain ⟨hcs, hcl⟩ := unnamedCall_span env tok c0.pos (strLen tok)
      refine ⟨hadv, by rw [hcs]; exact hb, by rw [hcs, hcl], by rw [hcs, hp0], tok, by rw [hcs, hcl]; exact hsb, hne, .inl rfl⟩
    | some v =>
      obtain ⟨u, e⟩ := v
      dsimp only
      obtain ⟨a, htok, he⟩ := splitExtras_some hse
      have g := parseExtras_fwd (inv_new e)
      cases hpe : parseExtras (Cursor.new e) with
      | panic s => rw [hpe] at g; exact g.elim
      | err er =>
        rw [hpe] at g
        dsimp only
        have g' : Boundary e er.start := g
        show Boundary c.input (c0.pos + strLen u + er.start)
        rw [← a0.input, hin, htok, ← he, e2, ← List.append_assoc, ← strLen_append]
        have := g'.suffix (pre := pre ++ u) (r := sep ++ r)
        simpa [List.append_assoc] using this
      | ok v =>
        obtain ⟨xs, cx⟩ := v
        dsimp only
        change UnnamedUrlOK c (.ok ((unnamedCall env u c0.pos (strLen tok), u, xs, c0.pos + strLen tok), _))
        obtain ⟨hcs, hcl⟩ := unnamedCall_span env u c0.pos (strLen tok)
        refine ⟨hadv, by rw [hcs]; exact hb, by rw [hcs, hcl], by rw [hcs, hp0], tok, by rw [hcs, hcl]; exact hsb, hne,
          .inr ⟨a, htok⟩⟩

/-! ### (U1) totality of `parse_unnamed_requirement` -/

/-- everything after `parse_unnamed_url` -/
def unnamedTail (x : Ext) (input : List Char) (call : UCall) (given : List Char) (extras : List (List Nat))
    (requirementEnd : Nat) (c : Cursor) : UOut :=
  match markerStage x input c.eatWhitespace with
  | .err e => ⟨some call, .err e⟩
  | .panic s => ⟨some call, .panic s⟩
  | .ok (marker, warns, c) =>
    let c := c.eatWhitespace
    match c.next with
    | some ((pos, ch), _) =>
      if marker.isNone && given.getLast? == some ';' then ⟨some call, .err ⟨.string, requirementEnd - 1, 1⟩⟩
      else if marker.isNone && given.getLast? == some '#' then ⟨some call, .err ⟨.string, requirementEnd - 1, 1⟩⟩
      else ⟨some call, .err ⟨.string, pos, utf8Len ch⟩⟩
    | none => ⟨some call, .ok ⟨given, extras, marker.getD (.leaf true), warns⟩⟩

theorem parseUnnamed_eq (env : ProcEnv) (x : Ext) (input : List Char) :
    parseUnnamed env x input =
      match parseUnnamedUrl env (Cursor.new input).eatWhitespace with
      | .err e => ⟨none, .err e⟩
      | .panic s => ⟨none, .panic s⟩
      | .ok ((call, given, extras, requirementEnd), c) => unnamedTail x input call given extras requirementEnd c := by
  rfl

/-- what is established about an outcome of `parseUnnamed`: the recorded call's span starts on a char
boundary and slices a non-empty text out of the input; an error starts on a char boundary; no panic -/
def UOut.Good (input : List Char) (o : UOut) : Prop :=
  (∀ call, o.call = some call → Boundary input call.start ∧
    ∃ tok, sliceBytes input call.start call.len = some tok ∧ tok ≠ []) ∧
  match o.fin with
  | .ok _ => True
  | .err e => Boundary input e.start
  | .panic _ => False

/-- the last byte of a slice whose last char is a one-byte char is a char boundary -/
theorem last_byte_boundary {input tok : List Char} {s l : Nat} {g : Char}
    (h : sliceBytes input s l = some tok) (hl : tok.getLast? = some g) (hg : utf8Len g = 1) :
    Boundary input (s + l - 1) := by
  obtain ⟨pre, r, e1, e2, e3⟩ := sliceBytes_some h
  obtain ⟨ys, rfl⟩ := List.getLast?_eq_some_iff.mp hl
  refine ⟨pre ++ ys, g :: r, by rw [e1]; simp, ?_⟩
  rw [e2, e3]; simp only [strLen_append, strLen_cons, strLen_nil, hg]; omega

theorem token_last_one_byte {given tok : List Char} {g : Char} (hg : g = ';' ∨ g = '#')
    (hl : given.getLast? = some g) (h : given = tok ∨ ∃ a, tok = given ++ '[' :: (a ++ [']'])) :
    ∃ g', tok.getLast? = some g' ∧ utf8Len g' = 1 := by
  rcases h with rfl | ⟨a, rfl⟩
  · exact ⟨g, hl, by rcases hg with rfl | rfl <;> decide⟩
  · refine ⟨']', ?_, by decide⟩
    have : given ++ '[' :: (a ++ [']']) = (given ++ '[' :: a) ++ [']'] := by simp
    rw [this, List.getLast?_concat]

theorem unnamedTail_good (x : Ext) (input : List Char) (call : UCall) (given : List Char)
    (extras : List (List Nat)) (c : Cursor) (hc : c.Inv) (hin : c.input = input)
    (hb : Boundary input call.start) (tok : List Char)
    (hsl : sliceBytes input call.start call.len = some tok) (hne : tok ≠ [])
    (hg : given = tok ∨ ∃ a, tok = given ++ '[' :: (a ++ [']'])) :
    (unnamedTail x input call given extras (call.start + call.len) c).Good input := by
  unfold unnamedTail
  have hcall : ∀ call', some call = some call' → Boundary input call'.start ∧
      ∃ tok, sliceBytes input call'.start call'.len = some tok ∧ tok ≠ [] := by
    intro call' h
    simp only [Option.some.injEq] at h
    subst h
    exact ⟨hb, tok, hsl, hne⟩
  have g := markerStage_ok x (inv_eatWhitespace hc) ((eatWhitespace_input c).trans hin)
  cases hm : markerStage x input c.eatWhitespace with
  | err e => rw [hm] at g; exact ⟨hcall, g⟩
  | panic s => rw [hm] at g; exact g.elim
  | ok v =>
    obtain ⟨marker, warns, c2⟩ := v
    rw [hm] at g
    obtain ⟨i2, in2, _⟩ := g
    dsimp only
    have i3 := inv_eatWhitespace i2
    cases hn : c2.eatWhitespace.next with
    | none => exact ⟨hcall, trivial⟩
    | some v =>
      obtain ⟨⟨pos, ch⟩, c4⟩ := v
      obtain ⟨_, _, _, hbp⟩ := next_spec i3 hn
      rw [eatWhitespace_input, in2] at hbp
      dsimp only
      by_cases h1 : (marker.isNone && given.getLast? == some ';') = true
      · simp only [h1, if_true]
        refine ⟨hcall, ?_⟩
        simp only [Bool.and_eq_true, beq_iff_eq] at h1
        obtain ⟨g', hl, hg'⟩ := token_last_one_byte (.inl rfl) h1.2 hg
        exact last_byte_boundary hsl hl hg'
      · simp only [h1, Bool.false_eq_true, if_false]
        by_cases h2 : (marker.isNone && given.getLast? == some '#') = true
        · simp only [h2, if_true]
          refine ⟨hcall, ?_⟩
          simp only [Bool.and_eq_true, beq_iff_eq] at h2
          obtain ⟨g', hl, hg'⟩ := token_last_one_byte (.inr rfl) h2.2 hg
          exact last_byte_boundary hsl hl hg'
        · simp only [h2, Bool.false_eq_true, if_false]
          exact ⟨hcall, hbp⟩

/-- (U1) the unnamed-requirement parser never panics; every error starts on a char boundary of the
input; the span of the recorded external call starts on a char boundary and slices the input -/
theorem parseUnnamed_good (env : ProcEnv) (x : Ext) (input : List Char) :
    (parseUnnamed env x input).Good input := by
  rw [parseUnnamed_eq]
  have i0 := inv_eatWhitespace (inv_new input)
  have g := parseUnnamedUrl_ok env i0
  cases hr : parseUnnamedUrl env (Cursor.new input).eatWhitespace with
  | err e =>
    rw [hr] at g
    exact ⟨fun call h => by simp at h, g⟩
  | panic s => rw [hr] at g; exact g.elim
  | ok v =>
    obtain ⟨⟨call, given, extras, reqEnd⟩, c'⟩ := v
    rw [hr] at g
    obtain ⟨a1, hb, hre, _, tok, hsl, hne, hg⟩ := g
    subst hre
    exact unnamedTail_good x input call given extras c' (a1.inv i0) a1.input hb tok hsl hne hg

/-! ### (U2) the token rule: sufficient conditions -/

theorem ws_not_bracket {w : Char} (h : isWs w = true) : w ≠ '[' ∧ w ≠ ']' := by
  constructor <;> (intro h0; subst h0; exact absurd h (by decide))

theorem depthStep_ws {w : Char} (h : isWs w = true) (d : Nat) : depthStep d w = d := by
  obtain ⟨h1, h2⟩ := ws_not_bracket h
  simp [depthStep, h1, h2]

theorem depthAfter_cons (d : Nat) (ch : Char) (t : List Char) :
    depthAfter d (ch :: t) = depthAfter (depthStep d ch) t := rfl

/-- a text that contains no line break, and whitespace only inside brackets (read from depth `d`) -/
def bracketedWs : Nat → List Char → Bool
  | _, [] => true
  | d, ch :: t => (!isWs ch || (!isNl ch && depthStep d ch != 0)) && bracketedWs (depthStep d ch) t

/-- (U2) a text `t` without line breaks whose whitespace is all inside brackets, followed by `M` = the
end of the input, a line break, or — the brackets of `t` being closed — a whitespace char whose next
non-whitespace char is `;`, `#` or the end; `t` does not end with a top-level `;` / `#` when something
follows: the token is exactly `t`, and one separator char is consumed -/
theorem unnamedEnd_token (d : Nat) (t M : List Char) (ht : bracketedWs d t = true)
    (hM : M = [] ∨ ∃ w r, M = w :: r ∧ (isNl w = true ∨ (depthAfter d t = 0 ∧ stopWsL w r = true)))
    (hlast : M ≠ [] → depthAfter d t = 0 → t.getLast? ≠ some ';' ∧ t.getLast? ≠ some '#') :
    unnamedEnd d (t ++ M) = (t, M.take 1) := by
  induction t generalizing d with
  | nil =>
    rcases hM with rfl | ⟨w, r, rfl, hw⟩
    · rfl
    · simp only [List.nil_append, unnamedEnd]
      by_cases hnl : isNl w = true
      · simp [hnl]
      · rcases hw with hw | ⟨hd, hw⟩
        · exact absurd hw hnl
        · have hws : isWs w = true := by simp only [stopWsL, Bool.and_eq_true] at hw; exact hw.1
          have hd0 : d = 0 := hd
          simp [hnl, depthStep_ws hws, hd0, hw]
  | cons ch t ih =>
    simp only [bracketedWs, Bool.and_eq_true] at ht
    obtain ⟨hch, ht'⟩ := ht
    have hnl : isNl ch = false := by
      cases hn : isNl ch with
      | false => rfl
      | true => simp [hn, newline_isWs hn] at hch
    have hst : (depthStep d ch == 0 && stopWsL ch (t ++ M)) = false := by
      cases hw : isWs ch with
      | false => simp [stopWsL, hw]
      | true => simp [hw, hnl] at hch; simp [hch]
    have hgl : (depthStep d ch == 0 && gluedL ch (t ++ M)) = false := by
      cases hd : depthStep d ch == 0 with
      | false => rfl
      | true =>
        have hd0 : depthStep d ch = 0 := by simpa using hd
        simp only [Bool.true_and]
        cases t with
        | cons a t' =>
          cases hwa : isWs a with
          | false => simp [gluedL, hwa]
          | true =>
            simp only [bracketedWs, Bool.and_eq_true] at ht'
            have := ht'.1
            simp [hwa, depthStep_ws hwa, hd0] at this
        | nil =>
          rcases hM with rfl | ⟨w, r, rfl, _⟩
          · simp [gluedL]
          · have := hlast (by simp) (by simpa [depthAfter] using hd0)
            simp only [List.getLast?_singleton, ne_eq, Option.some.injEq] at this
            simp [gluedL, this.1, this.2]
    simp only [List.cons_append, unnamedEnd, hnl, hst, hgl, Bool.false_eq_true, if_false]
    rw [ih (depthStep d ch) ht' (by simpa [depthAfter_cons] using hM)]
    intro hne hd
    have := hlast hne (by rw [depthAfter_cons]; exact hd)
    cases t with
    | nil => simp
    | cons a t' => simpa [List.getLast?_cons_cons] using this

theorem unnamedEnd_cons (d : Nat) (ch : Char) (r : List Char) :
    unnamedEnd d (ch :: r) =
      if isNl ch then ([], [ch])
      else if depthStep d ch == 0 && stopWsL ch r then ([], [ch])
      else if depthStep d ch == 0 && gluedL ch r then ([ch], [])
      else (ch :: (unnamedEnd (depthStep d ch) r).1, (unnamedEnd (depthStep d ch) r).2) := by
  rw [unnamedEnd]

/-- (U2) the glue rule: `t` (no line break, whitespace only inside brackets) ends, its brackets closed,
with `;` / `#`, and a whitespace char follows: the token is `t` and NOTHING more is consumed -/
theorem unnamedEnd_token_glued (d : Nat) (t : List Char) (g w : Char) (r : List Char)
    (ht : bracketedWs d t = true) (hg : g = ';' ∨ g = '#') (hl : t.getLast? = some g)
    (hd : depthAfter d t = 0) (hw : isWs w = true) :
    unnamedEnd d (t ++ w :: r) = (t, []) := by
  have hgws : isWs g = false := by rcases hg with rfl | rfl <;> decide
  have hgnl : isNl g = false := by rcases hg with rfl | rfl <;> decide
  have hgd : ∀ d, depthStep d g = d := by intro d; rcases hg with rfl | rfl <;> simp [depthStep]
  induction t generalizing d with
  | nil => simp at hl
  | cons ch t ih =>
    simp only [bracketedWs, Bool.and_eq_true] at ht
    obtain ⟨hch, ht'⟩ := ht
    cases t with
    | nil =>
      simp only [List.getLast?_singleton, Option.some.injEq] at hl
      subst hl
      have hd0 : d = 0 := by simpa [depthAfter, hgd] using hd
      have hgl : gluedL ch (w :: r) = true := by
        simp only [gluedL, List.head?_cons, hw, Bool.and_true, Bool.or_eq_true, beq_iff_eq]
        exact hg
      simp [unnamedEnd, hgnl, hgd, hd0, stopWsL, hgws, hgl]
    | cons a t' =>
      have hnl : isNl ch = false := by
        cases hn : isNl ch with
        | false => rfl
        | true => simp [hn, newline_isWs hn] at hch
      have hst : (depthStep d ch == 0 && stopWsL ch ((a :: t') ++ w :: r)) = false := by
        cases hw : isWs ch with
        | false => simp [stopWsL, hw]
        | true => simp [hw, hnl] at hch; simp [hch]
      have hgl : (depthStep d ch == 0 && gluedL ch ((a :: t') ++ w :: r)) = false := by
        cases hd : depthStep d ch == 0 with
        | false => rfl
        | true =>
          have hd0 : depthStep d ch = 0 := by simpa using hd
          simp only [Bool.true_and]
          cases hwa : isWs a with
          | false => simp [gluedL, hwa]
          | true =>
            simp only [bracketedWs, Bool.and_eq_true] at ht'
            have := ht'.1
            simp [hwa, depthStep_ws hwa, hd0] at this
      have := ih (depthStep d ch) ht' (by simpa [List.getLast?_cons_cons] using hl)
        (by rw [depthAfter_cons] at hd; exact hd)
      rw [List.cons_append, unnamedEnd_cons]
      simp only [hnl, hst, hgl, Bool.false_eq_true, if_false, this]
theorem bracketedWs_of_no_ws (d : Nat) (t : List Char) (ht : ∀ c ∈ t, isWs c = false) : bracketedWs d t = true := by
  induction t generalizing d with
  | nil => rfl
  | cons ch t ih =>
    simp only [bracketedWs, Bool.and_eq_true]
    exact ⟨by simp [ht ch List.mem_cons_self], ih _ (fun c h => ht c (List.mem_cons_of_mem _ h))⟩

/-- (U2a) a token `t` that contains no whitespace (hence no line break), followed by the end of the input, or
— its brackets being balanced (depth 0 at its end) and `t` not ending in `;` / `#` — by a whitespace char
whose next non-whitespace char is `;` / `#` / the end (e.g. ` ;…`, ` #…`): the scan returns exactly `t`
and consumes that one whitespace char -/
theorem unnamedEnd_no_ws (t M : List Char) (ht : ∀ c ∈ t, isWs c = false)
    (hM : M = [] ∨ ∃ w r, M = w :: r ∧ stopWsL w r = true ∧ depthAfter 0 t = 0 ∧
      t.getLast? ≠ some ';' ∧ t.getLast? ≠ some '#') :
    unnamedEnd 0 (t ++ M) = (t, M.take 1) := by
  apply unnamedEnd_token 0 t M (bracketedWs_of_no_ws 0 t ht)
  · rcases hM with h | ⟨w, r, h, hw, hd, _⟩
    · exact .inl h
    · exact .inr ⟨w, r, h, .inr ⟨hd, hw⟩⟩
  · intro hne _
    rcases hM with h | ⟨w, r, h, hw, hd, hl⟩
    · exact absurd h hne
    · exact hl

/-- (U2b) a whitespace char that is not a line break, inside a bracket group (depth ≥ 1), never ends
the token -/
theorem unnamedEnd_ws_in_brackets (d : Nat) (w : Char) (r : List Char) (hw : isWs w = true) (hnl : isNl w = false) :
    unnamedEnd (d + 1) (w :: r) = (w :: (unnamedEnd (d + 1) r).1, (unnamedEnd (d + 1) r).2) := by
  simp [unnamedEnd, hnl, depthStep_ws hw]

/-! ### `split_extras` on a text that ends with a bracket group -/

theorem splitExtras_append (u a : List Char) (ha : ∀ c ∈ a, c ≠ '[' ∧ c ≠ ']') :
    splitExtras (u ++ '[' :: (a ++ [']'])) = some (u, '[' :: (a ++ [']'])) := by
  unfold splitExtras
  have hrev : (u ++ '[' :: (a ++ [']'])).reverse = ']' :: (a.reverse ++ '[' :: u.reverse) := by simp
  rw [hrev]
  split
  case h_2 hx => exact absurd rfl (hx _)
  rename_i revRest heq
  simp only [List.cons.injEq, true_and] at heq
  subst heq
  dsimp only
  have h1 : ∀ c ∈ a.reverse, (c != ']') = true := by
    intro c hc; simpa using (ha c (List.mem_reverse.mp hc)).2
  have h2 : ∀ c ∈ a.reverse, (c != '[') = true := by
    intro c hc; simpa using (ha c (List.mem_reverse.mp hc)).1
  rw [List.takeWhile_append_of_pos h1, span_eq, List.takeWhile_append_of_pos h2,
    List.dropWhile_append_of_pos h2]
  have h3 : ('[' != ']') = true := by decide
  have e1 : List.takeWhile (fun a => a != ']') ('[' :: u.reverse) =
      '[' :: List.takeWhile (fun a => a != ']') u.reverse := List.takeWhile_cons_of_pos (by decide)
  rw [e1]
  have e2 : ∀ l : List Char, List.takeWhile (fun a => a != '[') ('[' :: l) = [] :=
    fun l => List.takeWhile_cons_of_neg (by decide)
  have e3 : ∀ l : List Char, List.dropWhile (fun a => a != '[') ('[' :: l) = '[' :: l :=
    fun l => List.dropWhile_cons_of_neg (by decide)
  rw [e2, e3]
  simp only [List.append_nil]
  have hn : (u ++ '[' :: (a ++ [']'])).length - (a.reverse.length + 2) = u.length := by
    simp only [List.length_append, List.length_cons, List.length_reverse, List.length_nil]; omega
  rw [hn, List.take_left' rfl, List.drop_left' rfl]
/-! ### `parse_unnamed_url` through the declarative token rule -/

/-- `preprocess_unnamed_url` on the scanned token `tok` (span `start`, `strLen tok`) -/
def unnamedPre (env : ProcEnv) (start : Nat) (tok : List Char) (c1 : Cursor) :
    Res ((UCall × List Char × List (List Nat) × Nat) × Cursor) :=
  if tok.isEmpty then serr start (strLen tok)
  else
    let (u, ex) := match splitExtras tok with
      | some (u, e) => (u, some e)
      | none => (tok, none)
    let extrasRes : Res (List (List Nat)) :=
      match ex with
      | none => .ok []
      | some e =>
        match parseExtras (Cursor.new e) with
        | .ok (xs, _) => .ok xs
        | .err er => .err ⟨er.kind, start + strLen u + er.start, er.len⟩
        | .panic s => .panic s
    match extrasRes with
    | .panic s => .panic s
    | .err e => .err e
    | .ok extras => .ok ((unnamedCall env u start (strLen tok), u, extras, start + strLen tok), c1)

/-- (U2) at the level of `parse_unnamed_url`: after skipping whitespace, the token is `unnamedEnd 0` of
the remaining text, the cursor moves past the token and the consumed separator -/
theorem parseUnnamedUrl_eq (env : ProcEnv) {c : Cursor} (h : c.Inv) :
    parseUnnamedUrl env c =
      unnamedPre env c.eatWhitespace.pos (unnamedEnd 0 c.eatWhitespace.rest).1
        (urlAfter c.eatWhitespace ((unnamedEnd 0 c.eatWhitespace.rest).1.length +
          (unnamedEnd 0 c.eatWhitespace.rest).2.length)) := by
  have i0 := inv_eatWhitespace h
  unfold parseUnnamedUrl
  generalize c.eatWhitespace = c0 at i0
  dsimp only
  rw [unnamedScan_eq _ _ _ _ (Nat.lt_succ_self _)]
  obtain ⟨r, hs⟩ := unnamedEnd_split 0 c0.rest
  generalize unnamedEnd 0 c0.rest = p at hs ⊢
  obtain ⟨tok, sep⟩ := p
  dsimp only at hs ⊢
  obtain ⟨pre, e1, e2⟩ := i0
  have hsl : (urlAfter c0 (tok.length + sep.length)).slice c0.pos (0 + strLen tok) = some tok := by
    unfold Cursor.slice urlAfter
    dsimp only
    rw [e1, hs, e2, Nat.zero_add, List.append_assoc, ← List.append_assoc]
    exact sliceBytes_append _ _ _
  rw [hsl]
  simp only [Res.ofSlice, Nat.zero_add]
  rfl

/-! ### (U3) acceptance: `url[extras] ; marker` -/

theorem mem_joinComma {c : Char} : ∀ (es : List (List Char)), c ∈ joinComma es → c = ',' ∨ ∃ e ∈ es, c ∈ e
  | [] => by simp [joinComma]
  | [a] => by intro h; exact .inr ⟨a, by simp, by simpa [joinComma] using h⟩
  | a :: b :: rest => by
    intro h
    simp only [joinComma, List.mem_append, List.mem_cons] at h
    rcases h with h | h | h
    · exact .inr ⟨a, by simp, h⟩
    · exact .inl h
    · rcases mem_joinComma (b :: rest) h with h' | ⟨e, he, hc⟩
      · exact .inl h'
      · exact .inr ⟨e, List.mem_cons_of_mem _ he, hc⟩

/-- the chars of a printed extras body: name chars and commas -/
theorem joinComma_chars (es : List (List Char)) (hes : ∀ e ∈ es, NameWF e) :
    ∀ c ∈ joinComma es, isWs c = false ∧ c ≠ '[' ∧ c ≠ ']' := by
  intro c hc
  rcases mem_joinComma es hc with rfl | ⟨e, he, hce⟩
  · decide
  · have hn := (hes e he).2.2.1 c hce
    have := nameChar_plain hn
    refine ⟨this.1, this.2.2, ?_⟩
    intro h0; subst h0; exact absurd hn (by decide)

theorem extrasTxt_no_ws (es : List (List Char)) (hes : ∀ e ∈ es, NameWF e) :
    ∀ c ∈ extrasTxt es, isWs c = false := by
  intro c hc
  unfold extrasTxt at hc
  by_cases he : es.isEmpty = true
  · simp [he] at hc
  · simp only [he, Bool.false_eq_true, if_false, List.mem_cons, List.mem_append, List.mem_nil_iff, or_false] at hc
    rcases hc with (rfl | h) | rfl
    · decide
    · exact (joinComma_chars es hes c h).1
    · decide

theorem depthAfter_append (d : Nat) (a b : List Char) : depthAfter d (a ++ b) = depthAfter (depthAfter d a) b := by
  simp [depthAfter, List.foldl_append]

theorem depthAfter_plain (d : Nat) (t : List Char) (ht : ∀ c ∈ t, c ≠ '[' ∧ c ≠ ']') : depthAfter d t = d := by
  induction t generalizing d with
  | nil => rfl
  | cons ch t ih =>
    rw [depthAfter_cons]
    have := ht ch List.mem_cons_self
    have e : depthStep d ch = d := by simp [depthStep, this.1, this.2]
    rw [e]
    exact ih d (fun c h => ht c (List.mem_cons_of_mem _ h))

theorem depthAfter_extrasTxt (es : List (List Char)) (hes : ∀ e ∈ es, NameWF e) :
    depthAfter 0 (extrasTxt es) = 0 := by
  unfold extrasTxt
  by_cases he : es.isEmpty = true
  · simp [he, depthAfter]
  · simp only [he, Bool.false_eq_true, if_false]
    show depthAfter 0 ('[' :: (joinComma es ++ [']'])) = 0
    rw [depthAfter_cons, depthAfter_append,
      depthAfter_plain _ _ (fun c h => (joinComma_chars es hes c h).2)]
    rfl

theorem extrasTxt_last (e : List Char) (es : List (List Char)) : (extrasTxt (e :: es)).getLast? = some ']' := by
  have : extrasTxt (e :: es) = ('[' :: joinComma (e :: es)) ++ [']'] := rfl
  rw [this, List.getLast?_concat]

/-- what may follow the token: nothing, a line break, or a whitespace char whose next non-whitespace
char is `;`, `#` or the end of the input -/
def TokenSep (M : List Char) : Prop :=
  M = [] ∨ ∃ w r, M = w :: r ∧ (isNl w = true ∨ stopWsL w r = true)

theorem tokenSep_markerTxt (m : Option (List Char)) : TokenSep (markerTxt m) := by
  cases m with
  | none => exact .inl rfl
  | some m =>
    refine .inr ⟨' ', ';' :: ' ' :: m, rfl, .inr ?_⟩
    have h1 : isWs ' ' = true := by decide
    have h2 : isWs ';' = false := by decide
    simp [stopWsL, h1, h2]

/-- the token of `u[extras]` followed by a separator text `M` -/
theorem unnamedEnd_printed (u : List Char) (es : List (List Char)) (M : List Char)
    (hu : ∀ c ∈ u, isWs c = false ∧ c ≠ '[' ∧ c ≠ ']') (hes : ∀ e ∈ es, NameWF e) (hM : TokenSep M)
    (hlast : M ≠ [] → es = [] → u.getLast? ≠ some ';' ∧ u.getLast? ≠ some '#') :
    unnamedEnd 0 ((u ++ extrasTxt es) ++ M) = (u ++ extrasTxt es, M.take 1) := by
  have hd : depthAfter 0 (u ++ extrasTxt es) = 0 := by
    rw [depthAfter_append, depthAfter_plain _ _ (fun c h => (hu c h).2)]
    exact depthAfter_extrasTxt es hes
  apply unnamedEnd_token
  · apply bracketedWs_of_no_ws
    intro c hc
    rcases List.mem_append.mp hc with h | h
    · exact (hu c h).1
    · exact extrasTxt_no_ws es hes c h
  · rcases hM with h | ⟨w, r, h, hw⟩
    · exact .inl h
    · refine .inr ⟨w, r, h, ?_⟩
      rcases hw with hw | hw
      · exact .inl hw
      · exact .inr ⟨hd, hw⟩
  · intro hne _
    cases es with
    | nil =>
      have : extrasTxt [] = [] := rfl
      rw [this, List.append_nil]
      exact hlast hne rfl
    | cons e es =>
      rw [List.getLast?_append, extrasTxt_last]
      simp

/-- `preprocess_unnamed_url` on the token `u[extras]` -/
theorem unnamedPre_printed (env : ProcEnv) (start : Nat) (u : List Char) (es : List (List Char)) (c1 : Cursor)
    (hne : u ≠ []) (hu : ∀ c ∈ u, c ≠ '[' ∧ c ≠ ']') (hes : ∀ e ∈ es, NameWF e) :
    unnamedPre env start (u ++ extrasTxt es) c1 =
      .ok ((unnamedCall env u start (strLen (u ++ extrasTxt es)), u, es.map normName,
        start + strLen (u ++ extrasTxt es)), c1) := by
  unfold unnamedPre
  have hemp : (u ++ extrasTxt es).isEmpty = false := by
    cases u with
    | nil => exact absurd rfl hne
    | cons a t => rfl
  simp only [hemp, Bool.false_eq_true, if_false]
  cases es with
  | nil =>
    have : extrasTxt [] = [] := rfl
    rw [this, List.append_nil]
    have hn : splitExtras u = none := by
      apply splitExtras_none_of_last
      intro h
      exact (hu ']' (List.mem_of_getLast? h)).2 rfl
    simp only [hn]
    rfl
  | cons e es =>
    have ht : extrasTxt (e :: es) = '[' :: (joinComma (e :: es) ++ [']']) := rfl
    rw [ht, splitExtras_append u _ (fun c h => (joinComma_chars (e :: es) hes c h).2)]
    dsimp only
    have hp := parseExtras_printed e es hes ('[' :: joinComma (e :: es) ++ ']' :: []) [] 0 (inv_new _)
    have hnew : Cursor.new ('[' :: (joinComma (e :: es) ++ [']'])) =
        ⟨'[' :: joinComma (e :: es) ++ ']' :: [], '[' :: joinComma (e :: es) ++ ']' :: [], 0⟩ := rfl
    rw [hnew, hp]

theorem unnamedTail_end (x : Ext) (I : List Char) (call : UCall) (given : List Char) (extras : List (List Nat))
    (re : Nat) (c : Cursor) (hrest : c.eatWhitespace.rest = []) :
    unnamedTail x I call given extras re c = ⟨some call, .ok ⟨given, extras, .leaf true, []⟩⟩ := by
  unfold unnamedTail
  have hpk : c.eatWhitespace.peekChar = none := by unfold Cursor.peekChar; rw [hrest]; rfl
  simp only [markerStage, hpk]
  have : (none == some ';') = false := rfl
  simp only [this, Bool.false_eq_true, if_false, eatWhitespace_idem, rest_nil_next hrest]
  rfl

theorem unnamedTail_marker (x : Ext) (I : List Char) (call : UCall) (given : List Char) (extras : List (List Nat))
    (re : Nat) (c : Cursor) (inp' R : List Char) (P : Nat) (st : PState)
    (hws : c.eatWhitespace = ⟨inp', ';' :: R, P⟩)
    (hm : parseMarkersCursor x (4 * I.length + 16) ⟨inp', R, P + 1⟩ = .ok st) :
    unnamedTail x I call given extras re c =
      ⟨some call, .ok ⟨given, extras, st.tree.getD (.leaf true), st.warns⟩⟩ := by
  have h1 : utf8Len ';' = 1 := by decide
  have hrest := parseMarkersCursor_ok_rest x _ _ st hm
  have hew : st.cur.eatWhitespace = st.cur := eatWhitespace_of_head (by rw [hrest]; intro ch h; simp at h)
  unfold unnamedTail
  rw [hws]
  simp only [markerStage, Cursor.peekChar, List.head?_cons, beq_self_eq_true, if_true, Cursor.next, h1, hm,
    hew, hrest]

/-- `parse_unnamed_url` on `ws u[extras] sep R`, given that the token rule ends the token after `u[extras]`
and consumes `sep` -/
theorem parseUnnamedUrl_of_end (env : ProcEnv) (ws u : List Char) (es : List (List Char)) (sep R : List Char)
    (hws : ∀ c ∈ ws, isWs c = true) (hne : u ≠ [])
    (hu : ∀ c ∈ u, isWs c = false ∧ c ≠ '[' ∧ c ≠ ']') (hes : ∀ e ∈ es, NameWF e)
    (hend : unnamedEnd 0 ((u ++ extrasTxt es) ++ (sep ++ R)) = (u ++ extrasTxt es, sep)) :
    parseUnnamedUrl env (Cursor.new (ws ++ ((u ++ extrasTxt es) ++ (sep ++ R)))).eatWhitespace =
      .ok ((unnamedCall env u (strLen ws) (strLen (u ++ extrasTxt es)), u, es.map normName,
          strLen ws + strLen (u ++ extrasTxt es)),
        ⟨ws ++ ((u ++ extrasTxt es) ++ (sep ++ R)), R,
          strLen ws + strLen (u ++ extrasTxt es) + strLen sep⟩) := by
  have hhead : ∀ ch, ((u ++ extrasTxt es) ++ (sep ++ R)).head? = some ch → isWs ch = false := by
    intro ch h
    cases u with
    | nil => exact absurd rfl hne
    | cons a t => simp at h; subst h; exact (hu a (by simp)).1
  generalize hI : ws ++ ((u ++ extrasTxt es) ++ (sep ++ R)) = I
  have hew : (Cursor.new I).eatWhitespace = ⟨I, (u ++ extrasTxt es) ++ (sep ++ R), strLen ws⟩ := by
    have := eatWhitespace_ws I ws ((u ++ extrasTxt es) ++ (sep ++ R)) 0 hws hhead
    rw [hI] at this
    simpa [Cursor.new] using this
  have hinv : Inv ⟨I, (u ++ extrasTxt es) ++ (sep ++ R), strLen ws⟩ := by
    rw [← hew]; exact inv_eatWhitespace (inv_new I)
  rw [hew, parseUnnamedUrl_eq env hinv, eatWhitespace_id _ _ _ hhead]
  dsimp only
  rw [hend]
  dsimp only
  rw [unnamedPre_printed env _ u es _ hne (fun c h => (hu c h).2) hes]
  generalize u ++ extrasTxt es = tok
  simp only [urlAfter, Res.ok.injEq, Prod.mk.injEq, Cursor.mk.injEq, true_and]
  have e : tok ++ (sep ++ R) = (tok ++ sep) ++ R := by simp
  rw [e, ← List.length_append, List.drop_left, List.take_left, strLen_append, Nat.add_assoc]
  exact ⟨rfl, rfl⟩

/-- `parse_unnamed_url` on `ws u[extras]` followed by a separator text `M` (nothing, a line break, or
whitespace before `;` / `#` / the end) -/
theorem parseUnnamedUrl_printed (env : ProcEnv) (ws u : List Char) (es : List (List Char)) (M : List Char)
    (hws : ∀ c ∈ ws, isWs c = true) (hne : u ≠ [])
    (hu : ∀ c ∈ u, isWs c = false ∧ c ≠ '[' ∧ c ≠ ']') (hes : ∀ e ∈ es, NameWF e) (hM : TokenSep M)
    (hlast : M ≠ [] → es = [] → u.getLast? ≠ some ';' ∧ u.getLast? ≠ some '#') :
    parseUnnamedUrl env (Cursor.new (ws ++ ((u ++ extrasTxt es) ++ M))).eatWhitespace =
      .ok ((unnamedCall env u (strLen ws) (strLen (u ++ extrasTxt es)), u, es.map normName,
          strLen ws + strLen (u ++ extrasTxt es)),
        ⟨ws ++ ((u ++ extrasTxt es) ++ M), M.drop 1,
          strLen ws + strLen (u ++ extrasTxt es) + strLen (M.take 1)⟩) := by
  have := parseUnnamedUrl_of_end env ws u es (M.take 1) (M.drop 1) hws hne hu hes
    (by rw [List.take_append_drop]; exact unnamedEnd_printed u es M hu hes hM hlast)
  rw [List.take_append_drop] at this
  exact this

/-- `parse_unnamed_url` on `ws u` where `u` ends with `;` / `#` and whitespace follows: the token is `u`,
the cursor stays right after it -/
theorem parseUnnamedUrl_glued (env : ProcEnv) (ws u : List Char) (g w : Char) (R : List Char)
    (hws : ∀ c ∈ ws, isWs c = true)
    (hu : ∀ c ∈ u, isWs c = false ∧ c ≠ '[' ∧ c ≠ ']')
    (hg : g = ';' ∨ g = '#') (hl : u.getLast? = some g) (hw : isWs w = true) :
    parseUnnamedUrl env (Cursor.new (ws ++ ((u ++ extrasTxt []) ++ ([] ++ w :: R)))).eatWhitespace =
      .ok ((unnamedCall env u (strLen ws) (strLen (u ++ extrasTxt [])), u, [],
          strLen ws + strLen (u ++ extrasTxt [])),
        ⟨ws ++ ((u ++ extrasTxt []) ++ ([] ++ w :: R)), w :: R,
          strLen ws + strLen (u ++ extrasTxt []) + strLen []⟩) := by
  have hne : u ≠ [] := by intro h; rw [h] at hl; simp at hl
  refine parseUnnamedUrl_of_end env ws u [] [] (w :: R) hws hne hu (by intro e h; simp at h) ?_
  have : extrasTxt [] = [] := rfl
  rw [this, List.append_nil, List.nil_append]
  exact unnamedEnd_token_glued 0 u g w R (bracketedWs_of_no_ws 0 u (fun c h => (hu c h).1)) hg hl
    (depthAfter_plain 0 u (fun c h => (hu c h).2)) hw

/-- (U3) `ws u[extras]`: accepted; the given text is `u` verbatim, the extras are recovered, the recorded
call spans `u[extras]` and carries the classified expansion of `u` -/
theorem parseUnnamed_printed (env : ProcEnv) (x : Ext) (ws u : List Char) (es : List (List Char))
    (hws : ∀ c ∈ ws, isWs c = true) (hne : u ≠ [])
    (hu : ∀ c ∈ u, isWs c = false ∧ c ≠ '[' ∧ c ≠ ']') (hes : ∀ e ∈ es, NameWF e) :
    parseUnnamed env x (ws ++ ((u ++ extrasTxt es) ++ markerTxt none)) =
      ⟨some (unnamedCall env u (strLen ws) (strLen (u ++ extrasTxt es))),
        .ok ⟨u, es.map normName, .leaf true, []⟩⟩ := by
  rw [parseUnnamed_eq, parseUnnamedUrl_printed env ws u es (markerTxt none) hws hne hu hes (tokenSep_markerTxt none)
    (fun h => absurd rfl h)]
  dsimp only
  exact unnamedTail_end x _ _ _ _ _ _ (by
    rw [eatWhitespace_id _ _ _ (by intro ch h; simp [markerTxt] at h)]; rfl)

/-- (U3) `ws u[extras] ; m`: if the marker parser, started on the marker text `m` (with the fuel the
unnamed parser gives it), returns `st`, the unnamed parser accepts with `st`'s tree and warnings; given
text, extras and call as without a marker.  (`u` may even end with `;` / `#`: the scan then stops right
after `u` instead of after the blank, with the same result.) -/
theorem parseUnnamed_printed_marker (env : ProcEnv) (x : Ext) (ws u : List Char) (es : List (List Char))
    (m : List Char)
    (hws : ∀ c ∈ ws, isWs c = true) (hne : u ≠ [])
    (hu : ∀ c ∈ u, isWs c = false ∧ c ≠ '[' ∧ c ≠ ']') (hes : ∀ e ∈ es, NameWF e)
    (st : PState)
    (hst : parseMarkersCursor x (4 * (ws ++ ((u ++ extrasTxt es) ++ markerTxt (some m))).length + 16)
      ⟨ws ++ ((u ++ extrasTxt es) ++ markerTxt (some m)), m, strLen ws + strLen (u ++ extrasTxt es) + 3⟩ = .ok st) :
    parseUnnamed env x (ws ++ ((u ++ extrasTxt es) ++ markerTxt (some m))) =
      ⟨some (unnamedCall env u (strLen ws) (strLen (u ++ extrasTxt es))),
        .ok ⟨u, es.map normName, st.tree.getD (.leaf true), st.warns⟩⟩ := by
  have hsemi : isWs ';' = false := by decide
  have hsp : isWs ' ' = true := by decide
  have h1 : utf8Len ' ' = 1 := by decide
  by_cases hlast : es = [] → u.getLast? ≠ some ';' ∧ u.getLast? ≠ some '#'
  · rw [parseUnnamed_eq, parseUnnamedUrl_printed env ws u es (markerTxt (some m)) hws hne hu hes
      (tokenSep_markerTxt (some m)) (fun _ => hlast)]
    dsimp only
    generalize hI : ws ++ ((u ++ extrasTxt es) ++ markerTxt (some m)) = I at hst ⊢
    refine unnamedTail_marker x I _ _ _ _ _ I (' ' :: m) _ st
      (eatWhitespace_id _ _ _ (by intro c h; simp [markerTxt] at h; subst h; exact hsemi)) ?_
    rw [parseMarkersCursor_blank]
    simp only [markerTxt, List.take_succ_cons, List.take_zero, strLen_cons, strLen_nil, h1]
    have e : strLen ws + strLen (u ++ extrasTxt es) + (1 + 0) + 1 + 1 = strLen ws + strLen (u ++ extrasTxt es) + 3 := by
      omega
    rw [e]
    exact hst
  · have hes0 : es = [] := by
      cases es with
      | nil => rfl
      | cons e es => exact absurd (fun h => absurd h (by simp)) hlast
    subst hes0
    obtain ⟨g, hg, hl⟩ : ∃ g, (g = ';' ∨ g = '#') ∧ u.getLast? = some g := by
      by_cases h1 : u.getLast? = some ';'
      · exact ⟨';', .inl rfl, h1⟩
      · by_cases h2 : u.getLast? = some '#'
        · exact ⟨'#', .inr rfl, h2⟩
        · exact absurd (fun _ => ⟨h1, h2⟩) hlast
    have hp := parseUnnamedUrl_glued env ws u g ' ' (';' :: ' ' :: m) hws hu hg hl hsp
    have hM : ([] : List Char) ++ ' ' :: ';' :: ' ' :: m = markerTxt (some m) := rfl
    rw [hM] at hp
    rw [parseUnnamed_eq, hp]
    dsimp only
    generalize hI : ws ++ ((u ++ extrasTxt []) ++ markerTxt (some m)) = I at hst ⊢
    have hew := eatWhitespace_ws I [' '] (';' :: ' ' :: m) (strLen ws + strLen (u ++ extrasTxt []) + strLen [])
      (by intro c h; simp at h; subst h; exact hsp) (by intro c h; simp at h; subst h; exact hsemi)
    refine unnamedTail_marker x I _ _ _ _ _ I (' ' :: m) _ st hew ?_
    rw [parseMarkersCursor_blank]
    simp only [strLen_cons, strLen_nil, h1]
    have e : strLen ws + strLen (u ++ extrasTxt []) + 0 + (1 + 0) + 1 + 1 =
        strLen ws + strLen (u ++ extrasTxt []) + 3 := by omega
    rw [e]
    exact hst

/-! ### (U4) the printed form and its round trip -/

theorem foldl_comma_ne (acc : List Char) (hacc : acc ≠ []) (es : List (List Char)) :
    es.foldl (fun acc e => if acc.isEmpty then e else acc ++ ',' :: e) acc = acc ++ tailTxt es := by
  induction es generalizing acc with
  | nil => simp [tailTxt]
  | cons e es ih =>
    have h : acc.isEmpty = false := by cases acc with | nil => exact absurd rfl hacc | cons a t => rfl
    simp only [List.foldl_cons, h, Bool.false_eq_true, if_false]
    rw [ih _ (by simp), tailTxt]
    simp

theorem foldl_comma (es : List (List Char)) (hes : ∀ e ∈ es, e ≠ []) :
    es.foldl (fun acc e => if acc.isEmpty then e else acc ++ ',' :: e) [] = joinComma es := by
  cases es with
  | nil => rfl
  | cons e es =>
    simp only [List.foldl_cons, List.isEmpty_nil, if_true]
    rw [foldl_comma_ne e (hes e List.mem_cons_self), joinComma_cons]

/-- (U4) the printed form of an unnamed requirement is `url[e1,e2,…] ; marker` -/
theorem showUnnamed_eq (u : List Char) (es : List (List Char)) (m : Option (List Char))
    (hes : ∀ e ∈ es, e ≠ []) :
    showUnnamed u es m = (u ++ extrasTxt es) ++ markerTxt m := by
  unfold showUnnamed extrasTxt
  rw [foldl_comma es hes]
  cases m <;> rfl
/-! ### (U2) `unnamedEnd` is "the first stop event", spelled out -/

/-- a stop event at the head of `s`, the text before it having left the bracket depth at `d`: the end of
the input, a line break, or — at depth 0 — a whitespace char whose following non-whitespace char is
`;`, `#` or the end of the input -/
def stopAtD (d : Nat) : List Char → Bool
  | [] => true
  | ch :: r => isNl ch || (depthStep d ch == 0 && stopWsL ch r)

/-- a glue event at the head of `s`: at depth 0, a `;` / `#` immediately followed by whitespace -/
def gluedAtD (d : Nat) : List Char → Bool
  | [] => false
  | ch :: r => depthStep d ch == 0 && gluedL ch r

theorem unnamedEnd_spec (d : Nat) (s : List Char) :
    ∃ r, s = (unnamedEnd d s).1 ++ ((unnamedEnd d s).2 ++ r) ∧
      (∀ a b, (unnamedEnd d s).1 = a ++ b → b ≠ [] →
        stopAtD (depthAfter d a) (b ++ ((unnamedEnd d s).2 ++ r)) = false) ∧
      (∀ a b, (unnamedEnd d s).1 = a ++ b → 2 ≤ b.length →
        gluedAtD (depthAfter d a) (b ++ ((unnamedEnd d s).2 ++ r)) = false) ∧
      (((unnamedEnd d s).2 = [] ∧ r = []) ∨
       ((unnamedEnd d s).2 = [] ∧ ∃ a g, (unnamedEnd d s).1 = a ++ [g] ∧
          gluedAtD (depthAfter d a) (g :: r) = true) ∨
       (∃ w, (unnamedEnd d s).2 = [w] ∧ stopAtD (depthAfter d (unnamedEnd d s).1) (w :: r) = true ∧
          ∀ a g, (unnamedEnd d s).1 = a ++ [g] → gluedAtD (depthAfter d a) (g :: w :: r) = false)) := by
  induction s generalizing d with
  | nil =>
    refine ⟨[], rfl, ?_, ?_, .inl ⟨rfl, rfl⟩⟩
    · intro a b h hb
      simp only [unnamedEnd] at h
      have := List.append_eq_nil_iff.mp h.symm
      exact absurd this.2 hb
    · intro a b h hb
      simp only [unnamedEnd] at h
      have := List.append_eq_nil_iff.mp h.symm
      rw [this.2] at hb; simp at hb
  | cons ch s ih =>
    simp only [unnamedEnd]
    by_cases hnl : isNl ch = true
    · simp only [hnl, if_true]
      refine ⟨s, rfl, ?_, ?_, .inr (.inr ⟨ch, rfl, by simp [stopAtD, depthAfter, hnl], ?_⟩)⟩
      · intro a b h hb
        have := List.append_eq_nil_iff.mp h.symm
        exact absurd this.2 hb
      · intro a b h hb
        have := List.append_eq_nil_iff.mp h.symm
        rw [this.2] at hb; simp at hb
      · intro a g h
        simp at h
    · simp only [hnl, Bool.false_eq_true, if_false]
      by_cases hws : (depthStep d ch == 0 && stopWsL ch s) = true
      · simp only [hws, if_true]
        refine ⟨s, rfl, ?_, ?_, .inr (.inr ⟨ch, rfl, by simp [stopAtD, depthAfter, hws], ?_⟩)⟩
        · intro a b h hb
          have := List.append_eq_nil_iff.mp h.symm
          exact absurd this.2 hb
        · intro a b h hb
          have := List.append_eq_nil_iff.mp h.symm
          rw [this.2] at hb; simp at hb
        · intro a g h
          simp at h
      · simp only [hws, Bool.false_eq_true, if_false]
        have hstop : stopAtD d (ch :: s) = false := by
          simp only [Bool.not_eq_true] at hnl hws
          simp [stopAtD, hnl, hws]
        by_cases hgl : (depthStep d ch == 0 && gluedL ch s) = true
        · simp only [hgl, if_true]
          refine ⟨s, rfl, ?_, ?_, .inr (.inl ⟨by trivial, [], ch, rfl, by simp [gluedAtD, depthAfter, hgl]⟩)⟩
          · intro a b h hb
            cases a with
            | nil =>
              simp only [List.nil_append] at h; subst h
              simpa [depthAfter] using hstop
            | cons x a' =>
              simp only [List.cons_append, List.cons.injEq] at h
              have := List.append_eq_nil_iff.mp h.2.symm
              exact absurd this.2 hb
          · intro a b h hb
            have hl := congrArg List.length h
            simp only [List.length_cons, List.length_nil, List.length_append] at hl
            omega
        · simp only [hgl, Bool.false_eq_true, if_false]
          have hglued : gluedAtD d (ch :: s) = false := by
            simp only [Bool.not_eq_true] at hgl
            simp [gluedAtD, hgl]
          obtain ⟨r, h1, h2, h3, h4⟩ := ih (depthStep d ch)
          refine ⟨r, by rw [List.cons_append, ← h1], ?_, ?_, ?_⟩
          · intro a b h hb
            cases a with
            | nil =>
              simp only [List.nil_append] at h; subst h
              rw [List.cons_append, ← h1]
              simpa [depthAfter] using hstop
            | cons x a' =>
              simp only [List.cons_append, List.cons.injEq] at h
              obtain ⟨rfl, h⟩ := h
              rw [depthAfter_cons]
              exact h2 a' b h hb
          · intro a b h hb
            cases a with
            | nil =>
              simp only [List.nil_append] at h; subst h
              rw [List.cons_append, ← h1]
              simpa [depthAfter] using hglued
            | cons x a' =>
              simp only [List.cons_append, List.cons.injEq] at h
              obtain ⟨rfl, h⟩ := h
              rw [depthAfter_cons]
              exact h3 a' b h hb
          · rcases h4 with ⟨h5, h6⟩ | ⟨h5, a, g, h6, h7⟩ | ⟨w, h5, h6, h7⟩
            · exact .inl ⟨h5, h6⟩
            · exact .inr (.inl ⟨h5, ch :: a, g, by rw [h6]; rfl, by rw [depthAfter_cons]; exact h7⟩)
            · refine .inr (.inr ⟨w, h5, by rw [depthAfter_cons]; exact h6, ?_⟩)
              intro a g h
              cases a with
              | nil =>
                simp only [List.nil_append, List.cons.injEq] at h
                obtain ⟨rfl, h⟩ := h
                rw [h, h5] at h1
                simp only [List.nil_append, List.cons_append] at h1
                rw [← h1]
                simpa [depthAfter] using hglued
              | cons x a' =>
                simp only [List.cons_append, List.cons.injEq] at h
                obtain ⟨rfl, h⟩ := h
                rw [depthAfter_cons]
                exact h7 a' g h

/-! ### the recorded call: classification of the expanded text -/

theorem unnamedCall_none (env : ProcEnv) (u : List Char) (s l : Nat)
    (h : splitScheme (expandEnvVars env u) = none) :
    unnamedCall env u s l = ⟨.path, expandEnvVars env u, s, l⟩ := by
  simp only [unnamedCall, h]

theorem unnamedCall_file (env : ProcEnv) (u path : List Char) (s l : Nat)
    (h : splitScheme (expandEnvVars env u) = some ("file".toList, path)) :
    unnamedCall env u s l = ⟨.file, path, s, l⟩ := by
  simp only [unnamedCall, h, beq_self_eq_true, if_true]

theorem unnamedCall_known (env : ProcEnv) (u scheme path : List Char) (s l : Nat)
    (h : splitScheme (expandEnvVars env u) = some (scheme, path)) (hf : scheme ≠ "file".toList)
    (hk : knownScheme scheme = true) :
    unnamedCall env u s l = ⟨.url, expandEnvVars env u, s, l⟩ := by
  have : (scheme == "file".toList) = false := by simpa using hf
  simp only [unnamedCall, h, this, hk, Bool.false_eq_true, if_false, if_true]

theorem unnamedCall_unknown (env : ProcEnv) (u scheme path : List Char) (s l : Nat)
    (h : splitScheme (expandEnvVars env u) = some (scheme, path)) (hk : knownScheme scheme = false) :
    unnamedCall env u s l = ⟨.path, expandEnvVars env u, s, l⟩ := by
  have : (scheme == "file".toList) = false := by
    cases hb : scheme == "file".toList with
    | false => rfl
    | true => rw [eq_of_beq hb] at hk; exact absurd hk (by decide)
  simp only [unnamedCall, h, this, hk, Bool.false_eq_true, if_false]

end Pep508
