/-
Lemmas about bounds and single intervals over an arbitrary linear order.
-/
import Pep508.Model.Bound
namespace Pep508

variable {α : Type} [LT α] [LE α] [Std.IsLinearOrder α] [Std.LawfulOrderLT α]
  [DecidableLT α] [DecidableEq α]

theorem Ivl.mem_inter (a b : Ivl α) (x : α) : (a.inter b).mem x = (a.mem x && b.mem x) := by
  obtain ⟨al, ah⟩ := a
  obtain ⟨bl, bh⟩ := b
  cases al <;> cases ah <;> cases bl <;> cases bh <;>
    simp only [Ivl.inter, Ivl.mem, Bnd.maxLo, Bnd.minHi, Bnd.loOk, Bnd.hiOk] <;> grind

/-- an interval containing a point is a valid segment -/
theorem Ivl.valid_of_mem (a : Ivl α) (x : α) (h : a.mem x = true) : a.valid = true := by
  obtain ⟨al, ah⟩ := a
  cases al <;> cases ah <;> simp only [Ivl.mem, Ivl.valid, Bnd.loOk, Bnd.hiOk] at * <;> grind

/-- `range.union(&intersection)` under `can_conjoin` is the hull, pointwise -/
theorem Ivl.mem_conjoin (a b : Ivl α) (x : α) (hc : a.canConjoin b = true)
    (ha : a.valid = true) (hb : b.valid = true) :
    (a.conjoin b).mem x = (a.mem x || b.mem x) := by
  obtain ⟨al, ah⟩ := a
  obtain ⟨bl, bh⟩ := b
  cases al <;> cases ah <;> cases bl <;> cases bh <;>
    simp only [Ivl.conjoin, Ivl.canConjoin, Ivl.mem, Ivl.valid, Bnd.loOk, Bnd.hiOk] at * <;> grind

theorem Ivl.valid_conjoin (a b : Ivl α) (hc : a.canConjoin b = true)
    (ha : a.valid = true) (hb : b.valid = true) : (a.conjoin b).valid = true := by
  obtain ⟨al, ah⟩ := a
  obtain ⟨bl, bh⟩ := b
  cases al <;> cases ah <;> cases bl <;> cases bh <;>
    simp only [Ivl.conjoin, Ivl.canConjoin, Ivl.valid] at * <;> grind

/-- touching intervals are disjoint: no point is in both -/
theorem Ivl.not_mem_both_of_canConjoin (a b : Ivl α) (x : α) (hc : a.canConjoin b = true) :
    ¬ (a.mem x = true ∧ b.mem x = true) := by
  obtain ⟨al, ah⟩ := a
  obtain ⟨bl, bh⟩ := b
  cases al <;> cases ah <;> cases bl <;> cases bh <;>
    simp only [Ivl.canConjoin, Ivl.mem, Bnd.loOk, Bnd.hiOk] at * <;> grind

end Pep508
