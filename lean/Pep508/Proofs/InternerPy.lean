/-
Refinement of the id-level `simplify_python_versions` / `complexify_python_versions`
(`Model/InternerPy.lean`): `simplifyPyI` refines `Tree.simplifyPy` and `complexifyPyI` refines
`Tree.complexifyPy` whatever the arena / the AND memo already contain (`simplifyPyI_refines`,
`complexifyPyI_refines`); history independence and same-id-later corollaries.
No hypothesis beyond those of `restrictI_refines` (invariant, valid operand, fuel) is needed.
-/
import Pep508.Model.InternerPy
import Pep508.Proofs.InternerOps
set_option linter.unusedSectionVars false
set_option linter.unusedSimpArgs false
set_option linter.unusedVariables false
namespace Pep508

section EdgeSurgery
variable {νr νb α : Type}
variable [LT α] [DecidableLT α] [DecidableEq α]
variable [LT νr] [DecidableLT νr] [DecidableEq νr] [LT νb] [DecidableLT νb] [DecidableEq νb]

/-! ### tree-level helpers (weak context: no order laws assumed) -/

mutual
private theorem Tree.not_not_py : ∀ (t : Tree νr νb α), t.not.not = t
  | .leaf b => by simp [Tree.not]
  | .rng v es => by simp [Tree.not, Edges.not_not_py es]
  | .bool v hi lo => by simp [Tree.not, Tree.not_not_py hi, Tree.not_not_py lo]
private theorem Edges.not_not_py : ∀ (es : Edges νr νb α), es.not.not = es
  | .nil => rfl
  | .cons iv t rest => by simp [Edges.not, Tree.not_not_py t, Edges.not_not_py rest]
end

private theorem Tree.not_inj_py {a b : Tree νr νb α} (h : a.not = b.not) : a = b := by
  rw [← Tree.not_not_py a, h, Tree.not_not_py]

mutual
private theorem Tree.size_not_py : ∀ (t : Tree νr νb α), t.not.size = t.size
  | .leaf b => by simp [Tree.not, Tree.size]
  | .rng v es => by simp [Tree.not, Tree.size, Edges.size_not_py es]
  | .bool v hi lo => by simp [Tree.not, Tree.size, Tree.size_not_py hi, Tree.size_not_py lo]
private theorem Edges.size_not_py : ∀ (es : Edges νr νb α), es.not.size = es.size
  | .nil => rfl
  | .cons iv t rest => by simp [Edges.not, Edges.size, Tree.size_not_py t, Edges.size_not_py rest]
end

private theorem Edges.ofList_not_py (l : EdgeL νr νb α) :
    (Edges.ofList l).not = Edges.ofList (l.map fun e => (e.1, e.2.not)) := by
  induction l with
  | nil => rfl
  | cons e l ih => obtain ⟨iv, c⟩ := e; simp [Edges.ofList, Edges.not, ih]

/-- `create_node` commutes with complementing every child -/
theorem createNodeR_map_not (v : νr) (es : EdgeL νr νb α) (hne : es ≠ []) :
    createNodeR v (es.map fun e => (e.1, e.2.not)) = (createNodeR v es).not := by
  cases es with
  | nil => exact absurd rfl hne
  | cons e rest =>
    obtain ⟨iv, c⟩ := e
    have hall : (rest.map fun e => (e.1, e.2.not)).all (fun e => e.2 == c.not) =
        rest.all (fun e => e.2 == c) := by
      simp only [List.all_map]
      congr 1
      funext e
      simp only [Function.comp]
      by_cases h : e.2 = c
      · simp [h]
      · have : e.2.not ≠ c.not := fun h' => h (Tree.not_inj_py h')
        rw [Bool.eq_iff_iff, beq_iff_eq, beq_iff_eq]
        exact ⟨fun h' => absurd h' this, fun h' => absurd h' h⟩
    simp only [createNodeR, List.map_cons] at hall ⊢
    rw [hall]
    by_cases hc : (rest.all fun e => e.2 == c) = true
    · simp [hc]
    · simp only [hc, Bool.false_eq_true, if_false, Tree.not]
      congr 1
      have := Edges.ofList_not_py ((iv, c) :: rest)
      simp only [List.map_cons] at this
      exact this.symm

theorem Edges.simplifyPyE_eq_map (pv : νr) (lo hi : Bnd α) : ∀ (es : Edges νr νb α),
    es.simplifyPyE pv lo hi = es.toList.map (fun e => (e.1, e.2.simplifyPy pv lo hi))
  | .nil => rfl
  | .cons iv t rest => by
    simp [Edges.simplifyPyE, Edges.toList, Edges.simplifyPyE_eq_map pv lo hi rest]

theorem Edges.complexifyPyE_eq_map (pv : νr) (lo hi : Bnd α) : ∀ (es : Edges νr νb α),
    es.complexifyPyE pv lo hi = es.toList.map (fun e => (e.1, e.2.complexifyPy pv lo hi))
  | .nil => rfl
  | .cons iv t rest => by
    simp [Edges.complexifyPyE, Edges.toList, Edges.complexifyPyE_eq_map pv lo hi rest]

/-! ### the id-level edge surgery is the tree-level one under any reading `g` of the children -/

/-- read every child of a raw edge list through `g` -/
def mapC (g : Id → Tree νr νb α) (es : List (Ivl α × Id)) : EdgeL νr νb α :=
  es.map fun e => (e.1, g e.2)

theorem setFirstLoI_map (g : Id → Tree νr νb α) (lo : Bnd α) (es : List (Ivl α × Id)) :
    mapC g (setFirstLoI lo es) = setFirstLo lo (mapC g es) := by
  cases es with
  | nil => rfl
  | cons e rest => obtain ⟨iv, c⟩ := e; rfl

theorem setLastHiI_map (g : Id → Tree νr νb α) (hi : Bnd α) : ∀ (es : List (Ivl α × Id)),
    mapC g (setLastHiI hi es) = setLastHi hi (mapC g es)
  | [] => rfl
  | [(iv, c)] => rfl
  | e :: e2 :: rest => by
    have ih := setLastHiI_map g hi (e2 :: rest)
    simp only [mapC, setLastHiI, setLastHi, List.map_cons] at ih ⊢
    rw [ih]

theorem simplifyEdgesI_map (g : Id → Tree νr νb α) (lo hi : Bnd α) (es : List (Ivl α × Id)) :
    mapC g (simplifyEdgesI lo hi es) = simplifyEdges lo hi (mapC g es) := by
  unfold simplifyEdgesI simplifyEdges
  simp only []
  rw [setLastHiI_map, setFirstLoI_map]
  congr 2
  induction es with
  | nil => rfl
  | cons e rest ih =>
    simp only [mapC, List.filterMap_cons, List.map_cons] at ih ⊢
    by_cases hv : (e.1.inter ⟨lo, hi⟩).valid = true
    · simp only [hv, if_true, List.map_cons]; rw [ih]
    · simp only [hv, if_false]; exact ih

theorem fromRangeGoI_map (g : Id → Tree νr νb α) (ht : g .tt = .leaf true) (hf : g .ff = .leaf false) :
    ∀ (r : Ranges α) (cur : Option (Bnd α)), mapC g (fromRangeGoI cur r) = fromRangeGo cur r
  | _, none => by simp [fromRangeGoI, fromRangeGo, mapC]
  | [], some cur => by simp [fromRangeGoI, fromRangeGo, mapC, hf]
  | s :: rest, some cur => by
    have ih := fromRangeGoI_map g ht hf rest s.hi.flipHi
    simp only [mapC] at ih
    cases hl : s.lo.flipLo with
    | none => simp only [fromRangeGoI, fromRangeGo, hl, mapC, List.map_cons, ht, ih]
    | some h => simp only [fromRangeGoI, fromRangeGo, hl, mapC, List.map_cons, ht, hf, ih]

theorem fromRangeI_map (g : Id → Tree νr νb α) (ht : g .tt = .leaf true) (hf : g .ff = .leaf false)
    (r : Ranges α) : mapC g (fromRangeI r) = fromRange r :=
  fromRangeGoI_map g ht hf r (some .unb)

/-- children of the simplified edge list are children of the original one -/
theorem simplifyEdgesI_P (P : Id → Prop) (lo hi : Bnd α) (es : List (Ivl α × Id))
    (h : ∀ e ∈ es, P e.2) : ∀ e ∈ simplifyEdgesI lo hi es, P e.2 := by
  -- go through the list of children: surgery does not change it
  have hsnd1 : ∀ (lo : Bnd α) (l : List (Ivl α × Id)), (setFirstLoI lo l).map Prod.snd = l.map Prod.snd := by
    intro lo l; cases l with
    | nil => rfl
    | cons e rest => obtain ⟨iv, c⟩ := e; rfl
  have hsnd2 : ∀ (hi : Bnd α) (l : List (Ivl α × Id)), (setLastHiI hi l).map Prod.snd = l.map Prod.snd := by
    intro hi l
    induction l with
    | nil => rfl
    | cons e rest ih =>
      cases rest with
      | nil => obtain ⟨iv, c⟩ := e; rfl
      | cons e2 rest2 => simp only [setLastHiI, List.map_cons] at ih ⊢; rw [ih]
  intro e he
  have : e.2 ∈ (simplifyEdgesI lo hi es).map Prod.snd := List.mem_map.mpr ⟨e, he, rfl⟩
  unfold simplifyEdgesI at this
  simp only [hsnd2, hsnd1, List.mem_map, List.mem_filterMap] at this
  obtain ⟨e1, ⟨e0, he0, h0⟩, h1⟩ := this
  by_cases hv : (e0.1.inter ⟨lo, hi⟩).valid = true
  · simp only [hv, if_true, Option.some.injEq] at h0
    rw [← h1, ← h0]; exact h e0 he0
  · simp only [hv, if_false] at h0; cases h0

theorem fromRangeGoI_terminal : ∀ (r : Ranges α) (cur : Option (Bnd α)),
    ∀ e ∈ fromRangeGoI cur r, e.2 = .tt ∨ e.2 = .ff
  | _, none => by simp [fromRangeGoI]
  | [], some cur => by simp [fromRangeGoI]
  | s :: rest, some cur => by
    have ih := fromRangeGoI_terminal rest s.hi.flipHi
    intro e he
    cases hl : s.lo.flipLo with
    | none =>
      simp only [fromRangeGoI, hl, List.mem_cons] at he
      rcases he with rfl | he
      · exact Or.inl rfl
      · exact ih e he
    | some h =>
      simp only [fromRangeGoI, hl, List.mem_cons] at he
      rcases he with rfl | rfl | he
      · exact Or.inr rfl
      · exact Or.inl rfl
      · exact ih e he

/-! ### `complexify` surgery -/

theorem complexifyLoI_map (g : Id → Tree νr νb α) (excl : Id) (lo : Bnd α) (hex : g excl = .leaf false)
    (new : List (Ivl α × Id)) (hinj : ∀ e ∈ new, (g e.2 = .leaf false ↔ e.2 = excl)) :
    mapC g (complexifyLoI excl lo new) = complexifyLo lo (mapC g new) := by
  unfold complexifyLoI complexifyLo
  cases hl : lo.flipLo with
  | none => simp
  | some below =>
    cases new with
    | nil => simp [mapC]
    | cons e rest =>
      obtain ⟨iv, c⟩ := e
      have hc := hinj (iv, c) (by simp)
      simp only at hc
      by_cases h : c = excl
      · simp only [mapC, List.map_cons, h, if_true, hex]
      · have h' : ¬ g c = .leaf false := fun h'' => h (hc.mp h'')
        simp only [mapC, List.map_cons, h, h', if_false, hex]

theorem complexifyHiGoI_map (g : Id → Tree νr νb α) (excl : Id) (hi above : Bnd α)
    (hex : g excl = .leaf false) : ∀ (new : List (Ivl α × Id)),
    (∀ e ∈ new, (g e.2 = .leaf false ↔ e.2 = excl)) →
    mapC g (complexifyHiGoI excl hi above new) = complexifyHiGo hi above (mapC g new)
  | [], _ => rfl
  | [(iv, c)], hinj => by
    have hc := hinj (iv, c) (by simp)
    simp only at hc
    by_cases h : c = excl
    · simp only [mapC, complexifyHiGoI, complexifyHiGo, List.map_cons, List.map_nil, h, if_true, hex]
    · have h' : ¬ g c = .leaf false := fun h'' => h (hc.mp h'')
      simp only [mapC, complexifyHiGoI, complexifyHiGo, List.map_cons, List.map_nil, h, h', if_false, hex]
  | e :: e2 :: rest, hinj => by
    have ih := complexifyHiGoI_map g excl hi above hex (e2 :: rest)
      (fun e' he' => hinj e' (by simp only [List.mem_cons] at he' ⊢; exact Or.inr he'))
    simp only [mapC, complexifyHiGoI, complexifyHiGo, List.map_cons] at ih ⊢
    rw [ih]

theorem complexifyLoI_P (P : Id → Prop) (excl : Id) (lo : Bnd α) (hP : P excl)
    (new : List (Ivl α × Id)) (h : ∀ e ∈ new, P e.2) : ∀ e ∈ complexifyLoI excl lo new, P e.2 := by
  unfold complexifyLoI
  cases hl : lo.flipLo with
  | none => simpa using h
  | some below =>
    cases new with
    | nil => simp
    | cons e rest =>
      obtain ⟨iv, c⟩ := e
      have hc : P c := h (iv, c) (by simp)
      have hr : ∀ e ∈ rest, P e.2 := fun e he => h e (by simp [he])
      by_cases hce : c = excl
      · simp only [hce, if_true]
        intro e he
        simp only [List.mem_cons] at he
        rcases he with rfl | he
        · exact hP
        · exact hr e he
      · simp only [hce, if_false]
        intro e he
        simp only [List.mem_cons] at he
        rcases he with rfl | rfl | he
        · exact hP
        · exact hc
        · exact hr e he

theorem complexifyHiGoI_P (P : Id → Prop) (excl : Id) (hi above : Bnd α) (hP : P excl) :
    ∀ (new : List (Ivl α × Id)), (∀ e ∈ new, P e.2) → ∀ e ∈ complexifyHiGoI excl hi above new, P e.2
  | [], _ => by simp [complexifyHiGoI]
  | [(iv, c)], h => by
    have hc : P c := h (iv, c) (by simp)
    by_cases hce : c = excl
    · simp only [complexifyHiGoI, hce, if_true, List.mem_singleton]
      intro e he; subst he; exact hP
    · simp only [complexifyHiGoI, hce, if_false, List.mem_cons, List.not_mem_nil, or_false]
      intro e he
      rcases he with rfl | rfl
      · exact hc
      · exact hP
  | e :: e2 :: rest, h => by
    have ih := complexifyHiGoI_P P excl hi above hP (e2 :: rest)
      (fun e' he' => h e' (by simp only [List.mem_cons] at he' ⊢; exact Or.inr he'))
    simp only [complexifyHiGoI, List.mem_cons]
    intro e' he'
    rcases he' with rfl | he'
    · exact h _ (by simp)
    · exact ih e' (by simpa [complexifyHiGoI] using he')

theorem complexifyEdgesI_P (P : Id → Prop) (excl : Id) (lo hi : Bnd α) (hP : P excl)
    (es : List (Ivl α × Id)) (h : ∀ e ∈ es, P e.2) : ∀ e ∈ complexifyEdgesI excl lo hi es, P e.2 := by
  unfold complexifyEdgesI complexifyHiI
  simp only []
  have h1 : ∀ e ∈ es.filter (fun e => ((Ivl.mk lo hi).inter e.1).valid), P e.2 :=
    fun e he => h e (List.mem_filter.mp he).1
  have h2 := complexifyLoI_P P excl lo hP _ h1
  cases hh : hi.flipHi with
  | none => exact h2
  | some above => exact complexifyHiGoI_P P excl hi above hP _ h2

theorem complexifyEdgesI_map (g : Id → Tree νr νb α) (excl : Id) (lo hi : Bnd α)
    (hex : g excl = .leaf false) (es : List (Ivl α × Id))
    (hinj : ∀ e ∈ es, (g e.2 = .leaf false ↔ e.2 = excl)) :
    mapC g (complexifyEdgesI excl lo hi es) = complexifyEdges lo hi (mapC g es) := by
  unfold complexifyEdgesI complexifyEdges complexifyHiI complexifyHi
  simp only []
  have hfil : mapC g (es.filter fun e => ((Ivl.mk lo hi).inter e.1).valid) =
      (mapC g es).filter fun e => ((Ivl.mk lo hi).inter e.1).valid := by
    simp only [mapC, List.filter_map]
    rfl
  have h1 : ∀ e ∈ es.filter (fun e => ((Ivl.mk lo hi).inter e.1).valid),
      (g e.2 = .leaf false ↔ e.2 = excl) := fun e he => hinj e (List.mem_filter.mp he).1
  have h2 := complexifyLoI_P (fun c => (g c = .leaf false ↔ c = excl)) excl lo
    ⟨fun _ => rfl, fun _ => hex⟩ _ h1
  cases hh : hi.flipHi with
  | none =>
    simp only []
    rw [complexifyLoI_map g excl lo hex _ h1, hfil]
  | some above =>
    simp only []
    rw [complexifyHiGoI_map g excl hi above hex _ h2, complexifyLoI_map g excl lo hex _ h1, hfil]

end EdgeSurgery

/-! ## `simplify_python_versions` -/
section Simplify
variable {νr νb α : Type}
variable [LT α] [DecidableLT α] [DecidableEq α]
variable [LT νr] [DecidableLT νr] [DecidableEq νr] [LT νb] [DecidableLT νb] [DecidableEq νb]

theorem denE_negE_eq_mapC (s : IState νr νb α) (p : Id) (es : List (Ivl α × Id)) :
    denE s (negE p es) = mapC (fun c => den s (c.negate p)) es := by
  simp only [denE, negE, mapC, List.map_map, Function.comp_def]

theorem Id.negate_negate (x p : Id) : (x.negate p).negate p = x := by
  unfold Id.negate; split <;> simp [Id.not_not]

/-- `create_node(v, raw edges).negate(p)` denotes `create_node` of the edges read under `p` -/
theorem createNodeI_negate_spec {s : IState νr νb α} (hs : s.Inv) (v : νr) (es : List (Ivl α × Id))
    (p : Id) (hne : es ≠ []) (hv : ∀ e ∈ es, Id.Valid s e.2) :
    Post s ((createNodeI s (.rng v es)).1, (createNodeI s (.rng v es)).2.negate p)
      (createNodeR v (denE s (negE p es))) := by
  obtain ⟨qi, qle, qv, qd⟩ := createNodeI_spec hs (.rng v es) (by
    intro c hc
    simp only [INode.children, List.mem_map] at hc
    obtain ⟨e, he, rfl⟩ := hc
    exact hv e he)
  refine ⟨qi, qle, (Id.valid_negate _ _ _).mpr qv, ?_⟩
  show den _ ((createNodeI s (.rng v es)).2.negate p) = _
  rw [den_negate, qd]
  simp only [createNodeT]
  by_cases hp : p.isComplement = true
  · have hd : denE s (negE p es) = (denE s es).map (fun e => (e.1, e.2.not)) := by
      simp only [denE, negE, Id.negate, hp, if_true, den_not, List.map_map, Function.comp_def]
    have hne' : denE s es ≠ [] := by
      intro h; apply hne; simpa [denE] using h
    rw [if_pos hp, hd, createNodeR_map_not v _ hne']
  · have hd : negE p es = es := by
      simp only [negE, Id.negate, hp, if_false]
      exact List.map_id' es
    rw [if_neg hp, hd]

theorem simplifyPy_unb_py (pv : νr) (lo hi : Bnd α) (h : lo = .unb ∧ hi = .unb) (t : Tree νr νb α) :
    t.simplifyPy pv lo hi = t := by
  cases t <;> simp [Tree.simplifyPy, h]

/-! ### one unfolding step of `simplifyPyI` -/

theorem simplifyPyI_tt (pv : νr) (lo hi : Bnd α) (n : Nat) (s : IState νr νb α) :
    simplifyPyI pv lo hi n s .tt = (s, .tt) := by cases n <;> rfl

theorem simplifyPyI_ff (pv : νr) (lo hi : Bnd α) (n : Nat) (s : IState νr νb α) :
    simplifyPyI pv lo hi n s .ff = (s, .ff) := by cases n <;> rfl

theorem simplifyPyI_unb (pv : νr) (lo hi : Bnd α) (n : Nat) (s : IState νr νb α) (i : Nat) (c : Bool)
    (hu : lo = .unb ∧ hi = .unb) : simplifyPyI pv lo hi (n + 1) s (.ref i c) = (s, .ref i c) := by
  rw [simplifyPyI, if_pos hu]

theorem simplifyPyI_bool (pv : νr) (lo hi : Bnd α) (n : Nat) (s : IState νr νb α) (i : Nat) (c : Bool)
    (v : νb) (h l : Id) (hu : ¬ (lo = .unb ∧ hi = .unb)) (hn : s.nodes[i]? = some (.bool v h l)) :
    simplifyPyI pv lo hi (n + 1) s (.ref i c) =
      createNodeI (simplifyPyI pv lo hi n (simplifyPyI pv lo hi n s (l.negate (.ref i c))).1 (h.negate (.ref i c))).1
        (.bool v (simplifyPyI pv lo hi n (simplifyPyI pv lo hi n s (l.negate (.ref i c))).1 (h.negate (.ref i c))).2
          (simplifyPyI pv lo hi n s (l.negate (.ref i c))).2) := by
  rw [simplifyPyI, if_neg hu, hn]

theorem simplifyPyI_rng_other (pv : νr) (lo hi : Bnd α) (n : Nat) (s : IState νr νb α) (i : Nat) (c : Bool)
    (v : νr) (es : List (Ivl α × Id)) (hu : ¬ (lo = .unb ∧ hi = .unb)) (hv : v ≠ pv)
    (hn : s.nodes[i]? = some (.rng v es)) :
    simplifyPyI pv lo hi (n + 1) s (.ref i c) =
      createNodeI (mapEdgesI (simplifyPyI pv lo hi n) (.ref i c) s es).1
        (.rng v (coalesceI (mapEdgesI (simplifyPyI pv lo hi n) (.ref i c) s es).2)) := by
  rw [simplifyPyI, if_neg hu, hn]
  simp only [if_neg hv]

theorem simplifyPyI_rng_pv (pv : νr) (lo hi : Bnd α) (n : Nat) (s : IState νr νb α) (i : Nat) (c : Bool)
    (v : νr) (es : List (Ivl α × Id)) (hu : ¬ (lo = .unb ∧ hi = .unb)) (hv : v = pv)
    (hn : s.nodes[i]? = some (.rng v es)) :
    simplifyPyI pv lo hi (n + 1) s (.ref i c) =
      if (Ivl.mk lo hi).valid = true then
        if (simplifyEdgesI lo hi es).isEmpty = true then (s, .ff)
        else ((createNodeI s (.rng v (simplifyEdgesI lo hi es))).1,
          (createNodeI s (.rng v (simplifyEdgesI lo hi es))).2.negate (.ref i c))
      else (s, .ff) := by
  rw [simplifyPyI, if_neg hu, hn]
  simp only [if_pos hv]

/-- the induction hypothesis of `simplifyPyI_spec`, as a predicate on the fuel -/
def SimplifyIH (pv : νr) (lo hi : Bnd α) (n : Nat) : Prop :=
  ∀ (s : IState νr νb α) (x : Id), s.Inv → Id.Valid s x → (den s x).size ≤ n →
    Post s (simplifyPyI pv lo hi n s x) ((den s x).simplifyPy pv lo hi)

theorem Tree.size_rng_child_py (v : νr) (es : Edges νr νb α) (e : Ivl α × Tree νr νb α)
    (h : e ∈ es.toList) : e.2.size < (Tree.rng v es).size := by
  have := Edges.size_mem es e h
  simp [Tree.size]; omega

theorem rng_children_small (s : IState νr νb α) (xi : Id) (v : νr) (es : List (Ivl α × Id))
    (ux : den s xi = .rng v (Edges.ofList (denE s (negE xi es)))) (e : Ivl α × Id) (he : e ∈ es) :
    (den s (e.2.negate xi)).size < (den s xi).size := by
  rw [ux]
  apply Tree.size_rng_child_py v _ (e.1, den s (e.2.negate xi))
  rw [Edges.toList_ofList]
  exact mem_denE_negE s xi es e he

theorem simplify_rng_other_case (pv : νr) (lo hi : Bnd α) (n : Nat)
    (ih : SimplifyIH (νr := νr) (νb := νb) (α := α) pv lo hi n) {s : IState νr νb α} (hs : s.Inv)
    (xi : Id) (v : νr) (es : List (Ivl α × Id)) (hu : ¬ (lo = .unb ∧ hi = .unb)) (hv : v ≠ pv)
    (ux : den s xi = .rng v (Edges.ofList (denE s (negE xi es))))
    (cv : ∀ e ∈ es, Id.Valid s e.2) (hsz : (den s xi).size ≤ n + 1) :
    Post s (createNodeI (mapEdgesI (simplifyPyI pv lo hi n) xi s es).1
        (.rng v (coalesceI (mapEdgesI (simplifyPyI pv lo hi n) xi s es).2)))
      ((den s xi).simplifyPy pv lo hi) := by
  have hspec := mapEdgesI_spec (simplifyPyI pv lo hi n) (fun c => c.simplifyPy pv lo hi)
    (fun t => t.size ≤ n) xi s
    (fun s' c _ hs' hc hq => ih s' c hs' hc hq)
    es s (IState.Le.refl s) hs
    (by
      intro e he
      refine ⟨cv e he, ?_⟩
      have := rng_children_small s xi v es ux e he
      show (den s (e.2.negate xi)).size ≤ n
      omega)
  generalize mapEdgesI (simplifyPyI pv lo hi n) xi s es = r at hspec
  obtain ⟨ri, rle, rv, rd⟩ := hspec
  obtain ⟨cd, cvv⟩ := coalesceI_den ri.wf r.2 rv
  obtain ⟨qi, qle, qv, qd⟩ := createNodeI_spec ri (.rng v (coalesceI r.2)) (by
    intro c hc
    simp only [INode.children, List.mem_map] at hc
    obtain ⟨e, he, rfl⟩ := hc
    exact cvv e he)
  refine ⟨qi, rle.trans qle, qv, ?_⟩
  rw [qd]
  simp only [createNodeT]
  rw [cd, rd, ux]
  simp only [Tree.simplifyPy, if_neg hu, if_neg hv, Edges.simplifyPyE_eq_map, Edges.toList_ofList]

theorem simplify_rng_pv_case (pv : νr) (lo hi : Bnd α) {s : IState νr νb α} (hs : s.Inv)
    (xi : Id) (v : νr) (es : List (Ivl α × Id)) (hu : ¬ (lo = .unb ∧ hi = .unb)) (hv : v = pv)
    (ux : den s xi = .rng v (Edges.ofList (denE s (negE xi es))))
    (cv : ∀ e ∈ es, Id.Valid s e.2) :
    Post s (if (Ivl.mk lo hi).valid = true then
        if (simplifyEdgesI lo hi es).isEmpty = true then (s, .ff)
        else ((createNodeI s (.rng v (simplifyEdgesI lo hi es))).1,
          (createNodeI s (.rng v (simplifyEdgesI lo hi es))).2.negate xi)
      else (s, .ff)) ((den s xi).simplifyPy pv lo hi) := by
  have key : (den s xi).simplifyPy pv lo hi =
      if (Ivl.mk lo hi).valid = true then createNodeR v (denE s (negE xi (simplifyEdgesI lo hi es)))
      else .leaf false := by
    rw [ux]
    simp only [Tree.simplifyPy, if_neg hu, if_pos hv, Edges.toList_ofList]
    rw [denE_negE_eq_mapC, denE_negE_eq_mapC, simplifyEdgesI_map]
  rw [key]
  by_cases hval : (Ivl.mk lo hi).valid = true
  · rw [if_pos hval, if_pos hval]
    by_cases hem : (simplifyEdgesI lo hi es).isEmpty = true
    · rw [if_pos hem]
      have : simplifyEdgesI lo hi es = [] := List.isEmpty_iff.mp hem
      rw [this]
      exact ⟨hs, IState.Le.refl s, trivial, by simp [negE, denE, createNodeR]⟩
    · rw [if_neg hem]
      exact createNodeI_negate_spec hs v _ xi (fun h => hem (List.isEmpty_iff.mpr h))
        (simplifyEdgesI_P (fun c => Id.Valid s c) lo hi es cv)
  · rw [if_neg hval, if_neg hval]
    exact ⟨hs, IState.Le.refl s, trivial, den_ff s⟩

theorem simplify_bool_case (pv : νr) (lo hi : Bnd α) (n : Nat)
    (ih : SimplifyIH (νr := νr) (νb := νb) (α := α) pv lo hi n) {s : IState νr νb α} (hs : s.Inv)
    (v : νb) (a b : Id) (va : Id.Valid s a) (vb : Id.Valid s b)
    (sa : (den s a).size ≤ n) (sb : (den s b).size ≤ n) :
    Post s (createNodeI (simplifyPyI pv lo hi n (simplifyPyI pv lo hi n s b).1 a).1
        (.bool v (simplifyPyI pv lo hi n (simplifyPyI pv lo hi n s b).1 a).2 (simplifyPyI pv lo hi n s b).2))
      (createNodeB v ((den s a).simplifyPy pv lo hi) ((den s b).simplifyPy pv lo hi)) := by
  have h1 := ih s b hs vb sb
  generalize simplifyPyI pv lo hi n s b = r1 at h1 ⊢
  obtain ⟨i1, l1, v1, d1⟩ := h1
  have h2 := ih r1.1 a i1 (va.mono l1) (by rw [den_mono hs.wf l1 va]; exact sa)
  rw [den_mono hs.wf l1 va] at h2
  generalize simplifyPyI pv lo hi n r1.1 a = r2 at h2 ⊢
  obtain ⟨i2, l2, v2, d2⟩ := h2
  have d1' : den r2.1 r1.2 = (den s b).simplifyPy pv lo hi := by rw [den_mono i1.wf l2 v1, d1]
  obtain ⟨qi, qle, qv, qd⟩ := createNodeI_spec i2 (.bool v r2.2 r1.2) (by
    intro c hc
    simp only [INode.children, List.mem_cons, List.not_mem_nil, or_false] at hc
    rcases hc with rfl | rfl
    · exact v2
    · exact v1.mono l2)
  refine ⟨qi, (l1.trans l2).trans qle, qv, ?_⟩
  rw [qd]
  simp only [createNodeT, d1', d2]

/-- **`simplifyPyI` on ids is `Tree.simplifyPy` on denotations**, whatever the arena contains -/
theorem simplifyPyI_spec (pv : νr) (lo hi : Bnd α) :
    ∀ (n : Nat), SimplifyIH (νr := νr) (νb := νb) (α := α) pv lo hi n := by
  intro n
  induction n with
  | zero => intro s x _ _ h; have := Tree.size_pos'' (den s x); omega
  | succ n ih =>
    intro s x hs vx hsz
    cases x with
    | tt =>
      rw [simplifyPyI_tt, den_tt]
      exact ⟨hs, IState.Le.refl s, trivial, by simp [Tree.simplifyPy]⟩
    | ff =>
      rw [simplifyPyI_ff, den_ff]
      exact ⟨hs, IState.Le.refl s, trivial, by simp [Tree.simplifyPy]⟩
    | ref i c =>
      by_cases hu : lo = .unb ∧ hi = .unb
      · rw [simplifyPyI_unb pv lo hi n s i c hu, simplifyPy_unb_py pv lo hi hu]
        exact ⟨hs, IState.Le.refl s, vx, rfl⟩
      have hi' : i < s.nodes.length := vx
      have hn : s.nodes[i]? = some s.nodes[i] := List.getElem?_eq_getElem hi'
      have ux := den_ref_neg hs.wf c hn
      have cv := fun ch hch => ((WF.child_valid hs.wf hn).2 ch hch).1
      generalize s.nodes[i] = nd at hn ux cv
      cases nd with
      | rng v es =>
        simp only [denNodeNeg] at ux
        have cv' : ∀ e ∈ es, Id.Valid s e.2 := fun e he =>
          cv e.2 (by simp only [INode.children, List.mem_map]; exact ⟨e, he, rfl⟩)
        by_cases hv : v = pv
        · rw [simplifyPyI_rng_pv pv lo hi n s i c v es hu hv hn]
          exact simplify_rng_pv_case pv lo hi hs (.ref i c) v es hu hv ux cv'
        · rw [simplifyPyI_rng_other pv lo hi n s i c v es hu hv hn]
          exact simplify_rng_other_case pv lo hi n ih hs (.ref i c) v es hu hv ux cv' hsz
      | bool v h l =>
        simp only [denNodeNeg] at ux
        have vh : Id.Valid s (h.negate (.ref i c)) :=
          (Id.valid_negate s _ _).mpr (cv h (by simp [INode.children]))
        have vl : Id.Valid s (l.negate (.ref i c)) :=
          (Id.valid_negate s _ _).mpr (cv l (by simp [INode.children]))
        have sx : (den s (h.negate (.ref i c))).size ≤ n ∧ (den s (l.negate (.ref i c))).size ≤ n := by
          rw [ux] at hsz; simp only [Tree.size] at hsz; omega
        rw [simplifyPyI_bool pv lo hi n s i c v h l hu hn, ux]
        have := simplify_bool_case pv lo hi n ih hs v _ _ vh vl sx.1 sx.2
        simpa [Tree.simplifyPy, hu] using this

end Simplify

/-! ## `complexify_python_versions` -/
section Complexify
variable {νr νb α : Type}
variable [LT α] [DecidableLT α] [DecidableEq α]
variable [LT νr] [DecidableLT νr] [DecidableEq νr] [LT νb] [DecidableLT νb] [DecidableEq νb]

theorem complexifyPy_unb_py (pv : νr) (lo hi : Bnd α) (h : lo = .unb ∧ hi = .unb) (t : Tree νr νb α) :
    t.complexifyPy pv lo hi = t := by
  cases t with
  | leaf b => cases b <;> simp [Tree.complexifyPy, h]
  | rng v es => simp [Tree.complexifyPy, h]
  | bool v a b => simp [Tree.complexifyPy, h]

theorem createNodeR_size_le (v : νr) (es : EdgeL νr νb α) :
    (createNodeR v es).size ≤ 1 + (Edges.ofList es).size := by
  cases es with
  | nil => simp [createNodeR, Tree.size, Edges.ofList, Edges.size]
  | cons e rest =>
    obtain ⟨iv, c⟩ := e
    simp only [createNodeR]
    split
    · simp only [Edges.ofList, Edges.size]; omega
    · simp only [Tree.size]; omega

/-- the diagram of `python_full_version ∈ (lo, hi)` has at most 3 edges to terminals -/
theorem pyRange_size_le (pv : νr) (lo hi : Bnd α) :
    (createNodeR pv (fromRange [⟨lo, hi⟩]) : Tree νr νb α).size ≤ 7 := by
  have h := createNodeR_size_le (νb := νb) pv (fromRange [⟨lo, hi⟩])
  have h2 : (Edges.ofList (fromRange [⟨lo, hi⟩] : EdgeL νr νb α)).size ≤ 6 := by
    cases lo <;> cases hi <;>
      simp [fromRange, fromRangeGo, Bnd.flipLo, Bnd.flipHi, Edges.ofList, Edges.size, Tree.size]
  omega

/-- `create_node(python_full_version, Edges::from_range(py_range))` -/
theorem pyRangeNodeI_spec (pv : νr) (lo hi : Bnd α) {s : IState νr νb α} (hs : s.Inv) :
    Post s (pyRangeNodeI pv lo hi s) (createNodeR pv (fromRange [⟨lo, hi⟩])) := by
  unfold pyRangeNodeI
  obtain ⟨qi, qle, qv, qd⟩ := createNodeI_spec hs (.rng pv (fromRangeI [⟨lo, hi⟩])) (by
    intro c hc
    simp only [INode.children, List.mem_map] at hc
    obtain ⟨e, he, rfl⟩ := hc
    rcases fromRangeGoI_terminal _ _ e he with h | h <;> rw [h] <;> trivial)
  refine ⟨qi, qle, qv, ?_⟩
  rw [qd]
  simp only [createNodeT]
  have : denE s (fromRangeI [⟨lo, hi⟩]) = mapC (den s) (fromRangeI [⟨lo, hi⟩]) := rfl
  rw [this, fromRangeI_map (den s) (den_tt s) (den_ff s)]

/-! ### one unfolding step of `complexifyPyI` -/

theorem complexifyPyI_ff (pv : νr) (lo hi : Bnd α) (n : Nat) (s : IState νr νb α) :
    complexifyPyI pv lo hi n s .ff = (s, .ff) := by cases n <;> rfl

theorem complexifyPyI_tt (pv : νr) (lo hi : Bnd α) (n : Nat) (s : IState νr νb α) :
    complexifyPyI pv lo hi n s .tt =
      if lo = .unb ∧ hi = .unb then (s, .tt)
      else if ¬ (Ivl.mk lo hi).valid = true then (s, .ff)
      else ((pyRangeNodeI pv lo hi s).1, (pyRangeNodeI pv lo hi s).2.negate .tt) := by
  cases n <;> rfl

theorem complexifyPyI_unb (pv : νr) (lo hi : Bnd α) (n : Nat) (s : IState νr νb α) (i : Nat) (c : Bool)
    (hu : lo = .unb ∧ hi = .unb) : complexifyPyI pv lo hi (n + 1) s (.ref i c) = (s, .ref i c) := by
  rw [complexifyPyI, if_pos hu]

theorem complexifyPyI_invalid (pv : νr) (lo hi : Bnd α) (n : Nat) (s : IState νr νb α) (i : Nat) (c : Bool)
    (hu : ¬ (lo = .unb ∧ hi = .unb)) (hval : ¬ (Ivl.mk lo hi).valid = true) :
    complexifyPyI pv lo hi (n + 1) s (.ref i c) = (s, .ff) := by
  rw [complexifyPyI, if_neg hu, if_pos hval]

theorem complexifyPyI_bool (pv : νr) (lo hi : Bnd α) (n : Nat) (s : IState νr νb α) (i : Nat) (c : Bool)
    (v : νb) (h l : Id) (hu : ¬ (lo = .unb ∧ hi = .unb)) (hval : (Ivl.mk lo hi).valid = true)
    (hn : s.nodes[i]? = some (.bool v h l)) :
    complexifyPyI pv lo hi (n + 1) s (.ref i c) =
      andI (n + 1) (pyRangeNodeI pv lo hi s).1 (.ref i c) (pyRangeNodeI pv lo hi s).2 := by
  rw [complexifyPyI, if_neg hu, if_neg (not_not_intro hval), hn]

theorem complexifyPyI_rng_pv (pv : νr) (lo hi : Bnd α) (n : Nat) (s : IState νr νb α) (i : Nat) (c : Bool)
    (v : νr) (es : List (Ivl α × Id)) (hu : ¬ (lo = .unb ∧ hi = .unb)) (hval : (Ivl.mk lo hi).valid = true)
    (hv : v = pv) (hn : s.nodes[i]? = some (.rng v es)) :
    complexifyPyI pv lo hi (n + 1) s (.ref i c) =
      if (complexifyEdgesI (Id.ff.negate (.ref i c)) lo hi es).isEmpty = true then (s, .ff)
      else ((createNodeI s (.rng v (complexifyEdgesI (Id.ff.negate (.ref i c)) lo hi es))).1,
        (createNodeI s (.rng v (complexifyEdgesI (Id.ff.negate (.ref i c)) lo hi es))).2.negate (.ref i c)) := by
  rw [complexifyPyI, if_neg hu, if_neg (not_not_intro hval), hn]
  simp only [if_pos hv]

theorem complexifyPyI_rng_after (pv : νr) (lo hi : Bnd α) (n : Nat) (s : IState νr νb α) (i : Nat) (c : Bool)
    (v : νr) (es : List (Ivl α × Id)) (hu : ¬ (lo = .unb ∧ hi = .unb)) (hval : (Ivl.mk lo hi).valid = true)
    (hv : v ≠ pv) (hlt : pv < v) (hn : s.nodes[i]? = some (.rng v es)) :
    complexifyPyI pv lo hi (n + 1) s (.ref i c) =
      andI (n + 1) (pyRangeNodeI pv lo hi s).1 (.ref i c) (pyRangeNodeI pv lo hi s).2 := by
  rw [complexifyPyI, if_neg hu, if_neg (not_not_intro hval), hn]
  simp only [if_neg hv, if_pos hlt]

theorem complexifyPyI_rng_before (pv : νr) (lo hi : Bnd α) (n : Nat) (s : IState νr νb α) (i : Nat) (c : Bool)
    (v : νr) (es : List (Ivl α × Id)) (hu : ¬ (lo = .unb ∧ hi = .unb)) (hval : (Ivl.mk lo hi).valid = true)
    (hv : v ≠ pv) (hlt : ¬ pv < v) (hn : s.nodes[i]? = some (.rng v es)) :
    complexifyPyI pv lo hi (n + 1) s (.ref i c) =
      createNodeI (mapEdgesI (complexifyPyI pv lo hi n) (.ref i c) s es).1
        (.rng v (coalesceI (mapEdgesI (complexifyPyI pv lo hi n) (.ref i c) s es).2)) := by
  rw [complexifyPyI, if_neg hu, if_neg (not_not_intro hval), hn]
  simp only [if_neg hv, if_neg hlt]

/-- the induction hypothesis of `complexifyPyI_spec`, as a predicate on the fuel -/
def ComplexifyIH (pv : νr) (lo hi : Bnd α) (n : Nat) : Prop :=
  ∀ (s : IState νr νb α) (x : Id), s.Inv → Id.Valid s x → (den s x).size + 7 < n →
    Post s (complexifyPyI pv lo hi n s x) ((den s x).complexifyPy pv lo hi)

/-- the `var > python_full_version` branch: `and(i, range)` -/
theorem complexify_and_case (pv : νr) (lo hi : Bnd α) (n : Nat) {s : IState νr νb α} (hs : s.Inv)
    (xi : Id) (vx : Id.Valid s xi) (hsz : (den s xi).size + 7 < n) :
    Post s (andI n (pyRangeNodeI pv lo hi s).1 xi (pyRangeNodeI pv lo hi s).2)
      (Tree.and (den s xi) (createNodeR pv (fromRange [⟨lo, hi⟩]))) := by
  obtain ⟨i1, l1, v1, d1⟩ := pyRangeNodeI_spec (νb := νb) pv lo hi hs
  generalize pyRangeNodeI pv lo hi s = r at i1 l1 v1 d1 ⊢
  have ex : den r.1 xi = den s xi := den_mono hs.wf l1 vx
  have hsz' : (den r.1 xi).size + (den r.1 r.2).size < n := by
    rw [ex, d1]
    have := pyRange_size_le (νb := νb) pv lo hi
    omega
  obtain ⟨i2, l2, v2, d2⟩ := andI_refines n r.1 xi r.2 i1 (vx.mono l1) v1 hsz'
  refine ⟨i2, l1.trans l2, v2, ?_⟩
  rw [d2, ex, d1]

theorem complexify_rng_before_case (pv : νr) (lo hi : Bnd α) (n : Nat)
    (ih : ComplexifyIH (νr := νr) (νb := νb) (α := α) pv lo hi n) {s : IState νr νb α} (hs : s.Inv)
    (xi : Id) (v : νr) (es : List (Ivl α × Id)) (hu : ¬ (lo = .unb ∧ hi = .unb))
    (hval : (Ivl.mk lo hi).valid = true) (hv : v ≠ pv) (hlt : ¬ pv < v)
    (ux : den s xi = .rng v (Edges.ofList (denE s (negE xi es))))
    (cv : ∀ e ∈ es, Id.Valid s e.2) (hsz : (den s xi).size + 7 < n + 1) :
    Post s (createNodeI (mapEdgesI (complexifyPyI pv lo hi n) xi s es).1
        (.rng v (coalesceI (mapEdgesI (complexifyPyI pv lo hi n) xi s es).2)))
      ((den s xi).complexifyPy pv lo hi) := by
  have hspec := mapEdgesI_spec (complexifyPyI pv lo hi n) (fun c => c.complexifyPy pv lo hi)
    (fun t => t.size + 7 < n) xi s
    (fun s' c _ hs' hc hq => ih s' c hs' hc hq)
    es s (IState.Le.refl s) hs
    (by
      intro e he
      refine ⟨cv e he, ?_⟩
      have := rng_children_small s xi v es ux e he
      show (den s (e.2.negate xi)).size + 7 < n
      omega)
  generalize mapEdgesI (complexifyPyI pv lo hi n) xi s es = r at hspec
  obtain ⟨ri, rle, rv, rd⟩ := hspec
  obtain ⟨cd, cvv⟩ := coalesceI_den ri.wf r.2 rv
  obtain ⟨qi, qle, qv, qd⟩ := createNodeI_spec ri (.rng v (coalesceI r.2)) (by
    intro c hc
    simp only [INode.children, List.mem_map] at hc
    obtain ⟨e, he, rfl⟩ := hc
    exact cvv e he)
  refine ⟨qi, rle.trans qle, qv, ?_⟩
  rw [qd]
  simp only [createNodeT]
  rw [cd, rd, ux]
  simp only [Tree.complexifyPy, if_neg hu, if_neg (not_not_intro hval), if_neg hv, if_neg hlt,
    Edges.complexifyPyE_eq_map, Edges.toList_ofList]

/-- the surgery on the RAW edges with `excl = FALSE.negate(i)`, read under `i`, is the tree-level
    surgery on the edges read under `i` (the raw-id test `exclude_node_id == node_id` is exact by
    canonicity) -/
theorem complexifyEdgesI_den {s : IState νr νb α} (hs : s.WF) (xi : Id) (lo hi : Bnd α)
    (es : List (Ivl α × Id)) (cv : ∀ e ∈ es, Id.Valid s e.2) :
    denE s (negE xi (complexifyEdgesI (Id.ff.negate xi) lo hi es)) =
      complexifyEdges lo hi (denE s (negE xi es)) := by
  have hex : den s ((Id.ff.negate xi).negate xi) = .leaf false := by
    rw [Id.negate_negate, den_ff]
  have hinj : ∀ e ∈ es, (den s (e.2.negate xi) = .leaf false ↔ e.2 = Id.ff.negate xi) := by
    intro e he
    have ve : Id.Valid s (e.2.negate xi) := (Id.valid_negate s _ _).mpr (cv e he)
    constructor
    · intro h
      have : e.2.negate xi = .ff := den_inj hs ve (b := .ff) trivial (by rw [den_ff]; exact h)
      rw [← this, Id.negate_negate]
    · intro h
      rw [h]; exact hex
  rw [denE_negE_eq_mapC, denE_negE_eq_mapC,
    complexifyEdgesI_map (fun c => den s (c.negate xi)) (Id.ff.negate xi) lo hi hex es hinj]

theorem simplifyEdgesI_den (s : IState νr νb α) (xi : Id) (lo hi : Bnd α) (es : List (Ivl α × Id)) :
    denE s (negE xi (simplifyEdgesI lo hi es)) = simplifyEdges lo hi (denE s (negE xi es)) := by
  rw [denE_negE_eq_mapC, denE_negE_eq_mapC, simplifyEdgesI_map]

theorem complexify_rng_pv_case (pv : νr) (lo hi : Bnd α) {s : IState νr νb α} (hs : s.Inv)
    (xi : Id) (v : νr) (es : List (Ivl α × Id)) (hu : ¬ (lo = .unb ∧ hi = .unb))
    (hval : (Ivl.mk lo hi).valid = true) (hv : v = pv)
    (ux : den s xi = .rng v (Edges.ofList (denE s (negE xi es))))
    (cv : ∀ e ∈ es, Id.Valid s e.2) :
    Post s (if (complexifyEdgesI (Id.ff.negate xi) lo hi es).isEmpty = true then (s, .ff)
      else ((createNodeI s (.rng v (complexifyEdgesI (Id.ff.negate xi) lo hi es))).1,
        (createNodeI s (.rng v (complexifyEdgesI (Id.ff.negate xi) lo hi es))).2.negate xi))
      ((den s xi).complexifyPy pv lo hi) := by
  have vex : Id.Valid s (Id.ff.negate xi) := (Id.valid_negate s _ _).mpr trivial
  have key : (den s xi).complexifyPy pv lo hi =
      createNodeR v (denE s (negE xi (complexifyEdgesI (Id.ff.negate xi) lo hi es))) := by
    rw [ux]
    simp only [Tree.complexifyPy, if_neg hu, if_neg (not_not_intro hval), if_pos hv, Edges.toList_ofList]
    rw [complexifyEdgesI_den hs.wf xi lo hi es cv]
  rw [key]
  by_cases hem : (complexifyEdgesI (Id.ff.negate xi) lo hi es).isEmpty = true
  · rw [if_pos hem]
    have : complexifyEdgesI (Id.ff.negate xi) lo hi es = [] := List.isEmpty_iff.mp hem
    rw [this]
    exact ⟨hs, IState.Le.refl s, trivial, by simp [negE, denE, createNodeR]⟩
  · rw [if_neg hem]
    exact createNodeI_negate_spec hs v _ xi (fun h => hem (List.isEmpty_iff.mpr h))
      (complexifyEdgesI_P (fun c => Id.Valid s c) (Id.ff.negate xi) lo hi vex es cv)

/-- **`complexifyPyI` on ids is `Tree.complexifyPy` on denotations**, whatever the arena contains -/
theorem complexifyPyI_spec (pv : νr) (lo hi : Bnd α) :
    ∀ (n : Nat), ComplexifyIH (νr := νr) (νb := νb) (α := α) pv lo hi n := by
  intro n
  induction n with
  | zero => intro s x _ _ h; omega
  | succ n ih =>
    intro s x hs vx hsz
    cases x with
    | ff =>
      rw [complexifyPyI_ff, den_ff]
      exact ⟨hs, IState.Le.refl s, trivial, by simp [Tree.complexifyPy]⟩
    | tt =>
      rw [complexifyPyI_tt, den_tt]
      by_cases hu : lo = .unb ∧ hi = .unb
      · rw [if_pos hu]
        exact ⟨hs, IState.Le.refl s, trivial, by simp [Tree.complexifyPy, hu]⟩
      rw [if_neg hu]
      by_cases hval : (Ivl.mk lo hi).valid = true
      · rw [if_neg (not_not_intro hval)]
        have h := pyRangeNodeI_spec (νb := νb) pv lo hi hs
        have e : ∀ r : Id, r.negate .tt = r := fun r => by simp [Id.negate, Id.isComplement]
        rw [e]
        simpa [Tree.complexifyPy, hu, hval] using h
      · rw [if_pos hval]
        exact ⟨hs, IState.Le.refl s, trivial, by simp [Tree.complexifyPy, hu, hval]⟩
    | ref i c =>
      by_cases hu : lo = .unb ∧ hi = .unb
      · rw [complexifyPyI_unb pv lo hi n s i c hu, complexifyPy_unb_py pv lo hi hu]
        exact ⟨hs, IState.Le.refl s, vx, rfl⟩
      have hi' : i < s.nodes.length := vx
      have hn : s.nodes[i]? = some s.nodes[i] := List.getElem?_eq_getElem hi'
      have ux := den_ref_neg hs.wf c hn
      have cv := fun ch hch => ((WF.child_valid hs.wf hn).2 ch hch).1
      by_cases hval : (Ivl.mk lo hi).valid = true
      · generalize s.nodes[i] = nd at hn ux cv
        cases nd with
        | rng v es =>
          simp only [denNodeNeg] at ux
          have cv' : ∀ e ∈ es, Id.Valid s e.2 := fun e he =>
            cv e.2 (by simp only [INode.children, List.mem_map]; exact ⟨e, he, rfl⟩)
          by_cases hv : v = pv
          · rw [complexifyPyI_rng_pv pv lo hi n s i c v es hu hval hv hn]
            exact complexify_rng_pv_case pv lo hi hs (.ref i c) v es hu hval hv ux cv'
          by_cases hlt : pv < v
          · rw [complexifyPyI_rng_after pv lo hi n s i c v es hu hval hv hlt hn]
            have h := complexify_and_case (νb := νb) pv lo hi (n + 1) hs (.ref i c) vx hsz
            have key : (den s (.ref i c)).complexifyPy pv lo hi =
                Tree.and (den s (.ref i c)) (createNodeR pv (fromRange [⟨lo, hi⟩])) := by
              rw [ux]
              simp only [Tree.complexifyPy, if_neg hu, if_neg (not_not_intro hval), if_neg hv, if_pos hlt]
            rw [key]; exact h
          · rw [complexifyPyI_rng_before pv lo hi n s i c v es hu hval hv hlt hn]
            exact complexify_rng_before_case pv lo hi n ih hs (.ref i c) v es hu hval hv hlt ux cv' hsz
        | bool v h l =>
          simp only [denNodeNeg] at ux
          rw [complexifyPyI_bool pv lo hi n s i c v h l hu hval hn]
          have hh := complexify_and_case (νb := νb) pv lo hi (n + 1) hs (.ref i c) vx hsz
          have key : (den s (.ref i c)).complexifyPy pv lo hi =
              Tree.and (den s (.ref i c)) (createNodeR pv (fromRange [⟨lo, hi⟩])) := by
            rw [ux]
            simp only [Tree.complexifyPy, if_neg hu, if_neg (not_not_intro hval)]
          rw [key]; exact hh
      · rw [complexifyPyI_invalid pv lo hi n s i c hu hval]
        refine ⟨hs, IState.Le.refl s, trivial, ?_⟩
        rw [den_ff, ux]
        cases s.nodes[i] <;> simp [denNodeNeg, Tree.complexifyPy, hu, hval]

end Complexify

/-! ## corollaries -/
section Corollaries
variable {νr νb α : Type}
variable [LT α] [DecidableLT α] [DecidableEq α]
variable [LT νr] [DecidableLT νr] [DecidableEq νr] [LT νb] [DecidableLT νb] [DecidableEq νb]

/-- **refinement of `simplify_python_versions`**: on any state satisfying the invariant — whatever
    was interned, memoised, restricted or simplified before — `simplifyPyI` keeps the invariant, only
    grows the arena, returns a valid id, and that id denotes `Tree.simplifyPy` of the operand's
    denotation. -/
theorem simplifyPyI_refines (pv : νr) (lo hi : Bnd α) (n : Nat) (s : IState νr νb α) (x : Id)
    (hs : s.Inv) (vx : Id.Valid s x) (hn : (den s x).size ≤ n) :
    (simplifyPyI pv lo hi n s x).1.Inv ∧ s.Le (simplifyPyI pv lo hi n s x).1 ∧
      Id.Valid (simplifyPyI pv lo hi n s x).1 (simplifyPyI pv lo hi n s x).2 ∧
      den (simplifyPyI pv lo hi n s x).1 (simplifyPyI pv lo hi n s x).2 = (den s x).simplifyPy pv lo hi :=
  simplifyPyI_spec pv lo hi n s x hs vx hn

/-- **refinement of `complexify_python_versions`** (fuel: the `and` of the `var > pv` branch runs on
    the operand and a range node of size ≤ 7) -/
theorem complexifyPyI_refines (pv : νr) (lo hi : Bnd α) (n : Nat) (s : IState νr νb α) (x : Id)
    (hs : s.Inv) (vx : Id.Valid s x) (hn : (den s x).size + 7 < n) :
    (complexifyPyI pv lo hi n s x).1.Inv ∧ s.Le (complexifyPyI pv lo hi n s x).1 ∧
      Id.Valid (complexifyPyI pv lo hi n s x).1 (complexifyPyI pv lo hi n s x).2 ∧
      den (complexifyPyI pv lo hi n s x).1 (complexifyPyI pv lo hi n s x).2 =
        (den s x).complexifyPy pv lo hi :=
  complexifyPyI_spec pv lo hi n s x hs vx hn

/-! ### `simplifyPyI` never touches the `and` memo table (`complexifyPyI` does: it calls `and`) -/

theorem simplifyPyI_cache (pv : νr) (lo hi : Bnd α) : ∀ (n : Nat) (s : IState νr νb α) (x : Id),
    (simplifyPyI pv lo hi n s x).1.cache = s.cache := by
  intro n
  induction n with
  | zero => intro s x; cases x <;> rfl
  | succ n ih =>
    intro s x
    cases x with
    | tt => rfl
    | ff => rfl
    | ref i c =>
      by_cases hu : lo = .unb ∧ hi = .unb
      · rw [simplifyPyI_unb pv lo hi n s i c hu]
      cases hn : s.nodes[i]? with
      | none => rw [simplifyPyI, if_neg hu, hn]
      | some nd =>
        cases nd with
        | rng v es =>
          by_cases hv : v = pv
          · rw [simplifyPyI_rng_pv pv lo hi n s i c v es hu hv hn]
            split
            · split
              · rfl
              · exact createNodeI_cache _ _
            · rfl
          · rw [simplifyPyI_rng_other pv lo hi n s i c v es hu hv hn, createNodeI_cache,
              mapEdgesI_cache _ _ ih]
        | bool v h l =>
          rw [simplifyPyI_bool pv lo hi n s i c v h l hu hn, createNodeI_cache, ih, ih]

/-- history independence of `simplify_python_versions` -/
theorem simplifyPyI_history_independent (pv : νr) (lo hi : Bnd α) (n₁ n₂ : Nat)
    (s₁ s₂ : IState νr νb α) (x₁ x₂ : Id) (h₁ : s₁.Inv) (h₂ : s₂.Inv)
    (vx₁ : Id.Valid s₁ x₁) (vx₂ : Id.Valid s₂ x₂) (hx : den s₁ x₁ = den s₂ x₂)
    (hn₁ : (den s₁ x₁).size ≤ n₁) (hn₂ : (den s₂ x₂).size ≤ n₂) :
    den (simplifyPyI pv lo hi n₁ s₁ x₁).1 (simplifyPyI pv lo hi n₁ s₁ x₁).2 =
      den (simplifyPyI pv lo hi n₂ s₂ x₂).1 (simplifyPyI pv lo hi n₂ s₂ x₂).2 := by
  rw [(simplifyPyI_refines pv lo hi n₁ s₁ x₁ h₁ vx₁ hn₁).2.2.2,
    (simplifyPyI_refines pv lo hi n₂ s₂ x₂ h₂ vx₂ hn₂).2.2.2, hx]

/-- history independence of `complexify_python_versions` -/
theorem complexifyPyI_history_independent (pv : νr) (lo hi : Bnd α) (n₁ n₂ : Nat)
    (s₁ s₂ : IState νr νb α) (x₁ x₂ : Id) (h₁ : s₁.Inv) (h₂ : s₂.Inv)
    (vx₁ : Id.Valid s₁ x₁) (vx₂ : Id.Valid s₂ x₂) (hx : den s₁ x₁ = den s₂ x₂)
    (hn₁ : (den s₁ x₁).size + 7 < n₁) (hn₂ : (den s₂ x₂).size + 7 < n₂) :
    den (complexifyPyI pv lo hi n₁ s₁ x₁).1 (complexifyPyI pv lo hi n₁ s₁ x₁).2 =
      den (complexifyPyI pv lo hi n₂ s₂ x₂).1 (complexifyPyI pv lo hi n₂ s₂ x₂).2 := by
  rw [(complexifyPyI_refines pv lo hi n₁ s₁ x₁ h₁ vx₁ hn₁).2.2.2,
    (complexifyPyI_refines pv lo hi n₂ s₂ x₂ h₂ vx₂ hn₂).2.2.2, hx]

/-- in any later state of the same arena the same call returns the *same id* -/
theorem simplifyPyI_same_id (pv : νr) (lo hi : Bnd α) (n m : Nat) (s s' : IState νr νb α) (x : Id)
    (hs : s.Inv) (hs' : s'.Inv) (vx : Id.Valid s x) (hle : (simplifyPyI pv lo hi n s x).1.Le s')
    (hn : (den s x).size ≤ n) (hm : (den s x).size ≤ m) :
    (simplifyPyI pv lo hi m s' x).2 = (simplifyPyI pv lo hi n s x).2 := by
  obtain ⟨i1, l1, v1, d1⟩ := simplifyPyI_refines pv lo hi n s x hs vx hn
  have hle' : s.Le s' := l1.trans hle
  have ex : den s' x = den s x := den_mono hs.wf hle' vx
  obtain ⟨i2, l2, v2, d2⟩ := simplifyPyI_refines pv lo hi m s' x hs' (vx.mono hle') (by rw [ex]; exact hm)
  apply den_inj i2.wf v2 ((v1.mono hle).mono l2)
  rw [d2, ex, den_mono i1.wf (hle.trans l2) v1, d1]

theorem complexifyPyI_same_id (pv : νr) (lo hi : Bnd α) (n m : Nat) (s s' : IState νr νb α) (x : Id)
    (hs : s.Inv) (hs' : s'.Inv) (vx : Id.Valid s x) (hle : (complexifyPyI pv lo hi n s x).1.Le s')
    (hn : (den s x).size + 7 < n) (hm : (den s x).size + 7 < m) :
    (complexifyPyI pv lo hi m s' x).2 = (complexifyPyI pv lo hi n s x).2 := by
  obtain ⟨i1, l1, v1, d1⟩ := complexifyPyI_refines pv lo hi n s x hs vx hn
  have hle' : s.Le s' := l1.trans hle
  have ex : den s' x = den s x := den_mono hs.wf hle' vx
  obtain ⟨i2, l2, v2, d2⟩ := complexifyPyI_refines pv lo hi m s' x hs' (vx.mono hle') (by rw [ex]; exact hm)
  apply den_inj i2.wf v2 ((v1.mono hle).mono l2)
  rw [d2, ex, den_mono i1.wf (hle.trans l2) v1, d1]

end Corollaries

end Pep508
