/-
C17, central clause over ALL positions of a marker: an uninterpretable comparison is dropped from
the surrounding and/or chain, wherever it stands, and the marker that results is the marker of the
text with exactly those comparisons removed.

* `MAst.prune x` — the AST with every dropped atom (`(atomSem x a).1 = none`) removed: an `and`/`or`
  node with one pruned-away side becomes the other side, parentheses around nothing disappear.
* `denote_prune` — the tree denoted by `m` IS the tree denoted by `m.prune x`;
  `denote_warns` — the warnings are the concatenation of the atoms' warnings, left to right.
* `prune_wf` — well-formedness of the pruned layout: everything is preserved except the
  keyword-left-boundary condition (`MAst.Gaps`), which holds e.g. when every keyword is preceded by a
  blank (`MAst.Spaced`) or every comparison ends with a quoted string (`MAst.AllClosed`).
-/
import Pep508.Proofs.AtomFrame
import Pep508.Proofs.Dispatch
namespace Pep508

open Cursor

theorem combine_none_first (isAnd : Bool) (e : Option MTree) : combine isAnd none e = e := by
  cases e <;> rfl

namespace MAst

/-- the comparison texts of the derivation, left to right -/
def atoms : MAst → List (List Char)
  | atom _ a => [a]
  | paren _ m _ => m.atoms
  | and l _ r => l.atoms ++ r.atoms
  | or l _ r => l.atoms ++ r.atoms

/-- the comparison `a` is dropped by the typed dispatch -/
def DroppedAtom (x : Ext) (a : List Char) : Prop := (atomSem x a).1 = none

/-- the comparison is kept -/
def keptAtom (x : Ext) (a : List Char) : Bool := (atomSem x a).1.isSome

theorem keptAtom_false {x : Ext} {a : List Char} : keptAtom x a = false ↔ DroppedAtom x a := by
  unfold keptAtom DroppedAtom
  cases (atomSem x a).1 <;> simp

/-- REMOVAL of the dropped comparisons: `none` = nothing remains.  Removing the right operand of
`l ws and r` removes `ws and r`; removing the left one removes `l ws and` (the leading blanks of `r`
are its own field and stay); `( nothing )` disappears with its parentheses. -/
def prune (x : Ext) : MAst → Option MAst
  | atom ws a => if keptAtom x a then some (atom ws a) else none
  | paren ws1 m ws2 =>
    match m.prune x with
    | some m' => some (paren ws1 m' ws2)
    | none => none
  | and l ws r =>
    match l.prune x, r.prune x with
    | some l', some r' => some (and l' ws r')
    | some l', none => some l'
    | none, r' => r'
  | or l ws r =>
    match l.prune x, r.prune x with
    | some l', some r' => some (or l' ws r')
    | some l', none => some l'
    | none, r' => r'

/-- the tree of the pruned derivation (`none` when nothing remains) -/
def pruneTree (x : Ext) (m : MAst) : Option MTree :=
  match m.prune x with
  | some m' => (m'.denote x).1
  | none => none

/-! ### (R1) the marker is the marker of the pruned derivation -/

theorem denote_prune (x : Ext) (m : MAst) : (m.denote x).1 = m.pruneTree x := by
  unfold pruneTree
  induction m with
  | atom ws a =>
    cases h : (atomSem x a).1 with
    | none => simp [prune, keptAtom, denote, h]
    | some e => simp [prune, keptAtom, denote, h]
  | paren ws1 m ws2 ih =>
    simp only [prune, denote]
    rw [ih]
    cases m.prune x <;> rfl
  | and l ws r ihl ihr =>
    simp only [prune, denote]
    rw [ihl, ihr]
    cases hl : l.prune x <;> cases hr : r.prune x <;>
      simp only [combine_none_first, combine_none_right, denote]
  | or l ws r ihl ihr =>
    simp only [prune, denote]
    rw [ihl, ihr]
    cases hl : l.prune x <;> cases hr : r.prune x <;>
      simp only [combine_none_first, combine_none_right, denote]

/-- the warnings: every atom's warnings, in text order -/
theorem denote_warns (x : Ext) (m : MAst) :
    (m.denote x).2 = m.atoms.flatMap (fun a => (atomSem x a).2) := by
  induction m with
  | atom ws a => simp [denote, atoms]
  | paren ws1 m ws2 ih => exact ih
  | and l ws r ihl ihr => simp only [denote, atoms, List.flatMap_append, ihl, ihr]
  | or l ws r ihl ihr => simp only [denote, atoms, List.flatMap_append, ihl, ihr]

/-- every warning of every comparison reaches the reporter -/
theorem atom_warn_mem (x : Ext) (m : MAst) {a : List Char} (ha : a ∈ m.atoms) {k : WarnKind}
    (hk : k ∈ (atomSem x a).2) : k ∈ (m.denote x).2 := by
  rw [denote_warns]
  exact List.mem_flatMap.2 ⟨a, ha, hk⟩

/-- the atoms of the pruned derivation: the kept ones, in order -/
theorem prune_atoms (x : Ext) (m : MAst) :
    (match m.prune x with | some m' => m'.atoms | none => []) = m.atoms.filter (keptAtom x) := by
  induction m with
  | atom ws a =>
    simp only [prune, atoms]
    cases h : keptAtom x a <;> simp [h, atoms]
  | paren ws1 m ws2 ih =>
    simp only [prune, atoms]
    rw [← ih]
    cases m.prune x <;> rfl
  | and l ws r ihl ihr =>
    simp only [prune, atoms, List.filter_append]
    rw [← ihl, ← ihr]
    cases hl : l.prune x <;> cases hr : r.prune x <;> simp [atoms]
  | or l ws r ihl ihr =>
    simp only [prune, atoms, List.filter_append]
    rw [← ihl, ← ihr]
    cases hl : l.prune x <;> cases hr : r.prune x <;> simp [atoms]

theorem prune_some_atoms {x : Ext} {m m' : MAst} (h : m.prune x = some m') :
    m'.atoms = m.atoms.filter (keptAtom x) := by
  have := prune_atoms x m
  rwa [h] at this

/-- the warnings of the pruned derivation: those of the kept comparisons -/
theorem prune_warns {x : Ext} {m m' : MAst} (h : m.prune x = some m') :
    (m'.denote x).2 = (m.atoms.filter (keptAtom x)).flatMap (fun a => (atomSem x a).2) := by
  rw [denote_warns, prune_some_atoms h]

/-- nothing remains iff every comparison is dropped -/
theorem prune_none_iff (x : Ext) (m : MAst) :
    m.prune x = none ↔ ∀ a ∈ m.atoms, DroppedAtom x a := by
  constructor
  · intro hn a ha
    have h := prune_atoms x m
    rw [hn] at h
    rw [← keptAtom_false]
    cases hk : keptAtom x a with
    | false => rfl
    | true =>
      have : a ∈ m.atoms.filter (keptAtom x) := List.mem_filter.2 ⟨ha, hk⟩
      rw [← h] at this
      cases this
  · intro hall
    induction m with
    | atom ws a =>
      have := keptAtom_false.2 (hall a (by simp [atoms]))
      simp [prune, this]
    | paren ws1 m ws2 ih =>
      simp only [prune]
      rw [ih (fun a ha => hall a ha)]
    | and l ws r ihl ihr =>
      simp only [prune]
      rw [ihl (fun a ha => hall a (by simp [atoms, ha])),
        ihr (fun a ha => hall a (by simp [atoms, ha]))]
    | or l ws r ihl ihr =>
      simp only [prune]
      rw [ihl (fun a ha => hall a (by simp [atoms, ha])),
        ihr (fun a ha => hall a (by simp [atoms, ha]))]

/-- the pruned derivation denotes a tree (it is never the "nothing remains" case) -/
theorem prune_some_tree {x : Ext} : ∀ {m m' : MAst}, m.prune x = some m' → ∃ t, (m'.denote x).1 = some t := by
  intro m
  induction m with
  | atom ws a =>
    intro m' h
    simp only [prune] at h
    cases hk : keptAtom x a with
    | false => simp [hk] at h
    | true =>
      simp only [hk, if_true, Option.some.injEq] at h
      subst h
      unfold keptAtom at hk
      cases hs : (atomSem x a).1 with
      | none => simp [hs] at hk
      | some e => exact ⟨expression e, by simp [denote, hs]⟩
  | paren ws1 m ws2 ih =>
    intro m' h
    simp only [prune] at h
    cases hm : m.prune x with
    | none => simp [hm] at h
    | some m1 =>
      simp only [hm, Option.some.injEq] at h
      subst h
      have := ih hm
      exact this
  | and l ws r ihl ihr =>
    intro m' h
    simp only [prune] at h
    cases hl : l.prune x with
    | none =>
      simp only [hl] at h
      exact ihr h
    | some l' =>
      obtain ⟨tl, htl⟩ := ihl hl
      cases hr : r.prune x with
      | none =>
        simp only [hl, hr, Option.some.injEq] at h
        subst h
        exact ⟨tl, htl⟩
      | some r' =>
        obtain ⟨tr, htr⟩ := ihr hr
        simp only [hl, hr, Option.some.injEq] at h
        subst h
        exact ⟨Tree.and tl tr, by simp [denote, htl, htr, combine]⟩
  | or l ws r ihl ihr =>
    intro m' h
    simp only [prune] at h
    cases hl : l.prune x with
    | none =>
      simp only [hl] at h
      exact ihr h
    | some l' =>
      obtain ⟨tl, htl⟩ := ihl hl
      cases hr : r.prune x with
      | none =>
        simp only [hl, hr, Option.some.injEq] at h
        subst h
        exact ⟨tl, htl⟩
      | some r' =>
        obtain ⟨tr, htr⟩ := ihr hr
        simp only [hl, hr, Option.some.injEq] at h
        subst h
        exact ⟨Tree.or tl tr, by simp [denote, htl, htr, combine]⟩

/-- the marker is TRUE-by-default (`none`) iff every comparison was dropped -/
theorem denote_none_iff (x : Ext) (m : MAst) :
    (m.denote x).1 = none ↔ ∀ a ∈ m.atoms, DroppedAtom x a := by
  rw [denote_prune, ← prune_none_iff]
  unfold pruneTree
  cases h : m.prune x with
  | none => simp
  | some m' =>
    obtain ⟨t, ht⟩ := prune_some_tree h
    simp [ht]

/-- pruning removes every dropped comparison: pruning again changes nothing -/
theorem prune_idem {x : Ext} : ∀ {m m' : MAst}, m.prune x = some m' → m'.prune x = some m' := by
  intro m
  induction m with
  | atom ws a =>
    intro m' h
    simp only [prune] at h
    cases hk : keptAtom x a with
    | false => simp [hk] at h
    | true =>
      simp only [hk, if_true, Option.some.injEq] at h
      subst h
      simp [prune, hk]
  | paren ws1 m ws2 ih =>
    intro m' h
    simp only [prune] at h
    cases hm : m.prune x with
    | none => simp [hm] at h
    | some m1 =>
      simp only [hm, Option.some.injEq] at h
      subst h
      simp [prune, ih hm]
  | and l ws r ihl ihr =>
    intro m' h
    simp only [prune] at h
    cases hl : l.prune x with
    | none =>
      simp only [hl] at h
      exact ihr h
    | some l' =>
      cases hr : r.prune x with
      | none =>
        simp only [hl, hr, Option.some.injEq] at h
        subst h
        exact ihl hl
      | some r' =>
        simp only [hl, hr, Option.some.injEq] at h
        subst h
        simp [prune, ihl hl, ihr hr]
  | or l ws r ihl ihr =>
    intro m' h
    simp only [prune] at h
    cases hl : l.prune x with
    | none =>
      simp only [hl] at h
      exact ihr h
    | some l' =>
      cases hr : r.prune x with
      | none =>
        simp only [hl, hr, Option.some.injEq] at h
        subst h
        exact ihl hl
      | some r' =>
        simp only [hl, hr, Option.some.injEq] at h
        subst h
        simp [prune, ihl hl, ihr hr]

/-- no comparison of the pruned derivation is dropped -/
theorem prune_all_kept {x : Ext} {m m' : MAst} (h : m.prune x = some m') :
    ∀ a ∈ m'.atoms, keptAtom x a = true := by
  intro a ha
  rw [prune_some_atoms h] at ha
  exact (List.mem_filter.1 ha).2

/-! ### well-formedness of the pruned layout -/

theorem atomsOK_iff (x : Ext) (m : MAst) : m.AtomsOK x ↔ ∀ a ∈ m.atoms, AtomOK x a := by
  induction m with
  | atom ws a => simp [AtomsOK, atoms]
  | paren ws1 m ws2 ih => exact ih
  | and l ws r ihl ihr =>
    simp only [AtomsOK, atoms, List.mem_append, ihl, ihr]
    exact ⟨fun h a ha => ha.elim (h.1 a) (h.2 a), fun h => ⟨fun a ha => h a (.inl ha), fun a ha => h a (.inr ha)⟩⟩
  | or l ws r ihl ihr =>
    simp only [AtomsOK, atoms, List.mem_append, ihl, ihr]
    exact ⟨fun h a ha => ha.elim (h.1 a) (h.2 a), fun h => ⟨fun a ha => h a (.inl ha), fun a ha => h a (.inr ha)⟩⟩

theorem prune_atomsOK {x : Ext} {m m' : MAst} (h : m.prune x = some m') (hat : m.AtomsOK x) :
    m'.AtomsOK x := by
  rw [atomsOK_iff] at hat ⊢
  intro a ha
  rw [prune_some_atoms h] at ha
  exact hat a (List.mem_filter.1 ha).1

theorem layout_ne_nil : ∀ {m : MAst}, m.WF → m.layout ≠ [] := by
  intro m
  induction m with
  | atom ws a =>
    intro h
    obtain ⟨ch, tl, rfl, _⟩ := h.2
    simp [layout]
  | paren ws1 m ws2 _ => intro _; simp [layout]
  | and l ws r ihl _ => intro h; simp [layout, ihl h.1]
  | or l ws r ihl _ => intro h; simp [layout, ihl h.1]

theorem headIs_of_append {p : Char → Bool} {s t : List Char} (hs : s ≠ []) (h : HeadIs p (s ++ t)) :
    HeadIs p s := by
  cases s with
  | nil => exact absurd rfl hs
  | cons a s =>
    obtain ⟨ch, tl, he, hp⟩ := h
    simp only [List.cons_append, List.cons.injEq] at he
    exact ⟨a, s, rfl, he.1 ▸ hp⟩

theorem isExpr_isAndChain {m : MAst} (h : m.isExpr = true) : m.isAndChain = true := by
  cases m <;> simp [isExpr, isAndChain] at h ⊢

theorem prune_isExpr {x : Ext} {m m' : MAst} (hm : m.isExpr = true) (h : m.prune x = some m') :
    m'.isExpr = true := by
  cases m with
  | atom ws a =>
    simp only [prune] at h
    cases hk : keptAtom x a <;> simp [hk] at h
    subst h; rfl
  | paren ws1 m ws2 =>
    simp only [prune] at h
    cases hp : m.prune x <;> simp [hp] at h
    subst h; rfl
  | and l ws r => simp [isExpr] at hm
  | or l ws r => simp [isExpr] at hm

theorem prune_isAndChain {x : Ext} : ∀ {m m' : MAst}, m.WF → m.isAndChain = true →
    m.prune x = some m' → m'.isAndChain = true := by
  intro m
  induction m with
  | atom ws a => intro m' _ _ h; exact isExpr_isAndChain (prune_isExpr rfl h)
  | paren ws1 m ws2 _ => intro m' _ _ h; exact isExpr_isAndChain (prune_isExpr rfl h)
  | and l ws r ihl _ =>
    intro m' hwf _ h
    obtain ⟨wl, wr, hl, hr, _⟩ := hwf
    simp only [prune] at h
    cases hpl : l.prune x with
    | none =>
      simp only [hpl] at h
      exact isExpr_isAndChain (prune_isExpr hr h)
    | some l' =>
      cases hpr : r.prune x with
      | none =>
        simp only [hpl, hpr, Option.some.injEq] at h
        subst h
        exact ihl wl hl hpl
      | some r' =>
        simp only [hpl, hpr, Option.some.injEq] at h
        subst h
        rfl
  | or l ws r _ _ => intro m' _ hc _; simp [isAndChain] at hc

/-- a pruned operand still starts with a keyword boundary (blank, `(` or quote) -/
theorem prune_head {x : Ext} : ∀ {m m' : MAst}, m.WF → HeadIs kwStop m.layout →
    m.prune x = some m' → HeadIs kwStop m'.layout := by
  intro m
  induction m with
  | atom ws a =>
    intro m' _ hh h
    simp only [prune] at h
    cases hk : keptAtom x a <;> simp [hk] at h
    subst h; exact hh
  | paren ws1 m ws2 _ =>
    intro m' _ hh h
    simp only [prune] at h
    cases hp : m.prune x <;> simp [hp] at h
    subst h
    cases ws1 with
    | nil => exact ⟨'(', _, rfl, by decide⟩
    | cons b ws1 =>
      obtain ⟨ch, tl, he, hp⟩ := hh
      simp only [layout, List.cons_append, List.cons.injEq] at he
      exact ⟨b, _, rfl, he.1 ▸ hp⟩
  | and l ws r ihl ihr =>
    intro m' hwf hh h
    obtain ⟨wl, wr, _, _, _, _, hstop⟩ := hwf
    simp only [prune] at h
    cases hpl : l.prune x with
    | none =>
      simp only [hpl] at h
      exact ihr wr hstop h
    | some l' =>
      have hl' := ihl wl (headIs_of_append (layout_ne_nil wl) hh) hpl
      cases hpr : r.prune x with
      | none =>
        simp only [hpl, hpr, Option.some.injEq] at h
        subst h
        exact hl'
      | some r' =>
        simp only [hpl, hpr, Option.some.injEq] at h
        subst h
        exact hl'.append _
  | or l ws r ihl ihr =>
    intro m' hwf hh h
    obtain ⟨wl, wr, _, _, _, hstop⟩ := hwf
    simp only [prune] at h
    cases hpl : l.prune x with
    | none =>
      simp only [hpl] at h
      exact ihr wr hstop h
    | some l' =>
      have hl' := ihl wl (headIs_of_append (layout_ne_nil wl) hh) hpl
      cases hpr : r.prune x with
      | none =>
        simp only [hpl, hpr, Option.some.injEq] at h
        subst h
        exact hl'
      | some r' =>
        simp only [hpl, hpr, Option.some.injEq] at h
        subst h
        exact hl'.append _

/-- the keyword-left-boundary conditions of `WF` alone: every keyword is preceded by a blank, a
closing quote or `)` -/
def Gaps : MAst → Prop
  | atom _ _ => True
  | paren _ m _ => m.Gaps
  | and l ws r => l.Gaps ∧ r.Gaps ∧ (l.closed = true ∨ ws ≠ [])
  | or l ws r => l.Gaps ∧ r.Gaps ∧ (l.closed = true ∨ ws ≠ [])

theorem WF.gaps : ∀ {m : MAst}, m.WF → m.Gaps := by
  intro m
  induction m with
  | atom ws a => intro _; trivial
  | paren ws1 m ws2 ih => intro h; exact ih h.2.2
  | and l ws r ihl ihr => intro h; exact ⟨ihl h.1, ihr h.2.1, h.2.2.2.2.2.1⟩
  | or l ws r ihl ihr => intro h; exact ⟨ihl h.1, ihr h.2.1, h.2.2.2.2.1⟩

/-- the pruned layout is well-formed iff its keyword-left-boundary conditions hold: every other
condition of `WF` (blank runs, precedence, keyword-right-boundary) survives the removal -/
theorem prune_wf {x : Ext} : ∀ {m m' : MAst}, m.WF → m.prune x = some m' → m'.Gaps → m'.WF := by
  intro m
  induction m with
  | atom ws a =>
    intro m' hwf h _
    simp only [prune] at h
    cases hk : keptAtom x a <;> simp [hk] at h
    subst h; exact hwf
  | paren ws1 m ws2 ih =>
    intro m' hwf h hg
    simp only [prune] at h
    cases hp : m.prune x with
    | none => simp [hp] at h
    | some m1 =>
      simp only [hp, Option.some.injEq] at h
      subst h
      exact ⟨hwf.1, hwf.2.1, ih hwf.2.2 hp hg⟩
  | and l ws r ihl ihr =>
    intro m' hwf h hg
    obtain ⟨wl, wr, hl, hr, hws, _, hstop⟩ := hwf
    simp only [prune] at h
    cases hpl : l.prune x with
    | none =>
      simp only [hpl] at h
      exact ihr wr h hg
    | some l' =>
      cases hpr : r.prune x with
      | none =>
        simp only [hpl, hpr, Option.some.injEq] at h
        subst h
        exact ihl wl hpl hg
      | some r' =>
        simp only [hpl, hpr, Option.some.injEq] at h
        subst h
        exact ⟨ihl wl hpl hg.1, ihr wr hpr hg.2.1, prune_isAndChain wl hl hpl, prune_isExpr hr hpr, hws,
          hg.2.2, prune_head wr hstop hpr⟩
  | or l ws r ihl ihr =>
    intro m' hwf h hg
    obtain ⟨wl, wr, hr, hws, _, hstop⟩ := hwf
    simp only [prune] at h
    cases hpl : l.prune x with
    | none =>
      simp only [hpl] at h
      exact ihr wr h hg
    | some l' =>
      cases hpr : r.prune x with
      | none =>
        simp only [hpl, hpr, Option.some.injEq] at h
        subst h
        exact ihl wl hpl hg
      | some r' =>
        simp only [hpl, hpr, Option.some.injEq] at h
        subst h
        exact ⟨ihl wl hpl hg.1, ihr wr hpr hg.2.1, prune_isAndChain wr hr hpr, hws, hg.2.2,
          prune_head wr hstop hpr⟩

theorem prune_wf_iff {x : Ext} {m m' : MAst} (hwf : m.WF) (h : m.prune x = some m') :
    m'.WF ↔ m'.Gaps := ⟨WF.gaps, prune_wf hwf h⟩

/-- sufficient condition 1: every keyword is preceded by at least one blank -/
def Spaced : MAst → Prop
  | atom _ _ => True
  | paren _ m _ => m.Spaced
  | and l ws r => l.Spaced ∧ r.Spaced ∧ ws ≠ []
  | or l ws r => l.Spaced ∧ r.Spaced ∧ ws ≠ []

theorem Spaced.gaps : ∀ {m : MAst}, m.Spaced → m.Gaps := by
  intro m
  induction m with
  | atom ws a => intro _; trivial
  | paren ws1 m ws2 ih => intro h; exact ih h
  | and l ws r ihl ihr => intro h; exact ⟨ihl h.1, ihr h.2.1, .inr h.2.2⟩
  | or l ws r ihl ihr => intro h; exact ⟨ihl h.1, ihr h.2.1, .inr h.2.2⟩

theorem prune_spaced {x : Ext} : ∀ {m m' : MAst}, m.Spaced → m.prune x = some m' → m'.Spaced := by
  intro m
  induction m with
  | atom ws a =>
    intro m' _ h
    simp only [prune] at h
    cases hk : keptAtom x a <;> simp [hk] at h
    subst h; trivial
  | paren ws1 m ws2 ih =>
    intro m' hs h
    simp only [prune] at h
    cases hp : m.prune x with
    | none => simp [hp] at h
    | some m1 =>
      simp only [hp, Option.some.injEq] at h
      subst h
      have := ih hs hp
      exact this
  | and l ws r ihl ihr =>
    intro m' hs h
    simp only [prune] at h
    cases hpl : l.prune x with
    | none => simp only [hpl] at h; exact ihr hs.2.1 h
    | some l' =>
      cases hpr : r.prune x with
      | none =>
        simp only [hpl, hpr, Option.some.injEq] at h
        subst h; exact ihl hs.1 hpl
      | some r' =>
        simp only [hpl, hpr, Option.some.injEq] at h
        subst h; exact ⟨ihl hs.1 hpl, ihr hs.2.1 hpr, hs.2.2⟩
  | or l ws r ihl ihr =>
    intro m' hs h
    simp only [prune] at h
    cases hpl : l.prune x with
    | none => simp only [hpl] at h; exact ihr hs.2.1 h
    | some l' =>
      cases hpr : r.prune x with
      | none =>
        simp only [hpl, hpr, Option.some.injEq] at h
        subst h; exact ihl hs.1 hpl
      | some r' =>
        simp only [hpl, hpr, Option.some.injEq] at h
        subst h; exact ⟨ihl hs.1 hpl, ihr hs.2.1 hpr, hs.2.2⟩

/-- sufficient condition 2: every comparison ends with a quoted string -/
def AllClosed (m : MAst) : Prop := ∀ a ∈ m.atoms, endsQuote a = true

theorem AllClosed.closed : ∀ {m : MAst}, m.AllClosed → m.closed = true := by
  intro m
  induction m with
  | atom ws a => intro h; exact h a (by simp [atoms])
  | paren ws1 m ws2 _ => intro _; rfl
  | and l ws r _ ihr => intro h; exact ihr (fun a ha => h a (by simp [atoms, ha]))
  | or l ws r _ ihr => intro h; exact ihr (fun a ha => h a (by simp [atoms, ha]))

theorem AllClosed.gaps : ∀ {m : MAst}, m.AllClosed → m.Gaps := by
  intro m
  induction m with
  | atom ws a => intro _; trivial
  | paren ws1 m ws2 ih => intro h; exact ih h
  | and l ws r ihl ihr =>
    intro h
    have hl : l.AllClosed := fun a ha => h a (by simp [atoms, ha])
    exact ⟨ihl hl, ihr (fun a ha => h a (by simp [atoms, ha])), .inl hl.closed⟩
  | or l ws r ihl ihr =>
    intro h
    have hl : l.AllClosed := fun a ha => h a (by simp [atoms, ha])
    exact ⟨ihl hl, ihr (fun a ha => h a (by simp [atoms, ha])), .inl hl.closed⟩

theorem prune_allClosed {x : Ext} {m m' : MAst} (hc : m.AllClosed) (h : m.prune x = some m') :
    m'.AllClosed := by
  intro a ha
  rw [prune_some_atoms h] at ha
  exact hc a (List.mem_filter.1 ha).1

end MAst

/-! ### a comparison that parses is a dispatch result; a dropped one is never silent -/

theorem parseKeyOpValue_dispatch {x : Ext} {c c' : Cursor} {res : Option MExpr × List WarnKind}
    (h : parseKeyOpValue x c = .ok (res, c')) : ∃ l op r, res = dispatch x l op r := by
  unfold parseKeyOpValue at h
  split at h
  · cases h
  · cases h
  · split at h
    · cases h
    · cases h
    · split at h
      · cases h
      · cases h
      · simp only [Res.ok.injEq, Prod.mk.injEq] at h
        exact ⟨_, _, _, h.1.symm⟩

theorem atomOK_dispatch {x : Ext} {a : List Char} (h : AtomOK x a) :
    ∃ l op r, atomSem x a = dispatch x l op r :=
  parseKeyOpValue_dispatch (h (Cursor.new a) [] (inv_new a) (by simp [Cursor.new]) (.inr SoftEnd.nil))

/-- a dropped comparison reports at least one warning -/
theorem dropped_warns {x : Ext} {a : List Char} (h : AtomOK x a) (hd : MAst.DroppedAtom x a) :
    (atomSem x a).2 ≠ [] := by
  obtain ⟨l, op, r, he⟩ := atomOK_dispatch h
  unfold MAst.DroppedAtom at hd
  rw [he] at hd ⊢
  exact dispatch_none_warns x l op r hd

/-! ### (R2) the parser on the layout -/

/-- the parser on any well-formed layout: the tree of the pruned derivation (TRUE if nothing
remains), every comparison's warnings in text order -/
theorem parseMarkers_prune (x : Ext) (m : MAst) (trail : List Char) (hwf : m.WF) (hat : m.AtomsOK x)
    (ht : AllP isWs trail) :
    parseMarkers x (m.layout ++ trail) =
      .ok ((m.pruneTree x).getD (.leaf true), m.atoms.flatMap (fun a => (atomSem x a).2)) := by
  rw [parseMarkers_layout x m trail hwf hat ht, MAst.denote_prune, MAst.denote_warns]

/-- the original text and the text with the dropped comparisons removed parse to the SAME tree;
the warnings of the second are those of the kept comparisons -/
theorem parseMarkers_prune_same (x : Ext) (m m' : MAst) (trail trail' : List Char) (hwf : m.WF)
    (hat : m.AtomsOK x) (hp : m.prune x = some m') (hg : m'.Gaps)
    (ht : AllP isWs trail) (ht' : AllP isWs trail') :
    ∃ T, parseMarkers x (m.layout ++ trail) =
          .ok (T, m.atoms.flatMap (fun a => (atomSem x a).2)) ∧
      parseMarkers x (m'.layout ++ trail') =
          .ok (T, (m.atoms.filter (MAst.keptAtom x)).flatMap (fun a => (atomSem x a).2)) ∧
      (m'.denote x).1 = some T := by
  obtain ⟨T, hT⟩ := MAst.prune_some_tree hp
  refine ⟨T, ?_, ?_, hT⟩
  · rw [parseMarkers_prune x m trail hwf hat ht]
    unfold MAst.pruneTree
    rw [hp]
    simp only [hT, Option.getD_some]
  · rw [parseMarkers_layout x m' trail' (MAst.prune_wf hwf hp hg) (MAst.prune_atomsOK hp hat) ht',
      MAst.prune_warns hp, hT]
    rfl

/-- nothing remains: the marker is TRUE, and the reporter received something -/
theorem parseMarkers_prune_none (x : Ext) (m : MAst) (trail : List Char) (hwf : m.WF)
    (hat : m.AtomsOK x) (hp : m.prune x = none) (ht : AllP isWs trail) :
    parseMarkers x (m.layout ++ trail) =
      .ok (.leaf true, m.atoms.flatMap (fun a => (atomSem x a).2)) := by
  rw [parseMarkers_prune x m trail hwf hat ht]
  unfold MAst.pruneTree
  rw [hp]
  rfl

end Pep508
