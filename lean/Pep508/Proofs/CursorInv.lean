/-
Cursor invariant: the cursor position is always the byte length of a prefix of the input, hence
every slice the lexer takes lies on char boundaries.
-/
import Pep508.Model.Cursor
namespace Pep508

theorem utf8Len_pos (c : Char) : 0 < utf8Len c := Char.utf8Size_pos c

@[simp] theorem strLen_nil : strLen [] = 0 := rfl

@[simp] theorem strLen_cons (c : Char) (s : List Char) : strLen (c :: s) = utf8Len c + strLen s := by
  simp [strLen]

@[simp] theorem strLen_append (s t : List Char) : strLen (s ++ t) = strLen s + strLen t := by
  simp [strLen]

theorem dropBytes_zero (s : List Char) : dropBytes s 0 = some s := by
  cases s <;> rfl

theorem takeBytes_zero (s : List Char) : takeBytes s 0 = some [] := by
  cases s <;> rfl

theorem dropBytes_cons (c : Char) (s : List Char) (n : Nat) :
    dropBytes (c :: s) (utf8Len c + n) = dropBytes s n := by
  have h := utf8Len_pos c
  obtain ⟨m, hm⟩ : ∃ m, utf8Len c + n = m + 1 := ⟨utf8Len c + n - 1, by omega⟩
  rw [hm, dropBytes]
  have : utf8Len c ≤ m + 1 := by omega
  simp only [this, if_true]
  congr 1; omega

theorem takeBytes_cons (c : Char) (s : List Char) (n : Nat) :
    takeBytes (c :: s) (utf8Len c + n) = (takeBytes s n).map (c :: ·) := by
  have h := utf8Len_pos c
  obtain ⟨m, hm⟩ : ∃ m, utf8Len c + n = m + 1 := ⟨utf8Len c + n - 1, by omega⟩
  rw [hm, takeBytes]
  have : utf8Len c ≤ m + 1 := by omega
  simp only [this, if_true]
  have : m + 1 - utf8Len c = n := by omega
  rw [this]

theorem dropBytes_append (pre rest : List Char) : dropBytes (pre ++ rest) (strLen pre) = some rest := by
  induction pre with
  | nil => simp [dropBytes_zero]
  | cons c pre ih => simp only [List.cons_append, strLen_cons, dropBytes_cons, ih]

theorem takeBytes_append (mid rest : List Char) : takeBytes (mid ++ rest) (strLen mid) = some mid := by
  induction mid with
  | nil => simp [takeBytes_zero]
  | cons c mid ih => simp only [List.cons_append, strLen_cons, takeBytes_cons, ih, Option.map_some]

theorem sliceBytes_append (pre mid rest : List Char) :
    sliceBytes (pre ++ mid ++ rest) (strLen pre) (strLen mid) = some mid := by
  unfold sliceBytes
  rw [List.append_assoc, dropBytes_append]
  exact takeBytes_append mid rest

/-- `n` is a char boundary of `input` (possibly its end) -/
def Boundary (input : List Char) (n : Nat) : Prop :=
  ∃ pre rest, input = pre ++ rest ∧ n = strLen pre

theorem Boundary.le {input : List Char} {n : Nat} (h : Boundary input n) : n ≤ strLen input := by
  obtain ⟨pre, rest, rfl, rfl⟩ := h
  simp

theorem Boundary.dropBytes_isSome {input : List Char} {n : Nat} (h : Boundary input n) :
    ∃ r, dropBytes input n = some r := by
  obtain ⟨pre, rest, rfl, rfl⟩ := h
  exact ⟨rest, dropBytes_append pre rest⟩

theorem Boundary.zero (input : List Char) : Boundary input 0 := ⟨[], input, rfl, rfl⟩

theorem Boundary.end_ (input : List Char) : Boundary input (strLen input) := ⟨input, [], by simp, rfl⟩

namespace Cursor

/-- the cursor sits at a char boundary: `pos` is the byte length of the consumed prefix -/
def Inv (c : Cursor) : Prop := ∃ pre, c.input = pre ++ c.rest ∧ c.pos = strLen pre

theorem Inv.boundary {c : Cursor} (h : c.Inv) : Boundary c.input c.pos := by
  obtain ⟨pre, h1, h2⟩ := h
  exact ⟨pre, c.rest, h1, h2⟩

theorem inv_new (input : List Char) : (Cursor.new input).Inv := ⟨[], rfl, rfl⟩

@[simp] theorem new_input (input : List Char) : (Cursor.new input).input = input := rfl

theorem inv_step {input : List Char} {ch : Char} {r : List Char} {pos : Nat}
    (h : Inv ⟨input, ch :: r, pos⟩) : Inv ⟨input, r, pos + utf8Len ch⟩ := by
  obtain ⟨pre, h1, h2⟩ := h
  refine ⟨pre ++ [ch], ?_, ?_⟩
  · simp only at h1 ⊢; rw [h1]; simp
  · simp only at h2 ⊢; rw [h2]; simp

theorem next_spec {c : Cursor} (h : c.Inv) {pos : Nat} {ch : Char} {c' : Cursor}
    (hn : c.next = some ((pos, ch), c')) :
    c'.Inv ∧ c'.input = c.input ∧ pos = c.pos ∧ Boundary c.input pos := by
  obtain ⟨input, rest, p⟩ := c
  unfold next at hn
  cases rest with
  | nil => simp at hn
  | cons a r =>
    simp only [Option.some.injEq, Prod.mk.injEq] at hn
    obtain ⟨⟨rfl, rfl⟩, rfl⟩ := hn
    exact ⟨inv_step h, rfl, rfl, h.boundary⟩

theorem peek_next {c : Cursor} {pos : Nat} {ch : Char} (hp : c.peek = some (pos, ch)) :
    ∃ c', c.next = some ((pos, ch), c') := by
  unfold peek at hp
  unfold next
  cases h : c.rest with
  | nil => simp [h] at hp
  | cons a r =>
    simp only [h, Option.some.injEq, Prod.mk.injEq] at hp
    obtain ⟨rfl, rfl⟩ := hp
    exact ⟨_, rfl⟩

theorem peek_pos {c : Cursor} {pos : Nat} {ch : Char} (hp : c.peek = some (pos, ch)) : pos = c.pos := by
  unfold peek at hp
  cases h : c.rest with
  | nil => simp [h] at hp
  | cons a r =>
    simp only [h, Option.some.injEq, Prod.mk.injEq] at hp
    exact hp.1.symm

theorem eatChar_spec {c : Cursor} (h : c.Inv) {tok : Char} {pos : Nat} {c' : Cursor}
    (hn : c.eatChar tok = some (pos, c')) :
    c'.Inv ∧ c'.input = c.input ∧ pos = c.pos := by
  obtain ⟨input, rest, p⟩ := c
  unfold eatChar at hn
  cases rest with
  | nil => simp at hn
  | cons a r =>
    simp only at hn
    by_cases hc : (a == tok) = true
    · simp only [hc, if_true, Option.some.injEq, Prod.mk.injEq] at hn
      obtain ⟨rfl, rfl⟩ := hn
      exact ⟨inv_step h, rfl, rfl⟩
    · simp [hc] at hn

theorem skipWhile_spec (p : Char → Bool) (rest : List Char) (pos : Nat) :
    ∃ taken, rest = taken ++ (skipWhile p rest pos).1 ∧ (skipWhile p rest pos).2 = pos + strLen taken := by
  induction rest generalizing pos with
  | nil => exact ⟨[], rfl, rfl⟩
  | cons ch r ih =>
    unfold skipWhile
    by_cases hp : p ch = true
    · simp only [hp, if_true]
      obtain ⟨taken, h1, h2⟩ := ih (pos + utf8Len ch)
      refine ⟨ch :: taken, ?_, ?_⟩
      · rw [List.cons_append, ← h1]
      · rw [h2]; simp; omega
    · simp only [hp]
      exact ⟨[], rfl, rfl⟩

theorem inv_skip {c : Cursor} (h : c.Inv) (p : Char → Bool) :
    Inv ⟨c.input, (skipWhile p c.rest c.pos).1, (skipWhile p c.rest c.pos).2⟩ := by
  obtain ⟨pre, h1, h2⟩ := h
  obtain ⟨taken, h3, h4⟩ := skipWhile_spec p c.rest c.pos
  refine ⟨pre ++ taken, ?_, ?_⟩
  · simp only; rw [List.append_assoc, ← h3]; exact h1
  · simp only; rw [h4, h2]; simp

theorem inv_eatWhitespace {c : Cursor} (h : c.Inv) : c.eatWhitespace.Inv := inv_skip h isWs

@[simp] theorem eatWhitespace_input (c : Cursor) : c.eatWhitespace.input = c.input := rfl

@[simp] theorem takeWhile_input (c : Cursor) (p : Char → Bool) : (c.takeWhile p).2.input = c.input := rfl

theorem inv_takeWhile {c : Cursor} (h : c.Inv) (p : Char → Bool) : (c.takeWhile p).2.Inv := inv_skip h p

/-- the span returned by `take_while` is sliceable, and is exactly the run of taken chars -/
theorem takeWhile_slice {c : Cursor} (h : c.Inv) (p : Char → Bool) :
    ∃ taken, c.rest = taken ++ (c.takeWhile p).2.rest ∧
      sliceBytes c.input (c.takeWhile p).1.1 (c.takeWhile p).1.2 = some taken ∧
      (c.takeWhile p).1.1 = c.pos := by
  obtain ⟨pre, h1, h2⟩ := h
  obtain ⟨taken, h3, h4⟩ := skipWhile_spec p c.rest c.pos
  refine ⟨taken, h3, ?_, rfl⟩
  show sliceBytes c.input c.pos ((skipWhile p c.rest c.pos).2 - c.pos) = some taken
  rw [h4, h1, h3, h2, ← List.append_assoc]
  have : strLen pre + strLen taken - strLen pre = strLen taken := by omega
  rw [this]
  exact sliceBytes_append _ _ _

theorem takeWhile_slice_some {c : Cursor} (h : c.Inv) (p : Char → Bool) :
    ∃ taken, (c.takeWhile p).2.slice (c.takeWhile p).1.1 (c.takeWhile p).1.2 = some taken := by
  obtain ⟨taken, _, h2, _⟩ := takeWhile_slice h p
  exact ⟨taken, h2⟩

theorem takeWhile_slice_some' {c : Cursor} (h : c.Inv) (p : Char → Bool) :
    ∃ taken, c.slice (c.takeWhile p).1.1 (c.takeWhile p).1.2 = some taken :=
  takeWhile_slice_some h p

theorem peekWhile_slice_some {c : Cursor} (h : c.Inv) (p : Char → Bool) :
    ∃ taken, c.slice (c.peekWhile p).1 (c.peekWhile p).2 = some taken :=
  takeWhile_slice_some h p

theorem takeWhile_start {c : Cursor} (p : Char → Bool) : (c.takeWhile p).1.1 = c.pos := rfl

end Cursor
end Pep508
