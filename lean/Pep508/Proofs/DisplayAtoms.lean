/-
C05 at the text level, part 1 (atoms): the text `showExpr e` of a marker expression is an atom in
the sense of MarkerLayout.lean (`AtomOK`) that parses back to `e`.

* the word operators `in` / `not in` (not covered by AtomFrame.lean): `parseMarkerOperator_in`,
  `parseMarkerOperator_notIn`, under `x.alpha 'i'` / `x.alpha 'n'` (`char::is_alphabetic`);
* `atomOK_kov_gen` / `atomOK_vok_gen`: the two comparison shapes with an arbitrary operator text that
  `parse_marker_operator` recognises (`OpParses`);
* `AtomRT x e` — the per-expression side conditions (the external version parser reads the printed
  release back, the string value contains at most one kind of quote, the key is a modern spelling,
  the extra name is a normalized name);  `atom_reparses`: under `AtomRT`, `AtomOK x (exprChars e)`,
  `atomSem x (exprChars e) = (some e, termWarns e)`.
-/
import Pep508.Proofs.AtomFrame
import Pep508.Model.Dnf
namespace Pep508

open Cursor

/-! ### operator texts -/

/-- the operator text `o` is recognised as `op` by `parse_marker_operator` whenever the char after
it ends both the symbolic run and the alphabetic run (a blank or a quote does) -/
def OpParses (x : Ext) (o : List Char) (op : MOp) : Prop :=
  ∀ (c : Cursor) (r : List Char), c.Inv → c.rest = o ++ r → HeadNot symChar r → HeadNot alphaRun r →
    parseMarkerOperator x c = .ok (op, c.adv o)

theorem opParses_sym (x : Ext) {o : List Char} {op : MOp} (ho : AllP symChar o)
    (hop : opOfToken (String.ofList o) = some op) : OpParses x o op :=
  fun _ _ hi hrest h1 h2 => parseMarkerOperator_sym x hi hrest ho h1 (fun _ => h2) hop

/-- `in`: needs `is_alphabetic('i')` -/
theorem opParses_in (x : Ext) (hal : x.alpha 'i' = true) : OpParses x ['i', 'n'] .isIn := by
  intro c r hi hrest _ h2
  have hpk : c.peekChar = some 'i' := by simp [peekChar, hrest]
  have htw := takeWhile_adv alphaRun hrest (by decide) h2
  unfold parseMarkerOperator
  rw [hpk]
  dsimp only
  rw [hal]
  simp only [if_true]
  rw [htw]
  simp only [slice_of_adv, slice_adv hi hrest, Res.ofSlice]
  rfl

/-- `not <blanks> in`: needs `is_alphabetic('n')` -/
theorem opParses_notIn (x : Ext) (hal : x.alpha 'n' = true) {w : Char} {ws : List Char}
    (hw : AllP isWs (w :: ws)) :
    OpParses x (['n', 'o', 't'] ++ (w :: ws) ++ ['i', 'n']) .notIn := by
  intro c r hi hrest _ _
  have hr0 : c.rest = ['n', 'o', 't'] ++ (w :: (ws ++ ('i' :: 'n' :: r))) := by
    rw [hrest]; simp only [List.append_assoc, List.cons_append, List.nil_append]
  have hpk : c.peekChar = some 'n' := by simp [peekChar, hr0]
  have htw := takeWhile_adv alphaRun hr0 (by decide) (HeadNot.cons _ (ws_not_alphaRun hw.head))
  have hi1 := adv_inv hi hr0
  have hr1 : (c.adv ['n', 'o', 't']).rest = w :: (ws ++ ('i' :: 'n' :: r)) := adv_rest hr0
  have hr1' : (c.adv ['n', 'o', 't']).rest = [w] ++ (ws ++ ('i' :: 'n' :: r)) := hr1
  have hi2 := adv_inv hi1 hr1'
  have hr2 : ((c.adv ['n', 'o', 't']).adv [w]).rest = ws ++ ('i' :: 'n' :: r) := adv_rest hr1'
  have e3 : ((c.adv ['n', 'o', 't']).adv [w]).eatWhitespace = ((c.adv ['n', 'o', 't']).adv [w]).adv ws :=
    eatWs_adv hr2 hw.tail (HeadNot.cons _ (by decide))
  have hr3 : (((c.adv ['n', 'o', 't']).adv [w]).adv ws).rest = 'i' :: 'n' :: r := adv_rest hr2
  have hr3' : (((c.adv ['n', 'o', 't']).adv [w]).adv ws).rest = ['i'] ++ ('n' :: r) := hr3
  have hr4 : ((((c.adv ['n', 'o', 't']).adv [w]).adv ws).adv ['i']).rest = 'n' :: r := adv_rest hr3'
  unfold parseMarkerOperator
  rw [hpk]
  dsimp only
  rw [hal]
  simp only [if_true]
  rw [htw]
  simp only [slice_of_adv, slice_adv hi hr0, Res.ofSlice]
  have hnot : (String.ofList ['n', 'o', 't'] == "not") = true := by decide
  simp only [hnot, if_true]
  rw [next_adv hr1]
  dsimp only
  simp only [hw.head, if_true]
  rw [e3, nextExpectChar_adv hr3]
  dsimp only
  rw [nextExpectChar_adv hr4]
  simp only [adv_adv, List.append_assoc, List.cons_append, List.nil_append]

/-! ### the two comparison shapes with a general operator text -/

theorem idChar_not_ws {ch : Char} (h : idChar ch = true) : isWs ch = false := by
  cases hw : isWs ch with
  | false => rfl
  | true => simp [idChar, hw] at h

/-- `key w1 OP w2 'v'` with a blank run `w1 ≠ []` after the key -/
theorem parseKeyOpValue_kov_gen (x : Ext) {k w1 o w2 v : List Char} {q : Char} {kv : MValue} {op : MOp}
    (hk : AllP idChar k) (hh : HeadIs (fun ch => !isQuote ch) k)
    (hkey : keyOfName (String.ofList k) = some kv)
    (hw1 : AllP isWs w1) (hw1n : w1 ≠ []) (hoh : HeadIs (fun ch => !isWs ch) o) (hop : OpParses x o op)
    (hw2 : AllP isWs w2) (hq : isQuote q = true) (hv : AllP (fun ch => ch != q) v)
    (c : Cursor) (rest : List Char) (hi : c.Inv) (hrest : c.rest = atomKOV k w1 o w2 q v ++ rest) :
    parseKeyOpValue x c =
      .ok (dispatch x kv op (.quoted v), c.adv (atomKOV k w1 o w2 q v)) := by
  have hr0 : c.rest = k ++ (w1 ++ (o ++ (w2 ++ (q :: (v ++ q :: rest))))) := by
    rw [hrest]; simp only [atomKOV, List.append_assoc, List.cons_append, List.nil_append]
  have hkws : HeadNot isWs c.rest := by
    obtain ⟨ch, tl, rfl, _⟩ := hh
    rw [hr0]
    exact HeadNot.cons _ (idChar_not_ws hk.head)
  have e0 : c.eatWhitespace = c := eatWs_id hkws
  have hqs : HeadNot symChar (q :: (v ++ q :: rest)) := HeadNot.cons _ (quote_not_symChar hq)
  have hqa : HeadNot alphaRun (q :: (v ++ q :: rest)) := HeadNot.cons _ (quote_not_alphaRun hq)
  have hqw : HeadNot isWs (q :: (v ++ q :: rest)) := HeadNot.cons _ (quote_not_ws hq)
  have e1 := parseMarkerValue_ident hi hr0 hk hh
    (headNot_of_all _ hw1 hw1n (fun _ => ws_not_idChar)) hkey
  have hi1 := adv_inv hi hr0
  have hr1 := adv_rest hr0
  have hows : HeadNot isWs (o ++ (w2 ++ (q :: (v ++ q :: rest)))) := by
    obtain ⟨ch, tl, rfl, hch⟩ := hoh
    exact HeadNot.cons _ (by simpa using hch)
  have e2 : (c.adv k).eatWhitespace = (c.adv k).adv w1 := eatWs_adv hr1 hw1 hows
  have hi2 := adv_inv hi1 hr1
  have hr2 := adv_rest hr1
  have e3 := hop _ _ hi2 hr2 (headNot_ws_then hw2 (fun _ => ws_not_symChar) hqs)
    (headNot_ws_then hw2 (fun _ => ws_not_alphaRun) hqa)
  have hi3 := adv_inv hi2 hr2
  have hr3 := adv_rest hr2
  have e4 : (((c.adv k).adv w1).adv o).eatWhitespace = (((c.adv k).adv w1).adv o).adv w2 :=
    eatWs_adv hr3 hw2 hqw
  have hi4 := adv_inv hi3 hr3
  have hr4 := adv_rest hr3
  have e5 := parseMarkerValue_quoted hi4 hr4 hq hv
  unfold parseKeyOpValue
  rw [e0, e1]
  dsimp only
  rw [e2, e3]
  dsimp only
  rw [e4, e5]
  simp only [adv_adv, atomKOV, List.append_assoc]

theorem atomOK_kov_gen (x : Ext) {k w1 o w2 v : List Char} {q : Char} {kv : MValue} {op : MOp}
    (hk : AllP idChar k) (hh : HeadIs (fun ch => !isQuote ch) k)
    (hkey : keyOfName (String.ofList k) = some kv)
    (hw1 : AllP isWs w1) (hw1n : w1 ≠ []) (hoh : HeadIs (fun ch => !isWs ch) o) (hop : OpParses x o op)
    (hw2 : AllP isWs w2) (hq : isQuote q = true) (hv : AllP (fun ch => ch != q) v) :
    AtomOK x (atomKOV k w1 o w2 q v) ∧
      atomSem x (atomKOV k w1 o w2 q v) = dispatch x kv op (.quoted v) :=
  atomOK_of_frame x _ _ (fun c rest hi hrest _ =>
    parseKeyOpValue_kov_gen x hk hh hkey hw1 hw1n hoh hop hw2 hq hv c rest hi hrest)

/-- `'v' w1 OP w2 key` with a blank run `w2 ≠ []` before the key -/
theorem parseKeyOpValue_vok_gen (x : Ext) {k w1 o w2 v : List Char} {q : Char} {kv : MValue} {op : MOp}
    (hk : AllP idChar k) (hh : HeadIs (fun ch => !isQuote ch) k)
    (hkey : keyOfName (String.ofList k) = some kv)
    (hw1 : AllP isWs w1) (hoh : HeadIs (fun ch => !isWs ch) o) (hop : OpParses x o op)
    (hw2 : AllP isWs w2) (hw2n : w2 ≠ []) (hq : isQuote q = true) (hv : AllP (fun ch => ch != q) v)
    (c : Cursor) (rest : List Char) (hi : c.Inv) (hrest : c.rest = atomVOK q v w1 o w2 k ++ rest)
    (hend : SoftEnd rest) :
    parseKeyOpValue x c =
      .ok (dispatch x (.quoted v) op kv, c.adv (atomVOK q v w1 o w2 k)) := by
  have hr0 : c.rest = q :: (v ++ q :: (w1 ++ (o ++ (w2 ++ (k ++ rest))))) := by
    rw [hrest]; simp only [atomVOK, List.append_assoc, List.cons_append]
  have e0 : c.eatWhitespace = c := eatWs_id (by rw [hr0]; exact HeadNot.cons _ (quote_not_ws hq))
  have e1 := parseMarkerValue_quoted hi hr0 hq hv
  have hr0' : c.rest = (q :: (v ++ [q])) ++ (w1 ++ (o ++ (w2 ++ (k ++ rest)))) := by
    rw [hr0]; simp only [List.append_assoc, List.cons_append, List.nil_append]
  have hi1 := adv_inv hi hr0'
  have hr1 := adv_rest hr0'
  have hows : HeadNot isWs (o ++ (w2 ++ (k ++ rest))) := by
    obtain ⟨ch, tl, rfl, hch⟩ := hoh
    exact HeadNot.cons _ (by simpa using hch)
  have e2 : (c.adv (q :: (v ++ [q]))).eatWhitespace = (c.adv (q :: (v ++ [q]))).adv w1 :=
    eatWs_adv hr1 hw1 hows
  have hi2 := adv_inv hi1 hr1
  have hr2 := adv_rest hr1
  obtain ⟨kc, ktl, rfl, hkq⟩ := hh
  have hkc_ws : isWs kc = false := idChar_not_ws hk.head
  have e3 := hop _ _ hi2 hr2 (headNot_of_all _ hw2 hw2n (fun _ => ws_not_symChar))
    (headNot_of_all _ hw2 hw2n (fun _ => ws_not_alphaRun))
  have hi3 := adv_inv hi2 hr2
  have hr3 := adv_rest hr2
  have e4 : (((c.adv (q :: (v ++ [q]))).adv w1).adv o).eatWhitespace =
      (((c.adv (q :: (v ++ [q]))).adv w1).adv o).adv w2 :=
    eatWs_adv hr3 hw2 (HeadNot.cons _ hkc_ws)
  have hi4 := adv_inv hi3 hr3
  have hr4 := adv_rest hr3
  have e5 := parseMarkerValue_ident hi4 hr4 hk ⟨kc, ktl, rfl, hkq⟩ (softEnd_headNot_idChar hend) hkey
  unfold parseKeyOpValue
  rw [e0, e1]
  dsimp only
  rw [e2, e3]
  dsimp only
  rw [e4, e5]
  simp only [adv_adv, atomVOK, List.cons_append, List.append_assoc, List.nil_append]

theorem atomOK_vok_gen (x : Ext) {k w1 o w2 v : List Char} {q : Char} {kv : MValue} {op : MOp}
    (hk : AllP idChar k) (hh : HeadIs (fun ch => !isQuote ch) k) (hl : endsQuote k = false)
    (hkey : keyOfName (String.ofList k) = some kv)
    (hw1 : AllP isWs w1) (hoh : HeadIs (fun ch => !isWs ch) o) (hop : OpParses x o op)
    (hw2 : AllP isWs w2) (hw2n : w2 ≠ []) (hq : isQuote q = true) (hv : AllP (fun ch => ch != q) v) :
    AtomOK x (atomVOK q v w1 o w2 k) ∧
      atomSem x (atomVOK q v w1 o w2 k) = dispatch x (.quoted v) op kv := by
  refine atomOK_of_frame x _ _ (fun c rest hi hrest hend => ?_)
  rw [endsQuote_vok q v w1 o w2 hh.ne_nil hl] at hend
  rcases hend with h | h
  · cases h
  · exact parseKeyOpValue_vok_gen x hk hh hkey hw1 hoh hop hw2 hw2n hq hv c rest hi hrest h


/-! ### the texts of `showExpr` as char lists -/

/-- the text of an expression, as the parser sees it -/
def exprChars (e : MExpr) : List Char := (showExpr e).toList

/-- the quote char `quoted` chooses (F8) -/
def quoteOf (v : String) : Char := if v.toList.contains '\'' then '"' else '\''

/-- the value contains at most one kind of quote char, so it can be written between the other -/
def Quotable (v : String) : Prop := ¬ (v.toList.contains '\'' = true ∧ v.toList.contains '"' = true)

theorem quoted_toList (v : String) : (quoted v).toList = quoteOf v :: (v.toList ++ [quoteOf v]) := by
  unfold quoted quoteOf
  by_cases h : v.toList.contains '\'' = true
  · simp only [h, if_true, String.toList_append]; rfl
  · have h' : v.toList.contains '\'' = false := by simpa using h
    simp only [h', Bool.false_eq_true, if_false, String.toList_append]; rfl

theorem quoteOf_isQuote (v : String) : isQuote (quoteOf v) = true := by
  unfold quoteOf; split <;> decide

theorem quotable_allP (v : String) (h : Quotable v) : AllP (fun ch => ch != quoteOf v) v.toList := by
  intro ch hch
  unfold quoteOf
  by_cases h1 : v.toList.contains '\'' = true
  · simp only [h1, if_true]
    have h2 : ¬ v.toList.contains '"' = true := fun h2 => h ⟨h1, h2⟩
    simp only [bne_iff_ne, ne_eq]
    rintro rfl
    exact h2 (by simpa using hch)
  · simp only [h1]
    simp only [bne_iff_ne, ne_eq]
    rintro rfl
    exact h1 (by simpa using hch)

/-- the version text between the quotes -/
def relChars (s : Spec) : List Char :=
  (showRelDots s.rel).toList ++ (if s.op.isStar then ['.', '*'] else [])

theorem toString_nat_chars (n : Nat) : ∀ ch ∈ (toString n).toList, ch.isDigit = true := by
  intro ch hch
  rw [Nat.toString_eq_repr, Nat.toList_repr] at hch
  exact Nat.isDigit_of_mem_toDigits (by decide) (by decide) hch

theorem showRelDots_chars : ∀ (r : List Nat), ∀ ch ∈ (showRelDots r).toList, ch.isDigit = true ∨ ch = '.'
  | [] => by simp [showRelDots]
  | [a] => by
    intro ch hch
    simp only [showRelDots, List.map_cons, List.map_nil, String.intercalate_singleton] at hch
    exact .inl (toString_nat_chars a ch hch)
  | a :: b :: r => by
    intro ch hch
    have ih := showRelDots_chars (b :: r)
    simp only [showRelDots, List.map_cons, String.intercalate_cons_cons, String.toList_append,
      List.mem_append] at hch ih
    rcases hch with (hch | hch) | hch
    · exact .inl (toString_nat_chars a ch hch)
    · right; simpa using hch
    · exact ih ch hch

theorem relChars_noQuote (s : Spec) : AllP (fun ch => ch != '\'') (relChars s) := by
  intro ch hch
  simp only [relChars, List.mem_append] at hch
  simp only [bne_iff_ne, ne_eq]
  rintro rfl
  rcases hch with hch | hch
  · rcases showRelDots_chars s.rel _ hch with h | h
    · exact absurd h (by decide)
    · exact absurd h (by decide)
  · split at hch
    · simp at hch
    · simp at hch

/-! ### keys -/

theorem headIs_iff (p : Char → Bool) (r : List Char) : HeadIs p r ↔ r.head?.any p = true := by
  cases r with
  | nil => simp [HeadIs]
  | cons a r => simp [HeadIs]

theorem headNot_iff (p : Char → Bool) (r : List Char) : HeadNot p r ↔ r.head?.all (fun ch => !p ch) = true := by
  cases r with
  | nil => simp [HeadNot]
  | cons a r => simp [HeadNot]

/-- what the atom lemmas need to know about a key name -/
structure KeyFacts (k : List Char) (kv : MValue) : Prop where
  idc : AllP idChar k
  head : HeadIs (fun ch => !isQuote ch) k
  noParen : HeadNot (fun ch => ch == '(') k
  last : endsQuote k = false
  key : keyOfName (String.ofList k) = some kv

theorem vkey_facts (k : VKey) : KeyFacts (vkeyText k).toList (.verKey k) := by
  cases k <;>
    exact ⟨by decide, (headIs_iff _ _).2 (by decide), (headNot_iff _ _).2 (by decide), by decide, by decide⟩

/-- the modern spellings of the string keys: the ones `Display` prints -/
def ModernKey (k : SKey) : Prop :=
  k.idx = 0 ∨ k.idx = 1 ∨ k.idx = 3 ∨ k.idx = 5 ∨ k.idx = 8 ∨ k.idx = 9 ∨ k.idx = 10 ∨ k.idx = 12

theorem skey_facts (k : SKey) (h : ModernKey k) : KeyFacts (skeyText k).toList (.strKey k) := by
  obtain ⟨i⟩ := k
  rcases h with h | h | h | h | h | h | h | h <;> (simp only at h; subst h) <;>
    exact ⟨by decide, (headIs_iff _ _).2 (by decide), (headNot_iff _ _).2 (by decide), by decide, by decide⟩

theorem extra_facts : KeyFacts "extra".toList .extra :=
  ⟨by decide, (headIs_iff _ _).2 (by decide), (headNot_iff _ _).2 (by decide), by decide, by decide⟩


/-! ### the text of each expression form -/

theorem toString_string (s : String) : toString s = s := rfl

theorem exprChars_version (k : VKey) (s : Spec) :
    exprChars (.version k s) =
      atomKOV (vkeyText k).toList [' '] (opText s.op).toList [' '] '\'' (relChars s) := by
  unfold exprChars showExpr relChars atomKOV
  by_cases h : s.op.isStar = true
  · simp only [h, if_true]
    simp [toString_string, String.toList_append]
  · simp only [h]
    simp [toString_string, String.toList_append]

/-- the operator text of a string comparison -/
def sopChars (op : SOp) : List Char := (sopText op).toList

theorem exprChars_string_kov (k : SKey) (op : SOp) (v : String)
    (h : op ≠ .contains ∧ op ≠ .notContains) :
    exprChars (.string k op v) =
      atomKOV (skeyText k).toList [' '] (sopChars op) [' '] (quoteOf v) v.toList := by
  unfold exprChars showExpr atomKOV sopChars
  cases op <;> simp at h <;> simp [toString_string, String.toList_append, quoted_toList]

theorem exprChars_string_vok (k : SKey) (op : SOp) (v : String)
    (h : op = .contains ∨ op = .notContains) :
    exprChars (.string k op v) =
      atomVOK (quoteOf v) v.toList [' '] (sopChars op) [' '] (skeyText k).toList := by
  unfold exprChars showExpr atomVOK sopChars
  rcases h with rfl | rfl <;> simp [toString_string, String.toList_append, quoted_toList]

def extraName : ExtraVal → String
  | .extra n => n
  | .arbitrary n => n

theorem exprChars_extra (neg : Bool) (e : ExtraVal) :
    exprChars (.extra neg e) =
      atomKOV "extra".toList [' '] (if neg then ['!', '='] else ['=', '=']) [' ']
        (quoteOf (extraName e)) (extraName e).toList := by
  unfold exprChars showExpr atomKOV extraName
  cases e <;> cases neg <;> simp [toString_string, String.toList_append, quoted_toList]


/-! ### operators of the printed forms -/

/-- the marker operator `parse_marker_operator` reads from the text of a version operator -/
def verMOp : Op → MOp
  | .eq | .eqStar | .exactEq => .eq
  | .ne | .neStar => .ne
  | .tilde => .tilde
  | .lt => .lt | .le => .le | .gt => .gt | .ge => .ge

theorem opParses_ver (x : Ext) (op : Op) (h1 : op ≠ .exactEq) :
    OpParses x (opText op).toList (verMOp op) ∧ HeadIs (fun ch => !isWs ch) (opText op).toList := by
  cases op <;> first
    | exact absurd rfl h1
    | exact ⟨opParses_sym x (by decide) (by decide), (headIs_iff _ _).2 (by decide)⟩

/-- the marker operator read from the text of a string operator (`'v' in key` is read as `in` and
inverted by the dispatch) -/
def sopMOp : SOp → MOp
  | .eq => .eq | .ne => .ne | .gt => .gt | .ge => .ge | .lt => .lt | .le => .le
  | .isIn | .contains => .isIn
  | .notIn | .notContains => .notIn

theorem opParses_sop (x : Ext) (op : SOp)
    (hi : (op = .isIn ∨ op = .contains) → x.alpha 'i' = true)
    (hn : (op = .notIn ∨ op = .notContains) → x.alpha 'n' = true) :
    OpParses x (sopChars op) (sopMOp op) ∧ HeadIs (fun ch => !isWs ch) (sopChars op) := by
  have hin : OpParses x ['i', 'n'] .isIn → OpParses x "in".toList .isIn := fun h => h
  have hnot : OpParses x (['n', 'o', 't'] ++ (' ' :: []) ++ ['i', 'n']) .notIn →
      OpParses x "not in".toList .notIn := fun h => h
  cases op
  case isIn => exact ⟨hin (opParses_in x (hi (.inl rfl))), (headIs_iff _ _).2 (by decide)⟩
  case contains => exact ⟨hin (opParses_in x (hi (.inr rfl))), (headIs_iff _ _).2 (by decide)⟩
  case notIn =>
    exact ⟨hnot (opParses_notIn x (hn (.inl rfl)) (by decide)), (headIs_iff _ _).2 (by decide)⟩
  case notContains =>
    exact ⟨hnot (opParses_notIn x (hn (.inr rfl)) (by decide)), (headIs_iff _ _).2 (by decide)⟩
  all_goals exact ⟨opParses_sym x (by decide) (by decide), (headIs_iff _ _).2 (by decide)⟩

/-! ### every printed expression is an atom that parses back to the expression -/

/-- warnings the parser emits when it reads the text of an expression back -/
def termWarns : MExpr → List WarnKind
  | .extra _ (.arbitrary _) => [.extraInvalidComparison]
  | _ => []

/-- side conditions under which the text of `e` parses back to `e` -/
def AtomRT (x : Ext) : MExpr → Prop
  | .version _ s =>
    s.op ≠ .exactEq ∧ s.op ≠ .tilde ∧ x.pat (relChars s) = some (⟨s.rel, false⟩, s.op.isStar)
  | .versionIn _ _ _ => False
  | .string k op v => ModernKey k ∧ Quotable v ∧
      ((op = .isIn ∨ op = .contains) → x.alpha 'i' = true) ∧
      ((op = .notIn ∨ op = .notContains) → x.alpha 'n' = true)
  | .extra _ (.extra n) => Quotable n ∧
      ∃ bs, Names.validateRef (bytesOfChars n.toList) = some bs ∧ stringOfByteList bs = n
  | .extra _ (.arbitrary s) => Quotable s ∧ Names.validateRef (bytesOfChars s.toList) = none

theorem ws1 : AllP isWs [' '] := by decide

theorem atom_version (x : Ext) (k : VKey) (s : Spec) (h : AtomRT x (.version k s)) :
    AtomOK x (exprChars (.version k s)) ∧
      atomSem x (exprChars (.version k s)) = (some (.version k s), []) ∧
      AtomHead (exprChars (.version k s)) := by
  obtain ⟨h1, h2, hp⟩ := h
  have kf := vkey_facts k
  have ho := opParses_ver x s.op h1
  rw [exprChars_version]
  have hh := atomOK_kov_gen x kf.idc kf.head kf.key ws1 (by simp) ho.2 ho.1 ws1
    (q := '\'') (by decide) (relChars_noQuote s)
  refine ⟨hh.1, ?_, atomHead_kov _ _ _ _ _ kf.idc kf.head kf.noParen⟩
  rw [hh.2]
  obtain ⟨op, rel⟩ := s
  cases op <;> first
    | exact absurd rfl h1
    | exact absurd rfl h2
    | simp [dispatch, verMOp, parseVersionExpr, hp, MOp.toPep440, fromVersion, Op.isStar]

theorem atom_string (x : Ext) (k : SKey) (op : SOp) (v : String) (h : AtomRT x (.string k op v)) :
    AtomOK x (exprChars (.string k op v)) ∧
      atomSem x (exprChars (.string k op v)) = (some (.string k op v), []) ∧
      AtomHead (exprChars (.string k op v)) := by
  obtain ⟨hm, hq, hi, hn⟩ := h
  have kf := skey_facts k hm
  have ho := opParses_sop x op hi hn
  by_cases hc : op = .contains ∨ op = .notContains
  · rw [exprChars_string_vok k op v hc]
    have hh := atomOK_vok_gen x kf.idc kf.head kf.last kf.key ws1 ho.2 ho.1 ws1 (by simp)
      (quoteOf_isQuote v) (quotable_allP v hq)
    refine ⟨hh.1, ?_, ⟨quoteOf v, _, rfl, quote_not_ws (quoteOf_isQuote v), ?_⟩⟩
    · rw [hh.2]
      rcases hc with rfl | rfl <;> simp [dispatch, sopMOp, MOp.invert, MOp.toSOp]
    · rcases quote_cases (quoteOf_isQuote v) with h | h <;> rw [h] <;> decide
  · have hc' : op ≠ .contains ∧ op ≠ .notContains := ⟨fun h => hc (.inl h), fun h => hc (.inr h)⟩
    rw [exprChars_string_kov k op v hc']
    have hh := atomOK_kov_gen x kf.idc kf.head kf.key ws1 (by simp) ho.2 ho.1 ws1
      (quoteOf_isQuote v) (quotable_allP v hq)
    refine ⟨hh.1, ?_, atomHead_kov _ _ _ _ _ kf.idc kf.head kf.noParen⟩
    rw [hh.2]
    cases op <;> simp at hc' <;> simp [dispatch, sopMOp, MOp.toSOp]

theorem atom_extra (x : Ext) (neg : Bool) (e : ExtraVal) (h : AtomRT x (.extra neg e)) :
    AtomOK x (exprChars (.extra neg e)) ∧
      atomSem x (exprChars (.extra neg e)) = (some (.extra neg e), termWarns (.extra neg e)) ∧
      AtomHead (exprChars (.extra neg e)) := by
  have kf := extra_facts
  have hq : Quotable (extraName e) := by cases e <;> exact h.1
  have ho : OpParses x (if neg then ['!', '='] else ['=', '=']) (if neg then .ne else .eq) ∧
      HeadIs (fun ch => !isWs ch) (if neg then ['!', '='] else ['=', '=']) := by
    cases neg
    · exact ⟨opParses_sym x (by decide) (by decide), (headIs_iff _ _).2 (by decide)⟩
    · exact ⟨opParses_sym x (by decide) (by decide), (headIs_iff _ _).2 (by decide)⟩
  rw [exprChars_extra]
  have hh := atomOK_kov_gen x kf.idc kf.head kf.key ws1 (by simp) ho.2 ho.1 ws1
    (quoteOf_isQuote (extraName e)) (quotable_allP _ hq)
  refine ⟨hh.1, ?_, atomHead_kov _ _ _ _ _ kf.idc kf.head kf.noParen⟩
  rw [hh.2]
  cases e with
  | extra n =>
    obtain ⟨_, bs, hv, hb⟩ := h
    cases neg <;> simp [dispatch, parseExtraExpr, extraName, hv, hb, termWarns]
  | arbitrary s =>
    obtain ⟨_, hv⟩ := h
    cases neg <;> simp [dispatch, parseExtraExpr, extraName, hv, termWarns]

/-- **atoms re-parse**: under `AtomRT`, the text of an expression is an atom (it parses the same in
every context where an atom may end) whose own parse is the expression, with the expression's
warnings -/
theorem atom_reparses (x : Ext) (e : MExpr) (h : AtomRT x e) :
    AtomOK x (exprChars e) ∧ atomSem x (exprChars e) = (some e, termWarns e) ∧
      AtomHead (exprChars e) := by
  cases e with
  | version k s => exact atom_version x k s h
  | versionIn k vs neg => exact h.elim
  | string k op v => exact atom_string x k op v h
  | extra neg e => exact atom_extra x neg e h

end Pep508
