import Pep508.Model.Algebra
import Pep508.Proofs.Bound
set_option linter.unusedSectionVars false
namespace Pep508

variable {νr νb α : Type}

/-! ### structure lemmas -/

theorem Edges.toList_ofList (l : EdgeL νr νb α) : (Edges.ofList l).toList = l := by
  induction l with
  | nil => rfl
  | cons e t ih => obtain ⟨iv, c⟩ := e; simp [Edges.ofList, Edges.toList, ih]

theorem Edges.ofList_toList : ∀ (es : Edges νr νb α), Edges.ofList es.toList = es
  | .nil => rfl
  | .cons iv t rest => by simp [Edges.ofList, Edges.toList, Edges.ofList_toList rest]

theorem Edges.size_mem : ∀ (es : Edges νr νb α) (e : Ivl α × Tree νr νb α), e ∈ es.toList →
    e.2.size < es.size + 1
  | .nil, e, h => by simp [Edges.toList] at h
  | .cons iv t rest, e, h => by
    simp only [Edges.toList, List.mem_cons] at h
    rcases h with h | h
    · subst h; simp [Edges.size]; omega
    · have := Edges.size_mem rest e h; simp [Edges.size]; omega

variable [LT α] [LE α] [Std.IsLinearOrder α] [Std.LawfulOrderLT α] [DecidableLT α] [DecidableEq α]
variable [LT νr] [DecidableLT νr] [DecidableEq νr] [LT νb] [DecidableLT νb] [DecidableEq νb]

/-- first edge whose interval contains `x` -/
def evalL (ρ : Env νr νb α) (x : α) : EdgeL νr νb α → Bool
  | [] => false
  | e :: rest => if e.1.mem x then e.2.eval ρ else evalL ρ x rest

theorem Edges.eval_eq (ρ : Env νr νb α) (x : α) : ∀ (es : Edges νr νb α),
    es.eval ρ x = evalL ρ x es.toList
  | .nil => rfl
  | .cons iv t rest => by simp [Edges.eval, Edges.toList, evalL, Edges.eval_eq ρ x rest]

/-- every point is in some edge -/
def Covers (es : EdgeL νr νb α) : Prop := ∀ x : α, ∃ e ∈ es, e.1.mem x = true

mutual
/-- semantic well-formedness: every range node's edges are valid segments that cover the line -/
def Tree.OK : Tree νr νb α → Prop
  | .leaf _ => True
  | .rng _ es => es.OKAll ∧ Covers es.toList
  | .bool _ h l => h.OK ∧ l.OK
def Edges.OKAll : Edges νr νb α → Prop
  | .nil => True
  | .cons iv t rest => iv.valid = true ∧ t.OK ∧ rest.OKAll
end

/-- list form of `OKAll` -/
def OKL (es : EdgeL νr νb α) : Prop := ∀ e ∈ es, e.1.valid = true ∧ e.2.OK

theorem Edges.OKAll_iff : ∀ (es : Edges νr νb α), es.OKAll ↔ OKL es.toList
  | .nil => by simp [Edges.OKAll, OKL, Edges.toList]
  | .cons iv t rest => by
    have ih := Edges.OKAll_iff rest
    simp only [Edges.OKAll, OKL, Edges.toList, List.mem_cons, ih]
    constructor
    · rintro ⟨h1, h2, h3⟩ e (rfl | he)
      · exact ⟨h1, h2⟩
      · exact h3 e he
    · intro h
      exact ⟨(h (iv, t) (Or.inl rfl)).1, (h (iv, t) (Or.inl rfl)).2, fun e he => h e (Or.inr he)⟩

theorem OKL_ofList (l : EdgeL νr νb α) : (Edges.ofList l).OKAll ↔ OKL l := by
  rw [Edges.OKAll_iff, Edges.toList_ofList]

/-! ### coalescing keeps meaning, validity, coverage -/

theorem evalL_coalesceGo (ρ : Env νr νb α) (x : α) (cur : Ivl α × Tree νr νb α) (es : EdgeL νr νb α)
    (hc : cur.1.valid = true) (hv : ∀ e ∈ es, e.1.valid = true) :
    evalL ρ x (coalesceGo cur es) = evalL ρ x (cur :: es) := by
  induction es generalizing cur with
  | nil => simp [coalesceGo]
  | cons e rest ih =>
    unfold coalesceGo
    split
    · rename_i h
      have hev := hv e (by simp)
      rw [ih (cur.1.conjoin e.1, cur.2) (Ivl.valid_conjoin cur.1 e.1 h.2 hc hev) (fun e' he' => hv e' (by simp [he']))]
      simp only [evalL, Ivl.mem_conjoin _ _ x h.2 hc hev]
      cases h1 : cur.1.mem x <;> cases h2 : e.1.mem x <;> simp [h.1]
    · have hev := hv e (by simp)
      simp only [evalL]
      rw [ih _ hev (fun e' he' => hv e' (by simp [he']))]
      simp [evalL]

theorem evalL_coalesce (ρ : Env νr νb α) (x : α) (es : EdgeL νr νb α)
    (hv : ∀ e ∈ es, e.1.valid = true) : evalL ρ x (coalesce es) = evalL ρ x es := by
  cases es with
  | nil => rfl
  | cons e rest =>
    exact evalL_coalesceGo ρ x e rest (hv e (by simp)) (fun e' he' => hv e' (by simp [he']))

theorem coalesceGo_prop (P : Tree νr νb α → Prop) (cur : Ivl α × Tree νr νb α) (es : EdgeL νr νb α)
    (hc : cur.1.valid = true ∧ P cur.2) (hv : ∀ e ∈ es, e.1.valid = true ∧ P e.2) :
    ∀ e ∈ coalesceGo cur es, e.1.valid = true ∧ P e.2 := by
  induction es generalizing cur with
  | nil => simp [coalesceGo]; exact hc
  | cons e rest ih =>
    unfold coalesceGo
    have hev := hv e (by simp)
    have hrest : ∀ e' ∈ rest, e'.1.valid = true ∧ P e'.2 := fun e' he' => hv e' (by simp [he'])
    split
    · rename_i h
      exact ih (cur.1.conjoin e.1, cur.2) ⟨Ivl.valid_conjoin cur.1 e.1 h.2 hc.1 hev.1, hc.2⟩ hrest
    · intro e' he'
      simp only [List.mem_cons] at he'
      rcases he' with h | h
      · subst h; exact hc
      · exact ih _ hev hrest e' h

theorem coalesce_prop (P : Tree νr νb α → Prop) (es : EdgeL νr νb α)
    (hv : ∀ e ∈ es, e.1.valid = true ∧ P e.2) : ∀ e ∈ coalesce es, e.1.valid = true ∧ P e.2 := by
  cases es with
  | nil => simp [coalesce]
  | cons e rest => exact coalesceGo_prop P e rest (hv e (by simp)) (fun e' he' => hv e' (by simp [he']))

/-- membership in some edge, as a Bool -/
def hitL (x : α) (es : EdgeL νr νb α) : Bool := es.any (fun e => e.1.mem x)

theorem covers_iff (es : EdgeL νr νb α) : Covers es ↔ ∀ x, hitL x es = true := by
  simp [Covers, hitL]

theorem hitL_coalesceGo (x : α) (cur : Ivl α × Tree νr νb α) (es : EdgeL νr νb α)
    (hc : cur.1.valid = true) (hv : ∀ e ∈ es, e.1.valid = true) :
    hitL x (coalesceGo cur es) = hitL x (cur :: es) := by
  induction es generalizing cur with
  | nil => simp [coalesceGo]
  | cons e rest ih =>
    unfold coalesceGo
    have hev := hv e (by simp)
    have hrest : ∀ e' ∈ rest, e'.1.valid = true := fun e' he' => hv e' (by simp [he'])
    split
    · rename_i h
      rw [ih (cur.1.conjoin e.1, cur.2) (Ivl.valid_conjoin cur.1 e.1 h.2 hc hev) hrest]
      simp [hitL, Ivl.mem_conjoin _ _ x h.2 hc hev, Bool.or_assoc]
    · simp only [hitL, List.any_cons] at ih ⊢
      rw [ih _ hev hrest]

theorem covers_coalesce (es : EdgeL νr νb α) (hv : ∀ e ∈ es, e.1.valid = true) (h : Covers es) :
    Covers (coalesce es) := by
  rw [covers_iff] at *
  intro x
  cases es with
  | nil => exact h x
  | cons e rest =>
    simp only [coalesce]
    rw [hitL_coalesceGo x e rest (hv e (by simp)) (fun e' he' => hv e' (by simp [he']))]
    exact h x

/-! ### `create_node` -/

theorem evalL_all_same (ρ : Env νr νb α) (x : α) (es : EdgeL νr νb α) (c : Tree νr νb α)
    (hall : ∀ e ∈ es, e.2 = c) (hhit : hitL x es = true) : evalL ρ x es = c.eval ρ := by
  induction es with
  | nil => simp [hitL] at hhit
  | cons e rest ih =>
    simp only [evalL]
    split
    · rw [hall e (by simp)]
    · rename_i h
      apply ih (fun e' he' => hall e' (by simp [he']))
      simp [hitL] at hhit ⊢
      rcases hhit with h' | h'
      · simp [h'] at h
      · exact h'

theorem eval_createNodeR (ρ : Env νr νb α) (v : νr) (es : EdgeL νr νb α) (hc : Covers es) :
    (createNodeR v es).eval ρ = evalL ρ (ρ.rv v) es := by
  unfold createNodeR
  cases es with
  | nil => have := hc (ρ.rv v); simp at this
  | cons e rest =>
    obtain ⟨iv, c⟩ := e
    simp only
    split
    · rename_i h
      symm
      apply evalL_all_same
      · intro e' he'
        simp only [List.mem_cons] at he'
        rcases he' with h' | h'
        · subst h'; rfl
        · simp only [List.all_eq_true, beq_iff_eq] at h; exact h e' h'
      · exact (covers_iff _).mp hc _
    · simp [Tree.eval, Edges.eval_eq, Edges.toList_ofList]

theorem OK_createNodeR (v : νr) (es : EdgeL νr νb α) (hok : OKL es) (hc : Covers es) :
    (createNodeR v es).OK := by
  unfold createNodeR
  cases es with
  | nil => trivial
  | cons e rest =>
    obtain ⟨iv, c⟩ := e
    simp only
    split
    · exact (hok (iv, c) (by simp)).2
    · simp only [Tree.OK, Edges.OKAll_iff, Edges.toList_ofList]; exact ⟨hok, hc⟩

theorem eval_createNodeB (ρ : Env νr νb α) (v : νb) (h l : Tree νr νb α) :
    (createNodeB v h l).eval ρ = if ρ.bv v then h.eval ρ else l.eval ρ := by
  unfold createNodeB
  split
  · rename_i e; subst e; simp
  · simp [Tree.eval]

theorem OK_createNodeB (v : νb) (h l : Tree νr νb α) (hh : h.OK) (hl : l.OK) : (createNodeB v h l).OK := by
  unfold createNodeB
  split
  · exact hh
  · exact ⟨hh, hl⟩

end Pep508

namespace Pep508
variable {νr νb α : Type}
variable [LT α] [LE α] [Std.IsLinearOrder α] [Std.LawfulOrderLT α] [DecidableLT α] [DecidableEq α]
variable [LT νr] [DecidableLT νr] [DecidableEq νr] [LT νb] [DecidableLT νb] [DecidableEq νb]

/-! ### negation -/

theorem Edges.not_toList : ∀ (es : Edges νr νb α), es.not.toList = es.toList.map (fun e => (e.1, e.2.not))
  | .nil => rfl
  | .cons iv t rest => by simp [Edges.not, Edges.toList, Edges.not_toList rest]

mutual
theorem Tree.eval_not (ρ : Env νr νb α) : ∀ (t : Tree νr νb α), t.OK → t.not.eval ρ = !t.eval ρ
  | .leaf b, _ => by simp [Tree.not, Tree.eval]
  | .rng v es, h => by
    simp only [Tree.not, Tree.eval]
    have := Edges.eval_not ρ es h.1 (ρ.rv v)
    rw [this, (covers_iff _).mp h.2]; simp
  | .bool v hi lo, h => by
    simp only [Tree.not, Tree.eval, Tree.eval_not ρ hi h.1, Tree.eval_not ρ lo h.2]
    split <;> rfl
theorem Edges.eval_not (ρ : Env νr νb α) : ∀ (es : Edges νr νb α), es.OKAll → ∀ x,
    es.not.eval ρ x = (if hitL x es.toList then !es.eval ρ x else false)
  | .nil, _, x => by simp [Edges.not, Edges.eval, Edges.toList, hitL]
  | .cons iv t rest, h, x => by
    simp only [Edges.not, Edges.eval, Edges.toList, hitL, List.any_cons]
    by_cases hm : iv.mem x = true
    · simp [hm, Tree.eval_not ρ t h.2.1]
    · have := Edges.eval_not ρ rest h.2.2 x
      simp only [hitL] at this
      have hm' : iv.mem x = false := by simpa using hm
      rw [if_neg (by simp [hm']), this]
      simp only [hm', Bool.false_or, Bool.false_eq_true, if_false]
      by_cases hh : (rest.toList.any fun e => e.fst.mem x) = true <;> simp [hh]
end

theorem hitL_map (x : α) (es : EdgeL νr νb α) (f : Tree νr νb α → Tree νr νb α) :
    hitL x (es.map fun e => (e.1, f e.2)) = hitL x es := by
  simp [hitL, List.any_map, Function.comp_def]

mutual
theorem Tree.OK_not : ∀ (t : Tree νr νb α), t.OK → t.not.OK
  | .leaf _, _ => trivial
  | .rng v es, h => by
    refine ⟨Edges.OKAll_not es h.1, ?_⟩
    have h2 := (covers_iff _).mp h.2
    rw [covers_iff]
    intro x
    rw [Edges.not_toList, hitL_map]
    exact h2 x
  | .bool v hi lo, h => ⟨Tree.OK_not hi h.1, Tree.OK_not lo h.2⟩
theorem Edges.OKAll_not : ∀ (es : Edges νr νb α), es.OKAll → es.not.OKAll
  | .nil, _ => trivial
  | .cons iv t rest, h => ⟨h.1, Tree.OK_not t h.2.1, Edges.OKAll_not rest h.2.2⟩
end

mutual
theorem Tree.not_not : ∀ (t : Tree νr νb α), t.not.not = t
  | .leaf b => by simp [Tree.not]
  | .rng v es => by simp [Tree.not, Edges.not_not es]
  | .bool v hi lo => by simp [Tree.not, Tree.not_not hi, Tree.not_not lo]
theorem Edges.not_not : ∀ (es : Edges νr νb α), es.not.not = es
  | .nil => rfl
  | .cons iv t rest => by simp [Edges.not, Tree.not_not t, Edges.not_not rest]
end

mutual
theorem Tree.size_not : ∀ (t : Tree νr νb α), t.not.size = t.size
  | .leaf b => by simp [Tree.not, Tree.size]
  | .rng v es => by simp [Tree.not, Tree.size, Edges.size_not es]
  | .bool v hi lo => by simp [Tree.not, Tree.size, Tree.size_not hi, Tree.size_not lo]
theorem Edges.size_not : ∀ (es : Edges νr νb α), es.not.size = es.size
  | .nil => rfl
  | .cons iv t rest => by simp [Edges.not, Edges.size, Tree.size_not t, Edges.size_not rest]
end

/-! ### mapping children (`Edges::map`) -/

theorem evalL_map (ρ : Env νr νb α) (x : α) (es : EdgeL νr νb α) (f : Tree νr νb α → Tree νr νb α)
    (g : Bool → Bool) (hf : ∀ e ∈ es, (f e.2).eval ρ = g (e.2.eval ρ)) (hhit : hitL x es = true) :
    evalL ρ x (es.map fun e => (e.1, f e.2)) = g (evalL ρ x es) := by
  induction es with
  | nil => simp [hitL] at hhit
  | cons e rest ih =>
    simp only [List.map_cons, evalL]
    split
    · exact hf e (by simp)
    · rename_i h
      apply ih (fun e' he' => hf e' (by simp [he']))
      simp [hitL] at hhit ⊢
      rcases hhit with h' | h'
      · simp [h'] at h
      · exact h'

theorem eval_mapE (ρ : Env νr νb α) (x : α) (es : EdgeL νr νb α) (f : Tree νr νb α → Tree νr νb α)
    (g : Bool → Bool) (hv : ∀ e ∈ es, e.1.valid = true)
    (hf : ∀ e ∈ es, (f e.2).eval ρ = g (e.2.eval ρ)) (hc : Covers es) :
    evalL ρ x (mapE f es) = g (evalL ρ x es) := by
  unfold mapE
  rw [evalL_coalesce]
  · exact evalL_map ρ x es f g hf ((covers_iff _).mp hc x)
  · intro e he
    simp only [List.mem_map] at he
    obtain ⟨e', he', rfl⟩ := he
    exact hv e' he'

theorem OKL_mapE (es : EdgeL νr νb α) (f : Tree νr νb α → Tree νr νb α)
    (hv : ∀ e ∈ es, e.1.valid = true) (hf : ∀ e ∈ es, (f e.2).OK) : OKL (mapE f es) := by
  unfold mapE OKL
  apply coalesce_prop Tree.OK
  intro e he
  simp only [List.mem_map] at he
  obtain ⟨e', he', rfl⟩ := he
  exact ⟨hv e' he', hf e' he'⟩

theorem covers_mapE (es : EdgeL νr νb α) (f : Tree νr νb α → Tree νr νb α)
    (hv : ∀ e ∈ es, e.1.valid = true) (hc : Covers es) : Covers (mapE f es) := by
  unfold mapE
  apply covers_coalesce
  · intro e he
    simp only [List.mem_map] at he
    obtain ⟨e', he', rfl⟩ := he
    exact hv e' he'
  · rw [covers_iff] at *
    intro x; rw [hitL_map]; exact hc x

/-! ### the double loop of `apply_ranges` -/

/-- child of the first edge containing `x` -/
def firstHit (x : α) : EdgeL νr νb α → Option (Tree νr νb α)
  | [] => none
  | e :: rest => if e.1.mem x then some e.2 else firstHit x rest

theorem evalL_eq_firstHit (ρ : Env νr νb α) (x : α) (es : EdgeL νr νb α) :
    evalL ρ x es = match firstHit x es with | some c => c.eval ρ | none => false := by
  induction es with
  | nil => rfl
  | cons e rest ih => simp only [evalL, firstHit]; split <;> simp_all

theorem firstHit_mem (x : α) (es : EdgeL νr νb α) (c : Tree νr νb α) (h : firstHit x es = some c) :
    ∃ e ∈ es, e.2 = c := by
  induction es with
  | nil => simp [firstHit] at h
  | cons e rest ih =>
    simp only [firstHit] at h
    split at h
    · exact ⟨e, by simp, by simpa using h⟩
    · obtain ⟨e', he', hc⟩ := ih h; exact ⟨e', by simp [he'], hc⟩

theorem firstHit_productRow (f : Tree νr νb α → Tree νr νb α → Tree νr νb α) (x : α)
    (l : Ivl α × Tree νr νb α) (rs : EdgeL νr νb α) :
    firstHit x (productRow f l rs) =
      if l.1.mem x then (firstHit x rs).map (f l.2) else none := by
  induction rs with
  | nil => simp [productRow, firstHit]
  | cons r rest ih =>
    simp only [productRow]
    by_cases hv : (r.1.inter l.1).valid = true
    · simp only [hv, if_true, firstHit, Ivl.mem_inter, ih]
      cases h1 : r.1.mem x <;> cases h2 : l.1.mem x <;> simp
    · simp only [hv, firstHit, ih]
      have : ¬ ((r.1.inter l.1).mem x = true) := fun hm => hv (Ivl.valid_of_mem _ x hm)
      rw [Ivl.mem_inter] at this
      cases h1 : r.1.mem x <;> cases h2 : l.1.mem x <;> simp_all

theorem firstHit_append (x : α) (a b : EdgeL νr νb α) :
    firstHit x (a ++ b) = (firstHit x a).or (firstHit x b) := by
  induction a with
  | nil => simp [firstHit]
  | cons e rest ih => simp only [List.cons_append, firstHit]; split <;> simp [ih]

theorem firstHit_product (f : Tree νr νb α → Tree νr νb α → Tree νr νb α) (x : α)
    (ls rs : EdgeL νr νb α) :
    firstHit x (product f ls rs) =
      match firstHit x ls, firstHit x rs with
      | some cl, some cr => some (f cl cr)
      | _, _ => none := by
  induction ls with
  | nil => simp [product, firstHit]
  | cons l rest ih =>
    simp only [product, firstHit_append, firstHit_productRow, ih, firstHit]
    by_cases h : l.1.mem x = true
    · simp only [h, if_true]
      cases firstHit x rs <;> simp
    · simp [h]

theorem productRow_valid (f : Tree νr νb α → Tree νr νb α → Tree νr νb α)
    (l : Ivl α × Tree νr νb α) (rs : EdgeL νr νb α) :
    ∀ e ∈ productRow f l rs, e.1.valid = true ∧ ∃ r ∈ rs, e.2 = f l.2 r.2 := by
  induction rs with
  | nil => simp [productRow]
  | cons r rest ih =>
    simp only [productRow]
    split
    · rename_i h
      intro e he
      simp only [List.mem_cons] at he
      rcases he with he | he
      · subst he; exact ⟨h, r, by simp, rfl⟩
      · obtain ⟨h1, r', hr', h2⟩ := ih e he; exact ⟨h1, r', by simp [hr'], h2⟩
    · intro e he
      obtain ⟨h1, r', hr', h2⟩ := ih e he; exact ⟨h1, r', by simp [hr'], h2⟩

theorem product_valid (f : Tree νr νb α → Tree νr νb α → Tree νr νb α) (ls rs : EdgeL νr νb α) :
    ∀ e ∈ product f ls rs, e.1.valid = true ∧ ∃ l ∈ ls, ∃ r ∈ rs, e.2 = f l.2 r.2 := by
  induction ls with
  | nil => simp [product]
  | cons l rest ih =>
    simp only [product, List.mem_append]
    intro e he
    rcases he with he | he
    · obtain ⟨h1, r, hr, h2⟩ := productRow_valid f l rs e he
      exact ⟨h1, l, by simp, r, hr, h2⟩
    · obtain ⟨h1, l', hl', r, hr, h2⟩ := ih e he
      exact ⟨h1, l', by simp [hl'], r, hr, h2⟩

theorem hitL_eq_firstHit (x : α) (es : EdgeL νr νb α) : hitL x es = (firstHit x es).isSome := by
  induction es with
  | nil => rfl
  | cons e rest ih =>
    simp only [hitL, List.any_cons, firstHit] at *
    split <;> simp_all

theorem covers_product (f : Tree νr νb α → Tree νr νb α → Tree νr νb α) (ls rs : EdgeL νr νb α)
    (hl : Covers ls) (hr : Covers rs) : Covers (product f ls rs) := by
  rw [covers_iff] at *
  intro x
  have h1 := hl x
  have h2 := hr x
  rw [hitL_eq_firstHit] at *
  rw [firstHit_product]
  cases h3 : firstHit x ls <;> cases h4 : firstHit x rs <;> simp_all

end Pep508

namespace Pep508
variable {νr νb α : Type}
variable [LT α] [DecidableLT α] [DecidableEq α]
variable [LT νr] [DecidableLT νr] [DecidableEq νr] [LT νb] [DecidableLT νb] [DecidableEq νb]

/-- a well-formed diagram never equals its own complement -/
theorem Tree.ne_not : ∀ (t : Tree νr νb α), t.wf = true → t ≠ t.not
  | .leaf b, _ => by cases b <;> simp [Tree.not]
  | .rng v es, h => by
    cases es with
    | nil => simp [Tree.wf, Edges.toList] at h
    | cons iv t rest =>
      simp only [Tree.wf, Edges.wfAll, Bool.and_eq_true] at h
      have := Tree.ne_not t h.2.1.1
      simp only [Tree.not, Edges.not, ne_eq, Tree.rng.injEq, Edges.cons.injEq, true_and, not_and]
      intro h'; exact absurd h' this
  | .bool v a b, h => by
    simp only [Tree.wf, Bool.and_eq_true] at h
    have := Tree.ne_not a h.1.1.1.2
    simp only [Tree.not, ne_eq, Tree.bool.injEq, true_and, not_and]
    intro h'; exact absurd h' this
end Pep508
