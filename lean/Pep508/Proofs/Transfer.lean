/-
Transfer along order embeddings.

Every operation of the model (`and`, `simplifyPy`, `complexifyPy`, `wf`, …) only COMPARES bound values
(`<`, `=`); it therefore commutes with relabelling the bounds along an order embedding
`f : α → β` (`x < y ↔ f x < f y`).  Every linear order `α` embeds into a dense order without end
points (`Dn α`, the lexicographic product `α × ℚ`, `a ↦ (a, 0)`).  Consequently every IDENTITY OF
DIAGRAMS whose hypotheses are syntactic (`wf`, `valid`) and that holds over dense orders holds over
EVERY linear order — no density, no separation of bounds (`transfer` at the end of the file).
-/
import Pep508.Proofs.SimplifyCanon
import Pep508.Proofs.ValOrder
import Pep508.Theorems.C12
set_option linter.unusedSectionVars false
set_option linter.unusedSimpArgs false
set_option linter.unusedVariables false
namespace Pep508

/-! ## relabelling -/

def Bnd.map {α β : Type} (f : α → β) : Bnd α → Bnd β
  | .unb => .unb
  | .incl v => .incl (f v)
  | .excl v => .excl (f v)

def Ivl.map {α β : Type} (f : α → β) (iv : Ivl α) : Ivl β := ⟨iv.lo.map f, iv.hi.map f⟩

mutual
def Tree.mapV {νr νb α β : Type} (f : α → β) : Tree νr νb α → Tree νr νb β
  | .leaf b => .leaf b
  | .rng v es => .rng v (es.mapV f)
  | .bool v h l => .bool v (h.mapV f) (l.mapV f)
def Edges.mapV {νr νb α β : Type} (f : α → β) : Edges νr νb α → Edges νr νb β
  | .nil => .nil
  | .cons iv t rest => .cons (iv.map f) (t.mapV f) (rest.mapV f)
end

def mapL {νr νb α β : Type} (f : α → β) (es : EdgeL νr νb α) : EdgeL νr νb β :=
  es.map fun e => (e.1.map f, e.2.mapV f)

variable {νr νb α β : Type}
variable [LT α] [LE α] [Std.IsLinearOrder α] [Std.LawfulOrderLT α] [DecidableLT α] [DecidableEq α]
variable [LT β] [LE β] [Std.IsLinearOrder β] [Std.LawfulOrderLT β] [DecidableLT β] [DecidableEq β]
variable [LT νr] [LE νr] [Std.IsLinearOrder νr] [Std.LawfulOrderLT νr] [DecidableLT νr] [DecidableEq νr]
variable [LT νb] [LE νb] [Std.IsLinearOrder νb] [Std.LawfulOrderLT νb] [DecidableLT νb] [DecidableEq νb]

/-- `f` preserves and reflects the strict order -/
structure OrdEmb (f : α → β) : Prop where
  lt_iff : ∀ x y, f x < f y ↔ x < y

theorem OrdEmb.inj {f : α → β} (hf : OrdEmb f) {x y : α} (h : f x = f y) : x = y := by
  have h1 : ¬ x < y := by
    intro hl
    have := (hf.lt_iff x y).2 hl
    rw [h] at this
    exact Std.lt_irrefl this
  have h2 : ¬ y < x := by
    intro hl
    have := (hf.lt_iff y x).2 hl
    rw [h] at this
    exact Std.lt_irrefl this
  grind

theorem OrdEmb.eq_iff {f : α → β} (hf : OrdEmb f) (x y : α) : f x = f y ↔ x = y :=
  ⟨hf.inj, fun h => by rw [h]⟩

/-! ### bounds and intervals -/

section Bounds
variable {f : α → β} (hf : OrdEmb f)
include hf

theorem Bnd.map_inj {a b : Bnd α} (h : a.map f = b.map f) : a = b := by
  cases a <;> cases b <;> simp only [Bnd.map, Bnd.incl.injEq, Bnd.excl.injEq, reduceCtorEq] at h <;>
    first | rfl | (rw [hf.inj h])

theorem Bnd.map_eq_iff (a b : Bnd α) : a.map f = b.map f ↔ a = b :=
  ⟨Bnd.map_inj hf, fun h => by rw [h]⟩

theorem Ivl.map_eq_iff (a b : Ivl α) : a.map f = b.map f ↔ a = b := by
  obtain ⟨a1, a2⟩ := a
  obtain ⟨b1, b2⟩ := b
  simp only [Ivl.map, Ivl.mk.injEq, Bnd.map_eq_iff hf]

theorem Ivl.valid_map (iv : Ivl α) : (iv.map f).valid = iv.valid := by
  obtain ⟨lo, hi⟩ := iv
  cases lo <;> cases hi <;> simp only [Ivl.map, Bnd.map, Ivl.valid, hf.lt_iff]

theorem Bnd.maxLo_map (a b : Bnd α) : Bnd.maxLo (a.map f) (b.map f) = (Bnd.maxLo a b).map f := by
  cases a <;> cases b <;> simp only [Bnd.map, Bnd.maxLo, hf.lt_iff] <;> first | rfl | (split <;> rfl)

theorem Bnd.minHi_map (a b : Bnd α) : Bnd.minHi (a.map f) (b.map f) = (Bnd.minHi a b).map f := by
  cases a <;> cases b <;> simp only [Bnd.map, Bnd.minHi, hf.lt_iff] <;> first | rfl | (split <;> rfl)

theorem Ivl.inter_map (a b : Ivl α) : (a.map f).inter (b.map f) = (a.inter b).map f := by
  simp only [Ivl.inter, Ivl.map, Bnd.maxLo_map hf, Bnd.minHi_map hf]

theorem Ivl.canConjoin_map (a b : Ivl α) : (a.map f).canConjoin (b.map f) = a.canConjoin b := by
  obtain ⟨a1, a2⟩ := a
  obtain ⟨b1, b2⟩ := b
  cases a2 <;> cases b1 <;> simp only [Ivl.map, Bnd.map, Ivl.canConjoin, hf.eq_iff]

end Bounds

theorem Ivl.conjoin_map (f : α → β) (a b : Ivl α) : (a.map f).conjoin (b.map f) = (a.conjoin b).map f := rfl

theorem Bnd.flipHi_map (f : α → β) (b : Bnd α) : (b.map f).flipHi = b.flipHi.map (Bnd.map f) := by
  cases b <;> rfl

theorem Bnd.flipLo_map (f : α → β) (b : Bnd α) : (b.map f).flipLo = b.flipLo.map (Bnd.map f) := by
  cases b <;> rfl

theorem Bnd.map_eq_unb (f : α → β) (b : Bnd α) : b.map f = .unb ↔ b = .unb := by
  cases b <;> simp [Bnd.map]

/-! ### trees -/

theorem Edges.toList_mapV (f : α → β) : ∀ (es : Edges νr νb α), (es.mapV f).toList = mapL f es.toList
  | .nil => rfl
  | .cons iv t rest => by
    simp only [Edges.mapV, Edges.toList, mapL, List.map_cons, List.cons.injEq, true_and]
    exact Edges.toList_mapV f rest

theorem Edges.ofList_mapL (f : α → β) : ∀ (l : EdgeL νr νb α),
    Edges.ofList (mapL f l) = (Edges.ofList l).mapV f
  | [] => rfl
  | (iv, t) :: rest => by
    simp only [mapL, List.map_cons, Edges.ofList, Edges.mapV, Edges.cons.injEq, true_and]
    exact Edges.ofList_mapL f rest

mutual
theorem Tree.size_mapV (f : α → β) : ∀ (t : Tree νr νb α), (t.mapV f).size = t.size
  | .leaf _ => rfl
  | .rng _ es => by simp only [Tree.mapV, Tree.size, Edges.size_mapV f es]
  | .bool _ h l => by simp only [Tree.mapV, Tree.size, Tree.size_mapV f h, Tree.size_mapV f l]
theorem Edges.size_mapV (f : α → β) : ∀ (es : Edges νr νb α), (es.mapV f).size = es.size
  | .nil => rfl
  | .cons _ t rest => by
    simp only [Edges.mapV, Edges.size, Tree.size_mapV f t, Edges.size_mapV f rest]
end

mutual
theorem Tree.mapV_not (f : α → β) : ∀ (t : Tree νr νb α), (t.mapV f).not = t.not.mapV f
  | .leaf _ => rfl
  | .rng _ es => by simp only [Tree.mapV, Tree.not, Edges.mapV_not f es]
  | .bool _ h l => by simp only [Tree.mapV, Tree.not, Tree.mapV_not f h, Tree.mapV_not f l]
theorem Edges.mapV_not (f : α → β) : ∀ (es : Edges νr νb α), (es.mapV f).not = es.not.mapV f
  | .nil => rfl
  | .cons _ t rest => by
    simp only [Edges.mapV, Edges.not, Tree.mapV_not f t, Edges.mapV_not f rest]
end

theorem Tree.mapV_eq_leaf (f : α → β) (t : Tree νr νb α) (b : Bool) :
    t.mapV f = .leaf b ↔ t = .leaf b := by
  cases t <;> simp [Tree.mapV]

theorem Tree.rootGt_mapV (f : α → β) (k : Rank νr νb) (t : Tree νr νb α) :
    (t.mapV f).rootGt k = t.rootGt k := by
  cases t <;> rfl

section Inj
variable {f : α → β} (hf : OrdEmb f)
include hf

mutual
theorem Tree.mapV_inj : ∀ (x y : Tree νr νb α), x.mapV f = y.mapV f → x = y
  | .leaf a, .leaf b, h => by simpa [Tree.mapV] using h
  | .leaf _, .rng _ _, h => by simp [Tree.mapV] at h
  | .leaf _, .bool _ _ _, h => by simp [Tree.mapV] at h
  | .rng _ _, .leaf _, h => by simp [Tree.mapV] at h
  | .rng v es, .rng w fs, h => by
    simp only [Tree.mapV, Tree.rng.injEq] at h
    rw [h.1, Edges.mapV_inj es fs h.2]
  | .rng _ _, .bool _ _ _, h => by simp [Tree.mapV] at h
  | .bool _ _ _, .leaf _, h => by simp [Tree.mapV] at h
  | .bool _ _ _, .rng _ _, h => by simp [Tree.mapV] at h
  | .bool v a b, .bool w c d, h => by
    simp only [Tree.mapV, Tree.bool.injEq] at h
    rw [h.1, Tree.mapV_inj a c h.2.1, Tree.mapV_inj b d h.2.2]
theorem Edges.mapV_inj : ∀ (x y : Edges νr νb α), x.mapV f = y.mapV f → x = y
  | .nil, .nil, _ => rfl
  | .nil, .cons _ _ _, h => by simp [Edges.mapV] at h
  | .cons _ _ _, .nil, h => by simp [Edges.mapV] at h
  | .cons iv t rest, .cons jv u rest', h => by
    simp only [Edges.mapV, Edges.cons.injEq] at h
    rw [(Ivl.map_eq_iff hf iv jv).1 h.1, Tree.mapV_inj t u h.2.1, Edges.mapV_inj rest rest' h.2.2]
end

theorem Tree.mapV_eq_iff (x y : Tree νr νb α) : x.mapV f = y.mapV f ↔ x = y :=
  ⟨Tree.mapV_inj hf x y, fun h => by rw [h]⟩

/-! ### nodes, merging, products -/

theorem createNodeR_map (v : νr) (es : EdgeL νr νb α) :
    createNodeR v (mapL f es) = (createNodeR v es).mapV f := by
  cases es with
  | nil => rfl
  | cons e rest =>
    obtain ⟨iv, c⟩ := e
    have hall : (mapL f rest).all (fun e => e.2 == c.mapV f) = rest.all (fun e => e.2 == c) := by
      simp only [mapL, List.all_map]
      congr 1
      funext e
      simp only [Function.comp]
      rw [Bool.eq_iff_iff, beq_iff_eq, beq_iff_eq]
      exact Tree.mapV_eq_iff hf e.2 c
    show createNodeR v ((iv.map f, c.mapV f) :: mapL f rest) = _
    simp only [createNodeR, hall]
    split
    · rfl
    · show Tree.rng v (Edges.ofList (mapL f ((iv, c) :: rest))) = _
      rw [Edges.ofList_mapL]; rfl

theorem createNodeB_map (v : νb) (h l : Tree νr νb α) :
    createNodeB v (h.mapV f) (l.mapV f) = (createNodeB v h l).mapV f := by
  unfold createNodeB
  by_cases c : h = l
  · rw [if_pos c, if_pos (by rw [c])]
  · rw [if_neg c, if_neg (fun h' => c (Tree.mapV_inj hf h l h'))]; rfl

theorem coalesceGo_map : ∀ (es : EdgeL νr νb α) (cur : Ivl α × Tree νr νb α),
    coalesceGo (cur.1.map f, cur.2.mapV f) (mapL f es) = mapL f (coalesceGo cur es)
  | [], _ => rfl
  | e :: rest, cur => by
    show coalesceGo (cur.1.map f, cur.2.mapV f) ((e.1.map f, e.2.mapV f) :: mapL f rest) = _
    simp only [coalesceGo]
    by_cases c : cur.2 = e.2 ∧ cur.1.canConjoin e.1 = true
    · have c' : cur.2.mapV f = e.2.mapV f ∧ (cur.1.map f).canConjoin (e.1.map f) = true := by
        rw [Ivl.canConjoin_map hf]; exact ⟨by rw [c.1], c.2⟩
      rw [if_pos c, if_pos c', Ivl.conjoin_map]
      exact coalesceGo_map rest (cur.1.conjoin e.1, cur.2)
    · have c' : ¬ (cur.2.mapV f = e.2.mapV f ∧ (cur.1.map f).canConjoin (e.1.map f) = true) := by
        rw [Ivl.canConjoin_map hf, Tree.mapV_eq_iff hf]; exact c
      rw [if_neg c, if_neg c']
      show _ = (cur.1.map f, cur.2.mapV f) :: mapL f (coalesceGo e rest)
      rw [← coalesceGo_map rest e]

theorem coalesce_map (es : EdgeL νr νb α) : coalesce (mapL f es) = mapL f (coalesce es) := by
  cases es with
  | nil => rfl
  | cons e rest => exact coalesceGo_map hf rest e

theorem mapE_map (g : Tree νr νb α → Tree νr νb α) (g' : Tree νr νb β → Tree νr νb β)
    (es : EdgeL νr νb α) (hg : ∀ e ∈ es, g' (e.2.mapV f) = (g e.2).mapV f) :
    mapE g' (mapL f es) = mapL f (mapE g es) := by
  unfold mapE
  rw [← coalesce_map hf]
  congr 1
  simp only [mapL, List.map_map]
  apply List.map_congr_left
  intro e he
  simp only [Function.comp, hg e he]

theorem productRow_map (g : Tree νr νb α → Tree νr νb α → Tree νr νb α)
    (g' : Tree νr νb β → Tree νr νb β → Tree νr νb β) (l : Ivl α × Tree νr νb α) :
    ∀ (rs : EdgeL νr νb α), (∀ r ∈ rs, g' (l.2.mapV f) (r.2.mapV f) = (g l.2 r.2).mapV f) →
      productRow g' (l.1.map f, l.2.mapV f) (mapL f rs) = mapL f (productRow g l rs)
  | [], _ => rfl
  | r :: rs, hg => by
    have ih := productRow_map g g' l rs (fun r' hr' => hg r' (by simp [hr']))
    show productRow g' (l.1.map f, l.2.mapV f) ((r.1.map f, r.2.mapV f) :: mapL f rs) = _
    simp only [productRow, Ivl.inter_map hf, Ivl.valid_map hf, ih, hg r (by simp)]
    split
    · rfl
    · rfl

theorem product_map (g : Tree νr νb α → Tree νr νb α → Tree νr νb α)
    (g' : Tree νr νb β → Tree νr νb β → Tree νr νb β) :
    ∀ (ls rs : EdgeL νr νb α),
      (∀ l ∈ ls, ∀ r ∈ rs, g' (l.2.mapV f) (r.2.mapV f) = (g l.2 r.2).mapV f) →
      product g' (mapL f ls) (mapL f rs) = mapL f (product g ls rs)
  | [], _, _ => rfl
  | l :: ls, rs, hg => by
    show product g' ((l.1.map f, l.2.mapV f) :: mapL f ls) (mapL f rs) = _
    simp only [product]
    rw [productRow_map hf g g' l rs (fun r hr => hg l (by simp) r hr),
      product_map g g' ls rs (fun l' hl' r hr => hg l' (by simp [hl']) r hr)]
    simp only [mapL, List.map_append]

theorem applyRanges_map (g : Tree νr νb α → Tree νr νb α → Tree νr νb α)
    (g' : Tree νr νb β → Tree νr νb β → Tree νr νb β) (ls rs : EdgeL νr νb α)
    (hg : ∀ l ∈ ls, ∀ r ∈ rs, g' (l.2.mapV f) (r.2.mapV f) = (g l.2 r.2).mapV f) :
    applyRanges g' (mapL f ls) (mapL f rs) = mapL f (applyRanges g ls rs) := by
  unfold applyRanges
  rw [product_map hf g g' ls rs hg, coalesce_map hf]

end Inj

/-! ### conjunction -/

section AndMap
variable {f : α → β} (hf : OrdEmb f)
include hf

theorem andF_map : ∀ (n : Nat) (x y : Tree νr νb α),
    andF n (x.mapV f) (y.mapV f) = (andF n x y).mapV f := by
  intro n
  induction n with
  | zero => intro x y; rfl
  | succ n ih =>
    intro x y
    have tl : ∀ (es : Edges νr νb α), (es.mapV f).toList = mapL f es.toList :=
      Edges.toList_mapV f
    unfold andF
    by_cases c1 : x = .leaf true
    · subst c1; simp only [Tree.mapV, if_true]
    have c1' : ¬ x.mapV f = .leaf true := fun h => c1 ((Tree.mapV_eq_leaf f x true).1 h)
    by_cases c2 : y = .leaf true
    · subst c2; simp only [Tree.mapV, c1, c1', if_true, if_false]
    have c2' : ¬ y.mapV f = .leaf true := fun h => c2 ((Tree.mapV_eq_leaf f y true).1 h)
    by_cases c3 : x = y
    · subst c3; simp only [c1, c1', if_true, if_false]
    have c3' : ¬ x.mapV f = y.mapV f := fun h => c3 (Tree.mapV_inj hf x y h)
    by_cases c4 : x = .leaf false ∨ y = .leaf false
    · have c4' : x.mapV f = .leaf false ∨ y.mapV f = .leaf false := by
        rw [Tree.mapV_eq_leaf, Tree.mapV_eq_leaf]; exact c4
      simp only [c1, c1', c2, c2', c3, c3', c4, c4', if_true, if_false]; rfl
    have c4' : ¬ (x.mapV f = .leaf false ∨ y.mapV f = .leaf false) := by
      rw [Tree.mapV_eq_leaf, Tree.mapV_eq_leaf]; exact c4
    by_cases c5 : x.not = y
    · have c5' : (x.mapV f).not = y.mapV f := by rw [Tree.mapV_not, c5]
      simp only [c1, c1', c2, c2', c3, c3', c4, c4', c5, c5', if_true, if_false]; rfl
    have c5' : ¬ (x.mapV f).not = y.mapV f := by
      rw [Tree.mapV_not]; exact fun h => c5 (Tree.mapV_inj hf _ _ h)
    simp only [c1, c1', c2, c2', c3, c3', c4, c4', c5, c5', if_false]
    cases x with
    | leaf b => cases b <;> simp_all
    | rng vx ex =>
      cases y with
      | leaf b => cases b <;> simp_all
      | rng vy ey =>
        simp only [Tree.mapV, tl]
        by_cases d1 : vx < vy
        · simp only [d1, if_true]
          rw [← createNodeR_map hf, ← mapE_map hf]
          intro e he
          exact ih e.2 (.rng vy ey)
        by_cases d2 : vy < vx
        · simp only [d1, d2, if_true, if_false]
          rw [← createNodeR_map hf, ← mapE_map hf]
          intro e he
          exact ih e.2 (.rng vx ex)
        · simp only [d1, d2, if_false]
          rw [← createNodeR_map hf, ← applyRanges_map hf]
          intro l hl r hr
          exact ih l.2 r.2
      | bool vy hy ly =>
        simp only [Tree.mapV, tl]
        rw [← createNodeR_map hf, ← mapE_map hf]
        intro e he
        exact ih e.2 (.bool vy hy ly)
    | bool vx hx lx =>
      cases y with
      | leaf b => cases b <;> simp_all
      | rng vy ey =>
        simp only [Tree.mapV, tl]
        rw [← createNodeR_map hf, ← mapE_map hf]
        intro e he
        exact ih e.2 (.bool vx hx lx)
      | bool vy hy ly =>
        simp only [Tree.mapV]
        by_cases d1 : vx < vy
        · simp only [d1, if_true]
          rw [← createNodeB_map hf, ← ih hx (.bool vy hy ly), ← ih lx (.bool vy hy ly)]; rfl
        by_cases d2 : vy < vx
        · simp only [d1, d2, if_true, if_false]
          rw [← createNodeB_map hf, ← ih hy (.bool vx hx lx), ← ih ly (.bool vx hx lx)]; rfl
        · simp only [d1, d2, if_false]
          rw [← createNodeB_map hf, ← ih hx hy, ← ih lx ly]

/-- `and` commutes with relabelling along an order embedding -/
theorem Tree.and_map (x y : Tree νr νb α) :
    Tree.and (x.mapV f) (y.mapV f) = (Tree.and x y).mapV f := by
  unfold Tree.and
  rw [Tree.size_mapV, Tree.size_mapV]
  exact andF_map hf _ x y

end AndMap

/-! ### well-formedness -/

section WfMap
variable {f : α → β} (hf : OrdEmb f)
include hf

theorem partitionFrom_map : ∀ (es : EdgeL νr νb α) (cur : Bnd α),
    partitionFrom (cur.map f) (mapL f es) = partitionFrom cur es
  | [], _ => rfl
  | [(iv, t)], cur => by
    show partitionFrom (cur.map f) [(iv.map f, t.mapV f)] = _
    simp only [partitionFrom]
    have h1 : ((iv.map f).lo = cur.map f) ↔ (iv.lo = cur) := Bnd.map_eq_iff hf iv.lo cur
    have h2 : ((iv.map f).hi = Bnd.unb) ↔ (iv.hi = Bnd.unb) := Bnd.map_eq_unb f iv.hi
    rw [Ivl.valid_map hf]
    simp only [h1, h2]
  | (iv, t) :: (iv2, t2) :: rest, cur => by
    show partitionFrom (cur.map f) ((iv.map f, t.mapV f) :: (iv2.map f, t2.mapV f) :: mapL f rest) = _
    simp only [partitionFrom]
    have h1 : ((iv.map f).lo = cur.map f) ↔ (iv.lo = cur) := Bnd.map_eq_iff hf iv.lo cur
    have h3 : (t.mapV f ≠ t2.mapV f) ↔ (t ≠ t2) := not_congr (Tree.mapV_eq_iff hf t t2)
    rw [Ivl.valid_map hf]
    simp only [h1, h3]
    congr 1
    show (match (iv.hi.map f).flipHi with
      | none => false
      | some nxt => partitionFrom nxt ((iv2.map f, t2.mapV f) :: mapL f rest)) = _
    rw [Bnd.flipHi_map]
    cases hfl : iv.hi.flipHi with
    | none => rfl
    | some nxt =>
      simp only [Option.map]
      exact partitionFrom_map ((iv2, t2) :: rest) nxt

mutual
theorem Tree.wf_map : ∀ (t : Tree νr νb α), (t.mapV f).wf = t.wf
  | .leaf _ => rfl
  | .rng v es => by
    simp only [Tree.mapV, Tree.wf, Edges.toList_mapV]
    have hp := partitionFrom_map hf es.toList (νr := νr) (νb := νb) .unb
    simp only [Bnd.map] at hp
    rw [hp, Edges.wfAll_map es (.r v)]
    simp only [mapL, List.length_map]
  | .bool v h l => by
    simp only [Tree.mapV, Tree.wf, Tree.wf_map h, Tree.wf_map l, Tree.rootGt_mapV]
    have h3 : (h.mapV f ≠ l.mapV f) ↔ (h ≠ l) := not_congr (Tree.mapV_eq_iff hf h l)
    simp only [h3]
theorem Edges.wfAll_map : ∀ (es : Edges νr νb α) (k : Rank νr νb), (es.mapV f).wfAll k = es.wfAll k
  | .nil, _ => rfl
  | .cons _ t rest, k => by
    simp only [Edges.mapV, Edges.wfAll, Tree.wf_map t, Tree.rootGt_mapV, Edges.wfAll_map rest k]
end

end WfMap

/-! ### requires-python -/

theorem fromRange_single_map (f : α → β) (lo hi : Bnd α) :
    (fromRange [⟨lo.map f, hi.map f⟩] : EdgeL νr νb β) = mapL f (fromRange [⟨lo, hi⟩]) := by
  cases lo <;> cases hi <;> rfl

theorem setFirstLo_map (f : α → β) (lo : Bnd α) : ∀ (L : EdgeL νr νb α),
    setFirstLo (lo.map f) (mapL f L) = mapL f (setFirstLo lo L)
  | [] => rfl
  | (_, _) :: _ => rfl

theorem setLastHi_map (f : α → β) (hi : Bnd α) : ∀ (L : EdgeL νr νb α),
    setLastHi (hi.map f) (mapL f L) = mapL f (setLastHi hi L)
  | [] => rfl
  | [(_, _)] => rfl
  | e :: e2 :: rest => by
    show setLastHi (hi.map f) ((e.1.map f, e.2.mapV f) :: (e2.1.map f, e2.2.mapV f) :: mapL f rest) = _
    simp only [setLastHi]
    have ih := setLastHi_map f hi (e2 :: rest)
    simp only [mapL, List.map_cons] at ih ⊢
    rw [ih]

theorem complexifyHiGo_map (f : α → β) (hi above : Bnd α) : ∀ (L : EdgeL νr νb α),
    complexifyHiGo (hi.map f) (above.map f) (mapL f L) = mapL f (complexifyHiGo hi above L)
  | [] => rfl
  | [(iv, c)] => by
    show complexifyHiGo (hi.map f) (above.map f) [(iv.map f, c.mapV f)] = _
    simp only [complexifyHiGo, Tree.mapV_eq_leaf]
    split <;> rfl
  | e :: e2 :: rest => by
    show complexifyHiGo (hi.map f) (above.map f)
      ((e.1.map f, e.2.mapV f) :: (e2.1.map f, e2.2.mapV f) :: mapL f rest) = _
    simp only [complexifyHiGo]
    have ih := complexifyHiGo_map f hi above (e2 :: rest)
    simp only [mapL, List.map_cons] at ih ⊢
    rw [ih]

theorem complexifyHi_map (f : α → β) (hi : Bnd α) (L : EdgeL νr νb α) :
    complexifyHi (hi.map f) (mapL f L) = mapL f (complexifyHi hi L) := by
  unfold complexifyHi
  rw [Bnd.flipHi_map]
  cases hi.flipHi with
  | none => rfl
  | some above => exact complexifyHiGo_map f hi above L

theorem complexifyLo_map (f : α → β) (lo : Bnd α) (L : EdgeL νr νb α) :
    complexifyLo (lo.map f) (mapL f L) = mapL f (complexifyLo lo L) := by
  cases hfl : lo.flipLo with
  | none =>
    have h1 : (lo.map f).flipLo = none := by rw [Bnd.flipLo_map, hfl]; rfl
    simp only [complexifyLo, h1, hfl]
  | some below =>
    have h1 : (lo.map f).flipLo = some (below.map f) := by rw [Bnd.flipLo_map, hfl]; rfl
    cases L with
    | nil => simp only [complexifyLo, h1, hfl, mapL, List.map_nil]
    | cons e rest =>
      obtain ⟨iv, c⟩ := e
      show complexifyLo (lo.map f) ((iv.map f, c.mapV f) :: mapL f rest) = _
      simp only [complexifyLo, h1, hfl, Tree.mapV_eq_leaf]
      by_cases hc : c = .leaf false
      · simp only [hc, if_true]; rfl
      · simp only [hc, if_false]; rfl

section PyMap
variable {f : α → β} (hf : OrdEmb f)
include hf

theorem simplifyEdges_map (lo hi : Bnd α) (es : EdgeL νr νb α) :
    simplifyEdges (lo.map f) (hi.map f) (mapL f es) = mapL f (simplifyEdges lo hi es) := by
  have key : (mapL f es).filterMap (fun e =>
        let o := e.1.inter ⟨lo.map f, hi.map f⟩
        if o.valid then some (o, e.2) else none) =
      mapL f (es.filterMap (fun e =>
        let o := e.1.inter ⟨lo, hi⟩
        if o.valid then some (o, e.2) else none)) := by
    induction es with
    | nil => rfl
    | cons e rest ih =>
      show List.filterMap _ ((e.1.map f, e.2.mapV f) :: mapL f rest) = _
      simp only [List.filterMap_cons]
      have hi' : (e.1.map f).inter ⟨lo.map f, hi.map f⟩ = (e.1.inter ⟨lo, hi⟩).map f :=
        Ivl.inter_map hf e.1 ⟨lo, hi⟩
      simp only [hi', Ivl.valid_map hf]
      by_cases c : (e.1.inter ⟨lo, hi⟩).valid = true
      · simp only [c, if_true, ih]; rfl
      · simp only [c, if_false, ih]; rfl
  unfold simplifyEdges
  simp only [key]
  have h1 := setFirstLo_map (νr := νr) (νb := νb) f .unb
  have h2 := setLastHi_map (νr := νr) (νb := νb) f .unb
  simp only [Bnd.map] at h1 h2
  rw [h1, h2]

theorem complexifyEdges_map (lo hi : Bnd α) (es : EdgeL νr νb α) :
    complexifyEdges (lo.map f) (hi.map f) (mapL f es) = mapL f (complexifyEdges lo hi es) := by
  have key : (mapL f es).filter (fun e => ((Ivl.mk (lo.map f) (hi.map f)).inter e.1).valid) =
      mapL f (es.filter (fun e => ((Ivl.mk lo hi).inter e.1).valid)) := by
    induction es with
    | nil => rfl
    | cons e rest ih =>
      show List.filter _ ((e.1.map f, e.2.mapV f) :: mapL f rest) = _
      have hi' : (Ivl.mk (lo.map f) (hi.map f)).inter (e.1.map f) = ((Ivl.mk lo hi).inter e.1).map f :=
        Ivl.inter_map hf ⟨lo, hi⟩ e.1
      simp only [List.filter_cons, hi', Ivl.valid_map hf, ih]
      split <;> rfl
  unfold complexifyEdges
  simp only [key]
  rw [complexifyLo_map, complexifyHi_map]

theorem pyNode_map (pv : νr) (lo hi : Bnd α) :
    (createNodeR pv (fromRange [⟨lo.map f, hi.map f⟩]) : Tree νr νb β) =
      (createNodeR pv (fromRange [⟨lo, hi⟩]) : Tree νr νb α).mapV f := by
  rw [fromRange_single_map, createNodeR_map hf]

theorem unb_cond_map (lo hi : Bnd α) :
    (lo.map f = .unb ∧ hi.map f = .unb) ↔ (lo = .unb ∧ hi = .unb) := by
  rw [Bnd.map_eq_unb, Bnd.map_eq_unb]

theorem valid_pair_map (lo hi : Bnd α) :
    (Ivl.mk (lo.map f) (hi.map f)).valid = (Ivl.mk lo hi).valid := Ivl.valid_map hf ⟨lo, hi⟩

mutual
/-- `simplify` commutes with relabelling along an order embedding -/
theorem Tree.simplifyPy_map (pv : νr) (lo hi : Bnd α) : ∀ (t : Tree νr νb α),
    (t.mapV f).simplifyPy pv (lo.map f) (hi.map f) = (t.simplifyPy pv lo hi).mapV f
  | .leaf _ => rfl
  | .rng v es => by
    simp only [Tree.mapV, Tree.simplifyPy, unb_cond_map hf, valid_pair_map hf, Edges.toList_mapV,
      Edges.simplifyPyE_map pv lo hi es]
    by_cases c1 : lo = .unb ∧ hi = .unb
    · simp only [c1, and_self, if_true, Tree.mapV]
    simp only [c1, if_false]
    by_cases c2 : v = pv
    · simp only [c2, if_true]
      by_cases c3 : (Ivl.mk lo hi).valid = true
      · simp only [c3, if_true]
        rw [simplifyEdges_map hf, createNodeR_map hf]
      · simp only [c3, if_false]; rfl
    · simp only [c2, if_false]
      rw [coalesce_map hf, createNodeR_map hf]
  | .bool v h l => by
    simp only [Tree.mapV, Tree.simplifyPy, unb_cond_map hf, Tree.simplifyPy_map pv lo hi h,
      Tree.simplifyPy_map pv lo hi l]
    by_cases c1 : lo = .unb ∧ hi = .unb
    · simp only [c1, and_self, if_true, Tree.mapV]
    simp only [c1, if_false]
    rw [createNodeB_map hf]
theorem Edges.simplifyPyE_map (pv : νr) (lo hi : Bnd α) : ∀ (es : Edges νr νb α),
    (es.mapV f).simplifyPyE pv (lo.map f) (hi.map f) = mapL f (es.simplifyPyE pv lo hi)
  | .nil => rfl
  | .cons iv t rest => by
    simp only [Edges.mapV, Edges.simplifyPyE, Tree.simplifyPy_map pv lo hi t,
      Edges.simplifyPyE_map pv lo hi rest]
    rfl
end

mutual
/-- `complexify` commutes with relabelling along an order embedding -/
theorem Tree.complexifyPy_map (pv : νr) (lo hi : Bnd α) : ∀ (t : Tree νr νb α),
    (t.mapV f).complexifyPy pv (lo.map f) (hi.map f) = (t.complexifyPy pv lo hi).mapV f
  | .leaf false => rfl
  | .leaf true => by
    simp only [Tree.mapV, Tree.complexifyPy, unb_cond_map hf, valid_pair_map hf, pyNode_map hf,
      Bool.true_eq_false, if_false]
    by_cases c1 : lo = .unb ∧ hi = .unb
    · simp only [c1, and_self, if_true]; rfl
    simp only [c1, if_false]
    by_cases c3 : (Ivl.mk lo hi).valid = true
    · simp only [c3, if_true]
    · simp only [c3, if_false]; rfl
  | .rng v es => by
    simp only [Tree.mapV, Tree.complexifyPy, unb_cond_map hf, valid_pair_map hf, Edges.toList_mapV,
      Edges.complexifyPyE_map pv lo hi es, pyNode_map hf]
    by_cases c1 : lo = .unb ∧ hi = .unb
    · simp only [c1, and_self, if_true, Tree.mapV]
    simp only [c1, if_false]
    by_cases c3 : (Ivl.mk lo hi).valid = true
    · simp only [c3, not_true_eq_false, if_false]
      by_cases c2 : v = pv
      · simp only [c2, if_true]
        rw [complexifyEdges_map hf, createNodeR_map hf]
      · simp only [c2, if_false]
        by_cases c4 : pv < v
        · simp only [c4, if_true]
          have := Tree.and_map hf (Tree.rng v es) (createNodeR pv (fromRange [⟨lo, hi⟩]))
          simp only [Tree.mapV] at this
          exact this
        · simp only [c4, if_false]
          rw [coalesce_map hf, createNodeR_map hf]
    · simp only [c3, not_false_eq_true, if_true]; rfl
  | .bool v h l => by
    simp only [Tree.mapV, Tree.complexifyPy, unb_cond_map hf, valid_pair_map hf, pyNode_map hf]
    by_cases c1 : lo = .unb ∧ hi = .unb
    · simp only [c1, and_self, if_true, Tree.mapV]
    simp only [c1, if_false]
    by_cases c3 : (Ivl.mk lo hi).valid = true
    · simp only [c3, not_true_eq_false, if_false]
      have := Tree.and_map hf (Tree.bool v h l) (createNodeR pv (fromRange [⟨lo, hi⟩]))
      simp only [Tree.mapV] at this
      exact this
    · simp only [c3, not_false_eq_true, if_true]; rfl
theorem Edges.complexifyPyE_map (pv : νr) (lo hi : Bnd α) : ∀ (es : Edges νr νb α),
    (es.mapV f).complexifyPyE pv (lo.map f) (hi.map f) = mapL f (es.complexifyPyE pv lo hi)
  | .nil => rfl
  | .cons iv t rest => by
    simp only [Edges.mapV, Edges.complexifyPyE, Tree.complexifyPy_map pv lo hi t,
      Edges.complexifyPyE_map pv lo hi rest]
    rfl
end

theorem pyRangeMarker_map (pv : νr) (lo hi : Bnd α) :
    (C12.pyRangeMarker pv (lo.map f) (hi.map f) : Tree νr νb β) =
      (C12.pyRangeMarker pv lo hi : Tree νr νb α).mapV f := by
  unfold C12.pyRangeMarker rangeNode
  simp only [unb_cond_map hf, valid_pair_map hf, pyNode_map hf]
  by_cases c1 : lo = .unb ∧ hi = .unb
  · simp only [c1, and_self, if_true]; rfl
  simp only [c1, if_false]
  split <;> rfl

end PyMap

/-! ## the dense completion `α × ℚ` (lexicographic) -/

/-- a pair `(a, q)`, ordered lexicographically: a dense linear order without end points into which
    `α` embeds by `a ↦ (a, 0)` -/
structure Dn (α : Type) where
  a : α
  q : Rat

instance [DecidableEq α] : DecidableEq (Dn α) := fun x y =>
  if h : x.a = y.a ∧ x.q = y.q then
    isTrue (by cases x; cases y; simp only at h; rw [h.1, h.2])
  else isFalse (fun e => h (by rw [e]; exact ⟨rfl, rfl⟩))

def Dn.lt (x y : Dn α) : Prop := x.a < y.a ∨ (x.a = y.a ∧ x.q < y.q)

instance : LT (Dn α) := ⟨Dn.lt⟩
instance : LE (Dn α) := ⟨fun x y => ¬ y < x⟩
instance : DecidableLT (Dn α) := fun x y =>
  inferInstanceAs (Decidable (x.a < y.a ∨ (x.a = y.a ∧ x.q < y.q)))

theorem Dn.lt_iff (x y : Dn α) : x < y ↔ (x.a < y.a ∨ (x.a = y.a ∧ x.q < y.q)) := Iff.rfl
theorem Dn.le_iff (x y : Dn α) : x ≤ y ↔ ¬ y < x := Iff.rfl

theorem Dn.lt_irrefl (x : Dn α) : ¬ x < x := by
  rw [Dn.lt_iff]; grind

theorem Dn.lt_trans (x y z : Dn α) : x < y → y < z → x < z := by
  simp only [Dn.lt_iff]; grind

theorem Dn.lt_tri (x y : Dn α) : ¬ x < y → ¬ y < x → x = y := by
  obtain ⟨a, q⟩ := x
  obtain ⟨b, r⟩ := y
  simp only [Dn.lt_iff, Dn.mk.injEq]
  grind

instance : Std.IsLinearOrder (Dn α) :=
  isLinearOrder_of_lt Dn.le_iff Dn.lt_irrefl Dn.lt_trans Dn.lt_tri
instance : Std.LawfulOrderLT (Dn α) := lawfulOrderLT_of_lt Dn.le_iff Dn.lt_irrefl Dn.lt_trans

instance : DenseUnbounded (Dn α) where
  dense x y h := by
    rw [Dn.lt_iff] at h
    rcases h with h | ⟨h1, h2⟩
    · exact ⟨⟨x.a, x.q + 1⟩, by rw [Dn.lt_iff]; right; exact ⟨rfl, by grind⟩,
        by rw [Dn.lt_iff]; left; exact h⟩
    · exact ⟨⟨x.a, (x.q + y.q) / 2⟩, by rw [Dn.lt_iff]; right; exact ⟨rfl, by grind⟩,
        by rw [Dn.lt_iff]; right; exact ⟨h1, by grind⟩⟩
  no_min x := ⟨⟨x.a, x.q - 1⟩, by rw [Dn.lt_iff]; right; exact ⟨rfl, by grind⟩⟩
  no_max x := ⟨⟨x.a, x.q + 1⟩, by rw [Dn.lt_iff]; right; exact ⟨rfl, by grind⟩⟩

instance [Inhabited α] : Inhabited (Dn α) := ⟨⟨default, 0⟩⟩

/-- the embedding `a ↦ (a, 0)` -/
def Dn.emb (a : α) : Dn α := ⟨a, 0⟩

theorem Dn.emb_ordEmb : OrdEmb (Dn.emb : α → Dn α) := by
  constructor
  intro x y
  rw [Dn.lt_iff]
  simp only [Dn.emb]
  constructor
  · rintro (h | ⟨_, h⟩)
    · exact h
    · exact absurd h (by grind)
  · exact Or.inl

/-! ## the transfer principle, and the four unconditional identities -/

/-- an identity between diagrams holds as soon as it holds after relabelling into `Dn α` -/
theorem transfer (x y : Tree νr νb α)
    (h : x.mapV (Dn.emb : α → Dn α) = y.mapV Dn.emb) : x = y :=
  Tree.mapV_inj Dn.emb_ordEmb x y h

/-- over an empty value type every bound is `-∞` / `+∞` -/
theorem Bnd.eq_unb_of_empty (h : ¬ Nonempty α) (b : Bnd α) : b = .unb := by
  cases b with
  | unb => rfl
  | incl v => exact absurd ⟨v⟩ h
  | excl v => exact absurd ⟨v⟩ h

/-- the unbounded pair: nothing to do -/
theorem complexifyPy_unb (pv : νr) (t : Tree νr νb α) : t.complexifyPy pv .unb .unb = t := by
  cases t with
  | leaf b => cases b <;> simp [Tree.complexifyPy]
  | rng v es => simp [Tree.complexifyPy]
  | bool v h l => simp [Tree.complexifyPy]

theorem pyRangeMarker_unb (pv : νr) : (C12.pyRangeMarker pv .unb .unb : Tree νr νb α) = .leaf true := by
  simp [C12.pyRangeMarker]

/-- **`complexify(m, R)` IS `m and python_full_version in R`** — over EVERY linear order, for every
    well-formed `m` and every pair of bounds -/
theorem complexifyPy_eq_and_all (pv : νr) (lo hi : Bnd α) (m : Tree νr νb α)
    (hm : m.wf = true) : m.complexifyPy pv lo hi = Tree.and m (C12.pyRangeMarker pv lo hi) := by
  by_cases hne : Nonempty α
  · obtain ⟨d⟩ := hne
    haveI : Inhabited α := ⟨d⟩
    apply transfer
    have e := Dn.emb_ordEmb (α := α)
    rw [← Tree.complexifyPy_map e, ← Tree.and_map e, ← pyRangeMarker_map e]
    exact C12.complexify_eq_and pv _ _ _ (by rw [Tree.wf_map e]; exact hm)
  · rw [Bnd.eq_unb_of_empty hne lo, Bnd.eq_unb_of_empty hne hi, complexifyPy_unb, pyRangeMarker_unb,
      C02.and_true_right]

/-- **`complexify(simplify(m, R), R) = complexify(m, R)`** — over every linear order -/
theorem complexifyPy_simplifyPy_all (pv : νr) (lo hi : Bnd α) (m : Tree νr νb α)
    (hm : m.wf = true) :
    (m.simplifyPy pv lo hi).complexifyPy pv lo hi = m.complexifyPy pv lo hi := by
  by_cases hne : Nonempty α
  · obtain ⟨d⟩ := hne
    haveI : Inhabited α := ⟨d⟩
    apply transfer
    have e := Dn.emb_ordEmb (α := α)
    rw [← Tree.complexifyPy_map e, ← Tree.complexifyPy_map e, ← Tree.simplifyPy_map e]
    exact C12.complexify_simplify pv _ _ _ (by rw [Tree.wf_map e]; exact hm)
  · rw [Bnd.eq_unb_of_empty hne lo, Bnd.eq_unb_of_empty hne hi, simplifyPy_unb]

/-- **`simplify(complexify(m, R), R) = simplify(m, R)`** for valid `R` — over every linear order -/
theorem simplifyPy_complexifyPy_all (pv : νr) (lo hi : Bnd α)
    (hv : (Ivl.mk lo hi).valid = true) (m : Tree νr νb α) (hm : m.wf = true) :
    (m.complexifyPy pv lo hi).simplifyPy pv lo hi = m.simplifyPy pv lo hi := by
  by_cases hne : Nonempty α
  · obtain ⟨d⟩ := hne
    haveI : Inhabited α := ⟨d⟩
    apply transfer
    have e := Dn.emb_ordEmb (α := α)
    rw [← Tree.simplifyPy_map e, ← Tree.simplifyPy_map e, ← Tree.complexifyPy_map e]
    exact simplifyPy_complexifyPy pv _ _ (by rw [valid_pair_map e]; exact hv) _
      (by rw [Tree.wf_map e]; exact hm)
  · rw [Bnd.eq_unb_of_empty hne lo, Bnd.eq_unb_of_empty hne hi, complexifyPy_unb]

/-- **`simplify` is idempotent** for every pair of bounds — over every linear order -/
theorem simplifyPy_idem_uncond (pv : νr) (lo hi : Bnd α) (m : Tree νr νb α)
    (hm : m.wf = true) :
    (m.simplifyPy pv lo hi).simplifyPy pv lo hi = m.simplifyPy pv lo hi := by
  by_cases hne : Nonempty α
  · obtain ⟨d⟩ := hne
    haveI : Inhabited α := ⟨d⟩
    apply transfer
    have e := Dn.emb_ordEmb (α := α)
    rw [← Tree.simplifyPy_map e, ← Tree.simplifyPy_map e]
    exact simplifyPy_idem_all pv _ _ _ (by rw [Tree.wf_map e]; exact hm)
  · rw [Bnd.eq_unb_of_empty hne lo, Bnd.eq_unb_of_empty hne hi, simplifyPy_unb, simplifyPy_unb]

/-- the same principle gives the algebraic laws of `and` as identities of diagrams over every linear
    order, e.g. commutativity (C03 `and_comm_of_wf` assumed a dense order) -/
theorem and_comm_all [Inhabited α] (x y : Tree νr νb α) (hx : x.wf = true) (hy : y.wf = true) :
    Tree.and x y = Tree.and y x := by
  apply transfer
  have e := Dn.emb_ordEmb (α := α)
  rw [← Tree.and_map e, ← Tree.and_map e]
  have hx' : (x.mapV (Dn.emb : α → Dn α)).wf = true := by rw [Tree.wf_map e]; exact hx
  have hy' : (y.mapV (Dn.emb : α → Dn α)).wf = true := by rw [Tree.wf_map e]; exact hy
  apply canonical _ _ (wf_and _ _ hx' hy') (wf_and _ _ hy' hx')
  intro ρ
  rw [C02.eval_and_of_wf ρ _ _ hx' hy', C02.eval_and_of_wf ρ _ _ hy' hx', Bool.and_comm]

end Pep508
