/-
Evaluation-level theorems for the unary operations of `Pep508.Model.Algebra`
(`restrict`, `evalExtras`, `isDisjoint`, `simplifyPy`, `complexifyPy`).

* `Pep508.Proofs.UnaryRestrict` — A (`eval_restrict`, `OK_restrict`, `restrict_mentionsB`) and
  B (`evalExtras_sound`)
* `Pep508.Proofs.UnaryDisjoint` — C (`isDisjointF_sound`, `isDisjointF_comm`, `isDisjointF_iff_andF`)
* `Pep508.Proofs.UnaryPy`       — D (`eval_complexifyPy`, `eval_simplifyPy`)
-/
import Pep508.Proofs.UnaryRestrict
import Pep508.Proofs.UnaryDisjoint
import Pep508.Proofs.UnaryPy
namespace Pep508.UnaryExamples
open Pep508

/-! non-vacuity: concrete well-formed operands over `Nat` values and variables -/

/-- `v0 < 5`  -/
def exA : Tree Nat Nat Nat :=
  .rng 0 (.cons ⟨.unb, .excl 5⟩ (.leaf true) (.cons ⟨.incl 5, .unb⟩ (.leaf false) .nil))
/-- `v0 >= 3 and b1` -/
def exB : Tree Nat Nat Nat :=
  .rng 0 (.cons ⟨.unb, .excl 3⟩ (.leaf false)
    (.cons ⟨.incl 3, .unb⟩ (.bool 1 (.leaf true) (.leaf false)) .nil))
/-- `v0 >= 7` -/
def exC : Tree Nat Nat Nat :=
  .rng 0 (.cons ⟨.unb, .excl 7⟩ (.leaf false) (.cons ⟨.incl 7, .unb⟩ (.leaf true) .nil))

example : exA.wf = true ∧ exB.wf = true ∧ exC.wf = true := by decide
example : Tree.isDisjoint exA exC = true ∧ Tree.isDisjoint exA exB = false := by decide
example : exB.restrict (fun v => if v = 1 then some true else none) =
    .rng 0 (.cons ⟨.unb, .excl 3⟩ (.leaf false) (.cons ⟨.incl 3, .unb⟩ (.leaf true) .nil)) := by
  decide
/-- requires-python `>= 4` (variable 0 plays `python_full_version`) -/
example : exA.complexifyPy 0 (.incl 4) .unb =
    .rng 0 (.cons ⟨.unb, .excl 4⟩ (.leaf false) (.cons ⟨.incl 4, .excl 5⟩ (.leaf true)
      (.cons ⟨.incl 5, .unb⟩ (.leaf false) .nil))) := by decide
example : (exA.complexifyPy 0 (.incl 4) .unb).simplifyPy 0 (.incl 4) .unb = exA := by decide
example : exB.evalExtras (fun v => if v = 1 then some false else none) = false := by decide

end Pep508.UnaryExamples

open Pep508 in
#print axioms eval_restrict
open Pep508 in
#print axioms OK_restrict
open Pep508 in
#print axioms restrict_mentionsB
open Pep508 in
#print axioms Tree.eval_of_not_mentionsB
open Pep508 in
#print axioms evalExtras_sound
open Pep508 in
#print axioms isDisjointF_sound
open Pep508 in
#print axioms isDisjoint_sound
open Pep508 in
#print axioms isDisjointF_comm
open Pep508 in
#print axioms isDisjoint_comm
open Pep508 in
#print axioms isDisjointF_iff_andF
open Pep508 in
#print axioms isDisjoint_iff_and
open Pep508 in
#print axioms eval_complexifyEdges
open Pep508 in
#print axioms eval_simplifyEdges
open Pep508 in
#print axioms eval_complexifyPy
open Pep508 in
#print axioms eval_simplifyPy
