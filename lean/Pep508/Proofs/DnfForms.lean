/-
Shapes of the terms `to_dnf` emits (used by the text-level round trip, C05b): only version
comparisons with `== != < <= > >=` (possibly starred) on a non-empty printed release, string
comparisons / containment tests and extras — never `===`, `~=` or version `in` lists.
`simplify` only deletes terms and clauses, so every predicate on terms survives it.
-/
import Pep508.Proofs.DnfCollect
namespace Pep508

/-- every term of the DNF satisfies `P` -/
def AllT (P : MExpr → Prop) (d : List (List MExpr)) : Prop := ∀ c ∈ d, ∀ t ∈ c, P t

theorem AllT_set (P : MExpr → Prop) (dnf : List (List MExpr)) (i : Nat) (clause : List MExpr)
    (red : List Nat) (hi : dnf[i]? = some clause) (hok : AllT P dnf) :
    AllT P (dnf.set i (removeIdxs clause red)) := by
  intro c hc t ht
  rcases List.mem_or_eq_of_mem_set hc with h | h
  · exact hok c h t ht
  · subst h
    exact hok clause (List.mem_of_getElem? hi) t (mem_of_mem_removeIdxs _ _ _ ht)

theorem simplifyTerms_pred (P : MExpr → Prop) :
    ∀ (fuel i : Nat) (dnf : List (List MExpr)), AllT P dnf → AllT P (simplifyTerms fuel i dnf)
  | 0, _, dnf, hok => hok
  | fuel + 1, i, dnf, hok => by
    unfold simplifyTerms
    cases hi : dnf[i]? with
    | none => exact hok
    | some clause =>
      simp only
      exact simplifyTerms_pred P fuel (i + 1) _ (AllT_set P dnf i clause _ hi hok)

/-- `simplify` only deletes: a predicate on terms survives -/
theorem simplifyDnf_pred (P : MExpr → Prop) (d : List (List MExpr)) (h : AllT P d) :
    AllT P (simplifyDnf d) := by
  have h1 := simplifyTerms_pred P (d.length + 1) 0 d h
  unfold simplifyDnf
  simp only
  generalize simplifyTerms (d.length + 1) 0 d = d1 at h1
  intro c hc t ht
  simp only [List.mem_map, List.mem_filter] at hc
  obtain ⟨⟨c', j⟩, ⟨hm, _⟩, rfl⟩ := hc
  exact h1 c' (List.mem_of_getElem? (List.mem_zipIdx_iff_getElem?.1 hm)) t ht

/-- the version terms `to_dnf` can emit -/
def VForm : MExpr → Prop
  | .version _ s => s.op ≠ .exactEq ∧ s.op ≠ .tilde ∧ s.rel ≠ []
  | .versionIn _ _ _ => False
  | _ => True

theorem starRangeInequality_form (spell : Spell) (r : Ranges Val) (s : Spec)
    (h : starRangeInequality spell r = some s) : s.op = .neStar ∧ s.rel ≠ [] := by
  unfold starRangeInequality at h
  split at h
  · split at h
    · split at h
      · cases h; exact ⟨rfl, by simp⟩
      · cases h
    · cases h
  · cases h

theorem specsOfBounds_form (spell : Spell) (hsp : ∀ v, spell v ≠ []) (iv : Ivl Val) :
    ∀ s ∈ specsOfBounds spell iv, s.op ≠ .exactEq ∧ s.op ≠ .tilde ∧ s.rel ≠ [] := by
  intro s hs
  obtain ⟨lo, hi⟩ := iv
  unfold specsOfBounds at hs
  simp only at hs
  split at hs
  · rename_i l heq
    split at heq
    · split at heq
      · cases heq; simp at hs; subst hs; exact ⟨by simp, by simp, hsp _⟩
      · cases heq
    · split at heq
      · split at heq
        · cases heq; simp at hs; subst hs; exact ⟨by simp, by simp, by simp⟩
        · cases heq
      · cases heq
    · cases heq
  · simp only [List.mem_append] at hs
    rcases hs with hs | hs
    · cases lo <;> simp at hs <;> subst hs <;> exact ⟨by simp, by simp, hsp _⟩
    · cases hi <;> simp at hs <;> subst hs <;> exact ⟨by simp, by simp, hsp _⟩

theorem rangeTerms_form (spell : Spell) (hsp : ∀ v, spell v ≠ []) (v : VarR) (r : Ranges Val) :
    ∀ terms ∈ rangeTerms spell v r, ∀ t ∈ terms, VForm t := by
  intro terms hterms t ht
  cases v with
  | ver k =>
    simp only [rangeTerms] at hterms
    split at hterms
    · simp only [List.mem_singleton] at hterms
      subst hterms
      simp only [List.mem_map] at ht
      obtain ⟨x, _, rfl⟩ := ht
      exact ⟨by simp, by simp, hsp _⟩
    · split at hterms
      · rename_i s hs
        simp only [List.mem_singleton] at hterms
        subst hterms
        simp only [List.mem_singleton] at ht
        subst ht
        have := starRangeInequality_form spell r s hs
        exact ⟨by simp [this.1], by simp [this.1], this.2⟩
      · simp only [List.mem_map] at hterms
        obtain ⟨seg, _, rfl⟩ := hterms
        simp only [List.mem_map] at ht
        obtain ⟨x, hx, rfl⟩ := ht
        exact specsOfBounds_form spell hsp seg x hx
  | str k =>
    suffices h : ∃ op w, t = .string k op w by
      obtain ⟨op, w, rfl⟩ := h; trivial
    simp only [rangeTerms] at hterms
    split at hterms
    · simp only [List.mem_singleton] at hterms
      subst hterms
      simp only [List.mem_map] at ht
      obtain ⟨x, _, rfl⟩ := ht
      exact ⟨_, _, rfl⟩
    · simp only [List.mem_map] at hterms
      obtain ⟨seg, _, rfl⟩ := hterms
      simp only [List.mem_map] at ht
      obtain ⟨x, _, rfl⟩ := ht
      exact ⟨_, _, rfl⟩

theorem boolTerm_form (v : VarB) (b : Bool) : VForm (boolTerm v b) := by
  cases v <;> trivial

theorem collectDnf_form (spell : Spell) (hsp : ∀ v, spell v ≠ []) :
    ∀ (fuel : Nat) (t : MTree) (path : List MExpr), (∀ t' ∈ path, VForm t') →
      AllT VForm (collectDnf spell fuel t path)
  | 0, _, _, _ => by simp [collectDnf, AllT]
  | fuel + 1, .leaf false, path, _ => by simp [collectDnf, AllT]
  | fuel + 1, .leaf true, path, hp => by
    simp only [collectDnf]
    split
    · simp [AllT]
    · intro c hc
      simp only [List.mem_singleton] at hc
      subst hc; exact hp
  | fuel + 1, .bool v h l, path, hp => by
    simp only [collectDnf]
    intro c hc
    simp only [List.mem_append] at hc
    have hpath : ∀ b, ∀ t' ∈ path ++ [boolTerm v b], VForm t' := by
      intro b t' ht'
      simp only [List.mem_append, List.mem_singleton] at ht'
      rcases ht' with h | rfl
      · exact hp t' h
      · exact boolTerm_form v b
    rcases hc with hc | hc
    · exact collectDnf_form spell hsp fuel h _ (hpath true) c hc
    · exact collectDnf_form spell hsp fuel l _ (hpath false) c hc
  | fuel + 1, .rng v es, path, hp => by
    simp only [collectDnf]
    intro c hc
    simp only [List.mem_flatMap] at hc
    obtain ⟨p, _, terms, hterms, hc⟩ := hc
    refine collectDnf_form spell hsp fuel p.1 _ ?_ c hc
    intro t' ht'
    simp only [List.mem_append] at ht'
    rcases ht' with h | h
    · exact hp t' h
    · exact rangeTerms_form spell hsp v p.2 terms hterms t' h

/-- every term of `to_dnf` has a printable, re-parsable shape -/
theorem toDnf_form (spell : Spell) (hsp : ∀ v, spell v ≠ []) (t : MTree) :
    AllT VForm (toDnf spell t) :=
  simplifyDnf_pred VForm _ (collectDnf_form spell hsp _ t [] (by simp))

/-- no clause collected from the diagram is empty (clauses can only become empty in `simplify`) -/
theorem collectDnf_clause_ne_nil (spell : Spell) :
    ∀ (fuel : Nat) (t : MTree) (path : List MExpr), ∀ c ∈ collectDnf spell fuel t path, c ≠ []
  | 0, _, _ => by simp [collectDnf]
  | fuel + 1, .leaf false, path => by simp [collectDnf]
  | fuel + 1, .leaf true, path => by
    simp only [collectDnf]
    split
    · simp
    · rename_i h
      intro c hc
      simp only [List.mem_singleton] at hc
      subst hc
      simpa using h
  | fuel + 1, .bool v h l, path => by
    simp only [collectDnf]
    intro c hc
    simp only [List.mem_append] at hc
    rcases hc with hc | hc
    · exact collectDnf_clause_ne_nil spell fuel h _ c hc
    · exact collectDnf_clause_ne_nil spell fuel l _ c hc
  | fuel + 1, .rng v es, path => by
    simp only [collectDnf]
    intro c hc
    simp only [List.mem_flatMap] at hc
    obtain ⟨p, _, terms, _, hc⟩ := hc
    exact collectDnf_clause_ne_nil spell fuel p.1 _ c hc


/-! ### the keys and values of the terms come from the diagram -/

mutual
/-- `PK` holds for every string key labelling a range node, `PS` for every string bound of such a
node, `PB` for every boolean variable of the diagram -/
def DiagAll (PK : SKey → Prop) (PS : String → Prop) (PB : VarB → Prop) : MTree → Prop
  | .leaf _ => True
  | .rng v es => (∀ k, v = .str k → PK k) ∧ EdgesAll PK PS PB v es
  | .bool v h l => PB v ∧ DiagAll PK PS PB h ∧ DiagAll PK PS PB l
def EdgesAll (PK : SKey → Prop) (PS : String → Prop) (PB : VarB → Prop) (v : VarR) :
    Edges VarR VarB Val → Prop
  | .nil => True
  | .cons iv t rest => ((∃ k, v = .str k) → Ivl.Kind (fun x => PS x.strOf) iv) ∧
      DiagAll PK PS PB t ∧ EdgesAll PK PS PB v rest
end

theorem EdgesAll_iff (PK : SKey → Prop) (PS : String → Prop) (PB : VarB → Prop) (v : VarR) :
    ∀ (es : Edges VarR VarB Val), EdgesAll PK PS PB v es ↔
      ∀ e ∈ es.toList, ((∃ k, v = .str k) → Ivl.Kind (fun x => PS x.strOf) e.1) ∧ DiagAll PK PS PB e.2
  | .nil => by simp [EdgesAll, Edges.toList]
  | .cons iv t rest => by
    have ih := EdgesAll_iff PK PS PB v rest
    simp only [EdgesAll, Edges.toList, List.mem_cons, ih]
    constructor
    · rintro ⟨h1, h2, h3⟩ e (rfl | he)
      · exact ⟨h1, h2⟩
      · exact h3 e he
    · intro h
      exact ⟨(h (iv, t) (Or.inl rfl)).1, (h (iv, t) (Or.inl rfl)).2, fun e he => h e (Or.inr he)⟩

theorem strOpsOfBounds_vals (PS : String → Prop) (seg : Ivl Val)
    (hk : Ivl.Kind (fun x => PS x.strOf) seg) : ∀ q ∈ strOpsOfBounds seg, PS q.2 := by
  intro q hq
  obtain ⟨lo, hi⟩ := seg
  obtain ⟨h1, h2⟩ := hk
  unfold strOpsOfBounds at hq
  simp only at hq
  split at hq
  · rename_i l heq
    split at heq
    · split at heq
      · cases heq; simp at hq; subst hq; exact h1
      · cases heq
    · split at heq
      · cases heq; simp at hq; subst hq; exact h1
      · cases heq
    · cases heq
  · simp only [List.mem_append] at hq
    rcases hq with hq | hq
    · cases lo <;> simp at hq <;> subst hq <;> exact h1
    · cases hi <;> simp at hq <;> subst hq <;> exact h2

theorem rangeTerms_str_vals (spell : Spell) (PS : String → Prop) (Q : MExpr → Prop) (k : SKey)
    (hstr : ∀ op s, PS s → Q (.string k op s)) (r : Ranges Val) (hn : r.Norm)
    (hk : ∀ s ∈ r, Ivl.Kind (fun x => PS x.strOf) s) :
    ∀ terms ∈ rangeTerms spell (.str k) r, ∀ t ∈ terms, Q t := by
  intro terms hterms t ht
  simp only [rangeTerms] at hterms
  split at hterms
  · rename_i ex hex
    simp only [List.mem_singleton] at hterms
    subst hterms
    simp only [List.mem_map] at ht
    obtain ⟨x, hx, rfl⟩ := ht
    exact hstr _ _ ((rangeInequality_spec (fun x => PS x.strOf) r ex hex hn hk (.ver [])).2 x hx)
  · simp only [List.mem_map] at hterms
    obtain ⟨seg, hseg, rfl⟩ := hterms
    simp only [List.mem_map] at ht
    obtain ⟨q, hq, rfl⟩ := ht
    exact hstr _ _ (strOpsOfBounds_vals PS seg (hk seg hseg) q hq)

/-- every term of the collected DNF satisfies `Q`, when `Q` holds for all version terms, for the
string terms over the keys / bounds of the diagram and for the terms of its boolean variables -/
theorem collectDnf_vals (spell : Spell) (PK : SKey → Prop) (PS : String → Prop) (PB : VarB → Prop)
    (Q : MExpr → Prop) (hver : ∀ k s, Q (.version k s))
    (hstr : ∀ k op s, PK k → PS s → Q (.string k op s))
    (hbool : ∀ v b, PB v → Q (boolTerm v b)) :
    ∀ (fuel : Nat) (t : MTree) (path : List MExpr), t.wf = true → DiagAll PK PS PB t →
      (∀ t' ∈ path, Q t') → AllT Q (collectDnf spell fuel t path)
  | 0, _, _, _, _, _ => by simp [collectDnf, AllT]
  | fuel + 1, .leaf false, path, _, _, _ => by simp [collectDnf, AllT]
  | fuel + 1, .leaf true, path, _, _, hp => by
    simp only [collectDnf]
    split
    · simp [AllT]
    · intro c hc
      simp only [List.mem_singleton] at hc
      subst hc; exact hp
  | fuel + 1, .bool v h l, path, hwf, hd, hp => by
    simp only [Tree.wf, Bool.and_eq_true] at hwf
    obtain ⟨⟨⟨⟨_, hwh⟩, hwl⟩, _⟩, _⟩ := hwf
    obtain ⟨hv, dh, dl⟩ := hd
    simp only [collectDnf]
    intro c hc
    simp only [List.mem_append] at hc
    have hpath : ∀ b, ∀ t' ∈ path ++ [boolTerm v b], Q t' := by
      intro b t' ht'
      simp only [List.mem_append, List.mem_singleton] at ht'
      rcases ht' with h | rfl
      · exact hp t' h
      · exact hbool v b hv
    rcases hc with hc | hc
    · exact collectDnf_vals spell PK PS PB Q hver hstr hbool fuel h _ hwh dh (hpath true) c hc
    · exact collectDnf_vals spell PK PS PB Q hver hstr hbool fuel l _ hwl dl (hpath false) c hc
  | fuel + 1, .rng v es, path, hwf, hd, hp => by
    obtain ⟨hlen, hpart, hadj, hch⟩ := (Tree.wf_rng_iff v es).1 hwf
    obtain ⟨hv, hdE⟩ := hd
    rw [EdgesAll_iff] at hdE
    have hinv := collectEdges_spec es.toList (Part_valid hpart)
    simp only [collectDnf]
    intro c hc
    simp only [List.mem_flatMap] at hc
    obtain ⟨p, hpm, terms, hterms, hc⟩ := hc
    obtain ⟨e, he, hep⟩ := hinv.child p hpm
    refine collectDnf_vals spell PK PS PB Q hver hstr hbool fuel p.1 _
      (by rw [← hep]; exact (hch e he).1) (by rw [← hep]; exact (hdE e he).2) ?_ c hc
    intro t' ht'
    simp only [List.mem_append] at ht'
    rcases ht' with h | h
    · exact hp t' h
    · cases v with
      | ver k =>
        have : ∃ s, t' = .version k s := by
          simp only [rangeTerms] at hterms
          split at hterms
          · simp only [List.mem_singleton] at hterms
            subst hterms
            simp only [List.mem_map] at h
            obtain ⟨x, _, rfl⟩ := h
            exact ⟨_, rfl⟩
          · split at hterms
            · simp only [List.mem_singleton] at hterms
              subst hterms
              simp only [List.mem_singleton] at h
              exact ⟨_, h⟩
            · simp only [List.mem_map] at hterms
              obtain ⟨seg, _, rfl⟩ := hterms
              simp only [List.mem_map] at h
              obtain ⟨x, _, rfl⟩ := h
              exact ⟨_, rfl⟩
        obtain ⟨s, rfl⟩ := this
        exact hver k s
      | str k =>
        have hkind := collectEdges_kind (fun x => PS x.strOf) es.toList
          (fun e he => (hdE e he).1 ⟨k, rfl⟩)
        exact rangeTerms_str_vals spell PS Q k (fun op s hs => hstr k op s (hv k rfl) hs) p.2
          (hinv.norm p hpm) (hkind p hpm) terms hterms t' h

theorem toDnf_vals (spell : Spell) (PK : SKey → Prop) (PS : String → Prop) (PB : VarB → Prop)
    (Q : MExpr → Prop) (hver : ∀ k s, Q (.version k s))
    (hstr : ∀ k op s, PK k → PS s → Q (.string k op s))
    (hbool : ∀ v b, PB v → Q (boolTerm v b)) (t : MTree) (hwf : t.wf = true)
    (hd : DiagAll PK PS PB t) : AllT Q (toDnf spell t) :=
  simplifyDnf_pred Q _ (collectDnf_vals spell PK PS PB Q hver hstr hbool _ t [] hwf hd (by simp))

end Pep508
