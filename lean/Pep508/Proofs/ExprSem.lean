/-
`expression` (the model of `InternerGuard::expression`) means what the PEP 440 specification
(`Proofs/ExprSpec.lean`) says.
-/
import Pep508.Proofs.ValOrder
import Pep508.Proofs.RangesSem
import Pep508.Proofs.ExprSpec
set_option linter.unusedSectionVars false
namespace Pep508
open Spec

/-! ### trailing zeros and the PEP 440 comparison -/

theorem stripZeros_nil : stripZeros [] = [] := rfl

theorem stripZeros_cons (a : Nat) (as : List Nat) :
    stripZeros (a :: as) = if a = 0 ∧ stripZeros as = [] then [] else a :: stripZeros as := by
  unfold stripZeros
  rw [List.reverse_cons, List.dropWhile_append]
  by_cases h : (List.dropWhile (· == 0) as.reverse).isEmpty = true
  · have h' : List.dropWhile (· == 0) as.reverse = [] := by simpa using h
    simp only [h', List.reverse_nil, List.isEmpty_nil, if_true]
    by_cases ha : a = 0
    · simp [ha, List.dropWhile]
    · have : (a == 0) = false := by simpa using ha
      simp [ha, List.dropWhile, this]
  · have h' : List.dropWhile (· == 0) as.reverse ≠ [] := by simpa using h
    simp [h, h']

/-- plain lexicographic comparison (a proper prefix is smaller) -/
def cmpN : List Nat → List Nat → Ordering
  | [], [] => .eq
  | [], _ :: _ => .lt
  | _ :: _, [] => .gt
  | a :: as, b :: bs => if a < b then .lt else if b < a then .gt else cmpN as bs

theorem cmpRel_eq_cmpN : ∀ a b, cmpRel a b = cmpN (stripZeros a) (stripZeros b)
  | [], [] => by simp [cmpRel, stripZeros_nil, cmpN]
  | [], b :: bs => by
    have ih := cmpRel_eq_cmpN [] bs
    simp only [cmpRel, stripZeros_cons, stripZeros_nil] at *
    cases h : stripZeros bs <;> by_cases hb : b = 0 <;> simp_all [cmpN]
  | a :: as, [] => by
    have ih := cmpRel_eq_cmpN as []
    simp only [cmpRel, stripZeros_cons, stripZeros_nil] at *
    cases h : stripZeros as <;> by_cases ha : a = 0 <;> simp_all [cmpN]
  | a :: as, b :: bs => by
    have ih := cmpRel_eq_cmpN as bs
    simp only [cmpRel, stripZeros_cons]
    cases h1 : stripZeros as <;> cases h2 : stripZeros bs <;>
      by_cases ha : a = 0 <;> by_cases hb : b = 0 <;> simp_all [cmpN] <;> grind

theorem verLt_eq_cmpN : ∀ x y, verLt x y = (cmpN x y == .lt)
  | [], [] => rfl
  | [], _ :: _ => rfl
  | _ :: _, [] => rfl
  | a :: as, b :: bs => by
    have ih := verLt_eq_cmpN as bs
    simp only [verLt, cmpN]; grind

theorem verLt_eq_cmpN_gt : ∀ x y, verLt y x = (cmpN x y == .gt)
  | [], [] => rfl
  | [], _ :: _ => rfl
  | _ :: _, [] => rfl
  | a :: as, b :: bs => by
    have ih := verLt_eq_cmpN_gt as bs
    simp only [verLt, cmpN]; grind

theorem eq_iff_cmpN : ∀ x y, x = y ↔ cmpN x y = .eq
  | [], [] => by simp [cmpN]
  | [], _ :: _ => by simp [cmpN]
  | _ :: _, [] => by simp [cmpN]
  | a :: as, b :: bs => by
    have ih := eq_iff_cmpN as bs
    simp only [cmpN, List.cons.injEq]; grind

/-- key lemma: the order on stripped release lists is the PEP 440 comparison -/
theorem verLt_strip (a b : List Nat) :
    verLt (stripZeros a) (stripZeros b) = (cmpRel a b == .lt) := by
  rw [cmpRel_eq_cmpN, verLt_eq_cmpN]

theorem verLt_strip_gt (a b : List Nat) :
    verLt (stripZeros b) (stripZeros a) = (cmpRel a b == .gt) := by
  rw [cmpRel_eq_cmpN, verLt_eq_cmpN_gt]

theorem strip_eq_iff (a b : List Nat) : stripZeros a = stripZeros b ↔ cmpRel a b = .eq := by
  rw [cmpRel_eq_cmpN, eq_iff_cmpN]

/-- the value of a candidate release inside a diagram -/
def candVal (c : List Nat) : Val := .ver (stripZeros c)

theorem candVal_lt (a b : List Nat) : decide (candVal a < candVal b) = (cmpRel a b == .lt) := by
  rw [← verLt_strip]; simp [candVal, Val.lt_ver]

theorem candVal_gt (a b : List Nat) : decide (candVal b < candVal a) = (cmpRel a b == .gt) := by
  rw [← verLt_strip_gt]; simp [candVal, Val.lt_ver]

theorem cmpRel_nil_right_ne_lt : ∀ l, cmpRel l [] ≠ .lt
  | [] => by simp [cmpRel]
  | a :: as => by
    have := cmpRel_nil_right_ne_lt as
    simp only [cmpRel]; split <;> simp_all

theorem cmpRel_nil_left_ne_gt : ∀ l, cmpRel [] l ≠ .gt
  | [] => by simp [cmpRel]
  | a :: as => by
    have := cmpRel_nil_left_ne_gt as
    simp only [cmpRel]; split <;> simp_all

theorem prefixMatch_nil_right_iff : ∀ p, p ≠ [] →
    prefixMatch p [] = (cmpRel [] p != .lt && cmpRel [] (bumpLast p) == .lt)
  | [], h => absurd rfl h
  | [x], _ => by
    simp only [prefixMatch, cmpRel, bumpLast]
    by_cases hx : x = 0 <;> simp [hx]
  | x :: y :: t, _ => by
    have ih := prefixMatch_nil_right_iff (y :: t) (by simp)
    simp only [prefixMatch, cmpRel, bumpLast] at *
    by_cases hx : x = 0 <;> simp [hx, ih]

/-- `== p.*` is the half-open interval `[p, bump p)` -/
theorem prefixMatch_iff : ∀ p c, p ≠ [] →
    prefixMatch p c = (cmpRel c p != .lt && cmpRel c (bumpLast p) == .lt)
  | [], _, h => absurd rfl h
  | p, [], h => prefixMatch_nil_right_iff p h
  | [x], c0 :: cs, _ => by
    have h1 := cmpRel_nil_right_ne_lt cs
    simp only [prefixMatch, cmpRel, bumpLast]
    by_cases h2 : c0 < x
    · have : ¬ x = c0 := by omega
      simp [h2, this]
    · by_cases h3 : x < c0
      · have : ¬ x = c0 := by omega
        have h4 : ¬ c0 < x + 1 := by omega
        have h5 : x + 1 < c0 ∨ x + 1 = c0 := by omega
        rcases h5 with h5 | h5
        · simp [h2, h3, this, h4, h5]
        · subst h5
          cases hh : cmpRel cs [] <;> simp_all
      · have : x = c0 := by omega
        subst this
        cases hh : cmpRel cs [] <;> simp_all
  | x :: y :: t, c0 :: cs, _ => by
    have ih := prefixMatch_iff (y :: t) cs (by simp)
    simp only [prefixMatch, cmpRel, bumpLast] at *
    by_cases h2 : c0 < x
    · have : ¬ x = c0 := by omega
      simp [h2, this]
    · by_cases h3 : x < c0
      · have : ¬ x = c0 := by omega
        simp [h2, h3, this]
      · have : x = c0 := by omega
        subst this
        simp [ih]

theorem cmpRel_dropLast_ne_lt : ∀ l, cmpRel l l.dropLast ≠ .lt
  | [] => by simp [cmpRel]
  | [z] => by simpa using cmpRel_nil_right_ne_lt [z]
  | x :: y :: t => by
    have := cmpRel_dropLast_ne_lt (y :: t)
    simpa [cmpRel, List.dropLast] using this

/-- `≥` is transitive (through the linear order on `Val`) -/
theorem cmpRel_ge_trans (c l d : List Nat) (h1 : cmpRel c l ≠ .lt) (h2 : cmpRel l d ≠ .lt) :
    cmpRel c d ≠ .lt := by
  have e1 := candVal_lt c l
  have e2 := candVal_lt l d
  have e3 := candVal_lt c d
  have n1 : ¬ candVal c < candVal l := by
    intro h; rw [decide_eq_true h] at e1; exact h1 (by simpa using e1.symm)
  have n2 : ¬ candVal l < candVal d := by
    intro h; rw [decide_eq_true h] at e2; exact h2 (by simpa using e2.symm)
  intro h
  rw [h] at e3
  have : candVal c < candVal d := by simpa using e3
  grind

/-! ### basic range sets -/

theorem Ranges.mem_ofBounds {α : Type} [LT α] [LE α] [Std.IsLinearOrder α] [Std.LawfulOrderLT α]
    [DecidableLT α] [DecidableEq α] (lo hi : Bnd α) (x : α) :
    (Ranges.ofBounds lo hi).mem x = (Ivl.mk lo hi).mem x := by
  unfold Ranges.ofBounds
  by_cases hv : (Ivl.mk lo hi).valid = true
  · simp [hv, Ranges.mem]
  · have : (Ivl.mk lo hi).mem x = false := by
      cases hm : (Ivl.mk lo hi).mem x
      · rfl
      · exact absurd (Ivl.valid_of_mem _ x hm) hv
    simp [hv, Ranges.mem, this]

theorem Ranges.norm_ofBounds {α : Type} [LT α] [LE α] [Std.IsLinearOrder α] [Std.LawfulOrderLT α]
    [DecidableLT α] [DecidableEq α] (lo hi : Bnd α) :
    (Ranges.ofBounds lo hi).Norm := by
  unfold Ranges.ofBounds
  by_cases hv : (Ivl.mk lo hi).valid = true
  · simp only [hv, if_true]; exact Ranges.norm_single _ hv
  · simp only [hv]; exact Ranges.norm_nil

theorem Ranges.norm_singleton {α : Type} [LT α] [LE α] [Std.IsLinearOrder α] [Std.LawfulOrderLT α]
    [DecidableLT α] [DecidableEq α] (v : α) : (Ranges.singleton v).Norm := by
  apply Ranges.norm_single
  simp only [Ivl.valid]; grind

theorem Ranges.mem_single {α : Type} [LT α] [DecidableLT α] [DecidableEq α] (s : Ivl α) (x : α) :
    Ranges.mem [s] x = s.mem x := by simp [Ranges.mem]

/-! ### `release_specifier_to_range` -/

theorem norm_releaseSpecToRange (s : Pep508.Spec) : (releaseSpecToRange s).Norm := by
  unfold releaseSpecToRange
  cases s.op <;> simp only
  all_goals first
    | exact Ranges.norm_singleton _
    | exact Ranges.norm_complement _ (Ranges.norm_singleton _)
    | exact Ranges.norm_ofBounds _ _
    | exact Ranges.norm_complement _ (Ranges.norm_ofBounds _ _)
    | exact Ranges.norm_single _ rfl

theorem mem_releaseSpecToRange (s : Pep508.Spec) (c : List Nat) (hw : Spec.wellFormed s) :
    (releaseSpecToRange s).mem (candVal c) = specSem s.op s.rel c := by
  obtain ⟨op, rel⟩ := s
  obtain ⟨hne, htl⟩ := hw
  simp only at hne htl
  have L := candVal_lt c rel
  have G := candVal_gt c rel
  have hv : Val.ver (stripZeros rel) = candVal rel := rfl
  cases op <;> simp only [releaseSpecToRange, specSem, hv]
  case eq | exactEq =>
    simp only [Ranges.singleton, Ranges.mem_single, Ivl.mem, Bnd.loOk, Bnd.hiOk, L, G]
    cases cmpRel c rel <;> rfl
  case ne =>
    rw [Ranges.mem_complement _ (Ranges.norm_singleton _)]
    simp only [Ranges.singleton, Ranges.mem_single, Ivl.mem, Bnd.loOk, Bnd.hiOk, L, G]
    cases cmpRel c rel <;> rfl
  case lt | le | gt | ge =>
    simp only [Ranges.mem_single, Ivl.mem, Bnd.loOk, Bnd.hiOk, L, G]
    cases cmpRel c rel <;> rfl
  case eqStar =>
    have hv2 : Val.ver (stripZeros (bumpLast rel)) = candVal (bumpLast rel) := rfl
    rw [Ranges.mem_ofBounds, prefixMatch_iff rel c hne, hv2]
    simp only [Ivl.mem, Bnd.loOk, Bnd.hiOk, L, candVal_lt]
    cases cmpRel c rel <;> rfl
  case neStar =>
    have hv2 : Val.ver (stripZeros (bumpLast rel)) = candVal (bumpLast rel) := rfl
    rw [Ranges.mem_complement _ (Ranges.norm_ofBounds _ _), Ranges.mem_ofBounds,
      prefixMatch_iff rel c hne, hv2]
    simp only [Ivl.mem, Bnd.loOk, Bnd.hiOk, L, candVal_lt]
    cases cmpRel c rel <;> rfl
  case tilde =>
    have hlen := htl rfl
    have hdl : rel.dropLast ≠ [] := by
      intro h
      have := congrArg List.length h
      simp at this; omega
    have hv2 : Val.ver (stripZeros (bumpLast rel.dropLast)) = candVal (bumpLast rel.dropLast) := rfl
    rw [Ranges.mem_ofBounds, prefixMatch_iff rel.dropLast c hdl, hv2]
    simp only [Ivl.mem, Bnd.loOk, Bnd.hiOk, L, candVal_lt]
    have tr := cmpRel_ge_trans c rel rel.dropLast
    have dl := cmpRel_dropLast_ne_lt rel
    cases h1 : cmpRel c rel <;> cases h2 : cmpRel c rel.dropLast <;>
      cases h3 : cmpRel c (bumpLast rel.dropLast) <;> first | rfl | simp_all

/-! ### `normalize_specifier` -/

theorem lastNonZero_eq (r : List Nat) :
    lastNonZero r = if (stripZeros r).length = 0 then none else some ((stripZeros r).length - 1) := by
  simp [lastNonZero, stripZeros]

theorem strip_take : ∀ (r : List Nat) (m : Nat), (stripZeros r).length ≤ m →
    stripZeros (r.take m) = stripZeros r
  | [], m, _ => by simp
  | a :: as, 0, h => by
    have : stripZeros (a :: as) = [] := List.eq_nil_of_length_eq_zero (by omega)
    simp [this, stripZeros_nil]
  | a :: as, m + 1, h => by
    rw [stripZeros_cons] at h
    have hm : (stripZeros as).length ≤ m := by
      by_cases hc : a = 0 ∧ stripZeros as = []
      · simp [hc.2]
      · simp only [hc, if_false, List.length_cons] at h; omega
    simp only [List.take_succ_cons, stripZeros_cons, strip_take as m hm]

theorem normalizeSpecifier_eq (s : Pep508.Spec) : ∃ keep : Nat, 1 ≤ keep ∧
    (stripZeros s.rel).length ≤ keep + 1 ∧
    normalizeSpecifier s =
      if (s.op.isStar || s.op == .tilde) = true then s
      else if keep < s.rel.length then ⟨s.op, s.rel.take (keep + 1)⟩ else s := by
  refine ⟨match lastNonZero s.rel with
      | some e => if e > 1 then e else 1
      | none => 1, ?_, ?_, rfl⟩
  · split
    · split <;> omega
    · omega
  · rw [lastNonZero_eq]
    by_cases h : (stripZeros s.rel).length = 0
    · simp [h]
    · simp only [h, if_false]
      split <;> omega

theorem normalizeSpecifier_op (s : Pep508.Spec) : (normalizeSpecifier s).op = s.op := by
  obtain ⟨keep, _, _, heq⟩ := normalizeSpecifier_eq s
  rw [heq]
  split
  · rfl
  · split <;> rfl

theorem normalizeSpecifier_strip (s : Pep508.Spec) :
    stripZeros (normalizeSpecifier s).rel = stripZeros s.rel := by
  obtain ⟨keep, _, hk, heq⟩ := normalizeSpecifier_eq s
  rw [heq]
  split
  · rfl
  · split
    · exact strip_take _ _ hk
    · rfl

theorem normalizeSpecifier_of_star_or_tilde (s : Pep508.Spec)
    (h : s.op.isStar = true ∨ s.op = .tilde) : normalizeSpecifier s = s := by
  unfold normalizeSpecifier
  rcases h with h | h <;> simp [h]

theorem normalizeSpecifier_short (s : Pep508.Spec) (h : s.rel.length ≤ 2) :
    normalizeSpecifier s = s := by
  obtain ⟨keep, hk, _, heq⟩ := normalizeSpecifier_eq s
  rw [heq]
  split
  · rfl
  · split
    · rw [List.take_of_length_le (by omega)]
    · rfl

theorem releaseSpecToRange_normalize (s : Pep508.Spec) :
    releaseSpecToRange (normalizeSpecifier s) = releaseSpecToRange s := by
  by_cases h : s.op.isStar = true ∨ s.op = .tilde
  · rw [normalizeSpecifier_of_star_or_tilde s h]
  · have h1 := normalizeSpecifier_op s
    have h2 := normalizeSpecifier_strip s
    generalize normalizeSpecifier s = s' at h1 h2
    obtain ⟨op, rel⟩ := s
    obtain ⟨op', rel'⟩ := s'
    simp only at h1 h2 h
    subst h1
    cases op' <;> simp [Op.isStar] at h <;> simp only [releaseSpecToRange, h2]

theorem cmpRel_congr_strip (c b b' : List Nat) (h : stripZeros b = stripZeros b') :
    cmpRel c b = cmpRel c b' := by
  rw [cmpRel_eq_cmpN, cmpRel_eq_cmpN, h]

/-- the meaning of a specifier is invariant under `normalize_specifier` -/
theorem specSem_normalize (s : Pep508.Spec) (c : List Nat) :
    specSem (normalizeSpecifier s).op (normalizeSpecifier s).rel c = specSem s.op s.rel c := by
  by_cases h : s.op.isStar = true ∨ s.op = .tilde
  · rw [normalizeSpecifier_of_star_or_tilde s h]
  · have h1 := normalizeSpecifier_op s
    have h2 := cmpRel_congr_strip c _ _ (normalizeSpecifier_strip s)
    generalize normalizeSpecifier s = s' at h1 h2
    obtain ⟨op, rel⟩ := s
    obtain ⟨op', rel'⟩ := s'
    simp only at h1 h2 h
    subst h1
    cases op' <;> simp [Op.isStar] at h <;> simp only [specSem, h2]

/-! ### C01: version keys other than `python_version` -/

theorem expression_version_of_ne (k : VKey) (s : Pep508.Spec) (hk : k ≠ .pyVer) :
    expression (.version k s) = rangeNode (.ver k) (releaseSpecToRange (normalizeSpecifier s)) := by
  cases k <;> first | rfl | exact absurd rfl hk

/-- C01 (version keys): `key OP literal` holds exactly for the releases satisfying `OP literal`
    in the sense of PEP 440 -/
theorem eval_expression_version (ρ : Env VarR VarB Val) (k : VKey) (s : Pep508.Spec)
    (c : List Nat) (hk : k ≠ .pyVer) (hw : Spec.wellFormed s) (hρ : ρ.rv (.ver k) = candVal c) :
    (expression (.version k s)).eval ρ = specSem s.op s.rel c := by
  rw [expression_version_of_ne k s hk, releaseSpecToRange_normalize,
    eval_rangeNode ρ _ _ (norm_releaseSpecToRange s), hρ, mem_releaseSpecToRange s c hw]

theorem OK_expression_version (k : VKey) (s : Pep508.Spec) (hk : k ≠ .pyVer) :
    (expression (.version k s)).OK := by
  rw [expression_version_of_ne k s hk]
  exact OK_rangeNode _ _ (norm_releaseSpecToRange _)

theorem wf_expression_version (k : VKey) (s : Pep508.Spec) (hk : k ≠ .pyVer) :
    (expression (.version k s)).wf = true := by
  rw [expression_version_of_ne k s hk]
  exact wf_rangeNode _ _ (norm_releaseSpecToRange _)

/-! ### `in` / `not in` lists for version keys other than `python_version` -/

theorem mem_singleton_candVal (c v : List Nat) :
    (Ranges.singleton (Val.ver (stripZeros v))).mem (candVal c) = (cmpRel c v == .eq) := by
  have hv : Val.ver (stripZeros v) = candVal v := rfl
  have L := candVal_lt c v
  have G := candVal_gt c v
  simp only [hv, Ranges.singleton, Ranges.mem_single, Ivl.mem, Bnd.loOk, Bnd.hiOk, L, G]
  cases cmpRel c v <;> rfl

theorem versionsRange_spec (vs : List (List Nat)) (acc : Ranges Val) (ha : acc.Norm) (c : List Nat) :
    (vs.foldl (fun acc v => Ranges.union acc (Ranges.singleton (.ver (stripZeros v)))) acc).Norm ∧
    (vs.foldl (fun acc v => Ranges.union acc (Ranges.singleton (.ver (stripZeros v)))) acc).mem
        (candVal c) = (acc.mem (candVal c) || vs.any (fun v => cmpRel c v == .eq)) := by
  induction vs generalizing acc with
  | nil => simp [ha]
  | cons v rest ih =>
    simp only [List.foldl_cons, List.any_cons]
    obtain ⟨i1, i2⟩ := ih _ (Ranges.norm_union acc (Ranges.singleton (.ver (stripZeros v))) ha)
    refine ⟨i1, ?_⟩
    rw [i2, Ranges.mem_union _ _ ha, mem_singleton_candVal, Bool.or_assoc]

theorem expression_versionIn_of_ne (k : VKey) (vs : List (List Nat)) (neg : Bool) (hk : k ≠ .pyVer) :
    expression (.versionIn k vs neg) =
      rangeNode (.ver k)
        (if neg then Ranges.complement
            (vs.foldl (fun acc v => Ranges.union acc (Ranges.singleton (.ver (stripZeros v)))) [])
         else vs.foldl (fun acc v => Ranges.union acc (Ranges.singleton (.ver (stripZeros v)))) []) := by
  cases k <;> first | rfl | exact absurd rfl hk

/-- `key in L` / `key not in L` for version keys: membership up to PEP 440 equality -/
theorem eval_expression_versionIn (ρ : Env VarR VarB Val) (k : VKey) (vs : List (List Nat))
    (neg : Bool) (c : List Nat) (hk : k ≠ .pyVer) (hρ : ρ.rv (.ver k) = candVal c) :
    (expression (.versionIn k vs neg)).eval ρ = (neg != vs.any (fun v => cmpRel c v == .eq)) := by
  obtain ⟨h1, h2⟩ := versionsRange_spec vs [] Ranges.norm_nil c
  rw [expression_versionIn_of_ne k vs neg hk]
  cases neg
  · simp only [Bool.false_eq_true, if_false]
    rw [eval_rangeNode ρ _ _ h1, hρ, h2]; simp [Ranges.mem]
  · simp only [if_true]
    rw [eval_rangeNode ρ _ _ (Ranges.norm_complement _ h1), hρ, Ranges.mem_complement _ h1, h2]
    simp [Ranges.mem]

theorem expression_versionIn_notIn (k : VKey) (vs : List (List Nat)) (hk : k ≠ .pyVer) :
    expression (.versionIn k vs true) = (expression (.versionIn k vs false)).not := by
  rw [expression_versionIn_of_ne k vs true hk, expression_versionIn_of_ne k vs false hk]
  simp only [if_true, Bool.false_eq_true, if_false]
  exact rangeNode_complement _ _ (versionsRange_spec vs [] Ranges.norm_nil []).1

/-! ### C10: `python_version` -/

theorem strip_prefix : ∀ r : List Nat, stripZeros r = r.take (stripZeros r).length
  | [] => by simp [stripZeros_nil]
  | a :: as => by
    have ih := strip_prefix as
    rw [stripZeros_cons]
    by_cases hc : a = 0 ∧ stripZeros as = []
    · simp [hc]
    · simp only [hc, if_false, List.length_cons, List.take_succ_cons, ← ih]

theorem strip_idem (r : List Nat) : stripZeros (stripZeros r) = stripZeros r := by
  conv => lhs; rw [strip_prefix r]
  exact strip_take r _ (Nat.le_refl _)

/-- after `normalize_specifier`: at most two segments, or no trailing zero -/
theorem normalizeSpecifier_normalized (s : Pep508.Spec)
    (h : ¬ (s.op.isStar = true ∨ s.op = .tilde)) :
    (normalizeSpecifier s).rel.length ≤ 2 ∨
      stripZeros (normalizeSpecifier s).rel = (normalizeSpecifier s).rel := by
  have hl := lastNonZero_eq s.rel
  have hp := strip_prefix s.rel
  have hlen : (stripZeros s.rel).length ≤ s.rel.length := by
    rw [hp, List.length_take]; omega
  unfold normalizeSpecifier
  have h' : ¬ ((s.op.isStar || s.op == .tilde) = true) := by
    simpa [Bool.or_eq_true] using h
  simp only [h', Bool.false_eq_true, ↓reduceIte, hl]
  by_cases h0 : (stripZeros s.rel).length = 0
  · simp only [h0, if_true]
    by_cases h1 : 1 < s.rel.length
    · left; simp only [h1, if_true, List.length_take]; omega
    · left; simp only [h1, if_false]; omega
  · simp only [h0, if_false]
    by_cases h2 : (stripZeros s.rel).length - 1 > 1
    · simp only [h2, if_true]
      by_cases h3 : (stripZeros s.rel).length - 1 < s.rel.length
      · right
        simp only [h3, if_true]
        have : (stripZeros s.rel).length - 1 + 1 = (stripZeros s.rel).length := by omega
        rw [this, ← hp, strip_idem]
      · omega
    · simp only [h2, if_false]
      by_cases h1 : 1 < s.rel.length
      · left; simp only [h1, if_true, List.length_take]; omega
      · left; simp only [h1, if_false]; omega

theorem normalizeSpecifier_rel_ne_nil (s : Pep508.Spec) (h : s.rel ≠ []) :
    (normalizeSpecifier s).rel ≠ [] := by
  obtain ⟨keep, _, _, heq⟩ := normalizeSpecifier_eq s
  rw [heq]
  split
  · exact h
  · split
    · cases hr : s.rel with
      | nil => exact absurd hr h
      | cons a as => simp
    · exact h

theorem cmpRel_nil_left (l : List Nat) :
    cmpRel [] l = if l.all (· == 0) = true then .eq else .lt := by
  induction l with
  | nil => simp [cmpRel]
  | cons a as ih =>
    simp only [cmpRel, ih, List.all_cons]
    by_cases ha : a = 0 <;> simp [ha]

theorem prefixMatch_nil_right (l : List Nat) : prefixMatch l [] = l.all (· == 0) := by
  induction l with
  | nil => rfl
  | cons a as ih => simp [prefixMatch, ih]

theorem all_dropLast (l : List Nat) (h : l.all (· == 0) = true) : l.dropLast.all (· == 0) = true := by
  simp only [List.all_eq_true] at *
  intro x hx
  exact h x (List.dropLast_subset l hx)

/-- no trailing zero and a third segment: the part after `major.minor` is not all zeros -/
theorem tail_not_all_zero (M m t : Nat) (ts : List Nat)
    (h : stripZeros (M :: m :: t :: ts) = M :: m :: t :: ts) :
    (t :: ts).all (· == 0) = false := by
  have key : ∀ l : List Nat, l.all (· == 0) = true → stripZeros l = [] := by
    intro l
    induction l with
    | nil => intro _; rfl
    | cons a as ih =>
      intro hl
      simp only [List.all_cons, Bool.and_eq_true, beq_iff_eq] at hl
      rw [stripZeros_cons, ih hl.2]; simp [hl.1]
  cases hall : (t :: ts).all (· == 0)
  · rfl
  · have := key _ hall
    rw [stripZeros_cons, stripZeros_cons, this] at h
    by_cases hm : m = 0 <;> by_cases hM : M = 0 <;> simp [hm, hM] at h

end Pep508
