/-
Layouts (C07): `parseRequirement` applied to a requirement written with arbitrary optional whitespace
returns the requirement's components, whatever the whitespace.

A `Layout` is the choice of every optional whitespace run of the PEP 508 grammar (as `src/lib.rs` merges
it); `layoutReq r ℓ` writes the requirement value `r` with that choice.  Stage lemmas are stated for a
cursor inside an arbitrary surrounding input, like those of `ReqRoundTrip.lean`.
-/
import Pep508.Proofs.ReqRoundTrip
namespace Pep508

open Cursor

/-! ### whitespace runs -/

/-- a run of whitespace characters -/
def AllWs (w : List Char) : Prop := ∀ c ∈ w, isWs c = true

theorem AllWs.nil : AllWs [] := by intro c h; simp at h

theorem AllWs.append {a b : List Char} (ha : AllWs a) (hb : AllWs b) : AllWs (a ++ b) := by
  intro c h
  rcases List.mem_append.1 h with h | h
  · exact ha c h
  · exact hb c h

theorem AllWs.tail {a : Char} {w : List Char} (h : AllWs (a :: w)) : AllWs w :=
  fun c hc => h c (List.mem_cons_of_mem _ hc)

theorem AllWs.head {a : Char} {w : List Char} (h : AllWs (a :: w)) : isWs a = true :=
  h a List.mem_cons_self

/-- the cursor skips a whitespace run in front of a non-whitespace character (or the end) -/
theorem eatWhitespace_run (inp w R : List Char) (p : Nat) (hw : AllWs w)
    (hR : ∀ ch, R.head? = some ch → isWs ch = false) :
    (⟨inp, w ++ R, p⟩ : Cursor).eatWhitespace = ⟨inp, R, p + strLen w⟩ :=
  eatWhitespace_ws inp w R p hw hR

/-- `parse_markers_cursor` skips a leading whitespace run -/
theorem parseMarkersCursor_run (x : Ext) (fuel : Nat) (I w R : List Char) (P : Nat) (hw : AllWs w) :
    parseMarkersCursor x fuel ⟨I, w ++ R, P⟩ = parseMarkersCursor x fuel ⟨I, R, P + strLen w⟩ := by
  rw [← parseMarkersCursor_eatWs x fuel ⟨I, w ++ R, P⟩, ← parseMarkersCursor_eatWs x fuel ⟨I, R, P + strLen w⟩]
  congr 1
  rw [eatWhitespace_eq, eatWhitespace_eq]
  simp only [List.dropWhile_append_of_pos hw, List.takeWhile_append_of_pos hw, strLen_append, Nat.add_assoc]

/-! ### items with their surrounding whitespace -/

/-- an item (extra / specifier text) with the whitespace before and after it -/
structure Padded where
  pre : List Char
  body : List Char
  post : List Char

def Padded.txt (p : Padded) : List Char := p.pre ++ (p.body ++ p.post)

/-- `items` separated by `ws , ws` (the whitespace pairs are taken from `seps` in order; a missing pair
is empty), with `carry` before the first and `last` after the last item -/
def padItems : List (List Char) → List (List Char × List Char) → List Char → List Char → List Padded
  | [], _, _, _ => []
  | [t], _, carry, last => [⟨carry, t, last⟩]
  | t :: t' :: ts, seps, carry, last =>
    ⟨carry, t, (seps.headD ([], [])).1⟩ :: padItems (t' :: ts) seps.tail (seps.headD ([], [])).2 last

/-- all whitespace pairs are whitespace -/
def SepsWs (seps : List (List Char × List Char)) : Prop := ∀ s ∈ seps, AllWs s.1 ∧ AllWs s.2

theorem SepsWs.headD {seps : List (List Char × List Char)} (h : SepsWs seps) :
    AllWs (seps.headD ([], [])).1 ∧ AllWs (seps.headD ([], [])).2 := by
  cases seps with
  | nil => exact ⟨AllWs.nil, AllWs.nil⟩
  | cons s r => exact h s List.mem_cons_self

theorem SepsWs.tail {seps : List (List Char × List Char)} (h : SepsWs seps) : SepsWs seps.tail := by
  cases seps with
  | nil => exact h
  | cons s r => exact fun a ha => h a (List.mem_cons_of_mem _ ha)

def Padded.Ws (p : Padded) : Prop := AllWs p.pre ∧ AllWs p.post

theorem padItems_ws : ∀ (ts : List (List Char)) (seps : List (List Char × List Char)) (carry last : List Char),
    SepsWs seps → AllWs carry → AllWs last → ∀ p ∈ padItems ts seps carry last, p.Ws
  | [], _, _, _, _, _, _ => by intro p h; simp [padItems] at h
  | [t], _, carry, last, _, hc, hl => by
    intro p h; simp only [padItems, List.mem_singleton] at h; subst h; exact ⟨hc, hl⟩
  | t :: t' :: ts, seps, carry, last, hs, hc, hl => by
    intro p h
    simp only [padItems, List.mem_cons] at h
    rcases h with rfl | h
    · exact ⟨hc, hs.headD.1⟩
    · exact padItems_ws (t' :: ts) seps.tail _ last hs.tail hs.headD.2 hl p (by simpa using h)

theorem padItems_body : ∀ (ts : List (List Char)) (seps : List (List Char × List Char)) (carry last : List Char),
    (padItems ts seps carry last).map Padded.body = ts
  | [], _, _, _ => rfl
  | [t], _, _, _ => rfl
  | t :: t' :: ts, seps, carry, last => by
    simp only [padItems, List.map_cons, List.cons.injEq, true_and]
    exact padItems_body (t' :: ts) seps.tail _ last

theorem padItems_ne_nil {t : List Char} {ts : List (List Char)} (seps : List (List Char × List Char))
    (carry last : List Char) :
    ∃ p ps, padItems (t :: ts) seps carry last = p :: ps ∧ p.pre = carry ∧ p.body = t := by
  cases ts with
  | nil => exact ⟨_, _, rfl, rfl, rfl⟩
  | cons t' ts => exact ⟨_, _, rfl, rfl, rfl⟩

/-- moving the leading whitespace out of the first item -/
theorem padItems_carry (t : List Char) (ts : List (List Char)) (seps : List (List Char × List Char))
    (carry last : List Char) :
    joinComma ((padItems (t :: ts) seps carry last).map Padded.txt) =
      carry ++ joinComma ((padItems (t :: ts) seps [] last).map Padded.txt) := by
  cases ts with
  | nil => simp [padItems, joinComma, Padded.txt]
  | cons t' ts =>
    simp only [padItems, List.map_cons]
    rw [joinComma_cons, joinComma_cons]
    simp [Padded.txt]

/-! ### extras with whitespace -/

/-- `,p1,p2,…` -/
def tailPad : List Padded → List Char
  | [] => []
  | p :: ps => ',' :: (p.txt ++ tailPad ps)

theorem joinComma_pad (p : Padded) (ps : List Padded) :
    joinComma ((p :: ps).map Padded.txt) = p.txt ++ tailPad ps := by
  rw [List.map_cons, joinComma_cons]
  congr 1
  induction ps with
  | nil => rfl
  | cons a ps ih => simp [tailTxt, tailPad, ih]

theorem tailPad_head (ps : List Padded) (rest : List Char) :
    ∀ ch, (tailPad ps ++ ']' :: rest).head? = some ch → ch = ',' ∨ ch = ']' := by
  intro ch h
  cases ps with
  | nil => simp [tailPad] at h; exact .inr h.symm
  | cons e es => simp [tailPad] at h; exact .inl h.symm

theorem tailPad_length (ps : List Padded) : ps.length ≤ (tailPad ps).length := by
  induction ps with
  | nil => simp
  | cons a es ih => simp [tailPad]; omega

/-- one round of the extras loop once the separator has been handled: the cursor is at an extra `e`
with whitespace `a` before and `b` after it, followed by `,` or `]` -/
theorem parseExtrasLoop_stepL (fuel : Nat) (c : Cursor) (bp : Nat) (acc : List (List Nat)) (first : Bool)
    (inp a e b T : List Char) (p : Nat) (he : NameWF e) (ha : AllWs a) (hb : AllWs b)
    (hclose : c.peekChar ≠ some ']')
    (hsep : extrasSep c first = .ok ⟨inp, a ++ (e ++ (b ++ T)), p⟩)
    (hinv : Inv ⟨inp, a ++ (e ++ (b ++ T)), p⟩)
    (hT : ∀ ch, T.head? = some ch → ch = ',' ∨ ch = ']') :
    parseExtrasLoop (fuel + 1) c bp acc first =
      parseExtrasLoop fuel ⟨inp, T, p + strLen a + strLen e + strLen b⟩ bp (acc ++ [normName e]) false := by
  have hinv' : Inv ⟨inp, e ++ (b ++ T), p + strLen a⟩ := inv_adv hinv
  obtain ⟨pre, hin, hp⟩ := hinv'
  simp only at hin hp
  obtain ⟨ch, tl, rfl, hal, htl⟩ := he.cons
  have hTn : ∀ ch, T.head? = some ch → isNameChar ch = false := by
    intro ch h; rcases hT ch h with rfl | rfl <;> decide
  have hTw : ∀ ch, T.head? = some ch → isWs ch = false := by
    intro ch h; rcases hT ch h with rfl | rfl <;> decide
  have hbT : ∀ ch, (b ++ T).head? = some ch → (ch = ',' ∨ ch = ']') ∨ isWs ch = true := by
    intro ch h
    cases b with
    | nil => exact .inl (hT ch h)
    | cons x b => simp at h; subst h; exact .inr hb.head
  have hbTn : ∀ ch, (b ++ T).head? = some ch → isNameChar ch = false := by
    intro ch h
    rcases hbT ch h with (rfl | rfl) | h
    · decide
    · decide
    · exact ws_not_nameChar h
  conv => lhs; unfold parseExtrasLoop
  have hcl : (c.peekChar == some ']') = false := by
    cases h : c.peekChar == some ']' with
    | false => rfl
    | true => exact absurd (eq_of_beq h) hclose
  simp only [hcl, Bool.false_eq_true, if_false]
  change (match extrasSep c first with
    | .err e => Res.err e
    | .panic s => Res.panic s
    | .ok c1 => _) = _
  rw [hsep]
  dsimp only
  have hws : isWs ch = false := nameChar_not_ws (alnum_nameChar hal)
  rw [eatWhitespace_run _ a _ _ ha (by intro c h; simp at h; subst h; exact hws)]
  simp only [List.cons_append, Cursor.next, hal, Bool.not_true, Bool.false_eq_true, if_false]
  have htw : (⟨inp, tl ++ (b ++ T), p + strLen a + utf8Len ch⟩ : Cursor).takeWhile isNameChar =
      ((p + strLen a + utf8Len ch, strLen tl), ⟨inp, b ++ T, p + strLen a + utf8Len ch + strLen tl⟩) := by
    unfold Cursor.takeWhile
    simp only [skipWhile_stop isNameChar tl (b ++ T) _ htl hbTn]
    simp
  rw [htw]
  dsimp only
  have hsl : (⟨inp, b ++ T, p + strLen a + utf8Len ch + strLen tl⟩ : Cursor).slice
      (p + strLen a + utf8Len ch) (strLen tl) = some tl := by
    unfold Cursor.slice
    have := sliceBytes_append (pre ++ [ch]) tl (b ++ T)
    rw [hin, hp]
    simpa [List.append_assoc] using this
  rw [hsl]
  simp only [Res.ofSlice]
  rw [he.validates]
  have hfin : (⟨inp, b ++ T, p + strLen a + utf8Len ch + strLen tl⟩ : Cursor).eatWhitespace =
      ⟨inp, T, p + strLen a + strLen (ch :: tl) + strLen b⟩ := by
    rw [eatWhitespace_run _ b T _ hb hTw]; simp only [strLen_cons, Nat.add_assoc]
  rw [hfin]
  cases hbt : b ++ T with
  | nil => rfl
  | cons x r =>
    simp only [Cursor.peek]
    rcases hbT x (by rw [hbt]; rfl) with (rfl | rfl) | h
    · rfl
    · rfl
    · simp [h]

/-- an item of an extras list: a well-formed extra between whitespace -/
def Padded.ExtraWF (p : Padded) : Prop := p.Ws ∧ NameWF p.body

/-- the extras loop over `,p1,p2,…]` -/
theorem parseExtrasLoop_tailL (ps : List Padded) (hps : ∀ q ∈ ps, q.ExtraWF) (fuel : Nat) (bp : Nat)
    (acc : List (List Nat)) (inp rest : List Char) (p : Nat)
    (hinv : Inv ⟨inp, tailPad ps ++ ']' :: rest, p⟩) (hf : ps.length < fuel) :
    parseExtrasLoop fuel ⟨inp, tailPad ps ++ ']' :: rest, p⟩ bp acc false =
      .ok (acc ++ ps.map (fun q => normName q.body), ⟨inp, rest, p + strLen (tailPad ps) + 1⟩) := by
  induction ps generalizing fuel acc p with
  | nil =>
    obtain ⟨fuel, rfl⟩ : ∃ f, fuel = f + 1 := ⟨fuel - 1, by simp at hf; omega⟩
    unfold parseExtrasLoop
    simp [tailPad, Cursor.peekChar, Cursor.next]
    decide
  | cons q ps ih =>
    obtain ⟨fuel, rfl⟩ : ∃ f, fuel = f + 1 := ⟨fuel - 1, by simp at hf; omega⟩
    obtain ⟨⟨ha, hb⟩, he⟩ := hps q List.mem_cons_self
    simp only [tailPad, Padded.txt, List.cons_append, List.append_assoc] at hinv ⊢
    have hinv1 := inv_adv1 hinv
    rw [parseExtrasLoop_stepL fuel _ bp acc false inp q.pre q.body q.post (tailPad ps ++ ']' :: rest)
      (p + utf8Len ',') he ha hb
      (by simp [Cursor.peekChar]) (by simp [extrasSep, Cursor.peek, Cursor.next]) hinv1 (tailPad_head ps rest)]
    have hinv2 : Inv ⟨inp, tailPad ps ++ ']' :: rest, p + utf8Len ',' + strLen q.pre + strLen q.body + strLen q.post⟩ := by
      have h1 := inv_adv hinv1
      have h2 := inv_adv h1
      exact inv_adv h2
    rw [ih (fun e h => hps e (List.mem_cons_of_mem _ h)) fuel _ _ hinv2 (by simp at hf; omega)]
    simp only [List.map_cons, List.append_assoc, List.singleton_append, strLen_cons, strLen_append,
      Res.ok.injEq, Prod.mk.injEq, Cursor.mk.injEq, true_and]
    omega

/-- `parse_extras_cursor` on `[p1,p2,…]` with whitespace around every extra -/
theorem parseExtras_layout (q : Padded) (ps : List Padded) (hps : ∀ a ∈ q :: ps, a.ExtraWF)
    (inp rest : List Char) (p : Nat)
    (hinv : Inv ⟨inp, '[' :: (joinComma ((q :: ps).map Padded.txt) ++ ']' :: rest), p⟩) :
    parseExtras ⟨inp, '[' :: (joinComma ((q :: ps).map Padded.txt) ++ ']' :: rest), p⟩ =
      .ok ((q :: ps).map (fun a => normName a.body),
        ⟨inp, rest, p + strLen ('[' :: (joinComma ((q :: ps).map Padded.txt) ++ [']']))⟩) := by
  obtain ⟨⟨ha, hb⟩, he⟩ := hps q List.mem_cons_self
  obtain ⟨ch, tl, hcons, hal, htl⟩ := he.cons
  rw [joinComma_pad] at hinv ⊢
  simp only [Padded.txt, List.append_assoc] at hinv ⊢
  have hinv1 := inv_adv1 hinv
  have hws : isWs ch = false := nameChar_not_ws (alnum_nameChar hal)
  have hne : ch ≠ ']' := by intro h; subst h; exact absurd hal (by decide)
  have hne2 : ch ≠ ',' := by intro h; subst h; exact absurd hal (by decide)
  unfold parseExtras
  simp only [Cursor.eatChar, beq_self_eq_true, if_true]
  rw [eatWhitespace_run _ q.pre _ _ ha (by intro c h; rw [hcons] at h; simp at h; subst h; exact hws)]
  have hinv2 := inv_adv hinv1
  rw [show ∀ f, parseExtrasLoop (f + 2) ⟨inp, q.body ++ (q.post ++ (tailPad ps ++ ']' :: rest)),
        p + utf8Len '[' + strLen q.pre⟩ p [] true =
      parseExtrasLoop (f + 1) ⟨inp, tailPad ps ++ ']' :: rest,
        p + utf8Len '[' + strLen q.pre + strLen [] + strLen q.body + strLen q.post⟩ p ([] ++ [normName q.body]) false from
    fun f => parseExtrasLoop_stepL _ _ p [] true inp [] q.body q.post (tailPad ps ++ ']' :: rest) _ he AllWs.nil hb
      (by rw [hcons]; simp [Cursor.peekChar, hne])
      (by
        rw [hcons]
        simp only [extrasSep, Cursor.peek, List.cons_append, List.nil_append]
        split
        · rename_i h _; simp at h; exact absurd h.2 hne2
        · rename_i h; simp at h
        · rename_i h; simp at h
        · rfl)
      (by simpa using hinv2) (tailPad_head ps rest)]
  have hinv3 : Inv ⟨inp, tailPad ps ++ ']' :: rest,
      p + utf8Len '[' + strLen q.pre + strLen [] + strLen q.body + strLen q.post⟩ := by
    have h2 := inv_adv hinv2
    have h3 := inv_adv h2
    simpa using h3
  simp only [List.length_cons, List.length_append]
  rw [parseExtrasLoop_tailL ps (fun a h => hps a (List.mem_cons_of_mem _ h)) _ _ _ _ _ _ hinv3
    (by have := tailPad_length ps; omega)]
  simp only [List.nil_append, List.map_cons, strLen_cons, strLen_append, strLen_nil,
    Res.ok.injEq, Prod.mk.injEq, Cursor.mk.injEq, true_and]
  have : utf8Len ']' = 1 := by decide
  exact ⟨rfl, by omega⟩

/-- `parse_extras_cursor` on an empty extras list `[ ]` -/
theorem parseExtras_empty (w : List Char) (hw : AllWs w) (inp rest : List Char) (p : Nat) :
    parseExtras ⟨inp, '[' :: (w ++ ']' :: rest), p⟩ =
      .ok ([], ⟨inp, rest, p + strLen ('[' :: (w ++ [']']))⟩) := by
  unfold parseExtras
  simp only [Cursor.eatChar, beq_self_eq_true, if_true]
  rw [eatWhitespace_run _ w _ _ hw (by intro c h; simp at h; subst h; decide)]
  unfold parseExtrasLoop
  simp only [Cursor.peekChar, List.head?_cons, beq_self_eq_true, if_true, Cursor.next, strLen_cons,
    strLen_append, strLen_nil, Res.ok.injEq, Prod.mk.injEq, Cursor.mk.injEq, true_and]
  omega

/-! ### parenthesised specifiers -/

/-- a specifier text inside parentheses never contains the separators of the parenthesised scan -/
def SpecTxtP (t : List Char) : Prop := ∀ c ∈ t, c ≠ ',' ∧ c ≠ ')'

theorem specsParen_other (fuel : Nat) (inp R : List Char) (ch : Char) (p bp start : Nat) (buf : List Char)
    (acc : List ExtCall) (h1 : ch ≠ ',') (h2 : ch ≠ ')') :
    specsParen (fuel + 1) ⟨inp, ch :: R, p⟩ bp start buf acc =
      specsParen fuel ⟨inp, R, p + utf8Len ch⟩ bp start (buf ++ [ch]) acc := by
  conv => lhs; unfold specsParen
  simp only [Cursor.next]

theorem specsParen_comma (fuel : Nat) (inp R : List Char) (p bp start : Nat) (buf : List Char)
    (acc : List ExtCall) :
    specsParen (fuel + 1) ⟨inp, ',' :: R, p⟩ bp start buf acc =
      specsParen fuel ⟨inp, R, p + 1⟩ bp (p + 1) [] (acc ++ [.spec buf start (p - start)]) := by
  conv => lhs; unfold specsParen
  rfl

theorem specsParen_close (fuel : Nat) (inp R : List Char) (p bp start : Nat) (buf : List Char)
    (acc : List ExtCall) :
    specsParen (fuel + 1) ⟨inp, ')' :: R, p⟩ bp start buf acc =
      (acc ++ [.spec buf start (p - start)], .ok ⟨inp, R, p + 1⟩) := by
  conv => lhs; unfold specsParen
  rfl

/-- the scan moves a separator-free text into the buffer -/
theorem specsParen_seg (t : List Char) (ht : SpecTxtP t) (fuel : Nat) (inp R : List Char) (p bp start : Nat)
    (buf : List Char) (acc : List ExtCall) :
    specsParen (fuel + t.length) ⟨inp, t ++ R, p⟩ bp start buf acc =
      specsParen fuel ⟨inp, R, p + strLen t⟩ bp start (buf ++ t) acc := by
  induction t generalizing p buf with
  | nil => simp
  | cons ch t ih =>
    have hc := ht ch List.mem_cons_self
    rw [List.length_cons, ← Nat.add_assoc, List.cons_append, specsParen_other _ _ _ _ _ _ _ _ _ hc.1 hc.2,
      ih (fun c h => ht c (List.mem_cons_of_mem _ h))]
    simp [Nat.add_assoc]

/-- the parenthesised scan over `t1,t2,…)` -/
theorem specsParen_list (ts : List (List Char)) (t : List Char) (hts : ∀ a ∈ t :: ts, SpecTxtP a)
    (R : List Char) (fuel : Nat) (inp : List Char) (p bp : Nat) (acc : List ExtCall)
    (hf : (joinComma (t :: ts)).length < fuel) :
    specsParen fuel ⟨inp, joinComma (t :: ts) ++ ')' :: R, p⟩ bp p [] acc =
      (acc ++ specCalls p (t :: ts), .ok ⟨inp, R, p + strLen (joinComma (t :: ts)) + 1⟩) := by
  induction ts generalizing t fuel p acc with
  | nil =>
    simp only [joinComma] at hf ⊢
    obtain ⟨f, rfl⟩ : ∃ f, fuel = (f + 1) + t.length := ⟨fuel - t.length - 1, by omega⟩
    rw [specsParen_seg t (hts t List.mem_cons_self), specsParen_close]
    simp [specCalls]
  | cons t2 ts ih =>
    rw [joinComma_cons] at hf ⊢
    simp only [tailTxt, List.length_append, List.length_cons] at hf
    obtain ⟨f, rfl⟩ : ∃ f, fuel = (f + 1) + t.length := ⟨fuel - t.length - 1, by omega⟩
    simp only [tailTxt, List.append_assoc, List.cons_append]
    rw [specsParen_seg t (hts t List.mem_cons_self), specsParen_comma]
    have := ih t2 (fun a h => hts a (List.mem_cons_of_mem _ h)) f (p + strLen t + 1)
      (acc ++ [.spec ([] ++ t) p (p + strLen t - p)])
      (by rw [joinComma_cons, List.length_append]; omega)
    rw [joinComma_cons, List.append_assoc] at this
    rw [this]
    simp only [List.nil_append, specCalls, List.append_assoc, List.singleton_append, strLen_append,
      strLen_cons, Nat.add_sub_cancel_left, Prod.mk.injEq, Res.ok.injEq, Cursor.mk.injEq, true_and]
    have : utf8Len ',' = 1 := by decide
    omega

/-- the kind stage on `( t1,t2,… )` (whitespace `O` after the opening parenthesis; whitespace before the
closing one belongs to the last text) -/
theorem kindStage_paren (env : ProcEnv) (ns st : Nat) (ts : List (List Char)) (t : List Char)
    (hts : ∀ a ∈ t :: ts, SpecTxtP a) (hhead : ∀ ch, t.head? = some ch → isWs ch = false)
    (O : List Char) (hO : AllWs O) (R inp : List Char) (p : Nat) :
    kindStage env ns st ⟨inp, '(' :: (O ++ (joinComma (t :: ts) ++ ')' :: R)), p⟩ =
      (specCalls (p + 1 + strLen O) (t :: ts),
        .ok (.specs (t :: ts), ⟨inp, R, p + 1 + strLen O + strLen (joinComma (t :: ts)) + 1⟩)) := by
  have h1 : utf8Len '(' = 1 := by decide
  have hh : ∀ ch, (joinComma (t :: ts) ++ ')' :: R).head? = some ch → isWs ch = false := by
    intro ch h
    rw [joinComma_cons] at h
    cases t with
    | cons a r => simp at h; subst h; exact hhead a rfl
    | nil =>
      cases ts with
      | nil => simp [tailTxt] at h; subst h; decide
      | cons b r => simp [tailTxt] at h; subst h; decide
  unfold kindStage
  simp only [Cursor.peekChar, List.head?_cons, Cursor.next, h1]
  rw [eatWhitespace_run _ O _ _ hO hh]
  dsimp only
  rw [specsParen_list ts t hts R _ inp (p + 1 + strLen O) p []
    (by simp only [List.length_cons, List.length_append]; omega)]
  simp [specTexts_specCalls]

/-! ### the URL with whitespace after it -/

/-- what may follow the whitespace after the requirement kind: nothing, or `;` (a marker) -/
def SemiStop (M : List Char) : Prop := M = [] ∨ ∃ r, M = ';' :: r

theorem SemiStop.head {M : List Char} (h : SemiStop M) : ∀ ch, M.head? = some ch → ch = ';' := by
  intro ch hc
  rcases h with rfl | ⟨r, rfl⟩
  · simp at hc
  · simpa using hc.symm

theorem SemiStop.head_ws {M : List Char} (h : SemiStop M) : ∀ ch, M.head? = some ch → isWs ch = false := by
  intro ch hc; rw [h.head ch hc]; decide

/-- the declarative URL end of `u ++ W ++ M`: a URL without whitespace, a whitespace run `W`, then nothing
or `;…`.  The run must be non-empty in front of `;`, and in front of a non-empty run the URL must not end
with `;` / `#`. -/
theorem urlEnd_layout (u W M : List Char) (hu : ∀ c ∈ u, isWs c = false) (hW : AllWs W) (hM : SemiStop M)
    (hWM : M ≠ [] → W ≠ [])
    (hlast : W ≠ [] → u.getLast? ≠ some ';' ∧ u.getLast? ≠ some '#') :
    urlEnd (u ++ (W ++ M)) = .inl u := by
  have hdrop : ∀ W', AllWs W' → (match ((W' ++ M).dropWhile isWs).head? with
      | none => true
      | some n => n == ';' || n == '#') = true := by
    intro W' hW'
    rw [List.dropWhile_append_of_pos hW']
    rcases hM with rfl | ⟨r, rfl⟩
    · rfl
    · have h2 : isWs ';' = false := by decide
      simp [h2]
  induction u with
  | nil =>
    cases W with
    | nil =>
      have : M = [] := by
        cases M with
        | nil => rfl
        | cons a r => exact absurd rfl (hWM (by simp))
      subst this; rfl
    | cons w W' =>
      have hst : stopWsL w (W' ++ M) = true := by
        simp only [stopWsL, hW.head, Bool.true_and]
        exact hdrop W' hW.tail
      simp only [List.nil_append, List.cons_append, urlEnd, hst, if_true]
      split <;> rfl
  | cons ch u ih =>
    have hws := hu ch List.mem_cons_self
    have hnl := not_ws_not_newline hws
    have hst : stopWsL ch (u ++ (W ++ M)) = false := by simp [stopWsL, hws]
    have hgl : gluedL ch (u ++ (W ++ M)) = false := by
      cases u with
      | cons a t => simp [gluedL, hu a (by simp)]
      | nil =>
        cases W with
        | nil =>
          have : M = [] := by
            cases M with
            | nil => rfl
            | cons a r => exact absurd rfl (hWM (by simp))
          subst this; simp [gluedL]
        | cons w W' =>
          have := hlast (by simp)
          simp only [List.getLast?_singleton, ne_eq, Option.some.injEq] at this
          simp [gluedL, this.1, this.2]
    simp only [List.cons_append, urlEnd, hnl, hst, hgl, Bool.false_eq_true, if_false]
    rw [ih (fun c h => hu c (List.mem_cons_of_mem _ h))]
    intro hne
    have := hlast hne
    cases u with
    | nil => simp
    | cons a t => simpa [List.getLast?_cons_cons] using this

/-- `parse_url` on `A u W M` (`A`, `W` whitespace runs): the URL handed over is exactly `u`; the cursor has
also consumed the first character of `W` -/
theorem parseUrl_layout (A u W M : List Char) (hA : AllWs A) (hne : u ≠ []) (hu : ∀ c ∈ u, isWs c = false)
    (hW : AllWs W) (hM : SemiStop M) (hWM : M ≠ [] → W ≠ [])
    (hlast : W ≠ [] → u.getLast? ≠ some ';' ∧ u.getLast? ≠ some '#')
    (inp : List Char) (p : Nat) (hinv : Inv ⟨inp, A ++ (u ++ (W ++ M)), p⟩) :
    parseUrl ⟨inp, A ++ (u ++ (W ++ M)), p⟩ =
      .ok ((u, p + strLen A, strLen u),
        ⟨inp, W.drop 1 ++ M, p + strLen A + strLen u + strLen (W.take 1)⟩) := by
  have hhead : ∀ ch, (u ++ (W ++ M)).head? = some ch → isWs ch = false := by
    intro ch h
    cases u with
    | nil => exact absurd rfl hne
    | cons a t => simp at h; subst h; exact hu a (by simp)
  rw [parseUrl_eq_urlEnd hinv, eatWhitespace_run inp A _ p hA hhead]
  dsimp only
  rw [urlEnd_layout u W M hu hW hM hWM hlast]
  dsimp only
  have hemp : u.isEmpty = false := by cases u with | nil => exact absurd rfl hne | cons a t => rfl
  simp only [hemp, Bool.false_eq_true, if_false, urlAfter]
  cases W with
  | nil =>
    have : M = [] := by
      cases M with
      | nil => rfl
      | cons a r => exact absurd rfl (hWM (by simp))
    subst this
    simp [List.take_of_length_le (Nat.le_succ u.length)]
  | cons w W' =>
    have h1 : (u ++ (w :: W' ++ M)).drop (u.length + 1) = W' ++ M := by
      have : u ++ (w :: W' ++ M) = (u ++ [w]) ++ (W' ++ M) := by simp
      rw [this]
      exact List.drop_left' (by simp)
    have h2 : (u ++ (w :: W' ++ M)).take (u.length + 1) = u ++ [w] := by
      have : u ++ (w :: W' ++ M) = (u ++ [w]) ++ (W' ++ M) := by simp
      rw [this]
      exact List.take_left' (by simp)
    rw [h1, h2]
    simp [Nat.add_assoc]

/-- the kind stage on `@ A u W M` -/
theorem kindStage_urlL (env : ProcEnv) (ns st : Nat) (A u W M : List Char) (hA : AllWs A) (hne : u ≠ [])
    (hu : ∀ c ∈ u, isWs c = false) (hW : AllWs W) (hM : SemiStop M) (hWM : M ≠ [] → W ≠ [])
    (hlast : W ≠ [] → u.getLast? ≠ some ';' ∧ u.getLast? ≠ some '#')
    (inp : List Char) (p : Nat) (hinv : Inv ⟨inp, '@' :: (A ++ (u ++ (W ++ M))), p⟩) :
    kindStage env ns st ⟨inp, '@' :: (A ++ (u ++ (W ++ M))), p⟩ =
      ([.url u (p + 1 + strLen A) (strLen u)],
        .ok (.url u, ⟨inp, W.drop 1 ++ M, p + 1 + strLen A + strLen u + strLen (W.take 1)⟩)) := by
  have h1 : utf8Len '@' = 1 := by decide
  have hinv1 := inv_adv1 hinv
  rw [h1] at hinv1
  have key := parseUrl_layout A u W M hA hne hu hW hM hWM hlast inp (p + 1) hinv1
  unfold kindStage
  simp only [Cursor.peekChar, List.head?_cons, Cursor.next, h1]
  rw [key]

/-! ### the tail stage behind whitespace -/

/-- no marker: only whitespace is left after the requirement kind -/
theorem tailStage_endL (x : Ext) (inp : List Char) (start ns ne : Nat) (nm : List Nat) (ex : List (List Nat))
    (calls : List ExtCall) (kind : ReqKind) (I W : List Char) (P : Nat) (name : List Char)
    (hsl : sliceBytes I ns (ne - ns) = some name)
    (harch : (kind.isNone && looksLikeArchive name) = false) (hW : AllWs W) :
    tailStage x inp start ns ne nm ex (calls, .ok (kind, ⟨I, W, P⟩)) =
      ⟨calls, .ok ⟨nm, ex, kind, .leaf true, []⟩⟩ :=
  tailStage_end x inp start ns ne nm ex calls kind _ name hsl harch
    (by rw [eatWhitespace_rest_eq]; exact dropWhile_all hW)

/-- a marker follows: whitespace `W`, `;`, whitespace `S`, then the text `R` the marker parser accepts -/
theorem tailStage_markerL (x : Ext) (inp : List Char) (start ns ne : Nat) (nm : List Nat)
    (ex : List (List Nat)) (calls : List ExtCall) (kind : ReqKind) (I W S R : List Char) (P Q : Nat)
    (name : List Char)
    (hsl : sliceBytes I ns (ne - ns) = some name)
    (harch : (kind.isNone && looksLikeArchive name) = false) (hW : AllWs W) (hS : AllWs S) (st : PState)
    (hQ : Q = P + strLen W + 1 + strLen S)
    (hm : parseMarkersCursor x (4 * inp.length + 16) ⟨I, R, Q⟩ = .ok st) :
    tailStage x inp start ns ne nm ex (calls, .ok (kind, ⟨I, W ++ ';' :: (S ++ R), P⟩)) =
      ⟨calls,
        if st.tree.isSome && kind.isUrl then
          .urlEndsOk [(';', ⟨.string, urlEndPos calls st.cur.pos - 1, 1⟩),
            ('#', ⟨.string, urlEndPos calls st.cur.pos - 1, 1⟩)]
            ⟨nm, ex, kind, st.tree.getD (.leaf true), st.warns⟩
        else .ok ⟨nm, ex, kind, st.tree.getD (.leaf true), st.warns⟩⟩ := by
  subst hQ
  exact tailStage_marker x inp start ns ne nm ex calls kind ⟨I, W ++ ';' :: (S ++ R), P⟩ name hsl harch I
    (S ++ R) (P + strLen W) st
    (eatWhitespace_run I W _ P hW (by intro c h; simp at h; subst h; decide))
    (by rw [parseMarkersCursor_run x _ I S R _ hS]; exact hm)

/-! ### name and extras with whitespace -/

/-- `EX` is the text of an extras list that `parse_extras_cursor` turns into `exs` wherever it stands:
either nothing at all, or a bracketed list -/
def ExtrasParse (EX : List Char) (exs : List (List Nat)) : Prop :=
  (EX = [] ∧ exs = []) ∨
  ((∃ body, EX = '[' :: body) ∧ ∀ inp rest p, Inv ⟨inp, EX ++ rest, p⟩ →
    parseExtras ⟨inp, EX ++ rest, p⟩ = .ok (exs, ⟨inp, rest, p + strLen EX⟩))

/-- leading whitespace, name, whitespace, extras, whitespace: what follows (`K`) starts with a character
that neither continues the name nor opens an extras list -/
theorem parse_frontL (env : ProcEnv) (x : Ext) (lead name A EX B K : List Char) (exs : List (List Nat))
    (hlead : AllWs lead) (hname : NameWF name) (hA : AllWs A) (hEX : ExtrasParse EX exs) (hB : AllWs B)
    (hK : ∀ ch, K.head? = some ch → isNameChar ch = false ∧ ch ≠ '[' ∧ isWs ch = false) :
    parseRequirement env x (lead ++ (name ++ (A ++ (EX ++ (B ++ K))))) =
      tailStage x (lead ++ (name ++ (A ++ (EX ++ (B ++ K))))) 0 (strLen lead) (strLen lead + strLen name)
        (normName name) exs
        (kindStage env (strLen lead) 0
          ⟨lead ++ (name ++ (A ++ (EX ++ (B ++ K)))), K,
            strLen lead + strLen name + strLen A + strLen EX + strLen B⟩) := by
  obtain ⟨hne, hfirst, hall, hlast⟩ := hname
  generalize hI : lead ++ (name ++ (A ++ (EX ++ (B ++ K)))) = I
  have hI' : I = lead ++ name ++ (A ++ (EX ++ (B ++ K))) := by rw [← hI]; simp
  rw [parseRequirement_eq]
  have h0 : (Cursor.new I).eatWhitespace = ⟨I, name ++ (A ++ (EX ++ (B ++ K))), strLen lead⟩ := by
    have := eatWhitespace_new_ws lead (name ++ (A ++ (EX ++ (B ++ K)))) hlead (head_not_ws_of_alnum hne hfirst)
    rw [hI] at this
    exact this
  have hBK : ∀ ch, (B ++ K).head? = some ch → isNameChar ch = false := by
    intro ch h
    cases B with
    | nil => exact (hK ch h).1
    | cons b B => simp at h; subst h; exact ws_not_nameChar hB.head
  have hrest : ∀ ch, (A ++ (EX ++ (B ++ K))).head? = some ch → isNameChar ch = false := by
    intro ch h
    cases A with
    | cons a A => simp at h; subst h; exact ws_not_nameChar hA.head
    | nil =>
      rcases hEX with ⟨rfl, _⟩ | ⟨⟨body, rfl⟩, _⟩
      · exact hBK ch h
      · simp at h; subst h; decide
  rw [h0]
  conv => lhs; rw [hI']
  rw [parseName_accept env lead name (A ++ (EX ++ (B ++ K))) hne hfirst hall hlast hrest]
  simp only [← hI']
  have hKw : ∀ ch, K.head? = some ch → isWs ch = false := fun ch h => (hK ch h).2.2
  rcases hEX with ⟨rfl, rfl⟩ | ⟨⟨body, hbody⟩, hparse⟩
  · have hrun := eatWhitespace_run I (A ++ B) K (strLen lead + strLen name) (hA.append hB) hKw
    simp only [List.append_assoc] at hrun
    simp only [List.nil_append]
    rw [hrun, parseExtras_none _ (fun ch h => (hK ch h).2.1)]
    dsimp only
    rw [eatWhitespace_id _ _ _ hKw]
    simp only [strLen_append, strLen_nil, Nat.add_zero, Nat.add_assoc]
    rfl
  · have hrun := eatWhitespace_run I A (EX ++ (B ++ K)) (strLen lead + strLen name) hA
      (by intro ch h; rw [hbody] at h; simp at h; subst h; decide)
    have hinv : Inv ⟨I, EX ++ (B ++ K), strLen lead + strLen name + strLen A⟩ :=
      ⟨lead ++ name ++ A, by rw [← hI]; simp, by simp [Nat.add_assoc]⟩
    rw [hrun, hparse I (B ++ K) _ hinv]
    dsimp only
    rw [eatWhitespace_run I B K _ hB hKw]
    rfl

/-! ### layouts -/

/-- the choice of every optional whitespace run of
```
specification = wsp* name wsp* extras? wsp* ( '@' wsp* url (wsp+ | end) | '(' wsp* list wsp* ')' | list )?
                wsp* ( ';' wsp* marker wsp* )?
extras        = '[' wsp* ( extra ( wsp* ',' wsp* extra )* )? wsp* ']'
list          = spec ( wsp* ',' wsp* spec )*
``` -/
structure Layout where
  /-- before the name -/
  lead : List Char
  /-- after the name -/
  afterName : List Char
  /-- write an empty extras list as `[ ]` (otherwise it is not written at all) -/
  exBrackets : Bool
  /-- after `[` -/
  exOpen : List Char
  /-- before and after each `,` of the extras list, in order (missing pairs are empty) -/
  exSeps : List (List Char × List Char)
  /-- before `]` -/
  exClose : List Char
  /-- after the extras: before `@`, `(`, the first specifier, `;` or the end -/
  beforeKind : List Char
  /-- after `@` -/
  afterAt : List Char
  /-- the specifiers are written in parentheses -/
  parens : Bool
  /-- after `(` -/
  parenOpen : List Char
  /-- before and after each `,` of the specifier list, in order (missing pairs are empty) -/
  specSeps : List (List Char × List Char)
  /-- before `)` -/
  parenClose : List Char
  /-- after the URL / the specifiers / `)`: before `;` or the end -/
  afterKind : List Char
  /-- after `;` -/
  afterSemi : List Char
  /-- after the marker -/
  trail : List Char

/-- every run of a layout consists of whitespace characters -/
structure Layout.Ws (ℓ : Layout) : Prop where
  lead : AllWs ℓ.lead
  afterName : AllWs ℓ.afterName
  exOpen : AllWs ℓ.exOpen
  exSeps : SepsWs ℓ.exSeps
  exClose : AllWs ℓ.exClose
  beforeKind : AllWs ℓ.beforeKind
  afterAt : AllWs ℓ.afterAt
  parenOpen : AllWs ℓ.parenOpen
  specSeps : SepsWs ℓ.specSeps
  parenClose : AllWs ℓ.parenClose
  afterKind : AllWs ℓ.afterKind
  afterSemi : AllWs ℓ.afterSemi
  trail : AllWs ℓ.trail

/-- the extras list as written -/
def extrasL (es : List (List Char)) (ℓ : Layout) : List Char :=
  match es with
  | [] => if ℓ.exBrackets then '[' :: ((ℓ.exOpen ++ ℓ.exClose) ++ [']']) else []
  | e :: es => '[' :: (joinComma ((padItems (e :: es) ℓ.exSeps ℓ.exOpen ℓ.exClose).map Padded.txt) ++ [']'])

/-- the specifier texts as the scans record them: everything between the separators, i.e. each text with
the whitespace around it, except the whitespace before the first one; the whitespace before `;` / the end
(bare) or before `)` (parenthesised) belongs to the last one -/
def recTexts (ts : List (List Char)) (ℓ : Layout) : List (List Char) :=
  (padItems ts ℓ.specSeps [] (if ℓ.parens then ℓ.parenClose else ℓ.afterKind)).map Padded.txt

/-- the requirement kind as written, followed by `M` -/
def kindL (k : ShowKind) (ℓ : Layout) (M : List Char) : List Char :=
  match k with
  | .none => ℓ.afterKind ++ M
  | .specs ts =>
    if ℓ.parens then '(' :: (ℓ.parenOpen ++ (joinComma (recTexts ts ℓ) ++ ')' :: (ℓ.afterKind ++ M)))
    else joinComma (recTexts ts ℓ) ++ M
  | .url u => '@' :: (ℓ.afterAt ++ (u ++ (ℓ.afterKind ++ M)))

/-- the marker part as written -/
def markerL (mk : Option (List Char)) (ℓ : Layout) : List Char :=
  match mk with
  | none => []
  | some m => ';' :: (ℓ.afterSemi ++ (m ++ ℓ.trail))

/-- the requirement written with layout `ℓ`, with `M` in place of the marker part -/
def layoutReqM (r : ReqVal) (ℓ : Layout) (M : List Char) : List Char :=
  ℓ.lead ++ (r.name ++ (ℓ.afterName ++ (extrasL r.extras ℓ ++ (ℓ.beforeKind ++ kindL r.kind ℓ M))))

/-- the requirement `r` written with layout `ℓ` -/
def layoutReq (r : ReqVal) (ℓ : Layout) : List Char := layoutReqM r ℓ (markerL r.marker ℓ)

/-- byte position of the requirement kind (`@`, `(`, the first specifier) -/
def Layout.kindPos (ℓ : Layout) (r : ReqVal) : Nat :=
  strLen ℓ.lead + strLen r.name + strLen ℓ.afterName + strLen (extrasL r.extras ℓ) + strLen ℓ.beforeKind

/-- byte position of the marker text -/
def Layout.markerPos (ℓ : Layout) (r : ReqVal) : Nat :=
  ℓ.kindPos r + strLen (kindL r.kind ℓ []) + 1 + strLen ℓ.afterSemi

/-- a specifier text: starts with an operator character and contains none of the characters that end a
specifier in the bare (`,` `;`) or in the parenthesised (`,` `)`) scan.  Inner whitespace is allowed. -/
def SpecWF (t : List Char) : Prop :=
  (∃ ch tl, t = ch :: tl ∧ isOpStart ch = true) ∧ ∀ c ∈ t, c ≠ ',' ∧ c ≠ ';' ∧ c ≠ ')'

/-- the kind part of a requirement value that can be written with any layout -/
def ShowKind.WFL (name : List Char) : ShowKind → Prop
  | .none => looksLikeArchive name = false
  | .specs ts => ts ≠ [] ∧ ∀ t ∈ ts, SpecWF t
  | .url u => u ≠ [] ∧ ∀ c ∈ u, isWs c = false

structure ReqVal.WFL (r : ReqVal) : Prop where
  name : NameWF r.name
  extras : ∀ e ∈ r.extras, NameWF e
  kind : r.kind.WFL r.name

/-- the two constraints between a URL and the whitespace after it: `hasM` (something, i.e. `;`, follows)
needs a non-empty run, and a non-empty run needs a URL that does not end with `;` / `#` -/
def UrlFits (k : ShowKind) (ℓ : Layout) (hasM : Prop) : Prop :=
  match k with
  | .url u => (hasM → ℓ.afterKind ≠ []) ∧ (ℓ.afterKind ≠ [] → u.getLast? ≠ some ';' ∧ u.getLast? ≠ some '#')
  | _ => True

/-- `ℓ` is a layout for `r` -/
def Layout.Fits (ℓ : Layout) (r : ReqVal) : Prop := UrlFits r.kind ℓ (r.marker.isSome = true)

/-- the external calls issued for `layoutReq r ℓ` -/
def expCallsL (r : ReqVal) (ℓ : Layout) : List ExtCall :=
  match r.kind with
  | .none => []
  | .specs ts =>
    specCalls (if ℓ.parens then ℓ.kindPos r + 1 + strLen ℓ.parenOpen else ℓ.kindPos r) (recTexts ts ℓ)
  | .url u => [.url u (ℓ.kindPos r + 1 + strLen ℓ.afterAt) (strLen u)]

def expKindL (r : ReqVal) (ℓ : Layout) : ReqKind :=
  match r.kind with
  | .none => .none
  | .specs ts => .specs (recTexts ts ℓ)
  | .url u => .url u

/-- the parsed requirement, given the marker tree and warnings -/
def expOkL (r : ReqVal) (ℓ : Layout) (marker : MTree) (warns : List WarnKind) : ReqOk :=
  ⟨normName r.name, r.extras.map normName, expKindL r ℓ, marker, warns⟩

/-- how the parse of `layoutReq r ℓ` ends when the marker parser returned `st` -/
def expFinL (r : ReqVal) (ℓ : Layout) (st : PState) : ReqThen :=
  match r.kind with
  | .url u =>
    if st.tree.isSome then
      .urlEndsOk [(';', ⟨.string, ℓ.kindPos r + 1 + strLen ℓ.afterAt + strLen u - 1, 1⟩),
          ('#', ⟨.string, ℓ.kindPos r + 1 + strLen ℓ.afterAt + strLen u - 1, 1⟩)]
        (expOkL r ℓ (st.tree.getD (.leaf true)) st.warns)
    else .ok (expOkL r ℓ (st.tree.getD (.leaf true)) st.warns)
  | _ => .ok (expOkL r ℓ (st.tree.getD (.leaf true)) st.warns)

theorem kindL_append (k : ShowKind) (ℓ : Layout) (M : List Char) : kindL k ℓ M = kindL k ℓ [] ++ M := by
  cases k with
  | none => simp [kindL]
  | specs ts => by_cases h : ℓ.parens = true <;> simp [kindL, h]
  | url u => simp [kindL]

/-- the extras list as written is parsed into the normalized extras wherever it stands -/
theorem extrasL_parse (es : List (List Char)) (ℓ : Layout) (hes : ∀ e ∈ es, NameWF e) (hℓ : ℓ.Ws) :
    ExtrasParse (extrasL es ℓ) (es.map normName) := by
  cases es with
  | nil =>
    by_cases hb : ℓ.exBrackets = true
    · refine .inr ⟨⟨_, by simp only [extrasL, hb, if_true]; rfl⟩, ?_⟩
      intro inp rest p _
      simp only [extrasL, hb, if_true, List.map_nil]
      have := parseExtras_empty (ℓ.exOpen ++ ℓ.exClose) (hℓ.exOpen.append hℓ.exClose) inp rest p
      simpa using this
    · exact .inl ⟨by simp [extrasL, hb], rfl⟩
  | cons e es =>
    refine .inr ⟨⟨_, rfl⟩, ?_⟩
    intro inp rest p hinv
    obtain ⟨q, ps, hq, _, _⟩ := padItems_ne_nil (t := e) (ts := es) ℓ.exSeps ℓ.exOpen ℓ.exClose
    have hbody := padItems_body (e :: es) ℓ.exSeps ℓ.exOpen ℓ.exClose
    have hws := padItems_ws (e :: es) ℓ.exSeps ℓ.exOpen ℓ.exClose hℓ.exSeps hℓ.exOpen hℓ.exClose
    simp only [extrasL] at hinv ⊢
    rw [hq] at hinv hbody hws ⊢
    have hwf : ∀ a ∈ q :: ps, a.ExtraWF := by
      intro a ha
      refine ⟨hws a ha, hes a.body ?_⟩
      rw [← hbody]
      exact List.mem_map_of_mem ha
    have key := parseExtras_layout q ps hwf inp rest p (by simpa using hinv)
    have hmap : (q :: ps).map (fun a => normName a.body) = (e :: es).map normName := by
      rw [← hbody, List.map_map]; rfl
    rw [hmap] at key
    simpa using key

/-- the characters of a recorded text are whitespace or characters of one of the items -/
theorem padItems_chars (ts : List (List Char)) (seps : List (List Char × List Char)) (carry last : List Char)
    (hs : SepsWs seps) (hc : AllWs carry) (hl : AllWs last) :
    ∀ a ∈ (padItems ts seps carry last).map Padded.txt, ∀ c ∈ a, isWs c = true ∨ ∃ t ∈ ts, c ∈ t := by
  intro a ha c hca
  obtain ⟨q, hq, rfl⟩ := List.mem_map.1 ha
  have hws := padItems_ws ts seps carry last hs hc hl q hq
  have hb : q.body ∈ ts := by
    rw [← padItems_body ts seps carry last]; exact List.mem_map_of_mem hq
  simp only [Padded.txt, List.mem_append] at hca
  rcases hca with h | h | h
  · exact .inl (hws.1 c h)
  · exact .inr ⟨_, hb, h⟩
  · exact .inl (hws.2 c h)

theorem semi_kindStart {M : List Char} (hM : SemiStop M) :
    ∀ ch, M.head? = some ch → isNameChar ch = false ∧ ch ≠ '[' ∧ isWs ch = false := by
  intro ch h; rw [hM.head ch h]; decide

theorem ws_ne_seps {c : Char} (h : isWs c = true) : c ≠ ',' ∧ c ≠ ';' ∧ c ≠ ')' := by
  refine ⟨?_, ?_, ?_⟩ <;> (intro hc; subst hc; exact absurd h (by decide))

/-- the recorded texts contain no separator of either scan, and the first one starts with the first
specifier (an operator character) -/
theorem recTexts_facts (t : List Char) (ts : List (List Char)) (ℓ : Layout) (hℓ : ℓ.Ws)
    (hts : ∀ a ∈ t :: ts, SpecWF a) :
    ∃ t' ts', recTexts (t :: ts) ℓ = t' :: ts' ∧ (∀ a ∈ t' :: ts', SpecTxt a) ∧ (∀ a ∈ t' :: ts', SpecTxtP a) ∧
      t' ≠ [] ∧ (∀ ch, t'.head? = some ch → isOpStart ch = true) := by
  have hlast : AllWs (if ℓ.parens then ℓ.parenClose else ℓ.afterKind) := by
    by_cases h : ℓ.parens = true
    · simp only [h, if_true]; exact hℓ.parenClose
    · simp only [h, Bool.false_eq_true, if_false]; exact hℓ.afterKind
  obtain ⟨q, ps, hq, hpre, hbody⟩ := padItems_ne_nil (t := t) (ts := ts) ℓ.specSeps []
    (if ℓ.parens then ℓ.parenClose else ℓ.afterKind)
  have hch := padItems_chars (t :: ts) ℓ.specSeps [] _ hℓ.specSeps AllWs.nil hlast
  have hall : ∀ a ∈ recTexts (t :: ts) ℓ, ∀ c ∈ a, c ≠ ',' ∧ c ≠ ';' ∧ c ≠ ')' := by
    intro a ha c hc
    rcases hch a ha c hc with h | ⟨t0, ht0, h⟩
    · exact ws_ne_seps h
    · exact (hts t0 ht0).2 c h
  have hrec : recTexts (t :: ts) ℓ = q.txt :: ps.map Padded.txt := by
    simp only [recTexts, hq, List.map_cons]
  rw [hrec] at hall ⊢
  obtain ⟨⟨ch, tl, rfl, hop⟩, _⟩ := hts t List.mem_cons_self
  refine ⟨_, _, rfl, fun a ha c hc => ⟨(hall a ha c hc).1, (hall a ha c hc).2.1⟩,
    fun a ha c hc => ⟨(hall a ha c hc).1, (hall a ha c hc).2.2⟩, ?_, ?_⟩
  · simp [Padded.txt, hpre, hbody]
  · intro c h
    simp [Padded.txt, hpre, hbody] at h
    subst h; exact hop

/-- name, extras and kind of a requirement written with a layout, in front of `M` (nothing or `;…`): the
calls, the kind, and the cursor handed to the tail stage — it stands before a whitespace run `W'` and `M`,
at the end of the kind text -/
theorem layout_stage (env : ProcEnv) (x : Ext) (r : ReqVal) (ℓ : Layout) (M : List Char)
    (hwf : r.WFL) (hℓ : ℓ.Ws) (hM : SemiStop M) (hfit : UrlFits r.kind ℓ (M ≠ [])) :
    ∃ W' P', AllWs W' ∧ P' + strLen W' = ℓ.kindPos r + strLen (kindL r.kind ℓ []) ∧
      parseRequirement env x (layoutReqM r ℓ M) =
        tailStage x (layoutReqM r ℓ M) 0 (strLen ℓ.lead) (strLen ℓ.lead + strLen r.name)
          (normName r.name) (r.extras.map normName)
          (expCallsL r ℓ, .ok (expKindL r ℓ, ⟨layoutReqM r ℓ M, W' ++ M, P'⟩)) := by
  obtain ⟨name, es, kind, mk⟩ := r
  obtain ⟨hname, hes, hk⟩ := hwf
  simp only at hname hes hk hfit
  have hEX := extrasL_parse es ℓ hes hℓ
  cases kind with
  | none =>
    refine ⟨[], ℓ.kindPos ⟨name, es, .none, mk⟩ + strLen ℓ.afterKind, AllWs.nil, by simp [kindL], ?_⟩
    have e : layoutReqM ⟨name, es, .none, mk⟩ ℓ M =
        ℓ.lead ++ (name ++ (ℓ.afterName ++ (extrasL es ℓ ++ ((ℓ.beforeKind ++ ℓ.afterKind) ++ M)))) := by
      simp [layoutReqM, kindL]
    rw [e, parse_frontL env x ℓ.lead name ℓ.afterName (extrasL es ℓ) (ℓ.beforeKind ++ ℓ.afterKind) M _
      hℓ.lead hname hℓ.afterName hEX (hℓ.beforeKind.append hℓ.afterKind) (semi_kindStart hM)]
    rw [kindStage_none env _ 0 _ hM.head]
    have hpos : strLen ℓ.lead + strLen name + strLen ℓ.afterName + strLen (extrasL es ℓ) +
        strLen (ℓ.beforeKind ++ ℓ.afterKind) = ℓ.kindPos ⟨name, es, .none, mk⟩ + strLen ℓ.afterKind := by
      simp only [Layout.kindPos, strLen_append]; omega
    rw [hpos]
    rfl
  | specs ts =>
    obtain ⟨hne, hts⟩ := hk
    obtain ⟨t, ts, rfl⟩ : ∃ t ts', ts = t :: ts' := by
      cases ts with
      | nil => exact absurd rfl hne
      | cons t ts => exact ⟨t, ts, rfl⟩
    obtain ⟨t', ts', hrec, hS, hSP, hne', hop⟩ := recTexts_facts t ts ℓ hℓ hts
    by_cases hp : ℓ.parens = true
    · refine ⟨ℓ.afterKind, ℓ.kindPos ⟨name, es, .specs (t :: ts), mk⟩ + 1 + strLen ℓ.parenOpen +
        strLen (joinComma (t' :: ts')) + 1, hℓ.afterKind, ?_, ?_⟩
      · have h1 : utf8Len '(' = 1 := by decide
        have h2 : utf8Len ')' = 1 := by decide
        simp only [kindL, hp, if_true, hrec, strLen_append, strLen_cons, strLen_nil, h1, h2]
        omega
      · have e : layoutReqM ⟨name, es, .specs (t :: ts), mk⟩ ℓ M =
            ℓ.lead ++ (name ++ (ℓ.afterName ++ (extrasL es ℓ ++ (ℓ.beforeKind ++
              ('(' :: (ℓ.parenOpen ++ (joinComma (t' :: ts') ++ ')' :: (ℓ.afterKind ++ M)))))))) := by
          simp [layoutReqM, kindL, hp, hrec]
        rw [e, parse_frontL env x ℓ.lead name ℓ.afterName (extrasL es ℓ) ℓ.beforeKind _ _
          hℓ.lead hname hℓ.afterName hEX hℓ.beforeKind (by intro ch h; simp at h; subst h; decide)]
        rw [kindStage_paren env _ 0 ts' t' hSP
          (fun ch h => (opStart_facts (hop ch h)).2.2) ℓ.parenOpen hℓ.parenOpen]
        simp only [expCallsL, expKindL, hp, if_true, hrec, Layout.kindPos]
    · refine ⟨[], ℓ.kindPos ⟨name, es, .specs (t :: ts), mk⟩ + strLen (joinComma (t' :: ts')), AllWs.nil, ?_, ?_⟩
      · simp only [kindL, hp, Bool.false_eq_true, if_false, hrec, strLen_append, strLen_nil]
        omega
      · have e : layoutReqM ⟨name, es, .specs (t :: ts), mk⟩ ℓ M =
            ℓ.lead ++ (name ++ (ℓ.afterName ++ (extrasL es ℓ ++ (ℓ.beforeKind ++
              (joinComma (t' :: ts') ++ M))))) := by
          simp [layoutReqM, kindL, hp, hrec]
        have hhead := joinComma_head t' ts' M hne'
        rw [e, parse_frontL env x ℓ.lead name ℓ.afterName (extrasL es ℓ) ℓ.beforeKind _ _
          hℓ.lead hname hℓ.afterName hEX hℓ.beforeKind
          (by intro ch h; rw [hhead] at h; exact opStart_facts (hop ch h))]
        rw [kindStage_specs env _ 0 ts' t' hS hop hne' M hM]
        simp only [expCallsL, expKindL, hp, Bool.false_eq_true, if_false, hrec, Layout.kindPos, List.nil_append]
  | url u =>
    obtain ⟨hne, hu⟩ := hk
    obtain ⟨hWM, hlast⟩ := hfit
    refine ⟨ℓ.afterKind.drop 1, ℓ.kindPos ⟨name, es, .url u, mk⟩ + 1 + strLen ℓ.afterAt + strLen u +
      strLen (ℓ.afterKind.take 1), fun c hc => hℓ.afterKind c (List.mem_of_mem_drop hc), ?_, ?_⟩
    · have h1 : utf8Len '@' = 1 := by decide
      have h3 : strLen (ℓ.afterKind.take 1) + strLen (ℓ.afterKind.drop 1) = strLen ℓ.afterKind := by
        rw [← strLen_append, List.take_append_drop]
      simp only [kindL, strLen_append, strLen_cons, strLen_nil, h1]
      omega
    · have e : layoutReqM ⟨name, es, .url u, mk⟩ ℓ M =
          ℓ.lead ++ (name ++ (ℓ.afterName ++ (extrasL es ℓ ++ (ℓ.beforeKind ++
            ('@' :: (ℓ.afterAt ++ (u ++ (ℓ.afterKind ++ M)))))))) := by
        simp [layoutReqM, kindL]
      rw [e, parse_frontL env x ℓ.lead name ℓ.afterName (extrasL es ℓ) ℓ.beforeKind _ _
        hℓ.lead hname hℓ.afterName hEX hℓ.beforeKind (by intro ch h; simp at h; subst h; decide)]
      have hinv : Inv ⟨ℓ.lead ++ (name ++ (ℓ.afterName ++ (extrasL es ℓ ++ (ℓ.beforeKind ++
            ('@' :: (ℓ.afterAt ++ (u ++ (ℓ.afterKind ++ M)))))))),
          '@' :: (ℓ.afterAt ++ (u ++ (ℓ.afterKind ++ M))),
          strLen ℓ.lead + strLen name + strLen ℓ.afterName + strLen (extrasL es ℓ) + strLen ℓ.beforeKind⟩ :=
        ⟨ℓ.lead ++ name ++ ℓ.afterName ++ extrasL es ℓ ++ ℓ.beforeKind, by simp, by simp [Nat.add_assoc]⟩
      rw [kindStage_urlL env _ 0 ℓ.afterAt u ℓ.afterKind M hℓ.afterAt hne hu hℓ.afterKind hM hWM hlast _ _ hinv]
      simp only [expCallsL, expKindL, Layout.kindPos]

/-! ### (L1) every layout is accepted and decomposed into the components -/

theorem name_sliceL (lead name rest : List Char) :
    sliceBytes (lead ++ (name ++ rest)) (strLen lead) (strLen lead + strLen name - strLen lead) = some name := by
  rw [Nat.add_sub_cancel_left, ← List.append_assoc]
  exact sliceBytes_append lead name rest

theorem layoutReqM_name (r : ReqVal) (ℓ : Layout) (M : List Char) :
    sliceBytes (layoutReqM r ℓ M) (strLen ℓ.lead) (strLen ℓ.lead + strLen r.name - strLen ℓ.lead) =
      some r.name := name_sliceL _ _ _

theorem expKindL_arch (r : ReqVal) (ℓ : Layout) (hwf : r.WFL) :
    ((expKindL r ℓ).isNone && looksLikeArchive r.name) = false := by
  obtain ⟨name, es, kind, mk⟩ := r
  have hk := hwf.kind
  cases kind with
  | none => simpa [expKindL, ReqKind.isNone, ShowKind.WFL] using hk
  | specs ts => simp [expKindL, ReqKind.isNone]
  | url u => simp [expKindL, ReqKind.isNone]

/-- (L1) without a marker: whatever the layout, the calls are the recorded specifier texts / the URL with
their spans, and the result is the normalized name, the normalized extras, the kind and the TRUE marker -/
theorem layoutReq_parse (env : ProcEnv) (x : Ext) (r : ReqVal) (ℓ : Layout) (hwf : r.WFL) (hℓ : ℓ.Ws)
    (hfit : ℓ.Fits r) (hm : r.marker = none) :
    parseRequirement env x (layoutReq r ℓ) = ⟨expCallsL r ℓ, .ok (expOkL r ℓ (.leaf true) [])⟩ := by
  have hfit' : UrlFits r.kind ℓ (([] : List Char) ≠ []) := by
    unfold Layout.Fits UrlFits at *
    split
    · rename_i u hu
      rw [hu] at hfit
      exact ⟨fun h => absurd rfl h, hfit.2⟩
    · trivial
  obtain ⟨W', P', hW', _, hparse⟩ := layout_stage env x r ℓ [] hwf hℓ (.inl rfl) hfit'
  have hml : markerL r.marker ℓ = [] := by rw [hm]; rfl
  rw [layoutReq, hml, hparse, List.append_nil]
  exact tailStage_endL x _ 0 _ _ _ _ _ _ _ W' P' r.name (layoutReqM_name r ℓ [])
    (expKindL_arch r ℓ hwf) hW'

/-- (L1) with a marker `m`: if the marker parser, started at the marker text (after the whitespace that
follows `;`, with the fuel the requirement parser gives it), returns `st`, the requirement parser returns
the same components with `st`'s tree and warnings — as `urlEndsOk` for a URL requirement -/
theorem layoutReq_parse_marker (env : ProcEnv) (x : Ext) (r : ReqVal) (ℓ : Layout) (hwf : r.WFL) (hℓ : ℓ.Ws)
    (hfit : ℓ.Fits r) (m : List Char) (hm : r.marker = some m) (st : PState)
    (hst : parseMarkersCursor x (4 * (layoutReq r ℓ).length + 16)
      ⟨layoutReq r ℓ, m ++ ℓ.trail, ℓ.markerPos r⟩ = .ok st) :
    parseRequirement env x (layoutReq r ℓ) = ⟨expCallsL r ℓ, expFinL r ℓ st⟩ := by
  have hml : markerL r.marker ℓ = ';' :: (ℓ.afterSemi ++ (m ++ ℓ.trail)) := by rw [hm]; rfl
  have hfit' : UrlFits r.kind ℓ (';' :: (ℓ.afterSemi ++ (m ++ ℓ.trail)) ≠ []) := by
    unfold Layout.Fits UrlFits at *
    split
    · rename_i u hu
      rw [hu] at hfit
      exact ⟨fun _ => hfit.1 (by rw [hm]; rfl), hfit.2⟩
    · trivial
  obtain ⟨W', P', hW', hP', hparse⟩ := layout_stage env x r ℓ _ hwf hℓ (.inr ⟨_, rfl⟩) hfit'
  rw [layoutReq, hml] at hst ⊢
  rw [hparse]
  rw [tailStage_markerL x _ 0 _ _ _ _ _ _ _ W' ℓ.afterSemi (m ++ ℓ.trail) P' (ℓ.markerPos r) r.name
    (layoutReqM_name r ℓ _) (expKindL_arch r ℓ hwf) hW' hℓ.afterSemi st
    (by unfold Layout.markerPos; omega) hst]
  obtain ⟨name, es, kind, mk⟩ := r
  cases kind with
  | none => simp [expFinL, expKindL, expOkL, ReqKind.isUrl]
  | specs ts => simp [expFinL, expKindL, expOkL, ReqKind.isUrl]
  | url u => simp [expFinL, expKindL, expOkL, expCallsL, ReqKind.isUrl, urlEndPos]

/-- the cursor of the marker hypothesis is the position of the marker text in the written requirement -/
theorem markerPosL_inv (r : ReqVal) (ℓ : Layout) (m : List Char) (hm : r.marker = some m) :
    Inv ⟨layoutReq r ℓ, m ++ ℓ.trail, ℓ.markerPos r⟩ := by
  refine ⟨ℓ.lead ++ r.name ++ ℓ.afterName ++ extrasL r.extras ℓ ++ ℓ.beforeKind ++ kindL r.kind ℓ [] ++
    (';' :: ℓ.afterSemi), ?_, ?_⟩
  · simp only [layoutReq, layoutReqM, hm, markerL]
    rw [kindL_append]
    simp
  · have h2 : utf8Len ';' = 1 := by decide
    simp only [Layout.markerPos, Layout.kindPos, strLen_append, strLen_cons, h2]
    omega

/-- the calls issued for a written requirement do not depend on the marker (nor on the marker parser
accepting it) -/
theorem layoutReq_calls (env : ProcEnv) (x : Ext) (r : ReqVal) (ℓ : Layout) (hwf : r.WFL) (hℓ : ℓ.Ws)
    (hfit : ℓ.Fits r) :
    (parseRequirement env x (layoutReq r ℓ)).calls = expCallsL r ℓ := by
  cases hm : r.marker with
  | none => rw [layoutReq_parse env x r ℓ hwf hℓ hfit hm]
  | some m =>
    have hml : markerL r.marker ℓ = ';' :: (ℓ.afterSemi ++ (m ++ ℓ.trail)) := by rw [hm]; rfl
    have hfit' : UrlFits r.kind ℓ (';' :: (ℓ.afterSemi ++ (m ++ ℓ.trail)) ≠ []) := by
      unfold Layout.Fits UrlFits at *
      split
      · rename_i u hu
        rw [hu] at hfit
        exact ⟨fun _ => hfit.1 (by rw [hm]; rfl), hfit.2⟩
      · trivial
    obtain ⟨W', P', _, _, hparse⟩ := layout_stage env x r ℓ _ hwf hℓ (.inr ⟨_, rfl⟩) hfit'
    rw [layoutReq, hml, hparse, tailStage_calls]

/-- … and every recorded call is given exactly the slice of the written text at its span -/
theorem layoutReq_calls_ok (env : ProcEnv) (x : Ext) (r : ReqVal) (ℓ : Layout) (hwf : r.WFL) (hℓ : ℓ.Ws)
    (hfit : ℓ.Fits r) : CallsOK (layoutReq r ℓ) (expCallsL r ℓ) := by
  rw [← layoutReq_calls env x r ℓ hwf hℓ hfit]
  exact parseRequirement_calls env x (layoutReq r ℓ)

/-! ### (L2) the result does not depend on the layout -/

/-- remove leading and trailing whitespace (what the external specifier parser does first) -/
def trimWs (l : List Char) : List Char := ((l.dropWhile isWs).reverse.dropWhile isWs).reverse

theorem dropWhile_head_neg {α} (p : α → Bool) (l : List α) (h : ∀ a, l.head? = some a → p a = false) :
    l.dropWhile p = l := by
  cases l with
  | nil => rfl
  | cons a r => simp [h a rfl]

/-- whitespace around a text that neither starts nor ends with whitespace is trimmed away -/
theorem trimWs_pad (a t b : List Char) (ha : AllWs a) (hb : AllWs b)
    (hh : ∀ ch, t.head? = some ch → isWs ch = false) (hl : ∀ ch, t.getLast? = some ch → isWs ch = false) :
    trimWs (a ++ (t ++ b)) = t := by
  unfold trimWs
  rw [List.dropWhile_append_of_pos ha]
  cases t with
  | nil => simp [dropWhile_all hb]
  | cons c tl =>
    have h1 : (c :: tl ++ b).dropWhile isWs = c :: tl ++ b :=
      dropWhile_head_neg isWs _ (by intro x h; simp at h; subst h; exact hh c rfl)
    have h2 : ((c :: tl).reverse).dropWhile isWs = (c :: tl).reverse :=
      dropWhile_head_neg isWs _ (by intro x h; rw [List.head?_reverse] at h; exact hl x h)
    rw [h1, List.reverse_append,
      List.dropWhile_append_of_pos (by intro x hx; exact hb x (List.mem_reverse.1 hx)), h2]
    exact List.reverse_reverse _

def ReqKind.trim : ReqKind → ReqKind
  | .specs ts => .specs (ts.map trimWs)
  | k => k

/-- a parsed requirement with the specifier texts trimmed -/
def ReqOk.trim (o : ReqOk) : ReqOk := ⟨o.name, o.extras, o.kind.trim, o.marker, o.warns⟩

/-- the requirement of an accepting outcome -/
def ReqThen.req? : ReqThen → Option ReqOk
  | .ok r => some r
  | .urlEndsOk _ r => some r
  | _ => none

def ReqVal.kindR (r : ReqVal) : ReqKind :=
  match r.kind with
  | .none => .none
  | .specs ts => .specs ts
  | .url u => .url u

/-- the components of the requirement value `r` as the parser returns them -/
def ReqVal.components (r : ReqVal) (marker : MTree) (warns : List WarnKind) : ReqOk :=
  ⟨normName r.name, r.extras.map normName, r.kindR, marker, warns⟩

/-- no specifier text ends with whitespace (it starts with an operator character anyway) -/
def ReqVal.NoTrailWs (r : ReqVal) : Prop :=
  match r.kind with
  | .specs ts => ∀ t ∈ ts, ∀ ch, t.getLast? = some ch → isWs ch = false
  | _ => True

/-- trimming the recorded texts gives back the specifier texts -/
theorem recTexts_trim (ts : List (List Char)) (ℓ : Layout) (hℓ : ℓ.Ws) (hts : ∀ t ∈ ts, SpecWF t)
    (hl : ∀ t ∈ ts, ∀ ch, t.getLast? = some ch → isWs ch = false) :
    (recTexts ts ℓ).map trimWs = ts := by
  have hlast : AllWs (if ℓ.parens then ℓ.parenClose else ℓ.afterKind) := by
    by_cases h : ℓ.parens = true
    · simp only [h, if_true]; exact hℓ.parenClose
    · simp only [h, Bool.false_eq_true, if_false]; exact hℓ.afterKind
  have hbody := padItems_body ts ℓ.specSeps [] (if ℓ.parens then ℓ.parenClose else ℓ.afterKind)
  have hws := padItems_ws ts ℓ.specSeps [] _ hℓ.specSeps AllWs.nil hlast
  unfold recTexts
  rw [List.map_map]
  conv => rhs; rw [← hbody]
  apply List.map_congr_left
  intro q hq
  have hb : q.body ∈ ts := by rw [← hbody]; exact List.mem_map_of_mem hq
  obtain ⟨⟨ch, tl, he, hop⟩, _⟩ := hts _ hb
  exact trimWs_pad q.pre q.body q.post (hws q hq).1 (hws q hq).2
    (by intro c h; rw [he] at h; simp at h; subst h; exact (opStart_facts hop).2.2) (hl _ hb)

theorem expOkL_trim (r : ReqVal) (ℓ : Layout) (hwf : r.WFL) (hℓ : ℓ.Ws) (hnt : r.NoTrailWs)
    (tree : MTree) (warns : List WarnKind) :
    (expOkL r ℓ tree warns).trim = r.components tree warns := by
  obtain ⟨name, es, kind, mk⟩ := r
  have hk := hwf.kind
  cases kind with
  | none => rfl
  | url u => rfl
  | specs ts =>
    simp only [ReqVal.NoTrailWs] at hnt
    simp only [expOkL, ReqOk.trim, expKindL, ReqKind.trim, ReqVal.components, ReqVal.kindR]
    rw [recTexts_trim ts ℓ hℓ hk.2 hnt]

theorem expFinL_req (r : ReqVal) (ℓ : Layout) (st : PState) :
    (expFinL r ℓ st).req? = some (expOkL r ℓ (st.tree.getD (.leaf true)) st.warns) := by
  unfold expFinL
  split
  · split <;> rfl
  · rfl

/-- (L2) without a marker: whatever the layout, the accepted requirement — specifier texts trimmed — is
the requirement value's components -/
theorem layoutReq_components (env : ProcEnv) (x : Ext) (r : ReqVal) (ℓ : Layout) (hwf : r.WFL) (hℓ : ℓ.Ws)
    (hfit : ℓ.Fits r) (hnt : r.NoTrailWs) (hm : r.marker = none) :
    (parseRequirement env x (layoutReq r ℓ)).fin.req?.map ReqOk.trim = some (r.components (.leaf true) []) := by
  rw [layoutReq_parse env x r ℓ hwf hℓ hfit hm]
  simp only [ReqThen.req?, Option.map_some, expOkL_trim r ℓ hwf hℓ hnt]

/-- (L2) with a marker: … with the tree and warnings the marker parser returned -/
theorem layoutReq_components_marker (env : ProcEnv) (x : Ext) (r : ReqVal) (ℓ : Layout) (hwf : r.WFL)
    (hℓ : ℓ.Ws) (hfit : ℓ.Fits r) (hnt : r.NoTrailWs) (m : List Char) (hm : r.marker = some m) (st : PState)
    (hst : parseMarkersCursor x (4 * (layoutReq r ℓ).length + 16)
      ⟨layoutReq r ℓ, m ++ ℓ.trail, ℓ.markerPos r⟩ = .ok st) :
    (parseRequirement env x (layoutReq r ℓ)).fin.req?.map ReqOk.trim =
      some (r.components (st.tree.getD (.leaf true)) st.warns) := by
  rw [layoutReq_parse_marker env x r ℓ hwf hℓ hfit m hm st hst]
  simp only [expFinL_req, Option.map_some, expOkL_trim r ℓ hwf hℓ hnt]

/-- (L2) two layouts of the same requirement value without a marker are parsed to the same requirement
(up to the whitespace around the specifier texts) -/
theorem layout_independent (env : ProcEnv) (x : Ext) (r : ReqVal) (ℓ₁ ℓ₂ : Layout) (hwf : r.WFL)
    (h₁ : ℓ₁.Ws) (h₂ : ℓ₂.Ws) (f₁ : ℓ₁.Fits r) (f₂ : ℓ₂.Fits r) (hnt : r.NoTrailWs) (hm : r.marker = none) :
    (parseRequirement env x (layoutReq r ℓ₁)).fin.req?.map ReqOk.trim =
      (parseRequirement env x (layoutReq r ℓ₂)).fin.req?.map ReqOk.trim := by
  rw [layoutReq_components env x r ℓ₁ hwf h₁ f₁ hnt hm, layoutReq_components env x r ℓ₂ hwf h₂ f₂ hnt hm]

/-- (L2) … and with a marker, provided the marker parser returns the same tree and warnings on the marker
text in both written forms -/
theorem layout_independent_marker (env : ProcEnv) (x : Ext) (r : ReqVal) (ℓ₁ ℓ₂ : Layout) (hwf : r.WFL)
    (h₁ : ℓ₁.Ws) (h₂ : ℓ₂.Ws) (f₁ : ℓ₁.Fits r) (f₂ : ℓ₂.Fits r) (hnt : r.NoTrailWs)
    (m : List Char) (hm : r.marker = some m) (st₁ st₂ : PState)
    (hst₁ : parseMarkersCursor x (4 * (layoutReq r ℓ₁).length + 16)
      ⟨layoutReq r ℓ₁, m ++ ℓ₁.trail, ℓ₁.markerPos r⟩ = .ok st₁)
    (hst₂ : parseMarkersCursor x (4 * (layoutReq r ℓ₂).length + 16)
      ⟨layoutReq r ℓ₂, m ++ ℓ₂.trail, ℓ₂.markerPos r⟩ = .ok st₂)
    (htree : st₁.tree = st₂.tree) (hwarns : st₁.warns = st₂.warns) :
    (parseRequirement env x (layoutReq r ℓ₁)).fin.req?.map ReqOk.trim =
      (parseRequirement env x (layoutReq r ℓ₂)).fin.req?.map ReqOk.trim := by
  rw [layoutReq_components_marker env x r ℓ₁ hwf h₁ f₁ hnt m hm st₁ hst₁,
    layoutReq_components_marker env x r ℓ₂ hwf h₂ f₂ hnt m hm st₂ hst₂, htree, hwarns]

/-- a written requirement is never rejected (as long as the marker parser accepts the marker text) -/
theorem layoutReq_never_rejected (env : ProcEnv) (x : Ext) (r : ReqVal) (ℓ : Layout) (hwf : r.WFL) (hℓ : ℓ.Ws)
    (hfit : ℓ.Fits r)
    (hmk : ∀ m, r.marker = some m → ∃ st, parseMarkersCursor x (4 * (layoutReq r ℓ).length + 16)
      ⟨layoutReq r ℓ, m ++ ℓ.trail, ℓ.markerPos r⟩ = .ok st) :
    ∃ ok, (parseRequirement env x (layoutReq r ℓ)).fin.req? = some ok := by
  cases hm : r.marker with
  | none => rw [layoutReq_parse env x r ℓ hwf hℓ hfit hm]; exact ⟨_, rfl⟩
  | some m =>
    obtain ⟨st, hst⟩ := hmk m hm
    rw [layoutReq_parse_marker env x r ℓ hwf hℓ hfit m hm st hst]
    exact ⟨_, expFinL_req r ℓ st⟩

/-! ### the printed form is one of the layouts -/

/-- the layout `Display` uses: no whitespace except one blank around `@` and `;` -/
def Layout.canon (r : ReqVal) : Layout where
  lead := []
  afterName := []
  exBrackets := false
  exOpen := []
  exSeps := []
  exClose := []
  beforeKind := match r.kind with | .url _ => [' '] | _ => []
  afterAt := [' ']
  parens := false
  parenOpen := []
  specSeps := []
  parenClose := []
  afterKind := if r.marker.isSome then [' '] else []
  afterSemi := [' ']
  trail := []

theorem padItems_plain (t : List Char) (ts : List (List Char)) (W : List Char) :
    joinComma ((padItems (t :: ts) [] [] W).map Padded.txt) = joinComma (t :: ts) ++ W := by
  induction ts generalizing t with
  | nil => simp [padItems, Padded.txt, joinComma]
  | cons t' ts ih =>
    have h := ih t'
    simp only [padItems, List.map_cons, List.tail_nil, List.headD_nil] at h ⊢
    obtain ⟨q, ps, hq, _, _⟩ := padItems_ne_nil (t := t') (ts := ts) [] [] W
    rw [hq] at h ⊢
    rw [joinComma_cons2 _ _ (by simp), h, joinComma_cons2 t (t' :: ts) (by simp)]
    simp [Padded.txt]

theorem canon_ws (r : ReqVal) : (Layout.canon r).Ws := by
  have hsp : AllWs [' '] := by intro c h; simp at h; subst h; decide
  refine ⟨AllWs.nil, AllWs.nil, AllWs.nil, ?_, AllWs.nil, ?_, hsp, AllWs.nil, ?_, AllWs.nil, ?_, hsp, AllWs.nil⟩
  · intro s h; simp [Layout.canon] at h
  · simp only [Layout.canon]; split
    · exact hsp
    · exact AllWs.nil
  · intro s h; simp [Layout.canon] at h
  · simp only [Layout.canon]; split
    · exact hsp
    · exact AllWs.nil

/-- `showReq r` is `r` written with the canonical layout -/
theorem showReq_is_layout (r : ReqVal) (hk : r.kind ≠ .specs []) :
    showReq r = layoutReq r (Layout.canon r) := by
  obtain ⟨name, es, kind, mk⟩ := r
  rw [showReq_eq]
  have hex : extrasL es (Layout.canon ⟨name, es, kind, mk⟩) = extrasTxt es := by
    cases es with
    | nil => rfl
    | cons e es =>
      simp only [extrasL, Layout.canon, extrasTxt, List.isEmpty_cons, Bool.false_eq_true, if_false]
      rw [padItems_plain]; simp
  simp only [layoutReq, layoutReqM, hex]
  cases kind with
  | none => cases mk <;> simp [Layout.canon, kindL, markerL, kindTxt, markerTxt]
  | url u => cases mk <;> simp [Layout.canon, kindL, markerL, kindTxt, markerTxt]
  | specs ts =>
    cases ts with
    | nil => exact absurd rfl hk
    | cons t ts =>
      cases mk <;>
        simp [Layout.canon, kindL, markerL, kindTxt, markerTxt, recTexts, padItems_plain]

/-! ### helpers for concrete instances -/

theorem allWs_of_all {w : List Char} (h : w.all isWs = true) : AllWs w := by
  intro c hc; exact List.all_eq_true.1 h c hc

theorem sepsWs_of_all {seps : List (List Char × List Char)}
    (h : seps.all (fun s => s.1.all isWs && s.2.all isWs) = true) : SepsWs seps := by
  intro s hs
  have := List.all_eq_true.1 h s hs
  simp only [Bool.and_eq_true] at this
  exact ⟨allWs_of_all this.1, allWs_of_all this.2⟩

/-- executable check of `Layout.Ws` -/
def Layout.wsOk (ℓ : Layout) : Bool :=
  ℓ.lead.all isWs && ℓ.afterName.all isWs && ℓ.exOpen.all isWs &&
  ℓ.exSeps.all (fun s => s.1.all isWs && s.2.all isWs) && ℓ.exClose.all isWs && ℓ.beforeKind.all isWs &&
  ℓ.afterAt.all isWs && ℓ.parenOpen.all isWs && ℓ.specSeps.all (fun s => s.1.all isWs && s.2.all isWs) &&
  ℓ.parenClose.all isWs && ℓ.afterKind.all isWs && ℓ.afterSemi.all isWs && ℓ.trail.all isWs

theorem Layout.ws_of_ok {ℓ : Layout} (h : ℓ.wsOk = true) : ℓ.Ws := by
  simp only [Layout.wsOk, Bool.and_eq_true] at h
  obtain ⟨⟨⟨⟨⟨⟨⟨⟨⟨⟨⟨⟨h1, h2⟩, h3⟩, h4⟩, h5⟩, h6⟩, h7⟩, h8⟩, h9⟩, h10⟩, h11⟩, h12⟩, h13⟩ := h
  exact ⟨allWs_of_all h1, allWs_of_all h2, allWs_of_all h3, sepsWs_of_all h4, allWs_of_all h5, allWs_of_all h6,
    allWs_of_all h7, allWs_of_all h8, sepsWs_of_all h9, allWs_of_all h10, allWs_of_all h11, allWs_of_all h12,
    allWs_of_all h13⟩

/-- the requirement parser on an input that starts with the name `a`, after the name stage -/
theorem parse_a (env : ProcEnv) (x : Ext) (rest : List Char)
    (hrest : ∀ ch, rest.head? = some ch → isNameChar ch = false) :
    parseRequirement env x ('a' :: rest) =
      match parseExtras (⟨'a' :: rest, rest, 1⟩ : Cursor).eatWhitespace with
      | .err e => ⟨[], .err e⟩
      | .panic s => ⟨[], .panic s⟩
      | .ok (extras, c2) =>
        tailStage x ('a' :: rest) 0 0 1 [97] extras (kindStage env 0 0 c2.eatWhitespace) := by
  rw [parseRequirement_eq]
  have h1 : (Cursor.new ('a' :: rest)).eatWhitespace = ⟨[] ++ ['a'] ++ rest, ['a'] ++ rest, strLen []⟩ := rfl
  rw [h1, parseName_a env [] rest hrest]
  rfl

end Pep508
