/-
Correct decomposition of a requirement (C07) and the URL-end rule (C18), stated without cursors.
-/
import Pep508.Proofs.ReqTotal
import Pep508.Proofs.Names
namespace Pep508

open Cursor

/-! ### the URL-end rule, declaratively (C18) -/

/-- "whitespace whose following non-whitespace char is `;`, `#` or the end of input" -/
def stopWsL (ch : Char) (r : List Char) : Bool :=
  isWs ch && (match (r.dropWhile isWs).head? with
    | none => true
    | some n => n == ';' || n == '#')

/-- "a `;` / `#` immediately followed by whitespace" -/
def gluedL (ch : Char) (r : List Char) : Bool :=
  (ch == ';' || ch == '#') && (match r.head? with | some n => isWs n | none => false)

/-- Where does the URL end in the text `t` (which starts right after the whitespace following `@`)?
`inl u`: the URL is the prefix `u` (it ends at the end of input, before a line break, or before a
whitespace char whose following non-whitespace char is `;`, `#` or the end of input).
`inr b`: ambiguous — after the prefix `b` comes a `;` / `#` immediately followed by whitespace, and
no stop event occurs earlier. -/
def urlEnd : List Char → List Char ⊕ List Char
  | [] => .inl []
  | ch :: r =>
    if ch == '\r' || ch == '\n' then .inl []
    else if stopWsL ch r then .inl []
    else if gluedL ch r then .inr []
    else
      match urlEnd r with
      | .inl u => .inl (ch :: u)
      | .inr b => .inr (ch :: b)

/-- the cursor `c` advanced by `n` chars -/
def urlAfter (c : Cursor) (n : Nat) : Cursor :=
  ⟨c.input, c.rest.drop n, c.pos + strLen (c.rest.take n)⟩

theorem skipWhile_eq (p : Char → Bool) (rest : List Char) (pos : Nat) :
    skipWhile p rest pos = (rest.dropWhile p, pos + strLen (rest.takeWhile p)) := by
  induction rest generalizing pos with
  | nil => rfl
  | cons ch r ih =>
    unfold skipWhile
    by_cases hp : p ch = true
    · simp only [hp, if_true, List.dropWhile_cons_of_pos, List.takeWhile_cons_of_pos, ih, strLen_cons,
        Prod.mk.injEq, true_and]
      omega
    · simp [hp]

theorem eatWhitespace_eq (c : Cursor) :
    c.eatWhitespace = ⟨c.input, c.rest.dropWhile isWs, c.pos + strLen (c.rest.takeWhile isWs)⟩ := by
  unfold eatWhitespace
  rw [skipWhile_eq]

theorem urlStopWs_eq (ch : Char) (c1 : Cursor) : urlStopWs ch c1 = stopWsL ch c1.rest := by
  unfold urlStopWs stopWsL peekChar
  rw [eatWhitespace_eq]
  rfl

theorem urlGlued_eq (ch : Char) (c1 : Cursor) : urlGlued ch c1 = gluedL ch c1.rest := rfl

theorem gluedL_len {ch : Char} {r : List Char} (h : gluedL ch r = true) : utf8Len ch = 1 := by
  simp only [gluedL, Bool.and_eq_true, Bool.or_eq_true, beq_iff_eq] at h
  rcases h.1 with rfl | rfl <;> decide

/-- C18: the scanning loop of `parse_url` agrees with the declarative `urlEnd` -/
theorem urlScan_eq_urlEnd (fuel : Nat) (c : Cursor) (len : Nat) (hf : c.rest.length < fuel) :
    urlScan fuel c len =
      match urlEnd c.rest with
      | .inl u => .inl (len + strLen u, urlAfter c (u.length + 1))
      | .inr b => .inr (c.pos + strLen b, 1) := by
  induction fuel generalizing c len with
  | zero => omega
  | succ fuel ih =>
    rw [urlScan_succ]
    obtain ⟨input, rest, pos⟩ := c
    cases rest with
    | nil => simp [Cursor.next, urlEnd, urlAfter]
    | cons ch r =>
      simp only [Cursor.next, urlEnd, urlStopWs_eq, urlGlued_eq]
      by_cases hnl : (ch == '\r' || ch == '\n') = true
      · simp only [hnl, if_true]
        simp [urlAfter]
      · simp only [hnl, Bool.false_eq_true, if_false]
        by_cases hws : stopWsL ch r = true
        · simp only [hws, if_true]
          simp [urlAfter]
        · simp only [hws, Bool.false_eq_true, if_false]
          by_cases hgl : gluedL ch r = true
          · simp only [hgl, if_true]
            simp [gluedL_len hgl]
          · simp only [hgl, Bool.false_eq_true, if_false]
            rw [ih]
            · simp only
              cases urlEnd r with
              | inl u =>
                simp only [urlAfter, strLen_cons, List.length_cons, List.drop_succ_cons,
                  List.take_succ_cons, Sum.inl.injEq, Prod.mk.injEq, Cursor.mk.injEq, true_and]
                omega
              | inr b =>
                simp only [strLen_cons, Sum.inr.injEq, Prod.mk.injEq, and_true]
                omega
            · simp only [List.length_cons] at hf ⊢
              omega

/-! #### `urlEnd` is "the first stop event", spelled out -/

/-- a stop event at the head of `r`: end of input, a line break, or a whitespace char whose following
non-whitespace char is `;`, `#` or the end of input -/
def stopAt : List Char → Bool
  | [] => true
  | ch :: r => (ch == '\r' || ch == '\n') || stopWsL ch r

/-- an ambiguity at the head of `r`: a `;` / `#` immediately followed by whitespace -/
def ambAt : List Char → Bool
  | [] => false
  | ch :: r => gluedL ch r

theorem urlEnd_inl_spec (t u : List Char) (h : urlEnd t = .inl u) :
    ∃ r, t = u ++ r ∧ stopAt r = true ∧
      ∀ a b, t = a ++ b → a.length < u.length → stopAt b = false ∧ ambAt b = false := by
  induction t generalizing u with
  | nil =>
    simp only [urlEnd, Sum.inl.injEq] at h
    subst h
    exact ⟨[], rfl, rfl, fun a b _ hl => by simp at hl⟩
  | cons ch r ih =>
    simp only [urlEnd] at h
    by_cases hnl : (ch == '\r' || ch == '\n') = true
    · simp only [hnl, if_true, Sum.inl.injEq] at h
      subst h
      exact ⟨ch :: r, rfl, by simp only [stopAt, hnl, Bool.true_or], fun a b _ hl => by simp at hl⟩
    · simp only [hnl, Bool.false_eq_true, if_false] at h
      by_cases hws : stopWsL ch r = true
      · simp only [hws, if_true, Sum.inl.injEq] at h
        subst h
        exact ⟨ch :: r, rfl, by simp only [stopAt, hws, Bool.or_true], fun a b _ hl => by simp at hl⟩
      · simp only [hws, Bool.false_eq_true, if_false] at h
        by_cases hgl : gluedL ch r = true
        · simp [hgl] at h
        · simp only [hgl, Bool.false_eq_true, if_false] at h
          cases hr : urlEnd r with
          | inr b => rw [hr] at h; simp at h
          | inl u' =>
            rw [hr] at h
            simp only [Sum.inl.injEq] at h
            subst h
            obtain ⟨r', h1, h2, h3⟩ := ih u' hr
            refine ⟨r', by rw [h1]; rfl, h2, ?_⟩
            intro a b hab hl
            cases a with
            | nil =>
              simp only [List.nil_append] at hab
              subst hab
              simp only [stopAt, ambAt]
              simp only [Bool.not_eq_true] at hnl hws hgl
              simp [hnl, hws, hgl]
            | cons x a' =>
              simp only [List.cons_append, List.cons.injEq] at hab
              exact h3 a' b hab.2 (by simpa using hl)

theorem urlEnd_inr_spec (t b : List Char) (h : urlEnd t = .inr b) :
    ∃ r, t = b ++ r ∧ ambAt r = true ∧ stopAt r = false ∧
      ∀ a b', t = a ++ b' → a.length < b.length → stopAt b' = false ∧ ambAt b' = false := by
  induction t generalizing b with
  | nil => simp [urlEnd] at h
  | cons ch r ih =>
    simp only [urlEnd] at h
    by_cases hnl : (ch == '\r' || ch == '\n') = true
    · simp [hnl] at h
    · simp only [hnl, Bool.false_eq_true, if_false] at h
      by_cases hws : stopWsL ch r = true
      · simp [hws] at h
      · simp only [hws, Bool.false_eq_true, if_false] at h
        simp only [Bool.not_eq_true] at hnl hws
        by_cases hgl : gluedL ch r = true
        · simp only [hgl, if_true, Sum.inr.injEq] at h
          subst h
          exact ⟨ch :: r, rfl, hgl, by simp [stopAt, hnl, hws], fun a b' _ hl => by simp at hl⟩
        · simp only [hgl, Bool.false_eq_true, if_false] at h
          simp only [Bool.not_eq_true] at hgl
          cases hr : urlEnd r with
          | inl u => rw [hr] at h; simp at h
          | inr b0 =>
            rw [hr] at h
            simp only [Sum.inr.injEq] at h
            subst h
            obtain ⟨r', h1, h2, h2', h3⟩ := ih b0 hr
            refine ⟨r', by rw [h1]; rfl, h2, h2', ?_⟩
            intro a b' hab hl
            cases a with
            | nil =>
              simp only [List.nil_append] at hab
              subst hab
              simp [stopAt, ambAt, hnl, hws, hgl]
            | cons x a' =>
              simp only [List.cons_append, List.cons.injEq] at hab
              exact h3 a' b' hab.2 (by simpa using hl)

/-- C18 at the level of `parse_url`: after skipping whitespace, the URL handed to the external parser
is `urlEnd` of the remaining text; an empty URL and an ambiguous end are errors at the stated
positions. -/
theorem parseUrl_eq_urlEnd {c : Cursor} (h : c.Inv) :
    parseUrl c =
      match urlEnd c.eatWhitespace.rest with
      | .inr b => serr (c.eatWhitespace.pos + strLen b) 1
      | .inl u =>
        if u.isEmpty then serr c.eatWhitespace.pos 0
        else .ok ((u, c.eatWhitespace.pos, strLen u), urlAfter c.eatWhitespace (u.length + 1)) := by
  have i0 := inv_eatWhitespace h
  unfold parseUrl
  generalize c.eatWhitespace = c0 at i0
  dsimp only
  rw [urlScan_eq_urlEnd _ _ _ (Nat.lt_succ_self _)]
  cases hr : urlEnd c0.rest with
  | inr b => rfl
  | inl u =>
    dsimp only
    obtain ⟨r, h1, _, _⟩ := urlEnd_inl_spec _ _ hr
    obtain ⟨pre, e1, e2⟩ := i0
    have hsl : (urlAfter c0 (u.length + 1)).slice c0.pos (0 + strLen u) = some u := by
      unfold Cursor.slice urlAfter
      dsimp only
      rw [e1, h1, e2, Nat.zero_add, ← List.append_assoc]
      exact sliceBytes_append _ _ _
    rw [hsl]
    simp only [Res.ofSlice, Nat.zero_add]
    by_cases hemp : u.isEmpty = true
    · simp only [hemp, if_true]
      have : u = [] := by simpa using hemp
      subst this
      rfl
    · simp only [hemp, Bool.false_eq_true, if_false]

/-! ### names are decomposed correctly (C07) -/

theorem alnum_not_sep {ch : Char} (h : isAsciiAlnum ch = true) :
    (ch == '.' || ch == '-' || ch == '_') = false := by
  cases hs : (ch == '.' || ch == '-' || ch == '_') with
  | false => rfl
  | true =>
    simp only [Bool.or_eq_true, beq_iff_eq] at hs
    rcases hs with (rfl | rfl) | rfl <;> exact absurd h (by decide)

/-- the loop of `parse_name` consumes exactly the remaining name chars `tl` -/
theorem parseNameLoop_accept (env : ProcEnv) (fuel : Nat) (input : List Char) (tl rest : List Char) (pos : Nat)
    (acc : List Char) (start : Nat) (n : List Nat)
    (hall : ∀ ch ∈ tl, isNameChar ch = true)
    (hlast : ∀ ch, (acc ++ tl).getLast? = some ch → isAsciiAlnum ch = true)
    (hrest : ∀ ch, rest.head? = some ch → isNameChar ch = false)
    (hv : Names.validateOwned (bytesOfChars (acc ++ tl)) = some n)
    (hf : tl.length < fuel) :
    parseNameLoop env fuel ⟨input, tl ++ rest, pos⟩ acc start = .ok (n, ⟨input, rest, pos + strLen tl⟩) := by
  induction fuel generalizing tl pos acc with
  | zero => omega
  | succ fuel ih =>
    unfold parseNameLoop
    cases tl with
    | nil =>
      simp only [List.append_nil] at hv
      cases rest with
      | nil => simp [Cursor.peek, hv]
      | cons r0 rs =>
        have := hrest r0 rfl
        simp [Cursor.peek, this, hv]
    | cons ch tl' =>
      have hnc : isNameChar ch = true := hall ch (List.mem_cons_self)
      have hp : (⟨input, ch :: (tl' ++ rest), pos⟩ : Cursor).peek = some (pos, ch) := rfl
      have hn : (⟨input, ch :: (tl' ++ rest), pos⟩ : Cursor).next =
          some ((pos, ch), ⟨input, tl' ++ rest, pos + utf8Len ch⟩) := rfl
      simp only [List.cons_append, hp, hn, hnc, if_true]
      have hcond : ((⟨input, tl' ++ rest, pos + utf8Len ch⟩ : Cursor).peek.isNone
          && (ch == '.' || ch == '-' || ch == '_')) = false := by
        cases hr : tl' ++ rest with
        | cons a b => simp [Cursor.peek]
        | nil =>
          have h1 : tl' = [] := (List.append_eq_nil_iff.1 hr).1
          subst h1
          have := hlast ch (by simp)
          simp [alnum_not_sep this]
      simp only [hcond, Bool.false_eq_true, if_false]
      rw [ih tl' (pos + utf8Len ch) (acc ++ [ch])]
      · simp only [strLen_cons, Nat.add_assoc]
      · intro c hc; exact hall c (List.mem_cons_of_mem _ hc)
      · intro c hc; exact hlast c (by simpa using hc)
      · simpa using hv
      · simp only [List.length_cons] at hf; omega

/-- B.1 (with the name validation as a hypothesis): `parse_name` on `pre ++ name ++ rest` positioned
after `pre` returns the validated name and stops exactly after `name` -/
theorem parseName_accept_of_valid (env : ProcEnv) (pre name rest : List Char) (n : List Nat)
    (hne : name ≠ [])
    (hfirst : ∀ ch, name.head? = some ch → isAsciiAlnum ch = true)
    (hall : ∀ ch ∈ name, isNameChar ch = true)
    (hlast : ∀ ch, name.getLast? = some ch → isAsciiAlnum ch = true)
    (hrest : ∀ ch, rest.head? = some ch → isNameChar ch = false)
    (hv : Names.validateOwned (bytesOfChars name) = some n) :
    parseName env ⟨pre ++ name ++ rest, name ++ rest, strLen pre⟩ =
      .ok (n, ⟨pre ++ name ++ rest, rest, strLen pre + strLen name⟩) := by
  cases name with
  | nil => exact absurd rfl hne
  | cons ch tl =>
    have h0 := hfirst ch rfl
    unfold parseName
    simp only [List.cons_append, Cursor.next, h0, if_true]
    rw [parseNameLoop_accept env _ _ tl rest _ [ch] _ n]
    · simp only [strLen_cons, Nat.add_assoc]
    · intro c hc; exact hall c (List.mem_cons_of_mem _ hc)
    · intro c hc; exact hlast c (by simpa using hc)
    · exact hrest
    · simpa using hv
    · simp only [List.length_append, List.length_cons]; omega

/-! #### the UTF-8 bytes of an ASCII string, and the char / byte predicates -/

theorem ba_get! (bs : ByteArray) (i : Nat) (hi : i < bs.data.toList.length) :
    bs.get! i = bs.data.toList[i] := by
  obtain ⟨arr⟩ := bs
  have hi' : i < arr.size := by simpa using hi
  show arr[i]! = arr.toList[i]
  rw [getElem!_pos arr i hi']
  simp

theorem ba_toList_loop (bs : ByteArray) (i : Nat) (r : List UInt8) :
    ByteArray.toList.loop bs i r = r.reverse ++ bs.data.toList.drop i := by
  fun_induction ByteArray.toList.loop bs i r with
  | case1 i r h ih =>
    rw [ih]
    have hi : i < bs.data.toList.length := by
      rw [Array.length_toList]; exact h
    rw [List.drop_eq_getElem_cons hi, ba_get! bs i hi, List.reverse_cons, List.append_assoc]
    rfl
  | case2 i r h =>
    have : bs.data.toList.length ≤ i := by
      rw [Array.length_toList]; exact Nat.le_of_not_lt h
    rw [List.drop_eq_nil_of_le this, List.append_nil]

theorem ba_toList (bs : ByteArray) : bs.toList = bs.data.toList := by
  unfold ByteArray.toList
  rw [ba_toList_loop]
  simp

theorem ascii_val {c : Char} (h : c.toNat < 128) : c.val ≤ 127 := by
  rw [UInt32.le_iff_toNat_le]
  have : c.val.toNat = c.toNat := rfl
  rw [this]
  show c.toNat ≤ 127
  omega

theorem ascii_byte {c : Char} (h : c.toNat < 128) : c.val.toUInt8.toNat = c.toNat := by
  have : c.val.toNat = c.toNat := rfl
  rw [UInt32.toNat_toUInt8, this]
  omega

theorem ascii_utf8Size {c : Char} (h : c.toNat < 128) : c.utf8Size = 1 := by
  unfold Char.utf8Size
  simp [ascii_val h]

/-- the UTF-8 bytes of an all-ASCII string are its char codes -/
theorem bytesOfChars_ascii (s : List Char) (h : ∀ c ∈ s, c.toNat < 128) :
    bytesOfChars s = s.map Char.toNat := by
  unfold bytesOfChars
  rw [ba_toList, String.toUTF8_eq_toByteArray, String.toByteArray_ofList]
  induction s with
  | nil => simp
  | cons c l ih =>
    have hc := h c List.mem_cons_self
    rw [List.utf8Encode_cons, ByteArray.toList_data_append, List.map_append,
      ih (fun x hx => h x (List.mem_cons_of_mem _ hx)), List.utf8Encode_singleton,
      String.utf8EncodeChar_eq_singleton (ascii_utf8Size hc), List.toList_data_toByteArray]
    simp only [List.map_cons, List.map_nil, List.singleton_append, List.cons.injEq, and_true]
    exact ascii_byte hc

theorem isAsciiAlnum_iff (c : Char) :
    isAsciiAlnum c = (decide (c.toNat < 128) && Names.isAlnum c.toNat) := by
  have hv : c.val.toNat = c.toNat := rfl
  simp only [isAsciiAlnum, Char.isAlphanum, Char.isAlpha, Char.isUpper, Char.isLower, Char.isDigit,
    Names.isAlnum, Names.isUpper, Names.isLower, Names.isDigit, ge_iff_le, UInt32.le_iff_toNat_le, hv,
    show 'A'.val.toNat = 65 from rfl, show 'Z'.val.toNat = 90 from rfl, show 'a'.val.toNat = 97 from rfl,
    show 'z'.val.toNat = 122 from rfl, show '0'.val.toNat = 48 from rfl, show '9'.val.toNat = 57 from rfl,
    Bool.decide_and]

theorem char_beq_toNat {c d : Char} : (c == d) = (c.toNat == d.toNat) := by
  by_cases h : c = d
  · subst h; simp
  · have : c.toNat ≠ d.toNat := fun e => h (Char.ext (UInt32.toNat_inj.1 e))
    rw [beq_eq_false_iff_ne.2 h, beq_eq_false_iff_ne.2 this]

theorem isNameChar_iff (c : Char) :
    isNameChar c = (decide (c.toNat < 128) && Names.allowed c.toNat) := by
  simp only [isNameChar, isAsciiAlnum_iff, Names.allowed, Names.isSep, char_beq_toNat (d := '.'),
    char_beq_toNat (d := '-'), char_beq_toNat (d := '_'), show '.'.toNat = 46 from rfl,
    show '-'.toNat = 45 from rfl, show '_'.toNat = 95 from rfl]
  by_cases h : c.toNat < 128
  · simp only [h, decide_true, Bool.true_and]
    cases Names.isAlnum c.toNat <;> cases (c.toNat == 46) <;> cases (c.toNat == 45) <;>
      cases (c.toNat == 95) <;> rfl
  · have h1 : (c.toNat == 46) = false := by simp; omega
    have h2 : (c.toNat == 45) = false := by simp; omega
    have h3 : (c.toNat == 95) = false := by simp; omega
    simp [h, h1, h2, h3]

/-- a char-level well-formed name is a `ValidName` at the byte level, hence validates -/
theorem name_validates (name : List Char) (hne : name ≠ [])
    (hfirst : ∀ ch, name.head? = some ch → isAsciiAlnum ch = true)
    (hall : ∀ ch ∈ name, isNameChar ch = true)
    (hlast : ∀ ch, name.getLast? = some ch → isAsciiAlnum ch = true) :
    bytesOfChars name = name.map Char.toNat ∧
    Names.validateOwned (bytesOfChars name) = some (Names.normSpec (name.map Char.toNat)) := by
  have hascii : ∀ c ∈ name, c.toNat < 128 := by
    intro c hc
    have := hall c hc
    rw [isNameChar_iff] at this
    simp only [Bool.and_eq_true, decide_eq_true_eq] at this
    exact this.1
  have hb := bytesOfChars_ascii name hascii
  refine ⟨hb, ?_⟩
  rw [hb, Names.validateOwned_eq_validateRef]
  have hvalid : Names.ValidName (name.map Char.toNat) := by
    refine ⟨by simpa using hne, ?_, ?_, ?_⟩
    · intro b hbm
      obtain ⟨c, hc, rfl⟩ := List.mem_map.1 hbm
      have := hall c hc
      rw [isNameChar_iff] at this
      simp only [Bool.and_eq_true] at this
      exact this.2
    · intro b hh
      rw [List.head?_map] at hh
      cases hd : name.head? with
      | none => rw [hd] at hh; simp at hh
      | some c =>
        rw [hd] at hh
        simp only [Option.map_some, Option.some.injEq] at hh
        subst hh
        have := hfirst c hd
        rw [isAsciiAlnum_iff] at this
        simp only [Bool.and_eq_true] at this
        exact this.2
    · intro b hh
      rw [List.getLast?_map] at hh
      cases hd : name.getLast? with
      | none => rw [hd] at hh; simp at hh
      | some c =>
        rw [hd] at hh
        simp only [Option.map_some, Option.some.injEq] at hh
        subst hh
        have := hlast c hd
        rw [isAsciiAlnum_iff] at this
        simp only [Bool.and_eq_true] at this
        exact this.2
  have hsome := (Names.validateRef_isSome_iff _).2 hvalid
  cases hr : Names.validateRef (name.map Char.toNat) with
  | none => rw [hr] at hsome; simp at hsome
  | some r => rw [Names.validateRef_eq_normSpec _ _ hr]

/-- B.1: `parse_name` on `pre ++ name ++ rest`, positioned after `pre`, where `name` is a non-empty
run of name chars that starts and ends with an ASCII alphanumeric and `rest` does not continue the
run: the result is the normalized name, and the cursor stops exactly after `name`. -/
theorem parseName_accept (env : ProcEnv) (pre name rest : List Char)
    (hne : name ≠ [])
    (hfirst : ∀ ch, name.head? = some ch → isAsciiAlnum ch = true)
    (hall : ∀ ch ∈ name, isNameChar ch = true)
    (hlast : ∀ ch, name.getLast? = some ch → isAsciiAlnum ch = true)
    (hrest : ∀ ch, rest.head? = some ch → isNameChar ch = false) :
    parseName env ⟨pre ++ name ++ rest, name ++ rest, strLen pre⟩ =
      .ok (Names.normSpec (name.map Char.toNat),
        ⟨pre ++ name ++ rest, rest, strLen pre + strLen name⟩) :=
  parseName_accept_of_valid env pre name rest _ hne hfirst hall hlast hrest
    (name_validates name hne hfirst hall hlast).2

/-! ### B.2: leading whitespace (after F19)

Before F19 `parse_pep508_requirement` ran `looks_like_unnamed_requirement` on a clone positioned
*before* the leading whitespace, where the non-whitespace token is empty, so ` a/b` got the generic
"expected one of …" error while `a/b` got the unsupported-requirement one (this file used to prove
that difference, `leading_ws_changes_outcome`).  The code now rewinds to the start of the name. -/

theorem parseName_a (env : ProcEnv) (pre rest : List Char)
    (hrest : ∀ ch, rest.head? = some ch → isNameChar ch = false) :
    parseName env ⟨pre ++ ['a'] ++ rest, ['a'] ++ rest, strLen pre⟩ =
      .ok (Names.normSpec [97], ⟨pre ++ ['a'] ++ rest, rest, strLen pre + 1⟩) :=
  parseName_accept env pre ['a'] rest (by simp) (by intro ch h; simp at h; subst h; decide)
    (by intro ch h; simp at h; subst h; decide) (by intro ch h; simp at h; subst h; decide) hrest

/-- the former counterexample to whitespace-independence: `a/b` and ` a/b` now get the same
diagnosis; the span starts at the beginning of the input and ends with the token -/
theorem leading_ws_same_outcome (env : ProcEnv) (x : Ext) :
    (parseRequirement env x ['a', '/', 'b']).fin = .err ⟨.unsupported, 0, 3⟩ ∧
    (parseRequirement env x [' ', 'a', '/', 'b']).fin = .err ⟨.unsupported, 0, 4⟩ := by
  constructor
  · rw [parseRequirement_eq]
    have h1 : (Cursor.new ['a', '/', 'b']).eatWhitespace =
        ⟨[] ++ ['a'] ++ ['/', 'b'], ['a'] ++ ['/', 'b'], strLen []⟩ := rfl
    rw [h1, parseName_a env [] ['/', 'b'] (by intro ch h; simp at h; subst h; decide)]
    rfl
  · rw [parseRequirement_eq]
    have h1 : (Cursor.new [' ', 'a', '/', 'b']).eatWhitespace =
        ⟨[' '] ++ ['a'] ++ ['/', 'b'], ['a'] ++ ['/', 'b'], strLen [' ']⟩ := rfl
    rw [h1, parseName_a env [' '] ['/', 'b'] (by intro ch h; simp at h; subst h; decide)]
    rfl

end Pep508
