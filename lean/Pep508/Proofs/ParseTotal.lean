/-
Totality of the marker parser model: no slice / unreachable panic for any input, and error spans
start on a char boundary of the input.
-/
import Pep508.Model.MarkerParse
import Pep508.Proofs.CursorInv
namespace Pep508

open Cursor

/-- outcome predicate: `ok` keeps the cursor invariant on the same input, `err` starts on a
char boundary, and the only panic site allowed is one satisfying `allow` -/
def Res.Good {β : Type} (input : List Char) (cur : β → Cursor) (allow : String → Prop) (r : Res β) : Prop :=
  match r with
  | .ok b => (cur b).Inv ∧ (cur b).input = input
  | .err e => Boundary input e.start
  | .panic s => allow s

/-- no panic at all -/
abbrev NoPanic : String → Prop := fun _ => False
/-- only the fuel ("stack") panic -/
abbrev OnlyStack : String → Prop := fun s => s = "stack"

@[simp] theorem Res.good_ok {β} (input cur allow) (b : β) :
    Res.Good input cur allow (.ok b) = ((cur b).Inv ∧ (cur b).input = input) := rfl
@[simp] theorem Res.good_err {β} (input) (cur : β → Cursor) (allow e) :
    Res.Good input cur allow (.err e : Res β) = Boundary input e.start := rfl
@[simp] theorem Res.good_panic {β} (input) (cur : β → Cursor) (allow s) :
    Res.Good input cur allow (.panic s : Res β) = allow s := rfl
@[simp] theorem Res.good_serr {β} (input) (cur : β → Cursor) (allow) (s l : Nat) :
    Res.Good input cur allow (serr s l : Res β) = Boundary input s := rfl

/-- `Res.Good` spelled out -/
theorem Res.good_iff {β : Type} (input : List Char) (cur : β → Cursor) (allow : String → Prop) (r : Res β) :
    Res.Good input cur allow r ↔
      (∀ b, r = .ok b → (cur b).Inv ∧ (cur b).input = input) ∧
      (∀ e, r = .err e → Boundary input e.start) ∧
      (∀ s, r = .panic s → allow s) := by
  cases r with
  | ok b => simp
  | err e => simp
  | panic s => simp

theorem nextExpectChar_good {c : Cursor} (h : c.Inv) (exp : Char) {sp : Nat}
    (hs : Boundary c.input sp) : Res.Good c.input id NoPanic (nextExpectChar c exp sp) := by
  unfold nextExpectChar
  cases hn : c.next with
  | none => simpa using hs
  | some v =>
    obtain ⟨⟨pos, ch⟩, c'⟩ := v
    obtain ⟨h1, h2, _, h4⟩ := next_spec h hn
    by_cases hc : (ch == exp) = true
    · simp [hc, h1, h2]
    · simp [hc, h4]

/-! ### operator -/

/-- `parse_marker_operator` after the `take_while` -/
def opTail (tw : (Nat × Nat) × Cursor) : Res (MOp × Cursor) :=
  match Res.ofSlice (tw.2.slice tw.1.1 tw.1.2) with
  | .panic s => .panic s
  | .err e => .err e
  | .ok operator =>
    if String.ofList operator == "not" then
      match tw.2.next with
      | none => serr tw.2.pos 1
      | some ((pos, w), c2) =>
        if isWs w then
          let c3 := c2.eatWhitespace
          match nextExpectChar c3 'i' c3.pos with
          | .ok c4 =>
            match nextExpectChar c4 'n' c4.pos with
            | .ok c5 => .ok (.notIn, c5)
            | .err e => .err e
            | .panic s => .panic s
          | .err e => .err e
          | .panic s => .panic s
        else serr pos (utf8Len w)
    else
      match opOfToken (String.ofList operator) with
      | some op => .ok (op, tw.2)
      | none => serr tw.1.1 tw.1.2

theorem parseMarkerOperator_eq (x : Ext) (c : Cursor) :
    ∃ p, parseMarkerOperator x c = opTail (c.takeWhile p) := by
  unfold parseMarkerOperator
  cases hp : c.peekChar with
  | none =>
    refine ⟨fun ch => ch == '<' || ch == '=' || ch == '>' || ch == '~' || ch == '!', ?_⟩
    simp only [Bool.false_eq_true, if_false]
    rfl
  | some ch =>
    cases ha : x.alpha ch with
    | false =>
      refine ⟨fun ch => ch == '<' || ch == '=' || ch == '>' || ch == '~' || ch == '!', ?_⟩
      simp only [ha, Bool.false_eq_true, if_false]
      rfl
    | true =>
      refine ⟨fun ch => !isWs ch && ch != '\'' && ch != '"', ?_⟩
      simp only [ha, if_true]
      rfl

theorem opTail_good {c : Cursor} (h : c.Inv) (p : Char → Bool) :
    Res.Good c.input Prod.snd NoPanic (opTail (c.takeWhile p)) := by
  obtain ⟨taken, hs⟩ := takeWhile_slice_some h p
  have hi := inv_takeWhile h p
  have hin := takeWhile_input c p
  unfold opTail
  rw [hs]
  simp only [Res.ofSlice]
  by_cases hnot : (String.ofList taken == "not") = true
  · simp only [hnot, if_true]
    cases hn : (c.takeWhile p).2.next with
    | none => simpa [hin] using hi.boundary
    | some v =>
      obtain ⟨⟨pos, w⟩, c2⟩ := v
      obtain ⟨h1, h2, _, h4⟩ := next_spec hi hn
      rw [hin] at h2 h4
      simp only
      by_cases hw : isWs w = true
      · simp only [hw, if_true]
        have h3 := inv_eatWhitespace h1
        have g1 := nextExpectChar_good h3 'i' h3.boundary
        simp only [eatWhitespace_input, h2] at g1
        cases e1 : nextExpectChar c2.eatWhitespace 'i' c2.eatWhitespace.pos with
        | ok c4 =>
          rw [e1] at g1
          simp only [Res.good_ok, id] at g1
          dsimp only
          have g2 := nextExpectChar_good g1.1 'n' g1.1.boundary
          rw [g1.2] at g2
          cases e2 : nextExpectChar c4 'n' c4.pos with
          | ok c5 => rw [e2] at g2; simpa using g2
          | err e => rw [e2] at g2; simpa using g2
          | panic s => rw [e2] at g2; simpa using g2
        | err e => rw [e1] at g1; simpa using g1
        | panic s => rw [e1] at g1; simpa using g1
      · simp only [hw]
        simpa using h4
  · simp only [hnot]
    cases ho : opOfToken (String.ofList taken) with
    | some op => simp [hi]
    | none =>
      exact h.boundary

theorem parseMarkerOperator_good (x : Ext) {c : Cursor} (h : c.Inv) :
    Res.Good c.input Prod.snd NoPanic (parseMarkerOperator x c) := by
  obtain ⟨p, hp⟩ := parseMarkerOperator_eq x c
  rw [hp]
  exact opTail_good h p

/-! ### value -/

theorem takeWhile_cases {c : Cursor} (h : c.Inv) (p : Char → Bool) {start len : Nat} {c' : Cursor}
    (htw : c.takeWhile p = ((start, len), c')) :
    c'.Inv ∧ c'.input = c.input ∧ start = c.pos ∧ ∃ taken, c'.slice start len = some taken := by
  have h1 := inv_takeWhile h p
  have h2 := takeWhile_input c p
  have h3 := takeWhile_slice_some h p
  have h4 := @takeWhile_start c p
  rw [htw] at h1 h2 h3 h4
  exact ⟨h1, h2, h4, h3⟩

theorem parseMarkerValue_good {c : Cursor} (h : c.Inv) :
    Res.Good c.input Prod.snd NoPanic (parseMarkerValue c) := by
  unfold parseMarkerValue
  cases hp : c.peek with
  | none => exact h.boundary
  | some v =>
    obtain ⟨startPos, q⟩ := v
    dsimp only
    have hsp := peek_pos hp
    by_cases hq : (q == '"' || q == '\'') = true
    · simp only [hq, if_true]
      obtain ⟨c1, hn⟩ := peek_next hp
      obtain ⟨i1, e1, _, _⟩ := next_spec h hn
      rw [hn]
      dsimp only
      cases htw : c1.takeWhile (fun ch => ch != q) with
      | mk sl c2 =>
        obtain ⟨start, len⟩ := sl
        obtain ⟨i2, e2, _, taken, hs⟩ := takeWhile_cases i1 _ htw
        dsimp only
        rw [hs]
        simp only [Res.ofSlice]
        have g := nextExpectChar_good i2 q (sp := startPos) (by rw [e2, e1, hsp]; exact h.boundary)
        rw [e2, e1] at g
        cases e : nextExpectChar c2 q startPos with
        | ok c3 => rw [e] at g; simpa using g
        | err e' => rw [e] at g; simpa using g
        | panic s => rw [e] at g; simpa using g
    · simp only [hq]
      cases htw : c.takeWhile (fun ch =>
        !isWs ch && !(ch == '>' || ch == '=' || ch == '<' || ch == '!' || ch == '~' || ch == ')')) with
      | mk sl c1 =>
        obtain ⟨start, len⟩ := sl
        obtain ⟨i1, e1, hst, taken, hs⟩ := takeWhile_cases h _ htw
        dsimp only
        rw [hs]
        simp only [Res.ofSlice]
        cases hk : keyOfName (String.ofList taken) with
        | some v => simp [i1, e1]
        | none =>
          show Boundary c.input start
          rw [hst]; exact h.boundary

/-! ### key op value -/

theorem parseKeyOpValue_good (x : Ext) {c : Cursor} (h : c.Inv) :
    Res.Good c.input Prod.snd NoPanic (parseKeyOpValue x c) := by
  unfold parseKeyOpValue
  have g1 := parseMarkerValue_good (inv_eatWhitespace h)
  rw [eatWhitespace_input] at g1
  cases e1 : parseMarkerValue c.eatWhitespace with
  | panic s => rw [e1] at g1; simpa using g1
  | err e => rw [e1] at g1; simpa using g1
  | ok v =>
    obtain ⟨l, c1⟩ := v
    rw [e1] at g1
    simp only [Res.good_ok] at g1
    dsimp only
    have g2 := parseMarkerOperator_good x (inv_eatWhitespace g1.1)
    rw [eatWhitespace_input, g1.2] at g2
    cases e2 : parseMarkerOperator x c1.eatWhitespace with
    | panic s => rw [e2] at g2; simpa using g2
    | err e => rw [e2] at g2; simpa using g2
    | ok v =>
      obtain ⟨op, c2⟩ := v
      rw [e2] at g2
      simp only [Res.good_ok] at g2
      dsimp only
      have g3 := parseMarkerValue_good (inv_eatWhitespace g2.1)
      rw [eatWhitespace_input, g2.2] at g3
      cases e3 : parseMarkerValue c2.eatWhitespace with
      | panic s => rw [e3] at g3; simpa using g3
      | err e => rw [e3] at g3; simpa using g3
      | ok v =>
        obtain ⟨r, c3⟩ := v
        rw [e3] at g3
        simpa using g3

/-! ### and / or / parentheses -/

theorem Res.Good.mono {β : Type} {input : List Char} {cur : β → Cursor} {a a' : String → Prop}
    {r : Res β} (h : Res.Good input cur a r) (ha : ∀ s, a s → a' s) : Res.Good input cur a' r := by
  cases r with
  | ok b => exact h
  | err e => exact h
  | panic s => exact ha s h

/-- the three statements proved together by induction on the fuel -/
def DescentOK (x : Ext) (fuel : Nat) : Prop :=
  (∀ c w, c.Inv → Res.Good c.input PState.cur OnlyStack (parseExpr x fuel c w)) ∧
  (∀ isAnd c w, c.Inv → Res.Good c.input PState.cur OnlyStack (parseOp x isAnd fuel c w)) ∧
  (∀ isAnd st, st.cur.Inv → Res.Good st.cur.input PState.cur OnlyStack (parseOpLoop x isAnd fuel st))

theorem parseExpr_step (x : Ext) (fuel : Nat) (ih : DescentOK x fuel) (c : Cursor) (w : List WarnKind)
    (h : c.Inv) : Res.Good c.input PState.cur OnlyStack (parseExpr x (fuel + 1) c w) := by
  simp only [parseExpr]
  have h0 := inv_eatWhitespace h
  cases he : c.eatWhitespace.eatChar '(' with
  | some v =>
    obtain ⟨startPos, c1⟩ := v
    obtain ⟨i1, e1, hsp⟩ := eatChar_spec h0 he
    rw [eatWhitespace_input] at e1
    dsimp only
    have g := ih.2.1 false c1 w i1
    rw [e1] at g
    cases e : parseOp x false fuel c1 w with
    | ok st =>
      rw [e] at g
      simp only [Res.good_ok] at g
      dsimp only
      have g2 := nextExpectChar_good g.1 ')' (sp := startPos)
        (by rw [g.2, hsp]; exact h0.boundary)
      rw [g.2] at g2
      cases e2 : nextExpectChar st.cur ')' startPos with
      | ok c2 => rw [e2] at g2; simpa using g2
      | err e' => rw [e2] at g2; simpa using g2
      | panic s => rw [e2] at g2; exact absurd g2 id
    | err e' => rw [e] at g; simpa using g
    | panic s => rw [e] at g; simpa using g
  | none =>
    dsimp only
    have g := parseKeyOpValue_good x h0
    rw [eatWhitespace_input] at g
    cases e : parseKeyOpValue x c.eatWhitespace with
    | ok v =>
      obtain ⟨⟨e', w'⟩, c1⟩ := v
      rw [e] at g; simpa using g
    | err e' => rw [e] at g; simpa using g
    | panic s => rw [e] at g; exact absurd g id

theorem parseOp_step (x : Ext) (fuel : Nat) (ih : DescentOK x fuel) (isAnd : Bool) (c : Cursor)
    (w : List WarnKind) (h : c.Inv) :
    Res.Good c.input PState.cur OnlyStack (parseOp x isAnd (fuel + 1) c w) := by
  simp only [parseOp]
  have g : Res.Good c.input PState.cur OnlyStack
      (if isAnd = true then parseExpr x fuel c w else parseOp x true fuel c w) := by
    cases isAnd
    · exact ih.2.1 true c w h
    · exact ih.1 c w h
  cases e : (if isAnd = true then parseExpr x fuel c w else parseOp x true fuel c w) with
  | ok st =>
    rw [e] at g
    simp only [Res.good_ok] at g
    dsimp only
    have g2 := ih.2.2 isAnd st g.1
    rw [g.2] at g2
    exact g2
  | err e' => rw [e] at g; simpa using g
  | panic s => rw [e] at g; simpa using g

theorem parseOpLoop_step (x : Ext) (fuel : Nat) (ih : DescentOK x fuel) (isAnd : Bool) (st : PState)
    (h : st.cur.Inv) :
    Res.Good st.cur.input PState.cur OnlyStack (parseOpLoop x isAnd (fuel + 1) st) := by
  simp only [parseOpLoop]
  have h0 := inv_eatWhitespace h
  cases hpw : st.cur.eatWhitespace.peekWhile (fun ch => !kwStop ch) with
  | mk start len =>
    obtain ⟨word, hs⟩ := peekWhile_slice_some h0 (fun ch => !kwStop ch)
    rw [hpw] at hs
    dsimp only
    rw [hs]
    simp only [Res.ofSlice]
    by_cases hk : (String.ofList word == (if isAnd = true then "and" else "or")) = true
    · simp only [hk, if_true]
      have i1 := inv_takeWhile h0 (fun ch => !kwStop ch)
      have e1 : (st.cur.eatWhitespace.takeWhile (fun ch => !kwStop ch)).2.input = st.cur.input := rfl
      generalize (st.cur.eatWhitespace.takeWhile (fun ch => !kwStop ch)).2 = c1 at i1 e1
      have g : Res.Good st.cur.input PState.cur OnlyStack
          (if isAnd = true then parseExpr x fuel c1 st.warns else parseOp x true fuel c1 st.warns) := by
        rw [← e1]
        cases isAnd
        · exact ih.2.1 true c1 _ i1
        · exact ih.1 c1 _ i1
      cases e : (if isAnd = true then parseExpr x fuel c1 st.warns else parseOp x true fuel c1 st.warns) with
      | ok st' =>
        rw [e] at g
        simp only [Res.good_ok] at g
        dsimp only
        have g2 := ih.2.2 isAnd ⟨combine isAnd st.tree st'.tree, st'.warns, st'.cur⟩ g.1
        dsimp only at g2
        rw [g.2] at g2
        exact g2
      | err e' => rw [e] at g; simpa using g
      | panic s => rw [e] at g; simpa using g
    · simp only [hk]
      simp [h0]

theorem descentOK (x : Ext) : ∀ fuel, DescentOK x fuel := by
  intro fuel
  induction fuel with
  | zero =>
    refine ⟨?_, ?_, ?_⟩
    · intro c w _; simp [parseExpr]
    · intro isAnd c w _; simp [parseOp]
    · intro isAnd st _; simp [parseOpLoop]
  | succ fuel ih =>
    exact ⟨parseExpr_step x fuel ih, parseOp_step x fuel ih, parseOpLoop_step x fuel ih⟩

/-- the descent, spelled out: for every fuel the three mutually recursive parsers return `ok` with
the invariant kept on the same input, or an error starting on a char boundary, or the model's
fuel panic — never a slice / unreachable panic -/
theorem descent_total (x : Ext) (fuel : Nat) :
    (∀ c w, c.Inv →
      (∀ st, parseExpr x fuel c w = .ok st → st.cur.Inv ∧ st.cur.input = c.input) ∧
      (∀ e, parseExpr x fuel c w = .err e → Boundary c.input e.start) ∧
      (∀ s, parseExpr x fuel c w = .panic s → s = "stack")) ∧
    (∀ isAnd c w, c.Inv →
      (∀ st, parseOp x isAnd fuel c w = .ok st → st.cur.Inv ∧ st.cur.input = c.input) ∧
      (∀ e, parseOp x isAnd fuel c w = .err e → Boundary c.input e.start) ∧
      (∀ s, parseOp x isAnd fuel c w = .panic s → s = "stack")) ∧
    (∀ isAnd st, st.cur.Inv →
      (∀ st', parseOpLoop x isAnd fuel st = .ok st' → st'.cur.Inv ∧ st'.cur.input = st.cur.input) ∧
      (∀ e, parseOpLoop x isAnd fuel st = .err e → Boundary st.cur.input e.start) ∧
      (∀ s, parseOpLoop x isAnd fuel st = .panic s → s = "stack")) := by
  obtain ⟨h1, h2, h3⟩ := descentOK x fuel
  exact ⟨fun c w h => (Res.good_iff _ _ _ _).1 (h1 c w h),
    fun isAnd c w h => (Res.good_iff _ _ _ _).1 (h2 isAnd c w h),
    fun isAnd st h => (Res.good_iff _ _ _ _).1 (h3 isAnd st h)⟩

/-- the lexing layer, spelled out -/
theorem parseKeyOpValue_total (x : Ext) {c : Cursor} (h : c.Inv) :
    (∀ v c', parseKeyOpValue x c = .ok (v, c') → c'.Inv ∧ c'.input = c.input) ∧
    (∀ e, parseKeyOpValue x c = .err e → Boundary c.input e.start) ∧
    (∀ s, parseKeyOpValue x c ≠ .panic s) := by
  obtain ⟨h1, h2, h3⟩ := (Res.good_iff _ _ _ _).1 (parseKeyOpValue_good x h)
  exact ⟨fun v c' e => h1 (v, c') e, h2, fun s e => h3 s e⟩

theorem parseMarkerValue_total {c : Cursor} (h : c.Inv) :
    (∀ v c', parseMarkerValue c = .ok (v, c') → c'.Inv ∧ c'.input = c.input) ∧
    (∀ e, parseMarkerValue c = .err e → Boundary c.input e.start) ∧
    (∀ s, parseMarkerValue c ≠ .panic s) := by
  obtain ⟨h1, h2, h3⟩ := (Res.good_iff _ _ _ _).1 (parseMarkerValue_good h)
  exact ⟨fun v c' e => h1 (v, c') e, h2, fun s e => h3 s e⟩

theorem parseMarkerOperator_total (x : Ext) {c : Cursor} (h : c.Inv) :
    (∀ v c', parseMarkerOperator x c = .ok (v, c') → c'.Inv ∧ c'.input = c.input) ∧
    (∀ e, parseMarkerOperator x c = .err e → Boundary c.input e.start) ∧
    (∀ s, parseMarkerOperator x c ≠ .panic s) := by
  obtain ⟨h1, h2, h3⟩ := (Res.good_iff _ _ _ _).1 (parseMarkerOperator_good x h)
  exact ⟨fun v c' e => h1 (v, c') e, h2, fun s e => h3 s e⟩

/-! ### entry points -/

theorem parseMarkersCursor_good (x : Ext) (fuel : Nat) {c : Cursor} (h : c.Inv) :
    Res.Good c.input PState.cur OnlyStack (parseMarkersCursor x fuel c) := by
  unfold parseMarkersCursor
  have g := (descentOK x fuel).2.1 false c [] h
  cases e : parseOp x false fuel c [] with
  | ok st =>
    rw [e] at g
    simp only [Res.good_ok] at g
    dsimp only
    have i1 := inv_eatWhitespace g.1
    cases hn : st.cur.eatWhitespace.next with
    | none => simp [i1, g.2]
    | some v =>
      obtain ⟨⟨pos, ch⟩, c2⟩ := v
      obtain ⟨_, _, _, hb⟩ := next_spec i1 hn
      rw [eatWhitespace_input, g.2] at hb
      exact hb
  | err e' => rw [e] at g; simpa using g
  | panic s => rw [e] at g; simpa using g

/-- the parser never reaches a slice / unreachable panic site, for any input and any externals -/
theorem parseMarkers_no_panic (x : Ext) (input : List Char) :
    ∀ s, parseMarkers x input = .panic s → s = "stack" := by
  intro s hs
  unfold parseMarkers at hs
  have g := parseMarkersCursor_good x (4 * input.length + 16) (inv_new input)
  cases e : parseMarkersCursor x (4 * input.length + 16) (Cursor.new input) with
  | ok st => rw [e] at hs; simp at hs
  | err e' => rw [e] at hs; simp at hs
  | panic s' =>
    rw [e] at hs g
    simp only [Res.panic.injEq] at hs
    subst hs
    exact g

theorem parseMarkers_err_boundary (x : Ext) (input : List Char) (e : PErr) :
    parseMarkers x input = .err e → Boundary input e.start := by
  intro hs
  unfold parseMarkers at hs
  have g := parseMarkersCursor_good x (4 * input.length + 16) (inv_new input)
  cases e1 : parseMarkersCursor x (4 * input.length + 16) (Cursor.new input) with
  | ok st => rw [e1] at hs; simp at hs
  | panic s' => rw [e1] at hs; simp at hs
  | err e' =>
    rw [e1] at hs g
    simp only [Res.err.injEq] at hs
    subst hs
    exact g

theorem parseMarkers_err_le (x : Ext) (input : List Char) (e : PErr) :
    parseMarkers x input = .err e → e.start ≤ strLen input :=
  fun h => (parseMarkers_err_boundary x input e h).le

/-- an error start can be used as a slice start (`&input[e.start..]` does not panic) -/
theorem parseMarkers_err_sliceable (x : Ext) (input : List Char) (e : PErr) :
    parseMarkers x input = .err e → ∃ r, dropBytes input e.start = some r :=
  fun h => (parseMarkers_err_boundary x input e h).dropBytes_isSome

theorem parseExpression_good (x : Ext) (input : List Char) :
    Res.Good input (fun _ => Cursor.new input) NoPanic (parseExpression x input) := by
  unfold parseExpression
  have g := parseKeyOpValue_good x (inv_new input)
  rw [new_input] at g
  cases e : parseKeyOpValue x (Cursor.new input) with
  | ok v =>
    obtain ⟨r, c⟩ := v
    rw [e] at g
    simp only [Res.good_ok] at g
    dsimp only
    have i1 := inv_eatWhitespace g.1
    cases hn : c.eatWhitespace.next with
    | none => simp [inv_new]
    | some v =>
      obtain ⟨⟨pos, ch⟩, c2⟩ := v
      obtain ⟨_, _, _, hb⟩ := next_spec i1 hn
      rw [eatWhitespace_input, g.2] at hb
      exact hb
  | err e' => rw [e] at g; simpa using g
  | panic s => rw [e] at g; exact absurd g id

/-- `parseExpression` has no fuel, so it never panics at all -/
theorem parseExpression_never_panics (x : Ext) (input : List Char) :
    ∀ s, parseExpression x input ≠ .panic s := by
  intro s hs
  have g := parseExpression_good x input
  rw [hs] at g
  exact g

theorem parseExpression_no_panic (x : Ext) (input : List Char) :
    ∀ s, parseExpression x input = .panic s → s = "stack" :=
  fun s hs => absurd hs (parseExpression_never_panics x input s)

theorem parseExpression_err_boundary (x : Ext) (input : List Char) (e : PErr) :
    parseExpression x input = .err e → Boundary input e.start := by
  intro hs
  have g := parseExpression_good x input
  rw [hs] at g
  exact g

theorem parseExpression_err_le (x : Ext) (input : List Char) (e : PErr) :
    parseExpression x input = .err e → e.start ≤ strLen input :=
  fun h => (parseExpression_err_boundary x input e h).le

end Pep508
