/-
`is_disjoint`: soundness, symmetry, agreement with `and`.
-/
import Pep508.Proofs.UnaryRestrict
set_option linter.unusedSectionVars false
set_option linter.unusedSimpArgs false
namespace Pep508
variable {νr νb α : Type}
variable [LT α] [LE α] [Std.IsLinearOrder α] [Std.LawfulOrderLT α] [DecidableLT α] [DecidableEq α]
variable [LT νr] [LE νr] [Std.IsLinearOrder νr] [Std.LawfulOrderLT νr] [DecidableLT νr] [DecidableEq νr]
variable [LT νb] [LE νb] [Std.IsLinearOrder νb] [Std.LawfulOrderLT νb] [DecidableLT νb] [DecidableEq νb]

/-! ### the double loop -/

theorem disjRow_iff (f : Tree νr νb α → Tree νr νb α → Bool) (l : Ivl α × Tree νr νb α)
    (rs : EdgeL νr νb α) :
    disjRow f l rs = true ↔ ∀ r ∈ rs, (r.1.inter l.1).valid = true → f l.2 r.2 = true := by
  induction rs with
  | nil => simp [disjRow]
  | cons r rest ih =>
    simp only [disjRow, Bool.and_eq_true, ih, List.mem_cons, forall_eq_or_imp]
    by_cases h : (r.1.inter l.1).valid = true <;> simp [h]

theorem disjRanges_iff (f : Tree νr νb α → Tree νr νb α → Bool) (ls rs : EdgeL νr νb α) :
    disjRanges f ls rs = true ↔
      ∀ l ∈ ls, ∀ r ∈ rs, (r.1.inter l.1).valid = true → f l.2 r.2 = true := by
  induction ls with
  | nil => simp [disjRanges]
  | cons l rest ih =>
    simp only [disjRanges, Bool.and_eq_true, ih, disjRow_iff, List.mem_cons, forall_eq_or_imp]

theorem Ivl.valid_inter_comm (a b : Ivl α) : (a.inter b).valid = (b.inter a).valid := by
  obtain ⟨al, ah⟩ := a
  obtain ⟨bl, bh⟩ := b
  cases al <;> cases ah <;> cases bl <;> cases bh <;>
    simp only [Ivl.inter, Ivl.valid, Bnd.maxLo, Bnd.minHi] <;> grind

/-- the edge that `firstHit` found -/
theorem firstHit_mem' (x : α) (es : EdgeL νr νb α) (c : Tree νr νb α) (h : firstHit x es = some c) :
    ∃ e ∈ es, e.2 = c ∧ e.1.mem x = true := by
  induction es with
  | nil => simp [firstHit] at h
  | cons e rest ih =>
    simp only [firstHit] at h
    split at h
    · rename_i hm; exact ⟨e, by simp, by simpa using h, hm⟩
    · obtain ⟨e', he', hc⟩ := ih h; exact ⟨e', by simp [he'], hc⟩

/-- evaluation of an edge list is evaluation of one of its children, on an edge holding the value -/
theorem evalL_true_mem (ρ : Env νr νb α) (x : α) (es : EdgeL νr νb α) (h : evalL ρ x es = true) :
    ∃ e ∈ es, e.1.mem x = true ∧ e.2.eval ρ = true := by
  rw [evalL_eq_firstHit] at h
  cases hf : firstHit x es with
  | none => simp [hf] at h
  | some c =>
    simp only [hf] at h
    obtain ⟨e, he, h1, h2⟩ := firstHit_mem' x es c hf
    exact ⟨e, he, h2, h1 ▸ h⟩

/-! ### C1. soundness -/

theorem isDisjointF_sound : ∀ (n : Nat) (x y : Tree νr νb α),
    x.size + y.size < n → x.OK → y.OK → isDisjointF n x y = true →
    ∀ ρ : Env νr νb α, ¬ (x.eval ρ = true ∧ y.eval ρ = true) := by
  intro n
  induction n with
  | zero => intro x y h; omega
  | succ n ih =>
    intro x y hsz hx hy hd ρ
    unfold isDisjointF at hd
    by_cases c1 : x = .leaf false ∨ y = .leaf false
    · rcases c1 with h | h <;> subst h <;> simp [Tree.eval]
    by_cases c2 : x = .leaf true ∨ y = .leaf true
    · simp [c1, c2] at hd
    by_cases c3 : x = y
    · subst c3; simp_all
    by_cases c4 : x.not = y
    · subst c4; rw [Tree.eval_not ρ x hx]; cases x.eval ρ <;> simp
    simp only [c1, c2, c3, c4, if_false] at hd
    -- a range node whose children are all disjoint from `z`
    have hmap : ∀ (v : νr) (es : Edges νr νb α) (z : Tree νr νb α), (Tree.rng v es).OK → z.OK →
        (Tree.rng v es).size + z.size < n + 1 →
        es.toList.all (fun e => isDisjointF n e.2 z) = true →
        ¬ ((Tree.rng v es).eval ρ = true ∧ z.eval ρ = true) := by
      intro v es z hok hz hs hall ⟨h1, h2⟩
      obtain ⟨hxo, _⟩ := Tree.OK_rng hok
      rw [Tree.eval_rng] at h1
      obtain ⟨e, he, _, h3⟩ := evalL_true_mem ρ _ _ h1
      simp only [List.all_eq_true] at hall
      exact ih e.2 z (by have := Tree.size_rng_child v es e he; omega) (hxo e he).2 hz
        (hall e he) ρ ⟨h3, h2⟩
    cases x with
    | leaf b => cases b <;> simp_all
    | rng vx ex =>
      cases y with
      | leaf b => cases b <;> simp_all
      | rng vy ey =>
        simp only [] at hd
        by_cases d1 : vx < vy
        · simp only [d1, if_true] at hd
          exact hmap vx ex _ hx hy hsz hd
        by_cases d2 : vy < vx
        · simp only [d1, d2, if_true, if_false] at hd
          intro ⟨h1, h2⟩
          exact hmap vy ey _ hy hx (by omega) hd ⟨h2, h1⟩
        simp only [d1, d2, if_false] at hd
        have hv : vx = vy := lt_asymm' d1 d2
        subst hv
        obtain ⟨hxo, _⟩ := Tree.OK_rng hx
        obtain ⟨hyo, _⟩ := Tree.OK_rng hy
        rw [disjRanges_iff] at hd
        intro ⟨h1, h2⟩
        rw [Tree.eval_rng] at h1 h2
        obtain ⟨l, hl, hlm, hle⟩ := evalL_true_mem ρ _ _ h1
        obtain ⟨r, hr, hrm, hre⟩ := evalL_true_mem ρ _ _ h2
        have hval : (r.1.inter l.1).valid = true :=
          Ivl.valid_of_mem _ (ρ.rv vx) (by rw [Ivl.mem_inter, hlm, hrm]; rfl)
        exact ih l.2 r.2 (by
          have := Tree.size_rng_child vx ex l hl
          have := Tree.size_rng_child vx ey r hr
          omega) (hxo l hl).2 (hyo r hr).2 (hd l hl r hr hval) ρ ⟨hle, hre⟩
      | bool vy hy' ly' =>
        simp only [] at hd
        exact hmap vx ex _ hx hy hsz hd
    | bool vx hx' lx' =>
      have sx : hx'.size < (Tree.bool vx hx' lx').size ∧ lx'.size < (Tree.bool vx hx' lx').size := by
        simp [Tree.size]; omega
      cases y with
      | leaf b => cases b <;> simp_all
      | rng vy ey =>
        simp only [] at hd
        intro ⟨h1, h2⟩
        exact hmap vy ey _ hy hx (by omega) hd ⟨h2, h1⟩
      | bool vy hy' ly' =>
        have sy : hy'.size < (Tree.bool vy hy' ly').size ∧ ly'.size < (Tree.bool vy hy' ly').size := by
          simp [Tree.size]; omega
        simp only [] at hd
        by_cases d1 : vx < vy
        · simp only [d1, if_true, Bool.and_eq_true] at hd
          have i1 := ih hx' _ (by omega) hx.1 hy hd.1 ρ
          have i2 := ih lx' _ (by omega) hx.2 hy hd.2 ρ
          intro ⟨h1, h2⟩
          simp only [Tree.eval] at h1
          split at h1
          · exact i1 ⟨h1, h2⟩
          · exact i2 ⟨h1, h2⟩
        by_cases d2 : vy < vx
        · simp only [d1, d2, if_true, if_false, Bool.and_eq_true] at hd
          have i1 := ih hy' _ (by omega) hy.1 hx hd.1 ρ
          have i2 := ih ly' _ (by omega) hy.2 hx hd.2 ρ
          intro ⟨h1, h2⟩
          simp only [Tree.eval] at h2
          split at h2
          · exact i1 ⟨h2, h1⟩
          · exact i2 ⟨h2, h1⟩
        simp only [d1, d2, if_false, Bool.and_eq_true] at hd
        have hv : vx = vy := lt_asymm' d1 d2
        subst hv
        have i1 := ih hx' hy' (by omega) hx.1 hy.1 hd.1 ρ
        have i2 := ih lx' ly' (by omega) hx.2 hy.2 hd.2 ρ
        intro ⟨h1, h2⟩
        simp only [Tree.eval] at h1 h2
        by_cases hb : ρ.bv vx = true
        · simp only [hb, if_true] at h1 h2; exact i1 ⟨h1, h2⟩
        · simp only [hb, if_false] at h1 h2; exact i2 ⟨h1, h2⟩

/-- **`is_disjoint` is sound**: markers reported disjoint are never both true -/
theorem isDisjoint_sound (x y : Tree νr νb α) (hx : x.OK) (hy : y.OK)
    (h : Tree.isDisjoint x y = true) (ρ : Env νr νb α) : ¬ (x.eval ρ = true ∧ y.eval ρ = true) :=
  isDisjointF_sound _ x y (by omega) hx hy h ρ

/-! ### C2. symmetry -/

theorem Tree.not_eq_comm (x y : Tree νr νb α) : x.not = y ↔ y.not = x := by
  constructor <;> (intro h; subst h; exact Tree.not_not _)

theorem disjRanges_comm (f : Tree νr νb α → Tree νr νb α → Bool) (hf : ∀ a b, f a b = f b a)
    (ls rs : EdgeL νr νb α) : disjRanges f ls rs = disjRanges f rs ls := by
  rw [Bool.eq_iff_iff, disjRanges_iff, disjRanges_iff]
  constructor
  · intro h r hr l hl hv
    rw [hf]; exact h l hl r hr (by rw [Ivl.valid_inter_comm]; exact hv)
  · intro h l hl r hr hv
    rw [hf]; exact h r hr l hl (by rw [Ivl.valid_inter_comm]; exact hv)

theorem isDisjointF_succ (n : Nat) (x y : Tree νr νb α) : isDisjointF (n + 1) x y =
    if x = .leaf false ∨ y = .leaf false then true
    else if x = .leaf true ∨ y = .leaf true then false
    else if x = y then false
    else if x.not = y then true
    else
      match x, y with
      | .rng vx ex, .rng vy ey =>
        if vx < vy then ex.toList.all (fun e => isDisjointF n e.2 y)
        else if vy < vx then ey.toList.all (fun e => isDisjointF n e.2 x)
        else disjRanges (isDisjointF n) ex.toList ey.toList
      | .rng _ ex, .bool _ _ _ => ex.toList.all (fun e => isDisjointF n e.2 y)
      | .bool _ _ _, .rng _ ey => ey.toList.all (fun e => isDisjointF n e.2 x)
      | .bool vx hx lx, .bool vy hy ly =>
        if vx < vy then isDisjointF n hx y && isDisjointF n lx y
        else if vy < vx then isDisjointF n hy x && isDisjointF n ly x
        else isDisjointF n hx hy && isDisjointF n lx ly
      | _, _ => false := by
  conv => lhs; unfold isDisjointF
  rfl

/-- **`is_disjoint` is symmetric** (for every fuel, without any hypothesis on the diagrams) -/
theorem isDisjointF_comm : ∀ (n : Nat) (x y : Tree νr νb α), isDisjointF n x y = isDisjointF n y x := by
  intro n
  induction n with
  | zero => intro x y; rw [isDisjointF.eq_1, isDisjointF.eq_1]
  | succ n ih =>
    intro x y
    rw [isDisjointF_succ, isDisjointF_succ]
    by_cases c1 : x = .leaf false ∨ y = .leaf false
    · have c1' := c1.symm; simp only [c1, c1', if_true]
    have c1' : ¬ (y = .leaf false ∨ x = .leaf false) := fun h => c1 h.symm
    by_cases c2 : x = .leaf true ∨ y = .leaf true
    · have c2' := c2.symm; simp only [c1, c1', c2, c2', if_true, if_false]
    have c2' : ¬ (y = .leaf true ∨ x = .leaf true) := fun h => c2 h.symm
    by_cases c3 : x = y
    · subst c3; rfl
    have c3' : ¬ y = x := fun h => c3 h.symm
    simp only [c1, c1', c2, c2', c3, c3', if_false]
    by_cases c4 : x.not = y
    · have c4' := (Tree.not_eq_comm x y).mp c4
      rw [if_pos c4, if_pos c4']
    have c4' : ¬ y.not = x := fun h => c4 ((Tree.not_eq_comm y x).mp h)
    rw [if_neg c4, if_neg c4']
    cases x with
    | leaf b => cases b <;> simp_all
    | rng vx ex =>
      cases y with
      | leaf b => cases b <;> simp_all
      | rng vy ey =>
        simp only []
        by_cases d1 : vx < vy
        · have d2 : ¬ vy < vx := by grind
          simp only [d1, d2, if_true, if_false]
        by_cases d2 : vy < vx
        · simp only [d1, d2, if_true, if_false]
        simp only [d1, d2, if_false]
        exact disjRanges_comm _ (ih) _ _
      | bool vy hy' ly' => simp only []
    | bool vx hx' lx' =>
      cases y with
      | leaf b => cases b <;> simp_all
      | rng vy ey => simp only []
      | bool vy hy' ly' =>
        simp only []
        by_cases d1 : vx < vy
        · have d2 : ¬ vy < vx := by grind
          simp only [d1, d2, if_true, if_false]
        by_cases d2 : vy < vx
        · simp only [d1, d2, if_true, if_false]
        simp only [d1, d2, if_false]
        rw [ih hx' hy', ih lx' ly']

theorem isDisjoint_comm (x y : Tree νr νb α) : Tree.isDisjoint x y = Tree.isDisjoint y x := by
  unfold Tree.isDisjoint
  rw [Nat.add_comm y.size x.size]
  exact isDisjointF_comm _ x y

/-! ### C3. agreement with conjunction -/

theorem createNodeR_eq_false_iff (v : νr) (es : EdgeL νr νb α) :
    createNodeR v es = .leaf false ↔ ∀ e ∈ es, e.2 = .leaf false := by
  unfold createNodeR
  cases es with
  | nil => simp
  | cons e rest =>
    obtain ⟨iv, c⟩ := e
    simp only
    split
    · rename_i h
      simp only [List.all_eq_true, beq_iff_eq] at h
      constructor
      · intro hc e he
        simp only [List.mem_cons] at he
        rcases he with he | he
        · subst he; exact hc
        · rw [h e he]; exact hc
      · intro hall; exact hall (iv, c) (by simp)
    · rename_i h
      simp only [reduceCtorEq, false_iff]
      intro hall
      apply h
      simp only [List.all_eq_true, beq_iff_eq]
      intro e he
      exact (hall e (by simp [he])).trans (hall (iv, c) (by simp)).symm

theorem createNodeB_eq_false_iff (v : νb) (h l : Tree νr νb α) :
    createNodeB v h l = .leaf false ↔ h = .leaf false ∧ l = .leaf false := by
  unfold createNodeB
  split
  · rename_i e; subst e; simp
  · rename_i e
    simp only [reduceCtorEq, false_iff]
    rintro ⟨rfl, rfl⟩; exact e rfl

theorem coalesce_all_iff (P : Tree νr νb α → Prop) (es : EdgeL νr νb α) :
    (∀ e ∈ coalesce es, P e.2) ↔ ∀ e ∈ es, P e.2 := by
  constructor
  · intro h e he
    obtain ⟨e', he', h'⟩ := coalesce_child_rev es e he
    rw [← h']; exact h e' he'
  · intro h e he
    obtain ⟨e', he', h'⟩ := coalesce_child_u es e he
    rw [h']; exact h e' he'

theorem mapE_all_iff (P : Tree νr νb α → Prop) (f : Tree νr νb α → Tree νr νb α)
    (es : EdgeL νr νb α) : (∀ e ∈ mapE f es, P e.2) ↔ ∀ e ∈ es, P (f e.2) := by
  unfold mapE
  rw [coalesce_all_iff]
  constructor
  · intro h e he
    exact h (e.1, f e.2) (List.mem_map.mpr ⟨e, he, rfl⟩)
  · intro h e he
    obtain ⟨e', he', rfl⟩ := List.mem_map.mp he
    exact h e' he'

theorem mem_productRow (f : Tree νr νb α → Tree νr νb α → Tree νr νb α)
    (l : Ivl α × Tree νr νb α) (rs : EdgeL νr νb α) (e : Ivl α × Tree νr νb α) :
    e ∈ productRow f l rs ↔
      ∃ r ∈ rs, (r.1.inter l.1).valid = true ∧ e = (r.1.inter l.1, f l.2 r.2) := by
  induction rs with
  | nil => simp [productRow]
  | cons r rest ih =>
    simp only [productRow]
    by_cases hv : (r.1.inter l.1).valid = true
    · rw [if_pos hv]
      simp only [List.mem_cons, ih]
      constructor
      · rintro (h | ⟨r', hr', h1, h2⟩)
        · exact ⟨r, Or.inl rfl, hv, h⟩
        · exact ⟨r', Or.inr hr', h1, h2⟩
      · rintro ⟨r', hr' | hr', h1, h2⟩
        · subst hr'; exact Or.inl h2
        · exact Or.inr ⟨r', hr', h1, h2⟩
    · rw [if_neg hv]
      simp only [List.mem_cons, ih]
      constructor
      · rintro ⟨r', hr', h1, h2⟩
        exact ⟨r', Or.inr hr', h1, h2⟩
      · rintro ⟨r', hr' | hr', h1, h2⟩
        · subst hr'; exact absurd h1 hv
        · exact ⟨r', hr', h1, h2⟩

theorem product_all_iff (P : Tree νr νb α → Prop) (f : Tree νr νb α → Tree νr νb α → Tree νr νb α)
    (ls rs : EdgeL νr νb α) : (∀ e ∈ product f ls rs, P e.2) ↔
      ∀ l ∈ ls, ∀ r ∈ rs, (r.1.inter l.1).valid = true → P (f l.2 r.2) := by
  induction ls with
  | nil => simp [product]
  | cons l rest ih =>
    simp only [product, List.mem_append, List.mem_cons, forall_eq_or_imp, ← ih]
    constructor
    · intro h
      refine ⟨?_, fun e he => h e (Or.inr he)⟩
      intro r hr hv
      exact h (r.1.inter l.1, f l.2 r.2) (Or.inl ((mem_productRow f l rs _).mpr ⟨r, hr, hv, rfl⟩))
    · rintro ⟨h1, h2⟩ e (he | he)
      · obtain ⟨r, hr, hv, rfl⟩ := (mem_productRow f l rs e).mp he
        exact h1 r hr hv
      · exact h2 e he

theorem andF_succ (n : Nat) (x y : Tree νr νb α) : andF (n + 1) x y =
    if x = .leaf true then y
    else if y = .leaf true then x
    else if x = y then x
    else if x = .leaf false ∨ y = .leaf false then .leaf false
    else if x.not = y then .leaf false
    else
      match x, y with
      | .rng vx ex, .rng vy ey =>
        if vx < vy then createNodeR vx (mapE (fun c => andF n c y) ex.toList)
        else if vy < vx then createNodeR vy (mapE (fun c => andF n c x) ey.toList)
        else createNodeR vx (applyRanges (andF n) ex.toList ey.toList)
      | .rng vx ex, .bool _ _ _ => createNodeR vx (mapE (fun c => andF n c y) ex.toList)
      | .bool _ _ _, .rng vy ey => createNodeR vy (mapE (fun c => andF n c x) ey.toList)
      | .bool vx hx lx, .bool vy hy ly =>
        if vx < vy then createNodeB vx (andF n hx y) (andF n lx y)
        else if vy < vx then createNodeB vy (andF n hy x) (andF n ly x)
        else createNodeB vx (andF n hx hy) (andF n lx ly)
      | _, _ => .leaf false := by
  conv => lhs; unfold andF
  rfl

/-- **`is_disjoint(x, y)` holds exactly when `and(x, y)` is the FALSE terminal** — for every fuel
    covering the operands; no well-formedness is needed -/
theorem isDisjointF_iff_andF : ∀ (n : Nat) (x y : Tree νr νb α), x.size + y.size < n →
    (isDisjointF n x y = true ↔ andF n x y = .leaf false) := by
  intro n
  induction n with
  | zero => intro x y h; omega
  | succ n ih =>
    intro x y hsz
    rw [isDisjointF_succ, andF_succ]
    have hmap : ∀ (v : νr) (es : Edges νr νb α) (z : Tree νr νb α),
        (Tree.rng v es).size + z.size < n + 1 →
        (es.toList.all (fun e => isDisjointF n e.2 z) = true ↔
          createNodeR v (mapE (fun c => andF n c z) es.toList) = .leaf false) := by
      intro v es z hs
      rw [createNodeR_eq_false_iff, mapE_all_iff (fun t => t = .leaf false)]
      simp only [List.all_eq_true]
      constructor
      · intro h e he
        exact (ih e.2 z (by have := Tree.size_rng_child v es e he; omega)).mp (h e he)
      · intro h e he
        exact (ih e.2 z (by have := Tree.size_rng_child v es e he; omega)).mpr (h e he)
    by_cases a1 : x = .leaf true
    · subst a1
      by_cases a2 : y = .leaf false
      · subst a2; simp
      · by_cases a3 : y = .leaf true <;> simp [a2, a3]
    by_cases a2 : y = .leaf true
    · subst a2
      by_cases a3 : x = .leaf false
      · subst a3; simp
      · simp [a1, a3]
    by_cases a3 : x = y
    · subst a3
      by_cases a4 : x = .leaf false
      · subst a4; simp
      · simp [a1, a4]
    by_cases c1 : x = .leaf false ∨ y = .leaf false
    · simp only [a1, a2, a3, c1, if_true, if_false]
    by_cases c4 : x.not = y
    · simp only [a1, a2, a3, c1, c4, or_self, if_true, if_false]
    simp only [a1, a2, a3, c1, c4, or_self, if_false]
    cases x with
    | leaf b => cases b <;> simp_all
    | rng vx ex =>
      cases y with
      | leaf b => cases b <;> simp_all
      | rng vy ey =>
        simp only []
        by_cases d1 : vx < vy
        · simp only [d1, if_true]
          exact hmap vx ex _ hsz
        by_cases d2 : vy < vx
        · simp only [d1, d2, if_true, if_false]
          exact hmap vy ey _ (by omega)
        simp only [d1, d2, if_false]
        rw [createNodeR_eq_false_iff, disjRanges_iff]
        unfold applyRanges
        rw [coalesce_all_iff (fun t => t = .leaf false), product_all_iff (fun t => t = .leaf false)]
        constructor
        · intro h l hl r hr hv
          exact (ih l.2 r.2 (by
            have := Tree.size_rng_child vx ex l hl
            have := Tree.size_rng_child vy ey r hr
            omega)).mp (h l hl r hr hv)
        · intro h l hl r hr hv
          exact (ih l.2 r.2 (by
            have := Tree.size_rng_child vx ex l hl
            have := Tree.size_rng_child vy ey r hr
            omega)).mpr (h l hl r hr hv)
      | bool vy hy' ly' =>
        simp only []
        exact hmap vx ex _ hsz
    | bool vx hx' lx' =>
      have sx : hx'.size < (Tree.bool vx hx' lx').size ∧ lx'.size < (Tree.bool vx hx' lx').size := by
        simp [Tree.size]; omega
      cases y with
      | leaf b => cases b <;> simp_all
      | rng vy ey =>
        simp only []
        exact hmap vy ey _ (by omega)
      | bool vy hy' ly' =>
        have sy : hy'.size < (Tree.bool vy hy' ly').size ∧ ly'.size < (Tree.bool vy hy' ly').size := by
          simp [Tree.size]; omega
        simp only []
        by_cases d1 : vx < vy
        · simp only [d1, if_true, Bool.and_eq_true, createNodeB_eq_false_iff]
          rw [ih hx' _ (by omega), ih lx' _ (by omega)]
        by_cases d2 : vy < vx
        · simp only [d1, d2, if_true, if_false, Bool.and_eq_true, createNodeB_eq_false_iff]
          rw [ih hy' _ (by omega), ih ly' _ (by omega)]
        simp only [d1, d2, if_false, Bool.and_eq_true, createNodeB_eq_false_iff]
        rw [ih hx' hy' (by omega), ih lx' ly' (by omega)]

theorem isDisjoint_iff_and (x y : Tree νr νb α) :
    Tree.isDisjoint x y = true ↔ Tree.and x y = .leaf false :=
  isDisjointF_iff_andF _ x y (by omega)

end Pep508
