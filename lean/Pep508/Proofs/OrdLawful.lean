/-
C16 — `Ord for MarkerTree` is a lawful total order, consistent with structural equality.

Everything here is about `Pep508.Model.Kind` (`cmpOfLt`, `cmpLo`, `cmpHi`, `cmpIvl`, `Tree.cmp`,
`Edges.cmp`) and holds for ALL trees (no well-formedness hypothesis) over arbitrary linear orders
of values / variables.
-/
import Pep508.Model.Kind
set_option linter.unusedSectionVars false
namespace Pep508

/-! ### generic facts about `Ordering` -/

/-- the three results `o₁ = c a b`, `o₂ = c b d`, `o₃ = c a d` of a comparison are related the way
    transitivity demands (weak, both strict forms, and the equivalence form) -/
def TransAt (o₁ o₂ o₃ : Ordering) : Prop :=
  (o₁ ≠ .gt → o₂ ≠ .gt → o₃ ≠ .gt) ∧ (o₁ = .lt → o₂ ≠ .gt → o₃ = .lt) ∧
  (o₁ ≠ .gt → o₂ = .lt → o₃ = .lt) ∧ (o₁ = .eq → o₂ = .eq → o₃ = .eq)

/-- a lexicographic combination of two transitive comparisons is transitive -/
theorem TransAt.then : ∀ {o₁ o₂ o₃ p₁ p₂ p₃ : Ordering}, TransAt o₁ o₂ o₃ → TransAt p₁ p₂ p₃ →
    TransAt (o₁.then p₁) (o₂.then p₂) (o₃.then p₃) := by
  intro o₁ o₂ o₃ p₁ p₂ p₃
  cases o₁ <;> cases o₂ <;> cases o₃ <;> simp [TransAt, Ordering.then] <;>
    cases p₁ <;> cases p₂ <;> cases p₃ <;> simp

theorem TransAt.le {o₁ o₂ o₃ : Ordering} (h : TransAt o₁ o₂ o₃) :
    o₁ ≠ .gt → o₂ ≠ .gt → o₃ ≠ .gt := h.1
theorem TransAt.lt {o₁ o₂ o₃ : Ordering} (h : TransAt o₁ o₂ o₃) :
    o₁ = .lt → o₂ = .lt → o₃ = .lt := fun h1 h2 => h.2.1 h1 (by simp [h2])
theorem TransAt.lt_le {o₁ o₂ o₃ : Ordering} (h : TransAt o₁ o₂ o₃) :
    o₁ = .lt → o₂ ≠ .gt → o₃ = .lt := h.2.1
theorem TransAt.le_lt {o₁ o₂ o₃ : Ordering} (h : TransAt o₁ o₂ o₃) :
    o₁ ≠ .gt → o₂ = .lt → o₃ = .lt := h.2.2.1
theorem TransAt.lt_eq {o₁ o₂ o₃ : Ordering} (h : TransAt o₁ o₂ o₃) :
    o₁ = .lt → o₂ = .eq → o₃ = .lt := fun h1 h2 => h.2.1 h1 (by simp [h2])
theorem TransAt.eq_lt {o₁ o₂ o₃ : Ordering} (h : TransAt o₁ o₂ o₃) :
    o₁ = .eq → o₂ = .lt → o₃ = .lt := fun h1 h2 => h.2.2.1 (by simp [h1]) h2
theorem TransAt.eq_eq {o₁ o₂ o₃ : Ordering} (h : TransAt o₁ o₂ o₃) :
    o₁ = .eq → o₂ = .eq → o₃ = .eq := h.2.2.2

/-- `Ordering.then` is `.eq` iff both components are -/
theorem then_eq_iff (o p : Ordering) : o.then p = .eq ↔ o = .eq ∧ p = .eq := Ordering.then_eq_eq

/-- `swap` distributes over `Ordering.then` -/
theorem then_swap (o p : Ordering) : (o.then p).swap = o.swap.then p.swap := Ordering.swap_then o p

/-! ### `cmpOfLt` on a linear order -/

section ofLt
variable {β : Type} [LT β] [LE β] [Std.IsLinearOrder β] [Std.LawfulOrderLT β] [DecidableLT β]

theorem cmpOfLt_eq_iff (a b : β) : cmpOfLt a b = .eq ↔ a = b := by
  simp only [cmpOfLt]; grind

theorem cmpOfLt_lt_iff (a b : β) : cmpOfLt a b = .lt ↔ a < b := by
  simp only [cmpOfLt]; grind

theorem cmpOfLt_gt_iff (a b : β) : cmpOfLt a b = .gt ↔ b < a := by
  simp only [cmpOfLt]; grind

theorem cmpOfLt_self (a : β) : cmpOfLt a a = .eq := (cmpOfLt_eq_iff a a).2 rfl

theorem cmpOfLt_swap (a b : β) : cmpOfLt b a = (cmpOfLt a b).swap := by
  simp only [cmpOfLt]; grind [Ordering.swap]

theorem cmpOfLt_transAt (a b c : β) : TransAt (cmpOfLt a b) (cmpOfLt b c) (cmpOfLt a c) := by
  simp only [cmpOfLt, TransAt]; grind

theorem cmpOfLt_trans (a b c : β) : cmpOfLt a b = .lt → cmpOfLt b c = .lt → cmpOfLt a c = .lt :=
  (cmpOfLt_transAt a b c).lt
theorem cmpOfLt_trans_lt_eq (a b c : β) :
    cmpOfLt a b = .lt → cmpOfLt b c = .eq → cmpOfLt a c = .lt := (cmpOfLt_transAt a b c).lt_eq
theorem cmpOfLt_trans_eq_lt (a b c : β) :
    cmpOfLt a b = .eq → cmpOfLt b c = .lt → cmpOfLt a c = .lt := (cmpOfLt_transAt a b c).eq_lt
theorem cmpOfLt_trans_eq_eq (a b c : β) :
    cmpOfLt a b = .eq → cmpOfLt b c = .eq → cmpOfLt a c = .eq := (cmpOfLt_transAt a b c).eq_eq
theorem cmpOfLt_trans_le (a b c : β) :
    cmpOfLt a b ≠ .gt → cmpOfLt b c ≠ .gt → cmpOfLt a c ≠ .gt := (cmpOfLt_transAt a b c).le

end ofLt

variable {νr νb α : Type}
variable [LT α] [LE α] [Std.IsLinearOrder α] [Std.LawfulOrderLT α] [DecidableLT α] [DecidableEq α]
variable [LT νr] [LE νr] [Std.IsLinearOrder νr] [Std.LawfulOrderLT νr] [DecidableLT νr] [DecidableEq νr]
variable [LT νb] [LE νb] [Std.IsLinearOrder νb] [Std.LawfulOrderLT νb] [DecidableLT νb] [DecidableEq νb]

/-! ### bounds: `cmp_bounds_start`, `cmp_bounds_end` -/

theorem cmpLo_eq_iff (a b : Bnd α) : cmpLo a b = .eq ↔ a = b := by
  cases a <;> cases b <;> simp only [cmpLo, cmpOfLt] <;> grind

theorem cmpLo_swap (a b : Bnd α) : cmpLo b a = (cmpLo a b).swap := by
  cases a <;> cases b <;> simp only [cmpLo, cmpOfLt] <;> grind [Ordering.swap]

theorem cmpLo_transAt (a b c : Bnd α) : TransAt (cmpLo a b) (cmpLo b c) (cmpLo a c) := by
  cases a <;> cases b <;> cases c <;> simp only [cmpLo, cmpOfLt, TransAt] <;> grind

theorem cmpHi_eq_iff (a b : Bnd α) : cmpHi a b = .eq ↔ a = b := by
  cases a <;> cases b <;> simp only [cmpHi, cmpOfLt] <;> grind

theorem cmpHi_swap (a b : Bnd α) : cmpHi b a = (cmpHi a b).swap := by
  cases a <;> cases b <;> simp only [cmpHi, cmpOfLt] <;> grind [Ordering.swap]

theorem cmpHi_transAt (a b c : Bnd α) : TransAt (cmpHi a b) (cmpHi b c) (cmpHi a c) := by
  cases a <;> cases b <;> cases c <;> simp only [cmpHi, cmpOfLt, TransAt] <;> grind

theorem cmpLo_trans_le (a b c : Bnd α) : cmpLo a b ≠ .gt → cmpLo b c ≠ .gt → cmpLo a c ≠ .gt :=
  (cmpLo_transAt a b c).le
theorem cmpLo_trans (a b c : Bnd α) : cmpLo a b = .lt → cmpLo b c = .lt → cmpLo a c = .lt :=
  (cmpLo_transAt a b c).lt
theorem cmpLo_trans_lt_le (a b c : Bnd α) : cmpLo a b = .lt → cmpLo b c ≠ .gt → cmpLo a c = .lt :=
  (cmpLo_transAt a b c).lt_le
theorem cmpLo_trans_le_lt (a b c : Bnd α) : cmpLo a b ≠ .gt → cmpLo b c = .lt → cmpLo a c = .lt :=
  (cmpLo_transAt a b c).le_lt

theorem cmpHi_trans_le (a b c : Bnd α) : cmpHi a b ≠ .gt → cmpHi b c ≠ .gt → cmpHi a c ≠ .gt :=
  (cmpHi_transAt a b c).le
theorem cmpHi_trans (a b c : Bnd α) : cmpHi a b = .lt → cmpHi b c = .lt → cmpHi a c = .lt :=
  (cmpHi_transAt a b c).lt
theorem cmpHi_trans_lt_le (a b c : Bnd α) : cmpHi a b = .lt → cmpHi b c ≠ .gt → cmpHi a c = .lt :=
  (cmpHi_transAt a b c).lt_le
theorem cmpHi_trans_le_lt (a b c : Bnd α) : cmpHi a b ≠ .gt → cmpHi b c = .lt → cmpHi a c = .lt :=
  (cmpHi_transAt a b c).le_lt

/-! ### intervals: `Ranges: Ord` on one segment -/

theorem cmpIvl_eq_iff (a b : Ivl α) : cmpIvl a b = .eq ↔ a = b := by
  obtain ⟨al, ah⟩ := a; obtain ⟨bl, bh⟩ := b
  simp only [cmpIvl, Ordering.then_eq_eq, cmpLo_eq_iff, cmpHi_eq_iff, Ivl.mk.injEq]

theorem cmpIvl_swap (a b : Ivl α) : cmpIvl b a = (cmpIvl a b).swap := by
  simp only [cmpIvl, Ordering.swap_then, cmpLo_swap a.lo b.lo, cmpHi_swap a.hi b.hi]

theorem cmpIvl_transAt (a b c : Ivl α) : TransAt (cmpIvl a b) (cmpIvl b c) (cmpIvl a c) :=
  (cmpLo_transAt a.lo b.lo c.lo).then (cmpHi_transAt a.hi b.hi c.hi)

theorem cmpIvl_trans_le (a b c : Ivl α) : cmpIvl a b ≠ .gt → cmpIvl b c ≠ .gt → cmpIvl a c ≠ .gt :=
  (cmpIvl_transAt a b c).le
theorem cmpIvl_trans (a b c : Ivl α) : cmpIvl a b = .lt → cmpIvl b c = .lt → cmpIvl a c = .lt :=
  (cmpIvl_transAt a b c).lt

/-! ### `MarkerTree::cmp` -/

mutual
theorem Tree.cmp_eq_iff : ∀ (x y : Tree νr νb α), x.cmp y = .eq ↔ x = y
  | .leaf a, y => by
    cases y <;> cases a <;> simp [Tree.cmp]
  | .rng v es, y => by
    cases y with
    | leaf b => simp [Tree.cmp]
    | rng w fs => simp [Tree.cmp, cmpOfLt_eq_iff, Edges.cmp_eq_iff es fs]
    | bool w h l => simp [Tree.cmp]
  | .bool v h l, y => by
    cases y with
    | leaf b => simp [Tree.cmp]
    | rng w fs => simp [Tree.cmp]
    | bool w h' l' =>
      simp [Tree.cmp, cmpOfLt_eq_iff, Tree.cmp_eq_iff h h', Tree.cmp_eq_iff l l']
theorem Edges.cmp_eq_iff : ∀ (x y : Edges νr νb α), x.cmp y = .eq ↔ x = y
  | .nil, y => by cases y <;> simp [Edges.cmp]
  | .cons iv t r, y => by
    cases y with
    | nil => simp [Edges.cmp]
    | cons iv' t' r' =>
      simp [Edges.cmp, cmpIvl_eq_iff, Tree.cmp_eq_iff t t', Edges.cmp_eq_iff r r']
end

mutual
theorem Tree.cmp_swap : ∀ (x y : Tree νr νb α), y.cmp x = (x.cmp y).swap
  | .leaf a, y => by
    cases y with
    | leaf b => cases a <;> cases b <;> simp [Tree.cmp]
    | rng w fs => simp [Tree.cmp]
    | bool w h l => simp [Tree.cmp]
  | .rng v es, y => by
    cases y with
    | leaf b => simp [Tree.cmp]
    | rng w fs =>
      simp only [Tree.cmp, Ordering.swap_then, cmpOfLt_swap v w, Edges.cmp_swap es fs]
    | bool w h l => simp [Tree.cmp]
  | .bool v h l, y => by
    cases y with
    | leaf b => simp [Tree.cmp]
    | rng w fs => simp [Tree.cmp]
    | bool w h' l' =>
      simp only [Tree.cmp, Ordering.swap_then, cmpOfLt_swap v w, Tree.cmp_swap h h',
        Tree.cmp_swap l l']
theorem Edges.cmp_swap : ∀ (x y : Edges νr νb α), y.cmp x = (x.cmp y).swap
  | .nil, y => by cases y <;> simp [Edges.cmp]
  | .cons iv t r, y => by
    cases y with
    | nil => simp [Edges.cmp]
    | cons iv' t' r' =>
      simp only [Edges.cmp, Ordering.swap_then, cmpIvl_swap iv iv', Tree.cmp_swap t t',
        Edges.cmp_swap r r']
end

mutual
theorem Tree.cmp_transAt : ∀ (x y z : Tree νr νb α), TransAt (x.cmp y) (y.cmp z) (x.cmp z)
  | .leaf a, y, z => by
    cases y with
    | leaf b =>
      cases z with
      | leaf c => cases a <;> cases b <;> cases c <;> simp [Tree.cmp, TransAt]
      | rng _ _ => cases a <;> cases b <;> simp [Tree.cmp, TransAt]
      | bool _ _ _ => cases a <;> cases b <;> simp [Tree.cmp, TransAt]
    | rng _ _ => cases z <;> simp [Tree.cmp, TransAt]
    | bool _ _ _ => cases z <;> simp [Tree.cmp, TransAt]
  | .rng v es, y, z => by
    cases y with
    | leaf b => cases z <;> simp [Tree.cmp, TransAt]
    | rng w fs =>
      cases z with
      | leaf c => simp [Tree.cmp, TransAt]
      | rng u gs =>
        simp only [Tree.cmp]
        exact (cmpOfLt_transAt v w u).then (Edges.cmp_transAt es fs gs)
      | bool _ _ _ => simp [Tree.cmp, TransAt]
    | bool _ _ _ => cases z <;> simp [Tree.cmp, TransAt]
  | .bool v h l, y, z => by
    cases y with
    | leaf b => cases z <;> simp [Tree.cmp, TransAt]
    | rng w fs => cases z <;> simp [Tree.cmp, TransAt]
    | bool w h' l' =>
      cases z with
      | leaf c => simp [Tree.cmp, TransAt]
      | rng _ _ => simp [Tree.cmp, TransAt]
      | bool u h'' l'' =>
        simp only [Tree.cmp]
        exact (cmpOfLt_transAt v w u).then
          ((Tree.cmp_transAt h h' h'').then (Tree.cmp_transAt l l' l''))
theorem Edges.cmp_transAt : ∀ (x y z : Edges νr νb α), TransAt (x.cmp y) (y.cmp z) (x.cmp z)
  | .nil, y, z => by cases y <;> cases z <;> simp [Edges.cmp, TransAt]
  | .cons iv t r, y, z => by
    cases y with
    | nil => cases z <;> simp [Edges.cmp, TransAt]
    | cons iv' t' r' =>
      cases z with
      | nil => simp [Edges.cmp, TransAt]
      | cons iv'' t'' r'' =>
        simp only [Edges.cmp]
        exact (cmpIvl_transAt iv iv' iv'').then
          ((Tree.cmp_transAt t t' t'').then (Edges.cmp_transAt r r' r''))
end

/-! ### corollaries -/

theorem Tree.cmp_self (x : Tree νr νb α) : x.cmp x = .eq := (Tree.cmp_eq_iff x x).2 rfl
theorem Edges.cmp_self (x : Edges νr νb α) : x.cmp x = .eq := (Edges.cmp_eq_iff x x).2 rfl

theorem Tree.cmp_trans (x y z : Tree νr νb α) : x.cmp y = .lt → y.cmp z = .lt → x.cmp z = .lt :=
  (Tree.cmp_transAt x y z).lt
theorem Tree.cmp_trans_le (x y z : Tree νr νb α) :
    x.cmp y ≠ .gt → y.cmp z ≠ .gt → x.cmp z ≠ .gt := (Tree.cmp_transAt x y z).le
theorem Tree.cmp_trans_lt_le (x y z : Tree νr νb α) :
    x.cmp y = .lt → y.cmp z ≠ .gt → x.cmp z = .lt := (Tree.cmp_transAt x y z).lt_le
theorem Tree.cmp_trans_le_lt (x y z : Tree νr νb α) :
    x.cmp y ≠ .gt → y.cmp z = .lt → x.cmp z = .lt := (Tree.cmp_transAt x y z).le_lt
theorem Edges.cmp_trans (x y z : Edges νr νb α) : x.cmp y = .lt → y.cmp z = .lt → x.cmp z = .lt :=
  (Edges.cmp_transAt x y z).lt
theorem Edges.cmp_trans_le (x y z : Edges νr νb α) :
    x.cmp y ≠ .gt → y.cmp z ≠ .gt → x.cmp z ≠ .gt := (Edges.cmp_transAt x y z).le

/-- `a > b` is `b < a` -/
theorem Tree.cmp_gt_iff (x y : Tree νr νb α) : x.cmp y = .gt ↔ y.cmp x = .lt := by
  rw [Tree.cmp_swap x y]; cases x.cmp y <;> simp

/-- irreflexive -/
theorem Tree.cmp_irrefl (x : Tree νr νb α) : x.cmp x ≠ .lt := by simp [Tree.cmp_self]

/-- asymmetric -/
theorem Tree.cmp_asymm (x y : Tree νr νb α) : x.cmp y = .lt → y.cmp x ≠ .lt := by
  rw [Tree.cmp_swap x y]; cases x.cmp y <;> simp

/-- total (trichotomy): exactly the three cases `x < y`, `x = y`, `y < x` -/
theorem Tree.cmp_total (x y : Tree νr νb α) : x.cmp y = .lt ∨ x = y ∨ y.cmp x = .lt := by
  rw [← Tree.cmp_eq_iff x y, Tree.cmp_swap x y]; cases x.cmp y <;> simp

/-- antisymmetric: `x ≤ y` and `y ≤ x` force `x = y` -/
theorem Tree.cmp_antisymm (x y : Tree νr νb α) : x.cmp y ≠ .gt → y.cmp x ≠ .gt → x = y := by
  rw [← Tree.cmp_eq_iff x y, Tree.cmp_swap x y]; cases x.cmp y <;> simp

/-- `Ordering::Equal` exactly for equal markers; `cmp` agrees with the derived `==` -/
theorem Tree.cmp_eq_iff_beq (x y : Tree νr νb α) : x.cmp y = .eq ↔ (x == y) = true := by
  rw [Tree.cmp_eq_iff]; simp

/-- Std's comparator classes: `Tree.cmp` can be used as the comparator of ordered containers -/
instance : Std.OrientedCmp (Tree.cmp : Tree νr νb α → Tree νr νb α → Ordering) where
  eq_swap {a b} := Tree.cmp_swap b a

instance : Std.TransCmp (Tree.cmp : Tree νr νb α → Tree νr νb α → Ordering) where
  isLE_trans {a b c} h1 h2 := by
    have := Tree.cmp_trans_le a b c
    revert h1 h2 this
    cases a.cmp b <;> cases b.cmp c <;> cases a.cmp c <;> simp [Ordering.isLE]

instance : Std.LawfulEqCmp (Tree.cmp : Tree νr νb α → Tree νr νb α → Ordering) where
  compare_self {a} := Tree.cmp_self a
  eq_of_compare {a b} := (Tree.cmp_eq_iff a b).1

/-- a sorted sequence of markers is determined by its elements: two `cmp`-sorted lists that are
    permutations of each other are equal (sorted output is reproducible) -/
theorem Tree.sorted_unique (l₁ l₂ : List (Tree νr νb α)) (hp : l₁.Perm l₂)
    (h₁ : l₁.Pairwise (fun x y => x.cmp y ≠ .gt)) (h₂ : l₂.Pairwise (fun x y => x.cmp y ≠ .gt)) :
    l₁ = l₂ :=
  List.Perm.eq_of_pairwise (fun a b _ _ hab hba => Tree.cmp_antisymm a b hab hba) h₁ h₂ hp

/-- the strict version: strictly sorted lists (sorted + deduplicated) with the same elements -/
theorem Tree.strictSorted_unique (l₁ l₂ : List (Tree νr νb α)) (hp : ∀ x, x ∈ l₁ ↔ x ∈ l₂)
    (h₁ : l₁.Pairwise (fun x y => x.cmp y = .lt)) (h₂ : l₂.Pairwise (fun x y => x.cmp y = .lt)) :
    l₁ = l₂ := by
  have nd : ∀ (l : List (Tree νr νb α)), l.Pairwise (fun x y => x.cmp y = .lt) → l.Nodup := by
    intro l h
    refine h.imp ?_
    intro a b hab he; subst he; exact Tree.cmp_irrefl a hab
  have le : ∀ (l : List (Tree νr νb α)), l.Pairwise (fun x y => x.cmp y = .lt) →
      l.Pairwise (fun x y => x.cmp y ≠ .gt) := by
    intro l h; refine h.imp ?_; intro a b hab; simp [hab]
  exact Tree.sorted_unique l₁ l₂ ((List.perm_ext_iff_of_nodup (nd _ h₁) (nd _ h₂)).2 hp)
    (le _ h₁) (le _ h₂)

end Pep508
