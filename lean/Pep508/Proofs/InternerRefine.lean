/-
C14 / C15: the id-level interner (`Model/Interner.lean`) refines the plain diagram algebra:
`andI` on ids is `Tree.and` on denotations, whatever has been interned or cached before, and
hash-consing is canonical (equal denotations ⇒ equal ids).
-/
import Pep508.Model.Interner
import Pep508.Proofs.And
set_option linter.unusedSectionVars false
set_option linter.unusedSimpArgs false
set_option linter.unusedVariables false
namespace Pep508

/-! ## (i) `andF` does not depend on the fuel once it covers the operands -/
section Fuel
variable {νr νb α : Type}
variable [LT α] [DecidableLT α] [DecidableEq α]
variable [LT νr] [DecidableLT νr] [DecidableEq νr] [LT νb] [DecidableLT νb] [DecidableEq νb]

private theorem mapE_congr (f g : Tree νr νb α → Tree νr νb α) (es : EdgeL νr νb α)
    (h : ∀ e ∈ es, f e.2 = g e.2) : mapE f es = mapE g es := by
  unfold mapE
  congr 1
  apply List.map_congr_left
  intro e he; rw [h e he]

private theorem productRow_congr (f g : Tree νr νb α → Tree νr νb α → Tree νr νb α)
    (l : Ivl α × Tree νr νb α) (rs : EdgeL νr νb α) (h : ∀ r ∈ rs, f l.2 r.2 = g l.2 r.2) :
    productRow f l rs = productRow g l rs := by
  induction rs with
  | nil => rfl
  | cons r rest ih =>
    simp only [productRow]
    rw [ih (fun r' hr' => h r' (by simp [hr'])), h r (by simp)]

private theorem product_congr (f g : Tree νr νb α → Tree νr νb α → Tree νr νb α)
    (ls rs : EdgeL νr νb α) (h : ∀ l ∈ ls, ∀ r ∈ rs, f l.2 r.2 = g l.2 r.2) :
    product f ls rs = product g ls rs := by
  induction ls with
  | nil => rfl
  | cons l rest ih =>
    simp only [product]
    rw [ih (fun l' hl' => h l' (by simp [hl'])), productRow_congr f g l rs (h l (by simp))]

private theorem applyRanges_congr (f g : Tree νr νb α → Tree νr νb α → Tree νr νb α)
    (ls rs : EdgeL νr νb α) (h : ∀ l ∈ ls, ∀ r ∈ rs, f l.2 r.2 = g l.2 r.2) :
    applyRanges f ls rs = applyRanges g ls rs := by
  unfold applyRanges; rw [product_congr f g ls rs h]

private theorem Tree.size_rng_child' (v : νr) (es : Edges νr νb α) (e : Ivl α × Tree νr νb α)
    (h : e ∈ es.toList) : e.2.size < (Tree.rng v es).size := by
  have := Edges.size_mem es e h
  simp [Tree.size]; omega

/-- **fuel irrelevance**: any two fuels that cover the operands give the same result -/
theorem andF_fuel_irrelevant : ∀ (n m : Nat) (x y : Tree νr νb α),
    x.size + y.size < n → x.size + y.size < m → andF n x y = andF m x y := by
  intro n
  induction n with
  | zero => intro m x y h; omega
  | succ n ih =>
    intro m x y hn hm
    cases m with
    | zero => omega
    | succ m =>
    unfold andF
    by_cases c1 : x = .leaf true
    · simp [c1]
    by_cases c2 : y = .leaf true
    · simp [c1, c2]
    by_cases c3 : x = y
    · simp [c1, c2, c3]
    by_cases c4 : x = .leaf false ∨ y = .leaf false
    · simp [c1, c2, c3, c4]
    by_cases c5 : x.not = y
    · simp [c1, c2, c3, c4, c5]
    simp only [c1, c2, c3, c4, c5, if_false]
    cases x with
    | leaf b => rfl
    | rng vx ex =>
      cases y with
      | leaf b => rfl
      | rng vy ey =>
        have e1 : mapE (fun c => andF n c (Tree.rng vy ey)) ex.toList =
            mapE (fun c => andF m c (Tree.rng vy ey)) ex.toList :=
          mapE_congr _ _ _ (fun e he => ih m e.2 _
            (by have := Tree.size_rng_child' vx ex e he; omega)
            (by have := Tree.size_rng_child' vx ex e he; omega))
        have e2 : mapE (fun c => andF n c (Tree.rng vx ex)) ey.toList =
            mapE (fun c => andF m c (Tree.rng vx ex)) ey.toList :=
          mapE_congr _ _ _ (fun e he => ih m e.2 _
            (by have := Tree.size_rng_child' vy ey e he; omega)
            (by have := Tree.size_rng_child' vy ey e he; omega))
        have e3 : applyRanges (andF n) ex.toList ey.toList = applyRanges (andF m) ex.toList ey.toList :=
          applyRanges_congr _ _ _ _ (fun l hl r hr => ih m l.2 r.2
            (by have := Tree.size_rng_child' vx ex l hl
                have := Tree.size_rng_child' vy ey r hr; omega)
            (by have := Tree.size_rng_child' vx ex l hl
                have := Tree.size_rng_child' vy ey r hr; omega))
        simp only [e1, e2, e3]
      | bool vy hy ly =>
        have e1 : mapE (fun c => andF n c (Tree.bool vy hy ly)) ex.toList =
            mapE (fun c => andF m c (Tree.bool vy hy ly)) ex.toList :=
          mapE_congr _ _ _ (fun e he => ih m e.2 _
            (by have := Tree.size_rng_child' vx ex e he; omega)
            (by have := Tree.size_rng_child' vx ex e he; omega))
        simp only [e1]
    | bool vx hx lx =>
      have sx : hx.size < (Tree.bool vx hx lx).size ∧ lx.size < (Tree.bool vx hx lx).size := by
        simp [Tree.size]; omega
      cases y with
      | leaf b => rfl
      | rng vy ey =>
        have e2 : mapE (fun c => andF n c (Tree.bool vx hx lx)) ey.toList =
            mapE (fun c => andF m c (Tree.bool vx hx lx)) ey.toList :=
          mapE_congr _ _ _ (fun e he => ih m e.2 _
            (by have := Tree.size_rng_child' vy ey e he; omega)
            (by have := Tree.size_rng_child' vy ey e he; omega))
        simp only [e2]
      | bool vy hy ly =>
        have sy : hy.size < (Tree.bool vy hy ly).size ∧ ly.size < (Tree.bool vy hy ly).size := by
          simp [Tree.size]; omega
        simp only []
        rw [ih m hx (Tree.bool vy hy ly) (by omega) (by omega),
          ih m lx (Tree.bool vy hy ly) (by omega) (by omega),
          ih m hy (Tree.bool vx hx lx) (by omega) (by omega),
          ih m ly (Tree.bool vx hx lx) (by omega) (by omega),
          ih m hx hy (by omega) (by omega), ih m lx ly (by omega) (by omega)]

/-- `Tree.and` is `andF` at any sufficient fuel -/
theorem andF_eq_and (n : Nat) (x y : Tree νr νb α) (h : x.size + y.size < n) :
    andF n x y = Tree.and x y :=
  andF_fuel_irrelevant n _ x y h (by omega)

end Fuel


/-! ## (ii) denotations, the structural invariant -/
section Den
variable {νr νb α : Type}

mutual
private theorem Tree.not_not' : ∀ (t : Tree νr νb α), t.not.not = t
  | .leaf b => by simp [Tree.not]
  | .rng v es => by simp [Tree.not, Edges.not_not' es]
  | .bool v hi lo => by simp [Tree.not, Tree.not_not' hi, Tree.not_not' lo]
private theorem Edges.not_not' : ∀ (es : Edges νr νb α), es.not.not = es
  | .nil => rfl
  | .cons iv t rest => by simp [Edges.not, Tree.not_not' t, Edges.not_not' rest]
end

mutual
private theorem Tree.size_not' : ∀ (t : Tree νr νb α), t.not.size = t.size
  | .leaf b => by simp [Tree.not, Tree.size]
  | .rng v es => by simp [Tree.not, Tree.size, Edges.size_not' es]
  | .bool v hi lo => by simp [Tree.not, Tree.size, Tree.size_not' hi, Tree.size_not' lo]
private theorem Edges.size_not' : ∀ (es : Edges νr νb α), es.not.size = es.size
  | .nil => rfl
  | .cons iv t rest => by simp [Edges.not, Edges.size, Tree.size_not' t, Edges.size_not' rest]
end

private theorem Tree.not_inj' {t s : Tree νr νb α} (h : t.not = s.not) : t = s := by
  have := congrArg Tree.not h
  simpa [Tree.not_not'] using this

private theorem Edges.not_toList' : ∀ (es : Edges νr νb α), es.not.toList = es.toList.map (fun e => (e.1, e.2.not))
  | .nil => rfl
  | .cons iv t rest => by simp [Edges.not, Edges.toList, Edges.not_toList' rest]

/-- `0` for terminals, `i + 1` for a reference to node `i` -/
def Id.rank : Id → Nat
  | .ref i _ => i + 1
  | _ => 0

/-- the id points into the arena -/
def Id.Valid (s : IState νr νb α) : Id → Prop
  | .ref i _ => i < s.nodes.length
  | _ => True

theorem Id.valid_iff (s : IState νr νb α) (id : Id) : Id.Valid s id ↔ id.rank ≤ s.nodes.length := by
  cases id <;> simp [Id.Valid, Id.rank]; omega

/-- the diagram an id stands for -/
def den (s : IState νr νb α) (id : Id) : Tree νr νb α := denote s (s.nodes.length + 1) id

/-- the arena only grows -/
def IState.Le (s s' : IState νr νb α) : Prop := s.nodes <+: s'.nodes

theorem IState.Le.refl (s : IState νr νb α) : s.Le s := List.prefix_refl _
theorem IState.Le.trans {s1 s2 s3 : IState νr νb α} (h1 : s1.Le s2) (h2 : s2.Le s3) : s1.Le s3 :=
  List.IsPrefix.trans h1 h2

theorem Id.Valid.mono {s s' : IState νr νb α} {id : Id} (h : Id.Valid s id) (hle : s.Le s') :
    Id.Valid s' id := by
  have := List.IsPrefix.length_le hle
  cases id <;> simp [Id.Valid] at *; omega

theorem Id.valid_not (s : IState νr νb α) (id : Id) : Id.Valid s id.not ↔ Id.Valid s id := by
  cases id <;> simp [Id.Valid, Id.not]

theorem Id.rank_not (id : Id) : id.not.rank = id.rank := by cases id <;> rfl

theorem Id.not_not (id : Id) : id.not.not = id := by cases id <;> simp [Id.not]

theorem Id.not_inj {a b : Id} (h : a.not = b.not) : a = b := by
  have := congrArg Id.not h; simpa [Id.not_not] using this

theorem Id.valid_negate (s : IState νr νb α) (id p : Id) : Id.Valid s (id.negate p) ↔ Id.Valid s id := by
  unfold Id.negate; split
  · exact Id.valid_not s id
  · rfl

def denNodeF (s : IState νr νb α) (f : Nat) : INode νr νb α → Tree νr νb α
  | .rng v es => .rng v (Edges.ofList (es.map fun e => (e.1, denote s f e.2)))
  | .bool v h l => .bool v (denote s f h) (denote s f l)

def denE (s : IState νr νb α) (es : List (Ivl α × Id)) : EdgeL νr νb α :=
  es.map fun e => (e.1, den s e.2)

def denNode (s : IState νr νb α) : INode νr νb α → Tree νr νb α
  | .rng v es => .rng v (Edges.ofList (denE s es))
  | .bool v h l => .bool v (den s h) (den s l)

/-- stored nodes: first child uncomplemented, not all children equal (so at least two) -/
def INode.NF (n : INode νr νb α) : Prop :=
  ∃ first rest, n.children = first :: rest ∧ first.isComplement = false ∧ ∃ c ∈ rest, c ≠ first

/-- the structural part of the invariant (arena only) -/
structure IState.WF (s : IState νr νb α) : Prop where
  acyclic : ∀ (i : Nat) (n : INode νr νb α), s.nodes[i]? = some n → ∀ c ∈ n.children, Id.rank c ≤ i
  nf : ∀ n ∈ s.nodes, n.NF
  unique : s.nodes.Nodup

@[simp] theorem denote_tt (s : IState νr νb α) (f : Nat) : denote s f .tt = .leaf true := by
  cases f <;> rfl
@[simp] theorem denote_ff (s : IState νr νb α) (f : Nat) : denote s f .ff = .leaf false := by
  cases f <;> rfl
@[simp] theorem den_tt (s : IState νr νb α) : den s .tt = .leaf true := denote_tt s _
@[simp] theorem den_ff (s : IState νr νb α) : den s .ff = .leaf false := denote_ff s _

theorem denote_ref (s : IState νr νb α) (f i : Nat) (c : Bool) (n : INode νr νb α)
    (h : s.nodes[i]? = some n) :
    denote s (f + 1) (.ref i c) = if c then (denNodeF s f n).not else denNodeF s f n := by
  simp only [denote, h]
  cases n <;> rfl

theorem denote_ref_none (s : IState νr νb α) (f i : Nat) (c : Bool) (h : s.nodes[i]? = none) :
    denote s (f + 1) (.ref i c) = if c then .leaf true else .leaf false := by
  simp only [denote, h]; cases c <;> simp [Tree.not]

theorem denNodeF_congr (s s' : IState νr νb α) (f f' : Nat) (n : INode νr νb α)
    (h : ∀ c ∈ n.children, denote s f c = denote s' f' c) : denNodeF s f n = denNodeF s' f' n := by
  cases n with
  | rng v es =>
    simp only [denNodeF]
    congr 2
    apply List.map_congr_left
    intro e he
    rw [h e.2 (by simp only [INode.children, List.mem_map]; exact ⟨e, he, rfl⟩)]
  | bool v a b =>
    simp only [denNodeF]
    rw [h a (by simp [INode.children]), h b (by simp [INode.children])]

theorem denote_fuel {s : IState νr νb α} (hs : s.WF) : ∀ (f f' : Nat) (id : Id),
    id.rank ≤ f → id.rank ≤ f' → denote s f id = denote s f' id := by
  intro f
  induction f with
  | zero => intro f' id h1 h2; cases id <;> simp [Id.rank] at *
  | succ f ih =>
    intro f' id h1 h2
    cases id with
    | tt => simp
    | ff => simp
    | ref i c =>
      cases f' with
      | zero => simp [Id.rank] at h2
      | succ f' =>
        simp only [Id.rank] at h1 h2
        cases hn : s.nodes[i]? with
        | none => rw [denote_ref_none _ _ _ _ hn, denote_ref_none _ _ _ _ hn]
        | some n =>
          rw [denote_ref _ _ _ _ _ hn, denote_ref _ _ _ _ _ hn]
          rw [denNodeF_congr s s f f' n]
          intro ch hch
          have := hs.acyclic i n hn ch hch
          exact ih f' ch (by omega) (by omega)

theorem WF.child_valid {s : IState νr νb α} (hs : s.WF) {i : Nat} {n : INode νr νb α}
    (hn : s.nodes[i]? = some n) : i < s.nodes.length ∧ ∀ c ∈ n.children, Id.Valid s c ∧ c.rank ≤ i := by
  have hi : i < s.nodes.length := by
    rcases Nat.lt_or_ge i s.nodes.length with h | h
    · exact h
    · rw [List.getElem?_eq_none h] at hn; cases hn
  refine ⟨hi, fun c hc => ?_⟩
  have := hs.acyclic i n hn c hc
  exact ⟨(Id.valid_iff s c).mpr (by omega), this⟩

theorem Le.getElem? {s s' : IState νr νb α} (hle : s.Le s') {i : Nat} (hi : i < s.nodes.length) :
    s'.nodes[i]? = s.nodes[i]? := by
  obtain ⟨ext, h⟩ := hle
  rw [← h, List.getElem?_append_left hi]

theorem denote_mono {s s' : IState νr νb α} (hs : s.WF) (hle : s.Le s') : ∀ (f : Nat) (id : Id),
    Id.Valid s id → denote s' f id = denote s f id := by
  intro f
  induction f with
  | zero => intro id _; cases id <;> simp [denote]
  | succ f ih =>
    intro id hv
    cases id with
    | tt => simp
    | ff => simp
    | ref i c =>
      simp only [Id.Valid] at hv
      have hn : s.nodes[i]? = some s.nodes[i] := List.getElem?_eq_getElem hv
      have hn' : s'.nodes[i]? = some s.nodes[i] := by rw [Le.getElem? hle hv, hn]
      rw [denote_ref _ _ _ _ _ hn, denote_ref _ _ _ _ _ hn']
      rw [denNodeF_congr s' s f f _]
      intro ch hch
      exact ih ch ((WF.child_valid hs hn).2 ch hch).1

/-- **stability**: growing the arena (and changing the cache) does not change what valid ids mean -/
theorem den_mono {s s' : IState νr νb α} (hs : s.WF) (hle : s.Le s') {id : Id} (hv : Id.Valid s id) :
    den s' id = den s id := by
  unfold den
  rw [denote_mono hs hle _ _ hv]
  have := List.IsPrefix.length_le hle
  have := (Id.valid_iff s id).mp hv
  exact denote_fuel hs _ _ _ (by omega) (by omega)

theorem den_not (s : IState νr νb α) (id : Id) : den s id.not = (den s id).not := by
  cases id with
  | tt => simp [Id.not, Tree.not]
  | ff => simp [Id.not, Tree.not]
  | ref i c =>
    simp only [den, Id.not, denote]
    cases c <;> simp [Tree.not_not']

theorem den_negate (s : IState νr νb α) (id p : Id) :
    den s (id.negate p) = if p.isComplement then (den s id).not else den s id := by
  unfold Id.negate; split <;> simp [den_not]

theorem denNode_eq {s : IState νr νb α} (hs : s.WF) {i : Nat} {n : INode νr νb α}
    (hn : s.nodes[i]? = some n) : denNodeF s s.nodes.length n = denNode s n := by
  have h1 : denNode s n = denNodeF s (s.nodes.length + 1) n := by cases n <;> rfl
  rw [h1]
  apply denNodeF_congr
  intro c hc
  have := (WF.child_valid hs hn)
  exact denote_fuel hs _ _ _ (by have := (this.2 c hc).2; omega) (by have := (this.2 c hc).2; omega)

/-- unfolding a reference -/
theorem den_ref {s : IState νr νb α} (hs : s.WF) {i : Nat} {n : INode νr νb α} (c : Bool)
    (hn : s.nodes[i]? = some n) :
    den s (.ref i c) = if c then (denNode s n).not else denNode s n := by
  unfold den
  rw [denote_ref _ _ _ _ _ hn, denNode_eq hs hn]

theorem den_size_not (s : IState νr νb α) (id p : Id) : (den s (id.negate p)).size = (den s id).size := by
  rw [den_negate]; split <;> simp [Tree.size_not']

end Den


/-! ## (iii) hash-consing is canonical: equal denotations ⇒ equal ids -/
section Inj
variable {νr νb α : Type}

mutual
/-- following first children ends in TRUE -/
def Tree.Pos : Tree νr νb α → Prop
  | .leaf b => b = true
  | .rng _ es => es.Pos
  | .bool _ h _ => h.Pos
def Edges.Pos : Edges νr νb α → Prop
  | .nil => False
  | .cons _ t _ => t.Pos
end

mutual
theorem Tree.pos_not : ∀ (t : Tree νr νb α), t.Pos → ¬ t.not.Pos
  | .leaf b, h => by simp only [Tree.Pos, Tree.not] at *; simp [h]
  | .rng v es, h => by simp only [Tree.Pos, Tree.not] at *; exact Edges.pos_not es h
  | .bool v a b, h => by simp only [Tree.Pos, Tree.not] at *; exact Tree.pos_not a h
theorem Edges.pos_not : ∀ (es : Edges νr νb α), es.Pos → ¬ es.not.Pos
  | .nil, h => by simp [Edges.Pos] at h
  | .cons iv t rest, h => by simp only [Edges.Pos, Edges.not] at *; exact Tree.pos_not t h
end

theorem denNodeF_pos (s : IState νr νb α) (f : Nat) (n : INode νr νb α) (first : Id) (rest : List Id)
    (hc : n.children = first :: rest) (hp : (denote s f first).Pos) : (denNodeF s f n).Pos := by
  cases n with
  | rng v es =>
    cases es with
    | nil => simp [INode.children] at hc
    | cons e es' =>
      simp only [INode.children, List.map_cons, List.cons.injEq] at hc
      simp only [denNodeF, List.map_cons, Edges.ofList, Tree.Pos, Edges.Pos, hc.1]
      exact hp
  | bool v a b =>
    simp only [INode.children, List.cons.injEq] at hc
    simp only [denNodeF, Tree.Pos, hc.1]; exact hp

theorem WF.nf_at {s : IState νr νb α} (hs : s.WF) {i : Nat} {n : INode νr νb α}
    (hn : s.nodes[i]? = some n) : n.NF := hs.nf n (List.mem_of_getElem? hn)

theorem pos_denote {s : IState νr νb α} (hs : s.WF) : ∀ (f : Nat) (id : Id), id.rank ≤ f →
    Id.Valid s id → id.isComplement = false → (denote s f id).Pos := by
  intro f
  induction f with
  | zero =>
    intro id h1 _ h3
    cases id <;> simp [Id.rank, Id.isComplement, Tree.Pos] at *
  | succ f ih =>
    intro id h1 h2 h3
    cases id with
    | tt => simp [Tree.Pos]
    | ff => simp [Id.isComplement] at h3
    | ref i c =>
      simp only [Id.isComplement] at h3
      subst h3
      simp only [Id.Valid] at h2
      simp only [Id.rank] at h1
      have hn : s.nodes[i]? = some s.nodes[i] := List.getElem?_eq_getElem h2
      rw [denote_ref _ _ _ _ _ hn]
      simp only [Bool.false_eq_true, if_false]
      obtain ⟨first, rest, hch, hfc, _⟩ := WF.nf_at hs hn
      have hv := (WF.child_valid hs hn).2 first (by rw [hch]; simp)
      exact denNodeF_pos s f _ first rest hch (ih first (by omega) hv.1 hfc)

private theorem map_snd_inj {β γ : Type} (g : β → γ) : ∀ (l1 l2 : List (Ivl α × β)),
    (∀ a ∈ l1, ∀ b ∈ l2, g a.2 = g b.2 → a.2 = b.2) →
    l1.map (fun e => (e.1, g e.2)) = l2.map (fun e => (e.1, g e.2)) → l1 = l2 := by
  intro l1
  induction l1 with
  | nil => intro l2 _ h; cases l2 <;> simp at h ⊢
  | cons e l1 ih =>
    intro l2 H h
    cases l2 with
    | nil => simp at h
    | cons e2 l2 =>
      simp only [List.map_cons, List.cons.injEq, Prod.mk.injEq] at h
      obtain ⟨⟨h1, h2⟩, h3⟩ := h
      have := H e (by simp) e2 (by simp) h2
      rw [ih l2 (fun a ha b hb => H a (by simp [ha]) b (by simp [hb])) h3]
      congr 1
      exact Prod.ext h1 this

private theorem Edges.ofList_inj {l1 l2 : EdgeL νr νb α} (h : Edges.ofList l1 = Edges.ofList l2) : l1 = l2 := by
  have := congrArg Edges.toList h
  simpa [Edges.toList_ofList] using this

theorem denNodeF_inj (s : IState νr νb α) (f : Nat) (n1 n2 : INode νr νb α)
    (H : ∀ a ∈ n1.children, ∀ b ∈ n2.children, denote s f a = denote s f b → a = b)
    (h : denNodeF s f n1 = denNodeF s f n2) : n1 = n2 := by
  cases n1 with
  | rng v1 es1 =>
    cases n2 with
    | rng v2 es2 =>
      simp only [denNodeF, Tree.rng.injEq] at h
      obtain ⟨hv, he⟩ := h
      subst hv
      have := map_snd_inj (denote s f) es1 es2 (fun a ha b hb =>
        H a.2 (by simp only [INode.children, List.mem_map]; exact ⟨a, ha, rfl⟩)
          b.2 (by simp only [INode.children, List.mem_map]; exact ⟨b, hb, rfl⟩)) (Edges.ofList_inj he)
      rw [this]
    | bool v2 a2 b2 => simp [denNodeF] at h
  | bool v1 a1 b1 =>
    cases n2 with
    | rng v2 es2 => simp [denNodeF] at h
    | bool v2 a2 b2 =>
      simp only [denNodeF, Tree.bool.injEq] at h
      obtain ⟨hv, ha, hb⟩ := h
      rw [hv, H a1 (by simp [INode.children]) a2 (by simp [INode.children]) ha,
        H b1 (by simp [INode.children]) b2 (by simp [INode.children]) hb]

theorem denNodeF_not_leaf (s : IState νr νb α) (f : Nat) (n : INode νr νb α) (c b : Bool) :
    (if c then (denNodeF s f n).not else denNodeF s f n) ≠ .leaf b := by
  cases n <;> cases c <;> simp [denNodeF, Tree.not]

theorem denote_inj {s : IState νr νb α} (hs : s.WF) : ∀ (f : Nat) (a b : Id),
    a.rank ≤ f → b.rank ≤ f → Id.Valid s a → Id.Valid s b → denote s f a = denote s f b → a = b := by
  intro f
  induction f with
  | zero =>
    intro a b h1 h2 _ _ h
    cases a <;> cases b <;> simp [Id.rank] at * <;> simp [denote] at h
  | succ f ih =>
    intro a b h1 h2 va vb h
    cases a with
    | tt =>
      cases b with
      | tt => rfl
      | ff => simp at h
      | ref j c' =>
        simp only [Id.Valid] at vb
        rw [denote_ref _ _ _ _ _ (List.getElem?_eq_getElem vb)] at h
        exact absurd h.symm (denNodeF_not_leaf _ _ _ _ _)
    | ff =>
      cases b with
      | tt => simp at h
      | ff => rfl
      | ref j c' =>
        simp only [Id.Valid] at vb
        rw [denote_ref _ _ _ _ _ (List.getElem?_eq_getElem vb)] at h
        exact absurd h.symm (denNodeF_not_leaf _ _ _ _ _)
    | ref i c =>
      simp only [Id.Valid] at va
      have hni : s.nodes[i]? = some s.nodes[i] := List.getElem?_eq_getElem va
      cases b with
      | tt =>
        rw [denote_ref _ _ _ _ _ hni] at h
        exact absurd h (denNodeF_not_leaf _ _ _ _ _)
      | ff =>
        rw [denote_ref _ _ _ _ _ hni] at h
        exact absurd h (denNodeF_not_leaf _ _ _ _ _)
      | ref j c' =>
        simp only [Id.Valid] at vb
        simp only [Id.rank] at h1 h2
        have hnj : s.nodes[j]? = some s.nodes[j] := List.getElem?_eq_getElem vb
        rw [denote_ref _ _ _ _ _ hni, denote_ref _ _ _ _ _ hnj] at h
        -- the first-child path of both stored nodes ends in TRUE
        have pi : (denNodeF s f s.nodes[i]).Pos := by
          obtain ⟨first, rest, hch, hfc, _⟩ := WF.nf_at hs hni
          have hv := (WF.child_valid hs hni).2 first (by rw [hch]; simp)
          exact denNodeF_pos s f _ first rest hch (pos_denote hs f first (by omega) hv.1 hfc)
        have pj : (denNodeF s f s.nodes[j]).Pos := by
          obtain ⟨first, rest, hch, hfc, _⟩ := WF.nf_at hs hnj
          have hv := (WF.child_valid hs hnj).2 first (by rw [hch]; simp)
          exact denNodeF_pos s f _ first rest hch (pos_denote hs f first (by omega) hv.1 hfc)
        have hcc : c = c' ∧ denNodeF s f s.nodes[i] = denNodeF s f s.nodes[j] := by
          cases c <;> cases c' <;> simp only [if_true, if_false, Bool.false_eq_true] at h
          · exact ⟨rfl, h⟩
          · rw [h] at pi; exact absurd pi (Tree.pos_not _ pj)
          · rw [← h] at pj; exact absurd pj (Tree.pos_not _ pi)
          · exact ⟨rfl, Tree.not_inj' h⟩
        obtain ⟨hc, hd⟩ := hcc
        have hnode : s.nodes[i] = s.nodes[j] := by
          apply denNodeF_inj s f _ _ _ hd
          intro a ha b hb hab
          have h1' := (WF.child_valid hs hni).2 a ha
          have h2' := (WF.child_valid hs hnj).2 b hb
          exact ih a b (by omega) (by omega) h1'.1 h2'.1 hab
        have : i = j := (List.getElem?_inj va hs.unique).mp (by rw [hni, hnj, hnode])
        rw [hc, this]

/-- **canonicity**: valid ids with the same denotation are the same id -/
theorem den_inj {s : IState νr νb α} (hs : s.WF) {a b : Id} (va : Id.Valid s a) (vb : Id.Valid s b)
    (h : den s a = den s b) : a = b := by
  have := (Id.valid_iff s a).mp va
  have := (Id.valid_iff s b).mp vb
  exact denote_inj hs _ a b (by omega) (by omega) va vb h

theorem den_eq_iff {s : IState νr νb α} (hs : s.WF) {a b : Id} (va : Id.Valid s a) (vb : Id.Valid s b) :
    den s a = den s b ↔ a = b := ⟨den_inj hs va vb, fun h => by rw [h]⟩

theorem denE_inj {s : IState νr νb α} (hs : s.WF) {l1 l2 : List (Ivl α × Id)}
    (h1 : ∀ e ∈ l1, Id.Valid s e.2) (h2 : ∀ e ∈ l2, Id.Valid s e.2) (h : denE s l1 = denE s l2) :
    l1 = l2 :=
  map_snd_inj (den s) l1 l2 (fun a ha b hb hab => den_inj hs (h1 a ha) (h2 b hb) hab) h

end Inj


/-! ## (iv) the full invariant; `createNodeI` refines `createNodeR` / `createNodeB` -/
section Create
variable {νr νb α : Type}
variable [LT α] [DecidableLT α] [DecidableEq α]
variable [LT νr] [DecidableLT νr] [DecidableEq νr] [LT νb] [DecidableLT νb] [DecidableEq νb]

/-- every memo entry is what recomputation would give -/
def CacheOK (s : IState νr νb α) : Prop :=
  ∀ e ∈ s.cache, Id.Valid s e.1.1 ∧ Id.Valid s e.1.2 ∧ Id.Valid s e.2 ∧
    den s e.2 = Tree.and (den s e.1.1) (den s e.1.2)

/-- the interner invariant: acyclic, normal form, unique, cache sound -/
structure IState.Inv (s : IState νr νb α) : Prop where
  wf : s.WF
  cache : CacheOK s

theorem IState.WF_empty : (IState.empty : IState νr νb α).WF where
  acyclic := by intro i n h; simp [IState.empty] at h
  nf := by intro n h; simp [IState.empty] at h
  unique := by simp [IState.empty]

theorem IState.Inv_empty : (IState.empty : IState νr νb α).Inv where
  wf := IState.WF_empty
  cache := by intro e h; simp [IState.empty] at h

theorem CacheOK.mono {s s' : IState νr νb α} (hs : s.WF) (hc : CacheOK s) (hle : s.Le s')
    (hcache : s'.cache = s.cache) : CacheOK s' := by
  intro e he
  rw [hcache] at he
  obtain ⟨h1, h2, h3, h4⟩ := hc e he
  refine ⟨h1.mono hle, h2.mono hle, h3.mono hle, ?_⟩
  rw [den_mono hs hle h1, den_mono hs hle h2, den_mono hs hle h3, h4]

/-- what `create_node` builds, on denotations -/
def createNodeT (s : IState νr νb α) : INode νr νb α → Tree νr νb α
  | .rng v es => createNodeR v (denE s es)
  | .bool v h l => createNodeB v (den s h) (den s l)

theorem INode.children_not (n : INode νr νb α) : n.not.children = n.children.map Id.not := by
  cases n <;> simp [INode.not, INode.children, List.map_map, Function.comp_def]

private theorem Edges.ofList_not (l : EdgeL νr νb α) :
    (Edges.ofList l).not = Edges.ofList (l.map fun e => (e.1, e.2.not)) := by
  induction l with
  | nil => rfl
  | cons e l ih => obtain ⟨iv, c⟩ := e; simp [Edges.ofList, Edges.not, ih]

theorem denNode_not (s : IState νr νb α) (n : INode νr νb α) : denNode s n.not = (denNode s n).not := by
  cases n with
  | rng v es =>
    simp only [INode.not, denNode, Tree.not, Edges.ofList_not, denE, List.map_map, Function.comp_def,
      den_not]
  | bool v h l => simp only [INode.not, denNode, Tree.not, den_not]

theorem denNode_mono {s s' : IState νr νb α} (hs : s.WF) (hle : s.Le s') (n : INode νr νb α)
    (hv : ∀ c ∈ n.children, Id.Valid s c) : denNode s' n = denNode s n := by
  cases n with
  | rng v es =>
    simp only [denNode, denE]
    congr 2
    apply List.map_congr_left
    intro e he
    rw [den_mono hs hle (hv e.2 (by simp only [INode.children, List.mem_map]; exact ⟨e, he, rfl⟩))]
  | bool v a b =>
    simp only [denNode]
    rw [den_mono hs hle (hv a (by simp [INode.children])), den_mono hs hle (hv b (by simp [INode.children]))]

theorem denE_mono {s s' : IState νr νb α} (hs : s.WF) (hle : s.Le s') (es : List (Ivl α × Id))
    (hv : ∀ e ∈ es, Id.Valid s e.2) : denE s' es = denE s es := by
  unfold denE
  apply List.map_congr_left
  intro e he
  rw [den_mono hs hle (hv e he)]

theorem createNodeT_all_eq (s : IState νr νb α) (n : INode νr νb α) (first : Id) (rest : List Id)
    (hch : n.children = first :: rest) (hall : ∀ c ∈ rest, c = first) :
    createNodeT s n = den s first := by
  cases n with
  | rng v es =>
    cases es with
    | nil => simp [INode.children] at hch
    | cons e es' =>
      obtain ⟨iv, c⟩ := e
      simp only [INode.children, List.map_cons, List.cons.injEq] at hch
      obtain ⟨h1, h2⟩ := hch
      subst h1
      simp only [createNodeT, denE, List.map_cons, createNodeR]
      rw [if_pos]
      simp only [List.all_eq_true, List.mem_map, beq_iff_eq]
      rintro _ ⟨e', he', rfl⟩
      simp only
      rw [hall e'.2 (by rw [← h2]; simp only [List.mem_map]; exact ⟨e', he', rfl⟩)]
  | bool v a b =>
    simp only [INode.children, List.cons.injEq] at hch
    obtain ⟨h1, h2⟩ := hch
    subst h1
    have : b = a := hall b (by rw [← h2]; simp)
    subst this
    simp [createNodeT, createNodeB]

theorem createNodeT_not_all {s : IState νr νb α} (hs : s.WF) (n : INode νr νb α) (first : Id)
    (rest : List Id) (hv : ∀ c ∈ n.children, Id.Valid s c)
    (hch : n.children = first :: rest) (hne : ∃ c ∈ rest, c ≠ first) :
    createNodeT s n = denNode s n := by
  obtain ⟨c, hc, hcf⟩ := hne
  have vf : Id.Valid s first := hv first (by rw [hch]; simp)
  have vc : Id.Valid s c := hv c (by rw [hch]; simp [hc])
  have hden : den s c ≠ den s first := fun h => hcf (den_inj hs vc vf h)
  cases n with
  | rng v es =>
    cases es with
    | nil => simp [INode.children] at hch
    | cons e es' =>
      obtain ⟨iv, c0⟩ := e
      simp only [INode.children, List.map_cons, List.cons.injEq] at hch
      obtain ⟨h1, h2⟩ := hch
      subst h1
      simp only [createNodeT, denNode, denE, List.map_cons, createNodeR]
      rw [if_neg]
      simp only [List.all_eq_true, List.mem_map, beq_iff_eq]
      rw [← h2] at hc
      simp only [List.mem_map] at hc
      obtain ⟨e', he', rfl⟩ := hc
      intro h
      exact hden (h (e'.1, den s e'.2) ⟨e', he', rfl⟩)
  | bool v a b =>
    simp only [INode.children, List.cons.injEq] at hch
    obtain ⟨h1, h2⟩ := hch
    subst h1
    rw [← h2] at hc
    simp only [List.mem_singleton] at hc
    subst hc
    simp only [createNodeT, denNode, createNodeB]
    rw [if_neg (fun h => hden h.symm)]

/-- find-or-append keeps the invariant and returns a position holding the node -/
theorem intern_spec {s : IState νr νb α} (hs : s.Inv) (n : INode νr νb α) (hnf : n.NF)
    (hv : ∀ c ∈ n.children, Id.Valid s c) :
    (intern s n).1.Inv ∧ s.Le (intern s n).1 ∧ (intern s n).1.nodes[(intern s n).2]? = some n := by
  unfold intern
  cases hidx : List.idxOf? n s.nodes with
  | some i =>
    simp only
    obtain ⟨hi, hn, _⟩ := List.idxOf?_eq_some_iff.mp hidx
    exact ⟨hs, IState.Le.refl s, by rw [List.getElem?_eq_getElem hi, hn]⟩
  | none =>
    simp only
    have hnot : n ∉ s.nodes := List.idxOf?_eq_none_iff.mp hidx
    have hle : s.Le { s with nodes := s.nodes ++ [n] } := ⟨[n], rfl⟩
    have hwf : IState.WF { s with nodes := s.nodes ++ [n] } := by
      refine ⟨?_, ?_, ?_⟩
      · intro i m hm c hc
        simp only at hm
        rcases Nat.lt_or_ge i s.nodes.length with hi | hi
        · rw [List.getElem?_append_left hi] at hm
          exact hs.wf.acyclic i m hm c hc
        · rw [List.getElem?_append_right hi] at hm
          have h0 : i - s.nodes.length = 0 := by
            rcases Nat.eq_zero_or_pos (i - s.nodes.length) with h | h
            · exact h
            · rw [List.getElem?_eq_none (by simp; omega)] at hm; cases hm
          rw [h0] at hm
          simp only [List.getElem?_cons_zero, Option.some.injEq] at hm
          subst hm
          have := (Id.valid_iff s c).mp (hv c hc)
          omega
      · intro m hm
        simp only [List.mem_append, List.mem_singleton] at hm
        rcases hm with hm | hm
        · exact hs.wf.nf m hm
        · rw [hm]; exact hnf
      · simp only
        rw [List.nodup_append]
        refine ⟨hs.wf.unique, by simp, ?_⟩
        intro a ha b hb
        simp only [List.mem_singleton] at hb
        subst hb
        intro h; subst h; exact hnot ha
    refine ⟨⟨hwf, CacheOK.mono hs.wf hs.cache hle rfl⟩, hle, ?_⟩
    simp

theorem createNodeI_nil (s : IState νr νb α) (n : INode νr νb α) (hch : n.children = []) :
    createNodeI s n = (s, .ff) := by
  unfold createNodeI; rw [hch]

theorem createNodeI_cons (s : IState νr νb α) (n : INode νr νb α) (first : Id) (rest : List Id)
    (hch : n.children = first :: rest) :
    createNodeI s n =
      if (∀ c ∈ rest, c = first) then (s, first)
      else ((intern s (if first.isComplement then n.not else n)).1,
        .ref (intern s (if first.isComplement then n.not else n)).2 first.isComplement) := by
  unfold createNodeI
  rw [hch]
  simp only
  generalize first.isComplement = b
  cases b
  · show (if (n.children.all fun x => x == first) = true then (s, first)
      else ((intern s n).1, Id.ref (intern s n).2 false)) = _
    have hcond : ((n.children.all fun x => x == first) = true) ↔ (∀ c ∈ rest, c = first) := by
      simp only [hch, List.all_cons, beq_self_eq_true, Bool.true_and, List.all_eq_true, beq_iff_eq]
    by_cases hall : ∀ c ∈ rest, c = first
    · rw [if_pos hall, if_pos (hcond.mpr hall)]
    · rw [if_neg hall, if_neg (fun h => hall (hcond.mp h))]; rfl
  · show (if (n.not.children.all fun x => x == first.not) = true then (s, first.not.not)
      else ((intern s n.not).1, Id.ref (intern s n.not).2 true)) = _
    have hcond : ((n.not.children.all fun x => x == first.not) = true) ↔ (∀ c ∈ rest, c = first) := by
      simp only [INode.children_not, hch, List.map_cons, List.all_cons, beq_self_eq_true,
        Bool.true_and, List.all_eq_true, List.mem_map, beq_iff_eq]
      constructor
      · intro h c hc; exact Id.not_inj (h c.not ⟨c, hc, rfl⟩)
      · rintro h _ ⟨a, ha, rfl⟩; rw [h a ha]
    by_cases hall : ∀ c ∈ rest, c = first
    · rw [if_pos hall, if_pos (hcond.mpr hall), Id.not_not]
    · rw [if_neg hall, if_neg (fun h => hall (hcond.mp h))]; rfl

/-- **`create_node` on ids is `create_node` on denotations** -/
theorem createNodeI_spec {s : IState νr νb α} (hs : s.Inv) (n : INode νr νb α)
    (hv : ∀ c ∈ n.children, Id.Valid s c) :
    (createNodeI s n).1.Inv ∧ s.Le (createNodeI s n).1 ∧ Id.Valid (createNodeI s n).1 (createNodeI s n).2 ∧
      den (createNodeI s n).1 (createNodeI s n).2 = createNodeT s n := by
  cases hch : n.children with
  | nil =>
    rw [createNodeI_nil s n hch]
    refine ⟨hs, IState.Le.refl s, trivial, ?_⟩
    cases n with
    | rng v es =>
      simp only [INode.children, List.map_eq_nil_iff] at hch
      subst hch
      simp [createNodeT, denE, createNodeR]
    | bool v a b => simp [INode.children] at hch
  | cons first rest =>
    rw [createNodeI_cons s n first rest hch]
    have vf : Id.Valid s first := hv first (by rw [hch]; simp)
    by_cases hall : ∀ c ∈ rest, c = first
    · rw [if_pos hall]
      exact ⟨hs, IState.Le.refl s, vf, (createNodeT_all_eq s n first rest hch hall).symm⟩
    · rw [if_neg hall]
      have hne : ∃ c ∈ rest, c ≠ first := by
        apply Classical.byContradiction
        intro h; apply hall; intro c hc
        exact Classical.byContradiction (fun h' => h ⟨c, hc, h'⟩)
      generalize hn' : (if first.isComplement = true then n.not else n) = n'
      -- the normalised node is in normal form with valid children
      have hv' : ∀ c ∈ n'.children, Id.Valid s c := by
        rw [← hn']
        split
        · intro c hc
          rw [INode.children_not, List.mem_map] at hc
          obtain ⟨c', hc', rfl⟩ := hc
          exact (Id.valid_not s c').mpr (hv c' hc')
        · exact hv
      have hnf : n'.NF := by
        rw [← hn']
        split
        · rename_i hf
          refine ⟨first.not, rest.map Id.not, by rw [INode.children_not, hch]; rfl, ?_, ?_⟩
          · cases first <;> simp [Id.isComplement, Id.not] at hf ⊢
            exact hf
          · obtain ⟨c, hc, h⟩ := hne
            exact ⟨c.not, List.mem_map.mpr ⟨c, hc, rfl⟩, fun h' => h (Id.not_inj h')⟩
        · rename_i hf
          exact ⟨first, rest, hch, by simpa using hf, hne⟩
      obtain ⟨hinv, hle, hget⟩ := intern_spec hs n' hnf hv'
      have hlt : (intern s n').2 < (intern s n').1.nodes.length := (WF.child_valid hinv.wf hget).1
      refine ⟨hinv, hle, hlt, ?_⟩
      rw [den_ref hinv.wf _ hget, denNode_mono hs.wf hle n' hv', createNodeT_not_all hs.wf n first rest hv hch hne,
        ← hn']
      by_cases hf : first.isComplement = true
      · simp only [hf, if_true, denNode_not, Tree.not_not']
      · simp only [hf, if_false]
        have hf' : first.isComplement = false := by simpa using hf
        simp [hf']

end Create


/-! ## (v) the state-threading helpers of `andI` against their pure counterparts -/
section Helpers
variable {νr νb α : Type}
variable [LT α] [DecidableLT α] [DecidableEq α]
variable [LT νr] [DecidableLT νr] [DecidableEq νr] [LT νb] [DecidableLT νb] [DecidableEq νb]

/-- resolve the parent's complement bit on every child -/
def negE (parent : Id) (es : List (Ivl α × Id)) : List (Ivl α × Id) :=
  es.map fun e => (e.1, e.2.negate parent)

/-- postcondition of an id-producing step: invariant kept, arena grown, result valid, denotes `t` -/
def Post (s : IState νr νb α) (r : IState νr νb α × Id) (t : Tree νr νb α) : Prop :=
  r.1.Inv ∧ s.Le r.1 ∧ Id.Valid r.1 r.2 ∧ den r.1 r.2 = t

/-- postcondition of an edge-list-producing step -/
def PostE (s : IState νr νb α) (r : IState νr νb α × List (Ivl α × Id)) (es : EdgeL νr νb α) : Prop :=
  r.1.Inv ∧ s.Le r.1 ∧ (∀ e ∈ r.2, Id.Valid r.1 e.2) ∧ denE r.1 r.2 = es

/-- postcondition of a node-producing step (before `createNodeI`) -/
def PostN (s : IState νr νb α) (r : IState νr νb α × INode νr νb α) (t : Tree νr νb α) : Prop :=
  r.1.Inv ∧ s.Le r.1 ∧ (∀ c ∈ r.2.children, Id.Valid r.1 c) ∧ createNodeT r.1 r.2 = t

/-! ### `coalesceI` commutes with denoting the children -/

theorem coalesceGoI_den {s : IState νr νb α} (hs : s.WF) : ∀ (es : List (Ivl α × Id)) (cur : Ivl α × Id),
    Id.Valid s cur.2 → (∀ e ∈ es, Id.Valid s e.2) →
    denE s (coalesceGoI cur es) = coalesceGo (cur.1, den s cur.2) (denE s es) ∧
      ∀ e ∈ coalesceGoI cur es, Id.Valid s e.2 := by
  intro es
  induction es with
  | nil =>
    intro cur hc _
    simp only [coalesceGoI, denE, List.map_cons, List.map_nil, coalesceGo, true_and]
    intro e he; simp only [List.mem_singleton] at he; subst he; exact hc
  | cons e rest ih =>
    intro cur hc hv
    have he := hv e (by simp)
    have hrest : ∀ e' ∈ rest, Id.Valid s e'.2 := fun e' he' => hv e' (by simp [he'])
    have hiff : (cur.2 = e.2 ∧ cur.1.canConjoin e.1 = true) ↔
        (den s cur.2 = den s e.2 ∧ cur.1.canConjoin e.1 = true) := by
      rw [den_eq_iff hs hc he]
    by_cases hcond : cur.2 = e.2 ∧ cur.1.canConjoin e.1 = true
    · have h1 : coalesceGoI cur (e :: rest) = coalesceGoI (cur.1.conjoin e.1, cur.2) rest := by
        rw [coalesceGoI, if_pos hcond]
      have h2 : coalesceGo (cur.1, den s cur.2) (denE s (e :: rest)) =
          coalesceGo (cur.1.conjoin e.1, den s cur.2) (denE s rest) := by
        simp only [denE, List.map_cons]
        rw [coalesceGo, if_pos (hiff.mp hcond)]
      rw [h1, h2]
      exact ih (cur.1.conjoin e.1, cur.2) hc hrest
    · have h1 : coalesceGoI cur (e :: rest) = cur :: coalesceGoI e rest := by
        rw [coalesceGoI, if_neg hcond]
      have h2 : coalesceGo (cur.1, den s cur.2) (denE s (e :: rest)) =
          (cur.1, den s cur.2) :: coalesceGo (e.1, den s e.2) (denE s rest) := by
        simp only [denE, List.map_cons]
        rw [coalesceGo, if_neg (fun h => hcond (hiff.mpr h))]
      rw [h1, h2]
      obtain ⟨i1, i2⟩ := ih e he hrest
      refine ⟨?_, ?_⟩
      · simp only [denE, List.map_cons] at i1 ⊢
        rw [i1]
      · intro e' he'
        simp only [List.mem_cons] at he'
        rcases he' with h | h
        · subst h; exact hc
        · exact i2 e' h

theorem coalesceI_den {s : IState νr νb α} (hs : s.WF) (es : List (Ivl α × Id))
    (hv : ∀ e ∈ es, Id.Valid s e.2) :
    denE s (coalesceI es) = coalesce (denE s es) ∧ ∀ e ∈ coalesceI es, Id.Valid s e.2 := by
  cases es with
  | nil => simp [coalesceI, coalesce, denE]
  | cons e rest =>
    simp only [coalesceI]
    have := coalesceGoI_den hs rest e (hv e (by simp)) (fun e' he' => hv e' (by simp [he']))
    simpa [denE, coalesce] using this

/-! ### `mapEdgesI` -/

theorem PostE.nil {s : IState νr νb α} (hs : s.Inv) : PostE s (s, []) [] :=
  ⟨hs, IState.Le.refl s, by simp, rfl⟩

theorem mapEdgesI_spec (f : IState νr νb α → Id → IState νr νb α × Id)
    (g : Tree νr νb α → Tree νr νb α) (Q : Tree νr νb α → Prop) (parent : Id) (s0 : IState νr νb α)
    (hf : ∀ s c, s0.Le s → s.Inv → Id.Valid s c → Q (den s c) → Post s (f s c) (g (den s c))) :
    ∀ (es : List (Ivl α × Id)) (s : IState νr νb α), s0.Le s → s.Inv →
      (∀ e ∈ es, Id.Valid s e.2 ∧ Q (den s (e.2.negate parent))) →
      PostE s (mapEdgesI f parent s es) ((denE s (negE parent es)).map fun e => (e.1, g e.2)) := by
  intro es
  induction es with
  | nil => intro s _ hs _; exact PostE.nil hs
  | cons e rest ih =>
    intro s h0 hs hv
    obtain ⟨iv, c⟩ := e
    have hc := hv (iv, c) (by simp)
    have h1 := hf s (c.negate parent) h0 hs ((Id.valid_negate s c parent).mpr hc.1) hc.2
    simp only [mapEdgesI]
    rcases hr1 : f s (c.negate parent) with ⟨s1, c'⟩
    rw [hr1] at h1
    obtain ⟨i1, l1, v1, d1⟩ := h1
    simp only at i1 l1 v1 d1
    have hrest : ∀ e ∈ rest, Id.Valid s1 e.2 ∧ Q (den s1 (e.2.negate parent)) := by
      intro e he
      have := hv e (by simp [he])
      refine ⟨this.1.mono l1, ?_⟩
      rw [den_mono hs.wf l1 ((Id.valid_negate s e.2 parent).mpr this.1)]
      exact this.2
    have h2 := ih s1 (h0.trans l1) i1 hrest
    rcases hr2 : mapEdgesI f parent s1 rest with ⟨s2, rest'⟩
    rw [hr2] at h2
    obtain ⟨i2, l2, v2, d2⟩ := h2
    simp only at i2 l2 v2 d2 ⊢
    refine ⟨i2, l1.trans l2, ?_, ?_⟩
    · intro e he
      simp only [List.mem_cons] at he
      rcases he with h | h
      · subst h; exact v1.mono l2
      · exact v2 e h
    · have hd : denE s1 (negE parent rest) = denE s (negE parent rest) := by
        apply denE_mono hs.wf l1
        intro e he
        simp only [negE, List.mem_map] at he
        obtain ⟨e', he', rfl⟩ := he
        exact (Id.valid_negate s e'.2 parent).mpr (hv e' (by simp [he'])).1
      simp only [denE, negE, List.map_cons] at d2 hd ⊢
      rw [d2, hd, den_mono i1.wf l2 v1, d1]

/-! ### `rowI` / `productI` -/

theorem rowI_spec (f : IState νr νb α → Id → Id → IState νr νb α × Id)
    (g : Tree νr νb α → Tree νr νb α → Tree νr νb α) (Q : Tree νr νb α → Tree νr νb α → Prop)
    (lp rp : Id)
    (hf : ∀ s a b, s.Inv → Id.Valid s a → Id.Valid s b → Q (den s a) (den s b) →
      Post s (f s a b) (g (den s a) (den s b)))
    (l : Ivl α × Id) :
    ∀ (rs : List (Ivl α × Id)) (s : IState νr νb α), s.Inv → Id.Valid s l.2 →
      (∀ r ∈ rs, Id.Valid s r.2 ∧ Q (den s (l.2.negate lp)) (den s (r.2.negate rp))) →
      PostE s (rowI f lp rp l s rs) (productRow g (l.1, den s (l.2.negate lp)) (denE s (negE rp rs))) := by
  intro rs
  induction rs with
  | nil => intro s hs _ _; exact PostE.nil hs
  | cons r rest ih =>
    intro s hs hl hv
    have hr := hv r (by simp)
    have hrest0 : ∀ r' ∈ rest, Id.Valid s r'.2 ∧ Q (den s (l.2.negate lp)) (den s (r'.2.negate rp)) :=
      fun r' hr' => hv r' (by simp [hr'])
    simp only [rowI, denE, negE, List.map_cons, productRow]
    by_cases hval : (r.1.inter l.1).valid = true
    · rw [if_pos hval, if_pos hval]
      have h1 := hf s (l.2.negate lp) (r.2.negate rp) hs ((Id.valid_negate s _ _).mpr hl)
        ((Id.valid_negate s _ _).mpr hr.1) hr.2
      rcases hr1 : f s (l.2.negate lp) (r.2.negate rp) with ⟨s1, c'⟩
      rw [hr1] at h1
      obtain ⟨i1, l1, v1, d1⟩ := h1
      simp only at i1 l1 v1 d1
      have hlv : den s1 (l.2.negate lp) = den s (l.2.negate lp) :=
        den_mono hs.wf l1 ((Id.valid_negate s _ _).mpr hl)
      have hrest : ∀ r' ∈ rest, Id.Valid s1 r'.2 ∧ Q (den s1 (l.2.negate lp)) (den s1 (r'.2.negate rp)) := by
        intro r' hr'
        have := hrest0 r' hr'
        refine ⟨this.1.mono l1, ?_⟩
        rw [hlv, den_mono hs.wf l1 ((Id.valid_negate s r'.2 rp).mpr this.1)]
        exact this.2
      have h2 := ih s1 i1 (hl.mono l1) hrest
      rcases hr2 : rowI f lp rp l s1 rest with ⟨s2, rest'⟩
      rw [hr2] at h2
      obtain ⟨i2, l2, v2, d2⟩ := h2
      simp only at i2 l2 v2 d2 ⊢
      refine ⟨i2, l1.trans l2, ?_, ?_⟩
      · intro e he
        simp only [List.mem_cons] at he
        rcases he with h | h
        · subst h; exact v1.mono l2
        · exact v2 e h
      · have hd : denE s1 (negE rp rest) = denE s (negE rp rest) := by
          apply denE_mono hs.wf l1
          intro e he
          simp only [negE, List.mem_map] at he
          obtain ⟨e', he', rfl⟩ := he
          exact (Id.valid_negate s e'.2 rp).mpr (hrest0 e' he').1
        simp only [denE, negE, List.map_cons] at d2 hd ⊢
        rw [d2, hd, hlv, den_mono i1.wf l2 v1, d1]
    · rw [if_neg hval, if_neg hval]
      have := ih s hs hl hrest0
      simpa [denE, negE] using this

theorem productI_spec (f : IState νr νb α → Id → Id → IState νr νb α × Id)
    (g : Tree νr νb α → Tree νr νb α → Tree νr νb α) (Q : Tree νr νb α → Tree νr νb α → Prop)
    (lp rp : Id)
    (hf : ∀ s a b, s.Inv → Id.Valid s a → Id.Valid s b → Q (den s a) (den s b) →
      Post s (f s a b) (g (den s a) (den s b)))
    (rs : List (Ivl α × Id)) :
    ∀ (ls : List (Ivl α × Id)) (s : IState νr νb α), s.Inv → (∀ l ∈ ls, Id.Valid s l.2) →
      (∀ r ∈ rs, Id.Valid s r.2) →
      (∀ l ∈ ls, ∀ r ∈ rs, Q (den s (l.2.negate lp)) (den s (r.2.negate rp))) →
      PostE s (productI f lp rp s ls rs) (product g (denE s (negE lp ls)) (denE s (negE rp rs))) := by
  intro ls
  induction ls with
  | nil => intro s hs _ _ _; exact PostE.nil hs
  | cons l rest ih =>
    intro s hs hlv hrv hQ
    have hl := hlv l (by simp)
    simp only [productI]
    have h1 := rowI_spec f g Q lp rp hf l rs s hs hl (fun r hr => ⟨hrv r hr, hQ l (by simp) r hr⟩)
    rcases hr1 : rowI f lp rp l s rs with ⟨s1, row⟩
    rw [hr1] at h1
    obtain ⟨i1, l1, v1, d1⟩ := h1
    simp only at i1 l1 v1 d1
    have hdl : denE s1 (negE lp rest) = denE s (negE lp rest) := by
      apply denE_mono hs.wf l1
      intro e he
      simp only [negE, List.mem_map] at he
      obtain ⟨e', he', rfl⟩ := he
      exact (Id.valid_negate s e'.2 lp).mpr (hlv e' (by simp [he']))
    have hdr : denE s1 (negE rp rs) = denE s (negE rp rs) := by
      apply denE_mono hs.wf l1
      intro e he
      simp only [negE, List.mem_map] at he
      obtain ⟨e', he', rfl⟩ := he
      exact (Id.valid_negate s e'.2 rp).mpr (hrv e' he')
    have h2 := ih s1 i1 (fun l' hl' => (hlv l' (by simp [hl'])).mono l1) (fun r hr => (hrv r hr).mono l1)
      (by
        intro l' hl' r hr
        have hv1 := hlv l' (by simp [hl'])
        have hv2 := hrv r hr
        rw [den_mono hs.wf l1 ((Id.valid_negate s _ lp).mpr hv1), den_mono hs.wf l1 ((Id.valid_negate s _ rp).mpr hv2)]
        exact hQ l' (by simp [hl']) r hr)
    rcases hr2 : productI f lp rp s1 rest rs with ⟨s2, rest'⟩
    rw [hr2] at h2
    obtain ⟨i2, l2, v2, d2⟩ := h2
    simp only at i2 l2 v2 d2 ⊢
    refine ⟨i2, l1.trans l2, ?_, ?_⟩
    · intro e he
      simp only [List.mem_append] at he
      rcases he with h | h
      · exact (v1 e h).mono l2
      · exact v2 e h
    · have hrow : denE s2 row = denE s1 row := denE_mono i1.wf l2 row v1
      simp only [denE, negE, List.map_cons, List.map_append, product] at d1 d2 hdl hdr hrow ⊢
      rw [hrow, d1, d2, hdl, hdr]

end Helpers


section AndI
variable {νr νb α : Type}
variable [LT α] [DecidableLT α] [DecidableEq α]
variable [LT νr] [DecidableLT νr] [DecidableEq νr] [LT νb] [DecidableLT νb] [DecidableEq νb]

/-- the `Edges::map` branch of `andI`, with projections -/
def mapNodeI (n : Nat) (s : IState νr νb α) (xi yi : Id) (vx : νr) (ex : List (Ivl α × Id)) :
    IState νr νb α × INode νr νb α :=
  ((mapEdgesI (fun s c => andI n s c yi) xi s ex).1,
    .rng vx (coalesceI (mapEdgesI (fun s c => andI n s c yi) xi s ex).2))

/-- two consecutive recursive calls (Boolean nodes): first `(a1, b1)`, then `(a2, b2)`;
    the node gets the second result as `hi`/`lo` according to `swap` -/
def twoNodeI (n : Nat) (s : IState νr νb α) (v : νb) (a1 b1 a2 b2 : Id) (swap : Bool) :
    IState νr νb α × INode νr νb α :=
  ((andI n (andI n s a1 b1).1 a2 b2).1,
    if swap then .bool v (andI n (andI n s a1 b1).1 a2 b2).2 (andI n s a1 b1).2
    else .bool v (andI n s a1 b1).2 (andI n (andI n s a1 b1).1 a2 b2).2)

/-- the node-building part of `andI` (the inner `match x, y`) -/
def andNodeI (n : Nat) (s : IState νr νb α) (xi yi : Id) :
    INode νr νb α → INode νr νb α → IState νr νb α × INode νr νb α
  | .rng vx ex, .rng vy ey =>
    if vx < vy then mapNodeI n s xi yi vx ex
    else if vy < vx then mapNodeI n s yi xi vy ey
    else ((productI (andI n) xi yi s ex ey).1, .rng vx (coalesceI (productI (andI n) xi yi s ex ey).2))
  | .rng vx ex, .bool _ _ _ => mapNodeI n s xi yi vx ex
  | .bool _ _ _, .rng vy ey => mapNodeI n s yi xi vy ey
  | .bool vx hx lx, .bool vy hy ly =>
    if vx < vy then twoNodeI n s vx (lx.negate xi) yi (hx.negate xi) yi true
    else if vy < vx then twoNodeI n s vy (ly.negate yi) xi (hy.negate yi) xi true
    else twoNodeI n s vx (hx.negate xi) (hy.negate yi) (lx.negate xi) (ly.negate yi) false

theorem andI_unfold (n : Nat) (s : IState νr νb α) (xi yi : Id) (x y : INode νr νb α)
    (h1 : xi ≠ .tt) (h2 : yi ≠ .tt) (h3 : xi ≠ yi) (h4 : ¬ (xi = .ff ∨ yi = .ff)) (h5 : xi.not ≠ yi)
    (hc : s.cache.find? (fun e => e.1 == (xi, yi)) = none)
    (hx : s.node? xi = some x) (hy : s.node? yi = some y) :
    andI (n + 1) s xi yi =
      ({ (createNodeI (andNodeI n s xi yi x y).1 (andNodeI n s xi yi x y).2).1 with
          cache := ((xi, yi), (createNodeI (andNodeI n s xi yi x y).1 (andNodeI n s xi yi x y).2).2) ::
            (createNodeI (andNodeI n s xi yi x y).1 (andNodeI n s xi yi x y).2).1.cache },
        (createNodeI (andNodeI n s xi yi x y).1 (andNodeI n s xi yi x y).2).2) := by
  rw [andI, if_neg h1, if_neg h2, if_neg h3, if_neg h4, if_neg h5, hc, hx, hy]
  cases x <;> cases y <;> simp only [andNodeI, mapNodeI, twoNodeI]
  all_goals rfl

/-! ### one unfolding step of `andF` on two decision nodes -/

theorem andF_rng_rng (n : Nat) (vx vy : νr) (ex ey : Edges νr νb α)
    (C3 : Tree.rng vx ex ≠ Tree.rng vy ey) (C5 : (Tree.rng vx ex).not ≠ Tree.rng vy ey) :
    andF (n + 1) (.rng vx ex) (.rng vy ey) =
      if vx < vy then createNodeR vx (mapE (fun c => andF n c (.rng vy ey)) ex.toList)
      else if vy < vx then createNodeR vy (mapE (fun c => andF n c (.rng vx ex)) ey.toList)
      else createNodeR vx (applyRanges (andF n) ex.toList ey.toList) := by
  have c1 : ¬ (Tree.rng vx ex = .leaf true) := by simp
  have c2 : ¬ (Tree.rng vy ey = .leaf true) := by simp
  have c4 : ¬ (Tree.rng vx ex = .leaf false ∨ Tree.rng vy ey = .leaf false) := by simp
  rw [andF]
  simp only [c1, c2, C3, c4, C5, if_false]

theorem andF_rng_bool (n : Nat) (vx : νr) (vy : νb) (ex : Edges νr νb α) (hy ly : Tree νr νb α) :
    andF (n + 1) (.rng vx ex) (.bool vy hy ly) =
      createNodeR vx (mapE (fun c => andF n c (.bool vy hy ly)) ex.toList) := by
  rw [andF]
  simp [Tree.not]

theorem andF_bool_rng (n : Nat) (vx : νb) (vy : νr) (hx lx : Tree νr νb α) (ey : Edges νr νb α) :
    andF (n + 1) (.bool vx hx lx) (.rng vy ey) =
      createNodeR vy (mapE (fun c => andF n c (.bool vx hx lx)) ey.toList) := by
  rw [andF]
  simp [Tree.not]

theorem andF_bool_bool (n : Nat) (vx vy : νb) (hx lx hy ly : Tree νr νb α)
    (C3 : Tree.bool vx hx lx ≠ Tree.bool vy hy ly) (C5 : (Tree.bool vx hx lx).not ≠ Tree.bool vy hy ly) :
    andF (n + 1) (.bool vx hx lx) (.bool vy hy ly) =
      if vx < vy then createNodeB vx (andF n hx (.bool vy hy ly)) (andF n lx (.bool vy hy ly))
      else if vy < vx then createNodeB vy (andF n hy (.bool vx hx lx)) (andF n ly (.bool vx hx lx))
      else createNodeB vx (andF n hx hy) (andF n lx ly) := by
  have c1 : ¬ (Tree.bool vx hx lx = .leaf true) := by simp
  have c2 : ¬ (Tree.bool vy hy ly = .leaf true) := by simp
  have c4 : ¬ (Tree.bool vx hx lx = .leaf false ∨ Tree.bool vy hy ly = .leaf false) := by simp
  rw [andF]
  simp only [c1, c2, C3, c4, C5, if_false]

/-! ### unfolding a reference one level, complement bit pushed to the children -/

/-- the node behind `xi`, read with `xi`'s complement bit applied to the children -/
def denNodeNeg (s : IState νr νb α) (xi : Id) : INode νr νb α → Tree νr νb α
  | .rng v es => .rng v (Edges.ofList (denE s (negE xi es)))
  | .bool v h l => .bool v (den s (h.negate xi)) (den s (l.negate xi))

theorem den_ref_neg {s : IState νr νb α} (hs : s.WF) {i : Nat} {n : INode νr νb α} (c : Bool)
    (hn : s.nodes[i]? = some n) : den s (.ref i c) = denNodeNeg s (.ref i c) n := by
  rw [den_ref hs c hn]
  cases c
  · cases n with
    | rng v es =>
      simp only [Bool.false_eq_true, if_false, denNode, denNodeNeg, negE, Id.negate, Id.isComplement,
        denE, List.map_map, Function.comp_def]
    | bool v h l =>
      simp only [Bool.false_eq_true, if_false, denNode, denNodeNeg, Id.negate, Id.isComplement]
  · cases n with
    | rng v es =>
      simp only [if_true, denNode, denNodeNeg, negE, Id.negate, Id.isComplement, Tree.not,
        Edges.ofList_not, denE, List.map_map, Function.comp_def, den_not]
    | bool v h l =>
      simp only [if_true, denNode, denNodeNeg, Id.negate, Id.isComplement, Tree.not, den_not]

/-! ### the branches of `andNodeI` -/

/-- the induction hypothesis of the main theorem, as a predicate on the fuel -/
def AndIH (n : Nat) : Prop :=
  ∀ (s : IState νr νb α) (x y : Id), s.Inv → Id.Valid s x → Id.Valid s y →
    (den s x).size + (den s y).size < n → Post s (andI n s x y) (andF n (den s x) (den s y))

theorem mem_denE_negE (s : IState νr νb α) (xi : Id) (ex : List (Ivl α × Id)) (e : Ivl α × Id)
    (he : e ∈ ex) : (e.1, den s (e.2.negate xi)) ∈ denE s (negE xi ex) := by
  simp only [denE, negE, List.map_map, List.mem_map, Function.comp_def]
  exact ⟨e, he, rfl⟩

theorem map_case (n : Nat) (ih : AndIH (νr := νr) (νb := νb) (α := α) n) {s : IState νr νb α}
    (hs : s.Inv) (xi yi : Id) (vx : νr) (ex : List (Ivl α × Id))
    (ux : den s xi = .rng vx (Edges.ofList (denE s (negE xi ex))))
    (cvx : ∀ e ∈ ex, Id.Valid s e.2) (vy : Id.Valid s yi)
    (hsz : (den s xi).size + (den s yi).size < n + 1) :
    PostN s (mapNodeI n s xi yi vx ex)
      (createNodeR vx (mapE (fun c => andF n c (den s yi)) (denE s (negE xi ex)))) := by
  have hspec := mapEdgesI_spec (fun s c => andI n s c yi) (fun c => andF n c (den s yi))
    (fun t => t.size + (den s yi).size < n) xi s
    (by
      intro s' c hle hs' hc hq
      have := ih s' c yi hs' hc (vy.mono hle) (by rw [den_mono hs.wf hle vy]; exact hq)
      rw [den_mono hs.wf hle vy] at this
      exact this)
    ex s (IState.Le.refl s) hs
    (by
      intro e he
      refine ⟨cvx e he, ?_⟩
      have : (den s (e.2.negate xi)).size < (den s xi).size := by
        rw [ux]
        apply Tree.size_rng_child' vx _ (e.1, den s (e.2.negate xi))
        rw [Edges.toList_ofList]
        exact mem_denE_negE s xi ex e he
      omega)
  unfold mapNodeI
  generalize mapEdgesI (fun s c => andI n s c yi) xi s ex = r at hspec
  obtain ⟨ri, rle, rv, rd⟩ := hspec
  obtain ⟨cd, cv⟩ := coalesceI_den ri.wf r.2 rv
  refine ⟨ri, rle, ?_, ?_⟩
  · intro c hc
    simp only [INode.children, List.mem_map] at hc
    obtain ⟨e, he, rfl⟩ := hc
    exact cv e he
  · simp only [createNodeT]
    rw [cd, rd]
    rfl

theorem prod_case (n : Nat) (ih : AndIH (νr := νr) (νb := νb) (α := α) n) {s : IState νr νb α}
    (hs : s.Inv) (xi yi : Id) (vx vy : νr) (ex ey : List (Ivl α × Id))
    (ux : den s xi = .rng vx (Edges.ofList (denE s (negE xi ex))))
    (uy : den s yi = .rng vy (Edges.ofList (denE s (negE yi ey))))
    (cvx : ∀ e ∈ ex, Id.Valid s e.2) (cvy : ∀ e ∈ ey, Id.Valid s e.2)
    (hsz : (den s xi).size + (den s yi).size < n + 1) :
    PostN s ((productI (andI n) xi yi s ex ey).1, .rng vx (coalesceI (productI (andI n) xi yi s ex ey).2))
      (createNodeR vx (applyRanges (andF n) (denE s (negE xi ex)) (denE s (negE yi ey)))) := by
  have hspec := productI_spec (andI n) (andF n) (fun a b => a.size + b.size < n) xi yi
    (fun s' a b hs' ha hb hq => ih s' a b hs' ha hb hq) ey ex s hs cvx cvy
    (by
      intro l hl r hr
      have h1 : (den s (l.2.negate xi)).size < (den s xi).size := by
        rw [ux]
        apply Tree.size_rng_child' vx _ (l.1, den s (l.2.negate xi))
        rw [Edges.toList_ofList]
        exact mem_denE_negE s xi ex l hl
      have h2 : (den s (r.2.negate yi)).size < (den s yi).size := by
        rw [uy]
        apply Tree.size_rng_child' vy _ (r.1, den s (r.2.negate yi))
        rw [Edges.toList_ofList]
        exact mem_denE_negE s yi ey r hr
      omega)
  generalize productI (andI n) xi yi s ex ey = r at hspec
  obtain ⟨ri, rle, rv, rd⟩ := hspec
  obtain ⟨cd, cv⟩ := coalesceI_den ri.wf r.2 rv
  refine ⟨ri, rle, ?_, ?_⟩
  · intro c hc
    simp only [INode.children, List.mem_map] at hc
    obtain ⟨e, he, rfl⟩ := hc
    exact cv e he
  · simp only [createNodeT]
    rw [cd, rd]
    rfl

theorem two_case (n : Nat) (ih : AndIH (νr := νr) (νb := νb) (α := α) n) {s : IState νr νb α}
    (hs : s.Inv) (v : νb) (a1 b1 a2 b2 : Id) (swap : Bool)
    (va1 : Id.Valid s a1) (vb1 : Id.Valid s b1) (va2 : Id.Valid s a2) (vb2 : Id.Valid s b2)
    (sz1 : (den s a1).size + (den s b1).size < n) (sz2 : (den s a2).size + (den s b2).size < n) :
    PostN s (twoNodeI n s v a1 b1 a2 b2 swap)
      (if swap then createNodeB v (andF n (den s a2) (den s b2)) (andF n (den s a1) (den s b1))
       else createNodeB v (andF n (den s a1) (den s b1)) (andF n (den s a2) (den s b2))) := by
  have h1 := ih s a1 b1 hs va1 vb1 sz1
  unfold twoNodeI
  generalize andI n s a1 b1 = r1 at h1 ⊢
  obtain ⟨i1, l1, v1, d1⟩ := h1
  have h2 := ih r1.1 a2 b2 i1 (va2.mono l1) (vb2.mono l1)
    (by rw [den_mono hs.wf l1 va2, den_mono hs.wf l1 vb2]; exact sz2)
  rw [den_mono hs.wf l1 va2, den_mono hs.wf l1 vb2] at h2
  generalize andI n r1.1 a2 b2 = r2 at h2 ⊢
  obtain ⟨i2, l2, v2, d2⟩ := h2
  have d1' : den r2.1 r1.2 = andF n (den s a1) (den s b1) := by rw [den_mono i1.wf l2 v1, d1]
  refine ⟨i2, l1.trans l2, ?_, ?_⟩
  · intro c hc
    cases swap <;> simp only [INode.children, if_true, if_false, Bool.false_eq_true, List.mem_cons,
      List.not_mem_nil, or_false] at hc
    · rcases hc with rfl | rfl
      · exact v1.mono l2
      · exact v2
    · rcases hc with rfl | rfl
      · exact v2
      · exact v1.mono l2
  · cases swap <;> simp only [createNodeT, if_true, if_false, Bool.false_eq_true, d1', d2]

theorem andNodeI_spec (n : Nat) (ih : AndIH (νr := νr) (νb := νb) (α := α) n) {s : IState νr νb α}
    (hs : s.Inv) (xi yi : Id) (vx : Id.Valid s xi) (vy : Id.Valid s yi) (nx ny : INode νr νb α)
    (ux : den s xi = denNodeNeg s xi nx) (uy : den s yi = denNodeNeg s yi ny)
    (cvx : ∀ c ∈ nx.children, Id.Valid s c) (cvy : ∀ c ∈ ny.children, Id.Valid s c)
    (hsz : (den s xi).size + (den s yi).size < n + 1)
    (C3 : den s xi ≠ den s yi) (C5 : (den s xi).not ≠ den s yi) :
    PostN s (andNodeI n s xi yi nx ny) (andF (n + 1) (den s xi) (den s yi)) := by
  have hsz' : (den s yi).size + (den s xi).size < n + 1 := by omega
  cases nx with
  | rng vx' ex =>
    have cvx' : ∀ e ∈ ex, Id.Valid s e.2 := fun e he =>
      cvx e.2 (by simp only [INode.children, List.mem_map]; exact ⟨e, he, rfl⟩)
    simp only [denNodeNeg] at ux
    cases ny with
    | rng vy' ey =>
      have cvy' : ∀ e ∈ ey, Id.Valid s e.2 := fun e he =>
        cvy e.2 (by simp only [INode.children, List.mem_map]; exact ⟨e, he, rfl⟩)
      simp only [denNodeNeg] at uy
      simp only [andNodeI]
      have key : andF (n + 1) (den s xi) (den s yi) =
          if vx' < vy' then createNodeR vx' (mapE (fun c => andF n c (den s yi)) (denE s (negE xi ex)))
          else if vy' < vx' then createNodeR vy' (mapE (fun c => andF n c (den s xi)) (denE s (negE yi ey)))
          else createNodeR vx' (applyRanges (andF n) (denE s (negE xi ex)) (denE s (negE yi ey))) := by
        rw [ux, uy] at C3 C5
        rw [ux, uy, andF_rng_rng n _ _ _ _ C3 C5, Edges.toList_ofList, Edges.toList_ofList]
      rw [key]
      by_cases h1 : vx' < vy'
      · rw [if_pos h1, if_pos h1]
        exact map_case n ih hs xi yi vx' ex ux cvx' vy hsz
      · rw [if_neg h1, if_neg h1]
        by_cases h2 : vy' < vx'
        · rw [if_pos h2, if_pos h2]
          exact map_case n ih hs yi xi vy' ey uy cvy' vx hsz'
        · rw [if_neg h2, if_neg h2]
          exact prod_case n ih hs xi yi vx' vy' ex ey ux uy cvx' cvy' hsz
    | bool vy' hy ly =>
      simp only [denNodeNeg] at uy
      simp only [andNodeI]
      have key : andF (n + 1) (den s xi) (den s yi) =
          createNodeR vx' (mapE (fun c => andF n c (den s yi)) (denE s (negE xi ex))) := by
        rw [ux, uy, andF_rng_bool, Edges.toList_ofList]
      rw [key]
      exact map_case n ih hs xi yi vx' ex ux cvx' vy hsz
  | bool vx' hx lx =>
    simp only [denNodeNeg] at ux
    have vhx : Id.Valid s (hx.negate xi) := (Id.valid_negate s _ _).mpr (cvx hx (by simp [INode.children]))
    have vlx : Id.Valid s (lx.negate xi) := (Id.valid_negate s _ _).mpr (cvx lx (by simp [INode.children]))
    have sx : (den s (hx.negate xi)).size < (den s xi).size ∧ (den s (lx.negate xi)).size < (den s xi).size := by
      rw [ux]; simp only [Tree.size]; omega
    cases ny with
    | rng vy' ey =>
      have cvy' : ∀ e ∈ ey, Id.Valid s e.2 := fun e he =>
        cvy e.2 (by simp only [INode.children, List.mem_map]; exact ⟨e, he, rfl⟩)
      simp only [denNodeNeg] at uy
      simp only [andNodeI]
      have key : andF (n + 1) (den s xi) (den s yi) =
          createNodeR vy' (mapE (fun c => andF n c (den s xi)) (denE s (negE yi ey))) := by
        rw [ux, uy, andF_bool_rng, Edges.toList_ofList]
      rw [key]
      exact map_case n ih hs yi xi vy' ey uy cvy' vx hsz'
    | bool vy' hy ly =>
      simp only [denNodeNeg] at uy
      have vhy : Id.Valid s (hy.negate yi) := (Id.valid_negate s _ _).mpr (cvy hy (by simp [INode.children]))
      have vly : Id.Valid s (ly.negate yi) := (Id.valid_negate s _ _).mpr (cvy ly (by simp [INode.children]))
      have sy : (den s (hy.negate yi)).size < (den s yi).size ∧ (den s (ly.negate yi)).size < (den s yi).size := by
        rw [uy]; simp only [Tree.size]; omega
      simp only [andNodeI]
      have key : andF (n + 1) (den s xi) (den s yi) =
          if vx' < vy' then createNodeB vx' (andF n (den s (hx.negate xi)) (den s yi)) (andF n (den s (lx.negate xi)) (den s yi))
          else if vy' < vx' then createNodeB vy' (andF n (den s (hy.negate yi)) (den s xi)) (andF n (den s (ly.negate yi)) (den s xi))
          else createNodeB vx' (andF n (den s (hx.negate xi)) (den s (hy.negate yi)))
            (andF n (den s (lx.negate xi)) (den s (ly.negate yi))) := by
        have C3' := C3
        have C5' := C5
        rw [ux, uy] at C3' C5'
        have := andF_bool_bool n _ _ _ _ _ _ C3' C5'
        rw [← ux, ← uy] at this
        exact this
      rw [key]
      by_cases h1 : vx' < vy'
      · rw [if_pos h1, if_pos h1]
        exact two_case n ih hs vx' _ _ _ _ true vlx vy vhx vy (by omega) (by omega)
      · rw [if_neg h1, if_neg h1]
        by_cases h2 : vy' < vx'
        · rw [if_pos h2, if_pos h2]
          exact two_case n ih hs vy' _ _ _ _ true vly vx vhy vx (by omega) (by omega)
        · rw [if_neg h2, if_neg h2]
          exact two_case n ih hs vx' _ _ _ _ false vhx vhy vlx vly (by omega) (by omega)

/-! ### closing a computed step: `createNodeI`, then the memo entry -/

theorem andI_finish {s : IState νr νb α} (hs : s.Inv) {xi yi : Id} (vx : Id.Valid s xi)
    (vy : Id.Valid s yi) (p : IState νr νb α × INode νr νb α) (T : Tree νr νb α)
    (hp : PostN s p T) (hT : T = Tree.and (den s xi) (den s yi)) :
    Post s ({ (createNodeI p.1 p.2).1 with
        cache := ((xi, yi), (createNodeI p.1 p.2).2) :: (createNodeI p.1 p.2).1.cache },
      (createNodeI p.1 p.2).2) T := by
  obtain ⟨pi, ple, pv, pd⟩ := hp
  obtain ⟨qi, qle, qv, qd⟩ := createNodeI_spec pi p.2 pv
  generalize createNodeI p.1 p.2 = q at qi qle qv qd ⊢
  have hle3 : q.1.Le { q.1 with cache := ((xi, yi), q.2) :: q.1.cache } := List.prefix_refl _
  have hsq : s.Le q.1 := ple.trans qle
  have hden : den { q.1 with cache := ((xi, yi), q.2) :: q.1.cache } q.2 = T := by
    rw [den_mono qi.wf hle3 qv, qd, pd]
  refine ⟨⟨⟨qi.wf.acyclic, qi.wf.nf, qi.wf.unique⟩, ?_⟩, hsq.trans hle3, qv.mono hle3, hden⟩
  intro e he
  simp only [List.mem_cons] at he
  rcases he with rfl | he
  · refine ⟨(vx.mono hsq).mono hle3, (vy.mono hsq).mono hle3, qv.mono hle3, ?_⟩
    simp only
    rw [hden, den_mono hs.wf (hsq.trans hle3) vx, den_mono hs.wf (hsq.trans hle3) vy, hT]
  · obtain ⟨h1, h2, h3, h4⟩ := qi.cache e he
    refine ⟨h1.mono hle3, h2.mono hle3, h3.mono hle3, ?_⟩
    rw [den_mono qi.wf hle3 h1, den_mono qi.wf hle3 h2, den_mono qi.wf hle3 h3, h4]

/-! ## (v) the refinement theorem -/

/-- **`andI` on ids is `andF` on denotations**, whatever the arena and the memo table contain -/
theorem andI_spec : ∀ (n : Nat), AndIH (νr := νr) (νb := νb) (α := α) n := by
  intro n
  induction n with
  | zero => intro s x y _ _ _ h; omega
  | succ n ih =>
    intro s x y hs vx vy hsz
    by_cases c1 : x = .tt
    · subst c1
      have e1 : andI (n + 1) s .tt y = (s, y) := by rw [andI, if_pos rfl]
      have e2 : andF (n + 1) (den s .tt) (den s y) = den s y := by unfold andF; simp
      rw [e1, e2]; exact ⟨hs, IState.Le.refl s, vy, rfl⟩
    have C1 : ¬ (den s x = .leaf true) := fun h => c1 (den_inj hs.wf vx (s := s) (b := .tt) trivial (by rw [den_tt]; exact h))
    by_cases c2 : y = .tt
    · subst c2
      have e1 : andI (n + 1) s x .tt = (s, x) := by rw [andI, if_neg c1, if_pos rfl]
      have e2 : andF (n + 1) (den s x) (den s .tt) = den s x := by unfold andF; simp [C1]
      rw [e1, e2]; exact ⟨hs, IState.Le.refl s, vx, rfl⟩
    have C2 : ¬ (den s y = .leaf true) := fun h => c2 (den_inj hs.wf vy (s := s) (b := .tt) trivial (by rw [den_tt]; exact h))
    by_cases c3 : x = y
    · subst c3
      have e1 : andI (n + 1) s x x = (s, x) := by rw [andI, if_neg c1, if_neg c2, if_pos rfl]
      have e2 : andF (n + 1) (den s x) (den s x) = den s x := by unfold andF; simp [C1]
      rw [e1, e2]; exact ⟨hs, IState.Le.refl s, vx, rfl⟩
    have C3 : ¬ (den s x = den s y) := fun h => c3 (den_inj hs.wf vx vy h)
    by_cases c4 : x = .ff ∨ y = .ff
    · have e1 : andI (n + 1) s x y = (s, .ff) := by rw [andI, if_neg c1, if_neg c2, if_neg c3, if_pos c4]
      have C4 : den s x = .leaf false ∨ den s y = .leaf false := by
        rcases c4 with h | h
        · left; rw [h, den_ff]
        · right; rw [h, den_ff]
      have e2 : andF (n + 1) (den s x) (den s y) = .leaf false := by
        unfold andF; simp only [C1, C2, C3, C4, if_false, if_true]
      rw [e1, e2]; exact ⟨hs, IState.Le.refl s, trivial, den_ff s⟩
    have C4 : ¬ (den s x = .leaf false ∨ den s y = .leaf false) := by
      intro h
      rcases h with h | h
      · exact c4 (Or.inl (den_inj hs.wf vx (s := s) (b := .ff) trivial (by rw [den_ff]; exact h)))
      · exact c4 (Or.inr (den_inj hs.wf vy (s := s) (b := .ff) trivial (by rw [den_ff]; exact h)))
    by_cases c5 : x.not = y
    · have e1 : andI (n + 1) s x y = (s, .ff) := by
        rw [andI, if_neg c1, if_neg c2, if_neg c3, if_neg c4, if_pos c5]
      have C5 : (den s x).not = den s y := by rw [← c5, den_not]
      have e2 : andF (n + 1) (den s x) (den s y) = .leaf false := by
        unfold andF; simp only [C1, C2, C3, C4, C5, if_false, if_true]
      rw [e1, e2]; exact ⟨hs, IState.Le.refl s, trivial, den_ff s⟩
    have C5 : ¬ ((den s x).not = den s y) := fun h =>
      c5 (den_inj hs.wf ((Id.valid_not s x).mpr vx) vy (by rw [den_not]; exact h))
    cases hcache : s.cache.find? (fun e => e.1 == (x, y)) with
    | some e =>
      have e1 : andI (n + 1) s x y = (s, e.2) := by
        rw [andI, if_neg c1, if_neg c2, if_neg c3, if_neg c4, if_neg c5, hcache]
      have hmem := List.mem_of_find?_eq_some hcache
      have hkey := List.find?_some hcache
      simp only [beq_iff_eq] at hkey
      obtain ⟨_, _, v3, d⟩ := hs.cache e hmem
      rw [hkey] at d
      simp only at d
      rw [e1]
      exact ⟨hs, IState.Le.refl s, v3, by rw [d, andF_eq_and _ _ _ hsz]⟩
    | none =>
      cases x with
      | tt => exact absurd rfl c1
      | ff => exact absurd (Or.inl rfl) c4
      | ref i cx =>
        cases y with
        | tt => exact absurd rfl c2
        | ff => exact absurd (Or.inr rfl) c4
        | ref j cy =>
          have hi : i < s.nodes.length := vx
          have hj : j < s.nodes.length := vy
          have hnx : s.nodes[i]? = some s.nodes[i] := List.getElem?_eq_getElem hi
          have hny : s.nodes[j]? = some s.nodes[j] := List.getElem?_eq_getElem hj
          rw [andI_unfold n s _ _ s.nodes[i] s.nodes[j] c1 c2 c3 c4 c5 hcache hnx hny]
          apply andI_finish hs vx vy _ _ ?_ (andF_eq_and _ _ _ hsz)
          exact andNodeI_spec n ih hs _ _ vx vy _ _ (den_ref_neg hs.wf cx hnx) (den_ref_neg hs.wf cy hny)
            (fun c hc => ((WF.child_valid hs.wf hnx).2 c hc).1)
            (fun c hc => ((WF.child_valid hs.wf hny).2 c hc).1) hsz C3 C5

end AndI


/-! ## (vi) corollaries: C14 / C15 -/
section Corollaries
variable {νr νb α : Type}
variable [LT α] [DecidableLT α] [DecidableEq α]
variable [LT νr] [DecidableLT νr] [DecidableEq νr] [LT νb] [DecidableLT νb] [DecidableEq νb]

/-- **refinement of `and`**: on any state satisfying the invariant — whatever was interned or
    memoised before — `andI` keeps the invariant, only grows the arena, returns a valid id, and
    that id denotes `Tree.and` of the operands' denotations. -/
theorem andI_refines (n : Nat) (s : IState νr νb α) (x y : Id) (hs : s.Inv)
    (vx : Id.Valid s x) (vy : Id.Valid s y) (hn : (den s x).size + (den s y).size < n) :
    (andI n s x y).1.Inv ∧ s.Le (andI n s x y).1 ∧ Id.Valid (andI n s x y).1 (andI n s x y).2 ∧
      den (andI n s x y).1 (andI n s x y).2 = Tree.and (den s x) (den s y) := by
  obtain ⟨h1, h2, h3, h4⟩ := andI_spec n s x y hs vx vy hn
  exact ⟨h1, h2, h3, by rw [h4, andF_eq_and _ _ _ hn]⟩

/-- operands keep their meaning in the state after the call -/
theorem andI_operands_stable (n : Nat) (s : IState νr νb α) (x y z : Id) (hs : s.Inv)
    (vx : Id.Valid s x) (vy : Id.Valid s y) (vz : Id.Valid s z)
    (hn : (den s x).size + (den s y).size < n) :
    Id.Valid (andI n s x y).1 z ∧ den (andI n s x y).1 z = den s z := by
  obtain ⟨_, h2, _, _⟩ := andI_refines n s x y hs vx vy hn
  exact ⟨vz.mono h2, den_mono hs.wf h2 vz⟩

/-- **history independence (C14/C15)**: two interner states with arbitrary, different histories
    (arena contents, memo tables, fuels) and operand ids that denote the same diagrams give
    results that denote the same diagram. -/
theorem andI_history_independent (n₁ n₂ : Nat) (s₁ s₂ : IState νr νb α) (x₁ y₁ x₂ y₂ : Id)
    (h₁ : s₁.Inv) (h₂ : s₂.Inv)
    (vx₁ : Id.Valid s₁ x₁) (vy₁ : Id.Valid s₁ y₁) (vx₂ : Id.Valid s₂ x₂) (vy₂ : Id.Valid s₂ y₂)
    (hx : den s₁ x₁ = den s₂ x₂) (hy : den s₁ y₁ = den s₂ y₂)
    (hn₁ : (den s₁ x₁).size + (den s₁ y₁).size < n₁) (hn₂ : (den s₂ x₂).size + (den s₂ y₂).size < n₂) :
    den (andI n₁ s₁ x₁ y₁).1 (andI n₁ s₁ x₁ y₁).2 = den (andI n₂ s₂ x₂ y₂).1 (andI n₂ s₂ x₂ y₂).2 := by
  rw [(andI_refines n₁ s₁ x₁ y₁ h₁ vx₁ vy₁ hn₁).2.2.2, (andI_refines n₂ s₂ x₂ y₂ h₂ vx₂ vy₂ hn₂).2.2.2,
    hx, hy]

/-- **the id itself is history independent within one interner**: if `s'` is any later state of
    the same arena (more nodes, any memo table) the same call returns the *same id* as it did in
    `s` — not just an id with the same meaning. -/
theorem andI_same_id (n m : Nat) (s s' : IState νr νb α) (x y : Id) (hs : s.Inv) (hs' : s'.Inv)
    (vx : Id.Valid s x) (vy : Id.Valid s y) (hle : (andI n s x y).1.Le s')
    (hn : (den s x).size + (den s y).size < n) (hm : (den s x).size + (den s y).size < m) :
    (andI m s' x y).2 = (andI n s x y).2 := by
  obtain ⟨i1, l1, v1, d1⟩ := andI_refines n s x y hs vx vy hn
  have hle' : s.Le s' := l1.trans hle
  have ex : den s' x = den s x := den_mono hs.wf hle' vx
  have ey : den s' y = den s y := den_mono hs.wf hle' vy
  obtain ⟨i2, l2, v2, d2⟩ := andI_refines m s' x y hs' (vx.mono hle') (vy.mono hle') (by rw [ex, ey]; exact hm)
  apply den_inj i2.wf v2 ((v1.mono hle).mono l2)
  rw [d2, ex, ey, den_mono i1.wf (hle.trans l2) v1, d1]

/-- a memo hit returns exactly the id that recomputation (on the same arena with the memo table
    emptied) returns -/
theorem andI_cache_irrelevant (n : Nat) (s : IState νr νb α) (x y : Id) (hs : s.Inv)
    (vx : Id.Valid s x) (vy : Id.Valid s y) (hn : (den s x).size + (den s y).size < n) :
    den (andI n s x y).1 (andI n s x y).2 =
      den (andI n { s with cache := [] } x y).1 (andI n { s with cache := [] } x y).2 := by
  have hs0 : IState.Inv { s with cache := [] } :=
    ⟨⟨hs.wf.acyclic, hs.wf.nf, hs.wf.unique⟩, by intro e he; simp at he⟩
  have hle : s.Le { s with cache := [] } := List.prefix_refl _
  have ex : den { s with cache := [] } x = den s x := den_mono hs.wf hle vx
  have ey : den { s with cache := [] } y = den s y := den_mono hs.wf hle vy
  exact andI_history_independent n n s _ x y x y hs hs0 vx vy (vx.mono hle) (vy.mono hle) ex.symm ey.symm hn
    (by rw [ex, ey]; exact hn)

/-- **refinement of `or`** -/
theorem orI_refines (n : Nat) (s : IState νr νb α) (x y : Id) (hs : s.Inv)
    (vx : Id.Valid s x) (vy : Id.Valid s y) (hn : (den s x).size + (den s y).size < n) :
    (orI n s x y).1.Inv ∧ s.Le (orI n s x y).1 ∧ Id.Valid (orI n s x y).1 (orI n s x y).2 ∧
      den (orI n s x y).1 (orI n s x y).2 = Tree.or (den s x) (den s y) := by
  have hn' : (den s x.not).size + (den s y.not).size < n := by
    rw [den_not, den_not, Tree.size_not', Tree.size_not']; exact hn
  obtain ⟨h1, h2, h3, h4⟩ := andI_refines n s x.not y.not hs ((Id.valid_not s x).mpr vx)
    ((Id.valid_not s y).mpr vy) hn'
  unfold orI
  refine ⟨h1, h2, (Id.valid_not _ _).mpr h3, ?_⟩
  show den _ (andI n s x.not y.not).2.not = _
  rw [den_not, h4, den_not, den_not]
  rfl

/-- hash-consing is canonical: in a state satisfying the invariant, valid ids are equal iff
    they denote the same diagram (`NodeId` equality *is* structural equality of the `kind()` view) -/
theorem id_eq_iff_den_eq {s : IState νr νb α} (hs : s.Inv) {a b : Id} (va : Id.Valid s a)
    (vb : Id.Valid s b) : a = b ↔ den s a = den s b :=
  (den_eq_iff hs.wf va vb).symm

end Corollaries

/-! ## (vii) loading a diagram: `internTree` denotes the diagram it was given -/
section Load
variable {νr νb α : Type}
variable [LT α] [DecidableLT α] [DecidableEq α]
variable [LT νr] [DecidableLT νr] [DecidableEq νr] [LT νb] [DecidableLT νb] [DecidableEq νb]

mutual
/-- `create_node` would rebuild every node unchanged (no node with all children equal) -/
def Tree.Reduced : Tree νr νb α → Prop
  | .leaf _ => True
  | .rng v es => es.ReducedAll ∧ createNodeR v es.toList = .rng v es
  | .bool _ h l => h.Reduced ∧ l.Reduced ∧ h ≠ l
def Edges.ReducedAll : Edges νr νb α → Prop
  | .nil => True
  | .cons _ t rest => t.Reduced ∧ rest.ReducedAll
end

mutual
/-- **loading is faithful**: the id `internTree` returns for a reduced diagram denotes it -/
theorem internTree_spec : ∀ (t : Tree νr νb α) (s : IState νr νb α), s.Inv → t.Reduced →
    Post s (internTree s t) t
  | .leaf true, s, hs, _ => by
    rw [internTree]; exact ⟨hs, IState.Le.refl s, trivial, den_tt s⟩
  | .leaf false, s, hs, _ => by
    rw [internTree]; exact ⟨hs, IState.Le.refl s, trivial, den_ff s⟩
  | .rng v es, s, hs, hr => by
    rw [internTree]
    have h1 := internEdges_spec es s hs hr.1
    rcases he : internEdges s es with ⟨s1, ids⟩
    rw [he] at h1
    obtain ⟨i1, l1, v1, d1⟩ := h1
    simp only at i1 l1 v1 d1 ⊢
    obtain ⟨qi, qle, qv, qd⟩ := createNodeI_spec i1 (.rng v ids) (by
      intro c hc
      simp only [INode.children, List.mem_map] at hc
      obtain ⟨e, he', rfl⟩ := hc
      exact v1 e he')
    refine ⟨qi, l1.trans qle, qv, ?_⟩
    rw [qd]
    simp only [createNodeT]
    rw [d1]
    exact hr.2
  | .bool v h l, s, hs, hr => by
    rw [internTree]
    have h1 := internTree_spec h s hs hr.1
    rcases he1 : internTree s h with ⟨s1, hi⟩
    rw [he1] at h1
    obtain ⟨i1, l1, v1, d1⟩ := h1
    simp only at i1 l1 v1 d1 ⊢
    have h2 := internTree_spec l s1 i1 hr.2.1
    rcases he2 : internTree s1 l with ⟨s2, li⟩
    rw [he2] at h2
    obtain ⟨i2, l2, v2, d2⟩ := h2
    simp only at i2 l2 v2 d2 ⊢
    obtain ⟨qi, qle, qv, qd⟩ := createNodeI_spec i2 (.bool v hi li) (by
      intro c hc
      simp only [INode.children, List.mem_cons, List.not_mem_nil, or_false] at hc
      rcases hc with rfl | rfl
      · exact v1.mono l2
      · exact v2)
    refine ⟨qi, (l1.trans l2).trans qle, qv, ?_⟩
    rw [qd]
    simp only [createNodeT]
    rw [den_mono i1.wf l2 v1, d1, d2, createNodeB, if_neg hr.2.2]
theorem internEdges_spec : ∀ (es : Edges νr νb α) (s : IState νr νb α), s.Inv → es.ReducedAll →
    PostE s (internEdges s es) es.toList
  | .nil, s, hs, _ => by
    rw [internEdges]; exact PostE.nil hs
  | .cons iv t rest, s, hs, hr => by
    rw [internEdges]
    have h1 := internTree_spec t s hs hr.1
    rcases he1 : internTree s t with ⟨s1, c⟩
    rw [he1] at h1
    obtain ⟨i1, l1, v1, d1⟩ := h1
    simp only at i1 l1 v1 d1 ⊢
    have h2 := internEdges_spec rest s1 i1 hr.2
    rcases he2 : internEdges s1 rest with ⟨s2, r⟩
    rw [he2] at h2
    obtain ⟨i2, l2, v2, d2⟩ := h2
    simp only at i2 l2 v2 d2 ⊢
    refine ⟨i2, l1.trans l2, ?_, ?_⟩
    · intro e he
      simp only [List.mem_cons] at he
      rcases he with rfl | he
      · exact v1.mono l2
      · exact v2 e he
    · simp only [denE, List.map_cons, Edges.toList] at d2 ⊢
      rw [d2, den_mono i1.wf l2 v1, d1]
end

mutual
/-- C20-well-formed diagrams are reduced -/
theorem Tree.reduced_of_wf : ∀ (t : Tree νr νb α), t.wf = true → t.Reduced
  | .leaf _, _ => trivial
  | .rng v es, h => by
    simp only [Tree.wf, Bool.and_eq_true, decide_eq_true_eq] at h
    refine ⟨Edges.reducedAll_of_wfAll es (.r v) h.2, ?_⟩
    obtain ⟨⟨hlen, hpart⟩, _⟩ := h
    have hrt := Edges.ofList_toList es
    cases hl : es.toList with
    | nil => rw [hl] at hlen; simp at hlen
    | cons a l1 =>
      cases l1 with
      | nil => rw [hl] at hlen; simp at hlen
      | cons b l2 =>
        obtain ⟨iv, t⟩ := a
        obtain ⟨iv2, t2⟩ := b
        rw [hl] at hpart hrt
        simp only [partitionFrom, Bool.and_eq_true, decide_eq_true_eq] at hpart
        have hne : t ≠ t2 := hpart.1.2
        simp only [createNodeR]
        rw [if_neg, hrt]
        intro h'
        simp only [List.all_cons, Bool.and_eq_true, beq_iff_eq] at h'
        exact hne h'.1.symm
  | .bool v a b, h => by
    simp only [Tree.wf, Bool.and_eq_true, decide_eq_true_eq] at h
    exact ⟨Tree.reduced_of_wf a h.1.1.1.2, Tree.reduced_of_wf b h.1.1.2, h.1.1.1.1⟩
theorem Edges.reducedAll_of_wfAll : ∀ (es : Edges νr νb α) (k : Rank νr νb), es.wfAll k = true →
    es.ReducedAll
  | .nil, _, _ => trivial
  | .cons _ t rest, k, h => by
    simp only [Edges.wfAll, Bool.and_eq_true] at h
    exact ⟨Tree.reduced_of_wf t h.1.1, Edges.reducedAll_of_wfAll rest k h.2⟩
end

/-- every C20-well-formed diagram has an id, in any interner state, and that id denotes it -/
theorem internTree_wf (t : Tree νr νb α) (s : IState νr νb α) (hs : s.Inv) (ht : t.wf = true) :
    (internTree s t).1.Inv ∧ s.Le (internTree s t).1 ∧ Id.Valid (internTree s t).1 (internTree s t).2 ∧
      den (internTree s t).1 (internTree s t).2 = t :=
  internTree_spec t s hs (Tree.reduced_of_wf t ht)

/-- **C14, end to end**: load two well-formed diagrams into *any* interner state, conjoin the
    ids: the result denotes `Tree.and` of the diagrams -/
theorem andI_internTree (n : Nat) (s : IState νr νb α) (hs : s.Inv) (t u : Tree νr νb α)
    (ht : t.wf = true) (hu : u.wf = true) (hn : t.size + u.size < n) :
    let s1 := (internTree s t).1
    let x := (internTree s t).2
    let s2 := (internTree s1 u).1
    let y := (internTree s1 u).2
    den (andI n s2 x y).1 (andI n s2 x y).2 = Tree.and t u := by
  intro s1 x s2 y
  obtain ⟨i1, l1, v1, d1⟩ := internTree_wf t s hs ht
  obtain ⟨i2, l2, v2, d2⟩ := internTree_wf u s1 i1 hu
  have dx : den s2 x = t := by rw [den_mono i1.wf l2 v1]; exact d1
  have dy : den s2 y = u := d2
  have := andI_refines n s2 x y i2 (v1.mono l2) v2 (by rw [dx, dy]; exact hn)
  rw [this.2.2.2, dx, dy]

end Load
end Pep508

section AxiomCheck
open Pep508
#print axioms andF_fuel_irrelevant
#print axioms IState.Inv_empty
#print axioms den_mono
#print axioms den_inj
#print axioms createNodeI_spec
#print axioms andI_spec
#print axioms andI_refines
#print axioms andI_history_independent
#print axioms andI_same_id
#print axioms andI_cache_irrelevant
#print axioms orI_refines
#print axioms internTree_spec
#print axioms andI_internTree
end AxiomCheck
