/-
`restrict` (used by `simplify_extras`) and `evaluate_extras`: evaluation-level theorems.
-/
import Pep508.Proofs.WfOK
set_option linter.unusedSectionVars false
set_option linter.unusedSimpArgs false
namespace Pep508
variable {νr νb α : Type}
variable [LT α] [LE α] [Std.IsLinearOrder α] [Std.LawfulOrderLT α] [DecidableLT α] [DecidableEq α]
variable [LT νr] [LE νr] [Std.IsLinearOrder νr] [Std.LawfulOrderLT νr] [DecidableLT νr] [DecidableEq νr]
variable [LT νb] [LE νb] [Std.IsLinearOrder νb] [Std.LawfulOrderLT νb] [DecidableLT νb] [DecidableEq νb]

/-! ### generic helpers -/

/-- mapping the children and changing the environment at the same time -/
theorem evalL_map_env (ρ ρ' : Env νr νb α) (x : α) (es : EdgeL νr νb α)
    (f : Tree νr νb α → Tree νr νb α) (hf : ∀ e ∈ es, (f e.2).eval ρ = e.2.eval ρ') :
    evalL ρ x (es.map fun e => (e.1, f e.2)) = evalL ρ' x es := by
  induction es with
  | nil => rfl
  | cons e rest ih =>
    simp only [List.map_cons, evalL]
    rw [ih (fun e' he' => hf e' (by simp [he'])), hf e (by simp)]

/-- coalescing only returns children that were already there -/
theorem coalesceGo_child_u (cur : Ivl α × Tree νr νb α) (es : EdgeL νr νb α) :
    ∀ e ∈ coalesceGo cur es, e.2 = cur.2 ∨ ∃ e' ∈ es, e.2 = e'.2 := by
  induction es generalizing cur with
  | nil => simp [coalesceGo]
  | cons e rest ih =>
    unfold coalesceGo
    split
    · intro e' he'
      rcases ih _ e' he' with h | ⟨e'', h1, h2⟩
      · exact Or.inl h
      · exact Or.inr ⟨e'', by simp [h1], h2⟩
    · intro e' he'
      simp only [List.mem_cons] at he'
      rcases he' with h | h
      · subst h; exact Or.inl rfl
      · rcases ih _ e' h with h | ⟨e'', h1, h2⟩
        · exact Or.inr ⟨e, by simp, h⟩
        · exact Or.inr ⟨e'', by simp [h1], h2⟩

theorem coalesce_child_u (es : EdgeL νr νb α) : ∀ e ∈ coalesce es, ∃ e' ∈ es, e.2 = e'.2 := by
  cases es with
  | nil => simp [coalesce]
  | cons e rest =>
    intro e' he'
    rcases coalesceGo_child_u e rest e' he' with h | ⟨e'', h1, h2⟩
    · exact ⟨e, by simp, h⟩
    · exact ⟨e'', by simp [h1], h2⟩

/-- every child survives coalescing -/
theorem coalesceGo_child_rev (cur : Ivl α × Tree νr νb α) (es : EdgeL νr νb α) :
    (∃ e ∈ coalesceGo cur es, e.2 = cur.2) ∧ ∀ e' ∈ es, ∃ e ∈ coalesceGo cur es, e.2 = e'.2 := by
  induction es generalizing cur with
  | nil => simp [coalesceGo]
  | cons e rest ih =>
    unfold coalesceGo
    split
    · rename_i h
      obtain ⟨i1, i2⟩ := ih (cur.1.conjoin e.1, cur.2)
      refine ⟨i1, ?_⟩
      intro e' he'
      simp only [List.mem_cons] at he'
      rcases he' with h' | h'
      · subst h'; obtain ⟨a, ha, hb⟩ := i1; exact ⟨a, ha, by rw [hb]; exact h.1⟩
      · exact i2 e' h'
    · obtain ⟨⟨a, ha, hb⟩, i2⟩ := ih e
      refine ⟨⟨cur, by simp, rfl⟩, ?_⟩
      intro e' he'
      simp only [List.mem_cons] at he'
      rcases he' with h' | h'
      · subst h'; exact ⟨a, by simp [ha], hb⟩
      · obtain ⟨b, hb1, hb2⟩ := i2 e' h'; exact ⟨b, by simp [hb1], hb2⟩

theorem coalesce_child_rev (es : EdgeL νr νb α) : ∀ e' ∈ es, ∃ e ∈ coalesce es, e.2 = e'.2 := by
  cases es with
  | nil => simp
  | cons e rest =>
    intro e' he'
    obtain ⟨i1, i2⟩ := coalesceGo_child_rev e rest
    simp only [List.mem_cons] at he'
    rcases he' with h | h
    · subst h; exact i1
    · exact i2 e' h

/-- `create_node` returns either one of the children or the node over exactly these edges -/
theorem createNodeR_cases (v : νr) (es : EdgeL νr νb α) :
    createNodeR v es = .leaf false ∧ es = [] ∨ (∃ e ∈ es, createNodeR v es = e.2) ∨
      createNodeR v es = .rng v (Edges.ofList es) := by
  unfold createNodeR
  cases es with
  | nil => simp
  | cons e rest =>
    obtain ⟨iv, c⟩ := e
    simp only
    split
    · exact Or.inr (Or.inl ⟨(iv, c), by simp, rfl⟩)
    · exact Or.inr (Or.inr rfl)

/-! ### A. `restrict` -/

/-- the environment in which the restricted variables have their fixed values -/
def Env.override (ρ : Env νr νb α) (f : νb → Option Bool) : Env νr νb α :=
  ⟨ρ.rv, fun v => (f v).getD (ρ.bv v)⟩

theorem Edges.restrictE_eq_u (f : νb → Option Bool) : ∀ (es : Edges νr νb α),
    es.restrictE f = es.toList.map (fun e => (e.1, e.2.restrict f))
  | .nil => rfl
  | .cons iv t rest => by simp [Edges.restrictE, Edges.toList, Edges.restrictE_eq_u f rest]

theorem Tree.restrict_rng (f : νb → Option Bool) (v : νr) (es : Edges νr νb α) :
    (Tree.rng v es).restrict f = createNodeR v (mapE (fun c => c.restrict f) es.toList) := by
  simp [Tree.restrict, Edges.restrictE_eq_u, mapE]

mutual
theorem Tree.restrict_spec (f : νb → Option Bool) : ∀ (t : Tree νr νb α), t.OK →
    (∀ ρ : Env νr νb α, (t.restrict f).eval ρ = t.eval (ρ.override f)) ∧ (t.restrict f).OK
  | .leaf b, _ => by simp [Tree.restrict, Tree.eval, Tree.OK]
  | .rng v es, h => by
    obtain ⟨hok, hc⟩ := Tree.OK_rng h
    have ih := Edges.restrict_spec f es h.1
    rw [Tree.restrict_rng]
    constructor
    · intro ρ
      have hcov := covers_mapE es.toList (fun c => c.restrict f) (OKL_valid hok) hc
      rw [eval_createNodeR ρ v _ hcov, Tree.eval_rng]
      unfold mapE
      rw [evalL_coalesce]
      · exact evalL_map_env ρ (ρ.override f) _ es.toList _ (fun e he => (ih e he).1 ρ)
      · intro e he
        simp only [List.mem_map] at he
        obtain ⟨e', he', rfl⟩ := he
        exact OKL_valid hok e' he'
    · exact OK_node_map v _ _ hok hc (fun e he => (ih e he).2)
  | .bool v hi lo, h => by
    have i1 := Tree.restrict_spec f hi h.1
    have i2 := Tree.restrict_spec f lo h.2
    simp only [Tree.restrict]
    cases hf : f v with
    | none =>
      simp only []
      refine ⟨?_, OK_createNodeB _ _ _ i1.2 i2.2⟩
      intro ρ
      rw [eval_createNodeB, i1.1, i2.1]
      simp [Tree.eval, Env.override, hf]
    | some b =>
      cases b
      · simp only []
        refine ⟨?_, i2.2⟩
        intro ρ
        rw [i2.1]; simp [Tree.eval, Env.override, hf]
      · simp only []
        refine ⟨?_, i1.2⟩
        intro ρ
        rw [i1.1]; simp [Tree.eval, Env.override, hf]
theorem Edges.restrict_spec (f : νb → Option Bool) : ∀ (es : Edges νr νb α),
    es.OKAll → ∀ e ∈ es.toList,
      (∀ ρ : Env νr νb α, (e.2.restrict f).eval ρ = e.2.eval (ρ.override f)) ∧ (e.2.restrict f).OK
  | .nil, _ => by simp [Edges.toList]
  | .cons iv t rest, h => by
    intro e he
    simp only [Edges.toList, List.mem_cons] at he
    rcases he with he | he
    · subst he; exact Tree.restrict_spec f t h.2.1
    · exact Edges.restrict_spec f rest h.2.2 e he
end

/-- **`restrict` fixes the given boolean variables**: the result evaluates, in any environment,
    like the input in the environment overridden by the restriction -/
theorem eval_restrict (f : νb → Option Bool) (t : Tree νr νb α) (ht : t.OK) (ρ : Env νr νb α) :
    (t.restrict f).eval ρ = t.eval (ρ.override f) := (Tree.restrict_spec f t ht).1 ρ

theorem OK_restrict (f : νb → Option Bool) (t : Tree νr νb α) (ht : t.OK) : (t.restrict f).OK :=
  (Tree.restrict_spec f t ht).2

/-! "the result no longer depends on the restricted variables", syntactically -/

mutual
/-- does a decision node on the boolean variable `v` occur in the diagram -/
def Tree.mentionsB (v : νb) : Tree νr νb α → Bool
  | .leaf _ => false
  | .rng _ es => es.mentionsB v
  | .bool w h l => decide (w = v) || h.mentionsB v || l.mentionsB v
def Edges.mentionsB (v : νb) : Edges νr νb α → Bool
  | .nil => false
  | .cons _ t rest => t.mentionsB v || rest.mentionsB v
end

theorem Edges.mentionsB_false_iff (v : νb) : ∀ (es : Edges νr νb α),
    es.mentionsB v = false ↔ ∀ e ∈ es.toList, e.2.mentionsB v = false
  | .nil => by simp [Edges.mentionsB, Edges.toList]
  | .cons iv t rest => by
    simp [Edges.mentionsB, Edges.toList, Edges.mentionsB_false_iff v rest]

theorem mentionsB_createNodeR (w : νb) (v : νr) (es : EdgeL νr νb α)
    (h : ∀ e ∈ es, e.2.mentionsB w = false) : (createNodeR v es).mentionsB w = false := by
  rcases createNodeR_cases v es with ⟨h1, _⟩ | ⟨e, he, h1⟩ | h1
  · rw [h1]; rfl
  · rw [h1]; exact h e he
  · rw [h1]; simp only [Tree.mentionsB, Edges.mentionsB_false_iff, Edges.toList_ofList]; exact h

theorem mentionsB_createNodeB (w v : νb) (a b : Tree νr νb α) (hv : v ≠ w)
    (ha : a.mentionsB w = false) (hb : b.mentionsB w = false) :
    (createNodeB v a b).mentionsB w = false := by
  unfold createNodeB
  split
  · exact ha
  · simp [Tree.mentionsB, ha, hb, hv]

mutual
theorem Tree.restrict_mentionsB (f : νb → Option Bool) (w : νb) (hw : (f w).isSome = true) :
    ∀ (t : Tree νr νb α), (t.restrict f).mentionsB w = false
  | .leaf b => by simp [Tree.restrict, Tree.mentionsB]
  | .rng v es => by
    simp only [Tree.restrict]
    apply mentionsB_createNodeR
    intro e he
    obtain ⟨e', he', h⟩ := coalesce_child_u _ e he
    rw [h]
    exact Edges.restrict_mentionsB f w hw es e' he'
  | .bool v hi lo => by
    have i1 := Tree.restrict_mentionsB f w hw hi
    have i2 := Tree.restrict_mentionsB f w hw lo
    simp only [Tree.restrict]
    cases hf : f v with
    | none =>
      simp only []
      apply mentionsB_createNodeB _ _ _ _ _ i1 i2
      intro h; subst h; simp [hf] at hw
    | some b => cases b <;> simp only [] <;> assumption
theorem Edges.restrict_mentionsB (f : νb → Option Bool) (w : νb) (hw : (f w).isSome = true) :
    ∀ (es : Edges νr νb α), ∀ e ∈ es.restrictE f, e.2.mentionsB w = false
  | .nil => by simp [Edges.restrictE]
  | .cons iv t rest => by
    intro e he
    simp only [Edges.restrictE, List.mem_cons] at he
    rcases he with he | he
    · subst he; exact Tree.restrict_mentionsB f w hw t
    · exact Edges.restrict_mentionsB f w hw rest e he
end

/-- **the restricted diagram contains no node on a restricted variable** (no hypothesis on `t`) -/
theorem restrict_mentionsB (f : νb → Option Bool) (t : Tree νr νb α) (v : νb)
    (hv : (f v).isSome = true) : (t.restrict f).mentionsB v = false :=
  Tree.restrict_mentionsB f v hv t

mutual
/-- a diagram that does not mention `w` evaluates independently of `w` -/
theorem Tree.eval_of_not_mentionsB (w : νb) (ρ ρ' : Env νr νb α) (hr : ρ.rv = ρ'.rv)
    (hb : ∀ u, u ≠ w → ρ.bv u = ρ'.bv u) : ∀ (t : Tree νr νb α), t.mentionsB w = false →
    t.eval ρ = t.eval ρ'
  | .leaf _, _ => rfl
  | .rng v es, h => by
    simp only [Tree.eval, hr]
    exact Edges.eval_of_not_mentionsB w ρ ρ' hr hb es h _
  | .bool v hi lo, h => by
    simp only [Tree.mentionsB, Bool.or_eq_false_iff, decide_eq_false_iff_not] at h
    simp only [Tree.eval, Tree.eval_of_not_mentionsB w ρ ρ' hr hb hi h.1.2,
      Tree.eval_of_not_mentionsB w ρ ρ' hr hb lo h.2, hb v h.1.1]
theorem Edges.eval_of_not_mentionsB (w : νb) (ρ ρ' : Env νr νb α) (hr : ρ.rv = ρ'.rv)
    (hb : ∀ u, u ≠ w → ρ.bv u = ρ'.bv u) : ∀ (es : Edges νr νb α), es.mentionsB w = false →
    ∀ x, es.eval ρ x = es.eval ρ' x
  | .nil, _, _ => rfl
  | .cons iv t rest, h, x => by
    simp only [Edges.mentionsB, Bool.or_eq_false_iff] at h
    simp only [Edges.eval, Tree.eval_of_not_mentionsB w ρ ρ' hr hb t h.1,
      Edges.eval_of_not_mentionsB w ρ ρ' hr hb rest h.2 x]
end

/-! ### B. `evaluate_extras` over-approximates evaluation -/

mutual
theorem Tree.evalExtras_sound (ex : νb → Option Bool) (ρ : Env νr νb α)
    (hρ : ∀ v b, ex v = some b → ρ.bv v = b) : ∀ (t : Tree νr νb α),
    t.eval ρ = true → t.evalExtras ex = true
  | .leaf b, h => by simpa [Tree.eval, Tree.evalExtras] using h
  | .rng v es, h => by
    simp only [Tree.eval] at h
    simp only [Tree.evalExtras]
    exact Edges.anyExtras_sound ex ρ hρ es _ h
  | .bool v hi lo, h => by
    simp only [Tree.eval] at h
    simp only [Tree.evalExtras]
    cases hv : ex v with
    | none =>
      simp only [Bool.or_eq_true]
      split at h
      · exact Or.inl (Tree.evalExtras_sound ex ρ hρ hi h)
      · exact Or.inr (Tree.evalExtras_sound ex ρ hρ lo h)
    | some b =>
      have := hρ v b hv
      cases b
      · simp only [this, Bool.false_eq_true, if_false] at h
        exact Tree.evalExtras_sound ex ρ hρ lo h
      · simp only [this, if_true] at h
        exact Tree.evalExtras_sound ex ρ hρ hi h
theorem Edges.anyExtras_sound (ex : νb → Option Bool) (ρ : Env νr νb α)
    (hρ : ∀ v b, ex v = some b → ρ.bv v = b) : ∀ (es : Edges νr νb α) (x : α),
    es.eval ρ x = true → es.anyExtras ex = true
  | .nil, _, h => by simp [Edges.eval] at h
  | .cons iv t rest, x, h => by
    simp only [Edges.eval] at h
    simp only [Edges.anyExtras, Bool.or_eq_true]
    split at h
    · exact Or.inl (Tree.evalExtras_sound ex ρ hρ t h)
    · exact Or.inr (Edges.anyExtras_sound ex ρ hρ rest x h)
end

/-- **`evaluate_extras` never answers `false` for a marker that holds in an environment
    compatible with the known extras** (no well-formedness needed) -/
theorem evalExtras_sound (ex : νb → Option Bool) (t : Tree νr νb α) (ρ : Env νr νb α)
    (hρ : ∀ v b, ex v = some b → ρ.bv v = b) : t.eval ρ = true → t.evalExtras ex = true :=
  Tree.evalExtras_sound ex ρ hρ t

end Pep508
