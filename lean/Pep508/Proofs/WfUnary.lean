/-
The structural C20 predicate `Tree.wf` is preserved by the unary operations of the algebra:
`restrict`, `rangeNode` (`Edges::from_range`), `simplifyPy`, `complexifyPy`.
-/
import Pep508.Proofs.WfAnd
set_option linter.unusedSectionVars false
set_option linter.unusedSimpArgs false
namespace Pep508
variable {νr νb α : Type}
variable [LT α] [LE α] [Std.IsLinearOrder α] [Std.LawfulOrderLT α] [DecidableLT α] [DecidableEq α]
variable [LT νr] [LE νr] [Std.IsLinearOrder νr] [Std.LawfulOrderLT νr] [DecidableLT νr] [DecidableEq νr]
variable [LT νb] [LE νb] [Std.IsLinearOrder νb] [Std.LawfulOrderLT νb] [DecidableLT νb] [DecidableEq νb]

/-! ### `restrict` -/

theorem Edges.restrictE_eq (f : νb → Option Bool) : ∀ (es : Edges νr νb α),
    es.restrictE f = es.toList.map (fun e => (e.1, e.2.restrict f))
  | .nil => by simp [Edges.restrictE, Edges.toList]
  | .cons iv t rest => by
    simp [Edges.restrictE, Edges.toList, Edges.restrictE_eq f rest]

theorem Tree.size_bool_child (v : νb) (h l : Tree νr νb α) :
    h.size < (Tree.bool v h l).size ∧ l.size < (Tree.bool v h l).size := by
  simp [Tree.size]; omega

/-- fuel form: `restrict` keeps wf and every root bound -/
theorem wf_restrictF (f : νb → Option Bool) : ∀ (n : Nat) (t : Tree νr νb α), t.size < n →
    t.wf = true →
    (t.restrict f).wf = true ∧
      ∀ k : Rank νr νb, t.rootGt k = true → (t.restrict f).rootGt k = true := by
  intro n
  induction n with
  | zero => intro t h; omega
  | succ n ih =>
    intro t hsz hw
    cases t with
    | leaf b => simp [Tree.restrict, Tree.wf, Tree.rootGt]
    | rng v es =>
      obtain ⟨_, hp, _, hc⟩ := (Tree.wf_rng_iff v es).mp hw
      simp only [Tree.restrict, Edges.restrictE_eq]
      have hch : ∀ e ∈ es.toList.map (fun e => (e.1, e.2.restrict f)),
          e.2.wf = true ∧ e.2.rootGt (.r v) = true := by
        intro e he
        simp only [List.mem_map] at he
        obtain ⟨e', he', rfl⟩ := he
        have := ih e'.2 (by have := Tree.size_rng_child v es e' he'; omega) (hc e' he').1
        exact ⟨this.1, this.2 _ (hc e' he').2⟩
      refine ⟨wf_node_coalesce v _ (Part_map _ hp) hch, fun k hk => ?_⟩
      exact rootGt_node_coalesce k v _ hk
        (fun e he => Tree.rootGt_of_lt _ hk (hch e he).2)
    | bool v h l =>
      obtain ⟨sh, sl⟩ := Tree.size_bool_child v h l
      obtain ⟨_, wh, wl, gh, gl⟩ := (Tree.wf_bool_iff v h l).mp hw
      have ih1 := ih h (by omega) wh
      have ih2 := ih l (by omega) wl
      have g1 := ih1.2 _ gh
      have g2 := ih2.2 _ gl
      simp only [Tree.restrict]
      cases hf : f v with
      | none =>
        simp only []
        exact ⟨wf_createNodeB _ _ _ ih1.1 ih2.1 g1 g2,
          fun k hk => rootGt_createNodeB k _ _ _ hk (Tree.rootGt_of_lt _ hk g1)⟩
      | some b =>
        cases b with
        | true => exact ⟨ih1.1, fun k hk => Tree.rootGt_of_lt _ hk g1⟩
        | false => exact ⟨ih2.1, fun k hk => Tree.rootGt_of_lt _ hk g2⟩

/-- **`restrict` preserves well-formedness** -/
theorem wf_restrict (f : νb → Option Bool) (t : Tree νr νb α) (h : t.wf = true) :
    (t.restrict f).wf = true :=
  (wf_restrictF f _ t (Nat.lt_succ_self _) h).1

theorem rootGt_restrict (f : νb → Option Bool) (t : Tree νr νb α) (h : t.wf = true)
    (k : Rank νr νb) (hk : t.rootGt k = true) : (t.restrict f).rootGt k = true :=
  (wf_restrictF f _ t (Nat.lt_succ_self _) h).2 k hk

/-! ### `fromRange` / `rangeNode` -/

/-- normalised range set: valid segments, consecutive ones separated by a gap -/
def Ranges.Norm' : Ranges α → Prop
  | [] => True
  | [s] => s.valid = true
  | s :: t :: rest => s.valid = true ∧ Bnd.gapBefore s.hi t.lo = true ∧ Ranges.Norm' (t :: rest)

theorem Ranges.Norm_tail {s : Ivl α} {r : Ranges α} (h : Ranges.Norm' (s :: r)) :
    s.valid = true ∧ Ranges.Norm' r := by
  cases r with
  | nil => exact ⟨h, trivial⟩
  | cons t rest => exact ⟨h.1, h.2.2⟩

/-- the start bound `cur` is compatible with the first segment of `r` -/
def StartOk (cur : Bnd α) : Ranges α → Prop
  | [] => True
  | s :: _ => cur = .unb ∨ ∃ ph : Bnd α, ph.flipHi = some cur ∧ Bnd.gapBefore ph s.lo = true

theorem fromRangeGo_none' (r : Ranges α) :
    (fromRangeGo none r : EdgeL νr νb α) = [] := by
  cases r <;> rfl

theorem fromRangeGo_leaf : ∀ (r : Ranges α) (c : Option (Bnd α)),
    ∀ e ∈ (fromRangeGo c r : EdgeL νr νb α), ∃ b, e.2 = .leaf b := by
  intro r
  induction r with
  | nil =>
    intro c e he
    cases c with
    | none => simp [fromRangeGo] at he
    | some c => simp [fromRangeGo] at he; exact ⟨false, by rw [he]⟩
  | cons s rest ih =>
    intro c e he
    cases c with
    | none => simp [fromRangeGo] at he
    | some c =>
      simp only [fromRangeGo] at he
      cases hf : s.lo.flipLo with
      | none =>
        simp only [hf, List.mem_cons] at he
        rcases he with rfl | he
        · exact ⟨true, rfl⟩
        · exact ih _ e he
      | some h =>
        simp only [hf, List.mem_cons] at he
        rcases he with rfl | rfl | he
        · exact ⟨false, rfl⟩
        · exact ⟨true, rfl⟩
        · exact ih _ e he

theorem Bnd.gap_facts (ph cur slo : Bnd α) (h1 : ph.flipHi = some cur)
    (h2 : Bnd.gapBefore ph slo = true) :
    ∃ h, slo.flipLo = some h ∧ (Ivl.mk cur h).valid = true ∧ h.flipHi = some slo := by
  cases ph <;> cases slo <;> simp only [Bnd.flipHi, Bnd.gapBefore, Bnd.flipLo] at * <;>
    (try cases h2) <;> (cases h1; simp [Ivl.valid]) <;> grind

theorem Bnd.flipLo_facts (slo h : Bnd α) (h1 : slo.flipLo = some h) : h.flipHi = some slo := by
  cases slo <;> simp only [Bnd.flipLo, Bnd.flipHi] at * <;> cases h1 <;> rfl

theorem Bnd.flipLo_none (slo : Bnd α) (h1 : slo.flipLo = none) : slo = .unb := by
  cases slo <;> simp [Bnd.flipLo] at *

theorem Bnd.flipHi_ne_unb (a c : Bnd α) (h : a.flipHi = some c) : c ≠ .unb := by
  cases a <;> simp [Bnd.flipHi] at h <;> subst h <;> simp

theorem Part_fromRangeGo : ∀ (r : Ranges α) (cur : Bnd α), Ranges.Norm' r → StartOk cur r →
    PartL cur (fromRangeGo (some cur) r : EdgeL νr νb α) ∧
      AdjNe (fromRangeGo (some cur) r : EdgeL νr νb α) ∧
      (cur ≠ .unb → ∃ iv tl, (fromRangeGo (some cur) r : EdgeL νr νb α) = (iv, .leaf false) :: tl) := by
  intro r
  induction r with
  | nil =>
    intro cur _ _
    simp only [fromRangeGo]
    refine ⟨⟨rfl, ?_, by simp [Part, Bnd.flipHi]⟩, trivial, fun _ => ⟨_, _, rfl⟩⟩
    cases cur <;> simp [Ivl.valid]
  | cons s rest ih =>
    intro cur hn hs
    obtain ⟨hv, hn'⟩ := Ranges.Norm_tail hn
    -- the part after `s`
    have tail : Part s.hi.flipHi .unb (fromRangeGo s.hi.flipHi rest : EdgeL νr νb α) ∧
        AdjNe ((s, Tree.leaf true) :: (fromRangeGo s.hi.flipHi rest : EdgeL νr νb α)) := by
      cases hf : s.hi.flipHi with
      | none => rw [fromRangeGo_none']; simp [Part, Bnd.flipHi, AdjNe]
      | some c =>
        have hso : StartOk c rest := by
          cases rest with
          | nil => trivial
          | cons t rest' => exact Or.inr ⟨s.hi, hf, hn.2.1⟩
        obtain ⟨p1, p2, p3⟩ := ih c hn' hso
        obtain ⟨iv, tl, e⟩ := p3 (Bnd.flipHi_ne_unb _ _ hf)
        refine ⟨p1, ?_⟩
        rw [e] at p2 ⊢
        exact ⟨by simp, p2⟩
    simp only [fromRangeGo]
    cases hf : s.lo.flipLo with
    | none =>
      have hlo := Bnd.flipLo_none _ hf
      have hcur : cur = .unb := by
        rcases hs with h | ⟨ph, h1, h2⟩
        · exact h
        · rw [hlo] at h2; cases ph <;> simp [Bnd.gapBefore] at h2
      simp only []
      exact ⟨⟨by rw [hcur, hlo], hv, tail.1⟩, tail.2, fun h => absurd hcur h⟩
    | some h =>
      simp only []
      have hfl := Bnd.flipLo_facts _ _ hf
      have hval : (Ivl.mk cur h).valid = true := by
        rcases hs with rfl | ⟨ph, h1, h2⟩
        · simp [Ivl.valid]
        · obtain ⟨h', e1, e2, _⟩ := Bnd.gap_facts ph cur s.lo h1 h2
          rw [hf] at e1; cases e1; exact e2
      refine ⟨⟨rfl, hval, ?_⟩, ⟨by simp, tail.2⟩, fun _ => ⟨_, _, rfl⟩⟩
      simp only [hfl]
      exact ⟨rfl, hv, tail.1⟩

theorem PartL_fromRange (r : Ranges α) (h : Ranges.Norm' r) :
    PartL .unb (fromRange r : EdgeL νr νb α) ∧ AdjNe (fromRange r : EdgeL νr νb α) := by
  have hs : StartOk (.unb : Bnd α) r := by cases r <;> simp [StartOk]
  obtain ⟨p1, p2, _⟩ := Part_fromRangeGo (νr := νr) (νb := νb) r .unb h hs
  exact ⟨p1, p2⟩

/-- **`rangeNode` of a normalised range set is well-formed** -/
theorem wf_rangeNode' (v : νr) (r : Ranges α) (h : Ranges.Norm' r) :
    (rangeNode v r : Tree νr νb α).wf = true := by
  obtain ⟨p1, p2⟩ := PartL_fromRange (νr := νr) (νb := νb) r h
  apply wf_createNodeR v _ p1 p2
  intro e he
  obtain ⟨b, hb⟩ := fromRangeGo_leaf r _ e he
  rw [hb]; exact ⟨rfl, rfl⟩

theorem rootGt_rangeNode (k : Rank νr νb) (v : νr) (r : Ranges α) (hk : k.lt (.r v) = true) :
    (rangeNode v r : Tree νr νb α).rootGt k = true := by
  apply rootGt_createNodeR k v _ hk
  intro e he
  obtain ⟨b, hb⟩ := fromRangeGo_leaf r _ e he
  rw [hb]; rfl

theorem wf_rangeNode_single (v : νr) (lo hi : Bnd α) (hv : (Ivl.mk lo hi).valid = true) :
    (rangeNode v [⟨lo, hi⟩] : Tree νr νb α).wf = true :=
  wf_rangeNode' v _ hv

theorem rootGt_rangeNode_single (k : Rank νr νb) (v : νr) (lo hi : Bnd α)
    (hk : k.lt (.r v) = true) : (rangeNode v [⟨lo, hi⟩] : Tree νr νb α).rootGt k = true :=
  rootGt_rangeNode k v _ hk

/-! ### the run of edges of a partition that meet an interval -/

/-- the edge meets `⟨lo, hi⟩` (in the argument order used by `simplifyEdges` / `productRow`) -/
def meets (lo hi : Bnd α) (e : Ivl α × Tree νr νb α) : Bool := (e.1.inter ⟨lo, hi⟩).valid

theorem Bnd.maxLo_comm (a b : Bnd α) : Bnd.maxLo a b = Bnd.maxLo b a := by
  cases a <;> cases b <;> simp only [Bnd.maxLo] <;> grind

theorem Bnd.minHi_comm (a b : Bnd α) : Bnd.minHi a b = Bnd.minHi b a := by
  cases a <;> cases b <;> simp only [Bnd.minHi] <;> grind

theorem Ivl.inter_comm (a b : Ivl α) : a.inter b = b.inter a := by
  simp only [Ivl.inter, Bnd.maxLo_comm a.lo, Bnd.minHi_comm a.hi]

theorem Bnd.valid_minHi (a b c : Bnd α) (h1 : (Ivl.mk a b).valid = true)
    (h2 : (Ivl.mk a c).valid = true) : (Ivl.mk a (Bnd.minHi b c)).valid = true := by
  cases a <;> cases b <;> cases c <;> simp only [Ivl.valid, Bnd.minHi] at * <;> grind

theorem Bnd.maxLo_unb (a : Bnd α) : Bnd.maxLo a .unb = a := by
  cases a <;> rfl

theorem Bnd.valid_unb_hi (a : Bnd α) : (Ivl.mk a .unb).valid = true := by
  cases a <;> rfl

theorem Bnd.valid_unb_lo (a : Bnd α) : (Ivl.mk .unb a).valid = true := by
  cases a <;> rfl

theorem Bnd.meets_facts (a b lo hi : Bnd α)
    (h : (Ivl.mk (Bnd.maxLo a lo) (Bnd.minHi b hi)).valid = true) :
    (Ivl.mk lo b).valid = true ∧ (Ivl.mk a hi).valid = true ∧ (Ivl.mk lo hi).valid = true := by
  cases a <;> cases b <;> cases lo <;> cases hi <;>
    simp only [Ivl.valid, Bnd.maxLo, Bnd.minHi] at * <;> grind

theorem Bnd.minHi_unb_eq (a : Bnd α) (h : Bnd.minHi a .unb = .unb) : a = .unb := by
  cases a <;> simp [Bnd.minHi] at h ⊢

theorem AdjNe_tail {e : Ivl α × Tree νr νb α} {es : EdgeL νr νb α} (h : AdjNe (e :: es)) :
    AdjNe es := by
  cases es with
  | nil => trivial
  | cons e2 rest => exact h.2

/-- `AdjNe` only looks at the children -/
theorem AdjNe_congr_snd : ∀ {es es' : EdgeL νr νb α}, es'.map Prod.snd = es.map Prod.snd →
    AdjNe es → AdjNe es'
  | [], [], _, _ => trivial
  | [], _ :: _, h, _ => by simp at h
  | _ :: _, [], h, _ => by simp at h
  | [_], [_], _, _ => trivial
  | [_], _ :: _ :: _, h, _ => by simp at h
  | _ :: _ :: _, [_], h, _ => by simp at h
  | e :: e2 :: rest, e' :: e2' :: rest', h, ha => by
    simp only [List.map_cons, List.cons.injEq] at h
    refine ⟨by rw [h.1, h.2.1]; exact ha.1, ?_⟩
    exact AdjNe_congr_snd (es := e2 :: rest) (es' := e2' :: rest')
      (by simp only [List.map_cons, h.2.1, h.2.2]) ha.2

/-- above the interval nothing meets it any more -/
theorem filter_above (lo hi : Bnd α) (c : Option (Bnd α)) (rs : EdgeL νr νb α)
    (hp : Part c .unb rs) (ha : Above c hi) : rs.filter (meets lo hi) = [] := by
  induction rs generalizing c with
  | nil => rfl
  | cons r rest ih =>
    obtain ⟨hc, hv, hrest⟩ := hp
    subst hc
    simp only [Above] at ha
    obtain ⟨h1, h2⟩ := Bnd.above_step r.1.lo r.1.hi lo hi hv ha
    have : meets lo hi r = false := by simpa [meets, Ivl.inter] using h1
    rw [List.filter_cons_of_neg (by simp [this])]
    exact ih _ hrest h2

/-- from an edge that meets `⟨lo, hi⟩` on, the kept edges form a contiguous chain -/
theorem filter_run (lo hi : Bnd α) : ∀ (rest : EdgeL νr νb α) (r : Ivl α × Tree νr νb α),
    Part (some r.1.lo) .unb (r :: rest) → AdjNe (r :: rest) → meets lo hi r = true →
    ∃ m, Part (some r.1.lo) m ((r :: rest).filter (meets lo hi)) ∧
      AdjNe ((r :: rest).filter (meets lo hi)) ∧ (hi = .unb → m = .unb) := by
  intro rest
  induction rest with
  | nil =>
    intro r hp _ hm
    rw [List.filter_cons_of_pos hm]
    exact ⟨.unb, hp, trivial, fun _ => rfl⟩
  | cons r2 rest2 ih =>
    intro r hp ha hm
    obtain ⟨_, hv, hn, hv2, hrest⟩ := hp
    have h3 : (Ivl.mk (Bnd.maxLo r.1.lo lo) (Bnd.minHi r.1.hi hi)).valid = true := by
      simpa [meets, Ivl.inter] using hm
    rw [List.filter_cons_of_pos hm]
    by_cases h4 : Bnd.minHi r.1.hi hi = hi
    · have hab := Bnd.row_end _ _ h4
      rw [filter_above lo hi _ (r2 :: rest2) ⟨hn, hv2, hrest⟩ hab]
      refine ⟨r.1.hi, ⟨rfl, hv, rfl⟩, trivial, fun hu => ?_⟩
      subst hu; exact Bnd.minHi_unb_eq _ h4
    · obtain ⟨e1, nxt, e2, e3, e4⟩ := Bnd.row_continue _ _ _ _ hv h3 h4
      have hnx : nxt = r2.1.lo := by rw [e2] at hn; exact Option.some.inj hn
      subst hnx
      have hm2 : meets lo hi r2 = true := by
        simp only [meets, Ivl.inter, e3]
        exact Bnd.valid_minHi _ _ _ hv2 e4
      obtain ⟨m, p1, p2, p3⟩ := ih r2 ⟨rfl, hv2, hrest⟩ ha.2 hm2
      rw [List.filter_cons_of_pos hm2] at p1 p2 ⊢
      exact ⟨m, ⟨rfl, hv, by rw [e2]; exact p1⟩, ⟨ha.1, p2⟩, p3⟩

/-- the edges of a partition that meet a valid interval: a non-empty contiguous chain whose
    adjacent children differ -/
theorem filter_part (lo hi : Bnd α) : ∀ (rs : EdgeL νr νb α) (cur : Bnd α),
    PartL cur rs → AdjNe rs → (Ivl.mk (Bnd.maxLo cur lo) hi).valid = true →
    ∃ c' m, Part (some c') m (rs.filter (meets lo hi)) ∧ rs.filter (meets lo hi) ≠ [] ∧
      AdjNe (rs.filter (meets lo hi)) ∧ (hi = .unb → m = .unb) ∧ (lo = .unb → c' = cur) := by
  intro rs
  induction rs with
  | nil => intro cur hp; simp [Part, Bnd.flipHi] at hp
  | cons r rest ih =>
    intro cur hp ha hl
    obtain ⟨hc, hv, hrest⟩ := hp
    simp only [Option.some.injEq] at hc
    subst hc
    by_cases hm : meets lo hi r = true
    · obtain ⟨m, p1, p2, p3⟩ := filter_run lo hi rest r ⟨rfl, hv, hrest⟩ ha hm
      refine ⟨r.1.lo, m, p1, ?_, p2, p3, fun _ => rfl⟩
      rw [List.filter_cons_of_pos hm]; simp
    · have h3 : ¬ (Ivl.mk (Bnd.maxLo r.1.lo lo) (Bnd.minHi r.1.hi hi)).valid = true := by
        simpa [meets, Ivl.inter] using hm
      obtain ⟨nxt, e2, e3⟩ := Bnd.row_skip _ _ _ _ hv hl h3
      rw [e2] at hrest
      obtain ⟨c', m, p1, p2, p3, p4, p5⟩ := ih nxt hrest (AdjNe_tail ha) (by rw [e3]; exact hl)
      rw [List.filter_cons_of_neg hm]
      refine ⟨c', m, p1, p2, p3, p4, fun hu => ?_⟩
      subst hu
      rw [Bnd.maxLo_unb] at hl h3
      exact absurd (Bnd.valid_minHi _ _ _ hv hl) h3

/-! ### `complexifyPy` -/

theorem AdjNe_cons_congr {iv iv' : Ivl α} {c : Tree νr νb α} {rest : EdgeL νr νb α}
    (h : AdjNe ((iv, c) :: rest)) : AdjNe ((iv', c) :: rest) := by
  cases rest with
  | nil => trivial
  | cons e2 rest2 => exact ⟨h.1, h.2⟩

theorem Part_complexifyLo (lo hi : Bnd α) (F : EdgeL νr νb α) (c' m : Bnd α)
    (hp : Part (some c') m F) (hne : F ≠ []) (ha : AdjNe F) (hlo : lo = .unb → c' = .unb)
    (hm : ∀ e ∈ F, meets lo hi e = true) :
    Part (some .unb) m (complexifyLo lo F) ∧ complexifyLo lo F ≠ [] ∧
      AdjNe (complexifyLo lo F) ∧
      (∀ e ∈ complexifyLo lo F, (Ivl.mk e.1.lo hi).valid = true) ∧
      (∀ e ∈ complexifyLo lo F, e.2 = .leaf false ∨ ∃ e' ∈ F, e.2 = e'.2) := by
  have hmf : ∀ e ∈ F, (Ivl.mk lo e.1.hi).valid = true ∧ (Ivl.mk e.1.lo hi).valid = true ∧
      (Ivl.mk lo hi).valid = true := by
    intro e he
    have := hm e he
    simp only [meets, Ivl.inter] at this
    exact Bnd.meets_facts _ _ _ _ this
  cases F with
  | nil => exact absurd rfl hne
  | cons e rest =>
    obtain ⟨iv, c⟩ := e
    unfold complexifyLo
    cases hf : lo.flipLo with
    | none =>
      have := hlo (Bnd.flipLo_none _ hf)
      subst this
      simp only []
      exact ⟨hp, hne, ha, fun e he => (hmf e he).2.1, fun e he => Or.inr ⟨e, he, rfl⟩⟩
    | some below =>
      simp only []
      obtain ⟨h1, h2, h3⟩ := hp
      obtain ⟨f1, f2, f3⟩ := hmf (iv, c) (by simp)
      by_cases hc : c = .leaf false
      · simp only [hc, if_true]
        subst hc
        refine ⟨⟨rfl, Bnd.valid_unb_lo _, h3⟩, by simp, AdjNe_cons_congr ha, ?_, ?_⟩
        · intro e he
          simp only [List.mem_cons] at he
          rcases he with rfl | he
          · exact Bnd.valid_unb_lo _
          · exact (hmf e (by simp [he])).2.1
        · intro e he
          simp only [List.mem_cons] at he
          rcases he with rfl | he
          · exact Or.inl rfl
          · exact Or.inr ⟨e, by simp [he], rfl⟩
      · simp only [hc, if_false]
        refine ⟨⟨rfl, Bnd.valid_unb_lo _, ?_⟩, by simp, ⟨fun h => hc h.symm, AdjNe_cons_congr ha⟩,
          ?_, ?_⟩
        · simp only [Bnd.flipLo_facts _ _ hf]
          exact ⟨rfl, f1, h3⟩
        · intro e he
          simp only [List.mem_cons] at he
          rcases he with rfl | rfl | he
          · exact Bnd.valid_unb_lo _
          · exact f3
          · exact (hmf e (by simp [he])).2.1
        · intro e he
          simp only [List.mem_cons] at he
          rcases he with rfl | rfl | he
          · exact Or.inl rfl
          · exact Or.inr ⟨(iv, c), by simp, rfl⟩
          · exact Or.inr ⟨e, by simp [he], rfl⟩

theorem Part_complexifyHiGo (hi above : Bnd α) (hab : hi.flipHi = some above) :
    ∀ (L : EdgeL νr νb α) (c m : Bnd α), L ≠ [] → Part (some c) m L → AdjNe L →
      (∀ e ∈ L, (Ivl.mk e.1.lo hi).valid = true) →
      Part (some c) .unb (complexifyHiGo hi above L) ∧ AdjNe (complexifyHiGo hi above L) ∧
        (∀ e ∈ complexifyHiGo hi above L, e.2 = .leaf false ∨ ∃ e' ∈ L, e.2 = e'.2) ∧
        (∀ e0 rest, L = e0 :: rest → ∃ iv tl, complexifyHiGo hi above L = (iv, e0.2) :: tl) := by
  intro L
  induction L with
  | nil => intro c m h; exact absurd rfl h
  | cons e rest ih =>
    intro c m _ hp ha hv
    cases rest with
    | nil =>
      obtain ⟨iv, ch⟩ := e
      obtain ⟨h1, h2, _⟩ := hp
      unfold complexifyHiGo
      by_cases hc : ch = .leaf false
      · simp only [hc, if_true]
        refine ⟨⟨h1, Bnd.valid_unb_hi _, by simp [Part, Bnd.flipHi]⟩, trivial, ?_, ?_⟩
        · intro e he; simp only [List.mem_singleton] at he; subst he; exact Or.inl rfl
        · intro e0 rest h; simp only [List.cons.injEq] at h; obtain ⟨rfl, _⟩ := h
          exact ⟨_, _, rfl⟩
      · simp only [hc, if_false]
        refine ⟨⟨h1, hv (iv, ch) (by simp), ?_⟩, ⟨hc, trivial⟩, ?_, ?_⟩
        · simp only [hab]
          exact ⟨rfl, Bnd.valid_unb_hi _, by simp [Part, Bnd.flipHi]⟩
        · intro e he
          simp only [List.mem_cons, List.not_mem_nil, or_false] at he
          rcases he with rfl | rfl
          · exact Or.inr ⟨(iv, ch), by simp, rfl⟩
          · exact Or.inl rfl
        · intro e0 rest h; simp only [List.cons.injEq] at h; obtain ⟨rfl, _⟩ := h
          exact ⟨_, _, rfl⟩
    | cons e2 rest2 =>
      have hgo : complexifyHiGo hi above (e :: e2 :: rest2) =
          e :: complexifyHiGo hi above (e2 :: rest2) := by
        simp [complexifyHiGo]
      rw [hgo]
      obtain ⟨h1, h2, h3⟩ := hp
      have hn : e.1.hi.flipHi = some e2.1.lo := h3.1
      rw [hn] at h3
      obtain ⟨p1, p2, p3, p4⟩ := ih e2.1.lo m (by simp) h3 ha.2 (fun x hx => hv x (by simp [hx]))
      obtain ⟨iv, tl, ht⟩ := p4 e2 rest2 rfl
      refine ⟨⟨h1, h2, by rw [hn]; exact p1⟩, ?_, ?_, ?_⟩
      · rw [ht] at p2 ⊢
        exact ⟨ha.1, p2⟩
      · intro x hx
        simp only [List.mem_cons] at hx
        rcases hx with rfl | hx
        · exact Or.inr ⟨x, by simp, rfl⟩
        · rcases p3 x (by simpa using hx) with h | ⟨e', he', h⟩
          · exact Or.inl h
          · exact Or.inr ⟨e', by simp only [List.mem_cons] at he' ⊢; exact Or.inr he', h⟩
      · intro e0 rest h; simp only [List.cons.injEq] at h; obtain ⟨rfl, _⟩ := h
        exact ⟨_, _, rfl⟩

theorem Bnd.flipHi_none (a : Bnd α) (h : a.flipHi = none) : a = .unb := by
  cases a <;> simp [Bnd.flipHi] at *

theorem Part_complexifyHi (hi : Bnd α) (L : EdgeL νr νb α) (c m : Bnd α) (hne : L ≠ [])
    (hp : Part (some c) m L) (ha : AdjNe L) (hv : ∀ e ∈ L, (Ivl.mk e.1.lo hi).valid = true)
    (hm : hi = .unb → m = .unb) :
    Part (some c) .unb (complexifyHi hi L) ∧ AdjNe (complexifyHi hi L) ∧
      (∀ e ∈ complexifyHi hi L, e.2 = .leaf false ∨ ∃ e' ∈ L, e.2 = e'.2) := by
  unfold complexifyHi
  cases hf : hi.flipHi with
  | none =>
    have := hm (Bnd.flipHi_none _ hf)
    subst this
    exact ⟨hp, ha, fun e he => Or.inr ⟨e, he, rfl⟩⟩
  | some above =>
    obtain ⟨p1, p2, p3, _⟩ := Part_complexifyHiGo hi above hf L c m hne hp ha hv
    exact ⟨p1, p2, p3⟩

theorem complexify_filter_eq (lo hi : Bnd α) (es : EdgeL νr νb α) :
    es.filter (fun e => ((Ivl.mk lo hi).inter e.1).valid) = es.filter (meets lo hi) := by
  congr 1
  funext e
  simp only [meets, Ivl.inter_comm e.1]

/-- the edge surgery of `complexify` turns a reduced partition into a reduced partition whose
    children are old children or FALSE -/
theorem Part_complexifyEdges (lo hi : Bnd α) (es : EdgeL νr νb α)
    (hv : (Ivl.mk lo hi).valid = true) (hp : PartL .unb es) (ha : AdjNe es) :
    PartL .unb (complexifyEdges lo hi es) ∧ AdjNe (complexifyEdges lo hi es) ∧
      ∀ e ∈ complexifyEdges lo hi es, e.2 = .leaf false ∨ ∃ e' ∈ es, e.2 = e'.2 := by
  unfold complexifyEdges
  simp only [complexify_filter_eq]
  obtain ⟨c', m, f1, f2, f3, f4, f5⟩ := filter_part lo hi es .unb hp ha (by simpa [Bnd.maxLo] using hv)
  obtain ⟨l1, l2, l3, l4, l5⟩ := Part_complexifyLo lo hi _ c' m f1 f2 f3 f5
    (fun e he => (List.mem_filter.mp he).2)
  obtain ⟨h1, h2, h3⟩ := Part_complexifyHi hi _ .unb m l2 l1 l3 l4 f4
  refine ⟨h1, h2, fun e he => ?_⟩
  rcases h3 e he with h | ⟨e', he', h⟩
  · exact Or.inl h
  · rcases l5 e' he' with h' | ⟨e'', he'', h'⟩
    · exact Or.inl (h.trans h')
    · exact Or.inr ⟨e'', (List.mem_filter.mp he'').1, h.trans h'⟩

theorem Edges.complexifyPyE_eq (pv : νr) (lo hi : Bnd α) : ∀ (es : Edges νr νb α),
    es.complexifyPyE pv lo hi = es.toList.map (fun e => (e.1, e.2.complexifyPy pv lo hi))
  | .nil => by simp [Edges.complexifyPyE, Edges.toList]
  | .cons iv t rest => by
    simp [Edges.complexifyPyE, Edges.toList, Edges.complexifyPyE_eq pv lo hi rest]

/-- fuel form: `complexifyPy` keeps wf, and every root bound that is also below `pv` -/
theorem wf_complexifyF (pv : νr) (lo hi : Bnd α) : ∀ (n : Nat) (t : Tree νr νb α), t.size < n →
    t.wf = true →
    (t.complexifyPy pv lo hi).wf = true ∧
      ∀ k : Rank νr νb, t.rootGt k = true → k.lt (.r pv) = true →
        (t.complexifyPy pv lo hi).rootGt k = true := by
  intro n
  induction n with
  | zero => intro t h; omega
  | succ n ih =>
    intro t hsz hw
    have hrange : (Ivl.mk lo hi).valid = true →
        (createNodeR pv (fromRange [⟨lo, hi⟩]) : Tree νr νb α).wf = true ∧
        ∀ k : Rank νr νb, k.lt (.r pv) = true →
          (createNodeR pv (fromRange [⟨lo, hi⟩]) : Tree νr νb α).rootGt k = true :=
      fun hv => ⟨wf_rangeNode_single pv lo hi hv, fun k hk => rootGt_rangeNode_single k pv lo hi hk⟩
    cases t with
    | leaf b =>
      simp only [Tree.complexifyPy]
      by_cases c1 : b = false
      · simp [c1, Tree.wf, Tree.rootGt]
      by_cases c2 : lo = .unb ∧ hi = .unb
      · simp [c1, c2, Tree.wf, Tree.rootGt]
      by_cases c3 : (Ivl.mk lo hi).valid = true
      · simp only [c1, c2, c3, if_true, if_false]
        exact ⟨(hrange c3).1, fun k _ hk => (hrange c3).2 k hk⟩
      · simp [c1, c2, c3, Tree.wf, Tree.rootGt]
    | rng v es =>
      obtain ⟨_, hp, ha, hc⟩ := (Tree.wf_rng_iff v es).mp hw
      simp only [Tree.complexifyPy]
      by_cases c2 : lo = .unb ∧ hi = .unb
      · simp only [c2, and_self, if_true]; exact ⟨hw, fun k hk _ => hk⟩
      by_cases c3' : ¬ (Ivl.mk lo hi).valid = true
      · simp [c2, c3', Tree.wf, Tree.rootGt]
      have c3 : (Ivl.mk lo hi).valid = true := by simpa using c3'
      simp only [c2, c3, not_true_eq_false, if_false]
      by_cases c4 : v = pv
      · simp only [c4, if_true]
        subst c4
        obtain ⟨q1, q2, q3⟩ := Part_complexifyEdges lo hi es.toList c3 hp ha
        refine ⟨wf_createNodeR v _ q1 q2 ?_, fun k hk _ => rootGt_createNodeR k v _ hk ?_⟩
        · intro e he
          rcases q3 e he with h | ⟨e', he', h⟩
          · rw [h]; exact ⟨rfl, rfl⟩
          · rw [h]; exact hc e' he'
        · intro e he
          rcases q3 e he with h | ⟨e', he', h⟩
          · rw [h]; rfl
          · rw [h]; exact Tree.rootGt_of_lt _ hk (hc e' he').2
      simp only [c4, if_false]
      by_cases c5 : pv < v
      · simp only [c5, if_true]
        exact ⟨wf_and _ _ hw (hrange c3).1,
          fun k hk hk2 => rootGt_and k _ _ hw (hrange c3).1 hk ((hrange c3).2 k hk2)⟩
      simp only [c5, if_false, Edges.complexifyPyE_eq]
      have hlt : v < pv := by grind
      have hch : ∀ e ∈ es.toList.map (fun e => (e.1, e.2.complexifyPy pv lo hi)),
          e.2.wf = true ∧ e.2.rootGt (.r v) = true := by
        intro e he
        simp only [List.mem_map] at he
        obtain ⟨e', he', rfl⟩ := he
        have := ih e'.2 (by have := Tree.size_rng_child v es e' he'; omega) (hc e' he').1
        exact ⟨this.1, this.2 _ (hc e' he').2 (by simp [Rank.lt, hlt])⟩
      refine ⟨wf_node_coalesce v _ (Part_map _ hp) hch, fun k hk _ => ?_⟩
      exact rootGt_node_coalesce k v _ hk
        (fun e he => Tree.rootGt_of_lt _ hk (hch e he).2)
    | bool v h l =>
      simp only [Tree.complexifyPy]
      by_cases c2 : lo = .unb ∧ hi = .unb
      · simp only [c2, and_self, if_true]; exact ⟨hw, fun k hk _ => hk⟩
      by_cases c3' : ¬ (Ivl.mk lo hi).valid = true
      · simp [c2, c3', Tree.wf, Tree.rootGt]
      have c3 : (Ivl.mk lo hi).valid = true := by simpa using c3'
      simp only [c2, c3, not_true_eq_false, if_false]
      exact ⟨wf_and _ _ hw (hrange c3).1,
        fun k hk hk2 => rootGt_and k _ _ hw (hrange c3).1 hk ((hrange c3).2 k hk2)⟩

/-- **`complexifyPy` preserves well-formedness** -/
theorem wf_complexifyPy (pv : νr) (lo hi : Bnd α) (t : Tree νr νb α) (h : t.wf = true) :
    (t.complexifyPy pv lo hi).wf = true :=
  (wf_complexifyF pv lo hi _ t (Nat.lt_succ_self _) h).1

theorem rootGt_complexifyPy (pv : νr) (lo hi : Bnd α) (t : Tree νr νb α) (h : t.wf = true)
    (k : Rank νr νb) (hk : t.rootGt k = true) (hk2 : k.lt (.r pv) = true) :
    (t.complexifyPy pv lo hi).rootGt k = true :=
  (wf_complexifyF pv lo hi _ t (Nat.lt_succ_self _) h).2 k hk hk2

/-! ### `simplifyPy` -/

/-- the clipped kept edges of `simplifyEdges` -/
def simplifyNew (lo hi : Bnd α) (es : EdgeL νr νb α) : EdgeL νr νb α :=
  es.filterMap fun e =>
    let o := e.1.inter ⟨lo, hi⟩
    if o.valid then some (o, e.2) else none

theorem simplifyEdges_eq (lo hi : Bnd α) (es : EdgeL νr νb α) :
    simplifyEdges lo hi es = setLastHi .unb (setFirstLo .unb (simplifyNew lo hi es)) := rfl

theorem simplifyNew_eq_productRow (lo hi : Bnd α) (es : EdgeL νr νb α) :
    simplifyNew lo hi es = productRow (fun _ c => c) (⟨lo, hi⟩, .leaf false) es := by
  induction es with
  | nil => rfl
  | cons e rest ih =>
    unfold simplifyNew at ih ⊢
    simp only [List.filterMap_cons, productRow]
    by_cases h : (e.1.inter ⟨lo, hi⟩).valid = true
    · simp only [h, if_true]; rw [ih]
    · simp only [h, if_false]; rw [ih]; simp

theorem simplifyNew_eq_map (lo hi : Bnd α) (es : EdgeL νr νb α) :
    simplifyNew lo hi es =
      (es.filter (meets lo hi)).map (fun e => (e.1.inter ⟨lo, hi⟩, e.2)) := by
  induction es with
  | nil => rfl
  | cons e rest ih =>
    unfold simplifyNew at ih ⊢
    simp only [List.filterMap_cons]
    by_cases h : (e.1.inter ⟨lo, hi⟩).valid = true
    · have hm : meets lo hi e = true := h
      simp only [h, if_true, List.filter_cons_of_pos hm, List.map_cons]; rw [ih]
    · have hm : ¬ meets lo hi e = true := h
      simp only [h, if_false, List.filter_cons_of_neg hm]; rw [ih]; simp

theorem Bnd.not_flipHi_of_valid (lo hi : Bnd α) (hv : (Ivl.mk lo hi).valid = true) :
    some lo ≠ hi.flipHi := by
  cases lo <;> cases hi <;> simp only [Ivl.valid, Bnd.flipHi] at * <;> grind

theorem Part_setFirstLo {c : Bnd α} {fin : Bnd α} {L : EdgeL νr νb α} (hne : L ≠ [])
    (h : Part (some c) fin L) : Part (some .unb) fin (setFirstLo .unb L) := by
  cases L with
  | nil => exact absurd rfl hne
  | cons e rest =>
    obtain ⟨iv, ch⟩ := e
    exact ⟨rfl, Bnd.valid_unb_lo _, h.2.2⟩

theorem Part_setLastHi : ∀ (L : EdgeL νr νb α) (c : Option (Bnd α)) (fin : Bnd α), L ≠ [] →
    Part c fin L → Part c .unb (setLastHi .unb L)
  | [], _, _, hne, _ => absurd rfl hne
  | [(iv, ch)], c, fin, _, h => ⟨h.1, Bnd.valid_unb_hi _, by simp [Part, Bnd.flipHi]⟩
  | e :: e2 :: rest, c, fin, _, h => by
    have : setLastHi .unb (e :: e2 :: rest) = e :: setLastHi .unb (e2 :: rest) := by
      simp [setLastHi]
    rw [this]
    exact ⟨h.1, h.2.1, Part_setLastHi (e2 :: rest) _ fin (by simp) h.2.2⟩

theorem setFirstLo_snd (lo : Bnd α) (L : EdgeL νr νb α) :
    (setFirstLo lo L).map Prod.snd = L.map Prod.snd := by
  cases L with
  | nil => rfl
  | cons e rest => obtain ⟨iv, c⟩ := e; rfl

theorem setFirstLo_ne_nil (lo : Bnd α) (L : EdgeL νr νb α) (h : L ≠ []) : setFirstLo lo L ≠ [] := by
  cases L with
  | nil => exact absurd rfl h
  | cons e rest => obtain ⟨iv, c⟩ := e; simp [setFirstLo]

theorem setLastHi_snd (hi : Bnd α) : ∀ (L : EdgeL νr νb α),
    (setLastHi hi L).map Prod.snd = L.map Prod.snd
  | [] => rfl
  | [(iv, c)] => rfl
  | e :: e2 :: rest => by
    have : setLastHi hi (e :: e2 :: rest) = e :: setLastHi hi (e2 :: rest) := by
      simp [setLastHi]
    rw [this, List.map_cons, setLastHi_snd hi (e2 :: rest)]; rfl

/-- the edge surgery of `simplify` turns a reduced partition into a reduced partition with
    children drawn from the old ones (in particular it is never empty for a valid interval) -/
theorem Part_simplifyEdges (lo hi : Bnd α) (es : EdgeL νr νb α)
    (hv : (Ivl.mk lo hi).valid = true) (hp : PartL .unb es) (ha : AdjNe es) :
    PartL .unb (simplifyEdges lo hi es) ∧ AdjNe (simplifyEdges lo hi es) ∧
      ∀ e ∈ simplifyEdges lo hi es, ∃ e' ∈ es, e.2 = e'.2 := by
  have hnew : Part (some lo) hi (simplifyNew lo hi es) := by
    rw [simplifyNew_eq_productRow]
    have := Part_productRow (fun _ c => c) ((⟨lo, hi⟩, Tree.leaf false) : Ivl α × Tree νr νb α)
      .unb es hp (by simpa [Bnd.maxLo] using hv)
    simpa [Bnd.maxLo] using this
  have hne : simplifyNew lo hi es ≠ [] := by
    intro h
    rw [h] at hnew
    exact Bnd.not_flipHi_of_valid lo hi hv hnew
  have hsnd : (simplifyEdges lo hi es).map Prod.snd =
      (es.filter (meets lo hi)).map Prod.snd := by
    rw [simplifyEdges_eq, setLastHi_snd, setFirstLo_snd, simplifyNew_eq_map, List.map_map]
    rfl
  obtain ⟨_, _, _, _, f3, _, _⟩ := filter_part lo hi es .unb hp ha (by simpa [Bnd.maxLo] using hv)
  refine ⟨?_, AdjNe_congr_snd hsnd f3, fun e he => ?_⟩
  · rw [simplifyEdges_eq]
    exact Part_setLastHi _ _ hi (setFirstLo_ne_nil _ _ hne) (Part_setFirstLo hne hnew)
  · have : e.2 ∈ (simplifyEdges lo hi es).map Prod.snd := List.mem_map.mpr ⟨e, he, rfl⟩
    rw [hsnd] at this
    obtain ⟨e', he', h⟩ := List.mem_map.mp this
    exact ⟨e', (List.mem_filter.mp he').1, h.symm⟩

theorem simplifyEdges_ne_nil (lo hi : Bnd α) (es : EdgeL νr νb α)
    (hv : (Ivl.mk lo hi).valid = true) (hp : PartL .unb es) (ha : AdjNe es) :
    simplifyEdges lo hi es ≠ [] :=
  Part_ne_nil (Part_simplifyEdges lo hi es hv hp ha).1

theorem Edges.simplifyPyE_eq (pv : νr) (lo hi : Bnd α) : ∀ (es : Edges νr νb α),
    es.simplifyPyE pv lo hi = es.toList.map (fun e => (e.1, e.2.simplifyPy pv lo hi))
  | .nil => by simp [Edges.simplifyPyE, Edges.toList]
  | .cons iv t rest => by
    simp [Edges.simplifyPyE, Edges.toList, Edges.simplifyPyE_eq pv lo hi rest]

/-- fuel form: `simplifyPy` keeps wf and every root bound -/
theorem wf_simplifyF (pv : νr) (lo hi : Bnd α) : ∀ (n : Nat) (t : Tree νr νb α), t.size < n →
    t.wf = true →
    (t.simplifyPy pv lo hi).wf = true ∧
      ∀ k : Rank νr νb, t.rootGt k = true → (t.simplifyPy pv lo hi).rootGt k = true := by
  intro n
  induction n with
  | zero => intro t h; omega
  | succ n ih =>
    intro t hsz hw
    cases t with
    | leaf b => simp [Tree.simplifyPy, Tree.wf, Tree.rootGt]
    | rng v es =>
      obtain ⟨_, hp, ha, hc⟩ := (Tree.wf_rng_iff v es).mp hw
      simp only [Tree.simplifyPy]
      by_cases c2 : lo = .unb ∧ hi = .unb
      · simp only [c2, and_self, if_true]; exact ⟨hw, fun k hk => hk⟩
      simp only [c2, if_false]
      by_cases c4 : v = pv
      · simp only [c4, if_true]
        subst c4
        by_cases c3 : (Ivl.mk lo hi).valid = true
        · simp only [c3, if_true]
          obtain ⟨q1, q2, q3⟩ := Part_simplifyEdges lo hi es.toList c3 hp ha
          refine ⟨wf_createNodeR v _ q1 q2 ?_, fun k hk => rootGt_createNodeR k v _ hk ?_⟩
          · intro e he
            obtain ⟨e', he', h⟩ := q3 e he
            rw [h]; exact hc e' he'
          · intro e he
            obtain ⟨e', he', h⟩ := q3 e he
            rw [h]; exact Tree.rootGt_of_lt _ hk (hc e' he').2
        · simp [c3, Tree.wf, Tree.rootGt]
      simp only [c4, if_false, Edges.simplifyPyE_eq]
      have hch : ∀ e ∈ es.toList.map (fun e => (e.1, e.2.simplifyPy pv lo hi)),
          e.2.wf = true ∧ e.2.rootGt (.r v) = true := by
        intro e he
        simp only [List.mem_map] at he
        obtain ⟨e', he', rfl⟩ := he
        have := ih e'.2 (by have := Tree.size_rng_child v es e' he'; omega) (hc e' he').1
        exact ⟨this.1, this.2 _ (hc e' he').2⟩
      refine ⟨wf_node_coalesce v _ (Part_map _ hp) hch, fun k hk => ?_⟩
      exact rootGt_node_coalesce k v _ hk
        (fun e he => Tree.rootGt_of_lt _ hk (hch e he).2)
    | bool v h l =>
      obtain ⟨sh, sl⟩ := Tree.size_bool_child v h l
      obtain ⟨_, wh, wl, gh, gl⟩ := (Tree.wf_bool_iff v h l).mp hw
      simp only [Tree.simplifyPy]
      by_cases c2 : lo = .unb ∧ hi = .unb
      · simp only [c2, and_self, if_true]; exact ⟨hw, fun k hk => hk⟩
      simp only [c2, if_false]
      have ih1 := ih h (by omega) wh
      have ih2 := ih l (by omega) wl
      have g1 := ih1.2 _ gh
      have g2 := ih2.2 _ gl
      exact ⟨wf_createNodeB _ _ _ ih1.1 ih2.1 g1 g2,
        fun k hk => rootGt_createNodeB k _ _ _ hk (Tree.rootGt_of_lt _ hk g1)⟩

/-- **`simplifyPy` preserves well-formedness** -/
theorem wf_simplifyPy (pv : νr) (lo hi : Bnd α) (t : Tree νr νb α) (h : t.wf = true) :
    (t.simplifyPy pv lo hi).wf = true :=
  (wf_simplifyF pv lo hi _ t (Nat.lt_succ_self _) h).1

theorem rootGt_simplifyPy (pv : νr) (lo hi : Bnd α) (t : Tree νr νb α) (h : t.wf = true)
    (k : Rank νr νb) (hk : t.rootGt k = true) : (t.simplifyPy pv lo hi).rootGt k = true :=
  (wf_simplifyF pv lo hi _ t (Nat.lt_succ_self _) h).2 k hk

end Pep508
