/-
C19: bare URLs, filesystem paths and archive file names are never accepted as named requirements;
the parser rejects them with the dedicated `unsupported` error kind.

Ported to the model after F18 (`parse_name` runs the unnamed-requirement check before reporting an
invalid name) and F19 (the check after the name rewinds to the start of the name, the span still
starts at 0).  Theorems named `…_lead` allow leading whitespace `ws`; `…_any` / `…_lead` no longer
require the name-like prefix to end in an alphanumeric.  With leading whitespace the reported span
depends on which of the two code paths raises the error, see `nameSpan` and `lead_span_differs`.
-/
import Pep508.Proofs.ReqAccept
namespace Pep508

open Cursor

/-! ### list helpers -/

theorem span_loop_eq {α} (p : α → Bool) (l acc : List α) :
    List.span.loop p l acc = (acc.reverse ++ l.takeWhile p, l.dropWhile p) := by
  induction l generalizing acc with
  | nil => simp [List.span.loop]
  | cons a l ih =>
    by_cases h : p a = true
    · simp [List.span.loop, h, ih]
    · simp [List.span.loop, h]

theorem span_eq {α} (p : α → Bool) (l : List α) : l.span p = (l.takeWhile p, l.dropWhile p) := by
  simp [List.span, span_loop_eq]

theorem takeWhile_all {α} {p : α → Bool} {l : List α} (h : ∀ a ∈ l, p a = true) : l.takeWhile p = l := by
  have := List.takeWhile_append_of_pos (l₂ := []) h
  simpa using this

theorem dropWhile_all {α} {p : α → Bool} {l : List α} (h : ∀ a ∈ l, p a = true) : l.dropWhile p = [] := by
  have := List.dropWhile_append_of_pos (l₂ := []) h
  simpa using this

/-- every list either contains no `x`, or splits at the *last* `x` -/
theorem split_last {α} [DecidableEq α] (x : α) (s : List α) :
    x ∉ s ∨ ∃ b a, s = b ++ x :: a ∧ x ∉ a := by
  induction s with
  | nil => exact .inl (by simp)
  | cons c s ih =>
    rcases ih with h | ⟨b, a, rfl, ha⟩
    · by_cases hc : x = c
      · subst hc; exact .inr ⟨[], s, rfl, h⟩
      · exact .inl (by simp [hc, h])
    · exact .inr ⟨c :: b, a, rfl, ha⟩

/-! ### `rsplitDot`, `pathExtension`, `pathStem` -/

theorem ne_dot_of_not_mem {s : List Char} (h : '.' ∉ s) : ∀ c ∈ s.reverse, (c != '.') = true := by
  intro c hc
  rw [List.mem_reverse] at hc
  simp only [bne_iff_ne, ne_eq]
  rintro rfl
  exact h hc

theorem rsplitDot_none {s : List Char} (h : '.' ∉ s) : rsplitDot s = none := by
  unfold rsplitDot
  rw [takeWhile_all (ne_dot_of_not_mem h)]
  simp

theorem rsplitDot_append (b a : List Char) (h : '.' ∉ a) : rsplitDot (b ++ '.' :: a) = some (b, a) := by
  unfold rsplitDot
  have h1 : (b ++ '.' :: a).reverse = a.reverse ++ '.' :: b.reverse := by simp
  rw [h1, List.takeWhile_append_of_pos (ne_dot_of_not_mem h)]
  simp only [bne_self_eq_false, Bool.false_eq_true, not_false_eq_true, List.takeWhile_cons_of_neg,
    List.append_nil, List.reverse_reverse, List.length_append, List.length_cons]
  have h2 : ¬ (a.length = b.length + (a.length + 1)) := by omega
  have h3 : b.length + (a.length + 1) - a.length - 1 = b.length := by omega
  simp [h2, h3]

theorem pathExtension_none {s : List Char} (h : '.' ∉ s) : pathExtension s = none := by
  unfold pathExtension; rw [rsplitDot_none h]

theorem pathExtension_append (b a : List Char) (h : '.' ∉ a) :
    pathExtension (b ++ '.' :: a) = if b = [] then none else some a := by
  unfold pathExtension
  rw [rsplitDot_append b a h]
  cases b <;> simp

theorem pathStem_append (b a : List Char) (h : '.' ∉ a) (hb : b ≠ []) : pathStem (b ++ '.' :: a) = b := by
  unfold pathStem
  rw [rsplitDot_append b a h]
  cases b with
  | nil => exact absurd rfl hb
  | cons c t => simp

/-- `Path::extension` of a separator-free file name: the text after the last `.`, provided that `.`
is not the first char -/
theorem pathExtension_eq_some_iff (s ext : List Char) :
    pathExtension s = some ext ↔ ∃ stem, stem ≠ [] ∧ s = stem ++ '.' :: ext ∧ '.' ∉ ext := by
  rcases split_last '.' s with h | ⟨b, a, rfl, ha⟩
  · rw [pathExtension_none h]
    simp only [reduceCtorEq, false_iff, not_exists, not_and]
    rintro stem _ rfl
    simp at h
  · rw [pathExtension_append b a ha]
    constructor
    · intro h
      by_cases hb : b = []
      · simp [hb] at h
      · simp only [hb, if_false, Option.some.injEq] at h
        subst h
        exact ⟨b, hb, rfl, ha⟩
    · rintro ⟨stem, hne, heq, hx⟩
      have h1 := rsplitDot_append b a ha
      rw [heq, rsplitDot_append stem ext hx] at h1
      simp only [Option.some.injEq, Prod.mk.injEq] at h1
      obtain ⟨rfl, rfl⟩ := h1
      simp [hne]

theorem pathStem_of_ext {s stem ext : List Char} (hne : stem ≠ []) (hs : s = stem ++ '.' :: ext)
    (hx : '.' ∉ ext) : pathStem s = stem := by
  subst hs; exact pathStem_append stem ext hx hne

/-! ### `looksLikeArchive` -/

theorem ofList_beq_lit (e l : List Char) : (String.ofList e == String.ofList l) = (e == l) := by
  by_cases h : e = l
  · subst h; rw [beq_self_eq_true, beq_self_eq_true]
  · have : String.ofList e ≠ String.ofList l := fun h' => h (String.ofList_injective h')
    rw [beq_eq_false_iff_ne.2 h, beq_eq_false_iff_ne.2 this]

/-- extensions that mark an archive on their own -/
def archiveExts : List (List Char) :=
  [['w','h','l'], ['t','b','z'], ['t','x','z'], ['t','l','z'], ['z','i','p'], ['t','g','z'], ['t','a','r']]

/-- compression extensions that mark an archive after `.tar` -/
def tarCompExts : List (List Char) :=
  [['b','z','2'], ['x','z'], ['l','z'], ['l','z','m','a'], ['g','z']]

/-- `looksLikeArchive` with the string comparisons replaced by list comparisons -/
theorem looksLikeArchive_eq (file : List Char) :
    looksLikeArchive file =
      if file.isEmpty || file == ['.', '.'] then false else
      match pathExtension file with
      | none => false
      | some ext =>
        archiveExts.contains ext ||
          (pathExtension (pathStem file) == some ['t','a','r'] && tarCompExts.contains ext) := by
  unfold looksLikeArchive
  have hdd : ("..".toList : List Char) = ['.', '.'] := by rfl
  rw [hdd]
  by_cases h0 : (file.isEmpty || file == ['.', '.']) = true
  · simp only [h0, if_true]
  · simp only [h0, Bool.false_eq_true, if_false]
    cases pathExtension file with
    | none => rfl
    | some ext =>
      dsimp only
      have e1 := ofList_beq_lit ext ['w','h','l']
      have e2 := ofList_beq_lit ext ['t','b','z']
      have e3 := ofList_beq_lit ext ['t','x','z']
      have e4 := ofList_beq_lit ext ['t','l','z']
      have e5 := ofList_beq_lit ext ['z','i','p']
      have e6 := ofList_beq_lit ext ['t','g','z']
      have e7 := ofList_beq_lit ext ['t','a','r']
      have f1 := ofList_beq_lit ext ['b','z','2']
      have f2 := ofList_beq_lit ext ['x','z']
      have f3 := ofList_beq_lit ext ['l','z']
      have f4 := ofList_beq_lit ext ['l','z','m','a']
      have f5 := ofList_beq_lit ext ['g','z']
      have hpre : ((pathExtension (pathStem file)).map String.ofList == some "tar") =
          (pathExtension (pathStem file) == some ['t','a','r']) := by
        cases pathExtension (pathStem file) with
        | none => rfl
        | some p =>
          have := ofList_beq_lit p ['t','a','r']
          simp only [Option.map_some]
          show (String.ofList p == "tar") = (p == ['t','a','r'])
          rw [show ("tar" : String) = String.ofList ['t','a','r'] from rfl, this]
      show (String.ofList ext == String.ofList ['w','h','l'] || String.ofList ext == String.ofList ['t','b','z'] ||
        String.ofList ext == String.ofList ['t','x','z'] || String.ofList ext == String.ofList ['t','l','z'] ||
        String.ofList ext == String.ofList ['z','i','p'] || String.ofList ext == String.ofList ['t','g','z'] ||
        String.ofList ext == String.ofList ['t','a','r'] ||
        ((pathExtension (pathStem file)).map String.ofList == some "tar" &&
          (String.ofList ext == String.ofList ['b','z','2'] || String.ofList ext == String.ofList ['x','z'] ||
           String.ofList ext == String.ofList ['l','z'] || String.ofList ext == String.ofList ['l','z','m','a'] ||
           String.ofList ext == String.ofList ['g','z']))) = _
      rw [e1, e2, e3, e4, e5, e6, e7, f1, f2, f3, f4, f5, hpre]
      simp only [archiveExts, tarCompExts, List.contains_cons, List.contains_nil, Bool.or_false, Bool.or_assoc]

/-- the declarative shape of an archive file name: `stem.ext` with a non-empty stem, `ext` without
`.`, and `ext` an archive extension, or a compression extension with `stem = stem'.tar` -/
def ArchiveName (f : List Char) : Prop :=
  ∃ stem ext, f = stem ++ '.' :: ext ∧ '.' ∉ ext ∧ stem ≠ [] ∧
    (ext ∈ archiveExts ∨
      (ext ∈ tarCompExts ∧ ∃ stem', stem' ≠ [] ∧ stem = stem' ++ ['.', 't', 'a', 'r']))

theorem archiveExt_ne_nil {ext : List Char} (h : ext ∈ archiveExts ∨ ext ∈ tarCompExts) : ext ≠ [] := by
  rintro rfl
  simp [archiveExts, tarCompExts] at h

/-- (1) characterisation of `looks_like_archive` (no hypothesis on the file name is needed) -/
theorem looksLikeArchive_iff (f : List Char) : looksLikeArchive f = true ↔ ArchiveName f := by
  rw [looksLikeArchive_eq]
  constructor
  · intro h
    by_cases h0 : (f.isEmpty || f == ['.', '.']) = true
    · simp [h0] at h
    · simp only [h0, Bool.false_eq_true, if_false] at h
      cases hpe : pathExtension f with
      | none => rw [hpe] at h; simp at h
      | some ext =>
        rw [hpe] at h
        dsimp only at h
        obtain ⟨stem, hne, hs, hx⟩ := (pathExtension_eq_some_iff f ext).1 hpe
        rw [pathStem_of_ext hne hs hx] at h
        refine ⟨stem, ext, hs, hx, hne, ?_⟩
        simp only [Bool.or_eq_true, Bool.and_eq_true, List.contains_iff_mem, beq_iff_eq] at h
        rcases h with h | ⟨h1, h2⟩
        · exact .inl h
        · obtain ⟨stem', hne', hs', _⟩ := (pathExtension_eq_some_iff stem _).1 h1
          exact .inr ⟨h2, stem', hne', hs'⟩
  · rintro ⟨stem, ext, hs, hx, hne, hcase⟩
    have hext : ext ≠ [] := archiveExt_ne_nil (hcase.imp id (·.1))
    have hlen : 3 ≤ f.length := by
      rw [hs]
      cases stem with
      | nil => exact absurd rfl hne
      | cons a t =>
        cases ext with
        | nil => exact absurd rfl hext
        | cons b u => simp only [List.length_append, List.length_cons]; omega
    have h0 : (f.isEmpty || f == ['.', '.']) = false := by
      cases f with
      | nil => simp at hlen
      | cons a t =>
        simp only [List.isEmpty_cons, Bool.false_or, beq_eq_false_iff_ne, ne_eq]
        intro h; rw [h] at hlen; simp at hlen
    simp only [h0, Bool.false_eq_true, if_false]
    have hpe : pathExtension f = some ext := (pathExtension_eq_some_iff f ext).2 ⟨stem, hne, hs, hx⟩
    rw [hpe]
    dsimp only
    rw [pathStem_of_ext hne hs hx]
    simp only [Bool.or_eq_true, Bool.and_eq_true, List.contains_iff_mem, beq_iff_eq]
    rcases hcase with h | ⟨h1, stem', hne', hs'⟩
    · exact .inl h
    · refine .inr ⟨(pathExtension_eq_some_iff stem _).2 ⟨stem', hne', hs', by decide⟩, h1⟩

/-! ### char facts -/

theorem nameChar_not_ws {c : Char} (h : isNameChar c = true) : isWs c = false := by
  rw [isNameChar_iff] at h
  simp only [Names.allowed, Names.isAlnum, Names.isUpper, Names.isLower, Names.isDigit, Names.isSep,
    Bool.and_eq_true, Bool.or_eq_true, decide_eq_true_eq, beq_iff_eq] at h
  cases hw : isWs c with
  | false => rfl
  | true =>
    simp only [isWs, Bool.and_eq_true, Bool.or_eq_true, decide_eq_true_eq, beq_iff_eq] at hw
    omega

theorem alnum_nameChar {c : Char} (h : isAsciiAlnum c = true) : isNameChar c = true := by
  simp [isNameChar, h]

theorem ws_not_nameChar {c : Char} (h : isWs c = true) : isNameChar c = false := by
  cases hn : isNameChar c with
  | false => rfl
  | true => rw [nameChar_not_ws hn] at h; exact absurd h (by decide)

/-! ### cursor helpers -/

theorem eatWhitespace_of_head {c : Cursor} (h : ∀ ch, c.rest.head? = some ch → isWs ch = false) :
    c.eatWhitespace = c := by
  rw [eatWhitespace_eq]
  obtain ⟨input, rest, pos⟩ := c
  cases rest with
  | nil => rfl
  | cons a r =>
    have := h a rfl
    simp [this]

theorem eatWhitespace_rest_eq (c : Cursor) : c.eatWhitespace.rest = c.rest.dropWhile isWs := by
  rw [eatWhitespace_eq]

theorem dropWhile_idem {α} (p : α → Bool) (l : List α) : (l.dropWhile p).dropWhile p = l.dropWhile p := by
  induction l with
  | nil => rfl
  | cons a l ih =>
    by_cases h : p a = true
    · simp [h, ih]
    · simp [h]

/-- the cursor after the leading whitespace `ws` of `ws ++ body` -/
theorem eatWhitespace_new_ws (ws body : List Char) (hws : ∀ ch ∈ ws, isWs ch = true)
    (hb : ∀ ch, body.head? = some ch → isWs ch = false) :
    (Cursor.new (ws ++ body)).eatWhitespace = ⟨ws ++ body, body, strLen ws⟩ := by
  rw [eatWhitespace_eq]
  have hd : body.dropWhile isWs = body := by
    cases body with
    | nil => rfl
    | cons a r => simp [hb a rfl]
  have ht : body.takeWhile isWs = [] := by
    cases body with
    | nil => rfl
    | cons a r => simp [hb a rfl]
  simp only [Cursor.new]
  rw [List.dropWhile_append_of_pos hws, List.takeWhile_append_of_pos hws, hd, ht]
  simp

theorem head_not_ws_of_alnum {name rest : List Char} (hne : name ≠ [])
    (hfirst : ∀ ch, name.head? = some ch → isAsciiAlnum ch = true) :
    ∀ ch, (name ++ rest).head? = some ch → isWs ch = false := by
  intro ch hch
  cases name with
  | nil => exact absurd rfl hne
  | cons a t =>
    simp only [List.cons_append, List.head?_cons, Option.some.injEq] at hch
    subst hch
    exact nameChar_not_ws (alnum_nameChar (hfirst a rfl))

/-! ### shape (c): archive file names -/

/-- the kind stage at the end of the input or at a `;` -/
theorem kindStage_none (env : ProcEnv) (nameStart start : Nat) (c : Cursor)
    (h : ∀ ch, c.rest.head? = some ch → ch = ';') :
    kindStage env nameStart start c = ([], .ok (.none, c)) := by
  unfold kindStage Cursor.peekChar
  cases hr : c.rest.head? with
  | none => rfl
  | some ch => rw [h ch hr]; rfl

/-- (3), general form with leading whitespace `ws`: a name that looks like an archive file name,
followed by an extras list that parses (`parseExtras` succeeds) and then the end of the input or a `;`
(whitespace allowed everywhere) is rejected as an unsupported (unnamed) requirement.  The span is the
empty span at the very start of the input (before the leading whitespace). -/
theorem archive_name_unsupported_extras_lead (env : ProcEnv) (x : Ext) (ws name rest : List Char)
    (hws : ∀ ch ∈ ws, isWs ch = true)
    (hne : name ≠ [])
    (hfirst : ∀ ch, name.head? = some ch → isAsciiAlnum ch = true)
    (hall : ∀ ch ∈ name, isNameChar ch = true)
    (hlast : ∀ ch, name.getLast? = some ch → isAsciiAlnum ch = true)
    (harch : looksLikeArchive name = true)
    (hrest : ∀ ch, rest.head? = some ch → isNameChar ch = false)
    (extras : List (List Nat)) (c2 : Cursor)
    (hex : parseExtras (⟨ws ++ name ++ rest, rest, strLen ws + strLen name⟩ : Cursor).eatWhitespace =
      .ok (extras, c2))
    (hend : ∀ ch, (c2.rest.dropWhile isWs).head? = some ch → ch = ';') :
    (parseRequirement env x (ws ++ name ++ rest)).fin = .err ⟨.unsupported, 0, 0⟩ := by
  rw [parseRequirement_eq]
  have h0 : (Cursor.new (ws ++ name ++ rest)).eatWhitespace = ⟨ws ++ name ++ rest, name ++ rest, strLen ws⟩ := by
    rw [List.append_assoc]
    exact eatWhitespace_new_ws ws (name ++ rest) hws (head_not_ws_of_alnum hne hfirst)
  rw [h0, parseName_accept env ws name rest hne hfirst hall hlast hrest]
  dsimp only
  rw [hex]
  dsimp only
  have i1 : (⟨ws ++ name ++ rest, rest, strLen ws + strLen name⟩ : Cursor).Inv := ⟨ws ++ name, rfl, by simp⟩
  have g := parseExtras_fwd (inv_eatWhitespace i1)
  rw [hex] at g
  have a2 : Adv (⟨ws ++ name ++ rest, rest, strLen ws + strLen name⟩ : Cursor).eatWhitespace c2 := g
  have hin : c2.eatWhitespace.input = ws ++ name ++ rest := by
    rw [eatWhitespace_input, a2.input]; rfl
  rw [kindStage_none env _ _ c2.eatWhitespace (by rw [eatWhitespace_rest_eq]; exact hend)]
  unfold tailStage
  dsimp only
  have hsl : c2.eatWhitespace.slice (strLen ws) (strLen ws + strLen name - strLen ws) = some name := by
    unfold Cursor.slice
    rw [hin, Nat.add_sub_cancel_left]
    exact sliceBytes_append ws name rest
  rw [hsl]
  simp [ReqKind.isNone, harch]

/-- (3), general form without leading whitespace -/
theorem archive_name_unsupported_extras (env : ProcEnv) (x : Ext) (name rest : List Char)
    (hne : name ≠ [])
    (hfirst : ∀ ch, name.head? = some ch → isAsciiAlnum ch = true)
    (hall : ∀ ch ∈ name, isNameChar ch = true)
    (hlast : ∀ ch, name.getLast? = some ch → isAsciiAlnum ch = true)
    (harch : looksLikeArchive name = true)
    (hrest : ∀ ch, rest.head? = some ch → isNameChar ch = false)
    (extras : List (List Nat)) (c2 : Cursor)
    (hex : parseExtras (⟨name ++ rest, rest, strLen name⟩ : Cursor).eatWhitespace = .ok (extras, c2))
    (hend : ∀ ch, (c2.rest.dropWhile isWs).head? = some ch → ch = ';') :
    (parseRequirement env x (name ++ rest)).fin = .err ⟨.unsupported, 0, 0⟩ := by
  have hc : (⟨[] ++ name ++ rest, rest, strLen [] + strLen name⟩ : Cursor) = ⟨name ++ rest, rest, strLen name⟩ := by
    simp [strLen]
  have := archive_name_unsupported_extras_lead env x [] name rest (by simp) hne hfirst hall hlast harch hrest
    extras c2 (by rw [hc]; exact hex) hend
  simpa using this

/-- (3) with leading whitespace `ws`: an archive file name followed by nothing, whitespace, or
(whitespace and) a `;` with anything after it -/
theorem archive_name_unsupported_lead (env : ProcEnv) (x : Ext) (ws name rest : List Char)
    (hws : ∀ ch ∈ ws, isWs ch = true)
    (hne : name ≠ [])
    (hfirst : ∀ ch, name.head? = some ch → isAsciiAlnum ch = true)
    (hall : ∀ ch ∈ name, isNameChar ch = true)
    (hlast : ∀ ch, name.getLast? = some ch → isAsciiAlnum ch = true)
    (harch : looksLikeArchive name = true)
    (hend : ∀ ch, (rest.dropWhile isWs).head? = some ch → ch = ';') :
    (parseRequirement env x (ws ++ name ++ rest)).fin = .err ⟨.unsupported, 0, 0⟩ := by
  have hrest : ∀ ch, rest.head? = some ch → isNameChar ch = false := by
    intro ch hch
    by_cases hw : isWs ch = true
    · exact ws_not_nameChar hw
    · cases rest with
      | nil => simp at hch
      | cons a t =>
        simp only [List.head?_cons, Option.some.injEq] at hch
        subst hch
        have := hend a (by simp [hw])
        subst this
        decide
  have hhead : ∀ ch, (rest.dropWhile isWs).head? = some ch → ch ≠ '[' := by
    intro ch hch h; rw [hend ch hch] at h; exact absurd h (by decide)
  refine archive_name_unsupported_extras_lead env x ws name rest hws hne hfirst hall hlast harch hrest []
    (⟨ws ++ name ++ rest, rest, strLen ws + strLen name⟩ : Cursor).eatWhitespace ?_ ?_
  · unfold parseExtras Cursor.eatChar
    rw [eatWhitespace_rest_eq]
    dsimp only
    cases hr : rest.dropWhile isWs with
    | nil => rfl
    | cons a t =>
      have := hhead a (by rw [hr]; rfl)
      simp [this]
  · rw [eatWhitespace_rest_eq, dropWhile_idem]
    exact hend

/-- (3): an archive file name followed by nothing, whitespace, or (whitespace and) a `;` with anything
after it -/
theorem archive_name_unsupported (env : ProcEnv) (x : Ext) (name rest : List Char)
    (hne : name ≠ [])
    (hfirst : ∀ ch, name.head? = some ch → isAsciiAlnum ch = true)
    (hall : ∀ ch ∈ name, isNameChar ch = true)
    (hlast : ∀ ch, name.getLast? = some ch → isAsciiAlnum ch = true)
    (harch : looksLikeArchive name = true)
    (hend : ∀ ch, (rest.dropWhile isWs).head? = some ch → ch = ';') :
    (parseRequirement env x (name ++ rest)).fin = .err ⟨.unsupported, 0, 0⟩ := by
  have := archive_name_unsupported_lead env x [] name rest (by simp) hne hfirst hall hlast harch hend
  simpa using this

/-! ### `expandEnvVars` -/

theorem matchVar_none_of_ne {c : Char} (s : List Char) (h : c ≠ '$') : matchVar (c :: s) = none := by
  unfold matchVar
  split
  · rename_i heq
    simp only [List.cons.injEq] at heq
    exact absurd heq.1 h
  · rfl

theorem expandEnvVarsF_prefix (env : ProcEnv) (pre s : List Char) (h : '$' ∉ pre) (fuel : Nat) :
    ∃ X, expandEnvVarsF env fuel (pre ++ s) = pre ++ X := by
  induction pre generalizing fuel with
  | nil => exact ⟨_, rfl⟩
  | cons c pre ih =>
    cases fuel with
    | zero => exact ⟨s, rfl⟩
    | succ fuel =>
      have hc : c ≠ '$' := fun e => h (by simp [e])
      obtain ⟨X, hX⟩ := ih (fun e => h (List.mem_cons_of_mem _ e)) fuel
      refine ⟨X, ?_⟩
      simp only [List.cons_append, expandEnvVarsF, matchVar_none_of_ne _ hc, hX]

/-- expansion keeps a `$`-free prefix -/
theorem expandEnvVars_prefix (env : ProcEnv) (pre s : List Char) (h : '$' ∉ pre) :
    ∃ X, expandEnvVars env (pre ++ s) = pre ++ X :=
  expandEnvVarsF_prefix env pre s h _

/-- (1) expansion keeps a first character that is not `$` -/
theorem expandEnvVars_head (env : ProcEnv) (c : Char) (s : List Char) (h : c ≠ '$') :
    (expandEnvVars env (c :: s)).head? = some c := by
  obtain ⟨X, hX⟩ := expandEnvVars_prefix env [c] s (by simpa using h.symm)
  rw [show c :: s = [c] ++ s from rfl, hX]; rfl

/-- (1) expansion is the identity on strings without `$` -/
theorem expandEnvVars_id (env : ProcEnv) (s : List Char) (h : '$' ∉ s) : expandEnvVars env s = s := by
  unfold expandEnvVars
  generalize s.length + 1 = fuel
  induction s generalizing fuel with
  | nil => cases fuel <;> rfl
  | cons c s ih =>
    cases fuel with
    | zero => rfl
    | succ fuel =>
      have hc : c ≠ '$' := fun e => h (by simp [e])
      simp only [expandEnvVarsF, matchVar_none_of_ne _ hc, ih (fun e => h (List.mem_cons_of_mem _ e))]

/-! ### `splitExtras` -/

theorem splitExtras_some {s u e : List Char} (h : splitExtras s = some (u, e)) :
    ∃ a, s = u ++ ('[' :: (a ++ [']'])) ∧ e = '[' :: (a ++ [']']) := by
  unfold splitExtras at h
  split at h
  · rename_i revRest hrev
    dsimp only at h
    rw [span_eq] at h
    split at h
    · rename_i afterBracket more heq
      simp only [Prod.mk.injEq] at heq
      obtain ⟨h1, h2⟩ := heq
      simp only [Option.some.injEq, Prod.mk.injEq] at h
      have hinner := List.takeWhile_append_dropWhile (p := fun c => c != '[')
        (l := revRest.takeWhile (fun c => c != ']'))
      rw [h1, h2] at hinner
      obtain ⟨dropped, hrr⟩ : ∃ dropped, revRest = afterBracket ++ '[' :: more ++ dropped :=
        ⟨_, by rw [hinner, List.takeWhile_append_dropWhile]⟩
      have hs : s = (dropped.reverse ++ more.reverse) ++ ('[' :: (afterBracket.reverse ++ [']'])) := by
        have : s = (s.reverse).reverse := by simp
        rw [this, hrev, hrr]
        simp
      have hn : s.length - (afterBracket.length + 2) = (dropped.reverse ++ more.reverse).length := by
        rw [hs]; simp only [List.length_append, List.length_cons, List.length_reverse, List.length_nil]; omega
      rw [hn] at h
      obtain ⟨hu, he⟩ := h
      rw [hs, List.take_left' rfl] at hu
      rw [hs, List.drop_left' rfl] at he
      exact ⟨afterBracket.reverse, by rw [← hu]; exact hs, he.symm⟩
    · simp at h
  · simp at h

/-- `split_extras` keeps the first char unless the string starts with `[` -/
theorem splitExtras_head {c : Char} {s u e : List Char} (hc : c ≠ '[')
    (h : splitExtras (c :: s) = some (u, e)) : ∃ u', u = c :: u' := by
  obtain ⟨a, hs, _⟩ := splitExtras_some h
  cases u with
  | nil => simp only [List.nil_append, List.cons.injEq] at hs; exact absurd hs.1 hc
  | cons d u' => simp only [List.cons_append, List.cons.injEq] at hs; exact ⟨u', by rw [hs.1]⟩

theorem splitExtras_none_of_last {s : List Char} (h : s.getLast? ≠ some ']') : splitExtras s = none := by
  unfold splitExtras
  split
  · rename_i revRest hrev
    have : s.getLast? = some ']' := by
      rw [List.getLast?_eq_head?_reverse, hrev]; rfl
    exact absurd this h
  · rfl

/-! ### `splitScheme` -/

/-- the chars `split_scheme` trims from both ends -/
def schemeCtl (c : Char) : Bool := c.toNat ≤ 32

/-- the chars of a URL scheme -/
def schemeOk (c : Char) : Bool := (c.toNat < 128 && c.isAlphanum) || c == '+' || c == '-' || c == '.'

def isAsciiAlpha (c : Char) : Bool := c.toNat < 128 && c.isAlpha

theorem asciiAlpha_iff (c : Char) :
    isAsciiAlpha c = (decide (c.toNat < 128) && (Names.isUpper c.toNat || Names.isLower c.toNat)) := by
  have hv : c.val.toNat = c.toNat := rfl
  simp only [isAsciiAlpha, Char.isAlpha, Char.isUpper, Char.isLower,
    Names.isUpper, Names.isLower, ge_iff_le, UInt32.le_iff_toNat_le, hv,
    show 'A'.val.toNat = 65 from rfl, show 'Z'.val.toNat = 90 from rfl, show 'a'.val.toNat = 97 from rfl,
    show 'z'.val.toNat = 122 from rfl, Bool.decide_and]

theorem asciiAlpha_alnum {c : Char} (h : isAsciiAlpha c = true) : isAsciiAlnum c = true := by
  rw [asciiAlpha_iff] at h
  rw [isAsciiAlnum_iff]
  simp only [Names.isAlnum, Bool.and_eq_true, Bool.or_eq_true] at h ⊢
  exact ⟨h.1, .inl h.2⟩

theorem asciiAlpha_not_ctl {c : Char} (h : isAsciiAlpha c = true) : schemeCtl c = false := by
  rw [asciiAlpha_iff] at h
  simp only [Names.isUpper, Names.isLower, Bool.and_eq_true, Bool.or_eq_true, decide_eq_true_eq] at h
  simp only [schemeCtl, decide_eq_false_iff_not]
  omega

theorem schemeOk_cases {c : Char} (h : schemeOk c = true) :
    isAsciiAlnum c = true ∨ c = '+' ∨ c = '-' ∨ c = '.' := by
  simp only [schemeOk, Bool.or_eq_true, beq_iff_eq] at h
  rcases h with ((h | h) | h) | h
  · exact .inl h
  · exact .inr (.inl h)
  · exact .inr (.inr (.inl h))
  · exact .inr (.inr (.inr h))

theorem alnum_schemeOk {c : Char} (h : isAsciiAlnum c = true) : schemeOk c = true := by
  unfold isAsciiAlnum at h
  simp [schemeOk, h]

theorem dropWhile_append_stop {α} {p : α → Bool} {x : α} (hx : p x = false) (l m : List α) :
    (l ++ x :: m).dropWhile p = l.dropWhile p ++ x :: m := by
  induction l with
  | nil => simp [hx]
  | cons a l ih =>
    by_cases h : p a = true
    · simp [h, ih]
    · simp [h]

theorem splitScheme_unfold (s : List Char) :
    splitScheme s =
      match ((s.dropWhile schemeCtl).reverse.dropWhile schemeCtl).reverse with
      | [] => none
      | c :: t =>
        if !(isAsciiAlpha c) then none
        else
          match (c :: t).dropWhile schemeOk with
          | ':' :: rest => some ((c :: t).takeWhile schemeOk, rest)
          | _ => none := by
  unfold splitScheme
  dsimp only
  have : (fun c : Char => decide (c.toNat ≤ 32)) = schemeCtl := rfl
  rw [this]
  generalize (List.dropWhile schemeCtl (List.dropWhile schemeCtl s).reverse).reverse = t
  cases t with
  | nil => rfl
  | cons c tl => rfl

/-- (1) `split_scheme` on `scheme:rest`: the scheme is split off; `rest` loses its trailing chars
`≤ ' '` (the Rust code trims the whole string first) -/
theorem splitScheme_spec (scheme rest : List Char) (hne : scheme ≠ [])
    (hfirst : ∀ c, scheme.head? = some c → isAsciiAlpha c = true)
    (hall : ∀ c ∈ scheme, schemeOk c = true) :
    splitScheme (scheme ++ ':' :: rest) = some (scheme, (rest.reverse.dropWhile schemeCtl).reverse) := by
  rw [splitScheme_unfold]
  cases scheme with
  | nil => exact absurd rfl hne
  | cons c sc =>
    have hc := hfirst c rfl
    have h1 : ((c :: sc) ++ ':' :: rest).dropWhile schemeCtl = (c :: sc) ++ ':' :: rest := by
      simp [asciiAlpha_not_ctl hc]
    have h2 : ((c :: sc) ++ ':' :: rest).reverse = rest.reverse ++ ':' :: (c :: sc).reverse := by simp
    rw [h1, h2, dropWhile_append_stop (by decide)]
    simp only [List.reverse_append, List.reverse_cons, List.reverse_reverse, List.append_assoc,
      List.cons_append, List.nil_append, List.reverse_nil]
    simp only [hc, Bool.not_true, Bool.false_eq_true, if_false]
    have h3 : c :: (sc ++ ':' :: (rest.reverse.dropWhile schemeCtl).reverse) =
        (c :: sc) ++ ':' :: (rest.reverse.dropWhile schemeCtl).reverse := rfl
    rw [h3, List.dropWhile_append_of_pos hall, List.takeWhile_append_of_pos hall]
    simp [show schemeOk ':' = false by decide]

/-- (1) with no trailing control char / space: the split is exact -/
theorem splitScheme_spec_exact (scheme rest : List Char) (hne : scheme ≠ [])
    (hfirst : ∀ c, scheme.head? = some c → isAsciiAlpha c = true)
    (hall : ∀ c ∈ scheme, schemeOk c = true)
    (hlast : ∀ c, rest.getLast? = some c → schemeCtl c = false) :
    splitScheme (scheme ++ ':' :: rest) = some (scheme, rest) := by
  rw [splitScheme_spec scheme rest hne hfirst hall]
  have : rest.reverse.dropWhile schemeCtl = rest.reverse := by
    cases hr : rest.reverse with
    | nil => rfl
    | cons a t =>
      have := hlast a (by rw [List.getLast?_eq_head?_reverse, hr]; rfl)
      simp [this]
  rw [this, List.reverse_reverse]

/-! ### `looks_like_unnamed_requirement` on the whole input -/

/-- the first whitespace-free token of the input -/
def token (s : List Char) : List Char := s.takeWhile (fun ch => !isWs ch)

/-- the verdict of `looks_like_unnamed_requirement` on the token it is given -/
def unnamedVerdict (env : ProcEnv) (url : List Char) : Bool :=
  let expanded := expandEnvVars env url
  let u := match splitExtras expanded with
    | some (u, _) => u
    | none => expanded
  match u with
  | [] => false
  | first :: _ =>
    first == '\\' || first == '/' || first == '.' ||
    (splitScheme u).isSome || u.contains '/' || u.contains '\\' || looksLikeArchive u

/-- `looks_like_unnamed_requirement` on a clone positioned after `pre`: the verdict on the first
whitespace-free token of what follows, and the byte position of the end of that token -/
theorem looksLikeUnnamed_at (env : ProcEnv) (pre body : List Char) :
    looksLikeUnnamed env ⟨pre ++ body, body, strLen pre⟩ =
      .ok (unnamedVerdict env (token body), strLen pre + strLen (token body)) := by
  unfold looksLikeUnnamed Cursor.takeWhile
  rw [skipWhile_eq]
  dsimp only
  have hsl : (⟨pre ++ body, body.dropWhile (fun ch => !isWs ch),
      strLen pre + strLen (body.takeWhile (fun ch => !isWs ch))⟩ : Cursor).slice (strLen pre)
      (strLen pre + strLen (body.takeWhile (fun ch => !isWs ch)) - strLen pre) = some (token body) := by
    unfold Cursor.slice token
    rw [Nat.add_sub_cancel_left]
    have h := sliceBytes_append pre (body.takeWhile (fun ch => !isWs ch)) (body.dropWhile (fun ch => !isWs ch))
    rw [List.append_assoc, List.takeWhile_append_dropWhile] at h
    exact h
  rw [hsl]
  simp only [Res.ofSlice]
  rfl

theorem looksLikeUnnamed_start (env : ProcEnv) (input : List Char) :
    looksLikeUnnamed env ⟨input, input, 0⟩ =
      .ok (unnamedVerdict env (token input), strLen (token input)) := by
  have := looksLikeUnnamed_at env [] input
  simpa [strLen] using this

/-- `unnamedOr` with the clone positioned after `pre` (`c.input = pre ++ body`): the verdict on the
first token of `body` decides; the reported span runs from `start` to the end of that token -/
theorem unnamedOr_at (env : ProcEnv) (c : Cursor) (pre body : List Char) (hin : c.input = pre ++ body)
    (start : Nat) (other : PErr) :
    unnamedOr env c (strLen pre) start other =
      .ok (if unnamedVerdict env (token body) then
        ⟨.unsupported, start, strLen pre + strLen (token body) - start⟩ else other) := by
  unfold unnamedOr Cursor.at_
  rw [hin, dropBytes_append]
  simp only [Option.map_some]
  rw [looksLikeUnnamed_at]
  cases unnamedVerdict env (token body) <;> rfl

/-- `unnamedOr` for `at = start = 0` (what the requirement parser without leading whitespace uses) -/
theorem unnamedOr_zero (env : ProcEnv) (c : Cursor) (other : PErr) :
    unnamedOr env c 0 0 other =
      .ok (if unnamedVerdict env (token c.input) then ⟨.unsupported, 0, strLen (token c.input)⟩ else other) := by
  have := unnamedOr_at env c [] c.input rfl 0 other
  simpa [strLen] using this

/-- `invalidName` (the F18 path of `parse_name`) when the name started after `pre` -/
theorem invalidName_at (env : ProcEnv) (c : Cursor) (pre body : List Char) (hin : c.input = pre ++ body) :
    invalidName env c (strLen pre) =
      .err (if unnamedVerdict env (token body) then ⟨.unsupported, strLen pre, strLen (token body)⟩
        else ⟨.string, strLen pre, c.pos - strLen pre⟩) := by
  unfold invalidName
  rw [unnamedOr_at env c pre body hin, Nat.add_sub_cancel_left]

/-! ### `parse_name` on a run of name chars that is followed by some other char -/

/-- the loop of `parse_name` consumes the remaining name chars `tl`, stops at `r0`, and then either
returns the validated name or goes through `invalidName` -/
theorem parseNameLoop_run (env : ProcEnv) (fuel : Nat) (input tl : List Char) (r0 : Char) (r : List Char)
    (pos : Nat) (acc : List Char) (start : Nat)
    (hall : ∀ ch ∈ tl, isNameChar ch = true) (hr0 : isNameChar r0 = false) (hf : tl.length < fuel) :
    parseNameLoop env fuel ⟨input, tl ++ r0 :: r, pos⟩ acc start =
      match Names.validateOwned (bytesOfChars (acc ++ tl)) with
      | some n => .ok (n, ⟨input, r0 :: r, pos + strLen tl⟩)
      | none => invalidName env ⟨input, r0 :: r, pos + strLen tl⟩ start := by
  induction fuel generalizing tl pos acc with
  | zero => omega
  | succ fuel ih =>
    unfold parseNameLoop
    cases tl with
    | nil =>
      simp only [List.nil_append, List.append_nil, Cursor.peek, hr0, Bool.false_eq_true, if_false]
      simp only [strLen, List.map_nil, List.sum_nil, Nat.add_zero]
      cases Names.validateOwned (bytesOfChars acc) <;> rfl
    | cons ch tl' =>
      have hnc : isNameChar ch = true := hall ch (List.mem_cons_self)
      have hp : (⟨input, ch :: (tl' ++ r0 :: r), pos⟩ : Cursor).peek = some (pos, ch) := rfl
      have hn : (⟨input, ch :: (tl' ++ r0 :: r), pos⟩ : Cursor).next =
          some ((pos, ch), ⟨input, tl' ++ r0 :: r, pos + utf8Len ch⟩) := rfl
      simp only [List.cons_append, hp, hn, hnc, if_true]
      have hcond : ((⟨input, tl' ++ r0 :: r, pos + utf8Len ch⟩ : Cursor).peek.isNone
          && (ch == '.' || ch == '-' || ch == '_')) = false := by
        cases hr : tl' ++ r0 :: r with
        | cons a b => simp [Cursor.peek]
        | nil => simp at hr
      simp only [hcond, Bool.false_eq_true, if_false]
      rw [ih tl' (pos + utf8Len ch) (acc ++ [ch])
        (fun c hc => hall c (List.mem_cons_of_mem _ hc)) (by simp only [List.length_cons] at hf; omega)]
      simp only [List.append_assoc, List.cons_append, List.nil_append, strLen_cons, Nat.add_assoc]

/-- `parse_name` on `pre ++ name ++ r0 :: r` positioned after `pre`, where `name` is a non-empty run of
name chars starting with an ASCII alphanumeric and `r0` is not a name char.  No hypothesis on the last
char of `name`: the outcome is decided by the name validation. -/
theorem parseName_run (env : ProcEnv) (pre name : List Char) (r0 : Char) (r : List Char)
    (hne : name ≠ [])
    (hfirst : ∀ ch, name.head? = some ch → isAsciiAlnum ch = true)
    (hall : ∀ ch ∈ name, isNameChar ch = true)
    (hr0 : isNameChar r0 = false) :
    parseName env ⟨pre ++ name ++ r0 :: r, name ++ r0 :: r, strLen pre⟩ =
      match Names.validateOwned (bytesOfChars name) with
      | some n => .ok (n, ⟨pre ++ name ++ r0 :: r, r0 :: r, strLen pre + strLen name⟩)
      | none => invalidName env ⟨pre ++ name ++ r0 :: r, r0 :: r, strLen pre + strLen name⟩ (strLen pre) := by
  cases name with
  | nil => exact absurd rfl hne
  | cons ch tl =>
    have h0 := hfirst ch rfl
    unfold parseName
    simp only [List.cons_append, Cursor.next, h0, if_true]
    rw [parseNameLoop_run env _ _ tl r0 r _ [ch] _ (fun c hc => hall c (List.mem_cons_of_mem _ hc)) hr0
      (by simp only [List.length_append, List.length_cons]; omega)]
    simp only [List.cons_append, List.nil_append, strLen_cons, Nat.add_assoc]

/-- under the char-level hypotheses on the first char and on all chars, a name whose last char is not
an ASCII alphanumeric (i.e. is `.`, `-` or `_`) does not validate -/
theorem name_invalid_of_last (name : List Char)
    (hall : ∀ ch ∈ name, isNameChar ch = true)
    (hlast : ∃ ch, name.getLast? = some ch ∧ isAsciiAlnum ch = false) :
    Names.validateOwned (bytesOfChars name) = none := by
  have hascii : ∀ c ∈ name, c.toNat < 128 := by
    intro c hc
    have := hall c hc
    rw [isNameChar_iff] at this
    simp only [Bool.and_eq_true, decide_eq_true_eq] at this
    exact this.1
  rw [bytesOfChars_ascii name hascii, Names.validateOwned_eq_validateRef]
  cases hr : Names.validateRef (name.map Char.toNat) with
  | none => rfl
  | some v =>
    exfalso
    have hvalid := (Names.validateRef_isSome_iff _).1 (by rw [hr]; rfl)
    obtain ⟨ch, hch, hal⟩ := hlast
    have h4 := hvalid.2.2.2 ch.toNat (by rw [List.getLast?_map, hch]; rfl)
    have hlt := hascii ch (List.mem_of_getLast? hch)
    rw [isAsciiAlnum_iff] at hal
    simp [hlt, h4] at hal

theorem token_cons {c : Char} (s : List Char) (h : isWs c = false) : token (c :: s) = c :: token s := by
  simp [token, h]

theorem token_append {p : List Char} (s : List Char) (h : ∀ c ∈ p, isWs c = false) :
    token (p ++ s) = p ++ token s := by
  unfold token
  rw [List.takeWhile_append_of_pos]
  intro a ha
  simp [h a ha]

/-! ### shape (a): paths -/

def isPathStart (c : Char) : Bool := c == '/' || c == '\\' || c == '.'

theorem pathStart_cases {c : Char} (h : isPathStart c = true) : c = '/' ∨ c = '\\' ∨ c = '.' := by
  simpa [isPathStart, or_assoc] using h

/-- the verdict is `true` whenever the token starts with `/`, `\` or `.` (the env-var expansion and
the extras split both keep that first char) -/
theorem unnamedVerdict_pathStart (env : ProcEnv) (c : Char) (t : List Char) (hc : isPathStart c = true) :
    unnamedVerdict env (c :: t) = true := by
  have hd : c ≠ '$' := by rcases pathStart_cases hc with rfl | rfl | rfl <;> decide
  have hb : c ≠ '[' := by rcases pathStart_cases hc with rfl | rfl | rfl <;> decide
  obtain ⟨X, hX⟩ := expandEnvVars_prefix env [c] t (by simpa using hd.symm)
  have hX' : expandEnvVars env (c :: t) = c :: X := hX
  unfold unnamedVerdict
  rw [hX']
  dsimp only
  have hfirst : (c == '\\' || c == '/' || c == '.') = true := by
    rcases pathStart_cases hc with rfl | rfl | rfl <;> decide
  cases hse : splitExtras (c :: X) with
  | none => simp only [hfirst, Bool.true_or]
  | some v =>
    obtain ⟨u, e⟩ := v
    obtain ⟨u', rfl⟩ := splitExtras_head hb hse
    simp only [hfirst, Bool.true_or]

/-- (2) with leading whitespace `ws`: an input whose first non-whitespace char is `/`, `\` or `.` is
rejected as an unsupported (unnamed) requirement.  The error is raised by `parse_name` itself, whose
`start` is the position *after* the leading whitespace: the span is exactly the first whitespace-free
token (it does not include the leading whitespace). -/
theorem path_unsupported_lead (env : ProcEnv) (x : Ext) (ws : List Char) (c : Char) (s : List Char)
    (hws : ∀ ch ∈ ws, isWs ch = true) (hc : isPathStart c = true) :
    (parseRequirement env x (ws ++ c :: s)).fin =
      .err ⟨.unsupported, strLen ws, strLen (token (c :: s))⟩ := by
  have hcws : isWs c = false := by rcases pathStart_cases hc with rfl | rfl | rfl <;> decide
  have hal : isAsciiAlnum c = false := by rcases pathStart_cases hc with rfl | rfl | rfl <;> decide
  rw [parseRequirement_eq]
  have h0 : (Cursor.new (ws ++ c :: s)).eatWhitespace = ⟨ws ++ c :: s, c :: s, strLen ws⟩ := by
    refine eatWhitespace_new_ws ws (c :: s) hws ?_
    intro ch hch
    simp only [List.head?_cons, Option.some.injEq] at hch
    subst hch; exact hcws
  rw [h0]
  unfold parseName
  simp only [Cursor.next, hal, Bool.false_eq_true, if_false]
  rw [unnamedOr_at env _ ws (c :: s) rfl, Nat.add_sub_cancel_left]
  dsimp only
  rw [token_cons s hcws, unnamedVerdict_pathStart env c (token s) hc]
  simp

/-- (2) an input starting with `/`, `\` or `.` is rejected as an unsupported (unnamed) requirement;
the span is the first whitespace-free token -/
theorem path_unsupported (env : ProcEnv) (x : Ext) (c : Char) (s : List Char)
    (hc : isPathStart c = true) :
    (parseRequirement env x (c :: s)).fin = .err ⟨.unsupported, 0, strLen (token (c :: s))⟩ := by
  have := path_unsupported_lead env x [] c s (by simp) hc
  simpa [strLen] using this

/-! ### shape (b): scheme URLs -/

theorem append_prefix_of_not_mem {α} {P X u a : List α} {b : α} (h : P ++ X = u ++ b :: a) (hb : b ∉ P) :
    ∃ Y, u = P ++ Y := by
  rcases List.append_eq_append_iff.1 h with ⟨a', h1, _⟩ | ⟨c', h1, h2⟩
  · exact ⟨a', h1⟩
  · cases c' with
    | nil => exact ⟨[], by simpa using h1.symm⟩
    | cons d c'' =>
      simp only [List.cons_append, List.cons.injEq] at h2
      exact absurd (by rw [h1, h2.1]; simp) hb

theorem schemeOk_ne {c d : Char} (h : schemeOk c = true) (hd : schemeOk d = false) : d ≠ c := by
  rintro rfl; rw [h] at hd; exact absurd hd (by decide)

theorem schemeOk_not_ws {c : Char} (h : schemeOk c = true) : isWs c = false := by
  rcases schemeOk_cases h with h | rfl | rfl | rfl
  · exact nameChar_not_ws (alnum_nameChar h)
  · decide
  · decide
  · decide

/-- the verdict is `true` whenever the token is `scheme:…` (whatever the env-var expansion and the
extras split do to the part after the colon) -/
theorem unnamedVerdict_scheme (env : ProcEnv) (scheme t : List Char) (hne : scheme ≠ [])
    (hfirst : ∀ c, scheme.head? = some c → isAsciiAlpha c = true)
    (hall : ∀ c ∈ scheme, schemeOk c = true) :
    unnamedVerdict env (scheme ++ ':' :: t) = true := by
  have hmem : ∀ d, schemeOk d = false → d ≠ ':' → d ∉ scheme ++ [':'] := by
    intro d hd hcol hm
    simp only [List.mem_append, List.mem_singleton] at hm
    rcases hm with hm | hm
    · exact schemeOk_ne (hall d hm) hd rfl
    · exact hcol hm
  obtain ⟨X, hX⟩ := expandEnvVars_prefix env (scheme ++ [':']) t (hmem '$' (by decide) (by decide))
  have hX' : expandEnvVars env (scheme ++ ':' :: t) = scheme ++ ':' :: X := by
    simpa using hX
  have key : ∀ Y, (match scheme ++ ':' :: Y with
      | [] => false
      | first :: _ =>
        first == '\\' || first == '/' || first == '.' ||
        (splitScheme (scheme ++ ':' :: Y)).isSome || (scheme ++ ':' :: Y).contains '/' ||
        (scheme ++ ':' :: Y).contains '\\' || looksLikeArchive (scheme ++ ':' :: Y)) = true := by
    intro Y
    have hs := splitScheme_spec scheme Y hne hfirst hall
    cases scheme with
    | nil => exact absurd rfl hne
    | cons c sc =>
      simp only [List.cons_append] at hs ⊢
      simp only [hs, Option.isSome_some, Bool.or_true, Bool.true_or]
  unfold unnamedVerdict
  rw [hX']
  dsimp only
  cases hse : splitExtras (scheme ++ ':' :: X) with
  | none => exact key X
  | some v =>
    obtain ⟨u, e⟩ := v
    obtain ⟨a, hs, _⟩ := splitExtras_some hse
    obtain ⟨Y, rfl⟩ := append_prefix_of_not_mem (P := scheme ++ [':']) (X := X) (by simpa using hs)
      (hmem '[' (by decide) (by decide))
    have e : scheme ++ [':'] ++ Y = scheme ++ ':' :: Y := by simp
    rw [e]
    exact key Y

/-! ### the kind stage on a char that does not start a requirement kind -/

/-- the chars on which the kind stage does not consult `looks_like_unnamed_requirement` -/
def isKindStart (c : Char) : Bool :=
  c == '@' || c == '(' || c == ';' || c == '<' || c == '=' || c == '>' || c == '~' || c == '!'

/-- the kind stage on a char other than `@ ( ; < = > ~ !`, when the name started after `pre`
(`c.input = pre ++ body`): the unnamed-requirement check on the first token of `body` decides the
error; the span runs from `start` to the end of that token -/
theorem kindStage_unnamed_at (env : ProcEnv) (c : Cursor) (pre body : List Char) (hin : c.input = pre ++ body)
    (start : Nat) (r0 : Char) (r : List Char) (hr : c.rest = r0 :: r) (h0 : isKindStart r0 = false) :
    kindStage env (strLen pre) start c = ([], .err (if unnamedVerdict env (token body) then
      ⟨.unsupported, start, strLen pre + strLen (token body) - start⟩ else ⟨.string, c.pos, utf8Len r0⟩)) := by
  simp only [isKindStart, Bool.or_eq_false_iff, beq_eq_false_iff_ne, ne_eq] at h0
  obtain ⟨⟨⟨⟨⟨⟨⟨k1, k2⟩, k3⟩, k4⟩, k5⟩, k6⟩, k7⟩, k8⟩ := h0
  unfold kindStage Cursor.peekChar
  rw [hr]
  simp only [List.head?_cons]
  split
  · rename_i h
    simp [k4, k5, k6, k7, k8] at h
  · rw [unnamedOr_at env c pre body hin]

theorem kindStage_unnamed (env : ProcEnv) (c : Cursor) (r0 : Char) (r : List Char) (hr : c.rest = r0 :: r)
    (h0 : isKindStart r0 = false) :
    kindStage env 0 0 c = ([], .err (if unnamedVerdict env (token c.input) then
      ⟨.unsupported, 0, strLen (token c.input)⟩ else ⟨.string, c.pos, utf8Len r0⟩)) := by
  have := kindStage_unnamed_at env c [] c.input rfl 0 r0 r hr h0
  simpa [strLen] using this

/-- the kind stage on a `+` or `:` (not one of `@ ( < = > ~ ! ;`): the unnamed-requirement check on
the whole input decides the error -/
theorem kindStage_other (env : ProcEnv) (c : Cursor) (r0 : Char) (r : List Char) (hr : c.rest = r0 :: r)
    (h0 : r0 = '+' ∨ r0 = ':') :
    kindStage env 0 0 c = ([], .err (if unnamedVerdict env (token c.input) then
      ⟨.unsupported, 0, strLen (token c.input)⟩ else ⟨.string, c.pos, utf8Len r0⟩)) :=
  kindStage_unnamed env c r0 r hr (by rcases h0 with rfl | rfl <;> decide)

/-! ### the common core: a name-like run, then a char that starts neither a name char, an extras list
nor a requirement kind, and a first token that `looks_like_unnamed_requirement` accepts -/

/-- The error reported for `ws ++ body` (`ws` leading whitespace) when `body` starts with the name-like
run `name` and its first token looks like a URL / path:
* if `name` validates, `parse_name` succeeds and the kind stage reports the span from the very start of
  the input (before `ws`) to the end of the token;
* if `name` does not validate (it ends in `.`, `-` or `_`), `parse_name` itself reports (F18) the span
  from the start of the name (after `ws`) to the end of the token.
Both spans end at the same byte; they differ in whether the leading whitespace is included. -/
def nameSpan (ws name body : List Char) : PErr :=
  match Names.validateOwned (bytesOfChars name) with
  | some _ => ⟨.unsupported, 0, strLen ws + strLen (token body)⟩
  | none => ⟨.unsupported, strLen ws, strLen (token body)⟩

theorem nameSpan_kind (ws name body : List Char) : (nameSpan ws name body).kind = .unsupported := by
  unfold nameSpan; cases Names.validateOwned (bytesOfChars name) <;> rfl

/-- both variants end at the end of the token -/
theorem nameSpan_end (ws name body : List Char) :
    (nameSpan ws name body).start + (nameSpan ws name body).len = strLen ws + strLen (token body) := by
  unfold nameSpan; cases Names.validateOwned (bytesOfChars name) <;> simp

theorem nameSpan_start (ws name body : List Char) :
    (nameSpan ws name body).start = 0 ∨ (nameSpan ws name body).start = strLen ws := by
  unfold nameSpan; cases Names.validateOwned (bytesOfChars name)
  · exact .inr rfl
  · exact .inl rfl

/-- without leading whitespace the two variants coincide -/
theorem nameSpan_nil (name body : List Char) :
    nameSpan [] name body = ⟨.unsupported, 0, strLen (token body)⟩ := by
  unfold nameSpan; cases Names.validateOwned (bytesOfChars name) <;> simp [strLen]

theorem nameSpan_valid (ws name body : List Char) (hne : name ≠ [])
    (hfirst : ∀ ch, name.head? = some ch → isAsciiAlnum ch = true)
    (hall : ∀ ch ∈ name, isNameChar ch = true)
    (hlast : ∀ ch, name.getLast? = some ch → isAsciiAlnum ch = true) :
    nameSpan ws name body = ⟨.unsupported, 0, strLen ws + strLen (token body)⟩ := by
  unfold nameSpan; rw [(name_validates name hne hfirst hall hlast).2]

theorem nameSpan_invalid (ws name body : List Char)
    (hall : ∀ ch ∈ name, isNameChar ch = true)
    (hlast : ∃ ch, name.getLast? = some ch ∧ isAsciiAlnum ch = false) :
    nameSpan ws name body = ⟨.unsupported, strLen ws, strLen (token body)⟩ := by
  unfold nameSpan; rw [name_invalid_of_last name hall hlast]

/-- invalid name (F18): the error comes out of `parse_name`; nothing is required of the char after the
name except that it is not a name char -/
theorem unnamed_invalid_name (env : ProcEnv) (x : Ext) (ws name : List Char) (r0 : Char) (r : List Char)
    (hws : ∀ ch ∈ ws, isWs ch = true)
    (hne : name ≠ [])
    (hfirst : ∀ ch, name.head? = some ch → isAsciiAlnum ch = true)
    (hall : ∀ ch ∈ name, isNameChar ch = true)
    (hr0nc : isNameChar r0 = false)
    (hv : Names.validateOwned (bytesOfChars name) = none)
    (hverdict : unnamedVerdict env (token (name ++ r0 :: r)) = true) :
    (parseRequirement env x (ws ++ name ++ r0 :: r)).fin =
      .err ⟨.unsupported, strLen ws, strLen (token (name ++ r0 :: r))⟩ := by
  rw [parseRequirement_eq]
  have h0 : (Cursor.new (ws ++ name ++ r0 :: r)).eatWhitespace =
      ⟨ws ++ name ++ r0 :: r, name ++ r0 :: r, strLen ws⟩ := by
    rw [List.append_assoc]
    exact eatWhitespace_new_ws ws (name ++ r0 :: r) hws (head_not_ws_of_alnum hne hfirst)
  rw [h0, parseName_run env ws name r0 r hne hfirst hall hr0nc, hv]
  dsimp only
  rw [invalidName_at env _ ws (name ++ r0 :: r) (by simp), hverdict]
  rfl

/-- valid name: `parse_name` succeeds, there is no extras list, and the kind stage (F19) reports the
error; the span starts at the very beginning of the input -/
theorem unnamed_valid_name (env : ProcEnv) (x : Ext) (ws name : List Char) (r0 : Char) (r : List Char)
    (hws : ∀ ch ∈ ws, isWs ch = true)
    (hne : name ≠ [])
    (hfirst : ∀ ch, name.head? = some ch → isAsciiAlnum ch = true)
    (hall : ∀ ch ∈ name, isNameChar ch = true)
    (hr0ws : isWs r0 = false) (hr0nc : isNameChar r0 = false) (hr0br : (r0 == '[') = false)
    (hr0k : isKindStart r0 = false)
    (n : List Nat) (hv : Names.validateOwned (bytesOfChars name) = some n)
    (hverdict : unnamedVerdict env (token (name ++ r0 :: r)) = true) :
    (parseRequirement env x (ws ++ name ++ r0 :: r)).fin =
      .err ⟨.unsupported, 0, strLen ws + strLen (token (name ++ r0 :: r))⟩ := by
  rw [parseRequirement_eq]
  have h0 : (Cursor.new (ws ++ name ++ r0 :: r)).eatWhitespace =
      ⟨ws ++ name ++ r0 :: r, name ++ r0 :: r, strLen ws⟩ := by
    rw [List.append_assoc]
    exact eatWhitespace_new_ws ws (name ++ r0 :: r) hws (head_not_ws_of_alnum hne hfirst)
  rw [h0, parseName_run env ws name r0 r hne hfirst hall hr0nc, hv]
  dsimp only
  have hew : (⟨ws ++ name ++ r0 :: r, r0 :: r, strLen ws + strLen name⟩ : Cursor).eatWhitespace =
      ⟨ws ++ name ++ r0 :: r, r0 :: r, strLen ws + strLen name⟩ := by
    rw [eatWhitespace_of_head]
    intro ch hch
    simp only [List.head?_cons, Option.some.injEq] at hch
    subst hch; exact hr0ws
  have hpe : parseExtras (⟨ws ++ name ++ r0 :: r, r0 :: r, strLen ws + strLen name⟩ : Cursor) =
      .ok ([], ⟨ws ++ name ++ r0 :: r, r0 :: r, strLen ws + strLen name⟩) := by
    unfold parseExtras Cursor.eatChar
    simp [hr0br]
  rw [hew, hpe]
  dsimp only
  rw [hew, kindStage_unnamed_at env _ ws (name ++ r0 :: r) (by simp) 0 r0 r rfl hr0k]
  dsimp only
  rw [hverdict]
  rfl

/-- the two cases together -/
theorem unnamed_after_name (env : ProcEnv) (x : Ext) (ws name : List Char) (r0 : Char) (r : List Char)
    (hws : ∀ ch ∈ ws, isWs ch = true)
    (hne : name ≠ [])
    (hfirst : ∀ ch, name.head? = some ch → isAsciiAlnum ch = true)
    (hall : ∀ ch ∈ name, isNameChar ch = true)
    (hr0ws : isWs r0 = false) (hr0nc : isNameChar r0 = false) (hr0br : (r0 == '[') = false)
    (hr0k : isKindStart r0 = false)
    (hverdict : unnamedVerdict env (token (name ++ r0 :: r)) = true) :
    (parseRequirement env x (ws ++ name ++ r0 :: r)).fin = .err (nameSpan ws name (name ++ r0 :: r)) := by
  unfold nameSpan
  cases hv : Names.validateOwned (bytesOfChars name) with
  | none => exact unnamed_invalid_name env x ws name r0 r hws hne hfirst hall hr0nc hv hverdict
  | some n =>
    exact unnamed_valid_name env x ws name r0 r hws hne hfirst hall hr0ws hr0nc hr0br hr0k n hv hverdict

/-! ### shape (b): scheme URLs, the theorems -/

theorem scheme_nameChar {name : List Char} (hall : ∀ ch ∈ name, isAsciiAlnum ch = true ∨ ch = '.' ∨ ch = '-') :
    ∀ ch ∈ name, isNameChar ch = true := by
  intro ch hm
  rcases hall ch hm with h | rfl | rfl
  · exact alnum_nameChar h
  · decide
  · decide

/-- the verdict on the token of `name ++ more ++ ':' :: tail` -/
theorem unnamedVerdict_scheme_token (env : ProcEnv) (name more tail : List Char)
    (hne : name ≠ [])
    (hfirst : ∀ ch, name.head? = some ch → isAsciiAlpha ch = true)
    (hall : ∀ ch ∈ name, isAsciiAlnum ch = true ∨ ch = '.' ∨ ch = '-')
    (hmore : ∀ ch ∈ more, schemeOk ch = true) :
    unnamedVerdict env (token (name ++ more ++ ':' :: tail)) = true := by
  have hok : ∀ ch ∈ name ++ more, schemeOk ch = true := by
    intro ch hm
    rcases List.mem_append.1 hm with hm | hm
    · rcases hall ch hm with h | rfl | rfl
      · exact alnum_schemeOk h
      · decide
      · decide
    · exact hmore ch hm
  have : name ++ more ++ ':' :: tail = (name ++ more ++ [':']) ++ tail := by simp
  rw [this, token_append]
  · have e : name ++ more ++ [':'] ++ token tail = (name ++ more) ++ ':' :: token tail := by simp
    rw [e]
    refine unnamedVerdict_scheme env (name ++ more) (token tail) (by simp [hne]) ?_ hok
    intro c hc
    cases name with
    | nil => exact absurd rfl hne
    | cons a t =>
      simp only [List.cons_append, List.head?_cons, Option.some.injEq] at hc
      subst hc; exact hfirst a rfl
  · intro c hc
    simp only [List.mem_append, List.mem_singleton] at hc
    rcases hc with hc | rfl
    · exact schemeOk_not_ws (hok c (List.mem_append.2 hc))
    · decide

/-- (4), most general form.  The input is `ws ++ name ++ more ++ ':' :: tail`: leading whitespace
`ws`; `name` is the run of name chars `parse_name` consumes (an ASCII letter first, then letters,
digits, `.`, `-`; NO condition on its last char); `more` is empty or starts with `+` (as in
`git+https`) and consists of scheme chars.  No hypothesis on `tail`.  The requirement is rejected as
unsupported, with the span `nameSpan`: from 0 if `name` validates, from the start of the name if it
does not (e.g. `a-://h`), in both cases up to the end of the first token. -/
theorem scheme_url_unsupported_lead (env : ProcEnv) (x : Ext) (ws name more tail : List Char)
    (hws : ∀ ch ∈ ws, isWs ch = true)
    (hne : name ≠ [])
    (hfirst : ∀ ch, name.head? = some ch → isAsciiAlpha ch = true)
    (hall : ∀ ch ∈ name, isAsciiAlnum ch = true ∨ ch = '.' ∨ ch = '-')
    (hmore : ∀ ch ∈ more, schemeOk ch = true)
    (hplus : ∀ ch, more.head? = some ch → ch = '+') :
    (parseRequirement env x (ws ++ name ++ more ++ ':' :: tail)).fin =
      .err (nameSpan ws name (name ++ more ++ ':' :: tail)) := by
  have hverdict := unnamedVerdict_scheme_token env name more tail hne hfirst hall hmore
  obtain ⟨r0, r, hr, hr0⟩ : ∃ r0 r, more ++ ':' :: tail = r0 :: r ∧ (r0 = '+' ∨ r0 = ':') := by
    cases more with
    | nil => exact ⟨':', tail, rfl, .inr rfl⟩
    | cons m ms => exact ⟨m, ms ++ ':' :: tail, rfl, .inl (hplus m rfl)⟩
  have hinput : name ++ more ++ ':' :: tail = name ++ r0 :: r := by rw [List.append_assoc, hr]
  have hinput' : ws ++ name ++ more ++ ':' :: tail = ws ++ name ++ r0 :: r := by
    rw [List.append_assoc, List.append_assoc, hr, ← List.append_assoc]
  rw [hinput] at hverdict ⊢
  rw [hinput']
  exact unnamed_after_name env x ws name r0 r hws hne (fun ch h => asciiAlpha_alnum (hfirst ch h))
    (scheme_nameChar hall)
    (by rcases hr0 with rfl | rfl <;> decide) (by rcases hr0 with rfl | rfl <;> decide)
    (by rcases hr0 with rfl | rfl <;> decide) (by rcases hr0 with rfl | rfl <;> decide) hverdict

/-- (4) with leading whitespace, the name part ends in an alphanumeric (so it is a valid name): the
span runs from the very start of the input (it includes the leading whitespace) to the end of the token -/
theorem scheme_url_unsupported_lead_valid (env : ProcEnv) (x : Ext) (ws name more tail : List Char)
    (hws : ∀ ch ∈ ws, isWs ch = true)
    (hne : name ≠ [])
    (hfirst : ∀ ch, name.head? = some ch → isAsciiAlpha ch = true)
    (hall : ∀ ch ∈ name, isAsciiAlnum ch = true ∨ ch = '.' ∨ ch = '-')
    (hlast : ∀ ch, name.getLast? = some ch → isAsciiAlnum ch = true)
    (hmore : ∀ ch ∈ more, schemeOk ch = true)
    (hplus : ∀ ch, more.head? = some ch → ch = '+') :
    (parseRequirement env x (ws ++ name ++ more ++ ':' :: tail)).fin =
      .err ⟨.unsupported, 0, strLen ws + strLen (token (name ++ more ++ ':' :: tail))⟩ := by
  rw [scheme_url_unsupported_lead env x ws name more tail hws hne hfirst hall hmore hplus,
    nameSpan_valid ws name _ hne (fun ch h => asciiAlpha_alnum (hfirst ch h)) (scheme_nameChar hall) hlast]

/-- (4) with leading whitespace, the name part ends in `.` or `-` (so it is NOT a valid name, F18): the
span runs from the start of the name (it does not include the leading whitespace) to the end of the
token -/
theorem scheme_url_unsupported_lead_invalid (env : ProcEnv) (x : Ext) (ws name more tail : List Char)
    (hws : ∀ ch ∈ ws, isWs ch = true)
    (hne : name ≠ [])
    (hfirst : ∀ ch, name.head? = some ch → isAsciiAlpha ch = true)
    (hall : ∀ ch ∈ name, isAsciiAlnum ch = true ∨ ch = '.' ∨ ch = '-')
    (hlast : ∃ ch, name.getLast? = some ch ∧ isAsciiAlnum ch = false)
    (hmore : ∀ ch ∈ more, schemeOk ch = true)
    (hplus : ∀ ch, more.head? = some ch → ch = '+') :
    (parseRequirement env x (ws ++ name ++ more ++ ':' :: tail)).fin =
      .err ⟨.unsupported, strLen ws, strLen (token (name ++ more ++ ':' :: tail))⟩ := by
  rw [scheme_url_unsupported_lead env x ws name more tail hws hne hfirst hall hmore hplus,
    nameSpan_invalid ws name _ (scheme_nameChar hall) hlast]

/-- (4) without leading whitespace and without any condition on the last char of the name part
(`a-://h`, `x.y.:z` included): the span is the first token -/
theorem scheme_url_unsupported_any (env : ProcEnv) (x : Ext) (name more tail : List Char)
    (hne : name ≠ [])
    (hfirst : ∀ ch, name.head? = some ch → isAsciiAlpha ch = true)
    (hall : ∀ ch ∈ name, isAsciiAlnum ch = true ∨ ch = '.' ∨ ch = '-')
    (hmore : ∀ ch ∈ more, schemeOk ch = true)
    (hplus : ∀ ch, more.head? = some ch → ch = '+') :
    (parseRequirement env x (name ++ more ++ ':' :: tail)).fin =
      .err ⟨.unsupported, 0, strLen (token (name ++ more ++ ':' :: tail))⟩ := by
  have := scheme_url_unsupported_lead env x [] name more tail (by simp) hne hfirst hall hmore hplus
  rw [nameSpan_nil] at this
  simpa using this

/-- (4), general form: the input is `scheme:tail` where `scheme = name ++ more`, `name` is what
`parse_name` consumes (letters, digits, `.`, `-`; a letter first, alphanumeric last) and `more` is empty
or starts with `+` (as in `git+https`).  No hypothesis on `tail` is needed.  (`hlast` is no longer
needed, see `scheme_url_unsupported_any`.) -/
theorem scheme_url_unsupported_gen (env : ProcEnv) (x : Ext) (name more tail : List Char)
    (hne : name ≠ [])
    (hfirst : ∀ ch, name.head? = some ch → isAsciiAlpha ch = true)
    (hall : ∀ ch ∈ name, isAsciiAlnum ch = true ∨ ch = '.' ∨ ch = '-')
    (hlast : ∀ ch, name.getLast? = some ch → isAsciiAlnum ch = true)
    (hmore : ∀ ch ∈ more, schemeOk ch = true)
    (hplus : ∀ ch, more.head? = some ch → ch = '+') :
    (parseRequirement env x (name ++ more ++ ':' :: tail)).fin =
      .err ⟨.unsupported, 0, strLen (token (name ++ more ++ ':' :: tail))⟩ := by
  have := scheme_url_unsupported_lead_valid env x [] name more tail (by simp) hne hfirst hall hlast hmore hplus
  simpa [strLen] using this

/-- (4) with leading whitespace: `scheme:tail` with `scheme` made of ASCII letters only -/
theorem scheme_url_unsupported_letters_lead (env : ProcEnv) (x : Ext) (ws scheme tail : List Char)
    (hws : ∀ ch ∈ ws, isWs ch = true) (hne : scheme ≠ [])
    (hall : ∀ ch ∈ scheme, isAsciiAlpha ch = true) :
    (parseRequirement env x (ws ++ scheme ++ ':' :: tail)).fin =
      .err ⟨.unsupported, 0, strLen ws + strLen (token (scheme ++ ':' :: tail))⟩ := by
  have := scheme_url_unsupported_lead_valid env x ws scheme [] tail hws hne
    (fun ch h => hall ch (List.mem_of_mem_head? h))
    (fun ch h => .inl (asciiAlpha_alnum (hall ch h)))
    (fun ch h => asciiAlpha_alnum (hall ch (List.mem_of_mem_getLast? h)))
    (by simp) (by simp)
  simpa using this

/-- (4): `scheme:tail` with `scheme` made of ASCII letters only -/
theorem scheme_url_unsupported (env : ProcEnv) (x : Ext) (scheme tail : List Char) (hne : scheme ≠ [])
    (hall : ∀ ch ∈ scheme, isAsciiAlpha ch = true) :
    (parseRequirement env x (scheme ++ ':' :: tail)).fin =
      .err ⟨.unsupported, 0, strLen (token (scheme ++ ':' :: tail))⟩ := by
  have := scheme_url_unsupported_letters_lead env x [] scheme tail (by simp) hne hall
  simpa [strLen] using this

theorem mem_takeWhile_pos {α} {p : α → Bool} {l : List α} {a : α} (h : a ∈ l.takeWhile p) : p a = true := by
  induction l with
  | nil => simp at h
  | cons b l ih =>
    by_cases hb : p b = true
    · simp only [List.takeWhile_cons, hb, if_true, List.mem_cons] at h
      rcases h with rfl | h
      · exact hb
      · exact ih h
    · simp [hb] at h

/-- (4) for an arbitrary URL scheme in the sense of `split_scheme` (an ASCII letter, then letters,
digits, `+`, `-`, `.`), with leading whitespace: always `unsupported`, the span ends at the end of the
first token and starts at 0 or after the leading whitespace -/
theorem scheme_url_unsupported_all (env : ProcEnv) (x : Ext) (ws scheme tail : List Char)
    (hws : ∀ ch ∈ ws, isWs ch = true) (hne : scheme ≠ [])
    (hfirst : ∀ c, scheme.head? = some c → isAsciiAlpha c = true)
    (hall : ∀ c ∈ scheme, schemeOk c = true) :
    ∃ e : PErr, (parseRequirement env x (ws ++ scheme ++ ':' :: tail)).fin = .err e ∧
      e.kind = .unsupported ∧ (e.start = 0 ∨ e.start = strLen ws) ∧
      e.start + e.len = strLen ws + strLen (token (scheme ++ ':' :: tail)) := by
  have hsplit : scheme.takeWhile isNameChar ++ scheme.dropWhile isNameChar = scheme :=
    List.takeWhile_append_dropWhile
  have hne' : scheme.takeWhile isNameChar ≠ [] := by
    cases scheme with
    | nil => exact absurd rfl hne
    | cons a t => simp [alnum_nameChar (asciiAlpha_alnum (hfirst a rfl))]
  have hfirst' : ∀ ch, (scheme.takeWhile isNameChar).head? = some ch → isAsciiAlpha ch = true := by
    intro ch hch
    cases scheme with
    | nil => exact absurd rfl hne
    | cons a t =>
      simp only [List.takeWhile_cons, alnum_nameChar (asciiAlpha_alnum (hfirst a rfl)), if_true,
        List.head?_cons, Option.some.injEq] at hch
      subst hch; exact hfirst a rfl
  have hall' : ∀ ch ∈ scheme.takeWhile isNameChar, isAsciiAlnum ch = true ∨ ch = '.' ∨ ch = '-' := by
    intro ch hm
    have h1 : isNameChar ch = true := mem_takeWhile_pos hm
    have h2 := hall ch (List.takeWhile_sublist _ |>.subset hm)
    rcases schemeOk_cases h2 with h | rfl | rfl | rfl
    · exact .inl h
    · exact absurd h1 (by decide)
    · exact .inr (.inr rfl)
    · exact .inr (.inl rfl)
  have hmore : ∀ ch ∈ scheme.dropWhile isNameChar, schemeOk ch = true :=
    fun ch hm => hall ch (List.dropWhile_sublist _ |>.subset hm)
  have hplus : ∀ ch, (scheme.dropWhile isNameChar).head? = some ch → ch = '+' := by
    intro ch hch
    have h1 : isNameChar ch = false := by
      have := List.head?_dropWhile_not isNameChar scheme
      rw [hch] at this
      simpa using this
    have h2 := hmore ch (List.mem_of_mem_head? hch)
    rcases schemeOk_cases h2 with h | rfl | rfl | rfl
    · rw [alnum_nameChar h] at h1; exact absurd h1 (by decide)
    · rfl
    · exact absurd h1 (by decide)
    · exact absurd h1 (by decide)
  have key := scheme_url_unsupported_lead env x ws (scheme.takeWhile isNameChar)
    (scheme.dropWhile isNameChar) tail hws hne' hfirst' hall' hmore hplus
  have e1 : ws ++ scheme.takeWhile isNameChar ++ scheme.dropWhile isNameChar = ws ++ scheme := by
    rw [List.append_assoc, hsplit]
  rw [e1, hsplit] at key
  exact ⟨_, key, nameSpan_kind _ _ _, nameSpan_start _ _ _, nameSpan_end _ _ _⟩

def isPathSep (c : Char) : Bool := c == '/' || c == '\\'

/-- the verdict is `true` when the token contains a `/` or `\` that is preceded by a non-empty text
free of `$` and `[` -/
theorem unnamedVerdict_sep (env : ProcEnv) (p t : List Char) (sep : Char) (hsep : isPathSep sep = true)
    (hne : p ≠ []) (hd : '$' ∉ p) (hb : '[' ∉ p) :
    unnamedVerdict env (p ++ sep :: t) = true := by
  have hsep' : sep = '/' ∨ sep = '\\' := by simpa [isPathSep] using hsep
  have hmem : ∀ d, d ∉ p → d ≠ sep → d ∉ p ++ [sep] := by
    intro d h1 h2 hm
    simp only [List.mem_append, List.mem_singleton] at hm
    exact hm.elim h1 h2
  obtain ⟨X, hX⟩ := expandEnvVars_prefix env (p ++ [sep]) t
    (hmem '$' hd (by rcases hsep' with rfl | rfl <;> decide))
  have hX' : expandEnvVars env (p ++ sep :: t) = p ++ sep :: X := by simpa using hX
  have key : ∀ Y, (match p ++ sep :: Y with
      | [] => false
      | first :: _ =>
        first == '\\' || first == '/' || first == '.' ||
        (splitScheme (p ++ sep :: Y)).isSome || (p ++ sep :: Y).contains '/' ||
        (p ++ sep :: Y).contains '\\' || looksLikeArchive (p ++ sep :: Y)) = true := by
    intro Y
    cases p with
    | nil => exact absurd rfl hne
    | cons c pc =>
      simp only [List.cons_append]
      rcases hsep' with rfl | rfl
      · have : (c :: (pc ++ '/' :: Y)).contains '/' = true := by simp
        simp only [this, Bool.or_true, Bool.true_or]
      · have : (c :: (pc ++ '\\' :: Y)).contains '\\' = true := by simp
        simp only [this, Bool.or_true, Bool.true_or]
  unfold unnamedVerdict
  rw [hX']
  dsimp only
  cases hse : splitExtras (p ++ sep :: X) with
  | none => exact key X
  | some v =>
    obtain ⟨u, e⟩ := v
    obtain ⟨a, hs, _⟩ := splitExtras_some hse
    obtain ⟨Y, rfl⟩ := append_prefix_of_not_mem (P := p ++ [sep]) (X := X) (by simpa using hs)
      (hmem '[' hb (by rcases hsep' with rfl | rfl <;> decide))
    have e : p ++ [sep] ++ Y = p ++ sep :: Y := by simp
    rw [e]
    exact key Y

/-! ### relative paths: `name…/…`, the theorems -/

theorem nameChar_plain {ch : Char} (h : isNameChar ch = true) : isWs ch = false ∧ ch ≠ '$' ∧ ch ≠ '[' := by
  refine ⟨nameChar_not_ws h, ?_, ?_⟩ <;> (rintro rfl; exact absurd h (by decide))

/-- the verdict on the token of `name ++ mid ++ sep :: tail` -/
theorem unnamedVerdict_relpath_token (env : ProcEnv) (name mid tail : List Char) (sep : Char)
    (hne : name ≠ [])
    (hall : ∀ ch ∈ name, isNameChar ch = true)
    (hsep : isPathSep sep = true)
    (hmid : ∀ ch ∈ mid, isWs ch = false ∧ ch ≠ '$' ∧ ch ≠ '[') :
    unnamedVerdict env (token (name ++ mid ++ sep :: tail)) = true := by
  have hsep' : sep = '/' ∨ sep = '\\' := by simpa [isPathSep] using hsep
  have hp : ∀ ch ∈ name ++ mid, isWs ch = false ∧ ch ≠ '$' ∧ ch ≠ '[' := by
    intro ch hm
    rcases List.mem_append.1 hm with hm | hm
    · exact nameChar_plain (hall ch hm)
    · exact hmid ch hm
  have : name ++ mid ++ sep :: tail = (name ++ mid ++ [sep]) ++ tail := by simp
  rw [this, token_append]
  · have e : name ++ mid ++ [sep] ++ token tail = (name ++ mid) ++ sep :: token tail := by simp
    rw [e]
    exact unnamedVerdict_sep env (name ++ mid) (token tail) sep hsep (by simp [hne])
      (fun h => (hp _ h).2.1 rfl) (fun h => (hp _ h).2.2 rfl)
  · intro c hc
    simp only [List.mem_append, List.mem_singleton] at hc
    rcases hc with hc | rfl
    · exact (hp c (List.mem_append.2 hc)).1
    · rcases hsep' with rfl | rfl <;> decide

/-- (2'), most general form.  The input is `ws ++ name ++ mid ++ sep :: tail`: leading whitespace
`ws`; `name` is the run of name chars `parse_name` consumes (an ASCII alphanumeric first; NO condition
on its last char); `sep` is `/` or `\`; `mid` (possibly empty) contains no whitespace, `$` or `[`, and
does not start with a name char or with a char that starts a requirement kind (`@ ( ; < = > ~ !`).
E.g. `foo/bar`, `foo+x/bar`, `dir\\file`, `dir_/p.whl`.  The span is `nameSpan`: from 0 if `name`
validates, from the start of the name if not; up to the end of the first token. -/
theorem relpath_unsupported_lead (env : ProcEnv) (x : Ext) (ws name mid tail : List Char) (sep : Char)
    (hws : ∀ ch ∈ ws, isWs ch = true)
    (hne : name ≠ [])
    (hfirst : ∀ ch, name.head? = some ch → isAsciiAlnum ch = true)
    (hall : ∀ ch ∈ name, isNameChar ch = true)
    (hsep : isPathSep sep = true)
    (hmid : ∀ ch ∈ mid, isWs ch = false ∧ ch ≠ '$' ∧ ch ≠ '[')
    (hmid0 : ∀ ch, mid.head? = some ch → isNameChar ch = false ∧ isKindStart ch = false) :
    (parseRequirement env x (ws ++ name ++ mid ++ sep :: tail)).fin =
      .err (nameSpan ws name (name ++ mid ++ sep :: tail)) := by
  have hsep' : sep = '/' ∨ sep = '\\' := by simpa [isPathSep] using hsep
  have hverdict := unnamedVerdict_relpath_token env name mid tail sep hne hall hsep hmid
  obtain ⟨r0, r, hr, hr0ws, hr0nc, hr0br, hr0k⟩ : ∃ r0 r, mid ++ sep :: tail = r0 :: r ∧ isWs r0 = false ∧
      isNameChar r0 = false ∧ (r0 == '[') = false ∧ isKindStart r0 = false := by
    cases mid with
    | nil =>
      refine ⟨sep, tail, rfl, ?_⟩
      rcases hsep' with rfl | rfl <;> decide
    | cons m ms =>
      have h1 := hmid m List.mem_cons_self
      have h2 := hmid0 m rfl
      exact ⟨m, ms ++ sep :: tail, rfl, h1.1, h2.1, by simpa using h1.2.2, h2.2⟩
  have hinput : name ++ mid ++ sep :: tail = name ++ r0 :: r := by rw [List.append_assoc, hr]
  have hinput' : ws ++ name ++ mid ++ sep :: tail = ws ++ name ++ r0 :: r := by
    rw [List.append_assoc, List.append_assoc, hr, ← List.append_assoc]
  rw [hinput] at hverdict ⊢
  rw [hinput']
  exact unnamed_after_name env x ws name r0 r hws hne hfirst hall hr0ws hr0nc hr0br hr0k hverdict

/-- (2') with leading whitespace, `name` ends in an alphanumeric (a valid name): the span runs from
the very start of the input (it includes the leading whitespace) to the end of the token -/
theorem relpath_unsupported_lead_valid (env : ProcEnv) (x : Ext) (ws name mid tail : List Char) (sep : Char)
    (hws : ∀ ch ∈ ws, isWs ch = true)
    (hne : name ≠ [])
    (hfirst : ∀ ch, name.head? = some ch → isAsciiAlnum ch = true)
    (hall : ∀ ch ∈ name, isNameChar ch = true)
    (hlast : ∀ ch, name.getLast? = some ch → isAsciiAlnum ch = true)
    (hsep : isPathSep sep = true)
    (hmid : ∀ ch ∈ mid, isWs ch = false ∧ ch ≠ '$' ∧ ch ≠ '[')
    (hmid0 : ∀ ch, mid.head? = some ch → isNameChar ch = false ∧ isKindStart ch = false) :
    (parseRequirement env x (ws ++ name ++ mid ++ sep :: tail)).fin =
      .err ⟨.unsupported, 0, strLen ws + strLen (token (name ++ mid ++ sep :: tail))⟩ := by
  rw [relpath_unsupported_lead env x ws name mid tail sep hws hne hfirst hall hsep hmid hmid0,
    nameSpan_valid ws name _ hne hfirst hall hlast]

/-- (2') with leading whitespace, `name` ends in `.`, `-` or `_` (NOT a valid name, F18): the error is
raised inside `parse_name`, so `mid` may even start with a char that starts a requirement kind (`a_@b/c`);
the span runs from the start of the name (it does not include the leading whitespace) to the end of
the token -/
theorem relpath_unsupported_lead_invalid (env : ProcEnv) (x : Ext) (ws name mid tail : List Char) (sep : Char)
    (hws : ∀ ch ∈ ws, isWs ch = true)
    (hne : name ≠ [])
    (hfirst : ∀ ch, name.head? = some ch → isAsciiAlnum ch = true)
    (hall : ∀ ch ∈ name, isNameChar ch = true)
    (hlast : ∃ ch, name.getLast? = some ch ∧ isAsciiAlnum ch = false)
    (hsep : isPathSep sep = true)
    (hmid : ∀ ch ∈ mid, isWs ch = false ∧ ch ≠ '$' ∧ ch ≠ '[')
    (hmid0 : ∀ ch, mid.head? = some ch → isNameChar ch = false) :
    (parseRequirement env x (ws ++ name ++ mid ++ sep :: tail)).fin =
      .err ⟨.unsupported, strLen ws, strLen (token (name ++ mid ++ sep :: tail))⟩ := by
  have hsep' : sep = '/' ∨ sep = '\\' := by simpa [isPathSep] using hsep
  have hverdict := unnamedVerdict_relpath_token env name mid tail sep hne hall hsep hmid
  obtain ⟨r0, r, hr, hr0nc⟩ : ∃ r0 r, mid ++ sep :: tail = r0 :: r ∧ isNameChar r0 = false := by
    cases mid with
    | nil =>
      refine ⟨sep, tail, rfl, ?_⟩
      rcases hsep' with rfl | rfl <;> decide
    | cons m ms => exact ⟨m, ms ++ sep :: tail, rfl, hmid0 m rfl⟩
  have hinput : name ++ mid ++ sep :: tail = name ++ r0 :: r := by rw [List.append_assoc, hr]
  have hinput' : ws ++ name ++ mid ++ sep :: tail = ws ++ name ++ r0 :: r := by
    rw [List.append_assoc, List.append_assoc, hr, ← List.append_assoc]
  rw [hinput] at hverdict ⊢
  rw [hinput']
  exact unnamed_invalid_name env x ws name r0 r hws hne hfirst hall hr0nc
    (name_invalid_of_last name hall hlast) hverdict

/-- (2') without leading whitespace and without any condition on the last char of `name`
(`dir_/p.whl` included): the span is the first token -/
theorem relpath_unsupported_any (env : ProcEnv) (x : Ext) (name mid tail : List Char) (sep : Char)
    (hne : name ≠ [])
    (hfirst : ∀ ch, name.head? = some ch → isAsciiAlnum ch = true)
    (hall : ∀ ch ∈ name, isNameChar ch = true)
    (hsep : isPathSep sep = true)
    (hmid : ∀ ch ∈ mid, isWs ch = false ∧ ch ≠ '$' ∧ ch ≠ '[')
    (hmid0 : ∀ ch, mid.head? = some ch → isNameChar ch = false ∧ isKindStart ch = false) :
    (parseRequirement env x (name ++ mid ++ sep :: tail)).fin =
      .err ⟨.unsupported, 0, strLen (token (name ++ mid ++ sep :: tail))⟩ := by
  have := relpath_unsupported_lead env x [] name mid tail sep (by simp) hne hfirst hall hsep hmid hmid0
  rw [nameSpan_nil] at this
  simpa using this

/-- (2'), relative paths: the input is `name ++ mid ++ sep :: tail` where `name` is what `parse_name`
consumes, `sep` is `/` or `\`, and `mid` (possibly empty) contains no whitespace, `$` or `[`; the char
after the name is not one that starts a requirement kind (`@ ( ; < = > ~ !`).  E.g. `foo/bar`,
`foo+x/bar`, `dir\\file`.  (`hlast` is no longer needed, see `relpath_unsupported_any`.) -/
theorem relpath_unsupported (env : ProcEnv) (x : Ext) (name mid tail : List Char) (sep : Char)
    (hne : name ≠ [])
    (hfirst : ∀ ch, name.head? = some ch → isAsciiAlnum ch = true)
    (hall : ∀ ch ∈ name, isNameChar ch = true)
    (hlast : ∀ ch, name.getLast? = some ch → isAsciiAlnum ch = true)
    (hsep : isPathSep sep = true)
    (hmid : ∀ ch ∈ mid, isWs ch = false ∧ ch ≠ '$' ∧ ch ≠ '[')
    (hmid0 : ∀ ch, mid.head? = some ch → isNameChar ch = false ∧ isKindStart ch = false) :
    (parseRequirement env x (name ++ mid ++ sep :: tail)).fin =
      .err ⟨.unsupported, 0, strLen (token (name ++ mid ++ sep :: tail))⟩ := by
  have := relpath_unsupported_lead_valid env x [] name mid tail sep (by simp) hne hfirst hall hlast hsep hmid hmid0
  simpa [strLen] using this

/-- (2') the simplest case with leading whitespace: `ws ++ name ++ sep :: tail`, any name-like run -/
theorem relpath_unsupported_simple_lead (env : ProcEnv) (x : Ext) (ws name tail : List Char) (sep : Char)
    (hws : ∀ ch ∈ ws, isWs ch = true)
    (hne : name ≠ [])
    (hfirst : ∀ ch, name.head? = some ch → isAsciiAlnum ch = true)
    (hall : ∀ ch ∈ name, isNameChar ch = true)
    (hsep : isPathSep sep = true) :
    (parseRequirement env x (ws ++ name ++ sep :: tail)).fin =
      .err (nameSpan ws name (name ++ sep :: tail)) := by
  have := relpath_unsupported_lead env x ws name [] tail sep hws hne hfirst hall hsep (by simp) (by simp)
  simpa using this

/-- (2') the simplest case: `name/…` or `name\\…` -/
theorem relpath_unsupported_simple (env : ProcEnv) (x : Ext) (name tail : List Char) (sep : Char)
    (hne : name ≠ [])
    (hfirst : ∀ ch, name.head? = some ch → isAsciiAlnum ch = true)
    (hall : ∀ ch ∈ name, isNameChar ch = true)
    (hlast : ∀ ch, name.getLast? = some ch → isAsciiAlnum ch = true)
    (hsep : isPathSep sep = true) :
    (parseRequirement env x (name ++ sep :: tail)).fin =
      .err ⟨.unsupported, 0, strLen (token (name ++ sep :: tail))⟩ := by
  have := relpath_unsupported env x name [] tail sep hne hfirst hall hlast hsep (by simp) (by simp)
  simpa using this

/-! ### shape (c), spelled-out cases -/

/-- an archive file name ends in an ASCII alphanumeric (the last char of one of the twelve
extensions), so the hypothesis `hlast` of the archive theorems follows from `harch` -/
theorem archive_last_alnum {name : List Char} (harch : looksLikeArchive name = true) :
    ∀ ch, name.getLast? = some ch → isAsciiAlnum ch = true := by
  obtain ⟨stem, ext, hs, _, _, hcase⟩ := (looksLikeArchive_iff name).1 harch
  have hmem : ext ∈ archiveExts ++ tarCompExts := by
    rcases hcase with h | ⟨h, _⟩
    · exact List.mem_append_left _ h
    · exact List.mem_append_right _ h
  have hall : ∀ e ∈ archiveExts ++ tarCompExts, e.getLast?.map isAsciiAlnum = some true := by decide
  have h1 := hall ext hmem
  intro ch hch
  have hext : ext ≠ [] := archiveExt_ne_nil (hcase.imp id (·.1))
  have h2 : name.getLast? = ext.getLast? := by
    rw [hs]
    cases ext with
    | nil => exact absurd rfl hext
    | cons e0 et => simp [List.getLast?_append, List.getLast?_cons]
  rw [h2] at hch
  rw [hch] at h1
  simpa using h1

/-- (3) with leading whitespace, `hlast` dropped -/
theorem archive_name_unsupported_lead' (env : ProcEnv) (x : Ext) (ws name rest : List Char)
    (hws : ∀ ch ∈ ws, isWs ch = true)
    (hne : name ≠ [])
    (hfirst : ∀ ch, name.head? = some ch → isAsciiAlnum ch = true)
    (hall : ∀ ch ∈ name, isNameChar ch = true)
    (harch : looksLikeArchive name = true)
    (hend : ∀ ch, (rest.dropWhile isWs).head? = some ch → ch = ';') :
    (parseRequirement env x (ws ++ name ++ rest)).fin = .err ⟨.unsupported, 0, 0⟩ :=
  archive_name_unsupported_lead env x ws name rest hws hne hfirst hall (archive_last_alnum harch) harch hend

/-- (3) the bare archive name, after leading whitespace -/
theorem archive_name_unsupported_bare_lead (env : ProcEnv) (x : Ext) (ws name : List Char)
    (hws : ∀ ch ∈ ws, isWs ch = true)
    (hne : name ≠ [])
    (hfirst : ∀ ch, name.head? = some ch → isAsciiAlnum ch = true)
    (hall : ∀ ch ∈ name, isNameChar ch = true)
    (harch : looksLikeArchive name = true) :
    (parseRequirement env x (ws ++ name)).fin = .err ⟨.unsupported, 0, 0⟩ := by
  have := archive_name_unsupported_lead' env x ws name [] hws hne hfirst hall harch (by simp)
  simpa using this

/-- (3) the bare archive name -/
theorem archive_name_unsupported_bare (env : ProcEnv) (x : Ext) (name : List Char)
    (hne : name ≠ [])
    (hfirst : ∀ ch, name.head? = some ch → isAsciiAlnum ch = true)
    (hall : ∀ ch ∈ name, isNameChar ch = true)
    (hlast : ∀ ch, name.getLast? = some ch → isAsciiAlnum ch = true)
    (harch : looksLikeArchive name = true) :
    (parseRequirement env x name).fin = .err ⟨.unsupported, 0, 0⟩ := by
  have := archive_name_unsupported env x name [] hne hfirst hall hlast harch (by simp)
  simpa using this

/-- (3) the archive name between leading and trailing whitespace -/
theorem archive_name_unsupported_ws_lead (env : ProcEnv) (x : Ext) (ws name ws' : List Char)
    (hws : ∀ ch ∈ ws, isWs ch = true)
    (hne : name ≠ [])
    (hfirst : ∀ ch, name.head? = some ch → isAsciiAlnum ch = true)
    (hall : ∀ ch ∈ name, isNameChar ch = true)
    (harch : looksLikeArchive name = true)
    (hws' : ∀ ch ∈ ws', isWs ch = true) :
    (parseRequirement env x (ws ++ name ++ ws')).fin = .err ⟨.unsupported, 0, 0⟩ :=
  archive_name_unsupported_lead' env x ws name ws' hws hne hfirst hall harch
    (by rw [dropWhile_all hws']; simp)

/-- (3) the archive name followed by whitespace only -/
theorem archive_name_unsupported_ws (env : ProcEnv) (x : Ext) (name ws : List Char)
    (hne : name ≠ [])
    (hfirst : ∀ ch, name.head? = some ch → isAsciiAlnum ch = true)
    (hall : ∀ ch ∈ name, isNameChar ch = true)
    (hlast : ∀ ch, name.getLast? = some ch → isAsciiAlnum ch = true)
    (harch : looksLikeArchive name = true)
    (hws : ∀ ch ∈ ws, isWs ch = true) :
    (parseRequirement env x (name ++ ws)).fin = .err ⟨.unsupported, 0, 0⟩ :=
  archive_name_unsupported env x name ws hne hfirst hall hlast harch
    (by rw [dropWhile_all hws]; simp)

/-- (3) leading whitespace, the archive name, optional whitespace and a `;` with anything after it -/
theorem archive_name_unsupported_marker_lead (env : ProcEnv) (x : Ext) (ws name ws' after : List Char)
    (hws : ∀ ch ∈ ws, isWs ch = true)
    (hne : name ≠ [])
    (hfirst : ∀ ch, name.head? = some ch → isAsciiAlnum ch = true)
    (hall : ∀ ch ∈ name, isNameChar ch = true)
    (harch : looksLikeArchive name = true)
    (hws' : ∀ ch ∈ ws', isWs ch = true) :
    (parseRequirement env x (ws ++ name ++ (ws' ++ ';' :: after))).fin = .err ⟨.unsupported, 0, 0⟩ :=
  archive_name_unsupported_lead' env x ws name (ws' ++ ';' :: after) hws hne hfirst hall harch
    (by
      rw [List.dropWhile_append_of_pos hws',
        List.dropWhile_cons_of_neg (by decide : ¬ isWs ';' = true)]
      intro ch h
      simp only [List.head?_cons, Option.some.injEq] at h
      exact h.symm)

/-- (3) the archive name followed by optional whitespace and a `;` with anything after it (a marker,
or garbage: the archive check fires before the marker is parsed) -/
theorem archive_name_unsupported_marker (env : ProcEnv) (x : Ext) (name ws after : List Char)
    (hne : name ≠ [])
    (hfirst : ∀ ch, name.head? = some ch → isAsciiAlnum ch = true)
    (hall : ∀ ch ∈ name, isNameChar ch = true)
    (hlast : ∀ ch, name.getLast? = some ch → isAsciiAlnum ch = true)
    (harch : looksLikeArchive name = true)
    (hws : ∀ ch ∈ ws, isWs ch = true) :
    (parseRequirement env x (name ++ (ws ++ ';' :: after))).fin = .err ⟨.unsupported, 0, 0⟩ :=
  archive_name_unsupported env x name (ws ++ ';' :: after) hne hfirst hall hlast harch
    (by
      rw [List.dropWhile_append_of_pos hws,
        List.dropWhile_cons_of_neg (by decide : ¬ isWs ';' = true)]
      intro ch h
      simp only [List.head?_cons, Option.some.injEq] at h
      exact h.symm)

/-- (3) with extras, a concrete instance of `archive_name_unsupported_extras`: `a.whl[b];x` -/
theorem archive_name_extras_example (env : ProcEnv) (x : Ext) :
    (parseRequirement env x ['a', '.', 'w', 'h', 'l', '[', 'b', ']', ';', 'x']).fin =
      .err ⟨.unsupported, 0, 0⟩ := by
  have hv := (name_validates ['b'] (by simp) (by intro c h; simp at h; subst h; decide)
    (by intro c h; simp at h; subst h; decide) (by intro c h; simp at h; subst h; decide)).2
  have step : parseExtras (⟨['a', '.', 'w', 'h', 'l'] ++ ['[', 'b', ']', ';', 'x'],
      ['[', 'b', ']', ';', 'x'], strLen ['a', '.', 'w', 'h', 'l']⟩ : Cursor).eatWhitespace =
      (match Names.validateOwned (bytesOfChars ['b']) with
       | some n => (.ok ([n], ⟨['a', '.', 'w', 'h', 'l'] ++ ['[', 'b', ']', ';', 'x'], [';', 'x'], 8⟩) :
           Res (List (List Nat) × Cursor))
       | none => serr 6 1) := by
    rfl
  rw [hv] at step
  refine archive_name_unsupported_extras env x ['a', '.', 'w', 'h', 'l'] ['[', 'b', ']', ';', 'x']
    (by simp) (by intro c h; simp at h; subst h; decide) (by decide)
    (by intro c h; simp at h; subst h; decide)
    ((looksLikeArchive_iff _).2 ⟨['a'], ['w', 'h', 'l'], rfl, by decide, by simp, .inl (by decide)⟩)
    (by intro c h; simp at h; subst h; decide) _ _ step ?_
  intro ch h
  have : ch = ';' := by
    have e : List.dropWhile isWs [';', 'x'] = [';', 'x'] := by decide
    rw [show (⟨['a', '.', 'w', 'h', 'l'] ++ ['[', 'b', ']', ';', 'x'], [';', 'x'], 8⟩ : Cursor).rest =
      [';', 'x'] from rfl, e] at h
    simpa using h.symm
  exact this

/-! ### (5) never accepted -/

theorem not_ok_of_err {o : ReqOut} {e : PErr} (h : o.fin = .err e) : ∀ r, o.fin ≠ .ok r := by
  intro r hr; rw [h] at hr; exact ReqThen.noConfusion hr

theorem path_never_accepted_lead (env : ProcEnv) (x : Ext) (ws : List Char) (c : Char) (s : List Char)
    (hws : ∀ ch ∈ ws, isWs ch = true)
    (hc : isPathStart c = true) : ∀ r, (parseRequirement env x (ws ++ c :: s)).fin ≠ .ok r :=
  not_ok_of_err (path_unsupported_lead env x ws c s hws hc)

theorem path_never_accepted (env : ProcEnv) (x : Ext) (c : Char) (s : List Char)
    (hc : isPathStart c = true) : ∀ r, (parseRequirement env x (c :: s)).fin ≠ .ok r :=
  not_ok_of_err (path_unsupported env x c s hc)

theorem archive_name_never_accepted_lead (env : ProcEnv) (x : Ext) (ws name rest : List Char)
    (hws : ∀ ch ∈ ws, isWs ch = true)
    (hne : name ≠ [])
    (hfirst : ∀ ch, name.head? = some ch → isAsciiAlnum ch = true)
    (hall : ∀ ch ∈ name, isNameChar ch = true)
    (harch : looksLikeArchive name = true)
    (hend : ∀ ch, (rest.dropWhile isWs).head? = some ch → ch = ';') :
    ∀ r, (parseRequirement env x (ws ++ name ++ rest)).fin ≠ .ok r :=
  not_ok_of_err (archive_name_unsupported_lead' env x ws name rest hws hne hfirst hall harch hend)

theorem archive_name_never_accepted (env : ProcEnv) (x : Ext) (name rest : List Char)
    (hne : name ≠ [])
    (hfirst : ∀ ch, name.head? = some ch → isAsciiAlnum ch = true)
    (hall : ∀ ch ∈ name, isNameChar ch = true)
    (hlast : ∀ ch, name.getLast? = some ch → isAsciiAlnum ch = true)
    (harch : looksLikeArchive name = true)
    (hend : ∀ ch, (rest.dropWhile isWs).head? = some ch → ch = ';') :
    ∀ r, (parseRequirement env x (name ++ rest)).fin ≠ .ok r :=
  not_ok_of_err (archive_name_unsupported env x name rest hne hfirst hall hlast harch hend)

theorem archive_name_extras_never_accepted_lead (env : ProcEnv) (x : Ext) (ws name rest : List Char)
    (hws : ∀ ch ∈ ws, isWs ch = true)
    (hne : name ≠ [])
    (hfirst : ∀ ch, name.head? = some ch → isAsciiAlnum ch = true)
    (hall : ∀ ch ∈ name, isNameChar ch = true)
    (harch : looksLikeArchive name = true)
    (hrest : ∀ ch, rest.head? = some ch → isNameChar ch = false)
    (extras : List (List Nat)) (c2 : Cursor)
    (hex : parseExtras (⟨ws ++ name ++ rest, rest, strLen ws + strLen name⟩ : Cursor).eatWhitespace =
      .ok (extras, c2))
    (hend : ∀ ch, (c2.rest.dropWhile isWs).head? = some ch → ch = ';') :
    ∀ r, (parseRequirement env x (ws ++ name ++ rest)).fin ≠ .ok r :=
  not_ok_of_err (archive_name_unsupported_extras_lead env x ws name rest hws hne hfirst hall
    (archive_last_alnum harch) harch hrest extras c2 hex hend)

theorem archive_name_extras_never_accepted (env : ProcEnv) (x : Ext) (name rest : List Char)
    (hne : name ≠ [])
    (hfirst : ∀ ch, name.head? = some ch → isAsciiAlnum ch = true)
    (hall : ∀ ch ∈ name, isNameChar ch = true)
    (hlast : ∀ ch, name.getLast? = some ch → isAsciiAlnum ch = true)
    (harch : looksLikeArchive name = true)
    (hrest : ∀ ch, rest.head? = some ch → isNameChar ch = false)
    (extras : List (List Nat)) (c2 : Cursor)
    (hex : parseExtras (⟨name ++ rest, rest, strLen name⟩ : Cursor).eatWhitespace = .ok (extras, c2))
    (hend : ∀ ch, (c2.rest.dropWhile isWs).head? = some ch → ch = ';') :
    ∀ r, (parseRequirement env x (name ++ rest)).fin ≠ .ok r :=
  not_ok_of_err (archive_name_unsupported_extras env x name rest hne hfirst hall hlast harch hrest
    extras c2 hex hend)

/-- with leading whitespace and no condition on the last char of the name part -/
theorem scheme_url_never_accepted_lead (env : ProcEnv) (x : Ext) (ws name more tail : List Char)
    (hws : ∀ ch ∈ ws, isWs ch = true)
    (hne : name ≠ [])
    (hfirst : ∀ ch, name.head? = some ch → isAsciiAlpha ch = true)
    (hall : ∀ ch ∈ name, isAsciiAlnum ch = true ∨ ch = '.' ∨ ch = '-')
    (hmore : ∀ ch ∈ more, schemeOk ch = true)
    (hplus : ∀ ch, more.head? = some ch → ch = '+') :
    ∀ r, (parseRequirement env x (ws ++ name ++ more ++ ':' :: tail)).fin ≠ .ok r :=
  not_ok_of_err (scheme_url_unsupported_lead env x ws name more tail hws hne hfirst hall hmore hplus)

/-- any URL scheme in the sense of `split_scheme`, after any leading whitespace, followed by `:` and
anything at all -/
theorem scheme_url_never_accepted_all (env : ProcEnv) (x : Ext) (ws scheme tail : List Char)
    (hws : ∀ ch ∈ ws, isWs ch = true) (hne : scheme ≠ [])
    (hfirst : ∀ c, scheme.head? = some c → isAsciiAlpha c = true)
    (hall : ∀ c ∈ scheme, schemeOk c = true) :
    ∀ r, (parseRequirement env x (ws ++ scheme ++ ':' :: tail)).fin ≠ .ok r := by
  obtain ⟨e, he, _⟩ := scheme_url_unsupported_all env x ws scheme tail hws hne hfirst hall
  exact not_ok_of_err he

theorem scheme_url_never_accepted (env : ProcEnv) (x : Ext) (name more tail : List Char)
    (hne : name ≠ [])
    (hfirst : ∀ ch, name.head? = some ch → isAsciiAlpha ch = true)
    (hall : ∀ ch ∈ name, isAsciiAlnum ch = true ∨ ch = '.' ∨ ch = '-')
    (hlast : ∀ ch, name.getLast? = some ch → isAsciiAlnum ch = true)
    (hmore : ∀ ch ∈ more, schemeOk ch = true)
    (hplus : ∀ ch, more.head? = some ch → ch = '+') :
    ∀ r, (parseRequirement env x (name ++ more ++ ':' :: tail)).fin ≠ .ok r :=
  not_ok_of_err (scheme_url_unsupported_gen env x name more tail hne hfirst hall hlast hmore hplus)

/-- with leading whitespace and no condition on the last char of the name part -/
theorem relpath_never_accepted_lead (env : ProcEnv) (x : Ext) (ws name mid tail : List Char) (sep : Char)
    (hws : ∀ ch ∈ ws, isWs ch = true)
    (hne : name ≠ [])
    (hfirst : ∀ ch, name.head? = some ch → isAsciiAlnum ch = true)
    (hall : ∀ ch ∈ name, isNameChar ch = true)
    (hsep : isPathSep sep = true)
    (hmid : ∀ ch ∈ mid, isWs ch = false ∧ ch ≠ '$' ∧ ch ≠ '[')
    (hmid0 : ∀ ch, mid.head? = some ch → isNameChar ch = false ∧ isKindStart ch = false) :
    ∀ r, (parseRequirement env x (ws ++ name ++ mid ++ sep :: tail)).fin ≠ .ok r :=
  not_ok_of_err (relpath_unsupported_lead env x ws name mid tail sep hws hne hfirst hall hsep hmid hmid0)

theorem relpath_never_accepted (env : ProcEnv) (x : Ext) (name mid tail : List Char) (sep : Char)
    (hne : name ≠ [])
    (hfirst : ∀ ch, name.head? = some ch → isAsciiAlnum ch = true)
    (hall : ∀ ch ∈ name, isNameChar ch = true)
    (hlast : ∀ ch, name.getLast? = some ch → isAsciiAlnum ch = true)
    (hsep : isPathSep sep = true)
    (hmid : ∀ ch ∈ mid, isWs ch = false ∧ ch ≠ '$' ∧ ch ≠ '[')
    (hmid0 : ∀ ch, mid.head? = some ch → isNameChar ch = false ∧ isKindStart ch = false) :
    ∀ r, (parseRequirement env x (name ++ mid ++ sep :: tail)).fin ≠ .ok r :=
  not_ok_of_err (relpath_unsupported env x name mid tail sep hne hfirst hall hlast hsep hmid hmid0)

/-! ### the former boundary of C19 (closed by F18) -/

theorem validate_a_dash : Names.validateOwned (bytesOfChars ['a', '-']) = none := by
  rw [bytesOfChars_ascii _ (by decide)]
  decide

/-- Before F18 this was a boundary of C19: `a-:b` *is* a scheme URL for `split_scheme` (and
`looks_like_unnamed_requirement` says yes), but `parse_name` failed first on the name `a-` with the
generic string error.  Now `parse_name` consults `looks_like_unnamed_requirement` before reporting the
invalid name, and the error kind is `unsupported`; the span is the whole token. -/
theorem scheme_trailing_sep_unsupported (env : ProcEnv) (x : Ext) :
    splitScheme ['a', '-', ':', 'b'] = some (['a', '-'], ['b']) ∧
    unnamedVerdict env (token ['a', '-', ':', 'b']) = true ∧
    (parseRequirement env x ['a', '-', ':', 'b']).fin = .err ⟨.unsupported, 0, 4⟩ := by
  refine ⟨?_, ?_, ?_⟩
  · exact splitScheme_spec_exact ['a', '-'] ['b'] (by simp) (by intro c h; simp at h; subst h; decide)
      (by decide) (by intro c h; simp at h; subst h; decide)
  · have : token ['a', '-', ':', 'b'] = ['a', '-'] ++ ':' :: ['b'] := by decide
    rw [this]
    exact unnamedVerdict_scheme env ['a', '-'] ['b'] (by simp) (by intro c h; simp at h; subst h; decide)
      (by decide)
  · have h := scheme_url_unsupported_any env x ['a', '-'] [] ['b'] (by simp)
      (by intro c h; simp at h; subst h; decide) (by decide) (by simp) (by simp)
    have e : strLen (token (['a', '-'] ++ [] ++ ':' :: ['b'])) = 4 := by decide
    rw [e] at h
    exact h

/-- the trailing separator at the very END of the input is unchanged: still the generic string error
(on the separator), even though nothing else follows -/
theorem trailing_sep_at_end_string_error (env : ProcEnv) (x : Ext) :
    (parseRequirement env x ['a', '-']).fin = .err ⟨.string, 1, 1⟩ := by
  rw [parseRequirement_eq]
  have h1 : (Cursor.new ['a', '-']).eatWhitespace = ⟨['a', '-'], ['a', '-'], 0⟩ := rfl
  rw [h1]
  have h2 : parseName env ⟨['a', '-'], ['a', '-'], 0⟩ = serr 1 1 := by
    simp [parseName, parseNameLoop, Cursor.next, Cursor.peek,
      show isAsciiAlnum 'a' = true by decide, show isNameChar '-' = true by decide,
      show utf8Len 'a' = 1 by decide, show utf8Len '-' = 1 by decide]
  rw [h2]
  rfl

/-- the two spans really differ with leading whitespace: ` a:b` is reported from byte 0 (4 bytes: the
leading blank and the token `a:b`), ` a-:b` from byte 1 (4 bytes: the token `a-:b` only) -/
theorem lead_span_differs (env : ProcEnv) (x : Ext) :
    (parseRequirement env x [' ', 'a', ':', 'b']).fin = .err ⟨.unsupported, 0, 4⟩ ∧
    (parseRequirement env x [' ', 'a', '-', ':', 'b']).fin = .err ⟨.unsupported, 1, 4⟩ := by
  constructor
  · have h := scheme_url_unsupported_lead_valid env x [' '] ['a'] [] ['b'] (by decide) (by simp)
      (by intro c h; simp at h; subst h; decide) (by decide)
      (by intro c h; simp at h; subst h; decide) (by simp) (by simp)
    have e : strLen [' '] + strLen (token (['a'] ++ [] ++ ':' :: ['b'])) = 4 := by decide
    rw [e] at h
    exact h
  · have h := scheme_url_unsupported_lead_invalid env x [' '] ['a', '-'] [] ['b'] (by decide) (by simp)
      (by intro c h; simp at h; subst h; decide) (by decide)
      ⟨'-', rfl, by decide⟩ (by simp) (by simp)
    have e1 : strLen [' '] = 1 := by decide
    have e2 : strLen (token (['a', '-'] ++ [] ++ ':' :: ['b'])) = 4 := by decide
    rw [e1, e2] at h
    exact h

/-! ### non-vacuity: the main theorems instantiated on concrete inputs -/

/-- ` a/b`: `relpath_unsupported_lead_valid` -/
example (env : ProcEnv) (x : Ext) :
    (parseRequirement env x [' ', 'a', '/', 'b']).fin = .err ⟨.unsupported, 0, 4⟩ := by
  have h := relpath_unsupported_lead_valid env x [' '] ['a'] [] ['b'] '/' (by decide) (by simp)
    (by intro c h; simp at h; subst h; decide) (by decide)
    (by intro c h; simp at h; subst h; decide) (by decide) (by simp) (by simp)
  have e : strLen [' '] + strLen (token (['a'] ++ [] ++ '/' :: ['b'])) = 4 := by decide
  rw [e] at h
  exact h

/-- `a-://h`: `scheme_url_unsupported_any` (the name part `a-` is not a valid name) -/
example (env : ProcEnv) (x : Ext) :
    (parseRequirement env x ['a', '-', ':', '/', '/', 'h']).fin = .err ⟨.unsupported, 0, 6⟩ := by
  have h := scheme_url_unsupported_any env x ['a', '-'] [] ['/', '/', 'h'] (by simp)
    (by intro c h; simp at h; subst h; decide) (by decide) (by simp) (by simp)
  have e : strLen (token (['a', '-'] ++ [] ++ ':' :: ['/', '/', 'h'])) = 6 := by decide
  rw [e] at h
  exact h

/-- ` x.whl`: `archive_name_unsupported_bare_lead` -/
example (env : ProcEnv) (x : Ext) :
    (parseRequirement env x [' ', 'x', '.', 'w', 'h', 'l']).fin = .err ⟨.unsupported, 0, 0⟩ :=
  archive_name_unsupported_bare_lead env x [' '] ['x', '.', 'w', 'h', 'l'] (by decide) (by simp)
    (by intro c h; simp at h; subst h; decide) (by decide)
    ((looksLikeArchive_iff _).2 ⟨['x'], ['w', 'h', 'l'], rfl, by decide, by simp, .inl (by decide)⟩)

/-- `  ./a b`: `path_unsupported_lead` (span after the whitespace, the token `./a`) -/
example (env : ProcEnv) (x : Ext) :
    (parseRequirement env x [' ', ' ', '.', '/', 'a', ' ', 'b']).fin = .err ⟨.unsupported, 2, 3⟩ := by
  have h := path_unsupported_lead env x [' ', ' '] '.' ['/', 'a', ' ', 'b'] (by decide) (by decide)
  have e1 : strLen [' ', ' '] = 2 := by decide
  have e2 : strLen (token ['.', '/', 'a', ' ', 'b']) = 3 := by decide
  rw [e1, e2] at h
  exact h

/-- `  dir_/p.whl`: `relpath_unsupported_lead_invalid` (span after the whitespace) -/
example (env : ProcEnv) (x : Ext) :
    (parseRequirement env x [' ', ' ', 'd', 'i', 'r', '_', '/', 'p', '.', 'w', 'h', 'l']).fin =
      .err ⟨.unsupported, 2, 10⟩ := by
  have h := relpath_unsupported_lead_invalid env x [' ', ' '] ['d', 'i', 'r', '_'] [] ['p', '.', 'w', 'h', 'l'] '/'
    (by decide) (by simp) (by intro c h; simp at h; subst h; decide) (by decide)
    ⟨'_', rfl, by decide⟩ (by decide) (by simp) (by simp)
  have e1 : strLen [' ', ' '] = 2 := by decide
  have e2 : strLen (token (['d', 'i', 'r', '_'] ++ [] ++ '/' :: ['p', '.', 'w', 'h', 'l'])) = 10 := by decide
  rw [e1, e2] at h
  exact h

/-- ` git+https://h p`: `scheme_url_unsupported_all` -/
example (env : ProcEnv) (x : Ext) :
    ∀ r, (parseRequirement env x ([' '] ++ ['g', 'i', 't', '+', 'h', 't', 't', 'p', 's'] ++
      ':' :: ['/', '/', 'h', ' ', 'p'])).fin ≠ .ok r :=
  scheme_url_never_accepted_all env x [' '] ['g', 'i', 't', '+', 'h', 't', 't', 'p', 's'] ['/', '/', 'h', ' ', 'p']
    (by decide) (by simp) (by intro c h; simp at h; subst h; decide) (by decide)
end Pep508
