/-
`and` is pointwise conjunction and preserves semantic well-formedness (C02 core).
-/
import Pep508.Proofs.Eval
set_option linter.unusedSectionVars false
namespace Pep508
variable {νr νb α : Type}
variable [LT α] [LE α] [Std.IsLinearOrder α] [Std.LawfulOrderLT α] [DecidableLT α] [DecidableEq α]
variable [LT νr] [LE νr] [Std.IsLinearOrder νr] [Std.LawfulOrderLT νr] [DecidableLT νr] [DecidableEq νr]
variable [LT νb] [LE νb] [Std.IsLinearOrder νb] [Std.LawfulOrderLT νb] [DecidableLT νb] [DecidableEq νb]

theorem OKL_valid {es : EdgeL νr νb α} (h : OKL es) : ∀ e ∈ es, e.1.valid = true :=
  fun e he => (h e he).1

/-- Shannon expansion branch: apply `f` to every child -/
theorem eval_node_map (ρ : Env νr νb α) (v : νr) (es : EdgeL νr νb α) (f : Tree νr νb α → Tree νr νb α)
    (g : Bool → Bool) (hok : OKL es) (hc : Covers es)
    (hf : ∀ e ∈ es, (f e.2).eval ρ = g (e.2.eval ρ)) :
    (createNodeR v (mapE f es)).eval ρ = g (evalL ρ (ρ.rv v) es) := by
  rw [eval_createNodeR ρ v _ (covers_mapE es f (OKL_valid hok) hc)]
  exact eval_mapE ρ _ es f g (OKL_valid hok) hf hc

theorem OK_node_map (v : νr) (es : EdgeL νr νb α) (f : Tree νr νb α → Tree νr νb α)
    (hok : OKL es) (hc : Covers es) (hf : ∀ e ∈ es, (f e.2).OK) :
    (createNodeR v (mapE f es)).OK :=
  OK_createNodeR v _ (OKL_mapE es f (OKL_valid hok) hf) (covers_mapE es f (OKL_valid hok) hc)

/-- equal-variable branch: merge the two edge lists -/
theorem eval_node_apply (ρ : Env νr νb α) (v : νr) (ls rs : EdgeL νr νb α)
    (f : Tree νr νb α → Tree νr νb α → Tree νr νb α) (hl : Covers ls) (hr : Covers rs)
    (hf : ∀ l ∈ ls, ∀ r ∈ rs, (f l.2 r.2).eval ρ = (l.2.eval ρ && r.2.eval ρ)) :
    (createNodeR v (applyRanges f ls rs)).eval ρ =
      (evalL ρ (ρ.rv v) ls && evalL ρ (ρ.rv v) rs) := by
  have hv : ∀ e ∈ product f ls rs, e.1.valid = true := fun e he => (product_valid f ls rs e he).1
  have hcov : Covers (applyRanges f ls rs) := covers_coalesce _ hv (covers_product f ls rs hl hr)
  rw [eval_createNodeR ρ v _ hcov]
  unfold applyRanges
  rw [evalL_coalesce ρ _ _ hv, evalL_eq_firstHit, firstHit_product, evalL_eq_firstHit ρ _ ls,
    evalL_eq_firstHit ρ _ rs]
  cases h1 : firstHit (ρ.rv v) ls with
  | none => simp
  | some cl =>
    cases h2 : firstHit (ρ.rv v) rs with
    | none => simp
    | some cr =>
      obtain ⟨l, hl', rfl⟩ := firstHit_mem _ _ _ h1
      obtain ⟨r, hr', rfl⟩ := firstHit_mem _ _ _ h2
      exact hf l hl' r hr'

theorem OK_node_apply (v : νr) (ls rs : EdgeL νr νb α)
    (f : Tree νr νb α → Tree νr νb α → Tree νr νb α) (hl : Covers ls) (hr : Covers rs)
    (hf : ∀ l ∈ ls, ∀ r ∈ rs, (f l.2 r.2).OK) :
    (createNodeR v (applyRanges f ls rs)).OK := by
  have hp : ∀ e ∈ product f ls rs, e.1.valid = true ∧ e.2.OK := by
    intro e he
    obtain ⟨h1, l, hl', r, hr', h2⟩ := product_valid f ls rs e he
    exact ⟨h1, h2 ▸ hf l hl' r hr'⟩
  have hv : ∀ e ∈ product f ls rs, e.1.valid = true := fun e he => (hp e he).1
  exact OK_createNodeR v _ (coalesce_prop Tree.OK _ hp) (covers_coalesce _ hv (covers_product f ls rs hl hr))

theorem Tree.eval_rng (ρ : Env νr νb α) (v : νr) (es : Edges νr νb α) :
    (Tree.rng v es).eval ρ = evalL ρ (ρ.rv v) es.toList := by
  simp [Tree.eval, Edges.eval_eq]

theorem Tree.OK_rng {v : νr} {es : Edges νr νb α} (h : (Tree.rng v es : Tree νr νb α).OK) :
    OKL es.toList ∧ Covers es.toList := ⟨(Edges.OKAll_iff es).mp h.1, h.2⟩

theorem Tree.size_rng_child (v : νr) (es : Edges νr νb α) (e : Ivl α × Tree νr νb α)
    (h : e ∈ es.toList) : e.2.size < (Tree.rng v es).size := by
  have := Edges.size_mem es e h
  simp [Tree.size]; omega

theorem lt_asymm' {β : Type} [LT β] [LE β] [Std.IsLinearOrder β] [Std.LawfulOrderLT β] {a b : β}
    (h1 : ¬ a < b) (h2 : ¬ b < a) : a = b := by grind

/-- **`and` is pointwise and keeps diagrams semantically well-formed**, for every fuel that
    covers the operands -/
theorem andF_spec : ∀ (n : Nat) (x y : Tree νr νb α),
    x.size + y.size < n → x.OK → y.OK →
    (∀ ρ : Env νr νb α, (andF n x y).eval ρ = (x.eval ρ && y.eval ρ)) ∧ (andF n x y).OK := by
  intro n
  induction n with
  | zero => intro x y h; omega
  | succ n ih =>
    intro x y hsz hx hy
    unfold andF
    by_cases c1 : x = .leaf true
    · subst c1; simp [Tree.eval, hy]
    by_cases c2 : y = .leaf true
    · subst c2; simp [c1, Tree.eval, hx]
    by_cases c3 : x = y
    · subst c3; simp [c1, hx]
    by_cases c4 : x = .leaf false ∨ y = .leaf false
    · rcases c4 with h | h <;> subst h <;> simp [c1, c2, c3, Tree.eval, Tree.OK]
    by_cases c5 : x.not = y
    · subst c5
      simp [c1, c2, c3, c4, Tree.eval_not _ x hx, Tree.eval, Tree.OK]
    simp only [c1, c2, c3, c4, c5, if_false]
    -- both operands are decision nodes
    cases x with
    | leaf b => cases b <;> simp_all
    | rng vx ex =>
      obtain ⟨hxo, hxc⟩ := Tree.OK_rng hx
      cases y with
      | leaf b => cases b <;> simp_all
      | rng vy ey =>
        obtain ⟨hyo, hyc⟩ := Tree.OK_rng hy
        simp only []
        split
        · constructor
          · intro ρ
            rw [eval_node_map ρ vx _ _ (fun b => b && (Tree.rng vy ey).eval ρ) hxo hxc]
            · rw [Tree.eval_rng ρ vx]
            · intro e he
              exact (ih e.2 _ (by have := Tree.size_rng_child vx ex e he; omega) (hxo e he).2 hy).1 ρ
          · apply OK_node_map vx _ _ hxo hxc
            intro e he
            exact (ih e.2 _ (by have := Tree.size_rng_child vx ex e he; omega) (hxo e he).2 hy).2
        split
        · constructor
          · intro ρ
            rw [eval_node_map ρ vy _ _ (fun b => (Tree.rng vx ex).eval ρ && b) hyo hyc]
            · rw [Tree.eval_rng ρ vy]
            · intro e he
              rw [(ih e.2 _ (by have := Tree.size_rng_child vy ey e he; omega) (hyo e he).2 hx).1 ρ]
              exact Bool.and_comm _ _
          · apply OK_node_map vy _ _ hyo hyc
            intro e he
            exact (ih e.2 _ (by have := Tree.size_rng_child vy ey e he; omega) (hyo e he).2 hx).2
        · rename_i h1 h2
          have hv : vx = vy := lt_asymm' h1 h2
          subst hv
          constructor
          · intro ρ
            rw [eval_node_apply ρ vx _ _ _ hxc hyc, Tree.eval_rng, Tree.eval_rng]
            intro l hl r hr
            exact (ih l.2 r.2 (by
              have := Tree.size_rng_child vx ex l hl
              have := Tree.size_rng_child vx ey r hr
              omega) (hxo l hl).2 (hyo r hr).2).1 ρ
          · apply OK_node_apply vx _ _ _ hxc hyc
            intro l hl r hr
            exact (ih l.2 r.2 (by
              have := Tree.size_rng_child vx ex l hl
              have := Tree.size_rng_child vx ey r hr
              omega) (hxo l hl).2 (hyo r hr).2).2
      | bool vy hy' ly' =>
        simp only []
        constructor
        · intro ρ
          rw [eval_node_map ρ vx _ _ (fun b => b && (Tree.bool vy hy' ly').eval ρ) hxo hxc]
          · rw [Tree.eval_rng ρ vx]
          · intro e he
            exact (ih e.2 _ (by have := Tree.size_rng_child vx ex e he; omega) (hxo e he).2 hy).1 ρ
        · apply OK_node_map vx _ _ hxo hxc
          intro e he
          exact (ih e.2 _ (by have := Tree.size_rng_child vx ex e he; omega) (hxo e he).2 hy).2
    | bool vx hx' lx' =>
      have sx : hx'.size < (Tree.bool vx hx' lx').size ∧ lx'.size < (Tree.bool vx hx' lx').size := by
        simp [Tree.size]; omega
      cases y with
      | leaf b => cases b <;> simp_all
      | rng vy ey =>
        obtain ⟨hyo, hyc⟩ := Tree.OK_rng hy
        simp only []
        constructor
        · intro ρ
          rw [eval_node_map ρ vy _ _ (fun b => (Tree.bool vx hx' lx').eval ρ && b) hyo hyc]
          · rw [Tree.eval_rng ρ vy]
          · intro e he
            rw [(ih e.2 _ (by have := Tree.size_rng_child vy ey e he; omega) (hyo e he).2 hx).1 ρ]
            exact Bool.and_comm _ _
        · apply OK_node_map vy _ _ hyo hyc
          intro e he
          exact (ih e.2 _ (by have := Tree.size_rng_child vy ey e he; omega) (hyo e he).2 hx).2
      | bool vy hy' ly' =>
        have sy : hy'.size < (Tree.bool vy hy' ly').size ∧ ly'.size < (Tree.bool vy hy' ly').size := by
          simp [Tree.size]; omega
        simp only []
        split
        · have i1 := ih hx' (Tree.bool vy hy' ly') (by omega) hx.1 hy
          have i2 := ih lx' (Tree.bool vy hy' ly') (by omega) hx.2 hy
          refine ⟨?_, OK_createNodeB _ _ _ i1.2 i2.2⟩
          intro ρ
          rw [eval_createNodeB, i1.1 ρ, i2.1 ρ]
          simp only [Tree.eval]
          split <;> rfl
        split
        · have i1 := ih hy' (Tree.bool vx hx' lx') (by omega) hy.1 hx
          have i2 := ih ly' (Tree.bool vx hx' lx') (by omega) hy.2 hx
          refine ⟨?_, OK_createNodeB _ _ _ i1.2 i2.2⟩
          intro ρ
          rw [eval_createNodeB, i1.1 ρ, i2.1 ρ]
          conv => rhs; rw [Bool.and_comm]
          conv => rhs; lhs; simp only [Tree.eval]
          split <;> rfl
        · rename_i h1 h2
          have hv : vx = vy := lt_asymm' h1 h2
          subst hv
          have i1 := ih hx' hy' (by omega) hx.1 hy.1
          have i2 := ih lx' ly' (by omega) hx.2 hy.2
          refine ⟨?_, OK_createNodeB _ _ _ i1.2 i2.2⟩
          intro ρ
          rw [eval_createNodeB, i1.1 ρ, i2.1 ρ]
          simp only [Tree.eval]
          split <;> rfl

end Pep508
