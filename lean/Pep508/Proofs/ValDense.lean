/-
The model's value order `Val` is not dense (version `0` is least; `w` and `w.0`, `s` and `s\0` are
adjacent), but every valid interval whose bounds are *separated* values — versions other than `0`
without trailing zero segment, strings not ending in U+0000 — is inhabited: `inhabits_sep`.
This is the hypothesis of relative canonicity (`CanonRel.lean`) at the model's own value type.
-/
import Pep508.Proofs.CanonRel
import Pep508.Proofs.ValOrder
set_option linter.unusedSimpArgs false
namespace Pep508

/-! ### a generic criterion -/

section
variable {α : Type}
variable [LT α] [LE α] [Std.IsLinearOrder α] [Std.LawfulOrderLT α] [DecidableLT α] [DecidableEq α]

/-- `Inhabits P` from: something lies below every `P` value, something above every value, and
something strictly between any value and a larger `P` value -/
theorem inhabits_of (P : α → Prop) [Inhabited α]
    (below : ∀ e, P e → ∃ c, c < e) (above : ∀ s : α, ∃ c, s < c)
    (between : ∀ s e, s < e → P e → ∃ c, s < c ∧ c < e) : Inhabits P := by
  intro iv h hk
  obtain ⟨lo, hi⟩ := iv
  obtain ⟨_, k2⟩ := hk
  cases lo with
  | unb =>
    cases hi with
    | unb => exact ⟨default, by simp [Ivl.mem, Bnd.loOk, Bnd.hiOk]⟩
    | incl e => exact ⟨e, by simp only [Ivl.mem, Bnd.loOk, Bnd.hiOk]; grind⟩
    | excl e =>
      obtain ⟨c, hc⟩ := below e k2
      exact ⟨c, by simp only [Ivl.mem, Bnd.loOk, Bnd.hiOk]; grind⟩
  | incl s =>
    refine ⟨s, ?_⟩
    cases hi <;> simp only [Ivl.mem, Ivl.valid, Bnd.loOk, Bnd.hiOk] at * <;> grind
  | excl s =>
    cases hi with
    | unb =>
      obtain ⟨c, hc⟩ := above s
      exact ⟨c, by simp only [Ivl.mem, Bnd.loOk, Bnd.hiOk]; grind⟩
    | incl e =>
      refine ⟨e, ?_⟩
      simp only [Ivl.mem, Ivl.valid, Bnd.loOk, Bnd.hiOk] at *; grind
    | excl e =>
      simp only [Ivl.valid, decide_eq_true_eq] at h
      obtain ⟨c, hc⟩ := between s e h k2
      exact ⟨c, by simp only [Ivl.mem, Bnd.loOk, Bnd.hiOk]; grind⟩
end

/-! ### release lists -/

/-- a release strictly between `a` and `b` (for `a < b`, `b` without trailing zero) -/
def verBetween : List Nat → List Nat → List Nat
  | [], b => List.replicate b.length 0
  | x :: a, [] => x :: a
  | x :: a, y :: b => if x < y then x :: (a ++ [0]) else x :: verBetween a b

theorem verLt_append_zero : ∀ a : List Nat, verLt a (a ++ [0]) = true
  | [] => rfl
  | x :: a => by simp [verLt, verLt_append_zero a]

theorem verLt_replicate : ∀ b : List Nat, b ≠ [] → b.getLast? ≠ some 0 →
    verLt (List.replicate b.length 0) b = true
  | [], h, _ => absurd rfl h
  | [y], _, hl => by
    have : y ≠ 0 := by simpa using hl
    simp [verLt, List.replicate]
    omega
  | y :: z :: b, _, hl => by
    have ih := verLt_replicate (z :: b) (by simp) (by simpa [List.getLast?_cons_cons] using hl)
    simp only [List.length_cons, List.replicate_succ, verLt] at ih ⊢
    by_cases hy : 0 < y
    · simp [hy]
    · have : y = 0 := by omega
      subst this
      simpa using ih

theorem verBetween_spec : ∀ a b : List Nat, verLt a b = true → b.getLast? ≠ some 0 →
    verLt a (verBetween a b) = true ∧ verLt (verBetween a b) b = true
  | [], [], h, _ => by simp [verLt] at h
  | [], y :: b, _, hl => by
    refine ⟨?_, verLt_replicate (y :: b) (by simp) hl⟩
    simp [verBetween, List.replicate_succ, verLt]
  | x :: a, [], h, _ => by simp [verLt] at h
  | x :: a, y :: b, h, hl => by
    simp only [verLt] at h
    by_cases hxy : x < y
    · simp only [verBetween, hxy, if_true, verLt, Nat.lt_irrefl, if_false]
      exact ⟨verLt_append_zero a, trivial⟩
    · have hyx : ¬ y < x := by
        intro h'; simp [hxy, h'] at h
      have hxe : x = y := by omega
      subst hxe
      simp only [Nat.lt_irrefl, if_false] at h
      have hb : b ≠ [] := by
        rintro rfl
        cases a <;> simp [verLt] at h
      have hl' : b.getLast? ≠ some 0 := by
        cases b with
        | nil => exact absurd rfl hb
        | cons z b' => simpa [List.getLast?_cons_cons] using hl
      obtain ⟨i1, i2⟩ := verBetween_spec a b h hl'
      simp only [verBetween, Nat.lt_irrefl, if_false, verLt]
      exact ⟨i1, i2⟩

/-! ### char lists -/

/-- U+0000, the least char -/
def nulChar : Char := Char.ofNat 0

theorem not_lt_nul (c : Char) : ¬ c < nulChar := by
  rw [Char.lt_def]
  show ¬ c.val < 0
  exact UInt32.not_lt_zero

theorem nul_lt_of_ne (c : Char) (h : c ≠ nulChar) : nulChar < c := by
  rw [Char.lt_def]
  show (0 : UInt32) < c.val
  have : c.val ≠ 0 := fun h' => h (Char.ext h')
  exact UInt32.pos_iff_ne_zero.2 this

def chBetween : List Char → List Char → List Char
  | [], b => List.replicate b.length nulChar
  | x :: a, [] => x :: a
  | x :: a, y :: b => if x < y then x :: (a ++ [nulChar]) else x :: chBetween a b

theorem lt_append_nul : ∀ a : List Char, a < a ++ [nulChar]
  | [] => List.nil_lt_cons _ _
  | x :: a => by
    rw [List.cons_append, List.cons_lt_cons_iff]
    exact .inr ⟨rfl, lt_append_nul a⟩

theorem replicate_nul_lt : ∀ b : List Char, b ≠ [] → b.getLast? ≠ some nulChar →
    List.replicate b.length nulChar < b
  | [], h, _ => absurd rfl h
  | [y], _, hl => by
    have : y ≠ nulChar := by simpa using hl
    simp only [List.length_cons, List.length_nil, List.replicate_succ, List.replicate_zero,
      List.cons_lt_cons_iff]
    exact .inl (nul_lt_of_ne y this)
  | y :: z :: b, _, hl => by
    have ih := replicate_nul_lt (z :: b) (by simp) (by simpa [List.getLast?_cons_cons] using hl)
    rw [List.length_cons, List.replicate_succ, List.cons_lt_cons_iff]
    by_cases hy : y = nulChar
    · exact .inr ⟨hy.symm, ih⟩
    · exact .inl (nul_lt_of_ne y hy)

theorem chBetween_spec : ∀ a b : List Char, a < b → b.getLast? ≠ some nulChar →
    a < chBetween a b ∧ chBetween a b < b
  | [], [], h, _ => absurd h (List.not_lt_nil _)
  | [], y :: b, _, hl => by
    refine ⟨?_, replicate_nul_lt (y :: b) (by simp) hl⟩
    simp only [chBetween, List.length_cons, List.replicate_succ]
    exact List.nil_lt_cons _ _
  | x :: a, [], h, _ => absurd h (List.not_lt_nil _)
  | x :: a, y :: b, h, hl => by
    rw [List.cons_lt_cons_iff] at h
    by_cases hxy : x < y
    · simp only [chBetween, hxy, if_true]
      refine ⟨?_, ?_⟩
      · rw [List.cons_lt_cons_iff]; exact .inr ⟨rfl, lt_append_nul a⟩
      · rw [List.cons_lt_cons_iff]; exact .inl hxy
    · rcases h with h | ⟨hxe, h⟩
      · exact absurd h hxy
      · subst hxe
        have hb : b ≠ [] := by
          rintro rfl
          exact List.not_lt_nil _ h
        have hl' : b.getLast? ≠ some nulChar := by
          cases b with
          | nil => exact absurd rfl hb
          | cons z b' => simpa [List.getLast?_cons_cons] using hl
        obtain ⟨i1, i2⟩ := chBetween_spec a b h hl'
        simp only [chBetween, hxy, if_false]
        exact ⟨by rw [List.cons_lt_cons_iff]; exact .inr ⟨rfl, i1⟩,
          by rw [List.cons_lt_cons_iff]; exact .inr ⟨rfl, i2⟩⟩

/-! ### separated values -/

/-- not the least value and not the immediate successor of another value: a version other than `0`
whose last segment is not zero, or a string that does not end in U+0000 -/
def SepV : Val → Prop
  | .ver w => w ≠ [] ∧ w.getLast? ≠ some 0
  | .str s => s.toList.getLast? ≠ some nulChar

instance : Inhabited Val := ⟨.ver []⟩

/-- every valid interval with separated bounds contains a value -/
theorem inhabits_sep : Inhabits SepV := by
  apply inhabits_of SepV
  · -- below
    intro e he
    refine ⟨.ver [], ?_⟩
    cases e with
    | ver w =>
      rw [Val.lt_ver]
      cases w with
      | nil => exact absurd rfl he.1
      | cons x w => rfl
    | str s => exact Val.lt_ver_str _ _
  · -- above
    intro s
    cases s with
    | ver w => exact ⟨.str "", Val.lt_ver_str _ _⟩
    | str s =>
      refine ⟨.str (s ++ "a"), ?_⟩
      rw [Val.lt_str, String.lt_iff, String.toList_append]
      have : ∀ l : List Char, l < l ++ "a".toList := by
        intro l
        induction l with
        | nil => exact List.nil_lt_cons _ _
        | cons x l ih => rw [List.cons_append, List.cons_lt_cons_iff]; exact .inr ⟨rfl, ih⟩
      exact this _
  · -- between
    intro s e hse he
    cases s with
    | ver a =>
      cases e with
      | ver b =>
        rw [Val.lt_ver] at hse
        obtain ⟨h1, h2⟩ := verBetween_spec a b hse he.2
        exact ⟨.ver (verBetween a b), (Val.lt_ver _ _).2 h1, (Val.lt_ver _ _).2 h2⟩
      | str t =>
        exact ⟨.ver (a ++ [0]), (Val.lt_ver _ _).2 (verLt_append_zero a), Val.lt_ver_str _ _⟩
    | str a =>
      cases e with
      | ver b => exact absurd hse (Val.not_lt_str_ver _ _)
      | str b =>
        rw [Val.lt_str, String.lt_iff] at hse
        obtain ⟨h1, h2⟩ := chBetween_spec a.toList b.toList hse he
        refine ⟨.str (String.ofList (chBetween a.toList b.toList)), ?_, ?_⟩
        · rw [Val.lt_str, String.lt_iff, String.toList_ofList]; exact h1
        · rw [Val.lt_str, String.lt_iff, String.toList_ofList]; exact h2

end Pep508
