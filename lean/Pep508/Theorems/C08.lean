/-
C08 — `r.to_string()` parses back to `r`, at the level of the glue.

`showReq` (Model/ReqShow.lean) is `Display for Requirement`: the name, `[e1,e2]`, the specifiers joined
by `,` or ` @ url`, and ` ; marker`, where the components are the texts the external printers yield.
`parseRequirement` (Model/ReqParse.lean) records the calls to the external parsers.  Proved here, for
every printed requirement whose components have the shape the printers guarantee (`ReqVal.WF`):
the parser issues exactly one call per printed specifier / for the printed URL, with the printed text
(the blank before ` ;` goes into the last bare specifier; pep440 trims it), finds the same name and
extras, hands the marker text to the marker parser, and accepts.  The marker round trip itself is C05;
here the marker parser's result on the marker text is a hypothesis.
-/
import Pep508.Proofs.ReqRoundTrip
namespace Pep508.C08
open Pep508

/-- the printed form, component by component -/
theorem printed_form (r : ReqVal) :
    showReq r = r.name ++ (extrasTxt r.extras ++ (kindTxt r.kind ++ markerTxt r.marker)) :=
  showReq_eq r

/-- round trip, no marker: the calls are exactly the printed specifiers / the printed URL with their
    spans, the result is the (normalized) name, the extras, the same kind, the TRUE marker -/
theorem roundtrip (env : ProcEnv) (x : Ext) (r : ReqVal) (hwf : r.WF) (hm : r.marker = none) :
    parseRequirement env x (showReq r) = ⟨r.expCalls, .ok (r.expOk (.leaf true) [])⟩ :=
  showReq_parse env x r hwf hm

/-- round trip with a marker `m`: if the marker parser, started at the marker text (with the fuel the
    requirement parser gives it), returns `st`, the requirement parser returns the same requirement
    with `st`'s tree and warnings — as `urlEndsOk` for a URL requirement (F20: accepted unless the
    external URL printer's text ends with `;` / `#`) -/
theorem roundtrip_marker (env : ProcEnv) (x : Ext) (r : ReqVal) (hwf : r.WF) (m : List Char)
    (hm : r.marker = some m) (st : PState)
    (hst : parseMarkersCursor x (4 * (showReq r).length + 16) ⟨showReq r, m, r.markerPos⟩ = .ok st) :
    parseRequirement env x (showReq r) = ⟨r.expCalls, r.expFin st⟩ :=
  showReq_parse_marker env x r hwf m hm st hst

/-- the cursor of that hypothesis is the position of the marker text in the printed requirement -/
theorem marker_cursor (r : ReqVal) (m : List Char) (hm : r.marker = some m) :
    Cursor.Inv ⟨showReq r, m, r.markerPos⟩ :=
  markerPos_inv r m hm

/-- the calls do not depend on the marker (nor on the marker parser accepting it) … -/
theorem calls (env : ProcEnv) (x : Ext) (r : ReqVal) (hwf : r.WF) :
    (parseRequirement env x (showReq r)).calls = r.expCalls :=
  showReq_calls env x r hwf

/-- … and each call's `(start, len)` is the span of its text in the printed requirement -/
theorem calls_spans (env : ProcEnv) (x : Ext) (r : ReqVal) (hwf : r.WF) :
    ∀ call ∈ r.expCalls, call.OK (showReq r) :=
  showReq_calls_ok env x r hwf

/-- the model parser never rejects a printed well-formed requirement -/
theorem never_rejected (env : ProcEnv) (x : Ext) (r : ReqVal) (hwf : r.WF)
    (hmk : ∀ m, r.marker = some m →
      ∃ st, parseMarkersCursor x (4 * (showReq r).length + 16) ⟨showReq r, m, r.markerPos⟩ = .ok st) :
    (∀ e, (parseRequirement env x (showReq r)).fin ≠ .err e) ∧
    (∀ s, (parseRequirement env x (showReq r)).fin ≠ .panic s) ∧
    (∀ alts other, (parseRequirement env x (showReq r)).fin ≠ .urlEnds alts other) :=
  showReq_never_rejected env x r hwf hmk

/-- the stored name is literally the printed one when the printed name is in normal form -/
theorem name_fixed (s : List Char) (h : Names.normSpec (s.map Char.toNat) = s.map Char.toNat) :
    normName s = s.map Char.toNat := normName_fixed s h

/-- a normalized name has no dot, so the "archive file name" clause of `WF` holds for it -/
theorem no_dot_not_archive (name : List Char) (h : '.' ∉ name) : looksLikeArchive name = false :=
  looksLikeArchive_of_no_dot name h

/-! ### non-vacuity: concrete instances -/

/-- `a-b[x,y]>=1,<2` -/
def r1 : ReqVal := ⟨"a-b".toList, ["x".toList, "y".toList], .specs [">=1".toList, "<2".toList], none⟩

theorem r1_wf : r1.WF :=
  ⟨nameOk_wf (by decide), by intro e h; simp [r1] at h; rcases h with rfl | rfl <;> exact nameOk_wf (by decide),
   ⟨⟨'>', _, _, rfl, by decide⟩, by unfold SpecTxt; decide⟩⟩

example : showReq r1 = "a-b[x,y]>=1,<2".toList := by decide

example (env : ProcEnv) (x : Ext) :
    parseRequirement env x "a-b[x,y]>=1,<2".toList =
      ⟨[.spec ">=1".toList 8 3, .spec "<2".toList 12 2],
        .ok ⟨[97, 45, 98], [[120], [121]], .specs [">=1".toList, "<2".toList], .leaf true, []⟩⟩ :=
  roundtrip env x r1 r1_wf rfl

/-- `a-b[x,y]>=1,<2 ; os_name=='a'`: the second call's text is `<2 ` -/
def r2 : ReqVal :=
  ⟨"a-b".toList, ["x".toList, "y".toList], .specs [">=1".toList, "<2".toList], some "os_name=='a'".toList⟩

theorem r2_wf : r2.WF :=
  ⟨nameOk_wf (by decide), by intro e h; simp [r2] at h; rcases h with rfl | rfl <;> exact nameOk_wf (by decide),
   ⟨⟨'>', _, _, rfl, by decide⟩, by unfold SpecTxt; decide⟩⟩

example : showReq r2 = "a-b[x,y]>=1,<2 ; os_name=='a'".toList := by decide
example : r2.markerPos = 17 := by decide

example (env : ProcEnv) (x : Ext) (st : PState)
    (h : parseMarkersCursor x (4 * 29 + 16)
      ⟨"a-b[x,y]>=1,<2 ; os_name=='a'".toList, "os_name=='a'".toList, 17⟩ = .ok st) :
    parseRequirement env x "a-b[x,y]>=1,<2 ; os_name=='a'".toList =
      ⟨[.spec ">=1".toList 8 3, .spec "<2 ".toList 12 3],
        .ok ⟨[97, 45, 98], [[120], [121]], .specs [">=1".toList, "<2 ".toList],
          st.tree.getD (.leaf true), st.warns⟩⟩ :=
  roundtrip_marker env x r2 r2_wf _ rfl st h

/-- an external version parser that knows nothing (the marker below compares strings) -/
def x0 : Ext := ⟨fun _ => none, fun _ => none, fun _ => false⟩

/-- the marker hypothesis is satisfiable: the model marker parser accepts `os_name=='a'` there -/
theorem r2_marker_ok : ∃ st, parseMarkersCursor x0 (4 * (showReq r2).length + 16)
    ⟨showReq r2, "os_name=='a'".toList, r2.markerPos⟩ = .ok st := by
  have h : (match parseMarkersCursor x0 (4 * (showReq r2).length + 16)
      ⟨showReq r2, "os_name=='a'".toList, r2.markerPos⟩ with | .ok _ => true | _ => false) = true := by decide
  cases hr : parseMarkersCursor x0 (4 * (showReq r2).length + 16)
      ⟨showReq r2, "os_name=='a'".toList, r2.markerPos⟩ with
  | ok st => exact ⟨st, rfl⟩
  | err e => rw [hr] at h; simp at h
  | panic s => rw [hr] at h; simp at h

example (env : ProcEnv) :
    ∃ ok, (parseRequirement env x0 "a-b[x,y]>=1,<2 ; os_name=='a'".toList).fin = .ok ok := by
  obtain ⟨st, h⟩ := r2_marker_ok
  exact ⟨_, congrArg ReqOut.fin (roundtrip_marker env x0 r2 r2_wf _ rfl st h)⟩

/-- `a-b[x] @ https://e.x/p#f;g`: without a marker the URL may contain and end with anything but
    whitespace -/
def r3 : ReqVal := ⟨"a-b".toList, ["x".toList], .url "https://e.x/p#f;g".toList, none⟩

theorem r3_wf : r3.WF :=
  ⟨nameOk_wf (by decide), by intro e h; simp [r3] at h; subst h; exact nameOk_wf (by decide),
   ⟨by decide, by decide, by intro h; exact absurd h (by decide)⟩⟩

example : showReq r3 = "a-b[x] @ https://e.x/p#f;g".toList := by decide

example (env : ProcEnv) (x : Ext) :
    parseRequirement env x "a-b[x] @ https://e.x/p#f;g".toList =
      ⟨[.url "https://e.x/p#f;g".toList 9 17],
        .ok ⟨[97, 45, 98], [[120]], .url "https://e.x/p#f;g".toList, .leaf true, []⟩⟩ :=
  roundtrip env x r3 r3_wf rfl

/-- `a-b @ https://e.x/p ; os_name=='a'` -/
def r4 : ReqVal := ⟨"a-b".toList, [], .url "https://e.x/p".toList, some "os_name=='a'".toList⟩

theorem r4_wf : r4.WF :=
  ⟨nameOk_wf (by decide), by intro e h; simp [r4] at h, ⟨by decide, by decide, fun _ => by decide⟩⟩

example (env : ProcEnv) (x : Ext) (st : PState)
    (h : parseMarkersCursor x (4 * 34 + 16)
      ⟨"a-b @ https://e.x/p ; os_name=='a'".toList, "os_name=='a'".toList, 22⟩ = .ok st) :
    parseRequirement env x "a-b @ https://e.x/p ; os_name=='a'".toList =
      ⟨[.url "https://e.x/p".toList 6 13],
        if st.tree.isSome then
          .urlEndsOk [(';', ⟨.string, 18, 1⟩), ('#', ⟨.string, 18, 1⟩)]
            ⟨[97, 45, 98], [], .url "https://e.x/p".toList, st.tree.getD (.leaf true), st.warns⟩
        else .ok ⟨[97, 45, 98], [], .url "https://e.x/p".toList, st.tree.getD (.leaf true), st.warns⟩⟩ :=
  roundtrip_marker env x r4 r4_wf _ rfl st h

/-! ### the two exclusions of `WF` are needed -/

/-- the clause "a URL followed by a marker does not end with `;`" cannot be dropped:
    `a @ u; ; os_name=='a'` (name `a`, URL `u;`) is not re-parsed — ambiguous URL end at byte 5 -/
theorem url_semicolon_marker_rejected (env : ProcEnv) (x : Ext) :
    showReq ⟨['a'], [], .url ['u', ';'], some "os_name=='a'".toList⟩ = "a @ u; ; os_name=='a'".toList ∧
    parseRequirement env x "a @ u; ; os_name=='a'".toList = ⟨[], .err ⟨.string, 5, 1⟩⟩ := by
  refine ⟨by decide, ?_⟩
  rw [parseRequirement_eq]
  have h1 : (Cursor.new "a @ u; ; os_name=='a'".toList).eatWhitespace =
      ⟨[] ++ ['a'] ++ " @ u; ; os_name=='a'".toList, ['a'] ++ " @ u; ; os_name=='a'".toList, strLen []⟩ := rfl
  rw [h1, parseName_a env [] _ (by intro ch h; simp at h; subst h; decide)]
  rfl

/-- the clause "a requirement without kind has a name that is not an archive file name" cannot be
    dropped: `a.whl` is not re-parsed (such a value is never the result of a parse, and a normalized
    name has no dot anyway) -/
theorem archive_name_rejected (env : ProcEnv) (x : Ext) :
    showReq ⟨"a.whl".toList, [], .none, none⟩ = "a.whl".toList ∧
    (parseRequirement env x "a.whl".toList).fin = .err ⟨.unsupported, 0, 0⟩ := by
  refine ⟨by decide, ?_⟩
  have := archive_name_unsupported env x "a.whl".toList [] (by decide)
    (by intro ch h; simp at h; subst h; decide)
    (by intro ch h; simp at h; rcases h with rfl | rfl | rfl | rfl | rfl <;> decide)
    (by intro ch h; simp at h; subst h; decide) (by decide) (by intro ch h; simp at h)
  simpa using this

end Pep508.C08
