/-
C05, text level — "for every marker m other than TRUE, the text produced by Display parses
without error to a marker equal to m" — and the repaired DNF soundness theorems.

(P0) DNF SOUNDNESS, REPAIRED.  The spelling hypothesis of `C05.to_dnf_sound` (`∀ v, stripZeros
     (spell v) = v`) is unsatisfiable (`old_spelling_hypothesis_unsatisfiable`).  `to_dnf_sound_norm`,
     `collect_exact_norm`, `common_term_holds_norm` assume instead `SpellOK spell` (the identity only
     for NORMALIZED releases; satisfiable: `spelling_hypothesis_satisfiable`) and `NormBounds t`
     (version bounds stored normalized) — an invariant of every marker built from expressions by the
     algebra, like `wf` and `Typed` (`built_invariants`, `to_dnf_sound_built`).
(P1) RENDERING IS A LAYOUT.  `(showMarker spell t).toList` is the layout (MarkerLayout.lean) of the
     derivation `astOfDnf (toDnf spell t)`: atoms `showExpr e`, `and` chains inside clauses, the `or`
     chain of clauses, parentheses exactly where `Display` writes them, single blanks — and that
     derivation is well formed (`show_is_layout`, `layout_wf`).
(P2) ATOMS RE-PARSE.  The text of an expression is an atom (`AtomOK`) whose own parse is the
     expression (`atom_reparses`, `expression_text_parses`), under the side conditions `AtomRT x e`;
     these follow from `ExtReadsPrinted x` (the pep440 parser reads a printed release back;
     `is_alphabetic` holds for `i` and `n`; satisfiable: `xRead_readsPrinted`) and `Printable e`
     (`atomRT_of_printable`), and for the terms of a DNF from `DiagramPrintable t`
     (`atomRT_of_diagram`).  The word operators `in` / `not in` are covered (`word_operators`).
(P3) COMPOSITION.  `parse_markers` on the text returns `buildDnf (toDnf spell t)` — the left-nested
     `or` of the left-nested `and`s of the expression diagrams — and the warnings of the terms in
     order (`display_parses`, `dnf_text_parses`).
(P4) THE LOOP.  `buildDnf d` is well formed and evaluates to `dnfSem d` (`rebuild_wf`,
     `rebuild_eval`), so the re-parsed marker is EQUIVALENT to `t` (`rebuild_sound`,
     `display_parse_equiv`); it is IDENTICAL to `t` when the bounds of `t` are separated values
     (`rebuild_identity`, **`display_parse_roundtrip_sep`**: `parse (display t) = t`), by relative
     canonicity (C03b) and bound tracking; more generally when `t` is the only well-formed diagram of
     its function (`display_parse_roundtrip`), and exactly when the rebuilt diagram is `t`
     (`display_parse_roundtrip_iff`).

What is NOT a theorem, and why (all proved below on concrete inputs):
 * `DenseUnbounded Val` is FALSE (C03b `val_not_dense_unbounded`), so C03 cannot be instantiated at
   the model's own value order; hence `SepBounds` (no version-`0` bound, no string bound ending in
   U+0000) in the identity theorem.  The hypothesis is sufficient, not necessary.
 * FALSE: its text `python_version < '0'` parses to a diagram that is not the FALSE terminal, though
   it is false in every environment (`false_text_reparses`, `false_not_canonical`) — the carve-out of
   the property.
 * deprecated key spellings print under the modern name and re-parse to the modern variable
   (`deprecated_key_not_identical`) — the other carve-out; `ModernKey` is part of `DiagramPrintable`.
 * a value containing both quote characters cannot be rendered: the text is rejected
   (`both_quotes_rejected`); `Quotable` is part of `DiagramPrintable`.
 * TRUE has the empty text, which is rejected (`true_text_rejected`).
 * `extra == 'x'` with a name that is not a valid normalized name re-parses with one warning
   (`termWarns`); `===`, `~=` and version `in` lists are not re-parsable / not covered (`AtomRT`), and
   never occur in a DNF (`dnf_forms`).
-/
import Pep508.Proofs.DisplayParse
import Pep508.Proofs.DnfForms
import Pep508.Proofs.DisplayIdentity
import Pep508.Proofs.NormBounds
import Pep508.Proofs.TypedAlg
import Pep508.Proofs.Canon
import Pep508.Theorems.C05
import Pep508.Theorems.C03b
namespace Pep508.C05
open Pep508 Pep508.Cursor

/-! ### hypotheses -/

/-- the external functions read back what `Display` prints: `VersionPattern::from_str` on the dotted
rendering of a non-empty release (optionally followed by `.*`) returns that release, not local;
`char::is_alphabetic` holds for the first letters of `in` and `not` -/
structure ExtReadsPrinted (x : Ext) : Prop where
  plain : ∀ r : List Nat, r ≠ [] → x.pat (showRelDots r).toList = some (⟨r, false⟩, false)
  star : ∀ r : List Nat, r ≠ [] → x.pat ((showRelDots r).toList ++ ['.', '*']) = some (⟨r, false⟩, true)
  alpha_i : x.alpha 'i' = true
  alpha_n : x.alpha 'n' = true

/-- an extra name the parser returns unchanged: valid, and equal to its own normalization -/
def NormName (n : String) : Prop :=
  ∃ bs, Names.validateRef (bytesOfChars n.toList) = some bs ∧ stringOfByteList bs = n

/-- what `Display` can render re-parsably (a condition on the expression alone) -/
def Printable : MExpr → Prop
  | .version _ s => s.op ≠ .exactEq ∧ s.op ≠ .tilde ∧ s.rel ≠ []
  | .versionIn _ _ _ => False
  | .string k _ v => ModernKey k ∧ Quotable v
  | .extra _ (.extra n) => Quotable n ∧ NormName n
  | .extra _ (.arbitrary s) => Quotable s ∧ Names.validateRef (bytesOfChars s.toList) = none

/-- the string part of `Printable` (the version part holds for every DNF: `dnf_forms`) -/
def StrPrintable : MExpr → Prop
  | .string k _ v => ModernKey k ∧ Quotable v
  | .extra _ (.extra n) => Quotable n ∧ NormName n
  | .extra _ (.arbitrary s) => Quotable s ∧ Names.validateRef (bytesOfChars s.toList) = none
  | _ => True

/-- the DNF has at least one clause and no empty clause (its text is then a marker) -/
def NonDegenerate (d : List (List MExpr)) : Prop := d ≠ [] ∧ ∀ c ∈ d, c ≠ []

/-- `t` is the only well-formed diagram of its function (C03 `equal_iff_same_function` for this `t`) -/
def Canonical (t : MTree) : Prop :=
  ∀ u : MTree, u.wf = true → (∀ ρ : Env VarR VarB Val, u.eval ρ = t.eval ρ) → u = t

/-- the printable boolean variables: modern key and quotable value for `in` / `contains` tests;
quotable extras that are either normalized names or not names at all -/
def VarBPrintable : VarB → Prop
  | .isIn k v => ModernKey k ∧ Quotable v
  | .contains k v => ModernKey k ∧ Quotable v
  | .extra (.extra n) => Quotable n ∧ NormName n
  | .extra (.arbitrary s) => Quotable s ∧ Names.validateRef (bytesOfChars s.toList) = none

/-- a condition on the DIAGRAM under which every string term of its DNF is printable: every string
key labelling a node is a modern spelling, every string bound contains at most one kind of quote,
every boolean variable is printable -/
def DiagramPrintable (t : MTree) : Prop := DiagAll ModernKey Quotable VarBPrintable t

/-- the diagram is neither a tautology nor a contradiction (over the model's environments) -/
def Contingent (t : MTree) : Prop :=
  (∃ ρ : Env VarR VarB Val, t.eval ρ = true) ∧ (∃ ρ : Env VarR VarB Val, t.eval ρ = false)

/-- every version bound of the diagram is stored normalized (trailing zeros stripped) — an invariant of
every diagram built from expressions by `not` / `and` / `or` (`normBounds_expression`, `normBounds_and`,
`normBounds_or`, `normBounds_not`) -/
def NormBounds (t : MTree) : Prop := t.AllB NormV

example (w : List Nat) : NormV (.ver w) ↔ stripZeros w = w := Iff.rfl
example (s : String) : NormV (.str s) := rfl
example (spell : Spell) : SpellOK spell ↔ ∀ w, stripZeros w = w → stripZeros (spell w) = w := Iff.rfl

/-! ### the DNF soundness theorems, with a satisfiable spelling hypothesis -/

/-- the spelling hypothesis `∀ v, stripZeros (spell v) = v` of `C05.to_dnf_sound`, `C05.collect_exact`,
`C05.common_term_holds` holds for NO table (`stripZeros r` is never `[0]`): those theorems are vacuous -/
theorem old_spelling_hypothesis_unsatisfiable : ¬ ∃ spell : Spell, ∀ v, stripZeros (spell v) = v :=
  spell_hyp_unsat

/-- the repaired hypothesis is satisfiable: spell every release as stored, and `0` as `0` -/
theorem spelling_hypothesis_satisfiable : SpellOK spellPlain ∧ ∀ w, spellPlain w ≠ [] := spellPlain_ok

/-- **the clauses returned by `to_dnf()` denote the same function as the marker**: for every
spelling table that spells normalized releases, every well-formed, well-typed diagram other than TRUE
whose version bounds are normalized, and every environment -/
theorem to_dnf_sound_norm (spell : Spell) (hs : SpellOK spell) (t : MTree)
    (hwf : t.wf = true) (hty : Typed t) (hn : NormBounds t) (ρ : Env VarR VarB Val)
    (hne : t ≠ .leaf true) : dnfSem ρ (toDnf spell t) = t.eval ρ :=
  toDnf_sound2 spell hs t hwf hty hn ρ hne

/-- path collection alone (before simplification) is exact -/
theorem collect_exact_norm (spell : Spell) (hs : SpellOK spell) (ρ : Env VarR VarB Val)
    (t : MTree) (hwf : t.wf = true) (hty : Typed t) (hn : NormBounds t) (hne : t ≠ .leaf true) :
    dnfSem ρ (collectDnf spell (t.size + 1) t []) = t.eval ρ := by
  rw [collectDnf_sem' spell hs ρ (t.size + 1) t [] (by omega) hwf hty hn (Or.inr hne)]
  simp [clauseSem]

/-- `top_level_extra` (C11): a term occurring in every clause of the DNF holds in every satisfying
assignment -/
theorem common_term_holds_norm (spell : Spell) (hs : SpellOK spell) (t : MTree)
    (hwf : t.wf = true) (hty : Typed t) (hn : NormBounds t) (ρ : Env VarR VarB Val)
    (hne : t ≠ .leaf true) (e : MExpr) (hall : ∀ c ∈ toDnf spell t, e ∈ c) (ht : t.eval ρ = true) :
    termSem ρ e = true := by
  rw [← toDnf_sound2 spell hs t hwf hty hn ρ hne] at ht
  simp only [dnfSem, List.any_eq_true] at ht
  obtain ⟨c, hc, hsem⟩ := ht
  exact (clauseSem_iff ρ c).1 hsem e (hall c hc)

/-- the invariant holds for every expression diagram … -/
theorem normBounds_expression (e : MExpr) : NormBounds (expression e) := expression_normBounds e
/-- … and is preserved by the algebra (the bounds of the result are bounds of the operands) -/
theorem normBounds_and (x y : MTree) (hx : NormBounds x) (hy : NormBounds y) : NormBounds (Tree.and x y) :=
  AllB_and NormV x y hx hy
theorem normBounds_or (x y : MTree) (hx : NormBounds x) (hy : NormBounds y) : NormBounds (Tree.or x y) :=
  AllB_or NormV x y hx hy
theorem normBounds_not (x : MTree) (hx : NormBounds x) : NormBounds x.not := Tree.AllB_not NormV x hx

/-- `Typed` holds for every expression diagram and is preserved by the algebra -/
theorem typed_expression (e : MExpr) : Typed (expression e) := Pep508.typed_expression e
theorem typed_and (x y : MTree) (hx : Typed x) (hy : Typed y) : Typed (Tree.and x y) :=
  Pep508.typed_and x y hx hy
theorem typed_or (x y : MTree) (hx : Typed x) (hy : Typed y) : Typed (Tree.or x y) :=
  Pep508.typed_or x y hx hy
theorem typed_not (x : MTree) (hx : Typed x) : Typed x.not := Pep508.typed_not x hx

/-- markers built from the constants and ARBITRARY expressions by `not`, `and`, `or` (what the
parser and the public combinators produce) -/
inductive Built : MTree → Prop where
  | tt : Built (.leaf true)
  | ff : Built (.leaf false)
  | expr (e : MExpr) : Built (expression e)
  | not {x} : Built x → Built x.not
  | and {x y} : Built x → Built y → Built (Tree.and x y)
  | or {x y} : Built x → Built y → Built (Tree.or x y)

/-- every built marker satisfies the three structural hypotheses of the soundness theorem -/
theorem built_invariants (t : MTree) (h : Built t) : t.wf = true ∧ Typed t ∧ NormBounds t := by
  induction h with
  | tt => exact ⟨rfl, trivial, trivial⟩
  | ff => exact ⟨rfl, trivial, trivial⟩
  | expr e => exact ⟨wf_expression e, Pep508.typed_expression e, expression_normBounds e⟩
  | not _ ih => exact ⟨wf_not _ ih.1, Pep508.typed_not _ ih.2.1, Tree.AllB_not NormV _ ih.2.2⟩
  | and _ _ ihx ihy =>
    exact ⟨wf_and _ _ ihx.1 ihy.1, Pep508.typed_and _ _ ihx.2.1 ihy.2.1, AllB_and NormV _ _ ihx.2.2 ihy.2.2⟩
  | or _ _ ihx ihy =>
    exact ⟨wf_or _ _ ihx.1 ihy.1, Pep508.typed_or _ _ ihx.2.1 ihy.2.1, AllB_or NormV _ _ ihx.2.2 ihy.2.2⟩

/-- **DNF soundness for every built marker**, no structural hypothesis left -/
theorem to_dnf_sound_built (spell : Spell) (hs : SpellOK spell) (t : MTree) (hb : Built t)
    (ρ : Env VarR VarB Val) (hne : t ≠ .leaf true) : dnfSem ρ (toDnf spell t) = t.eval ρ :=
  have h := built_invariants t hb
  toDnf_sound2 spell hs t h.1 h.2.1 h.2.2 ρ hne

/-- non-vacuity: a concrete table, a concrete marker -/
example (ρ : Env VarR VarB Val) :
    dnfSem ρ (toDnf spellPlain (Tree.and (expression (.version .pfv ⟨.ge, [3, 8, 0]⟩))
      (Tree.or (expression (.string ⟨12⟩ .contains "win")) (expression (.string ⟨1⟩ .ne "it's"))))) =
    (Tree.and (expression (.version .pfv ⟨.ge, [3, 8, 0]⟩))
      (Tree.or (expression (.string ⟨12⟩ .contains "win")) (expression (.string ⟨1⟩ .ne "it's")))).eval ρ :=
  to_dnf_sound_built spellPlain spellPlain_ok.1 _
    (.and (.expr _) (.or (.expr _) (.expr _))) ρ (by decide)

/-! ### (P2) atoms -/

/-- the word operators, which `AtomFrame.lean` does not cover: `in` needs `is_alphabetic('i')`,
`not <blanks> in` needs `is_alphabetic('n')` -/
theorem word_operators (x : Ext) :
    (x.alpha 'i' = true → OpParses x ['i', 'n'] .isIn) ∧
    (x.alpha 'n' = true → ∀ (w : Char) (ws : List Char), AllP isWs (w :: ws) →
      OpParses x (['n', 'o', 't'] ++ (w :: ws) ++ ['i', 'n']) .notIn) :=
  ⟨opParses_in x, fun h _ _ hw => opParses_notIn x h hw⟩

/-- **atoms re-parse**: the text of `e` parses, in every context in which an atom may end, to `e`
itself, with the warnings `termWarns e` (none, except for an `extra` that is not a name) -/
theorem atom_reparses (x : Ext) (e : MExpr) (h : AtomRT x e) :
    AtomOK x (exprChars e) ∧ atomSem x (exprChars e) = (some e, termWarns e) ∧ AtomHead (exprChars e) :=
  Pep508.atom_reparses x e h

/-- on its own: `MarkerExpression::parse_reporter (e.to_string()) = e` -/
theorem expression_text_parses (x : Ext) (e : MExpr) (h : AtomRT x e) :
    parseExpression x (showExpr e).toList = .ok (some e, termWarns e) := by
  obtain ⟨hok, hsem, _⟩ := Pep508.atom_reparses x e h
  have h0 := hok (Cursor.new (exprChars e)) [] (inv_new _) (by simp [Cursor.new]) (.inr SoftEnd.nil)
  unfold parseExpression
  show (match parseKeyOpValue x (Cursor.new (exprChars e)) with
    | .ok (r, c) => _ | .err e => _ | .panic s => _) = _
  rw [h0, hsem]
  have hr : ((Cursor.new (exprChars e)).adv (exprChars e)).rest = [] := by
    simp [Cursor.adv, Cursor.new]
  have he : ((Cursor.new (exprChars e)).adv (exprChars e)).eatWhitespace.next = none := by
    simp [Cursor.eatWhitespace_eq, hr, Cursor.next]
  simp only [he]

theorem atomRT_of_printable (x : Ext) (hx : ExtReadsPrinted x) (e : MExpr) (h : Printable e) :
    AtomRT x e := by
  cases e with
  | version k s =>
    obtain ⟨h1, h2, h3⟩ := h
    refine ⟨h1, h2, ?_⟩
    unfold relChars
    cases hs : s.op.isStar
    · simpa using hx.plain s.rel h3
    · simpa using hx.star s.rel h3
  | versionIn k vs neg => exact h.elim
  | string k op v => exact ⟨h.1, h.2, fun _ => hx.alpha_i, fun _ => hx.alpha_n⟩
  | extra neg e =>
    cases e with
    | extra n => exact h
    | arbitrary s => exact h

/-! ### the DNF only contains printable shapes -/

/-- `to_dnf` never emits `===`, `~=`, an empty release or a version `in` list (given that the
spelling table never returns the empty release) -/
theorem dnf_forms (spell : Spell) (hsp : ∀ v, spell v ≠ []) (t : MTree) :
    ∀ c ∈ toDnf spell t, ∀ e ∈ c, VForm e := toDnf_form spell hsp t

theorem printable_of_forms (e : MExpr) (h1 : VForm e) (h2 : StrPrintable e) : Printable e := by
  cases e with
  | version k s => exact h1
  | versionIn k vs neg => exact h1.elim
  | string k op v => exact h2
  | extra neg e => cases e <;> exact h2

/-- before `simplify`, no clause is empty -/
theorem collected_clauses_nonempty (spell : Spell) (t : MTree) :
    ∀ c ∈ collectDnf spell (t.size + 1) t [], c ≠ [] := collectDnf_clause_ne_nil spell _ t []

/-! ### (P1) the rendered text is a well-formed layout -/

theorem show_is_layout (spell : Spell) (t : MTree) (hf : t ≠ .leaf false)
    (hnd : NonDegenerate (toDnf spell t)) :
    (showMarker spell t).toList = (astOfDnf (toDnf spell t)).layout := by
  rw [showMarker_toList spell t hf, astOfDnf_layout _ hnd.1 hnd.2]

theorem layout_wf (x : Ext) (d : List (List MExpr)) (hnd : NonDegenerate d)
    (h : ∀ c ∈ d, ∀ e ∈ c, AtomRT x e) : (astOfDnf d).WF ∧ (astOfDnf d).AtomsOK x :=
  astOfDnf_wf x d hnd.1 hnd.2 h

/-- the shape of the derivation, on an example: `(a and b) or c` -/
example (a b c : MExpr) : astOfDnf [[a, b], [c]] =
    .or (.paren [] (.and (.atom [] (exprChars a)) [' '] (.atom [' '] (exprChars b))) []) [' ']
      (.atom [' '] (exprChars c)) := rfl

/-! ### (P3) the text parses to the fold of the DNF -/

/-- the rendering of ANY non-degenerate DNF whose terms re-parse -/
theorem dnf_text_parses (x : Ext) (d : List (List MExpr)) (hnd : NonDegenerate d)
    (h : ∀ c ∈ d, ∀ e ∈ c, AtomRT x e) :
    parseMarkers x (dnfChars d) = .ok (buildDnf d, dnfWarns d) :=
  parseMarkers_dnfChars x d hnd.1 hnd.2 h

/-- **Display then parse**, syntactic form: the parser returns the diagram rebuilt from the DNF -/
theorem display_parses (x : Ext) (spell : Spell) (t : MTree) (hf : t ≠ .leaf false)
    (hnd : NonDegenerate (toDnf spell t)) (h : ∀ c ∈ toDnf spell t, ∀ e ∈ c, AtomRT x e) :
    parseMarkers x (showMarker spell t).toList =
      .ok (buildDnf (toDnf spell t), dnfWarns (toDnf spell t)) := by
  rw [showMarker_toList spell t hf]
  exact parseMarkers_dnfChars x _ hnd.1 hnd.2 h

/-- no warnings unless some `extra` is not a name -/
theorem dnfWarns_nil (d : List (List MExpr))
    (h : ∀ c ∈ d, ∀ e ∈ c, ∀ neg s, e ≠ .extra neg (.arbitrary s)) : dnfWarns d = [] := by
  unfold dnfWarns
  simp only [List.flatMap_eq_nil_iff]
  intro c hc e he
  have := h c hc e he
  cases e with
  | extra neg ev =>
    cases ev with
    | extra n => rfl
    | arbitrary s => exact absurd rfl (this neg s)
  | _ => rfl

/-! ### (P4) the rebuilt diagram -/

theorem rebuild_wf (d : List (List MExpr)) : (buildDnf d).wf = true := buildDnf_wf d

theorem rebuild_eval (ρ : Env VarR VarB Val) (d : List (List MExpr)) :
    (buildDnf d).eval ρ = dnfSem ρ d := buildDnf_eval ρ d

/-- rebuilding the diagram from its DNF gives a diagram of the same function -/
theorem rebuild_sound (spell : Spell) (hs : SpellOK spell) (t : MTree)
    (hwf : t.wf = true) (hty : Typed t) (hn : NormBounds t) (hne : t ≠ .leaf true)
    (ρ : Env VarR VarB Val) : (buildDnf (toDnf spell t)).eval ρ = t.eval ρ := by
  rw [buildDnf_eval, toDnf_sound2 spell hs t hwf hty hn ρ hne]

/-- … hence the same diagram, when `t` is canonical -/
theorem rebuild_eq (spell : Spell) (hs : SpellOK spell) (t : MTree)
    (hwf : t.wf = true) (hty : Typed t) (hn : NormBounds t) (hne : t ≠ .leaf true)
    (hcan : Canonical t) : buildDnf (toDnf spell t) = t :=
  hcan _ (buildDnf_wf _) (rebuild_sound spell hs t hwf hty hn hne)

/-- over a dense value order without end points every well-formed diagram is canonical (C03) — the
model's own `Val` is NOT such an order, see `not_denseUnbounded_val` -/
theorem canonical_of_dense [DenseUnbounded Val] (t : MTree) (hwf : t.wf = true) : Canonical t :=
  haveI : Inhabited Val := ⟨.ver []⟩
  fun u hu h => Pep508.canonical u t hu hwf h

/-! ### discharging the side conditions from the diagram -/

/-- the string terms of the DNF are printable when the diagram is -/
theorem strPrintable_of_diagram (spell : Spell) (t : MTree) (hwf : t.wf = true)
    (hd : DiagramPrintable t) : ∀ c ∈ toDnf spell t, ∀ e ∈ c, StrPrintable e := by
  refine toDnf_vals spell ModernKey Quotable VarBPrintable StrPrintable (fun _ _ => trivial)
    (fun k op s hk hs => ⟨hk, hs⟩) ?_ t hwf hd
  intro v b hv
  cases v with
  | isIn k s => exact hv
  | contains k s => exact hv
  | extra e => cases e <;> exact hv

/-- a diagram that is neither a tautology nor a contradiction has a non-degenerate DNF -/
theorem nonDegenerate_of_contingent (spell : Spell) (hs : SpellOK spell) (t : MTree)
    (hwf : t.wf = true) (hty : Typed t) (hn : NormBounds t) (hc : Contingent t) :
    NonDegenerate (toDnf spell t) := by
  obtain ⟨⟨ρ1, h1⟩, ⟨ρ0, h0⟩⟩ := hc
  have hne : t ≠ .leaf true := by rintro rfl; simp [Tree.eval] at h0
  constructor
  · intro hd
    have := toDnf_sound2 spell hs t hwf hty hn ρ1 hne
    rw [hd, h1] at this
    simp [dnfSem] at this
  · intro c hc hnil
    subst hnil
    have := toDnf_sound2 spell hs t hwf hty hn ρ0 hne
    rw [h0] at this
    have h : dnfSem ρ0 (toDnf spell t) = true := by
      simp only [dnfSem, List.any_eq_true]
      exact ⟨[], hc, rfl⟩
    rw [h] at this
    cases this

/-- a canonical diagram other than TRUE / FALSE is contingent -/
theorem contingent_of_canonical (t : MTree) (hcan : Canonical t) (ht : t ≠ .leaf true)
    (hf : t ≠ .leaf false) : Contingent t := by
  constructor
  · apply Classical.byContradiction
    intro h
    apply hf
    refine (hcan (.leaf false) rfl (fun ρ => ?_)).symm
    cases he : t.eval ρ with
    | false => rfl
    | true => exact absurd ⟨ρ, he⟩ h
  · apply Classical.byContradiction
    intro h
    apply ht
    refine (hcan (.leaf true) rfl (fun ρ => ?_)).symm
    cases he : t.eval ρ with
    | true => rfl
    | false => exact absurd ⟨ρ, he⟩ h

/-! ### the round trip -/

/-- all side conditions of `display_parses`, from conditions on the diagram -/
theorem atomRT_of_diagram (x : Ext) (hx : ExtReadsPrinted x) (spell : Spell)
    (hsp : ∀ v, spell v ≠ []) (t : MTree) (hwf : t.wf = true) (hd : DiagramPrintable t) :
    ∀ c ∈ toDnf spell t, ∀ e ∈ c, AtomRT x e := fun c hc e he =>
  atomRT_of_printable x hx e (printable_of_forms e (toDnf_form spell hsp t c hc e he)
    (strPrintable_of_diagram spell t hwf hd c hc e he))

/-- **C05, text level, up to equivalence**: for every well-formed typed printable diagram that is
neither a tautology nor a contradiction, under every spelling table (`stripZeros ∘ spell = id`, never
the empty release) and every external parser that reads printed releases back, the displayed text
parses without error to a well-formed diagram that evaluates like `t` in every environment; the
warnings are those of the `extra` terms that are not names. -/
theorem display_parse_equiv (x : Ext) (hx : ExtReadsPrinted x) (spell : Spell)
    (hs : SpellOK spell) (hsp : ∀ v, spell v ≠ []) (t : MTree)
    (hwf : t.wf = true) (hty : Typed t) (hn : NormBounds t) (hd : DiagramPrintable t)
    (hc : Contingent t) :
    ∃ u, parseMarkers x (showMarker spell t).toList = .ok (u, dnfWarns (toDnf spell t)) ∧
      u.wf = true ∧ ∀ ρ : Env VarR VarB Val, u.eval ρ = t.eval ρ := by
  have ht : t ≠ .leaf true := by rintro rfl; obtain ⟨_, ⟨ρ, h⟩⟩ := hc; simp [Tree.eval] at h
  have hf : t ≠ .leaf false := by rintro rfl; obtain ⟨⟨ρ, h⟩, _⟩ := hc; simp [Tree.eval] at h
  exact ⟨buildDnf (toDnf spell t),
    display_parses x spell t hf (nonDegenerate_of_contingent spell hs t hwf hty hn hc)
      (atomRT_of_diagram x hx spell hsp t hwf hd),
    buildDnf_wf _, rebuild_sound spell hs t hwf hty hn ht⟩

/-- **C05, text level**: … and that diagram IS `t` when `t` is canonical (the only well-formed
diagram of its function): `parse (display t) = t` -/
theorem display_parse_roundtrip (x : Ext) (hx : ExtReadsPrinted x) (spell : Spell)
    (hs : SpellOK spell) (hsp : ∀ v, spell v ≠ []) (t : MTree)
    (hwf : t.wf = true) (hty : Typed t) (hn : NormBounds t) (hd : DiagramPrintable t)
    (ht : t ≠ .leaf true) (hf : t ≠ .leaf false) (hcan : Canonical t) :
    parseMarkers x (showMarker spell t).toList = .ok (t, dnfWarns (toDnf spell t)) := by
  obtain ⟨u, h1, h2, h3⟩ := display_parse_equiv x hx spell hs hsp t hwf hty hn hd
    (contingent_of_canonical t hcan ht hf)
  rw [h1, hcan u h2 h3]

/-- the text round trip holds exactly when rebuilding the diagram from its DNF gives it back: what
remains of C05 after this file is a statement about diagrams, not about text -/
theorem display_parse_roundtrip_iff (x : Ext) (spell : Spell) (t : MTree) (hf : t ≠ .leaf false)
    (hnd : NonDegenerate (toDnf spell t)) (h : ∀ c ∈ toDnf spell t, ∀ e ∈ c, AtomRT x e) :
    parseMarkers x (showMarker spell t).toList = .ok (t, dnfWarns (toDnf spell t)) ↔
      buildDnf (toDnf spell t) = t := by
  rw [display_parses x spell t hf hnd h]
  constructor
  · intro h'
    injection h' with h'
    exact (Prod.mk.inj h').1
  · intro h'; rw [h']

/-! ### identity without the canonicity hypothesis: diagrams with separated bounds -/

/-- every bound of the diagram is a separated value (`SepV`): a version other than `0` whose last
segment is not zero (as stored: trailing zeros are stripped), or a string not ending in U+0000 -/
def SepBounds (t : MTree) : Prop := t.AllB SepV

example (w : List Nat) : SepV (.ver w) ↔ w ≠ [] ∧ w.getLast? ≠ some 0 := Iff.rfl
example (s : String) : SepV (.str s) ↔ s.toList.getLast? ≠ some (Char.ofNat 0) := Iff.rfl

/-- separated bounds are normalized -/
theorem normBounds_of_sep (t : MTree) (hb : SepBounds t) : NormBounds t := Tree.AllB_mono sep_norm t hb

/-- the model's value order is not dense, but every valid interval whose bounds are separated
values contains a value -/
theorem separated_intervals_inhabited : Inhabits SepV := inhabits_sep

/-- **relative canonicity** (C03 at the model's own value order): two well-formed diagrams with
separated bounds that agree in every environment are identical -/
theorem canonical_of_sep (t u : MTree) (ht : t.wf = true) (hu : u.wf = true) (bt : SepBounds t)
    (bu : SepBounds u) (h : ∀ ρ : Env VarR VarB Val, u.eval ρ = t.eval ρ) : u = t :=
  canonical_sep t u ht hu bt bu h

/-- the bounds of `and` / `or` are bounds of the operands -/
theorem sepBounds_and (x y : MTree) (hx : SepBounds x) (hy : SepBounds y) : SepBounds (Tree.and x y) :=
  AllB_and SepV x y hx hy
theorem sepBounds_or (x y : MTree) (hx : SepBounds x) (hy : SepBounds y) : SepBounds (Tree.or x y) :=
  AllB_or SepV x y hx hy

/-- the bounds of the terms of `to_dnf`, hence of the rebuilt diagram, are bounds of the diagram -/
theorem rebuild_sepBounds (spell : Spell) (hs : SpellOK spell) (t : MTree)
    (hwf : t.wf = true) (hty : Typed t) (hb : SepBounds t) : SepBounds (buildDnf (toDnf spell t)) :=
  buildDnf_sep _ (toDnf_sep spell hs t hwf hty hb)

/-- **(P4) rebuilding a diagram from its DNF gives the diagram back** -/
theorem rebuild_identity (spell : Spell) (hs : SpellOK spell) (t : MTree)
    (hwf : t.wf = true) (hty : Typed t) (hne : t ≠ .leaf true) (hb : SepBounds t) :
    buildDnf (toDnf spell t) = t := buildDnf_toDnf spell hs t hwf hty hne hb

/-- a diagram with separated bounds other than TRUE / FALSE is contingent -/
theorem contingent_of_sep (t : MTree) (hwf : t.wf = true) (hb : SepBounds t) (ht : t ≠ .leaf true)
    (hf : t ≠ .leaf false) : Contingent t := by
  constructor
  · apply Classical.byContradiction
    intro h
    apply hf
    refine (canonical_sep t (.leaf false) hwf rfl hb trivial (fun ρ => ?_)).symm
    cases he : t.eval ρ with
    | false => rfl
    | true => exact absurd ⟨ρ, he⟩ h
  · apply Classical.byContradiction
    intro h
    apply ht
    refine (canonical_sep t (.leaf true) hwf rfl hb trivial (fun ρ => ?_)).symm
    cases he : t.eval ρ with
    | true => rfl
    | false => exact absurd ⟨ρ, he⟩ h

/-- **C05, text level: `parse (display t) = t`.**  For every well-formed, typed, printable diagram
other than TRUE and FALSE whose bounds are separated values, every spelling table
(`stripZeros ∘ spell = id`, never the empty release) and every external parser that reads printed
releases back: the displayed text parses without error to `t` itself; the warnings are those of the
`extra` terms that are not names. -/
theorem display_parse_roundtrip_sep (x : Ext) (hx : ExtReadsPrinted x) (spell : Spell)
    (hs : SpellOK spell) (hsp : ∀ v, spell v ≠ []) (t : MTree)
    (hwf : t.wf = true) (hty : Typed t) (hd : DiagramPrintable t) (ht : t ≠ .leaf true)
    (hf : t ≠ .leaf false) (hb : SepBounds t) :
    parseMarkers x (showMarker spell t).toList = .ok (t, dnfWarns (toDnf spell t)) := by
  have hc := contingent_of_sep t hwf hb ht hf
  rw [display_parses x spell t hf
      (nonDegenerate_of_contingent spell hs t hwf hty (normBounds_of_sep t hb) hc)
    (atomRT_of_diagram x hx spell hsp t hwf hd), rebuild_identity spell hs t hwf hty ht hb]

/-! ### what is false, on concrete inputs -/

/-- the model's value order has a least element (version `0`, the empty normalized release): it is
not dense-unbounded, so C03 cannot be applied to `MTree` directly -/
theorem not_denseUnbounded_val : ¬ DenseUnbounded Val := C03.val_not_dense_unbounded

/-- what the FALSE literal parses to -/
def falseReparsed : MTree := expression (.version .pyVer ⟨.lt, [0]⟩)

/-- FALSE: the literal parses, to a diagram that is not the FALSE terminal although it is false in
every environment (nothing is below version `0`) -/
theorem false_text_reparses (x : Ext) (spell : Spell)
    (hx : x.pat ['0'] = some (⟨[0], false⟩, false)) :
    parseMarkers x (showMarker spell (.leaf false)).toList = .ok (falseReparsed, []) ∧
      falseReparsed ≠ .leaf false ∧ falseReparsed.wf = true ∧
      ∀ ρ : Env VarR VarB Val, falseReparsed.eval ρ = false := by
  refine ⟨?_, by decide, by decide, ?_⟩
  · have h := parseMarkers_dnfChars x [[.version .pyVer ⟨.lt, [0]⟩]] (by simp) (by simp) (by
      intro c hc e he
      simp only [List.mem_singleton] at hc
      subst hc
      simp only [List.mem_singleton] at he
      subst he
      exact ⟨by simp, by simp, hx⟩)
    rw [false_literal]
    exact h
  · intro ρ
    have h1 : ¬ ρ.rv (.ver .pfv) < Val.ver [] := by
      intro h
      cases hv : ρ.rv (.ver .pfv) with
      | ver a => rw [hv] at h; cases a <;> simp [Val.lt_ver, verLt] at h
      | str s => rw [hv] at h; exact Val.not_lt_str_ver s [] h
    have e : falseReparsed = .rng (.ver .pfv) (.cons ⟨.unb, .excl (.ver [])⟩ (.leaf true)
        (.cons ⟨.incl (.ver []), .unb⟩ (.leaf false) .nil)) := by decide
    rw [e]
    simp [Tree.eval, Edges.eval, Ivl.mem, Bnd.loOk, Bnd.hiOk, h1]

/-- so FALSE is not canonical among `Val` diagrams, and its round trip is an equivalence only -/
theorem false_not_canonical : ¬ Canonical (.leaf false) := by
  intro h
  have hx : (⟨fun _ => none, fun _ => some (⟨[0], false⟩, false), fun _ => false⟩ : Ext).pat ['0'] =
      some (⟨[0], false⟩, false) := rfl
  obtain ⟨_, h2, h3, h4⟩ := false_text_reparses _ id hx
  exact h2 (h falseReparsed h3 (fun ρ => by rw [h4 ρ]; rfl))

/-- a deprecated key spelling (`os.name`, variable 2) prints under the modern name and re-parses
to the modern variable (1): the re-parsed diagram differs from the original -/
theorem deprecated_key_not_identical (x : Ext) :
    let t : MTree := expression (.string ⟨2⟩ .eq "a")
    showMarker id t = "os_name == 'a'" ∧
    parseMarkers x (showMarker id t).toList = .ok (expression (.string ⟨1⟩ .eq "a"), []) ∧
    expression (.string ⟨1⟩ .eq "a") ≠ t := by
  intro t
  have hs : showMarker id t = "os_name == 'a'" := by decide
  refine ⟨hs, ?_, by decide⟩
  have h := parseMarkers_dnfChars x [[.string ⟨1⟩ .eq "a"]] (by simp) (by simp) (by
    intro c hc e he
    simp only [List.mem_singleton] at hc
    subst hc
    simp only [List.mem_singleton] at he
    subst he
    exact ⟨.inr (.inl rfl), by unfold Quotable; decide, by simp, by simp⟩)
  rw [hs]
  exact h

/-- a value containing both quote characters: `Display` writes `os_name == "'""`, which is
rejected (error at the stray quote, byte 14) — for every external parser -/
theorem both_quotes_rejected (x : Ext) :
    let t : MTree := expression (.string ⟨1⟩ .eq "'\"")
    ¬ Quotable "'\"" ∧
    parseMarkers x (showMarker id t).toList = .err ⟨.string, 14, 0⟩ := by
  intro t
  refine ⟨by unfold Quotable; decide, ?_⟩
  have hs : (showMarker id t).toList =
      (MAst.atom [] (atomKOV "os_name".toList [' '] ['=', '='] [' '] '"' ['\''])).layout ++ ['"'] := by
    decide
  have ha := atomOK_kov_gen x (k := "os_name".toList) (kv := .strKey ⟨1⟩) (w1 := [' ']) (w2 := [' '])
    (o := ['=', '=']) (op := .eq) (q := '"') (v := ['\'']) (by decide) ((headIs_iff _ _).2 (by decide))
    (by decide) (by decide) (by simp) ((headIs_iff _ _).2 (by decide))
    (opParses_sym x (by decide) (by decide)) (by decide) (by decide) (by decide)
  rw [hs]
  exact parseMarkers_layout_rest x _ ['"'] ⟨AllP.nil _, 'o', _, rfl, by decide, by decide⟩ ha.1
    (.inl (by decide)) (by unfold NotKw; decide) (by unfold NotKw; decide)

/-- TRUE has no text: `Display` would write the empty string, which is not a marker -/
theorem true_text_rejected (x : Ext) (spell : Spell) :
    showMarker spell (.leaf true) = "" ∧ parseMarkers x [] = .err ⟨.string, 0, 1⟩ := by
  refine ⟨?_, rfl⟩
  have : toDnf spell (.leaf true) = [] := toDnf_true spell
  simp [showMarker, this]

/-! ### sanity: the hypotheses are satisfiable and the round trip is an identity on examples -/

/-- an external parser that reads releases the way pep440 does on the texts used below -/
private def xDemo : Ext :=
  ⟨fun _ => none,
   fun s => if s = "3.8".toList then some (⟨[3, 8], false⟩, false)
     else if s = "3.8.*".toList then some (⟨[3, 8], false⟩, true) else none,
   fun c => c.isAlpha⟩

/-- `python_full_version >= '3.8' and ('win' in sys_platform or os_name != "it's")`, displayed and
re-parsed: the same diagram, no warning -/
private def tDemo : MTree := Tree.and (expression (.version .pfv ⟨.ge, [3, 8]⟩))
  (Tree.or (expression (.string ⟨12⟩ .contains "win")) (expression (.string ⟨1⟩ .ne "it's")))

example : showMarker spellPlain tDemo =
    "(python_full_version >= '3.8' and os_name != \"it's\") or (python_full_version >= '3.8' and 'win' in sys_platform)" := by
  decide

/-- … and, through the theorems above (all hypotheses discharged for this external parser), it
parses back to the very same diagram, without warnings -/
example : parseMarkers xDemo (showMarker spellPlain tDemo).toList = .ok (tDemo, []) := by
  have hd : toDnf spellPlain tDemo =
      [[.version .pfv ⟨.ge, [3, 8]⟩, .string ⟨1⟩ .ne "it's"],
       [.version .pfv ⟨.ge, [3, 8]⟩, .string ⟨12⟩ .contains "win"]] := by decide
  have hnd : NonDegenerate (toDnf spellPlain tDemo) := by rw [hd]; exact ⟨by simp, by simp⟩
  have hv : AtomRT xDemo (.version .pfv ⟨.ge, [3, 8]⟩) := ⟨by simp, by simp, by decide⟩
  have hat : ∀ c ∈ toDnf spellPlain tDemo, ∀ e ∈ c, AtomRT xDemo e := by
    rw [hd]
    intro c hc e he
    simp only [List.mem_cons, List.not_mem_nil, or_false] at hc
    rcases hc with rfl | rfl <;> simp only [List.mem_cons, List.not_mem_nil, or_false] at he <;>
      rcases he with rfl | rfl
    · exact hv
    · exact ⟨.inr (.inl rfl), by unfold Quotable; decide, by simp, by simp⟩
    · exact hv
    · exact ⟨by simp [ModernKey], by unfold Quotable; decide, fun _ => by decide, by simp⟩
  have h := (display_parse_roundtrip_iff xDemo spellPlain tDemo (by decide) hnd hat).2 (by decide)
  rw [h, hd]
  rfl

/-! ### the hypothesis on the external parser is satisfiable -/

/-- read a dotted release back: split at the dots, read each piece as a decimal number -/
def readRel (s : List Char) : List Nat := (s.splitOn '.').map fun p => Nat.ofDigitChars 10 p 0

theorem readRel_show (r : List Nat) (hr : r ≠ []) : readRel (showRelDots r).toList = r := by
  unfold readRel showRelDots
  rw [String.toList_intercalate, List.map_map]
  have h1 : (".".toList : List Char) = ['.'] := rfl
  rw [h1, List.splitOn_intercalate]
  · rw [List.map_map]
    conv => rhs; rw [← List.map_id r]
    apply List.map_congr_left
    intro n _
    simp [Nat.toString_eq_repr]
  · intro l hl
    simp only [List.mem_map, Function.comp] at hl
    obtain ⟨n, _, rfl⟩ := hl
    intro hc
    have := toString_nat_chars n '.' hc
    exact absurd this (by decide)
  · simpa using hr

/-- a model of `VersionPattern::from_str` on release-only texts, and `char::is_alphabetic` -/
def xRead : Ext :=
  ⟨fun _ => none,
   fun s => if s.getLast? = some '*' then some (⟨readRel s.dropLast.dropLast, false⟩, true)
     else some (⟨readRel s, false⟩, false),
   fun c => c.isAlpha⟩

theorem xRead_readsPrinted : ExtReadsPrinted xRead := by
  refine ⟨fun r hr => ?_, fun r hr => ?_, by decide, by decide⟩
  · have hl : (showRelDots r).toList.getLast? ≠ some '*' := by
      intro h
      rcases showRelDots_chars r '*' (List.mem_of_getLast? h) with h' | h'
      · exact absurd h' (by decide)
      · exact absurd h' (by decide)
    show (if (showRelDots r).toList.getLast? = some '*' then _ else _) = _
    rw [if_neg hl, readRel_show r hr]
  · show (if ((showRelDots r).toList ++ ['.', '*']).getLast? = some '*' then _ else _) = _
    have h1 : ((showRelDots r).toList ++ ['.', '*']).getLast? = some '*' := by simp
    have h2 : ((showRelDots r).toList ++ ['.', '*']).dropLast.dropLast = (showRelDots r).toList := by
      rw [show (showRelDots r).toList ++ ['.', '*'] = ((showRelDots r).toList ++ ['.']) ++ ['*'] by simp,
        List.dropLast_concat, List.dropLast_concat]
    rw [if_pos h1, h2, readRel_show r hr]

/-- `os_name == 'a'`: every hypothesis of `display_parse_roundtrip_sep` holds, so its text parses
back to the diagram itself -/
example : parseMarkers xRead (showMarker spellPlain (expression (.string ⟨1⟩ .eq "a"))).toList =
    .ok (expression (.string ⟨1⟩ .eq "a"), []) := by
  have e : expression (.string ⟨1⟩ .eq "a") =
      (.rng (.str ⟨1⟩) (.cons ⟨.unb, .excl (.str "a")⟩ (.leaf false)
        (.cons ⟨.incl (.str "a"), .incl (.str "a")⟩ (.leaf true)
          (.cons ⟨.excl (.str "a"), .unb⟩ (.leaf false) .nil))) : MTree) := by decide
  have hq : Quotable "a" := by unfold Quotable; decide
  have hsep : SepV (.str "a") := by show "a".toList.getLast? ≠ some nulChar; decide
  have h := display_parse_roundtrip_sep xRead xRead_readsPrinted spellPlain spellPlain_ok.1
    spellPlain_ok.2 (expression (.string ⟨1⟩ .eq "a")) (by decide)
    (by rw [e]; simp [Typed, TypedE, Ivl.Kind, Bnd.Kind, kindOf])
    (by rw [e]; simp [DiagramPrintable, DiagAll, EdgesAll, ModernKey, Ivl.Kind, Bnd.Kind, Val.strOf, hq])
    (by decide) (by decide)
    (by rw [e]; simp [SepBounds, Tree.AllB, Edges.AllB, Ivl.Kind, Bnd.Kind, hsep])
  rw [h]
  rfl

end Pep508.C05

section
open Pep508.C05
#print axioms Pep508.C05.old_spelling_hypothesis_unsatisfiable
#print axioms Pep508.C05.spelling_hypothesis_satisfiable
#print axioms Pep508.C05.to_dnf_sound_norm
#print axioms Pep508.C05.collect_exact_norm
#print axioms Pep508.C05.common_term_holds_norm
#print axioms Pep508.C05.typed_expression
#print axioms Pep508.C05.typed_and
#print axioms Pep508.C05.typed_or
#print axioms Pep508.C05.typed_not
#print axioms Pep508.C05.built_invariants
#print axioms Pep508.C05.to_dnf_sound_built
#print axioms Pep508.C05.normBounds_expression
#print axioms Pep508.C05.normBounds_and
#print axioms Pep508.C05.normBounds_or
#print axioms Pep508.C05.normBounds_not
#print axioms Pep508.C05.word_operators
#print axioms Pep508.C05.atom_reparses
#print axioms Pep508.C05.expression_text_parses
#print axioms Pep508.C05.atomRT_of_printable
#print axioms Pep508.C05.dnf_forms
#print axioms Pep508.C05.collected_clauses_nonempty
#print axioms Pep508.C05.show_is_layout
#print axioms Pep508.C05.layout_wf
#print axioms Pep508.C05.dnf_text_parses
#print axioms Pep508.C05.display_parses
#print axioms Pep508.C05.dnfWarns_nil
#print axioms Pep508.C05.rebuild_wf
#print axioms Pep508.C05.rebuild_eval
#print axioms Pep508.C05.rebuild_sound
#print axioms Pep508.C05.rebuild_eq
#print axioms Pep508.C05.canonical_of_dense
#print axioms Pep508.C05.strPrintable_of_diagram
#print axioms Pep508.C05.nonDegenerate_of_contingent
#print axioms Pep508.C05.contingent_of_canonical
#print axioms Pep508.C05.atomRT_of_diagram
#print axioms Pep508.C05.display_parse_equiv
#print axioms Pep508.C05.display_parse_roundtrip
#print axioms Pep508.C05.display_parse_roundtrip_iff
#print axioms Pep508.C05.separated_intervals_inhabited
#print axioms Pep508.C05.canonical_of_sep
#print axioms Pep508.C05.rebuild_sepBounds
#print axioms Pep508.C05.rebuild_identity
#print axioms Pep508.C05.contingent_of_sep
#print axioms Pep508.C05.display_parse_roundtrip_sep
#print axioms Pep508.C05.xRead_readsPrinted
#print axioms Pep508.C05.not_denseUnbounded_val
#print axioms Pep508.C05.false_text_reparses
#print axioms Pep508.C05.false_not_canonical
#print axioms Pep508.C05.deprecated_key_not_identical
#print axioms Pep508.C05.both_quotes_rejected
#print axioms Pep508.C05.true_text_rejected
end
