/-
C05 — marker text round trip: rendering lemmas.  (The DNF soundness theorems live in
Proofs/DnfCollect.lean / DnfSimplify.lean and are listed in props.py as they are proved.)
-/
import Pep508.Model.Dnf
import Pep508.Proofs.DnfCollect
namespace Pep508.C05
open Pep508

/-! NOTE (audit): the hypothesis `hs : ∀ v, stripZeros (spell v) = v` of `to_dnf_sound`, `collect_exact` and
`common_term_holds` below is UNSATISFIABLE (`stripZeros` never returns `[0]`;
`C05.old_spelling_hypothesis_unsatisfiable`), so these three statements are vacuous.  They are kept only for the
record and are NOT registered as obligations any more; the repaired statements (`SpellOK spell` + the invariant
`NormBounds t`, both proved satisfiable and closed under the API) are `to_dnf_sound_norm`, `collect_exact_norm`,
`common_term_holds_norm`, `to_dnf_sound_built` in `Theorems/C05b.lean`. -/

/-- (VACUOUS as stated, see the note above) **the clauses returned by `to_dnf()` denote the same function as the marker**: for every
    well-formed, well-typed diagram other than TRUE, every environment, and every spelling of
    the versions in it (`spell` is what the process happens to print: K1) -/
theorem to_dnf_sound (spell : Spell) (hs : ∀ v, stripZeros (spell v) = v) (t : MTree)
    (hwf : t.wf = true) (hty : Typed t) (ρ : Env VarR VarB Val) (hne : t ≠ .leaf true) :
    dnfSem ρ (toDnf spell t) = t.eval ρ := toDnf_sound' spell hs t hwf hty ρ hne

/-- the quadratic simplifier (batched redundant-term elimination with `is_negation`, then
    redundant-clause elimination) never changes the meaning of a DNF -/
theorem simplify_sound (ρ : Env VarR VarB Val) (d : List (List MExpr)) (hok : AllOK d) :
    dnfSem ρ (simplifyDnf d) = dnfSem ρ d := simplifyDnf_sound ρ d hok

/-- path collection alone (before simplification) is exact -/
theorem collect_exact (spell : Spell) (hs : ∀ v, stripZeros (spell v) = v) (ρ : Env VarR VarB Val)
    (t : MTree) (hwf : t.wf = true) (hty : Typed t) (hne : t ≠ .leaf true) :
    dnfSem ρ (collectDnf spell (t.size + 1) t []) = t.eval ρ := by
  rw [collectDnf_sem spell hs ρ (t.size + 1) t [] (by omega) hwf hty (Or.inr hne)]
  simp [clauseSem]

/-- `is_negation` only pairs terms with opposite meaning -/
theorem is_negation_sound (ρ : Env VarR VarB Val) (a b : MExpr) (hb : TermOK b)
    (h : isNegation a b = true) : termSem ρ a = !termSem ρ b := isNegation_sound ρ a b hb h

/-- `top_level_extra` (C11): a term occurring in every clause of the DNF holds in every
    satisfying assignment -/
theorem common_term_holds (spell : Spell) (hs : ∀ v, stripZeros (spell v) = v) (t : MTree)
    (hwf : t.wf = true) (hty : Typed t) (ρ : Env VarR VarB Val) (hne : t ≠ .leaf true)
    (e : MExpr) (hall : ∀ c ∈ toDnf spell t, e ∈ c) (ht : t.eval ρ = true) : termSem ρ e = true :=
  toDnf_common_term spell hs t hwf hty ρ hne e hall ht

/-- the constant FALSE is rendered as the fixed literal, whatever the spelling table -/
theorem false_literal (spell : Spell) : showMarker spell (.leaf false) = "python_version < '0'" := by
  simp [showMarker]

/-- (F8) a value is written in single quotes unless it contains one; the chosen quote character
    never occurs in the value when the value contains at most one kind of quote -/
theorem quote_choice (v : String) (h : ¬ (v.toList.contains '\'' = true ∧ v.toList.contains '"' = true)) :
    (quoted v = "'" ++ v ++ "'" ∧ v.toList.contains '\'' = false) ∨
    (quoted v = "\"" ++ v ++ "\"" ∧ v.toList.contains '"' = false) := by
  unfold quoted
  by_cases h1 : v.toList.contains '\'' = true
  · right; simp only [h1, if_true, true_and]
    cases h2 : v.toList.contains '"' with
    | false => rfl
    | true => exact absurd ⟨h1, h2⟩ h
  · left
    have h1' : v.toList.contains '\'' = false := by simpa using h1
    simp only [h1', Bool.false_eq_true, if_false, and_self]

end Pep508.C05
