/-
C05 — marker text round trip: rendering lemmas.  (The DNF soundness theorems live in
Proofs/DnfCollect.lean / DnfSimplify.lean and are listed in props.py as they are proved.)
-/
import Pep508.Model.Dnf
namespace Pep508.C05
open Pep508

/-- the constant FALSE is rendered as the fixed literal, whatever the spelling table -/
theorem false_literal (spell : Spell) : showMarker spell (.leaf false) = "python_version < '0'" := by
  simp [showMarker]

/-- (F8) a value is written in single quotes unless it contains one; the chosen quote character
    never occurs in the value when the value contains at most one kind of quote -/
theorem quote_choice (v : String) (h : ¬ (v.toList.contains '\'' = true ∧ v.toList.contains '"' = true)) :
    (quoted v = "'" ++ v ++ "'" ∧ v.toList.contains '\'' = false) ∨
    (quoted v = "\"" ++ v ++ "\"" ∧ v.toList.contains '"' = false) := by
  unfold quoted
  by_cases h1 : v.toList.contains '\'' = true
  · right; simp only [h1, if_true, true_and]
    cases h2 : v.toList.contains '"' with
    | false => rfl
    | true => exact absurd ⟨h1, h2⟩ h
  · left
    have h1' : v.toList.contains '\'' = false := by simpa using h1
    simp only [h1', Bool.false_eq_true, if_false, and_self]

end Pep508.C05
